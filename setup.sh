#!/bin/sh
# Build the framework from files on disk only (offline).
set -e
cd "$(dirname "$0")"
export GOFLAGS=-mod=mod GOPROXY=off
mkdir -p build/bin evidence replays
(cd lean && lake build Bkl bklmodel BklProofs 2>&1 | tail -5)
cp /repo/go.sum harness/go.sum
(cd harness && go build -tags verif -o ../build/bin/bklgo ./cmd/bklgo)
for c in bkl bkld bkli bklr bklb; do (cd /repo && go build -o /verif/build/bin/$c ./cmd/$c); done
echo setup done
