#!/bin/sh
# Build the framework from files on disk only (offline).
set -e
cd "$(dirname "$0")"
export GOFLAGS=-mod=mod GOPROXY=off
mkdir -p build/bin evidence replays
cp /repo/go.sum harness/go.sum
(cd harness && go build -tags verif -o ../build/bin/bklgo ./cmd/bklgo && go build -o ../build/bin/extract ./cmd/extract && go build -o ../build/bin/gotrans ./cmd/gotrans && go build -o ../build/bin/recorder ./cmd/recorder)
for c in bkl bkld bkli bklr bklb; do (cd /repo && go build -o /verif/build/bin/$c ./cmd/$c); done
python3 -c "import sys; sys.path.insert(0, 'run'); import common; common.gen_facts()"
(cd lean && lake build Bkl bklmodel Generated BklProofs BklProofs.Facts.Formats BklProofs.Facts.Ranges BklProofs.Facts.Safety BklProofs.Facts.Literals BklProofs.Facts.Reads BklProofs.Facts.Dispatch BklProofs.Facts.DispatchFiles BklProofs.Facts.DispatchMerge BklProofs.Facts.DispatchRefs BklProofs.Facts.DispatchOutput BklProofs.Facts.DispatchEval BklProofs.Facts.DispatchEscape BklProofs.Facts.State BklProofs.Facts.StateParser BklProofs.Facts.StateFiles BklProofs.Facts.StateTools BklProofs.Facts.TransValidate BklProofs.Facts.TransFinalize BklProofs.Facts.TransMatch BklProofs.Facts.TransUtil BklProofs.Facts.TransBklr BklProofs.Facts.TransBkli BklProofs.Facts.TransFilter BklProofs.Facts.TransOutput BklProofs.Facts.TransBkld BklProofs.Facts.TransEncode BklProofs.Facts.TransEncode2 BklProofs.Facts.TransMerge BklProofs.Facts.TransRepeat BklProofs.Facts.TransGet BklProofs.Facts.TransProcess2 BklProofs.Facts.SourceC01 BklProofs.Facts.SourceC06 BklProofs.Facts.SourceC07 BklProofs.Facts.SourceC11 BklProofs.Facts.SourceMatch BklProofs.Facts.SourceC10 BklProofs.Facts.SourceC12 BklProofs.Facts.SourceC14 BklProofs.Facts.SourceC15 BklProofs.Facts.SourceC16 BklProofs.Facts.SourceC17 BklProofs.Facts.SourceC13 2>&1 | tail -5)
echo setup done
