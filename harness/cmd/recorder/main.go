// recorder — stand-in for the program wrapped by bklb: records argv and the content of every
// argument that names a readable regular file, as JSON, into $RECORD_OUT.
package main

import (
	"encoding/base64"
	"encoding/json"
	"os"
)

func main() {
	rec := map[string]any{"argv0": os.Args[0], "args": os.Args[1:]}
	files := map[string]string{}
	for _, a := range os.Args[1:] {
		st, err := os.Stat(a)
		if err != nil || !st.Mode().IsRegular() {
			continue
		}
		b, err := os.ReadFile(a)
		if err != nil {
			continue
		}
		files[a] = base64.StdEncoding.EncodeToString(b)
	}
	rec["files"] = files
	out, _ := json.Marshal(rec)
	if p := os.Getenv("RECORD_OUT"); p != "" {
		os.WriteFile(p, out, 0o644)
	} else {
		os.Stdout.Write(out)
	}
}
