// bklgo — line-protocol driver over the real bkl library (public API only).
// One JSON object per input line, one per output line; see /verif/DESIGN.md §5.1.
package main

import (
	"bufio"
	"bytes"
	"encoding/base64"
	"encoding/json"
	"errors"
	"fmt"
	"os"
	"reflect"
	"runtime"
	"runtime/debug"
	"sort"
	"strconv"
	"sync"
	"time"

	"github.com/gopatchy/bkl"
	"gopkg.in/yaml.v3"
)

var sentinels = []struct {
	name string
	err  error
}{
	{"circularRef", bkl.ErrCircularRef}, {"conflictingParent", bkl.ErrConflictingParent},
	{"extraEntries", bkl.ErrExtraEntries}, {"extraKeys", bkl.ErrExtraKeys},
	{"invalidArguments", bkl.ErrInvalidArguments}, {"invalidDirective", bkl.ErrInvalidDirective},
	{"invalidIndex", bkl.ErrInvalidIndex}, {"invalidFilename", bkl.ErrInvalidFilename},
	{"invalidType", bkl.ErrInvalidType}, {"invalidParent", bkl.ErrInvalidParent},
	{"invalidRepeat", bkl.ErrInvalidRepeat}, {"marshal", bkl.ErrMarshal},
	{"refNotFound", bkl.ErrRefNotFound}, {"missingEnv", bkl.ErrMissingEnv},
	{"missingFile", bkl.ErrMissingFile}, {"missingMatch", bkl.ErrMissingMatch},
	{"multiMatch", bkl.ErrMultiMatch}, {"noMatchFound", bkl.ErrNoMatchFound},
	{"noCloneFound", bkl.ErrNoCloneFound}, {"outputFile", bkl.ErrOutputFile},
	{"requiredField", bkl.ErrRequiredField}, {"unknownFormat", bkl.ErrUnknownFormat},
	{"unmarshal", bkl.ErrUnmarshal}, {"uselessOverride", bkl.ErrUselessOverride},
	{"variableNotFound", bkl.ErrVariableNotFound},
}

func errClass(err error) string {
	for _, s := range sentinels {
		if errors.Is(err, s.err) {
			return s.name
		}
	}
	return "other"
}

func errObj(err error) map[string]any {
	return map[string]any{"err": errClass(err), "msg": err.Error()}
}

// fromWire converts the typed wire encoding into the Go values bkl works on.
func fromWire(v any) (any, error) {
	switch v2 := v.(type) {
	case nil, bool, string:
		return v2, nil
	case []any:
		// grown by append, like every list that bkl's loader hands on (normalize -> filterList): a list of 3 has
		// room for a 4th entry, which is what makes a shared backing array observable
		ret := []any{}
		for _, x := range v2 {
			y, err := fromWire(x)
			if err != nil {
				return nil, err
			}
			ret = append(ret, y)
		}
		return ret, nil
	case map[string]any:
		if s, ok := v2["i"].(string); ok {
			n, err := strconv.ParseInt(s, 10, 64)
			if err != nil {
				return nil, err
			}
			return int(n), nil
		}
		if s, ok := v2["f"].(string); ok {
			return strconv.ParseFloat(s, 64)
		}
		if m, ok := v2["m"].([]any); ok {
			ret := map[string]any{}
			for _, e := range m {
				kv, ok := e.([]any)
				if !ok || len(kv) != 2 {
					return nil, fmt.Errorf("bad map entry")
				}
				k, ok := kv[0].(string)
				if !ok {
					return nil, fmt.Errorf("bad map key")
				}
				y, err := fromWire(kv[1])
				if err != nil {
					return nil, err
				}
				ret[k] = y
			}
			return ret, nil
		}
		return nil, fmt.Errorf("bad value object")
	default:
		return nil, fmt.Errorf("bad wire value %T", v)
	}
}

// toWire renders a Go value; anything the model has no constructor for becomes {"x": type}.
func toWire(v any) any {
	switch v2 := v.(type) {
	case nil:
		return nil
	case bool:
		return v2
	case string:
		return v2
	case int:
		return map[string]any{"i": strconv.Itoa(v2)}
	case float64:
		return map[string]any{"f": strconv.FormatFloat(v2, 'g', -1, 64)}
	case []any:
		ret := make([]any, 0, len(v2))
		for _, x := range v2 {
			ret = append(ret, toWire(x))
		}
		return ret
	case map[string]any:
		keys := make([]string, 0, len(v2))
		for k := range v2 {
			keys = append(keys, k)
		}
		sort.Strings(keys)
		ents := make([]any, 0, len(keys))
		for _, k := range keys {
			ents = append(ents, []any{k, toWire(v2[k])})
		}
		return map[string]any{"m": ents}
	default:
		return map[string]any{"x": fmt.Sprintf("%T", v), "repr": fmt.Sprintf("%v", v)}
	}
}

func toWireList(vs []any) []any {
	ret := make([]any, 0, len(vs))
	for _, v := range vs {
		ret = append(ret, toWire(v))
	}
	return ret
}

// sharedContainers finds non-empty maps / slices reachable by two paths from the
// parser's documents (separation monitor, DESIGN §5.2). It returns the count and, for the
// first few, both access paths ([doc index, {"k":key}|{"i":index}...]) so that the
// orchestrator can aim a follow-up layer at one of them and look at the other.
func sharedContainers(docs []*bkl.Document) (int, []any) {
	seen := map[uintptr][]any{}
	shared := 0
	pairs := []any{}
	var walk func(v any, path []any)
	visit := func(p uintptr, path []any) bool {
		if first, ok := seen[p]; ok {
			shared++
			if len(pairs) < 6 {
				pairs = append(pairs, map[string]any{"a": first, "b": append([]any{}, path...)})
			}
			return true
		}
		seen[p] = append([]any{}, path...)
		return false
	}
	walk = func(v any, path []any) {
		switch v2 := v.(type) {
		case map[string]any:
			// an empty map is as mutable as any other (mergeMapMap writes into it); only nil has no identity
			if ptr := reflect.ValueOf(v2).Pointer(); ptr != 0 && visit(ptr, path) {
				return
			}
			keys := make([]string, 0, len(v2))
			for k := range v2 {
				keys = append(keys, k)
			}
			sort.Strings(keys)
			for _, k := range keys {
				walk(v2[k], append(path, map[string]any{"k": k}))
			}
		case []any:
			if len(v2) > 0 && visit(reflect.ValueOf(v2).Pointer(), path) {
				return
			}
			for i, x := range v2 {
				walk(x, append(path, map[string]any{"i": i}))
			}
		}
	}
	for i, d := range docs {
		walk(d.Data, []any{i})
	}
	return shared, pairs
}

func runHist(op map[string]any) (any, error) {
	steps, _ := op["steps"].([]any)
	p, err := bkl.New()
	if err != nil {
		return nil, err
	}
	byID := map[string]*bkl.Document{}
	parentSets := map[string][]*bkl.Document{}
	res := []any{}
	dead := false
	// bytes handed out by Output are the caller's: they must not change when the parser (or any other
	// evaluation) goes on working.  Each returned slice is kept together with a private copy.
	type kept struct {
		b []byte
		s string
	}
	var retained []kept
	for _, s := range steps {
		step, _ := s.(map[string]any)
		if dead {
			res = append(res, map[string]any{"skipped": true})
			continue
		}
		if m, ok := step["merge"].(map[string]any); ok {
			id, _ := m["id"].(string)
			data, err := fromWire(m["data"])
			if err != nil {
				return nil, err
			}
			doc := bkl.NewDocumentWithData(id, data)
			if ps, ok := m["parents"].([]any); ok && len(ps) > 0 {
				// Like file.go:setParents, every child document of a layer is handed the SAME slice of
				// parent documents (built by append, so it may have spare capacity).
				key := fmt.Sprint(ps)
				pds, seen := parentSets[key]
				if !seen {
					for _, pid := range ps {
						pd, found := byID[pid.(string)]
						if !found {
							return nil, fmt.Errorf("unknown parent %v", pid)
						}
						pds = append(pds, pd)
					}
					parentSets[key] = pds
				}
				doc.AddParents(pds...)
			}
			byID[id] = doc
			err = p.MergeDocument(doc)
			if err != nil {
				// "continue": the caller goes on using the parser after a reported merge error
				if c, _ := op["continue"].(bool); !c {
					dead = true
				}
				res = append(res, errObj(err))
			} else {
				res = append(res, map[string]any{"ok": true})
			}
			continue
		}
		if _, ok := step["docs"]; ok {
			docs := p.Documents()
			out := make([]any, 0, len(docs))
			for _, d := range docs {
				out = append(out, toWire(d.Data))
			}
			res = append(res, map[string]any{"ok": out})
			continue
		}
		if _, ok := step["outdocs"]; ok {
			outs, err := p.OutputDocuments()
			if err != nil {
				res = append(res, errObj(err))
			} else {
				res = append(res, map[string]any{"ok": toWireList(outs)})
			}
			continue
		}
		if f, ok := step["out"].(string); ok {
			var b []byte
			var err error
			switch step["via"] {
			case "writer":
				// OutputToWriter with the format spelled out
				buf := &bytes.Buffer{}
				err = p.OutputToWriter(buf, f)
				b = buf.Bytes()
			case "writer-default":
				// OutputToWriter(fh, ""): the documented default is json-pretty (the step names that format)
				buf := &bytes.Buffer{}
				err = p.OutputToWriter(buf, "")
				b = buf.Bytes()
			case "file-ext":
				// OutputToFile(path, ""): the format comes from the path's extension
				dir, derr := os.MkdirTemp("", "bklgo-out-")
				if derr != nil {
					return nil, derr
				}
				path := dir + "/o." + f
				err = p.OutputToFile(path, "")
				if err == nil {
					b, err = os.ReadFile(path)
				}
				os.RemoveAll(dir)
			default:
				b, err = p.Output(f)
			}
			if err != nil {
				res = append(res, errObj(err))
			} else {
				retained = append(retained, kept{b, string(b)})
				res = append(res, map[string]any{"bytes": base64.StdEncoding.EncodeToString(b)})
			}
			continue
		}
		if _, ok := step["alias"]; ok {
			n, pairs := sharedContainers(p.Documents())
			res = append(res, map[string]any{"shared": n, "pairs": pairs})
			continue
		}
		return nil, fmt.Errorf("unknown step %v", step)
	}
	ret := map[string]any{"res": res}
	for i, k := range retained {
		if string(k.b) != k.s {
			ret["retained_changed"] = i
			break
		}
	}
	return ret, nil
}

// runFiles evaluates real files through the library: chdir, optional SetRoot, FileMatch +
// MergeFile/MergeFileLayers per input, then documents and outputs.
func runFiles(op map[string]any) (any, error) {
	dir, _ := op["dir"].(string)
	old, err := os.Getwd()
	if err != nil {
		return nil, err
	}
	if err := os.Chdir(dir); err != nil {
		return nil, err
	}
	defer os.Chdir(old)
	p, err := bkl.New()
	if err != nil {
		return nil, err
	}
	skip, _ := op["skipParent"].(bool)
	match, _ := op["fileMatch"].(bool)
	// actions: SetRoot calls and inputs in the order given ("roots" then "inputs" is the common special case)
	actions := []any{}
	if as, ok := op["actions"].([]any); ok {
		actions = as
	} else {
		if roots, ok := op["roots"].([]any); ok {
			for _, r := range roots {
				actions = append(actions, map[string]any{"root": r})
			}
		}
		if inputs, ok := op["inputs"].([]any); ok {
			for _, in := range inputs {
				actions = append(actions, map[string]any{"input": in})
			}
		}
	}
	for _, a := range actions {
		act, _ := a.(map[string]any)
		if r, ok := act["root"].(string); ok {
			if err := p.SetRoot(r); err != nil {
				return map[string]any{"stage": "root", "err": errClass(err), "msg": err.Error()}, nil
			}
			continue
		}
		if f, ok := act["out"].(string); ok {
			// an output request between two inputs (its result, an error included, is dropped): a pure observation
			_, _ = p.Output(f)
			continue
		}
		if r, ok := act["tryroot"].(string); ok {
			// a caller that carries on after a refused SetRoot: the root set before must still confine every read
			_ = p.SetRoot(r)
			continue
		}
		path, _ := act["input"].(string)
		if match {
			real, _, err := bkl.FileMatch(path)
			if err != nil {
				return map[string]any{"stage": "match", "err": errClass(err), "msg": err.Error()}, nil
			}
			path = real
		}
		if skip {
			err = p.MergeFile(path)
		} else {
			err = p.MergeFileLayers(path)
		}
		if err != nil {
			return map[string]any{"stage": "merge", "err": errClass(err), "msg": err.Error()}, nil
		}
	}
	docs := p.Documents()
	dout := make([]any, 0, len(docs))
	ids := make([]any, 0, len(docs))
	for _, d := range docs {
		dout = append(dout, toWire(d.Data))
		ids = append(ids, d.ID)
	}
	ret := map[string]any{"docs": dout, "ids": ids}
	outs, err := p.OutputDocuments()
	if err != nil {
		ret["out"] = errObj(err)
	} else {
		ret["out"] = map[string]any{"ok": toWireList(outs)}
	}
	if f, ok := op["format"].(string); ok {
		b, err := p.Output(f)
		if err != nil {
			ret["bytes"] = errObj(err)
		} else {
			ret["bytes"] = base64.StdEncoding.EncodeToString(b)
		}
	}
	return ret, nil
}

func runFormat(op map[string]any) (any, error) {
	name, _ := op["format"].(string)
	f, err := bkl.GetFormat(name)
	if err != nil {
		return errObj(err), nil
	}
	if vs, ok := op["encode"].([]any); ok {
		docs := []any{}
		for _, v := range vs {
			d, err := fromWire(v)
			if err != nil {
				return nil, err
			}
			docs = append(docs, d)
		}
		b, err := f.MarshalStream(docs)
		if err != nil {
			return errObj(err), nil
		}
		return map[string]any{"bytes": base64.StdEncoding.EncodeToString(b)}, nil
	}
	if fs, ok := op["marshalseq"].([]any); ok {
		// the SAME value tree handed to several writers in sequence (Format.MarshalStream must not modify its argument)
		docs := []any{}
		for _, v := range op["docs"].([]any) {
			d, err := fromWire(v)
			if err != nil {
				return nil, err
			}
			docs = append(docs, d)
		}
		outs := []any{}
		for _, fn := range fs {
			ff, err := bkl.GetFormat(fn.(string))
			if err != nil {
				outs = append(outs, errObj(err))
				continue
			}
			b, err := ff.MarshalStream(docs)
			if err != nil {
				outs = append(outs, errObj(err))
				continue
			}
			outs = append(outs, map[string]any{"bytes": base64.StdEncoding.EncodeToString(b)})
		}
		return map[string]any{"seq": outs}, nil
	}
	if s, ok := op["decode"].(string); ok {
		raw, err := base64.StdEncoding.DecodeString(s)
		if err != nil {
			return nil, err
		}
		docs, err := f.UnmarshalStream(raw)
		if err != nil {
			return errObj(err), nil
		}
		return map[string]any{"ok": toWireList(docs)}, nil
	}
	return nil, fmt.Errorf("format: need encode or decode")
}

// rawWire serialises what a third-party decoder handed to bkl, keeping the Go types apart
// (the model's `Raw`): this is the input of normalize.go.
func rawWire(v any) any {
	switch v2 := v.(type) {
	case nil:
		return nil
	case bool, string:
		return v2
	case int:
		return map[string]any{"int": strconv.Itoa(v2)}
	case int64:
		return map[string]any{"int64": strconv.FormatInt(v2, 10)}
	case float64:
		return map[string]any{"float": strconv.FormatFloat(v2, 'g', -1, 64)}
	case json.Number:
		f, err := v2.Float64()
		fr := strconv.FormatFloat(f, 'g', -1, 64)
		if err != nil {
			fr = ""
		}
		return map[string]any{"jnum": v2.String(), "fr": fr}
	case []any:
		ret := make([]any, 0, len(v2))
		for _, x := range v2 {
			ret = append(ret, rawWire(x))
		}
		return ret
	case map[string]any:
		return map[string]any{"map": rawFields(v2)}
	case []map[string]any:
		ret := make([]any, 0, len(v2))
		for _, x := range v2 {
			ret = append(ret, rawFields(x))
		}
		return map[string]any{"lom": ret}
	case map[any]any:
		return map[string]any{"mapany": true}
	default:
		return map[string]any{"other": fmt.Sprintf("%T", v)}
	}
}

func rawFields(m map[string]any) []any {
	keys := make([]string, 0, len(m))
	for k := range m {
		keys = append(keys, k)
	}
	sort.Strings(keys)
	ret := make([]any, 0, len(keys))
	for _, k := range keys {
		ret = append(ret, []any{k, rawWire(m[k])})
	}
	return ret
}

// yamlNodeWire serialises a yaml.v3 node tree (the input of yaml.go:yamlTranslateNode), following
// aliases; the tag is yaml.v3's own resolution (Node.ShortTag), "fr" is %v of strconv.ParseFloat.
func yamlNodeWire(n *yaml.Node, depth int) any {
	if depth > 200 {
		return map[string]any{"k": "toodeep"}
	}
	switch n.Kind {
	case yaml.DocumentNode:
		if len(n.Content) == 0 {
			return map[string]any{"k": "empty"}
		}
		return yamlNodeWire(n.Content[0], depth+1)
	case yaml.SequenceNode:
		items := make([]any, 0, len(n.Content))
		for _, c := range n.Content {
			items = append(items, yamlNodeWire(c, depth+1))
		}
		return map[string]any{"k": "seq", "items": items}
	case yaml.MappingNode:
		pairs := []any{}
		for i := 0; i+1 < len(n.Content); i += 2 {
			pairs = append(pairs, []any{n.Content[i].Value, yamlNodeWire(n.Content[i+1], depth+1)})
		}
		return map[string]any{"k": "map", "pairs": pairs}
	case yaml.ScalarNode:
		fr := ""
		if f, err := strconv.ParseFloat(n.Value, 64); err == nil {
			fr = strconv.FormatFloat(f, 'g', -1, 64)
		}
		return map[string]any{"k": "scalar", "tag": n.ShortTag(), "v": n.Value, "fr": fr}
	case yaml.AliasNode:
		return yamlNodeWire(n.Alias, depth+1)
	case 0:
		return map[string]any{"k": "empty"}
	}
	return map[string]any{"k": fmt.Sprintf("kind%d", n.Kind)}
}

// runDecode: one text in one format -> (a) what the third-party decoder produced (raw Go types /
// yaml.v3 node tree) and (b) what bkl's loader makes of the same text (MergeFile: decode,
// yamlTranslateNode, normalize).  The model maps (a) to (b).
func runDecode(op map[string]any) (any, error) {
	name, _ := op["format"].(string)
	b64, _ := op["text"].(string)
	text, err := base64.StdEncoding.DecodeString(b64)
	if err != nil {
		return nil, err
	}
	ret := map[string]any{}
	f, err := bkl.GetFormat(name)
	if err != nil {
		return errObj(err), nil
	}
	if name == "yaml" || name == "yml" {
		var node yaml.Node
		if err := yaml.Unmarshal(text, &node); err != nil {
			ret["nodeerr"] = err.Error()
		} else {
			ret["node"] = yamlNodeWire(&node, 0)
		}
	} else {
		raws, err := f.UnmarshalStream(text)
		if err != nil {
			ret["rawerr"] = err.Error()
		} else {
			rs := make([]any, 0, len(raws))
			for _, r := range raws {
				rs = append(rs, rawWire(r))
			}
			ret["raw"] = rs
		}
	}
	dir, err := os.MkdirTemp("", "bklgo-decode-")
	if err != nil {
		return nil, err
	}
	defer os.RemoveAll(dir)
	path := dir + "/f." + name
	if err := os.WriteFile(path, text, 0o600); err != nil {
		return nil, err
	}
	p, err := bkl.New()
	if err != nil {
		return nil, err
	}
	if err := p.MergeFile(path); err != nil {
		ret["err"] = errClass(err)
		ret["msg"] = err.Error()
		return ret, nil
	}
	docs := p.Documents()
	out := make([]any, 0, len(docs))
	for _, d := range docs {
		out = append(out, toWire(d.Data))
	}
	ret["docs"] = out
	return ret, nil
}

func setEnv(op map[string]any) {
	env, ok := op["env"].(map[string]any)
	if !ok {
		return
	}
	cover := os.Getenv("GOCOVERDIR") // tools/coverage.py: the instrumented binary writes its counters there at exit
	tmp := os.Getenv("TMPDIR")       // the orchestrator's scratch directory (removed by it, also after a crash)
	os.Clearenv()
	if cover != "" {
		os.Setenv("GOCOVERDIR", cover)
	}
	if tmp != "" {
		os.Setenv("TMPDIR", tmp)
	}
	for k, v := range env {
		if s, ok := v.(string); ok {
			os.Setenv(k, s)
		}
	}
}

func dispatch(op map[string]any) (ret any, err error) {
	defer func() {
		if r := recover(); r != nil {
			ret = map[string]any{"panic": fmt.Sprintf("%v", r)}
			err = nil
		}
	}()
	switch op["op"] {
	case "hist":
		return runHist(op)
	case "files":
		return runFiles(op)
	case "format":
		return runFormat(op)
	case "decode":
		return runDecode(op)
	default:
		return nil, fmt.Errorf("unknown op %v", op["op"])
	}
}

// runOp handles determinism repetition: "rep" sequential runs and "par" concurrent runs of
// the same op must all serialise identically.
func runOp(op map[string]any) any {
	setEnv(op)
	first, err := dispatch(op)
	if err != nil {
		return map[string]any{"protocol_error": err.Error()}
	}
	rep, _ := op["rep"].(float64)
	par, _ := op["par"].(float64)
	if rep <= 1 && par <= 1 {
		return first
	}
	statusOnly, _ := op["status_only_errors"].(bool)
	norm := func(v any) []byte {
		if statusOnly {
			v = stripErrors(v)
		}
		b, _ := json.Marshal(v)
		return b
	}
	want := norm(first)
	for i := 1; i < int(rep); i++ {
		r, _ := dispatch(op)
		got := norm(r)
		if string(got) != string(want) {
			return map[string]any{"nondet": []any{first, r}, "mode": "sequential"}
		}
	}
	if par > 1 {
		var wg sync.WaitGroup
		results := make([]any, int(par))
		for i := 0; i < int(par); i++ {
			wg.Add(1)
			go func(i int) {
				defer wg.Done()
				r, _ := dispatch(op)
				results[i] = r
			}(i)
		}
		wg.Wait()
		for _, r := range results {
			got := norm(r)
			if string(got) != string(want) {
				return map[string]any{"nondet": []any{first, r}, "mode": "concurrent"}
			}
		}
	}
	if m, ok := first.(map[string]any); ok {
		m["runs"] = int(rep) + int(par)
	}
	return first
}

// stripErrors replaces every {"err":..., "msg":...} step result by {"err":true}: which bad key
// an unordered map walk meets first may change the error text and class, never the status.
func stripErrors(v any) any {
	m, ok := v.(map[string]any)
	if !ok {
		return v
	}
	res, ok := m["res"].([]any)
	if !ok {
		// results of the "files" op: a failed stage, or documents plus the output (or its error)
		if _, isErr := m["err"]; isErr {
			return map[string]any{"stage": m["stage"], "err": true}
		}
		if o, ok := m["out"].(map[string]any); ok {
			if _, isErr := o["err"]; isErr {
				cp := map[string]any{}
				for k, x := range m {
					cp[k] = x
				}
				cp["out"] = map[string]any{"err": true}
				return cp
			}
		}
		return v
	}
	out := make([]any, 0, len(res))
	for _, r := range res {
		if rm, ok := r.(map[string]any); ok {
			if _, isErr := rm["err"]; isErr {
				out = append(out, map[string]any{"err": true})
				continue
			}
		}
		out = append(out, r)
	}
	return map[string]any{"res": out}
}

func main() {
	debug.SetMaxStack(256 << 20)
	limitMB := 3000
	if s := os.Getenv("BKLGO_MEM_MB"); s != "" {
		if n, err := strconv.Atoi(s); err == nil {
			limitMB = n
		}
	}
	timeout := 20 * time.Second
	if s := os.Getenv("BKLGO_TIMEOUT_MS"); s != "" {
		if n, err := strconv.Atoi(s); err == nil {
			timeout = time.Duration(n) * time.Millisecond
		}
	}
	out := bufio.NewWriter(os.Stdout)
	var outMu sync.Mutex
	emit := func(id any, v any) {
		outMu.Lock()
		defer outMu.Unlock()
		if m, ok := v.(map[string]any); ok && id != nil {
			m["id"] = id
		}
		b, err := json.Marshal(v)
		if err != nil {
			b, _ = json.Marshal(map[string]any{"id": id, "protocol_error": err.Error()})
		}
		out.Write(b)
		out.WriteByte('\n')
		out.Flush()
	}
	var curID any
	var curMu sync.Mutex
	// memory watchdog: a runaway evaluation is reported and the process exits
	go func() {
		var ms runtime.MemStats
		for {
			time.Sleep(100 * time.Millisecond)
			runtime.ReadMemStats(&ms)
			if ms.HeapAlloc > uint64(limitMB)<<20 {
				curMu.Lock()
				id := curID
				curMu.Unlock()
				emit(id, map[string]any{"oom": true})
				os.Exit(3)
			}
		}
	}()
	sc := bufio.NewScanner(os.Stdin)
	sc.Buffer(make([]byte, 1<<20), 1<<28)
	for sc.Scan() {
		line := sc.Bytes()
		if len(line) == 0 {
			continue
		}
		var op map[string]any
		if err := json.Unmarshal(line, &op); err != nil {
			emit(nil, map[string]any{"protocol_error": err.Error()})
			continue
		}
		curMu.Lock()
		curID = op["id"]
		curMu.Unlock()
		done := make(chan any, 1)
		go func() { done <- runOp(op) }()
		select {
		case r := <-done:
			emit(op["id"], r)
		case <-time.After(timeout):
			emit(op["id"], map[string]any{"timeout": true})
			os.Exit(4)
		}
	}
}
