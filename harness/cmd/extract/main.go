// extract — regenerates syntactic facts about /repo's current source as Lean data
// (Generated/Facts.lean) and JSON.  Deliberately small: go/parser + go/types only.
package main

import (
	"encoding/json"
	"fmt"
	"go/ast"
	"go/constant"
	"go/importer"
	"go/parser"
	"go/token"
	"go/types"
	"os"
	"path/filepath"
	"sort"
	"strings"
	"unicode"
)

type site struct {
	File string `json:"file"`
	Func string `json:"func"`
	What string `json:"what"`
}

type facts struct {
	FormatTable  [][3]string `json:"formatTable"`  // ext, marshal, unmarshal
	RawMapRanges []site      `json:"rawMapRanges"` // `range` over a map-typed expression (not through sortedMap)
	TypeAsserts  []site      `json:"typeAsserts"`  // single-value x.(T)
	PkgVars      []site      `json:"pkgVars"`      // package-level vars (what = kind)
	PkgVarWrites []site      `json:"pkgVarWrites"` // assignments to package-level vars outside their declaration
	FileReads    []site      `json:"fileReads"`    // calls that open/read file contents
	DollarLits   []string    `json:"dollarLits"`   // string literals starting with `$`
	DepthGuards  []site      `json:"depthGuards"`  // `depth > N` comparisons (what = N)
	CliOptions   []site      `json:"cliOptions"`   // go-flags struct tags of cmd/bkl (func = short flag, what = choices)
	ExitCalls    []site      `json:"exitCalls"`    // os.Exit / stdout writes in cmd/*
	GoStatements []site      `json:"goStatements"` // `go` statements (concurrency inside the library)
	DirectiveSeq []site      `json:"directiveSeq"` // per function: the `$` literals of its body in source order (what = joined by " ")
	StructFields []site      `json:"structFields"` // every field of every struct type of package bkl (file, type, "name type")
	ToolState    []site      `json:"toolState"`    // package-level vars and struct types of cmd/* and wrapper (pkg, kind, name)
	UnicodeLower [][3]int    `json:"unicodeLower"` // unicode.Lower of the toolchain that builds /repo, above Latin-1: lo, hi, stride
}

func posFunc(fset *token.FileSet, files []*ast.File, pos token.Pos) (string, string) {
	p := fset.Position(pos)
	fn := ""
	for _, f := range files {
		if fset.Position(f.Pos()).Filename != p.Filename {
			continue
		}
		for _, d := range f.Decls {
			if fd, ok := d.(*ast.FuncDecl); ok && fd.Pos() <= pos && pos <= fd.End() {
				fn = fd.Name.Name
			}
		}
	}
	return filepath.Base(p.Filename), fn
}

func exprString(e ast.Expr) string {
	switch x := e.(type) {
	case *ast.Ident:
		return x.Name
	case *ast.SelectorExpr:
		return exprString(x.X) + "." + x.Sel.Name
	case *ast.CallExpr:
		return exprString(x.Fun) + "(...)"
	case *ast.IndexExpr:
		return exprString(x.X) + "[...]"
	case *ast.StarExpr:
		return "*" + exprString(x.X)
	case *ast.ArrayType:
		return "[]" + exprString(x.Elt)
	case *ast.MapType:
		return "map[" + exprString(x.Key) + "]" + exprString(x.Value)
	case *ast.InterfaceType:
		return "any"
	case *ast.ParenExpr:
		return exprString(x.X)
	default:
		return fmt.Sprintf("%T", e)
	}
}

func loadPkg(dir string, fset *token.FileSet) ([]*ast.File, *types.Info, *types.Package, error) {
	pkgs, err := parser.ParseDir(fset, dir, func(fi os.FileInfo) bool { return !strings.HasSuffix(fi.Name(), "_test.go") }, 0)
	if err != nil {
		return nil, nil, nil, err
	}
	var files []*ast.File
	for _, p := range pkgs {
		names := []string{}
		for n := range p.Files {
			names = append(names, n)
		}
		sort.Strings(names)
		for _, n := range names {
			files = append(files, p.Files[n])
		}
	}
	info := &types.Info{Types: map[ast.Expr]types.TypeAndValue{}, Uses: map[*ast.Ident]types.Object{}, Defs: map[*ast.Ident]types.Object{}}
	conf := types.Config{Importer: importer.ForCompiler(fset, "source", nil), Error: func(error) {}}
	pkg, _ := conf.Check(filepath.Base(dir), fset, files, info)
	return files, info, pkg, nil
}

func main() {
	repo := "/repo"
	if len(os.Args) > 1 {
		repo = os.Args[1]
	}
	os.Chdir(repo)
	fset := token.NewFileSet()
	var f facts
	files, info, pkg, err := loadPkg(repo, fset)
	if err != nil {
		fmt.Fprintln(os.Stderr, err)
		os.Exit(2)
	}
	pkgLevel := map[types.Object]bool{}
	if pkg != nil {
		for _, n := range pkg.Scope().Names() {
			if v, ok := pkg.Scope().Lookup(n).(*types.Var); ok {
				pkgLevel[v] = true
				kind := "other"
				switch {
				case strings.HasPrefix(n, "Err"):
					kind = "sentinel"
				case strings.HasSuffix(n, "RE"):
					kind = "regexp"
				case n == "formatByExtension":
					kind = "formatTable"
				}
				f.PkgVars = append(f.PkgVars, site{"", n, kind})
			}
		}
	}
	// state: every struct field of the package (a new field is new state - a cache, a memo, a pool handle)
	for _, file := range files {
		for _, d := range file.Decls {
			gd, ok := d.(*ast.GenDecl)
			if !ok {
				continue
			}
			for _, sp := range gd.Specs {
				ts, ok := sp.(*ast.TypeSpec)
				if !ok {
					continue
				}
				st, ok := ts.Type.(*ast.StructType)
				if !ok {
					continue
				}
				for _, fld := range st.Fields.List {
					names := []string{}
					for _, n := range fld.Names {
						names = append(names, n.Name)
					}
					if len(names) == 0 {
						names = []string{"(embedded)"}
					}
					for _, n := range names {
						f.StructFields = append(f.StructFields, site{filepath.Base(fset.Position(ts.Pos()).Filename), ts.Name.Name, n + " " + exprString(fld.Type)})
					}
				}
			}
		}
	}
	// the order in which a function tests for / pops directives is part of the semantics (e.g. `$encode` before
	// `$decode` in process2Map): list the `$` literals of every function body in source order
	for _, file := range files {
		for _, d := range file.Decls {
			fd, ok := d.(*ast.FuncDecl)
			if !ok || fd.Body == nil {
				continue
			}
			var seq []string
			ast.Inspect(fd.Body, func(n ast.Node) bool {
				if bl, ok := n.(*ast.BasicLit); ok && bl.Kind == token.STRING {
					v := constant.StringVal(constant.MakeFromLiteral(bl.Value, token.STRING, 0))
					if strings.HasPrefix(v, "$") && !strings.ContainsAny(v, " %=") {
						seq = append(seq, v)
					}
				}
				return true
			})
			if len(seq) > 0 {
				f.DirectiveSeq = append(f.DirectiveSeq, site{filepath.Base(fset.Position(fd.Pos()).Filename), fd.Name.Name, strings.Join(seq, " ")})
			}
		}
	}
	for _, file := range files {
		ast.Inspect(file, func(n ast.Node) bool {
			switch x := n.(type) {
			case *ast.RangeStmt:
				if tv, ok := info.Types[x.X]; ok {
					if _, isMap := tv.Type.Underlying().(*types.Map); isMap {
						fl, fn := posFunc(fset, files, x.Pos())
						f.RawMapRanges = append(f.RawMapRanges, site{fl, fn, exprString(x.X)})
					}
				}
			case *ast.TypeAssertExpr:
				if x.Type == nil {
					return true // type switch
				}
				fl, fn := posFunc(fset, files, x.Pos())
				f.TypeAsserts = append(f.TypeAsserts, site{fl, fn, exprString(x.X) + ".(" + exprString(x.Type) + ")"})
			case *ast.AssignStmt:
				// comma-ok assertions are safe: drop them from the list again
				if len(x.Lhs) == 2 && len(x.Rhs) == 1 {
					if ta, ok := x.Rhs[0].(*ast.TypeAssertExpr); ok && ta.Type != nil {
						fl, fn := posFunc(fset, files, ta.Pos())
						want := site{fl, fn, exprString(ta.X) + ".(" + exprString(ta.Type) + ")"}
						f.TypeAsserts = append(f.TypeAsserts, site{want.File, want.Func, "-" + want.What})
					}
				}
				for _, l := range x.Lhs {
					id, ok := l.(*ast.Ident)
					if ix, isIx := l.(*ast.IndexExpr); isIx {
						id, ok = ix.X.(*ast.Ident)
					}
					if ok && pkgLevel[info.Uses[id]] {
						fl, fn := posFunc(fset, files, x.Pos())
						f.PkgVarWrites = append(f.PkgVarWrites, site{fl, fn, id.Name})
					}
				}
			case *ast.ValueSpec:
				// comma-ok in var declarations: v, ok := handled above; `var x, ok = y.(T)` is rare
			case *ast.CallExpr:
				s := exprString(x.Fun)
				switch s {
				case "os.Open", "os.ReadFile", "os.OpenFile", "ioutil.ReadFile", "os.ReadDir", "p.root.Open", "io.ReadAll", "os.Stdin.Read":
					fl, fn := posFunc(fset, files, x.Pos())
					f.FileReads = append(f.FileReads, site{fl, fn, s})
				}
			case *ast.GoStmt:
				fl, fn := posFunc(fset, files, x.Pos())
				f.GoStatements = append(f.GoStatements, site{fl, fn, "go"})
			case *ast.BasicLit:
				if x.Kind == token.STRING {
					v := constant.StringVal(constant.MakeFromLiteral(x.Value, token.STRING, 0))
					if strings.HasPrefix(v, "$") {
						f.DollarLits = append(f.DollarLits, v)
					}
				}
			case *ast.BinaryExpr:
				if x.Op == token.GTR {
					if id, ok := x.X.(*ast.Ident); ok && id.Name == "depth" {
						if lit, ok := x.Y.(*ast.BasicLit); ok {
							fl, fn := posFunc(fset, files, x.Pos())
							f.DepthGuards = append(f.DepthGuards, site{fl, fn, lit.Value})
						}
					}
				}
			case *ast.KeyValueExpr:
				// formatByExtension entries
				if k, ok := x.Key.(*ast.BasicLit); ok && k.Kind == token.STRING {
					if cl, ok := x.Value.(*ast.CompositeLit); ok {
						var m, u string
						for _, e := range cl.Elts {
							if kv, ok := e.(*ast.KeyValueExpr); ok {
								switch exprString(kv.Key) {
								case "MarshalStream":
									m = exprString(kv.Value)
								case "UnmarshalStream":
									u = exprString(kv.Value)
								}
							}
						}
						if m != "" && u != "" {
							f.FormatTable = append(f.FormatTable, [3]string{strings.Trim(k.Value, `"`), m, u})
						}
					}
				}
			}
			return true
		})
	}
	// net out comma-ok assertions
	drop := map[site]int{}
	for _, s := range f.TypeAsserts {
		if strings.HasPrefix(s.What, "-") {
			drop[site{s.File, s.Func, s.What[1:]}]++
		}
	}
	var ta []site
	for _, s := range f.TypeAsserts {
		if strings.HasPrefix(s.What, "-") {
			continue
		}
		if drop[s] > 0 {
			drop[s]--
			continue
		}
		ta = append(ta, s)
	}
	f.TypeAsserts = ta
	// tools: package-level variables and struct types (state that survives between calls inside one run)
	for _, dir := range []string{"cmd/bkl", "cmd/bkld", "cmd/bkli", "cmd/bklr", "cmd/bklb", "cmd/kubectl-bkl", "wrapper"} {
		tfset := token.NewFileSet()
		tfiles, _, _, err := loadPkg(filepath.Join(repo, dir), tfset)
		if err != nil {
			continue
		}
		for _, file := range tfiles {
			for _, d := range file.Decls {
				gd, ok := d.(*ast.GenDecl)
				if !ok {
					continue
				}
				for _, sp := range gd.Specs {
					switch x := sp.(type) {
					case *ast.ValueSpec:
						if gd.Tok == token.VAR {
							for _, n := range x.Names {
								f.ToolState = append(f.ToolState, site{dir, "var", n.Name})
							}
						}
					case *ast.TypeSpec:
						if st, ok := x.Type.(*ast.StructType); ok {
							for _, fld := range st.Fields.List {
								for _, n := range fld.Names {
									f.ToolState = append(f.ToolState, site{dir, "field " + x.Name.Name, n.Name})
								}
							}
						}
					}
				}
			}
		}
	}
	// cmd packages: option tags and exit paths
	for _, c := range []string{"bkl", "bkld", "bkli", "bklr", "bklb"} {
		cfset := token.NewFileSet()
		cfiles, _, _, err := loadPkg(filepath.Join(repo, "cmd", c), cfset)
		if err != nil {
			continue
		}
		for _, file := range cfiles {
			ast.Inspect(file, func(n ast.Node) bool {
				switch x := n.(type) {
				case *ast.Field:
					if x.Tag != nil && c == "bkl" && strings.Contains(x.Tag.Value, "short:") {
						tag := strings.Trim(x.Tag.Value, "`")
						short := ""
						choices := []string{}
						for _, part := range strings.Split(tag, `" `) {
							part = strings.TrimSpace(part)
							if strings.HasPrefix(part, "short:") {
								short = strings.Trim(strings.TrimPrefix(part, "short:"), `"`)
							}
							if strings.HasPrefix(part, "choice:") {
								choices = append(choices, strings.Trim(strings.TrimPrefix(part, "choice:"), `"`))
							}
						}
						f.CliOptions = append(f.CliOptions, site{"cmd/" + c, short, strings.Join(choices, ",")})
					}
				case *ast.CallExpr:
					s := exprString(x.Fun)
					if s == "os.Exit" || s == "fmt.Printf" || s == "fmt.Println" || s == "os.Stdout.Write" || s == "fh.Write" {
						_, fn := posFunc(cfset, cfiles, x.Pos())
						f.ExitCalls = append(f.ExitCalls, site{"cmd/" + c, fn, s})
					}
				}
				return true
			})
		}
	}
	sortSites := func(s []site) {
		sort.Slice(s, func(i, j int) bool {
			if s[i].File != s[j].File {
				return s[i].File < s[j].File
			}
			if s[i].Func != s[j].Func {
				return s[i].Func < s[j].Func
			}
			return s[i].What < s[j].What
		})
	}
	for _, s := range [][]site{f.RawMapRanges, f.TypeAsserts, f.PkgVars, f.PkgVarWrites, f.FileReads, f.DepthGuards, f.CliOptions, f.ExitCalls, f.GoStatements, f.ToolState} {
		sortSites(s)
	}
	sort.Slice(f.FormatTable, func(i, j int) bool { return f.FormatTable[i][0] < f.FormatTable[j][0] })
	lits := map[string]bool{}
	for _, l := range f.DollarLits {
		lits[l] = true
	}
	f.DollarLits = nil
	for l := range lits {
		f.DollarLits = append(f.DollarLits, l)
	}
	sort.Strings(f.DollarLits)
	// validate.go asks unicode.IsLower about the character after a `$`: the table the model uses (Bkl/UnicodeLower.lean)
	// must be the toolchain's
	for _, r := range unicode.Lower.R16 {
		if r.Hi > unicode.MaxLatin1 {
			lo := int(r.Lo)
			for lo <= unicode.MaxLatin1 {
				lo += int(r.Stride)
			}
			if lo <= int(r.Hi) {
				f.UnicodeLower = append(f.UnicodeLower, [3]int{lo, int(r.Hi), int(r.Stride)})
			}
		}
	}
	for _, r := range unicode.Lower.R32 {
		f.UnicodeLower = append(f.UnicodeLower, [3]int{int(r.Lo), int(r.Hi), int(r.Stride)})
	}
	out, _ := json.MarshalIndent(f, "", " ")
	fmt.Println(string(out))
}
