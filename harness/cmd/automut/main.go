// automut: mechanical source mutants of gopatchy/bkl (go/ast), for measuring what the checks notice.
//
//	automut list <repo>                 -> one JSON line per candidate mutant {id, file, line, op, detail}
//	automut apply <repo> <id>           -> rewrites the one file of that mutant in place (run it on a scratch worktree)
//
// Operators: negate an `if` condition; swap a comparison / logical operator; drop a defensive copy
// (deepClone / maps.Clone / slices.Clone -> its argument); delete an assignment or call statement; swallow an error
// (`if err != nil { return … }` removed); bump an integer literal.
package main

import (
	"bytes"
	"encoding/json"
	"fmt"
	"go/ast"
	"go/format"
	"go/parser"
	"go/token"
	"os"
	"path/filepath"
	"sort"
	"strconv"
	"strings"
)

type mutant struct {
	ID     int    `json:"id"`
	File   string `json:"file"`
	Line   int    `json:"line"`
	Op     string `json:"op"`
	Detail string `json:"detail"`
}

var dirs = []string{".", "cmd/bkld", "cmd/bkli", "cmd/bklr", "cmd/bkl", "wrapper"}

func sourceFiles(repo string) []string {
	out := []string{}
	for _, d := range dirs {
		ents, err := os.ReadDir(filepath.Join(repo, d))
		if err != nil {
			continue
		}
		for _, e := range ents {
			n := e.Name()
			if e.IsDir() || !strings.HasSuffix(n, ".go") || strings.HasSuffix(n, "_test.go") {
				continue
			}
			out = append(out, filepath.Join(d, n))
		}
	}
	sort.Strings(out)
	return out
}

var swaps = map[token.Token]token.Token{
	token.EQL: token.NEQ, token.NEQ: token.EQL, token.LSS: token.LEQ, token.LEQ: token.LSS,
	token.GTR: token.GEQ, token.GEQ: token.GTR, token.LAND: token.LOR, token.LOR: token.LAND,
}

func isErrNilCheck(s *ast.IfStmt) bool {
	b, ok := s.Cond.(*ast.BinaryExpr)
	if !ok || b.Op != token.NEQ || s.Init != nil || s.Else != nil {
		return false
	}
	x, ok1 := b.X.(*ast.Ident)
	y, ok2 := b.Y.(*ast.Ident)
	if !ok1 || !ok2 || x.Name != "err" || y.Name != "nil" {
		return false
	}
	if len(s.Body.List) != 1 {
		return false
	}
	_, isRet := s.Body.List[0].(*ast.ReturnStmt)
	return isRet
}

// walk visits the mutation points of a file in a deterministic order; when `apply` >= 0 the point with that
// running index is rewritten.
func walk(fset *token.FileSet, f *ast.File, rel string, next *int, apply int, out *[]mutant) bool {
	applied := false
	emit := func(pos token.Pos, op, detail string, do func()) {
		id := *next
		*next++
		if apply < 0 {
			*out = append(*out, mutant{ID: id, File: rel, Line: fset.Position(pos).Line, Op: op, Detail: detail})
		} else if id == apply {
			do()
			applied = true
		}
	}
	var visitBlock func(list *[]ast.Stmt)
	visitBlock = func(list *[]ast.Stmt) {
		for i := 0; i < len(*list); i++ {
			idx := i
			switch s := (*list)[i].(type) {
			case *ast.IfStmt:
				if isErrNilCheck(s) {
					emit(s.Pos(), "swallow-error", "if err != nil { return … } removed", func() {
						*list = append((*list)[:idx:idx], (*list)[idx+1:]...)
					})
				}
			case *ast.AssignStmt:
				if s.Tok == token.ASSIGN && len(s.Lhs) == 1 {
					emit(s.Pos(), "delete-assign", exprText(fset, s), func() {
						*list = append((*list)[:idx:idx], (*list)[idx+1:]...)
					})
				}
			case *ast.ExprStmt:
				if _, ok := s.X.(*ast.CallExpr); ok {
					emit(s.Pos(), "delete-call", exprText(fset, s), func() {
						*list = append((*list)[:idx:idx], (*list)[idx+1:]...)
					})
				}
			}
		}
	}
	ast.Inspect(f, func(n ast.Node) bool {
		switch x := n.(type) {
		case *ast.BlockStmt:
			visitBlock(&x.List)
		case *ast.CaseClause:
			visitBlock(&x.Body)
		case *ast.IfStmt:
			if !isErrNilCheck(x) {
				emit(x.Pos(), "negate-if", exprText(fset, x.Cond), func() {
					x.Cond = &ast.UnaryExpr{Op: token.NOT, X: &ast.ParenExpr{X: x.Cond}}
				})
			}
		case *ast.BinaryExpr:
			if to, ok := swaps[x.Op]; ok {
				emit(x.Pos(), "swap-op", fmt.Sprintf("%s -> %s in %s", x.Op, to, exprText(fset, x)), func() { x.Op = to })
			}
		case *ast.CallExpr:
			name := ""
			switch fn := x.Fun.(type) {
			case *ast.Ident:
				name = fn.Name
			case *ast.SelectorExpr:
				if p, ok := fn.X.(*ast.Ident); ok {
					name = p.Name + "." + fn.Sel.Name
				}
			}
			if (name == "deepClone" || name == "maps.Clone" || name == "slices.Clone") && len(x.Args) == 1 {
				// handled at the parent: see below (CallExpr cannot replace itself); mark through a wrapper call
				emit(x.Pos(), "drop-copy", name, func() {
					x.Fun = &ast.ParenExpr{X: &ast.FuncLit{
						Type: &ast.FuncType{Params: &ast.FieldList{List: []*ast.Field{{Names: []*ast.Ident{ast.NewIdent("v")}, Type: typeOfClone(name)}}},
							Results: &ast.FieldList{List: []*ast.Field{{Type: typeOfClone(name)}}}},
						Body: &ast.BlockStmt{List: []ast.Stmt{&ast.ReturnStmt{Results: []ast.Expr{ast.NewIdent("v")}}}},
					}}
				})
			}
		case *ast.BasicLit:
			if x.Kind == token.INT {
				if v, err := strconv.Atoi(x.Value); err == nil && v >= 0 && v <= 2 {
					emit(x.Pos(), "bump-int", x.Value+" -> "+strconv.Itoa(v+1), func() { x.Value = strconv.Itoa(v + 1) })
				}
			}
		}
		return true
	})
	return applied
}

// deepClone works on `any`; maps.Clone / slices.Clone on the value types bkl uses them with.  The identity closure needs a
// type: `any` compiles for deepClone; for the generic clones the argument's type is unknown here, so those mutants are
// attempted with `any` too and simply fail to build when that does not type-check (the driver discards non-building mutants).
func typeOfClone(name string) ast.Expr {
	return ast.NewIdent("any")
}

func exprText(fset *token.FileSet, n ast.Node) string {
	var b bytes.Buffer
	_ = format.Node(&b, fset, n)
	s := strings.Join(strings.Fields(b.String()), " ")
	if len(s) > 120 {
		s = s[:120]
	}
	return s
}

func main() {
	if len(os.Args) < 3 {
		fmt.Fprintln(os.Stderr, "usage: automut list <repo> | automut apply <repo> <id>")
		os.Exit(2)
	}
	repo := os.Args[2]
	apply := -1
	if os.Args[1] == "apply" {
		apply, _ = strconv.Atoi(os.Args[3])
	}
	next := 0
	out := []mutant{}
	for _, rel := range sourceFiles(repo) {
		fset := token.NewFileSet()
		path := filepath.Join(repo, rel)
		f, err := parser.ParseFile(fset, path, nil, parser.ParseComments)
		if err != nil {
			fmt.Fprintln(os.Stderr, err)
			os.Exit(1)
		}
		if walk(fset, f, rel, &next, apply, &out) {
			var b bytes.Buffer
			if err := format.Node(&b, fset, f); err != nil {
				fmt.Fprintln(os.Stderr, err)
				os.Exit(1)
			}
			if err := os.WriteFile(path, b.Bytes(), 0o644); err != nil {
				fmt.Fprintln(os.Stderr, err)
				os.Exit(1)
			}
			fmt.Println("applied", apply, rel)
			return
		}
	}
	if apply >= 0 {
		fmt.Fprintln(os.Stderr, "no such mutant")
		os.Exit(1)
	}
	enc := json.NewEncoder(os.Stdout)
	for _, m := range out {
		_ = enc.Encode(m)
	}
}
