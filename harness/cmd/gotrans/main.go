// gotrans — a small translator from a fragment of Go (the `any`-typed tree functions of gopatchy/bkl) to Lean 4.
//
// usage: gotrans <repo> > Generated/Trans.lean        (exit 2 + diagnostics on stderr when a listed function
//                                                       has left the fragment)
//
// The output is a set of Lean definitions in namespace Bkl.Gen, one per listed Go function, over the model's value
// type (Bkl.Val) and the primitives of Bkl/GoLib.lean.  BklProofs/Trans*.lean prove each of them equal to the
// hand-written model function, so on every run the kernel re-checks "what the source says now = what the model says".
//
// The fragment (anything else is refused, loudly):
//   types       any, map[string]any, []any, string, bool, int, error, []string, rune, *utf8string.String
//   statements  :=, =, var, if/else (with init), type switch, expression switch, for-range over maps / slices /
//               sortedMap(m), return, continue, break, m[k] = v, delete(m, k), x = append(x, ...)
//   expressions literals, nil, ==, !=, !, &&, ||, +, comparisons, len, m[k], v, ok := m[k], v, ok := x.(T), calls of
//               other listed functions, a table of library calls (maps.Clone, strings.ReplaceAll, reflect.DeepEqual,
//               utf8string, unicode.IsLower, fmt.Errorf, errors.Is), composite literals of maps and slices
// Semantics chosen by the translator (the trusted part; see DESIGN §15.8):
//   * values: Go maps become sorted association lists (value semantics).  That is sound only where no container is
//     mutated through an alias, so a mutation (m[k] = v, delete) is accepted only on a variable whose reaching
//     assignment is a fresh container (literal, make, maps.Clone) and that does not escape before its last mutation.
//   * `range` over a map iterates in key order (Go: unspecified order; order-independence is C09's subject).
//   * error values are their sentinel class (fmt.Errorf with %w keeps the wrapped class); nil error = none.
//   * recursion: every function that can reach a recursive call takes a fuel argument; out of fuel is GErr.fuel.
//     The equivalence theorems are stated for all sufficiently large fuel.
package main

import (
	"fmt"
	"go/ast"
	"go/constant"
	"go/importer"
	"go/parser"
	"go/token"
	"go/types"
	"os"
	"path/filepath"
	"sort"
	"strings"
)

// unit = the functions of one package directory that are translated into one Lean file (Generated/Trans/<name>.lean);
// one file per group keeps a change in one Go file from disturbing the theorems about the others
type unit struct {
	name    string   // Lean file name
	dir     string   // package directory relative to the repo
	ns      string   // Lean namespace below Bkl.Gen
	imports []string // other units whose functions this one calls
	funcs   []string // listed functions (order irrelevant)
	externs map[string]string // functions of the package that are NOT translated: passed as a parameter (name -> Lean type)
	owned   bool              // container PARAMETERS may be mutated: the caller hands them over and uses only what is returned
	structs bool              // *Document and *EvalContext are records (Go.Doc, Go.Ctx) instead of opaque handles
}

var units = []unit{
	{"Validate", ".", "Lib", nil, []string{"validate", "validateMap", "validateList", "validateString"}, nil, false, false},
	{"Finalize", ".", "Lib", nil, []string{"finalizeOutput", "finalizeMap", "finalizeList", "finalizeString"}, nil, false, false},
	{"Util", ".", "Lib", nil, []string{
		"popMapValue", "toBool", "getMapBoolValue", "hasMapBoolValue", "popMapBoolValue",
		"toString", "getMapStringValue", "popMapStringValue", "hasListMapBoolValue", "getListMapStringValue",
		"toStringList", "deepClone"}, nil, false, false},
	{"Match", ".", "Lib", []string{"Util"}, []string{"match", "matchMap", "matchList", "matchListSingle"}, nil, false, false},
	{"Bklr", "cmd/bklr", "Bklr", nil, []string{"required", "requiredMap", "requiredList"}, nil, false, false},
	{"Bkli", "cmd/bkli", "Bkli", nil, []string{"intersect", "intersectMap", "intersectMapMap", "intersectList", "intersectListList"}, nil, false, false},
	// higher-order helpers and their users (function literals that do not assign captured variables)
	{"Filter", ".", "Lib", []string{"Util"}, []string{"filterMap", "filterList", "popListMapBoolValue", "popListMapStringValue",
		"popListString", "popListMapValue"}, nil, false, false},
	{"Output", ".", "Lib", []string{"Util", "Filter"}, []string{"filterOutput", "filterOutputMap", "filterOutputList"}, nil, false, false},
	// the leaf functions of the $encode transforms (tolist / values / join's string conversion); fmt's %v is Bkl.fmtV
	{"Encode", ".", "Lib", nil, []string{"process2ToListList", "process2ToListMap", "process2ToListValue", "process2ValuesMap", "toStringListPermissive"}, nil, false, false},
	// the $encode dispatcher: arity checks, every transform, stacks; the third-party codecs behind GetFormat are parameters
	{"Encode2", ".", "Lib", []string{"Encode"}, []string{"process2EncodeAny", "process2EncodeString"},
		map[string]string{"GetFormat": "String → Go.Opaque × Option Err", ".MarshalStream": "Go.Opaque → List Val → String × Option Err"}, false, true},
	// document-level $repeat (repeat.go) and the evaluation context (evalcontext.go): *Document / *EvalContext are records here
	// (value semantics: repeat.go works on the private copy Document.Process makes); Document.Clone stays outside as a parameter
	{"Repeat", ".", "Lib", []string{"Util", "Filter"}, []string{"repeatDoc", "repeatDocMap", "repeatDocList", "repeatDocGen", "repeatDocGenFromInt",
		"repeatDocGenFromMap", "EvalContext.Clone", "EvalContext.GetVar"},
		map[string]string{"Document.Clone": "Go.Doc → String → Go.Doc × Option Err"}, true, true},
	// references (get.go): the YAML reading of a reference string is a parameter (parseRef)
	{"Get", ".", "Lib", []string{"Util", "Match", "Repeat"}, []string{"getWithVar", "get", "getRef", "getPathFromList", "getPathFromString", "getPath",
		"getCross", "getCrossDoc", "matchDoc"},
		map[string]string{"yaml.Unmarshal": "String → Val × Option Err"}, false, true},
	// phase 2 of evaluation (process2.go): nested $repeat, $encode, $decode, $value, $env, interpolation
	{"Process2", ".", "Lib", []string{"Util", "Filter", "Validate", "Repeat", "Get", "Encode", "Encode2"}, []string{"process2", "process2Map", "process2MapValue",
		"process2Encode", "process2Decode", "process2DecodeString", "process2DecodeStringMap", "process2List", "process2String", "process2StringInterp",
		"process2RepeatObjMap", "process2RepeatObjList"},
		map[string]string{"GetFormat": "String → Go.Opaque × Option Err", ".MarshalStream": "Go.Opaque → List Val → String × Option Err",
			".UnmarshalStream": "Go.Opaque → String → List Val × Option Err", "normalize": "Val → Val × Option Err",
			"yaml.Unmarshal": "String → Val × Option Err"}, false, true},
	// bkld: `reproduces` runs bkl's own merge through the public API; it is a parameter here and the model's merge in the theorem
	{"Bkld", "cmd/bkld", "Bkld", nil, []string{"diff", "replaceable", "diffMap", "diffMapMap", "diffList", "diffListList", "replaceList"},
		map[string]string{"reproduces": "List Val → List Val → List Val → Bool"}, false, false},
	// merge.go: the functions return the merged value; they also update `dst` in place, which value semantics renders as
	// "the caller uses only what is returned" (that callers do is the separation monitor's subject, not the translator's)
	{"Merge", ".", "Lib", []string{"Util", "Filter", "Match"}, []string{"merge", "mergeMap", "mergeMapMap", "mergeList", "mergeListList",
		"mergeListDelete", "mergeListMatch"}, nil, true, false},
}

type tr struct {
	fset   *token.FileSet
	info   *types.Info
	pkg    *types.Package
	decls  map[string]*ast.FuncDecl
	listed map[string]bool
	own    map[string]bool
	fuel   map[string]bool // functions that take fuel
	errs   []string
	// per function
	fn      *ast.FuncDecl
	names   map[types.Object]string
	used    map[string]int
	tmp     int
	curFuel bool
	results []kind            // result kinds of the function (or function literal) being translated
	externs map[string]string // extern name -> Lean type
	needExt map[string][]string // listed function -> externs it needs (sorted)
	pkgErr  string            // the package's one errors.New variable (mapped to Err.other)
	owned   bool              // container parameters may be mutated (unit flag)
	ho      map[string]bool   // listed functions with a function-valued parameter: translated in state-passing style
	inHO    bool              // translating such a function: `st__` is the state of the function values it calls
	structs bool              // unit flag
}

type refuse struct{ msg string }

func (t *tr) fail(n ast.Node, format string, a ...any) {
	pos := ""
	if n != nil {
		p := t.fset.Position(n.Pos())
		pos = fmt.Sprintf("%s:%d: ", filepath.Base(p.Filename), p.Line)
	}
	panic(refuse{pos + fmt.Sprintf(format, a...)})
}

func loadPkg(dir string, fset *token.FileSet) ([]*ast.File, *types.Info, *types.Package, error) {
	pkgs, err := parser.ParseDir(fset, dir, func(fi os.FileInfo) bool { return !strings.HasSuffix(fi.Name(), "_test.go") }, 0)
	if err != nil {
		return nil, nil, nil, err
	}
	var files []*ast.File
	for _, p := range pkgs {
		names := []string{}
		for n := range p.Files {
			names = append(names, n)
		}
		sort.Strings(names)
		for _, n := range names {
			files = append(files, p.Files[n])
		}
	}
	info := &types.Info{Types: map[ast.Expr]types.TypeAndValue{}, Uses: map[*ast.Ident]types.Object{}, Defs: map[*ast.Ident]types.Object{},
		Implicits: map[ast.Node]types.Object{}}
	conf := types.Config{Importer: importer.ForCompiler(fset, "source", nil), Error: func(error) {}}
	pkg, _ := conf.Check(filepath.Base(dir), fset, files, info)
	return files, info, pkg, nil
}

// ---------------------------------------------------------------- types

type kind int

const (
	kAny kind = iota
	kMap
	kList
	kStr
	kBool
	kInt
	kErr
	kStrList
	kRune
	kRunes // *utf8string.String
	kFunc  // func(...) (...) over kinds of the fragment
	kOpaque // pointers to structs (and slices of them): handed on, never looked into
	kBytes  // []byte, only as the text it was converted from / is converted to
	kHash   // hash.Hash: the text written to it so far
	kDoc     // *Document as a record (units with `structs`)
	kCtx     // *EvalContext as a record
	kDocList // []*Document
	kCtxList // []*EvalContext
	kBad
)

func (t *tr) kindOf(ty types.Type) kind {
	if ty == nil {
		return kBad
	}
	switch x := ty.(type) {
	case *types.Named:
		if x.Obj().Name() == "error" && x.Obj().Pkg() == nil {
			return kErr
		}
		if x.Obj().Pkg() != nil && x.Obj().Pkg().Path() == "hash" && x.Obj().Name() == "Hash" {
			return kHash
		}
		return t.kindOf(x.Underlying())
	case *types.Alias:
		return t.kindOf(types.Unalias(x))
	case *types.Interface:
		if x.NumMethods() == 0 {
			return kAny
		}
		if x.NumMethods() == 1 && x.Method(0).Name() == "Error" {
			return kErr
		}
	case *types.Map:
		if t.kindOf(x.Key()) == kStr && t.kindOf(x.Elem()) == kAny {
			return kMap
		}
	case *types.Slice:
		if b, ok := x.Elem().Underlying().(*types.Basic); ok && (b.Kind() == types.Uint8 || b.Kind() == types.Byte) {
			return kBytes
		}
		switch t.kindOf(x.Elem()) {
		case kAny:
			return kList
		case kStr:
			return kStrList
		case kOpaque:
			return kOpaque
		case kDoc:
			return kDocList
		case kCtx:
			return kCtxList
		}
	case *types.Basic:
		switch {
		case x.Kind() == types.UntypedNil:
			return kBad
		case x.Kind() == types.Int32 || x.Kind() == types.UntypedRune:
			return kRune
		case x.Info()&types.IsString != 0:
			return kStr
		case x.Info()&types.IsBoolean != 0:
			return kBool
		case x.Info()&types.IsInteger != 0:
			return kInt
		}
	case *types.Pointer:
		if s := x.Elem().String(); strings.HasSuffix(s, "utf8string.String") {
			return kRunes
		}
		if _, isStruct := x.Elem().Underlying().(*types.Struct); isStruct {
			if n, ok := x.Elem().(*types.Named); ok && t.structs {
				switch n.Obj().Name() {
				case "Document":
					return kDoc
				case "EvalContext":
					return kCtx
				}
			}
			return kOpaque
		}
	case *types.Signature:
		if x.Variadic() || x.Recv() != nil {
			return kBad
		}
		for i := 0; i < x.Params().Len(); i++ {
			if k := t.kindOf(x.Params().At(i).Type()); k == kBad || k == kFunc {
				return kBad
			}
		}
		for i := 0; i < x.Results().Len(); i++ {
			if k := t.kindOf(x.Results().At(i).Type()); k == kBad || k == kFunc {
				return kBad
			}
		}
		if x.Results().Len() == 0 {
			return kBad
		}
		return kFunc
	}
	return kBad
}

// Lean type of a function value: A → B → G (R1 × R2)
func (t *tr) funcType(sig *types.Signature) string {
	out := ""
	for i := 0; i < sig.Params().Len(); i++ {
		out += leanType(t.kindOf(sig.Params().At(i).Type())) + " → "
	}
	rs := []string{}
	for i := 0; i < sig.Results().Len(); i++ {
		rs = append(rs, leanType(t.kindOf(sig.Results().At(i).Type())))
	}
	return "(" + out + "G (" + strings.Join(rs, " × ") + "))"
}

// … in state-passing style: A → B → σ → G ((R1 × R2) × σ)
func (t *tr) funcTypeS(sig *types.Signature) string {
	out := ""
	for i := 0; i < sig.Params().Len(); i++ {
		out += leanType(t.kindOf(sig.Params().At(i).Type())) + " → "
	}
	rs := []string{}
	for i := 0; i < sig.Results().Len(); i++ {
		rs = append(rs, leanType(t.kindOf(sig.Results().At(i).Type())))
	}
	return "(" + out + "σ → G ((" + strings.Join(rs, " × ") + ") × σ))"
}

func sigOf(ty types.Type) *types.Signature {
	if ty == nil {
		return nil
	}
	sig, _ := ty.Underlying().(*types.Signature)
	return sig
}

func leanType(k kind) string {
	switch k {
	case kAny:
		return "Val"
	case kMap:
		return "Fields"
	case kList:
		return "(List Val)"
	case kStr:
		return "String"
	case kBool:
		return "Bool"
	case kInt:
		return "Int"
	case kErr:
		return "(Option Err)"
	case kStrList:
		return "(List String)"
	case kRune:
		return "Char"
	case kRunes:
		return "(List Char)"
	case kOpaque:
		return "Go.Opaque"
	case kBytes, kHash:
		return "String"
	case kDoc:
		return "Go.Doc"
	case kCtx:
		return "Go.Ctx"
	case kDocList:
		return "(List Go.Doc)"
	case kCtxList:
		return "(List Go.Ctx)"
	}
	return "?"
}

func zero(k kind) string {
	switch k {
	case kAny:
		return "Val.null"
	case kMap:
		return "([] : Fields)"
	case kList:
		return "([] : List Val)"
	case kStr:
		return "\"\""
	case kBool:
		return "false"
	case kInt:
		return "(0 : Int)"
	case kErr:
		return "(none : Option Err)"
	case kStrList:
		return "([] : List String)"
	case kDocList:
		return "([] : List Go.Doc)"
	case kCtxList:
		return "([] : List Go.Ctx)"
	case kDoc:
		return "Go.Doc.nil"
	case kCtx:
		return "(default : Go.Ctx)"
	}
	return "?"
}

// convert a term of kind `from` to kind `to` (only concrete -> any)
func (t *tr) conv(n ast.Node, term string, from, to kind) string {
	if from == to {
		return term
	}
	if to == kAny {
		switch from {
		case kMap:
			return "(Val.map " + term + ")"
		case kList:
			return "(Val.list " + term + ")"
		case kStr:
			return "(Val.str " + term + ")"
		case kBool:
			return "(Val.bool " + term + ")"
		case kInt:
			return "(Val.int " + term + ")"
		}
	}
	t.fail(n, "no conversion from %s to %s", leanType(from), leanType(to))
	return ""
}

func leanStr(s string) string {
	var b strings.Builder
	b.WriteByte('"')
	for _, r := range s {
		switch {
		case r == '"':
			b.WriteString("\\\"")
		case r == '\\':
			b.WriteString("\\\\")
		case r == '\n':
			b.WriteString("\\n")
		case r == '\t':
			b.WriteString("\\t")
		case r < 32 || r > 126:
			fmt.Fprintf(&b, "\\u{%x}", r)
		default:
			b.WriteRune(r)
		}
	}
	b.WriteByte('"')
	return b.String()
}

var leanKeywords = map[string]bool{"at": true, "from": true, "end": true, "open": true, "match": true, "fun": true, "then": true, "else": true,
	"if": true, "let": true, "have": true, "show": true, "do": true, "in": true, "with": true, "def": true, "theorem": true, "namespace": true,
	"section": true, "variable": true, "where": true, "by": true, "instance": true, "structure": true, "class": true, "inductive": true, "mutual": true,
	"Type": true, "Prop": true, "Sort": true, "import": true, "export": true, "local": true, "private": true, "protected": true, "return": true,
	"for": true, "unless": true, "try": true, "catch": true, "finally": true, "mut": true, "using": true, "obtain": true, "calc": true, "fuel": true,
	"e": true, "s": true, "prefix": true, "infix": true, "infixl": true, "infixr": true, "postfix": true, "notation": true, "macro": true,
	"syntax": true, "universe": true, "axiom": true, "example": true, "abbrev": true, "opaque": true, "deriving": true, "extends": true,
	"attribute": true, "noncomputable": true, "partial": true, "unsafe": true, "termination_by": true, "decreasing_by": true, "set_option": true,
	"some": true, "none": true, "true": true, "false": true, "not": true, "and": true, "or": true, "id": true, "max": true, "min": true, "toString": true}

// ---------------------------------------------------------------- names

func (t *tr) nameOf(o types.Object) string {
	if n, ok := t.names[o]; ok {
		return n
	}
	base := o.Name()
	if base == "_" {
		base = "blank"
	}
	if leanKeywords[base] {
		base = base + "'"
	}
	n := base
	if c := t.used[base]; c > 0 {
		n = fmt.Sprintf("%s_%d", base, c)
	}
	t.used[base]++
	t.names[o] = n
	return n
}

func (t *tr) fresh(p string) string {
	t.tmp++
	return fmt.Sprintf("%s__%d", p, t.tmp)
}

func (t *tr) objOf(id *ast.Ident) types.Object {
	if o := t.info.Defs[id]; o != nil {
		return o
	}
	return t.info.Uses[id]
}

func (t *tr) typeOf(e ast.Expr) types.Type {
	if tv, ok := t.info.Types[e]; ok {
		return tv.Type
	}
	if id, ok := e.(*ast.Ident); ok {
		if o := t.objOf(id); o != nil {
			return o.Type()
		}
	}
	return nil
}

func (t *tr) kindE(e ast.Expr) kind { return t.kindOf(t.typeOf(e)) }

// ---------------------------------------------------------------- expressions
//
// ex(e, want, k): emits code that evaluates e (binding the results of calls first), converts it to `want`
// (kBad = leave as is) and continues with k(term).

func isNil(e ast.Expr) bool {
	id, ok := e.(*ast.Ident)
	return ok && id.Name == "nil"
}

func callName(c *ast.CallExpr) string {
	switch f := c.Fun.(type) {
	case *ast.Ident:
		return f.Name
	case *ast.SelectorExpr:
		if x, ok := f.X.(*ast.Ident); ok {
			return x.Name + "." + f.Sel.Name
		}
		if x, ok := f.X.(*ast.SelectorExpr); ok {
			if y, ok := x.X.(*ast.Ident); ok {
				return y.Name + "." + x.Sel.Name + "." + f.Sel.Name
			}
		}
		return "." + f.Sel.Name
	case *ast.ArrayType:
		if id, ok := f.Elt.(*ast.Ident); ok && f.Len == nil && id.Name == "byte" {
			return "[]byte"
		}
	}
	return ""
}

func (t *tr) bindG(call string, pat string, k func() string) string {
	return fmt.Sprintf("(match %s with\n | .error e__ => .error e__\n | .ok %s => %s)", call, pat, k())
}

func (t *tr) exs(es []ast.Expr, wants []kind, k func([]string) string) string {
	if len(es) == 0 {
		return k(nil)
	}
	return t.ex(es[0], wants[0], func(a string) string {
		return t.exs(es[1:], wants[1:], func(rest []string) string { return k(append([]string{a}, rest...)) })
	})
}

func (t *tr) sentinel(e ast.Expr) (string, bool) {
	if id, ok := e.(*ast.Ident); ok && t.pkgErr != "" && id.Name == t.pkgErr {
		if v, isVar := t.objOf(id).(*types.Var); isVar && v.Parent() == t.pkg.Scope() {
			return "Err.other", true
		}
	}
	id, ok := e.(*ast.Ident)
	if ok && strings.HasPrefix(id.Name, "Err") && len(id.Name) > 3 && t.kindE(e) == kErr {
		if _, isVar := t.objOf(id).(*types.Var); isVar && t.objOf(id).Parent() == t.pkg.Scope() {
			return "Err." + strings.ToLower(id.Name[3:4]) + id.Name[4:], true
		}
	}
	if sel, ok := e.(*ast.SelectorExpr); ok && strings.HasPrefix(sel.Sel.Name, "Err") && len(sel.Sel.Name) > 3 {
		if x, ok := sel.X.(*ast.Ident); ok && x.Name == "bkl" {
			return "Err." + strings.ToLower(sel.Sel.Name[3:4]) + sel.Sel.Name[4:], true
		}
	}
	return "", false
}

func (t *tr) ex(e ast.Expr, want kind, k func(string) string) string {
	done := func(term string, have kind) string {
		if want == kBad || have == kBad {
			return k(term)
		}
		return k(t.conv(e, term, have, want))
	}
	switch x := e.(type) {
	case *ast.ParenExpr:
		return t.ex(x.X, want, k)
	case *ast.BasicLit:
		tv := t.info.Types[e]
		switch x.Kind {
		case token.STRING:
			return done(leanStr(constant.StringVal(tv.Value)), kStr)
		case token.INT:
			return done("("+x.Value+" : Int)", kInt)
		case token.CHAR:
			v, _ := constant.Int64Val(tv.Value)
			return done(fmt.Sprintf("(Char.ofNat %d)", v), kRune)
		}
	case *ast.Ident:
		switch x.Name {
		case "nil":
			if want == kBad {
				t.fail(e, "nil without a known type")
			}
			return k(zero(want))
		case "true", "false":
			if _, isConst := t.objOf(x).(*types.Const); isConst {
				return done(x.Name, kBool)
			}
		}
		if s, ok := t.sentinel(e); ok {
			return done("(some "+s+")", kErr)
		}
		o := t.objOf(x)
		if v, ok := o.(*types.Var); ok && v.Parent() != t.pkg.Scope() {
			return done(t.nameOf(o), t.kindOf(o.Type()))
		}
		if c, ok := o.(*types.Const); ok && c.Val().Kind() == constant.String {
			return done(leanStr(constant.StringVal(c.Val())), kStr)
		}
		t.fail(e, "identifier %s outside the fragment", x.Name)
	case *ast.UnaryExpr:
		if x.Op == token.AND {
			if cl, ok := x.X.(*ast.CompositeLit); ok && t.kindE(e) == kCtx && len(cl.Elts) == 1 {
				if kv, ok := cl.Elts[0].(*ast.KeyValueExpr); ok {
					if kid, ok := kv.Key.(*ast.Ident); ok && kid.Name == "Vars" {
						return t.ex(kv.Value, kMap, func(v string) string { return done("({ vars := "+v+" } : Go.Ctx)", kCtx) })
					}
				}
			}
			t.fail(e, "address-of outside the fragment")
		}
		if x.Op == token.NOT {
			return t.ex(x.X, kBool, func(a string) string { return done("(!"+a+")", kBool) })
		}
		if x.Op == token.SUB {
			return t.ex(x.X, kInt, func(a string) string { return done("(-"+a+")", kInt) })
		}
	case *ast.BinaryExpr:
		switch x.Op {
		case token.LAND, token.LOR:
			return t.ex(x.X, kBool, func(a string) string {
				if !t.hasCall(x.Y) {
					return t.ex(x.Y, kBool, func(b string) string {
						op := "&&"
						if x.Op == token.LOR {
							op = "||"
						}
						return done("("+a+" "+op+" "+b+")", kBool)
					})
				}
				// short circuit around a call: the continuation is emitted twice
				if x.Op == token.LAND {
					return "(if " + a + " then " + t.ex(x.Y, kBool, func(b string) string { return done(b, kBool) }) + " else " + done("false", kBool) + ")"
				}
				return "(if " + a + " then " + done("true", kBool) + " else " + t.ex(x.Y, kBool, func(b string) string { return done(b, kBool) }) + ")"
			})
		case token.EQL, token.NEQ:
			if coll, empty, ok := t.lenTest(x); ok {
				return t.ex(coll, kBad, func(a string) string {
					if empty {
						return done("("+a+".isEmpty)", kBool)
					}
					return done("(!("+a+".isEmpty))", kBool)
				})
			}
			kx, ky := t.kindE(x.X), t.kindE(x.Y)
			if isNil(x.X) {
				kx = ky
			}
			if isNil(x.Y) {
				ky = kx
			}
			if (kx == kDoc || ky == kDoc) && (isNil(x.X) || isNil(x.Y)) {
				other := x.X
				if isNil(x.X) {
					other = x.Y
				}
				return t.ex(other, kDoc, func(a string) string {
					if x.Op == token.EQL {
						return done("("+a+".isNil)", kBool)
					}
					return done("(!"+a+".isNil)", kBool)
				})
			}
			cmp := kx
			if kx != ky {
				cmp = kAny // a concrete operand against an interface: compare as interfaces
			}
			if cmp == kBad {
				t.fail(e, "comparison of values outside the fragment")
			}
			if cmp == kMap || cmp == kList || cmp == kStrList {
				if !isNil(x.X) && !isNil(x.Y) {
					t.fail(e, "Go cannot compare maps or slices")
				}
				// m == nil: nil and empty containers are one value here; refuse rather than guess
				t.fail(e, "comparison of a map or slice with nil is outside the fragment")
			}
			return t.ex(x.X, cmp, func(a string) string {
				return t.ex(x.Y, cmp, func(b string) string {
					if x.Op == token.EQL {
						return done("("+a+" == "+b+")", kBool)
					}
					return done("(!("+a+" == "+b+"))", kBool) // canonical: a negated equality
				})
			})
		case token.ADD, token.SUB, token.LSS, token.GTR, token.LEQ, token.GEQ:
			if coll, empty, ok := t.lenTest(x); ok {
				return t.ex(coll, kBad, func(a string) string {
					if empty {
						return done("("+a+".isEmpty)", kBool)
					}
					return done("(!("+a+".isEmpty))", kBool)
				})
			}
			kx := t.kindE(x.X)
			if kx != kInt && !(kx == kStr && x.Op == token.ADD) {
				t.fail(e, "operator %s on this type is outside the fragment", x.Op)
			}
			res := kBool
			if x.Op == token.ADD || x.Op == token.SUB {
				res = kx
			}
			op := map[token.Token]string{token.ADD: "+", token.SUB: "-", token.LSS: "<", token.GTR: ">", token.LEQ: "≤", token.GEQ: "≥"}[x.Op]
			if kx == kStr {
				op = "++"
			}
			return t.ex(x.X, kx, func(a string) string {
				return t.ex(x.Y, kx, func(b string) string {
					if res == kBool {
						return done("(decide ("+a+" "+op+" "+b+"))", kBool)
					}
					return done("("+a+" "+op+" "+b+")", res)
				})
			})
		}
	case *ast.IndexExpr:
		if t.kindE(x.X) == kMap {
			return t.ex(x.X, kMap, func(m string) string {
				return t.ex(x.Index, kStr, func(i string) string { return done("(Go.mapIndex "+m+" "+i+")", kAny) })
			})
		}
		if t.kindE(x.X) == kList {
			// Go panics outside the slice; the functions of the fragment guard the access with len (Go.listAt is total)
			return t.ex(x.X, kList, func(l string) string {
				return t.ex(x.Index, kInt, func(i string) string { return done("(Go.listAt "+l+" "+i+")", kAny) })
			})
		}
		if kd := t.kindE(x.X); kd == kDocList || kd == kCtxList {
			// guarded by the loop that produces the index; total with a default
			return t.ex(x.X, kd, func(l string) string {
				return t.ex(x.Index, kInt, func(i string) string {
					el := kDoc
					if kd == kCtxList {
						el = kCtx
					}
					return done("("+l+".getD "+i+".toNat default)", el)
				})
			})
		}
		if t.kindE(x.X) == kStrList {
			// Go panics outside the slice; the functions of the fragment guard the access with len (Go.strAt is total)
			return t.ex(x.X, kStrList, func(l string) string {
				return t.ex(x.Index, kInt, func(i string) string { return done("(Go.strAt "+l+" "+i+")", kStr) })
			})
		}
		t.fail(e, "index expression on a non-map (may panic) is outside the fragment")
	case *ast.CompositeLit:
		switch t.kindE(e) {
		case kMap:
			ks, vs := []ast.Expr{}, []ast.Expr{}
			for _, el := range x.Elts {
				kv := el.(*ast.KeyValueExpr)
				ks, vs = append(ks, kv.Key), append(vs, kv.Value)
			}
			wk, wv := make([]kind, len(ks)), make([]kind, len(vs))
			for i := range ks {
				wk[i], wv[i] = kStr, kAny
			}
			return t.exs(ks, wk, func(kt []string) string {
				return t.exs(vs, wv, func(vt []string) string {
					term := "([] : Fields)"
					for i := range kt {
						term = "(fset " + term + " " + kt[i] + " " + vt[i] + ")"
					}
					return done(term, kMap)
				})
			})
		case kDocList, kCtxList:
			el := kDoc
			if t.kindE(e) == kCtxList {
				el = kCtx
			}
			w := make([]kind, len(x.Elts))
			for i := range w {
				w[i] = el
			}
			return t.exs(x.Elts, w, func(ts []string) string {
				return done("(["+strings.Join(ts, ", ")+"] : "+strings.Trim(leanType(t.kindE(e)), "()")+")", t.kindE(e))
			})
		case kList, kStrList:
			el := kAny
			if t.kindE(e) == kStrList {
				el = kStr
			}
			w := make([]kind, len(x.Elts))
			for i := range w {
				w[i] = el
			}
			return t.exs(x.Elts, w, func(ts []string) string {
				return done("(["+strings.Join(ts, ", ")+"] : "+strings.Trim(leanType(t.kindE(e)), "()")+")", t.kindE(e))
			})
		}
	case *ast.CallExpr:
		return t.call(x, func(terms []string, kinds []kind) string {
			if len(terms) != 1 {
				t.fail(e, "multi-value call in a single-value position")
			}
			return done(terms[0], kinds[0])
		})
	case *ast.SliceExpr:
		if kd := t.kindE(x.X); (kd == kList || kd == kStrList) && x.High == nil && x.Max == nil && x.Low != nil {
			return t.ex(x.X, kd, func(l string) string {
				return t.ex(x.Low, kInt, func(i string) string { return done("("+l+".drop "+i+".toNat)", kd) })
			})
		}
		t.fail(e, "slice expression outside the fragment (only l[n:])")
	case *ast.FuncLit:
		t.fail(e, "function literal outside the argument list of a listed higher-order function")
	case *ast.SelectorExpr:
		switch t.kindE(x.X) {
		case kDoc:
			switch x.Sel.Name {
			case "Data":
				return t.ex(x.X, kDoc, func(d string) string { return done(d+".data", kAny) })
			case "ID":
				return t.ex(x.X, kDoc, func(d string) string { return done(d+".id", kStr) })
			}
		case kCtx:
			if x.Sel.Name == "Vars" {
				return t.ex(x.X, kCtx, func(d string) string { return done(d+".vars", kMap) })
			}
		}
		t.fail(e, "field %s outside the fragment", x.Sel.Name)
	}
	t.fail(e, "expression %T is outside the fragment", e)
	return ""
}

// a function literal that only READS the variables it captures becomes a Lean lambda
// A function literal becomes a Lean lambda in state-passing style: the variables of the enclosing function that it ASSIGNS
// are its state (taken as an extra argument, returned beside the results); what it only reads is captured lexically.
// Returns the lambda, the state tuple (names) and its type.
func (t *tr) funcLit(x *ast.FuncLit) (lambda string, state string, stateType string) {
	sig := sigOf(t.typeOf(x))
	if sig == nil || t.kindOf(sig) != kFunc {
		t.fail(x, "function literal with a signature outside the fragment")
	}
	own := map[types.Object]bool{}
	for _, f := range x.Type.Params.List {
		for _, id := range f.Names {
			own[t.objOf(id)] = true
		}
	}
	outer := []types.Object{}
	for _, o := range t.loopState(x.Body) {
		if !own[o] {
			outer = append(outer, o)
		}
	}
	sn, st := []string{}, []string{}
	for _, o := range outer {
		kd := t.kindOf(o.Type())
		if kd == kBad || kd == kFunc {
			t.fail(x, "function literal assigns a captured variable of a type outside the fragment")
		}
		sn = append(sn, t.nameOf(o))
		st = append(st, leanType(kd))
	}
	state, stateType = "()", "Unit"
	if len(sn) > 0 {
		state, stateType = tuple(sn), "("+strings.Join(st, " × ")+")"
		if len(sn) == 1 {
			stateType = st[0]
		}
	}
	params := ""
	for _, f := range x.Type.Params.List {
		for _, id := range f.Names {
			o := t.objOf(id)
			params += " (" + t.nameOf(o) + " : " + leanType(t.kindOf(o.Type())) + ")"
		}
	}
	if x.Type.Results != nil {
		for _, f := range x.Type.Results.List {
			if len(f.Names) > 0 {
				t.fail(f, "named results")
			}
		}
	}
	saved, savedHO := t.results, t.inHO
	t.results, t.inHO = nil, false
	for i := 0; i < sig.Results().Len(); i++ {
		t.results = append(t.results, t.kindOf(sig.Results().At(i).Type()))
	}
	top := ctx{ret: func(vals []string) string { return "(.ok (" + tuple(vals) + ", " + state + "))" }}
	body := t.stmts(x.Body.List, top, func() string {
		t.fail(x, "control reaches the end of the function literal")
		return ""
	})
	t.results, t.inHO = saved, savedHO
	pat := "(_ : Unit)"
	if len(sn) > 0 {
		pat = "(" + state + " : " + stateType + ")"
		if len(sn) == 1 {
			pat = "(" + sn[0] + " : " + st[0] + ")"
		}
	}
	return "(fun" + params + " " + pat + " =>\n" + body + ")", state, stateType
}

// does the body call a function VALUE (a function-typed parameter or local)?
func (t *tr) callsFuncValue(n ast.Node) bool {
	found := false
	ast.Inspect(n, func(x ast.Node) bool {
		if c, ok := x.(*ast.CallExpr); ok {
			if id, ok := c.Fun.(*ast.Ident); ok {
				if v, isVar := t.objOf(id).(*types.Var); isVar && sigOf(v.Type()) != nil {
					found = true
				}
			}
		}
		return true
	})
	return found
}

// len(c) compared with 0 or 1 where c is a map or a slice: every spelling of "c is empty" / "c is not empty" is one term
func (t *tr) lenTest(x *ast.BinaryExpr) (coll ast.Expr, empty bool, ok bool) {
	lenOf := func(e ast.Expr) ast.Expr {
		if c, isCall := e.(*ast.CallExpr); isCall && callName(c) == "len" && len(c.Args) == 1 {
			switch t.kindE(c.Args[0]) {
			case kMap, kList, kStrList, kDocList, kCtxList:
				return c.Args[0]
			}
		}
		return nil
	}
	lit := func(e ast.Expr) int {
		if b, isLit := e.(*ast.BasicLit); isLit && b.Kind == token.INT {
			if b.Value == "0" {
				return 0
			}
			if b.Value == "1" {
				return 1
			}
		}
		return -1
	}
	op := x.Op
	c, n := lenOf(x.X), lit(x.Y)
	if c == nil {
		// 0 < len(x): mirror
		c, n = lenOf(x.Y), lit(x.X)
		op = map[token.Token]token.Token{token.LSS: token.GTR, token.GTR: token.LSS, token.LEQ: token.GEQ, token.GEQ: token.LEQ, token.EQL: token.EQL, token.NEQ: token.NEQ}[op]
	}
	if c == nil || n < 0 {
		return nil, false, false
	}
	switch {
	case n == 0 && (op == token.EQL || op == token.LEQ), n == 1 && op == token.LSS:
		return c, true, true
	case n == 0 && (op == token.NEQ || op == token.GTR), n == 1 && op == token.GEQ:
		return c, false, true
	}
	return nil, false, false
}

// a condition of the form (!c): its core and true; otherwise the condition and false
func stripNot(cond string) (string, bool) {
	if strings.HasPrefix(cond, "(!") && strings.HasSuffix(cond, ")") {
		inner := cond[2 : len(cond)-1]
		depth := 0
		for _, ch := range inner {
			if ch == '(' {
				depth++
			}
			if ch == ')' {
				depth--
				if depth < 0 {
					return cond, false
				}
			}
		}
		if depth == 0 {
			return inner, true
		}
	}
	return cond, false
}

// does e contain a call of a listed (hence monadic) function?  Library primitives are total pure terms.
func (t *tr) hasCall(e ast.Expr) bool {
	found := false
	ast.Inspect(e, func(n ast.Node) bool {
		if c, ok := n.(*ast.CallExpr); ok {
			if id, ok := c.Fun.(*ast.Ident); ok {
				if t.listed[id.Name] {
					found = true
				}
				if v, isVar := t.objOf(id).(*types.Var); isVar && sigOf(v.Type()) != nil {
					found = true
				}
			}
		}
		return true
	})
	return found
}

// results of a listed function: kinds of its results (error included, as Option Err)
func (t *tr) sigKinds(fd *ast.FuncDecl) (params []kind, results []kind) {
	sig := t.info.Defs[fd.Name].Type().(*types.Signature)
	for i := 0; i < sig.Params().Len(); i++ {
		params = append(params, t.kindOf(sig.Params().At(i).Type()))
	}
	for i := 0; i < sig.Results().Len(); i++ {
		results = append(results, t.kindOf(sig.Results().At(i).Type()))
	}
	return
}

func tuple(ts []string) string {
	if len(ts) == 1 {
		return ts[0]
	}
	return "(" + strings.Join(ts, ", ") + ")"
}

// Lean name of an extern parameter
func externName(key string) string {
	n := strings.ReplaceAll(strings.TrimPrefix(key, "."), ".", "")
	return strings.ToLower(n[:1]) + n[1:]
}

// Lean name of a listed function or method
func leanFuncName(key string) string { return strings.ReplaceAll(key, ".", "_") + "'" }

// an extern is a pure function returning a value or a pair
func (t *tr) externResult(term string, rk []kind, k func([]string, []kind) string) string {
	switch len(rk) {
	case 1:
		return k([]string{term}, rk)
	case 2:
		p := t.fresh("x")
		return "(let " + p + " := " + term + "\n" + k([]string{p + ".1", p + ".2"}, rk) + ")"
	}
	panic(refuse{"extern with more than two results"})
}

// call: evaluates a call; k receives one term per result
func (t *tr) call(c *ast.CallExpr, k func([]string, []kind) string) string {
	name := callName(c)
	one := func(term string, kd kind) string { return k([]string{term}, []kind{kd}) }
	if fd, ok := t.decls[name]; ok && t.listed[name] {
		if _, isFn := t.objOf(c.Fun.(*ast.Ident)).(*types.Func); isFn {
			pk, rk := t.sigKinds(fd)
			if c.Ellipsis != token.NoPos {
				t.fail(c, "variadic call outside the fragment")
			}
			if t.ho[name] {
				// a higher-order callee: its function argument must be a literal; the literal's assigned captures are
				// threaded through the callee as state
				fi := -1
				for i, kd := range pk {
					if kd == kFunc {
						if fi >= 0 {
							t.fail(c, "two function arguments")
						}
						fi = i
					}
				}
				lit, ok := c.Args[fi].(*ast.FuncLit)
				if !ok {
					t.fail(c, "the function argument of %s is not a function literal", name)
				}
				rest := append(append([]ast.Expr{}, c.Args[:fi]...), c.Args[fi+1:]...)
				restK := append(append([]kind{}, pk[:fi]...), pk[fi+1:]...)
				return t.exs(rest, restK, func(args []string) string {
					lambda, state, _ := t.funcLit(lit)
					all := append(append([]string{}, args[:fi]...), lambda)
					all = append(all, args[fi:]...)
					callee := name + "'"
					if t.fuel[name] {
						callee += " fuel"
					}
					rs := make([]string, len(rk))
					for i := range rs {
						rs[i] = t.fresh("r")
					}
					return t.bindG("("+callee+" "+strings.Join(all, " ")+" "+state+")", "("+tuple(rs)+", "+state+")", func() string { return k(rs, rk) })
				})
			}
			return t.exs(c.Args, pk, func(args []string) string {
				callee := name + "'"
				for _, ex := range t.needExt[name] {
					callee += " " + externName(ex)
				}
				if t.fuel[name] {
					if !t.curFuel {
						t.fail(c, "internal: fuel-less function calls a fuelled one")
					}
					callee += " fuel"
				}
				call := callee + " " + strings.Join(args, " ")
				rs := make([]string, len(rk))
				for i := range rs {
					rs[i] = t.fresh("r")
				}
				return t.bindG("("+call+")", tuple(rs), func() string { return k(rs, rk) })
			})
		}
	}
	arg := func(i int, w kind, k2 func(string) string) string { return t.ex(c.Args[i], w, k2) }
	if id, ok := c.Fun.(*ast.Ident); ok {
		if v, isVar := t.objOf(id).(*types.Var); isVar && v.Parent() != t.pkg.Scope() {
			// a call of a function VALUE (parameter or local)
			if sig := sigOf(v.Type()); sig != nil && t.kindOf(sig) == kFunc {
				pk, rk := []kind{}, []kind{}
				for i := 0; i < sig.Params().Len(); i++ {
					pk = append(pk, t.kindOf(sig.Params().At(i).Type()))
				}
				for i := 0; i < sig.Results().Len(); i++ {
					rk = append(rk, t.kindOf(sig.Results().At(i).Type()))
				}
				return t.exs(c.Args, pk, func(args []string) string {
					rs := make([]string, len(rk))
					for i := range rs {
						rs[i] = t.fresh("r")
					}
					if !t.inHO {
						t.fail(c, "call of a function value outside a higher-order listed function")
					}
					return t.bindG("("+t.nameOf(v)+" "+strings.Join(args, " ")+" st__)", "("+tuple(rs)+", st__)", func() string { return k(rs, rk) })
				})
			}
		}
		if _, isExt := t.externs[id.Name]; isExt {
			if fn, isFn := t.objOf(id).(*types.Func); isFn {
				sig := fn.Type().(*types.Signature)
				pk := []kind{}
				for i := 0; i < sig.Params().Len(); i++ {
					pk = append(pk, t.kindOf(sig.Params().At(i).Type()))
				}
				rk := []kind{}
				for i := 0; i < sig.Results().Len(); i++ {
					rk = append(rk, t.kindOf(sig.Results().At(i).Type()))
				}
				return t.exs(c.Args, pk, func(args []string) string {
					return t.externResult("("+externName(id.Name)+" "+strings.Join(args, " ")+")", rk, k)
				})
			}
		}
	}
	// interpRE.ReplaceAllStringFunc(s, func(m string) string {…}): the regexp `{.*?}` is the model's segment scanner
	// (Go.replaceAllInterp); the literal is state-passing like every other one
	if sel, ok := c.Fun.(*ast.SelectorExpr); ok && sel.Sel.Name == "ReplaceAllStringFunc" && len(c.Args) == 2 {
		if rid, ok := sel.X.(*ast.Ident); ok && rid.Name == "interpRE" {
			if lit, ok := c.Args[1].(*ast.FuncLit); ok {
				return arg(0, kStr, func(a string) string {
					lambda, state, _ := t.funcLit(lit)
					r := t.fresh("r")
					return t.bindG("(Go.replaceAllInterp "+a+" "+lambda+" "+state+")", "("+r+", "+state+")", func() string { return one(r, kStr) })
				})
			}
		}
	}
	// listed methods and method externs keyed by the receiver's type: ec.Clone(), doc.Clone(s)
	if sel, ok := c.Fun.(*ast.SelectorExpr); ok {
		recvName := map[kind]string{kDoc: "Document", kCtx: "EvalContext"}[t.kindE(sel.X)]
		if recvName != "" {
			key := recvName + "." + sel.Sel.Name
			sig := sigOf(t.typeOf(c.Fun))
			if sig != nil {
				pk, rk := []kind{}, []kind{}
				for i := 0; i < sig.Params().Len(); i++ {
					pk = append(pk, t.kindOf(sig.Params().At(i).Type()))
				}
				for i := 0; i < sig.Results().Len(); i++ {
					rk = append(rk, t.kindOf(sig.Results().At(i).Type()))
				}
				if _, isExt := t.externs[key]; isExt {
					return t.ex(sel.X, kBad, func(recv string) string {
						return t.exs(c.Args, pk, func(args []string) string {
							return t.externResult("("+externName(key)+" "+recv+" "+strings.Join(args, " ")+")", rk, k)
						})
					})
				}
				if t.listed[key] {
					return t.ex(sel.X, kBad, func(recv string) string {
						return t.exs(c.Args, pk, func(args []string) string {
							callee := leanFuncName(key)
							for _, ex := range t.needExt[key] {
								callee += " " + externName(ex)
							}
							if t.fuel[key] {
								callee += " fuel"
							}
							rs := make([]string, len(rk))
							for i := range rs {
								rs[i] = t.fresh("r")
							}
							return t.bindG("("+callee+" "+recv+" "+strings.Join(args, " ")+")", tuple(rs), func() string { return k(rs, rk) })
						})
					})
				}
			}
		}
	}
	// method externs (f.MarshalStream(...)) and function externs with several results
	if sel, ok := c.Fun.(*ast.SelectorExpr); ok {
		if lt, isExt := t.externs["."+sel.Sel.Name]; isExt && lt != "" && t.kindE(sel.X) == kOpaque {
			sig := sigOf(t.typeOf(c.Fun))
			if sig == nil {
				t.fail(c, "method extern without a signature")
			}
			pk := []kind{}
			for i := 0; i < sig.Params().Len(); i++ {
				pk = append(pk, t.kindOf(sig.Params().At(i).Type()))
			}
			rk := []kind{}
			for i := 0; i < sig.Results().Len(); i++ {
				rk = append(rk, t.kindOf(sig.Results().At(i).Type()))
			}
			return t.ex(sel.X, kOpaque, func(recv string) string {
				return t.exs(c.Args, pk, func(args []string) string {
					return t.externResult("("+externName("."+sel.Sel.Name)+" "+recv+" "+strings.Join(args, " ")+")", rk, k)
				})
			})
		}
	}
	switch name {
	case "[]byte", "string":
		if len(c.Args) == 1 {
			src := t.kindE(c.Args[0])
			if (name == "[]byte" && src == kStr) || (name == "string" && (src == kBytes || src == kStr)) {
				res := kBytes
				if name == "string" {
					res = kStr
				}
				return arg(0, src, func(a string) string { return one(a, res) })
			}
		}
	case "strings.Split":
		return arg(0, kStr, func(a string) string {
			return arg(1, kStr, func(b string) string { return one("("+a+".splitOn "+b+")", kStrList) })
		})
	case "strings.Join":
		return arg(0, kStrList, func(a string) string {
			return arg(1, kStr, func(b string) string { return one("("+b+".intercalate "+a+")", kStr) })
		})
	case "base64.StdEncoding.EncodeToString":
		return arg(0, kBytes, func(a string) string { return one("(Bkl.base64 "+a+")", kStr) })
	case "sha256.New":
		return one("\"\"", kHash)
	case "hex.EncodeToString":
		// hex.EncodeToString(h.Sum(nil)) for a SHA-256 hash h
		if inner, ok := c.Args[0].(*ast.CallExpr); ok {
			if sel, ok := inner.Fun.(*ast.SelectorExpr); ok && sel.Sel.Name == "Sum" && len(inner.Args) == 1 && isNil(inner.Args[0]) && t.kindE(sel.X) == kHash {
				return t.ex(sel.X, kHash, func(h string) string { return one("(Bkl.sha256Hex "+h+")", kStr) })
			}
		}
	case "slices.Clone":
		kd := t.kindE(c.Args[0])
		return arg(0, kd, func(a string) string { return one(a, kd) })
	case "len":
		switch t.kindE(c.Args[0]) {
		case kMap, kList, kStrList, kDocList, kCtxList:
			return arg(0, kBad, func(a string) string { return one("(Int.ofNat "+a+".length)", kInt) })
		case kStr:
			return arg(0, kStr, func(a string) string { return one("(Int.ofNat "+a+".utf8ByteSize)", kInt) })
		}
	case "append":
		kd := t.kindE(c.Args[0])
		el := kAny
		if kd == kStrList {
			el = kStr
		} else if kd == kDocList {
			el = kDoc
		} else if kd == kCtxList {
			el = kCtx
		} else if kd != kList {
			t.fail(c, "append on this type is outside the fragment")
		}
		if c.Ellipsis != token.NoPos {
			return arg(0, kd, func(a string) string { return arg(1, kd, func(b string) string { return one("("+a+" ++ "+b+")", kd) }) })
		}
		w := make([]kind, len(c.Args)-1)
		for i := range w {
			w[i] = el
		}
		return arg(0, kd, func(a string) string {
			return t.exs(c.Args[1:], w, func(ts []string) string { return one("("+a+" ++ ["+strings.Join(ts, ", ")+"])", kd) })
		})
	case "make":
		kd := t.kindOf(t.typeOf(c))
		if kd == kMap {
			return one("([] : Fields)", kMap)
		}
		if kd == kList {
			if len(c.Args) == 3 {
				if lit, ok := c.Args[1].(*ast.BasicLit); ok && lit.Value == "0" {
					return one("([] : List Val)", kList)
				}
			}
			if len(c.Args) == 2 {
				return arg(1, kInt, func(n string) string { return one("(List.replicate "+n+".toNat Val.null)", kList) })
			}
		}
	case "any":
		return arg(0, kAny, func(a string) string { return one(a, kAny) })
	case "maps.Clone":
		return arg(0, kMap, func(a string) string { return one(a, kMap) })
	case "strings.ReplaceAll":
		// Go.replaceAll renders the NON-EMPTY pattern case only (an empty pattern inserts between runes)
		if lit, ok := c.Args[1].(*ast.BasicLit); !ok || lit.Kind != token.STRING || constant.StringVal(t.info.Types[lit].Value) == "" {
			t.fail(c, "strings.ReplaceAll with a pattern that is not a non-empty string literal")
		}
		return arg(0, kStr, func(a string) string {
			return arg(1, kStr, func(b string) string {
				return arg(2, kStr, func(cc string) string { return one("(Go.replaceAll "+a+" "+b+" "+cc+")", kStr) })
			})
		})
	case "strings.HasPrefix":
		return arg(0, kStr, func(a string) string {
			return arg(1, kStr, func(b string) string { return one("(Go.hasPrefix "+a+" "+b+")", kBool) })
		})
	case "strings.HasSuffix":
		return arg(0, kStr, func(a string) string {
			return arg(1, kStr, func(b string) string { return one("(Go.hasSuffix "+a+" "+b+")", kBool) })
		})
	case "strings.TrimPrefix":
		return arg(0, kStr, func(a string) string {
			return arg(1, kStr, func(b string) string { return one("(Go.trimPrefix "+a+" "+b+")", kStr) })
		})
	case "strings.TrimSuffix":
		return arg(0, kStr, func(a string) string {
			return arg(1, kStr, func(b string) string { return one("(Go.trimSuffix "+a+" "+b+")", kStr) })
		})
	case "reflect.DeepEqual":
		return arg(0, kAny, func(a string) string { return arg(1, kAny, func(b string) string { return one("("+a+" == "+b+")", kBool) }) })
	case "utf8string.NewString":
		return arg(0, kStr, func(a string) string { return one("("+a+".toList)", kRunes) })
	case "unicode.IsLower":
		return arg(0, kRune, func(a string) string { return one("(isLowerModel "+a+")", kBool) })
	case "errors.Is":
		return arg(0, kErr, func(a string) string { return arg(1, kErr, func(b string) string { return one("("+a+" == "+b+")", kBool) }) })
	case "fmt.Sprintf":
		// literal text, %s of a string, %v of any value (the model's fmtV), %d of an int
		lit, ok := c.Args[0].(*ast.BasicLit)
		if !ok {
			t.fail(c, "fmt.Sprintf without a literal format")
		}
		f := constant.StringVal(t.info.Types[lit].Value)
		type piece struct {
			lit  string
			verb byte
		}
		var pieces []piece
		cur := ""
		for i := 0; i < len(f); i++ {
			if f[i] == '%' && i+1 < len(f) {
				if f[i+1] == '%' {
					cur += "%"
					i++
					continue
				}
				if f[i+1] != 's' && f[i+1] != 'v' && f[i+1] != 'd' {
					t.fail(c, "fmt.Sprintf verb %%%c is outside the fragment", f[i+1])
				}
				pieces = append(pieces, piece{cur, f[i+1]})
				cur = ""
				i++
				continue
			}
			cur += string(f[i])
		}
		if len(pieces) != len(c.Args)-1 {
			t.fail(c, "fmt.Sprintf: verbs and arguments do not match")
		}
		wants := make([]kind, len(pieces))
		for i := range pieces {
			wants[i] = t.kindE(c.Args[1+i])
			if wants[i] == kBad {
				t.fail(c, "fmt.Sprintf argument of a type outside the fragment")
			}
		}
		return t.exs(c.Args[1:], wants, func(as []string) string {
			parts := []string{}
			for i, pc := range pieces {
				if pc.lit != "" {
					parts = append(parts, leanStr(pc.lit))
				}
				switch {
				case wants[i] == kStr && (pc.verb == 's' || pc.verb == 'v'):
					parts = append(parts, as[i])
				case wants[i] == kAny && pc.verb == 'v':
					parts = append(parts, "(fmtV "+as[i]+")")
				case wants[i] == kInt && (pc.verb == 'd' || pc.verb == 'v'):
					parts = append(parts, "(toString "+as[i]+")")
				default:
					t.fail(c, "fmt.Sprintf: verb %%%c on this type is outside the fragment", pc.verb)
				}
			}
			if cur != "" {
				parts = append(parts, leanStr(cur))
			}
			if len(parts) == 0 {
				return one("\"\"", kStr)
			}
			return one("("+strings.Join(parts, " ++ ")+")", kStr)
		})
	case "fmt.Errorf":
		// the class of the result is the class of the %w argument
		lit, ok := c.Args[0].(*ast.BasicLit)
		if !ok {
			t.fail(c, "fmt.Errorf without a literal format")
		}
		f := constant.StringVal(t.info.Types[lit].Value)
		idx, n := -1, 0
		for i := 0; i+1 < len(f); i++ {
			if f[i] == '%' {
				if f[i+1] == '%' {
					i++
					continue
				}
				j := i + 1
				for j < len(f) && strings.ContainsRune("#+-0 .123456789", rune(f[j])) {
					j++
				}
				if j < len(f) && f[j] == 'w' {
					if idx >= 0 {
						t.fail(c, "fmt.Errorf with two %%w verbs")
					}
					idx = n
				}
				n++
				i = j
			}
		}
		if idx < 0 {
			return one("(some Err.other)", kErr)
		}
		return arg(1+idx, kErr, func(a string) string { return one(a, kErr) })
	}
	// methods of *utf8string.String (the receiver's type may be unknown to the source importer)
	if sel, ok := c.Fun.(*ast.SelectorExpr); ok {
		switch sel.Sel.Name {
		case "RuneCount":
			if len(c.Args) == 0 {
				return t.ex(sel.X, kBad, func(a string) string { return one("(Int.ofNat "+a+".length)", kInt) })
			}
		case "At":
			if len(c.Args) == 1 {
				return t.ex(sel.X, kBad, func(a string) string {
					return arg(0, kInt, func(i string) string { return one("(Go.runeAt "+a+" "+i+")", kRune) })
				})
			}
		}
	}
	t.fail(c, "call of %s is outside the fragment", name)
	return ""
}

// ---------------------------------------------------------------- statements
//
// ctx.ret wraps the values of a `return`; ctx.next / ctx.brk are the loop exits (nil outside loops)

type ctx struct {
	retRaw func(term string) string // (state-passing functions) return an already packed ((results), st__) value
	ret  func(vals []string) string
	next func() string // `continue` and falling off the end of a loop body
	brk  func() string
	// `continue L` for the label of the ENCLOSING range loop, written inside a nested range loop
	outerLabel string
	contOuter  func() string
}

func (t *tr) assignTargets(lhs []ast.Expr, define bool) ([]string, []kind) {
	names, kinds := make([]string, len(lhs)), make([]kind, len(lhs))
	for i, l := range lhs {
		id, ok := l.(*ast.Ident)
		if !ok {
			t.fail(l, "assignment target outside the fragment")
		}
		if id.Name == "_" {
			names[i], kinds[i] = "_", kBad
			continue
		}
		o := t.objOf(id)
		if o == nil {
			t.fail(l, "unresolved identifier %s", id.Name)
		}
		if v, ok := o.(*types.Var); !ok || v.Parent() == t.pkg.Scope() {
			t.fail(l, "assignment to a package-level variable")
		}
		names[i], kinds[i] = t.nameOf(o), t.kindOf(o.Type())
		if kinds[i] == kBad {
			t.fail(l, "variable %s has a type outside the fragment (%s)", id.Name, o.Type())
		}
	}
	return names, kinds
}

func (t *tr) stmts(ss []ast.Stmt, c ctx, k func() string) string {
	if len(ss) == 0 {
		return k()
	}
	rest := func() string { return t.stmts(ss[1:], c, k) }
	switch s := ss[0].(type) {
	case *ast.EmptyStmt:
		return rest()
	case *ast.BlockStmt:
		return t.stmts(s.List, c, rest)
	case *ast.DeclStmt:
		gd := s.Decl.(*ast.GenDecl)
		if gd.Tok != token.VAR {
			t.fail(s, "declaration outside the fragment")
		}
		out := ""
		for _, sp := range gd.Specs {
			vs := sp.(*ast.ValueSpec)
			if len(vs.Values) != 0 {
				if len(vs.Values) != 1 || len(vs.Names) != 1 {
					t.fail(s, "var with several initialisers")
				}
				o := t.objOf(vs.Names[0])
				kd := t.kindOf(o.Type())
				if kd == kBad || kd == kFunc {
					t.fail(s, "variable of a type outside the fragment")
				}
				return t.ex(vs.Values[0], kd, func(a string) string {
					return "(let " + t.nameOf(o) + " : " + leanType(kd) + " := " + a + "\n" + rest() + ")"
				})
			}
			for _, id := range vs.Names {
				o := t.objOf(id)
				kd := t.kindOf(o.Type())
				if kd == kBad {
					t.fail(s, "variable of a type outside the fragment")
				}
				out += "let " + t.nameOf(o) + " : " + leanType(kd) + " := " + zero(kd) + "\n"
			}
		}
		return "(" + out + rest() + ")"
	case *ast.ReturnStmt:
		rk := t.results
		if len(s.Results) == 1 && len(rk) > 1 {
			call, ok := s.Results[0].(*ast.CallExpr)
			if !ok {
				t.fail(s, "return of a multi-value non-call")
			}
			return t.call(call, func(ts []string, ks []kind) string {
				vals := make([]string, len(ts))
				for i := range ts {
					vals[i] = t.conv(s, ts[i], ks[i], rk[i])
				}
				return c.ret(vals)
			})
		}
		if len(s.Results) != len(rk) {
			t.fail(s, "bare return is outside the fragment")
		}
		return t.exs(s.Results, rk, func(ts []string) string { return c.ret(ts) })
	case *ast.LabeledStmt:
		if r, ok := s.Stmt.(*ast.RangeStmt); ok {
			return t.rangeLoopL(r, s.Label.Name, c, rest)
		}
		t.fail(s, "label on a statement other than a range loop")
	case *ast.BranchStmt:
		if s.Label != nil {
			if s.Tok == token.CONTINUE && c.contOuter != nil && c.outerLabel == s.Label.Name {
				return c.contOuter()
			}
			t.fail(s, "labelled branch outside the fragment (only `continue L` from a loop nested directly in loop L)")
		}
		if s.Tok == token.CONTINUE && c.next != nil {
			return c.next()
		}
		if s.Tok == token.BREAK && c.brk != nil {
			return c.brk()
		}
		t.fail(s, "%s outside a loop of the fragment", s.Tok)
	case *ast.ExprStmt:
		if call, ok := s.X.(*ast.CallExpr); ok && callName(call) == "maps.Copy" && len(call.Args) == 2 {
			// for k, v := range src { dst[k] = v }
			if id, ok := call.Args[0].(*ast.Ident); ok && t.kindE(call.Args[0]) == kMap && t.kindE(call.Args[1]) == kMap {
				names, _ := t.assignTargets([]ast.Expr{id}, false)
				t.checkMutation(id, s)
				return t.ex(call.Args[1], kMap, func(src string) string {
					stv := names[0]
					if t.inHO && false {
						stv = "(" + names[0] + ", st__)"
					}
					kv, vv := t.fresh("k"), t.fresh("v")
					r := t.fresh("r")
					rs := make([]string, len(t.results))
					for i := range rs {
						rs[i] = r + "_" + fmt.Sprint(i)
					}
					if t.inHO {
						rr := t.fresh("rr")
						return "(match Go.forRange (ρ := (" + t.resultType() + " × σ)) " + src + " " + stv + " (fun (" + kv + ", " + vv + ") " + stv + " =>\n" +
							"(let " + names[0] + " := fset " + names[0] + " " + kv + " " + vv + "\n(.ok (Go.Loop.next " + stv + ")))) with\n" +
							" | .error e__ => .error e__\n" +
							" | .ok (.inr " + rr + ") => " + c.retRaw(rr) + "\n" +
							" | .ok (.inl " + stv + ") =>\n" + rest() + ")"
					}
					return "(match Go.forRange (ρ := " + t.resultType() + ") " + src + " " + stv + " (fun (" + kv + ", " + vv + ") " + stv + " =>\n" +
						"(let " + names[0] + " := fset " + names[0] + " " + kv + " " + vv + "\n(.ok (Go.Loop.next " + stv + ")))) with\n" +
						" | .error e__ => .error e__\n" +
						" | .ok (.inr " + tuple(rs) + ") => " + c.ret(rs) + "\n" +
						" | .ok (.inl " + stv + ") =>\n" + rest() + ")"
				})
			}
		}
		if call, ok := s.X.(*ast.CallExpr); ok && callName(call) == "delete" {
			names, _ := t.assignTargets(call.Args[:1], false)
			t.checkMutation(call.Args[0].(*ast.Ident), s)
			return t.ex(call.Args[1], kStr, func(key string) string {
				return "(let " + names[0] + " := fdel " + names[0] + " " + key + "\n" + rest() + ")"
			})
		}
		if call, ok := s.X.(*ast.CallExpr); ok {
			if sel, ok := call.Fun.(*ast.SelectorExpr); ok && sel.Sel.Name == "Write" && len(call.Args) == 1 && t.kindE(sel.X) == kHash {
				if id, ok := sel.X.(*ast.Ident); ok {
					names, _ := t.assignTargets([]ast.Expr{id}, false)
					return t.ex(call.Args[0], kBytes, func(b string) string {
						return "(let " + names[0] + " : String := " + names[0] + " ++ " + b + "\n" + rest() + ")"
					})
				}
			}
		}
		t.fail(s, "expression statement outside the fragment")
	case *ast.IncDecStmt:
		if id, ok := s.X.(*ast.Ident); ok && t.kindE(s.X) == kInt {
			names, _ := t.assignTargets([]ast.Expr{id}, false)
			op := "+"
			if s.Tok == token.DEC {
				op = "-"
			}
			return "(let " + names[0] + " : Int := " + names[0] + " " + op + " 1\n" + rest() + ")"
		}
		t.fail(s, "++/-- outside the fragment")
	case *ast.ForStmt:
		return t.countingLoop(s, c, rest)
	case *ast.AssignStmt:
		return t.assign(s, c, rest)
	case *ast.IfStmt:
		body := func() string {
			return t.ex(s.Cond, kBool, func(cond string) string {
				thenB := t.stmts(s.Body.List, c, rest)
				var elseB string
				switch e := s.Else.(type) {
				case nil:
					elseB = rest()
				case *ast.BlockStmt:
					elseB = t.stmts(e.List, c, rest)
				case *ast.IfStmt:
					elseB = t.stmts([]ast.Stmt{e}, c, rest)
				}
				if core, neg := stripNot(cond); neg {
					return "(if " + core + " then\n" + elseB + "\nelse\n" + thenB + ")" // canonical: positive condition
				}
				return "(if " + cond + " then\n" + thenB + "\nelse\n" + elseB + ")"
			})
		}
		if s.Init != nil {
			return t.stmts([]ast.Stmt{s.Init}, c, body)
		}
		return body()
	case *ast.TypeSwitchStmt:
		return t.typeSwitch(s, c, rest)
	case *ast.SwitchStmt:
		return t.exprSwitch(s, c, rest)
	case *ast.RangeStmt:
		return t.rangeLoop(s, c, rest)
	}
	t.fail(ss[0], "statement %T is outside the fragment", ss[0])
	return ""
}

// for i := 0; i < n; i++ { body } where the body assigns neither i nor anything n mentions: a range over 0..n-1
func (t *tr) countingLoop(s *ast.ForStmt, c ctx, rest func() string) string {
	init, ok1 := s.Init.(*ast.AssignStmt)
	cond, ok2 := s.Cond.(*ast.BinaryExpr)
	post, ok3 := s.Post.(*ast.IncDecStmt)
	if !ok1 || !ok2 || !ok3 || init.Tok != token.DEFINE || len(init.Lhs) != 1 || len(init.Rhs) != 1 || cond.Op != token.LSS || post.Tok != token.INC {
		t.fail(s, "for loop that is not `for i := 0; i < n; i++`")
	}
	iv, okv := init.Lhs[0].(*ast.Ident)
	zero, okz := init.Rhs[0].(*ast.BasicLit)
	cx, okc := cond.X.(*ast.Ident)
	px, okp := post.X.(*ast.Ident)
	if !okv || !okz || zero.Value != "0" || !okc || !okp || t.objOf(cx) != t.objOf(iv) || t.objOf(px) != t.objOf(iv) {
		t.fail(s, "for loop that is not `for i := 0; i < n; i++`")
	}
	io := t.objOf(iv)
	// the body must not assign the counter or a variable of the bound
	bound := map[types.Object]bool{io: true}
	ast.Inspect(cond.Y, func(n ast.Node) bool {
		if id, ok := n.(*ast.Ident); ok {
			if o := t.objOf(id); o != nil {
				bound[o] = true
			}
		}
		return true
	})
	for _, o := range t.loopState(s.Body) {
		if bound[o] {
			t.fail(s, "the loop body assigns its counter or its bound")
		}
	}
	state := t.loopState(s.Body)
	sn := make([]string, len(state))
	for i, o := range state {
		sn[i] = t.nameOf(o)
	}
	st := "()"
	if len(sn) > 0 {
		st = tuple(sn)
	}
	return t.ex(cond.Y, kInt, func(n string) string {
		inner := ctx{
			ret:  func(vals []string) string { return "(.ok (Go.Loop.ret " + tuple(vals) + "))" },
			next: func() string { return "(.ok (Go.Loop.next " + st + "))" },
			brk:  func() string { return "(.ok (Go.Loop.brk " + st + "))" },
		}
		body := t.stmts(s.Body.List, inner, inner.next)
		r := t.fresh("r")
		rs := make([]string, len(t.results))
		for i := range rs {
			rs[i] = r + "_" + fmt.Sprint(i)
		}
		return "(match Go.forRange (ρ := " + t.resultType() + ") (Go.intRange " + n + ") " + st + " (fun " + t.nameOf(io) + " " + st + " =>\n" + body + ") with\n" +
			" | .error e__ => .error e__\n" +
			" | .ok (.inr " + tuple(rs) + ") => " + c.ret(rs) + "\n" +
			" | .ok (.inl " + st + ") =>\n" + rest() + ")"
	})
}

func (t *tr) assign(s *ast.AssignStmt, c ctx, rest func() string) string {
	if s.Tok != token.DEFINE && s.Tok != token.ASSIGN {
		t.fail(s, "assignment operator %s outside the fragment", s.Tok)
	}
	// doc.Data = v ; ec.Vars[k] = v   (records: the variable is re-bound to the updated record)
	if len(s.Lhs) == 1 && len(s.Rhs) == 1 {
		if sel, ok := s.Lhs[0].(*ast.SelectorExpr); ok {
			if id, ok := sel.X.(*ast.Ident); ok && t.kindE(sel.X) == kDoc && sel.Sel.Name == "Data" {
				names, _ := t.assignTargets([]ast.Expr{id}, false)
				t.checkRecordMutation(id, s)
				return t.ex(s.Rhs[0], kAny, func(v string) string {
					return "(let " + names[0] + " : Go.Doc := { " + names[0] + " with data := " + v + " }\n" + rest() + ")"
				})
			}
		}
		if ix, ok := s.Lhs[0].(*ast.IndexExpr); ok {
			if sel, ok := ix.X.(*ast.SelectorExpr); ok {
				if id, ok := sel.X.(*ast.Ident); ok && t.kindE(sel.X) == kCtx && sel.Sel.Name == "Vars" {
					names, _ := t.assignTargets([]ast.Expr{id}, false)
					t.checkRecordMutation(id, s)
					return t.ex(ix.Index, kStr, func(key string) string {
						return t.ex(s.Rhs[0], kAny, func(v string) string {
							return "(let " + names[0] + " : Go.Ctx := { " + names[0] + " with vars := fset " + names[0] + ".vars " + key + " " + v + " }\n" + rest() + ")"
						})
					})
				}
			}
		}
	}
	// m[k] = v
	if len(s.Lhs) == 1 {
		if ix, ok := s.Lhs[0].(*ast.IndexExpr); ok {
			id, ok := ix.X.(*ast.Ident)
			if !ok {
				t.fail(s, "index assignment target outside the fragment")
			}
			names, kinds := t.assignTargets([]ast.Expr{id}, false)
			switch kinds[0] {
			case kMap:
				t.checkMutation(id, s)
				return t.ex(ix.Index, kStr, func(key string) string {
					return t.ex(s.Rhs[0], kAny, func(v string) string {
						return "(let " + names[0] + " := fset " + names[0] + " " + key + " " + v + "\n" + rest() + ")"
					})
				})
			case kList:
				t.checkMutation(id, s)
				return t.ex(ix.Index, kInt, func(i string) string {
					return t.ex(s.Rhs[0], kAny, func(v string) string {
						return "(let " + names[0] + " := Go.listSet " + names[0] + " " + i + " " + v + "\n" + rest() + ")"
					})
				})
			}
			t.fail(s, "index assignment on this type")
		}
	}
	if len(s.Lhs) > 1 && len(s.Rhs) == 1 {
		for i, l := range s.Lhs {
			if ix, ok := l.(*ast.IndexExpr); ok {
				id, ok := ix.X.(*ast.Ident)
				call, ok2 := s.Rhs[0].(*ast.CallExpr)
				if !ok || !ok2 || t.kindE(ix.X) != kMap {
					t.fail(s, "assignment shape outside the fragment")
				}
				mnames, _ := t.assignTargets([]ast.Expr{id}, false)
				t.checkMutation(id, s)
				others := append(append([]ast.Expr{}, s.Lhs[:i]...), s.Lhs[i+1:]...)
				onames, okinds := t.assignTargets(others, false)
				return t.ex(ix.Index, kStr, func(key string) string {
					return t.call(call, func(ts []string, ks []kind) string {
						if len(ts) != len(s.Lhs) {
							t.fail(s, "result count mismatch")
						}
						out := "let " + mnames[0] + " := fset " + mnames[0] + " " + key + " " + t.conv(s, ts[i], ks[i], kAny) + "\n"
						rest2 := append(append([]string{}, ts[:i]...), ts[i+1:]...)
						restK := append(append([]kind{}, ks[:i]...), ks[i+1:]...)
						for j, n := range onames {
							if n != "_" {
								out += "let " + n + " : " + leanType(okinds[j]) + " := " + t.conv(s, rest2[j], restK[j], okinds[j]) + "\n"
							}
						}
						return "(" + out + rest() + ")"
					})
				})
			}
		}
	}
	if len(s.Lhs) == 1 && len(s.Rhs) == 1 {
		if call, ok := s.Rhs[0].(*ast.CallExpr); ok && callName(call) == "yaml.Unmarshal" && len(call.Args) == 2 {
			if _, isExt := t.externs["yaml.Unmarshal"]; isExt {
				conv, ok1 := call.Args[0].(*ast.CallExpr)
				addr, ok2 := call.Args[1].(*ast.UnaryExpr)
				if ok1 && ok2 && callName(conv) == "[]byte" && addr.Op == token.AND {
					if tid, ok := addr.X.(*ast.Ident); ok && t.kindE(addr.X) == kAny {
						enames, _ := t.assignTargets(s.Lhs, s.Tok == token.DEFINE)
						tnames, _ := t.assignTargets([]ast.Expr{tid}, false)
						return t.ex(conv.Args[0], kStr, func(a string) string {
							x := t.fresh("x")
							return "(let " + x + " := (" + externName("yaml.Unmarshal") + " " + a + ")\nlet " + tnames[0] + " : Val := " + x + ".1\nlet " +
								enames[0] + " : (Option Err) := " + x + ".2\n" + rest() + ")"
						})
					}
				}
			}
		}
	}
	names, kinds := t.assignTargets(s.Lhs, s.Tok == token.DEFINE)
	bind := func(terms []string) string {
		out := ""
		for i, n := range names {
			if n != "_" {
				out += "let " + n + " : " + leanType(kinds[i]) + " := " + terms[i] + "\n"
			}
		}
		return "(" + out + rest() + ")"
	}
	if len(s.Lhs) == len(s.Rhs) {
		if len(s.Lhs) > 1 {
			// parallel assignment: evaluate all right-hand sides first
			return t.exs(s.Rhs, kinds, func(ts []string) string {
				tmp := make([]string, len(ts))
				out := ""
				for i := range ts {
					tmp[i] = t.fresh("t")
					out += "let " + tmp[i] + " := " + ts[i] + "\n"
				}
				return "(" + out + bind(tmp) + ")"
			})
		}
		return t.ex(s.Rhs[0], kinds[0], func(a string) string { return bind([]string{a}) })
	}
	if len(s.Rhs) != 1 {
		t.fail(s, "assignment shape outside the fragment")
	}
	switch r := s.Rhs[0].(type) {
	case *ast.CallExpr:
		return t.call(r, func(ts []string, ks []kind) string {
			if len(ts) != len(names) {
				t.fail(s, "result count mismatch")
			}
			vals := make([]string, len(ts))
			for i := range ts {
				if names[i] == "_" {
					vals[i] = ts[i]
					continue
				}
				vals[i] = t.conv(s, ts[i], ks[i], kinds[i])
			}
			return bind(vals)
		})
	case *ast.IndexExpr: // v, found := m[k]
		if t.kindE(r.X) == kMap && len(names) == 2 {
			return t.ex(r.X, kMap, func(m string) string {
				return t.ex(r.Index, kStr, func(i string) string {
					p := t.fresh("p")
					return "(let " + p + " := Go.mapIndex2 " + m + " " + i + "\n" + bind([]string{p + ".1", p + ".2"}) + ")"
				})
			})
		}
	case *ast.TypeAssertExpr: // v, ok := x.(T)
		if len(names) == 2 && r.Type != nil {
			target := t.kindOf(t.typeOf(r.Type))
			fn := map[kind]string{kMap: "Go.asMap", kList: "Go.asList", kStr: "Go.asStr", kBool: "Go.asBool", kInt: "Go.asInt"}[target]
			if fn == "" {
				t.fail(s, "type assertion to a type outside the fragment")
			}
			return t.ex(r.X, kAny, func(a string) string {
				p := t.fresh("p")
				first := p + ".1"
				if names[0] != "_" && kinds[0] != target {
					first = t.conv(s, first, target, kinds[0])
				}
				return "(let " + p + " := " + fn + " " + a + "\n" + bind([]string{first, p + ".2"}) + ")"
			})
		}
	}
	t.fail(s, "assignment shape outside the fragment")
	return ""
}

func (t *tr) typeSwitch(s *ast.TypeSwitchStmt, c ctx, rest func() string) string {
	if s.Init != nil {
		t.fail(s, "type switch with init")
	}
	var subject ast.Expr
	bindName := ""
	switch a := s.Assign.(type) {
	case *ast.AssignStmt:
		subject = a.Rhs[0].(*ast.TypeAssertExpr).X
		bindName = a.Lhs[0].(*ast.Ident).Name
	case *ast.ExprStmt:
		subject = a.X.(*ast.TypeAssertExpr).X
	}
	if t.kindE(subject) != kAny {
		t.fail(s, "type switch on a non-any value")
	}
	return t.ex(subject, kAny, func(subj string) string {
		sv := t.fresh("sw")
		out := "(let " + sv + " := " + subj + "\nmatch " + sv + " with\n"
		ctor := map[kind]string{kMap: ".map", kList: ".list", kStr: ".str", kBool: ".bool", kInt: ".int"}
		seen := map[string]bool{}
		var def *ast.CaseClause
		for _, cl := range s.Body.List {
			cc := cl.(*ast.CaseClause)
			if cc.List == nil {
				def = cc
				continue
			}
			if len(cc.List) != 1 {
				t.fail(cc, "case with several types")
			}
			var pat string
			obj := t.info.Implicits[cc]
			if isNil(cc.List[0]) {
				pat = ".null"
				if obj != nil {
					t.names[obj] = sv
				}
			} else {
				kd := t.kindOf(t.typeOf(cc.List[0]))
				ct, ok := ctor[kd]
				if !ok {
					t.fail(cc, "case type %s is outside the fragment", t.typeOf(cc.List[0]))
				}
				v := "_"
				if obj != nil && bindName != "" {
					v = t.nameOf(obj)
				}
				pat = ct + " " + v
				if kd == kInt {
					// Go's int case; floats are a different constructor, so nothing else to do
				}
			}
			if seen[pat[:4]] {
				t.fail(cc, "duplicate case")
			}
			seen[pat[:4]] = true
			out += " | " + pat + " =>\n" + t.stmts(cc.Body, c, rest) + "\n"
		}
		if def != nil {
			if obj := t.info.Implicits[def]; obj != nil {
				t.names[obj] = sv
			}
			out += " | _ =>\n" + t.stmts(def.Body, c, rest) + "\n"
		} else {
			out += " | _ =>\n" + rest() + "\n"
		}
		return out + ")"
	})
}

func (t *tr) exprSwitch(s *ast.SwitchStmt, c ctx, rest func() string) string {
	if s.Init != nil {
		t.fail(s, "switch with init")
	}
	var build func(i int, tag string, tk kind) string
	clauses := s.Body.List
	var def *ast.CaseClause
	nondef := []*ast.CaseClause{}
	for _, cl := range clauses {
		cc := cl.(*ast.CaseClause)
		for _, st := range cc.Body {
			if b, ok := st.(*ast.BranchStmt); ok && b.Tok == token.FALLTHROUGH {
				t.fail(b, "fallthrough")
			}
		}
		if cc.List == nil {
			def = cc
		} else {
			nondef = append(nondef, cc)
		}
	}
	c2 := c
	c2.brk = nil // `break` inside a switch leaves the switch: refuse
	build = func(i int, tag string, tk kind) string {
		if i == len(nondef) {
			if def != nil {
				return t.stmts(def.Body, c2, rest)
			}
			return rest()
		}
		cc := nondef[i]
		// the case's values as a left-nested disjunction, like `k == a || k == b || k == c` written out
		var cond func(j int, k func(string) string) string
		var condAcc func(j int, acc string, k func(string) string) string
		one := func(j int, k2 func(string) string) string {
			if tag == "" {
				return t.ex(cc.List[j], kBool, k2)
			}
			return t.ex(cc.List[j], tk, func(a string) string { return k2("(" + tag + " == " + a + ")") })
		}
		condAcc = func(j int, acc string, k func(string) string) string {
			if j == len(cc.List) {
				return k(acc)
			}
			return one(j, func(a string) string { return condAcc(j+1, "("+acc+" || "+a+")", k) })
		}
		cond = func(j int, k func(string) string) string {
			return one(0, func(a string) string { return condAcc(1, a, k) })
		}
		return cond(0, func(cnd string) string {
			return "(if " + cnd + " then\n" + t.stmts(cc.Body, c2, rest) + "\nelse\n" + build(i+1, tag, tk) + ")"
		})
	}
	if s.Tag == nil {
		return build(0, "", kBad)
	}
	tk := t.kindE(s.Tag)
	if tk != kStr && tk != kInt && tk != kBool {
		t.fail(s, "switch on this type")
	}
	return t.ex(s.Tag, tk, func(a string) string {
		if _, isIdent := s.Tag.(*ast.Ident); isIdent {
			return build(0, a, tk) // `switch k { case a, b: }` and `if k == a || k == b` are one term
		}
		tg := t.fresh("tag")
		return "(let " + tg + " := " + a + "\n" + build(0, tg, tk) + ")"
	})
}

// variables declared outside `body` and assigned inside it
func (t *tr) loopState(body *ast.BlockStmt) []types.Object {
	seen := map[types.Object]bool{}
	var out []types.Object
	add := func(e ast.Expr) {
		if ix, ok := e.(*ast.IndexExpr); ok {
			e = ix.X
		}
		if sel, ok := e.(*ast.SelectorExpr); ok {
			e = sel.X // doc.Data = …, ec.Vars[k] = …: the record variable is what changes
		}
		id, ok := e.(*ast.Ident)
		if !ok || id.Name == "_" {
			return
		}
		o := t.objOf(id)
		if o == nil || seen[o] {
			return
		}
		if o.Pos() >= body.Pos() && o.Pos() <= body.End() {
			return
		}
		seen[o] = true
		out = append(out, o)
	}
	ast.Inspect(body, func(n ast.Node) bool {
		switch x := n.(type) {
		case *ast.AssignStmt:
			for _, l := range x.Lhs {
				if x.Tok == token.DEFINE {
					if id, ok := l.(*ast.Ident); ok && t.info.Defs[id] != nil {
						continue
					}
				}
				add(l)
			}
		case *ast.ExprStmt:
			if c, ok := x.X.(*ast.CallExpr); ok && callName(c) == "delete" {
				add(c.Args[0])
			}
		case *ast.IncDecStmt:
			add(x.X)
		case *ast.FuncLit:
			t.fail(x, "function literal")
		}
		return true
	})
	sort.Slice(out, func(i, j int) bool { return out[i].Pos() < out[j].Pos() })
	return out
}

func (t *tr) rangeLoop(s *ast.RangeStmt, c ctx, rest func() string) string {
	return t.rangeLoopL(s, "", c, rest)
}

// does the body contain `continue label`?
func usesLabel(body *ast.BlockStmt, label string) bool {
	found := false
	ast.Inspect(body, func(n ast.Node) bool {
		if b, ok := n.(*ast.BranchStmt); ok && b.Label != nil && b.Label.Name == label {
			found = true
		}
		return true
	})
	return found
}

func (t *tr) rangeLoopL(s *ast.RangeStmt, label string, c ctx, rest func() string) string {
	if s.Tok != token.DEFINE && s.Key != nil {
		t.fail(s, "range assigning to existing variables")
	}
	coll := s.X
	if call, ok := coll.(*ast.CallExpr); ok && callName(call) == "sortedMap" && len(call.Args) == 1 {
		coll = call.Args[0]
	}
	ck := t.kindE(coll)
	varName := func(e ast.Expr) string {
		if e == nil {
			return "_"
		}
		id := e.(*ast.Ident)
		if id.Name == "_" {
			return "_"
		}
		return t.nameOf(t.objOf(id))
	}
	var pat, iter string
	switch ck {
	case kMap:
		pat = "(" + varName(s.Key) + ", " + varName(s.Value) + ")"
		iter = "%s"
	case kList, kStrList, kDocList, kCtxList:
		if s.Key == nil || varName(s.Key) == "_" {
			pat = varName(s.Value)
			iter = "%s"
		} else {
			pat = "(" + varName(s.Key) + ", " + varName(s.Value) + ")"
			iter = "(Go.enum %s)"
		}
	default:
		t.fail(s, "range over this type is outside the fragment")
	}
	state := t.loopState(s.Body)
	sn := make([]string, len(state))
	for i, o := range state {
		sn[i] = t.nameOf(o)
		if t.kindOf(o.Type()) == kBad {
			t.fail(s, "loop variable of a type outside the fragment")
		}
	}
	if t.inHO && t.callsFuncValue(s.Body) {
		sn = append(sn, "st__")
	}
	st := "()"
	if len(sn) > 0 {
		st = tuple(sn)
	}
	// a loop nested directly in a labelled loop whose body says `continue <that label>`: its early exits are
	// Go.Exit.ret r (return) and Go.Exit.cont (continue the enclosing loop)
	exitMode := c.outerLabel != "" && c.next != nil && usesLabel(s.Body, c.outerLabel)
	if exitMode && len(sn) > 0 {
		t.fail(s, "a loop that continues an outer loop while carrying state of its own")
	}
	return t.ex(coll, ck, func(xs string) string {
		inner := ctx{
			ret:  func(vals []string) string { return "(.ok (Go.Loop.ret " + tuple(vals) + "))" },
			next: func() string { return "(.ok (Go.Loop.next " + st + "))" },
			brk:  func() string { return "(.ok (Go.Loop.brk " + st + "))" },
		}
		if label != "" {
			inner.outerLabel = label
		}
		if exitMode {
			inner.ret = func(vals []string) string { return "(.ok (Go.Loop.ret (Go.Exit.ret " + tuple(vals) + ")))" }
			inner.outerLabel = c.outerLabel
			inner.contOuter = func() string { return "(.ok (Go.Loop.ret Go.Exit.cont))" }
			body := t.stmts(s.Body.List, inner, inner.next)
			r := t.fresh("r")
			rs := make([]string, len(t.results))
			for i := range rs {
				rs[i] = r + "_" + fmt.Sprint(i)
			}
			return "(match Go.forRange (ρ := Go.Exit " + t.resultType() + ") " + fmt.Sprintf(iter, xs) + " " + st + " (fun " + pat + " " + st + " =>\n" + body + ") with\n" +
				" | .error e__ => .error e__\n" +
				" | .ok (.inr (Go.Exit.ret " + tuple(rs) + ")) => " + c.ret(rs) + "\n" +
				" | .ok (.inr Go.Exit.cont) => " + c.next() + "\n" +
				" | .ok (.inl " + st + ") =>\n" + rest() + ")"
		}
		if t.inHO && !exitMode {
			// a return inside the loop carries the state as it is at that point
			inner.ret = func(vals []string) string { return "(.ok (Go.Loop.ret (" + tuple(vals) + ", st__)))" }
			inner.retRaw = func(term string) string { return "(.ok (Go.Loop.ret " + term + "))" }
			body := t.stmts(s.Body.List, inner, inner.next)
			rr := t.fresh("rr")
			return "(match Go.forRange (ρ := (" + t.resultType() + " × σ)) " + fmt.Sprintf(iter, xs) + " " + st + " (fun " + pat + " " + st + " =>\n" + body + ") with\n" +
				" | .error e__ => .error e__\n" +
				" | .ok (.inr " + rr + ") => " + c.retRaw(rr) + "\n" +
				" | .ok (.inl " + st + ") =>\n" + rest() + ")"
		}
		body := t.stmts(s.Body.List, inner, inner.next)
		r := t.fresh("r")
		rk := t.results
		rs := make([]string, len(rk))
		for i := range rs {
			rs[i] = r + "_" + fmt.Sprint(i)
		}
		return "(match Go.forRange (ρ := " + t.resultType() + ") " + fmt.Sprintf(iter, xs) + " " + st + " (fun " + pat + " " + st + " =>\n" + body + ") with\n" +
			" | .error e__ => .error e__\n" +
			" | .ok (.inr " + tuple(rs) + ") => " + c.ret(rs) + "\n" +
			" | .ok (.inl " + st + ") =>\n" + rest() + ")"
	})
}

// ---------------------------------------------------------------- value-semantics guard

func fresh(e ast.Expr) bool {
	switch x := e.(type) {
	case *ast.CompositeLit:
		return true
	case *ast.CallExpr:
		n := callName(x)
		return n == "make" || n == "maps.Clone" || strings.HasSuffix(n, ".Clone")
	}
	return false
}

// a record (Go pointer to struct) may be updated when it is a parameter of an `owned` unit that was not re-assigned, or when
// its textually preceding assignment is a fresh record (x.Clone(), &T{…}) or the result of a call (the callee's own value)
func (t *tr) checkRecordMutation(id *ast.Ident, at ast.Stmt) {
	o := t.objOf(id)
	var last ast.Expr
	seen := false
	ast.Inspect(t.fn.Body, func(n ast.Node) bool {
		if a, ok := n.(*ast.AssignStmt); ok && a.Pos() < at.Pos() {
			for i, l := range a.Lhs {
				if lid, ok := l.(*ast.Ident); ok && t.objOf(lid) == o {
					seen = true
					last = nil
					if len(a.Rhs) == len(a.Lhs) {
						last = a.Rhs[i]
					} else if len(a.Rhs) == 1 {
						last = a.Rhs[0]
					}
				}
			}
		}
		return true
	})
	if !seen {
		if v, ok := o.(*types.Var); ok && t.isParam(v) && t.owned {
			return
		}
		t.fail(at, "update of the record %s, which the function does not own", id.Name)
	}
	switch x := last.(type) {
	case *ast.CallExpr:
		return // a value produced by a call (Clone included) belongs to this function
	case *ast.UnaryExpr:
		if x.Op == token.AND {
			return
		}
	}
	t.fail(at, "update of the record %s after it was assigned from another variable (it may be aliased)", id.Name)
}

func (t *tr) isParam(v *types.Var) bool {
	sig := t.info.Defs[t.fn.Name].Type().(*types.Signature)
	for i := 0; i < sig.Params().Len(); i++ {
		if sig.Params().At(i) == v {
			return true
		}
	}
	return sig.Recv() == v
}

// a mutation of `id` at statement `at` is accepted when the textually preceding assignment to the variable is a
// fresh container, no loop separates the two unless it contains both, and the variable is not used as a value
// (stored, passed, appended) between that assignment and the last mutation
func (t *tr) checkMutation(id *ast.Ident, at ast.Stmt) {
	o := t.objOf(id)
	var lastAssign *ast.AssignStmt
	var lastRhs ast.Expr
	ast.Inspect(t.fn.Body, func(n ast.Node) bool {
		if a, ok := n.(*ast.AssignStmt); ok && a.Pos() < at.Pos() {
			for i, l := range a.Lhs {
				if lid, ok := l.(*ast.Ident); ok && t.objOf(lid) == o {
					lastAssign = a
					if len(a.Rhs) == len(a.Lhs) {
						lastRhs = a.Rhs[i]
					} else {
						lastRhs = nil
					}
				}
			}
		}
		return true
	})
	if lastAssign == nil && t.owned {
		// a parameter of an `owned` unit that was not re-assigned before: the caller handed it over
		if v, ok := o.(*types.Var); ok && t.isParam(v) {
			return
		}
	}
	if lastAssign == nil || lastRhs == nil || !fresh(lastRhs) {
		if t.owned && lastAssign != nil {
			if v, ok := o.(*types.Var); ok && t.isParam(v) {
				return // re-assigned from a call result or append: still the function's own value
			}
		}
		t.fail(at, "mutation of %s, whose reaching assignment is not a fresh container (value semantics would be unsound)", id.Name)
	}
	// loops: every loop containing the mutation but not the assignment must not assign the variable at all
	ast.Inspect(t.fn.Body, func(n ast.Node) bool {
		if r, ok := n.(*ast.RangeStmt); ok && r.Pos() <= at.Pos() && at.End() <= r.End() && !(r.Pos() <= lastAssign.Pos() && lastAssign.End() <= r.End()) {
			ast.Inspect(r.Body, func(m ast.Node) bool {
				if a, ok := m.(*ast.AssignStmt); ok {
					for i, l := range a.Lhs {
						if lid, ok := l.(*ast.Ident); ok && t.objOf(lid) == o {
							if len(a.Rhs) != len(a.Lhs) || !fresh(a.Rhs[i]) {
								t.fail(a, "%s is re-assigned (not to a fresh container) inside a loop that also mutates it", id.Name)
							}
						}
					}
				}
				return true
			})
		}
		return true
	})
	// inside a loop that does not contain the fresh assignment, the variable must not escape anywhere in the loop body
	// (the next iteration mutates it again), except in a `return`
	ast.Inspect(t.fn.Body, func(n ast.Node) bool {
		r, ok := n.(*ast.RangeStmt)
		if !ok || !(r.Pos() <= at.Pos() && at.End() <= r.End()) || (r.Pos() <= lastAssign.Pos() && lastAssign.End() <= r.End()) {
			return true
		}
		var stack []ast.Node
		ast.Inspect(r.Body, func(m ast.Node) bool {
			if m == nil {
				stack = stack[:len(stack)-1]
				return true
			}
			if uid, ok := m.(*ast.Ident); ok && t.info.Uses[uid] == o && len(stack) > 0 {
				inReturn := false
				for _, a := range stack {
					if _, isRet := a.(*ast.ReturnStmt); isRet {
						inReturn = true
					}
				}
				okUse := inReturn
				switch px := stack[len(stack)-1].(type) {
				case *ast.IndexExpr:
					okUse = okUse || px.X == uid
				case *ast.CallExpr:
					cn := callName(px)
					okUse = okUse || ((cn == "len" || cn == "delete" || cn == "append" || cn == "maps.Copy") && len(px.Args) > 0 && px.Args[0] == uid)
				case *ast.RangeStmt:
					okUse = okUse || px.X == uid
				case *ast.AssignStmt:
					for _, l := range px.Lhs {
						if l == ast.Expr(uid) {
							okUse = true
						}
					}
				}
				if !okUse {
					t.fail(uid, "%s is used as a value inside a loop that also mutates it (it may be aliased)", id.Name)
				}
			}
			stack = append(stack, m)
			return true
		})
		return true
	})
	// escapes between the fresh assignment and this mutation
	var parents []ast.Node
	ast.Inspect(t.fn.Body, func(n ast.Node) bool {
		if n == nil {
			parents = parents[:len(parents)-1]
			return true
		}
		if uid, ok := n.(*ast.Ident); ok && t.info.Uses[uid] == o && uid.Pos() > lastAssign.End() && uid.Pos() < at.Pos() {
			p := parents[len(parents)-1]
			okUse := false
			for _, a := range parents {
				if _, isRet := a.(*ast.ReturnStmt); isRet {
					okUse = true // the function ends there: no later mutation can be seen through the returned value
				}
			}
			switch px := p.(type) {
			case *ast.IndexExpr:
				okUse = okUse || px.X == uid
			case *ast.CallExpr:
				cn := callName(px)
				okUse = okUse || ((cn == "len" || cn == "delete" || cn == "maps.Copy") && len(px.Args) > 0 && px.Args[0] == uid)
			case *ast.RangeStmt:
				okUse = okUse || px.X == uid
			}
			if !okUse {
				t.fail(uid, "%s is used as a value before its last mutation (it may be aliased)", id.Name)
			}
		}
		parents = append(parents, n)
		return true
	})
}

// ---------------------------------------------------------------- functions

func (t *tr) function(name string) (text string, err error) {
	defer func() {
		if r := recover(); r != nil {
			if rf, ok := r.(refuse); ok {
				err = fmt.Errorf("%s: %s", name, rf.msg)
				return
			}
			panic(r)
		}
	}()
	fd := t.decls[name]
	t.fn, t.names, t.used, t.tmp, t.curFuel = fd, map[types.Object]string{}, map[string]int{}, 0, t.fuel[name]
	if fd.Type.TypeParams != nil {
		t.fail(fd, "generic functions are outside the fragment")
	}
	pk, rk := t.sigKinds(fd)
	t.results = rk
	params := ""
	recvParam := ""
	if fd.Recv != nil {
		if len(fd.Recv.List) != 1 || len(fd.Recv.List[0].Names) != 1 {
			t.fail(fd, "method without a named receiver")
		}
		ro := t.objOf(fd.Recv.List[0].Names[0])
		rk0 := t.kindOf(ro.Type())
		if rk0 != kDoc && rk0 != kCtx {
			t.fail(fd, "method on a type outside the fragment")
		}
		recvParam = " (" + t.nameOf(ro) + " : " + leanType(rk0) + ")"
	}
	for _, ex := range t.needExt[name] {
		params += " (" + externName(ex) + " : " + t.externs[ex] + ")"
	}
	extParams := params
	params = ""
	i := 0
	for _, f := range fd.Type.Params.List {
		for _, id := range f.Names {
			if pk[i] == kBad {
				t.fail(f, "parameter type outside the fragment")
			}
			if pk[i] == kFunc {
				params += " (" + t.nameOf(t.objOf(id)) + " : " + t.funcTypeS(sigOf(t.objOf(id).Type())) + ")"
			} else {
				params += " (" + t.nameOf(t.objOf(id)) + " : " + leanType(pk[i]) + ")"
			}
			i++
		}
	}
	if fd.Type.Results != nil {
		for _, f := range fd.Type.Results.List {
			if len(f.Names) > 0 {
				t.fail(f, "named results")
			}
		}
	}
	rts := make([]string, len(rk))
	for i, r := range rk {
		if r == kBad || r == kFunc {
			t.fail(fd, "result type outside the fragment")
		}
		rts[i] = strings.Trim(leanType(r), "()")
		if strings.Contains(rts[i], " ") {
			rts[i] = "(" + rts[i] + ")"
		}
	}
	rt := strings.Join(rts, " × ")
	if len(rk) == 0 {
		t.fail(fd, "function without a result")
	}
	t.inHO = t.ho[name]
	top := ctx{ret: func(vals []string) string { return "(.ok " + tuple(vals) + ")" }}
	if t.inHO {
		top.ret = func(vals []string) string { return "(.ok (" + tuple(vals) + ", st__))" }
		top.retRaw = func(term string) string { return "(.ok " + term + ")" }
		extParams = " {σ : Type}" + extParams
		params += " (st__ : σ)"
		rt = "(" + rt + ") × σ"
	}
	body := t.stmts(fd.Body.List, top, func() string {
		t.fail(fd, "control reaches the end of the function")
		return ""
	})
	t.inHO = false
	p := t.fset.Position(fd.Pos())
	doc := fmt.Sprintf("/-- %s:%s -/\n", filepath.Base(p.Filename), name)
	if t.fuel[name] {
		return doc + "def " + leanFuncName(name) + extParams + " (fuel__ : Nat)" + recvParam + params + " : G (" + rt + ") :=\n  match fuel__ with\n  | 0 => .error GErr.fuel\n  | fuel+1 =>\n" + indent(body), nil
	}
	return doc + "def " + leanFuncName(name) + extParams + recvParam + params + " : G (" + rt + ") :=\n" + indent(body), nil
}

func (t *tr) resultType() string {
	rk := t.results
	rts := make([]string, len(rk))
	for i, r := range rk {
		rts[i] = leanType(r)
	}
	if len(rts) == 1 {
		return rts[0]
	}
	return "(" + strings.Join(rts, " × ") + ")"
}

// layout: Lean wants the right-hand side of a match alternative at or right of its `|`
func indent(body string) string {
	var b strings.Builder
	for _, l := range strings.Split(body, "\n") {
		l = strings.TrimLeft(l, " ")
		if l == "" {
			continue
		}
		if strings.HasPrefix(l, "| ") {
			b.WriteString("    " + l + "\n")
		} else {
			b.WriteString("      " + l + "\n")
		}
	}
	return b.String()
}

// Tarjan SCC over the call graph restricted to listed functions; returns components in dependency order
func sccs(names []string, calls map[string][]string) [][]string {
	index, low, on := map[string]int{}, map[string]int{}, map[string]bool{}
	var stack []string
	var out [][]string
	n := 0
	var visit func(v string)
	visit = func(v string) {
		n++
		index[v], low[v] = n, n
		stack = append(stack, v)
		on[v] = true
		for _, w := range calls[v] {
			if index[w] == 0 {
				visit(w)
				if low[w] < low[v] {
					low[v] = low[w]
				}
			} else if on[w] && index[w] < low[v] {
				low[v] = index[w]
			}
		}
		if low[v] == index[v] {
			var comp []string
			for {
				w := stack[len(stack)-1]
				stack = stack[:len(stack)-1]
				on[w] = false
				comp = append(comp, w)
				if w == v {
					break
				}
			}
			sort.Strings(comp)
			out = append(out, comp)
		}
	}
	for _, v := range names {
		if index[v] == 0 {
			visit(v)
		}
	}
	return out
}

var probe bool

func writeIfChanged(path, text string) {
	if old, err := os.ReadFile(path); err == nil && string(old) == text {
		return
	}
	os.WriteFile(path, []byte(text), 0o644)
}

// usage: gotrans <repo> <output dir>
//        gotrans -probe <repo> <package dir> <function> [owned]     try one function outside the listed units (prints the Lean text or the refusal)
func main() {
	if len(os.Args) >= 5 && os.Args[1] == "-probe" {
		units = append(units, unit{"Probe", os.Args[3], "Probe", []string{"Util", "Filter", "Match", "Validate", "Finalize", "Repeat", "Get", "Merge"},
			[]string{os.Args[4]}, map[string]string{"Document.Clone": "Go.Doc → String → Go.Doc × Option Err", "yaml.Unmarshal": "String → Val × Option Err"},
			len(os.Args) > 5, true})
		os.Args = []string{os.Args[0], os.Args[2], ""}
		probe = true
	}
	repo, outDir := "/repo", ""
	if len(os.Args) > 1 {
		repo = os.Args[1]
	}
	if len(os.Args) > 2 {
		outDir, _ = filepath.Abs(os.Args[2])
	}
	os.Chdir(repo)
	var problems []string
	byName := map[string]unit{}
	for _, u := range units {
		byName[u.name] = u
	}
	fuelOf := map[string]map[string]bool{} // unit -> fuel map, for importers
	extOf := map[string]map[string][]string{} // unit -> function -> externs it needs, for importers
	for _, u := range units {
		var out strings.Builder
		out.WriteString("/- GENERATED by /verif/harness/cmd/gotrans from /repo's current source (" + u.dir + "). Do not edit. -/\nimport Bkl.GoLib\n")
		for _, im := range u.imports {
			out.WriteString("import Generated.Trans." + im + "\n")
		}
		out.WriteString("set_option linter.unusedVariables false\nnamespace Bkl.Gen\nopen Bkl\n\n")
		fset := token.NewFileSet()
		files, info, pkg, err := loadPkg(filepath.Join(repo, u.dir), fset)
		if err != nil || pkg == nil {
			problems = append(problems, fmt.Sprintf("%s: cannot load package: %v", u.dir, err))
			continue
		}
		t := &tr{fset: fset, info: info, pkg: pkg, decls: map[string]*ast.FuncDecl{}, listed: map[string]bool{}, own: map[string]bool{}, fuel: map[string]bool{},
			structs: u.structs}
		for _, f := range files {
			for _, d := range f.Decls {
				if fd, ok := d.(*ast.FuncDecl); ok {
					if fd.Recv == nil {
						t.decls[fd.Name.Name] = fd
					} else if len(fd.Recv.List) == 1 {
						rt := fd.Recv.List[0].Type
						if st, ok := rt.(*ast.StarExpr); ok {
							rt = st.X
						}
						if id, ok := rt.(*ast.Ident); ok {
							t.decls[id.Name+"."+fd.Name.Name] = fd
						}
					}
				}
			}
		}
		for _, im := range u.imports {
			for _, n := range byName[im].funcs {
				if t.decls[n] != nil {
					t.listed[n] = true
				}
			}
			for n, f := range fuelOf[im] {
				t.fuel[n] = f
			}
		}
		names := append([]string{}, u.funcs...)
		sort.Strings(names)
		for _, n := range names {
			if t.decls[n] == nil {
				problems = append(problems, fmt.Sprintf("%s: function %s no longer exists", u.dir, n))
				continue
			}
			t.listed[n] = true
			t.own[n] = true
		}
		calls := map[string][]string{}
		for n := range t.own {
			seen := map[string]bool{}
			ast.Inspect(t.decls[n].Body, func(x ast.Node) bool {
				if c, ok := x.(*ast.CallExpr); ok {
					if id, ok := c.Fun.(*ast.Ident); ok && t.listed[id.Name] && !seen[id.Name] {
						if _, isFn := t.info.Uses[id].(*types.Func); isFn {
							seen[id.Name] = true
							calls[n] = append(calls[n], id.Name)
						}
					}
					if sel, ok := c.Fun.(*ast.SelectorExpr); ok {
						if rn := map[kind]string{kDoc: "Document", kCtx: "EvalContext"}[t.kindE(sel.X)]; rn != "" {
							key := rn + "." + sel.Sel.Name
							if t.listed[key] && !seen[key] {
								seen[key] = true
								calls[n] = append(calls[n], key)
							}
						}
					}
				}
				return true
			})
			sort.Strings(calls[n])
		}
		live := []string{}
		for _, n := range names {
			if t.own[n] {
				live = append(live, n)
			}
		}
		comps := sccs(live, calls)
		for _, comp := range comps {
			if !t.own[comp[0]] {
				continue
			}
			rec := len(comp) > 1
			for _, w := range calls[comp[0]] {
				if w == comp[0] {
					rec = true
				}
			}
			for _, f := range comp {
				for _, w := range calls[f] {
					if t.fuel[w] {
						rec = true
					}
				}
			}
			if rec {
				for _, f := range comp {
					t.fuel[f] = true
				}
			}
		}
		fuelOf[u.name] = t.fuel
		t.owned = u.owned
		t.ho = map[string]bool{}
		for n := range t.listed {
			if fd := t.decls[n]; fd != nil {
				pk, _ := t.sigKinds(fd)
				for _, kd := range pk {
					if kd == kFunc {
						t.ho[n] = true
					}
				}
			}
		}
		// externs: every listed function that reaches one takes it as a leading parameter
		t.externs = u.externs
		t.needExt = map[string][]string{}
		direct := map[string]map[string]bool{}
		for _, im := range u.imports {
			for n, es := range extOf[im] {
				direct[n] = map[string]bool{}
				for _, e := range es {
					direct[n][e] = true
				}
			}
		}
		for n := range t.own {
			direct[n] = map[string]bool{}
			ast.Inspect(t.decls[n].Body, func(x ast.Node) bool {
				if c, ok := x.(*ast.CallExpr); ok {
					if id, ok := c.Fun.(*ast.Ident); ok {
						if _, isExt := u.externs[id.Name]; isExt {
							direct[n][id.Name] = true
						}
					}
					if cn := callName(c); strings.Contains(cn, ".") && !strings.HasPrefix(cn, ".") {
						if _, isExt := u.externs[cn]; isExt {
							direct[n][cn] = true
						}
					}
					if sel, ok := c.Fun.(*ast.SelectorExpr); ok {
						if _, isExt := u.externs["."+sel.Sel.Name]; isExt {
							direct[n]["."+sel.Sel.Name] = true
						}
						if rn := map[kind]string{kDoc: "Document", kCtx: "EvalContext"}[t.kindE(sel.X)]; rn != "" {
							if _, isExt := u.externs[rn+"."+sel.Sel.Name]; isExt {
								direct[n][rn+"."+sel.Sel.Name] = true
							}
						}
					}
				}
				return true
			})
		}
		for changed := true; changed; {
			changed = false
			for n := range t.own {
				for _, w := range calls[n] {
					for e := range direct[w] {
						if !direct[n][e] {
							direct[n][e] = true
							changed = true
						}
					}
				}
			}
		}
		for n, es := range direct {
			for e := range es {
				t.needExt[n] = append(t.needExt[n], e)
				if _, ok := u.externs[e]; !ok && t.own[n] {
					problems = append(problems, fmt.Sprintf("%s: %s reaches the extern %s, which unit %s does not declare", u.dir, n, e, u.name))
				}
			}
			sort.Strings(t.needExt[n])
		}
		extOf[u.name] = map[string][]string{}
		for n, es := range t.needExt {
			extOf[u.name][n] = es
		}
		// the package's errors.New variable (at most one): its class is Err.other
		for _, f := range files {
			for _, d := range f.Decls {
				gd, ok := d.(*ast.GenDecl)
				if !ok || gd.Tok != token.VAR {
					continue
				}
				for _, sp := range gd.Specs {
					vs := sp.(*ast.ValueSpec)
					for i, id := range vs.Names {
						if i < len(vs.Values) {
							if c, ok := vs.Values[i].(*ast.CallExpr); ok && callName(c) == "errors.New" {
								if t.pkgErr != "" {
									problems = append(problems, u.dir+": two errors.New variables (both would be Err.other)")
								}
								t.pkgErr = id.Name
							}
						}
					}
				}
			}
		}
		out.WriteString("namespace " + u.ns + "\n\n")
		for _, comp := range comps {
			if !t.own[comp[0]] {
				continue
			}
			texts := []string{}
			for _, f := range comp {
				txt, err := t.function(f)
				if err != nil {
					problems = append(problems, u.dir+": "+err.Error())
					continue
				}
				texts = append(texts, txt)
			}
			if len(comp) > 1 {
				out.WriteString("mutual\n" + strings.Join(texts, "\n") + "end\n\n")
			} else {
				out.WriteString(strings.Join(texts, "\n") + "\n")
			}
		}
		out.WriteString("end " + u.ns + "\n\nend Bkl.Gen\n")
		if outDir != "" {
			os.MkdirAll(outDir, 0o755)
			writeIfChanged(filepath.Join(outDir, u.name+".lean"), out.String())
		} else if !probe || u.name == "Probe" {
			fmt.Print(out.String())
		}
	}
	if len(problems) > 0 {
		for _, p := range problems {
			fmt.Fprintln(os.Stderr, "gotrans: "+p)
		}
		os.Exit(2)
	}
}
