module verif/harness

go 1.24.0

require (
	github.com/gopatchy/bkl v0.0.0
	gopkg.in/yaml.v3 v3.0.1
)

require (
	github.com/pelletier/go-toml/v2 v2.2.3 // indirect
	golang.org/x/exp v0.0.0-20250210185358-939b2ce775ac // indirect
)

replace github.com/gopatchy/bkl => /repo
