#!/usr/bin/env python3
"""Statement coverage of /repo's Go code reached by the checks (generator-quality measurement, DESIGN §5.1).
usage: coverage.py [C01,C02,...|all] [--tier quick]   -> writes build/coverage/<ids>.txt and prints per-file numbers
and the uncovered blocks of the files the properties are anchored in."""
import json
import os
import re
import shutil
import subprocess
import sys

V = "/verif"
props = sys.argv[1] if len(sys.argv) > 1 else "all"
ids = [f"C{i:02d}" for i in range(1, 21)] if props == "all" else props.split(",")
tier = "quick"
if "--tier" in sys.argv:
    tier = sys.argv[sys.argv.index("--tier") + 1]
cov = os.path.join(V, "build", "coverage", "data")
shutil.rmtree(cov, ignore_errors=True)
os.makedirs(cov)
env = dict(os.environ, VERIF_COVER="1", GOCOVERDIR=cov, GOFLAGS="-mod=mod", GOPROXY="off")
for p in ids:
    r = subprocess.run(["./check", p, tier], cwd=V, env=env, capture_output=True, text=True)
    print(p, "rc", r.returncode, r.stderr.strip().split("\n")[-1][:150], flush=True)
subprocess.run("git checkout -- evidence", shell=True, cwd=V)
out = os.path.join(V, "build", "coverage", "profile.txt")
subprocess.run(["go", "tool", "covdata", "textfmt", "-i=" + cov, "-o", out], check=True, env=env, cwd="/repo")
blocks = {}
for line in open(out).read().split("\n")[1:]:
    m = re.match(r"(.+):(\d+)\.(\d+),(\d+)\.(\d+) (\d+) (\d+)", line)
    if not m:
        continue
    f, l1, c1, l2, c2, n, cnt = m.groups()
    key = (f, int(l1), int(c1), int(l2), int(c2), int(n))
    blocks[key] = blocks.get(key, 0) + int(cnt)
per = {}
unc = {}
for (f, l1, c1, l2, c2, n), cnt in blocks.items():
    f = f.replace("github.com/gopatchy/bkl/", "")
    t = per.setdefault(f, [0, 0])
    t[0] += n
    if cnt:
        t[1] += n
    else:
        unc.setdefault(f, []).append((l1, l2))
tot = [sum(t[0] for t in per.values()), sum(t[1] for t in per.values())]
rep = [f"total {tot[1]}/{tot[0]} = {100.0*tot[1]/max(1,tot[0]):.1f}%"]
for f in sorted(per):
    t = per[f]
    rep.append(f"{f:32s} {t[1]:4d}/{t[0]:4d} {100.0*t[1]/max(1,t[0]):5.1f}%  uncovered lines: " + " ".join(f"{a}-{b}" if a != b else str(a) for a, b in sorted(unc.get(f, []))))
txt = "\n".join(rep)
open(os.path.join(V, "build", "coverage", "-".join(ids)[:60] + ".txt"), "w").write(txt + "\n")
print(txt)
