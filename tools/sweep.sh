#!/bin/sh
# usage: tools/sweep.sh quick "2 3 4 5" | tools/sweep.sh thorough "1"
# Unchanged-tree sweep over several seeds; prints one line per (property, seed) and every VIOLATION line.
tier=${1:-quick}; seeds=${2:-"2 3 4"}
cd "$(dirname "$0")/.." || exit 2
[ -x build/bin/bklgo ] || ./setup.sh > /dev/null 2>&1
for s in $seeds; do
  for i in 01 02 03 04 05 06 07 08 09 10 11 12 13 14 15 16 17 18 19 20; do
    t0=$(date +%s)
    VERIF_SEED=$s ./check C$i $tier > /tmp/sweep.$$.out 2> /tmp/sweep.$$.err; rc=$?
    t1=$(date +%s)
    echo "C$i seed=$s tier=$tier rc=$rc $((t1-t0))s $(grep -c VIOLATION /tmp/sweep.$$.out) violations"
    grep VIOLATION /tmp/sweep.$$.out
    grep "violation:" /tmp/sweep.$$.err | head -3
  done
done
rm -f /tmp/sweep.$$.out /tmp/sweep.$$.err
