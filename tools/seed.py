#!/usr/bin/env python3
"""Confirm a delivered mutant in a scratch worktree, run the property's check against it in /repo, store it.
usage: seed.py <dir with patch.diff, demo_test.go|demo.sh, meta.json> <seed id, e.g. C01a> [--props C01,C09] [--tier quick]"""
import argparse
import json
import os
import re
import shutil
import subprocess
import sys
import tempfile

ENV = dict(os.environ, GOFLAGS="-mod=mod", GOPROXY="off")


def sh(cmd, cwd=None, timeout=1800):
    return subprocess.run(cmd, shell=True, executable="/bin/bash", cwd=cwd, capture_output=True, text=True, env=ENV, timeout=timeout)


def run_demo(wt, src):
    """returns True if the demonstration passes"""
    if os.path.exists(os.path.join(src, "demo_test.go")):
        text = open(os.path.join(src, "demo_test.go")).read()
        m = re.search(r"^//.*?(cmd/\w+|wrapper|\./cmd/\w+|package dir(?:ectory)?:?\s*\S+)", text.split("\n")[0])
        pkgdir = "."
        first = text.split("\n")[0]
        for cand in ("cmd/bkld", "cmd/bkli", "cmd/bklr", "cmd/bklb", "cmd/bkl", "wrapper"):
            if cand in first:
                pkgdir = cand
                break
        dst = os.path.join(wt, pkgdir, "zz_demo_test.go")
        shutil.copy(os.path.join(src, "demo_test.go"), dst)
        try:
            r = sh(f"go test -vet=off -count=1 -run 'Demo|C[0-9][0-9]' ./{pkgdir}/ 2>&1 | tail -30", cwd=wt)
            ok = "FAIL" not in r.stdout and ("ok " in r.stdout or "PASS" in r.stdout)
            return ok, r.stdout[-1500:]
        finally:
            os.unlink(dst)
    if os.path.exists(os.path.join(src, "demo.sh")):
        r = sh(f"bash {os.path.join(src, 'demo.sh')} {wt} 2>&1 | tail -30; exit ${{PIPESTATUS[0]}}", cwd=wt)
        return r.returncode == 0, r.stdout[-1500:]
    return None, "no demonstration found"


def main():
    ap = argparse.ArgumentParser()
    ap.add_argument("src")
    ap.add_argument("sid")
    ap.add_argument("--props")
    ap.add_argument("--tier", default="quick")
    ap.add_argument("--skip-confirm", action="store_true")
    a = ap.parse_args()
    meta = json.load(open(os.path.join(a.src, "meta.json")))
    prop = meta.get("property", a.sid[:3])
    props = a.props or prop
    patch = os.path.abspath(os.path.join(a.src, "patch.diff"))
    report = {"seed": a.sid, "property": prop}
    if not a.skip_confirm:
        wt = tempfile.mkdtemp(prefix="verif-seed-")
        os.rmdir(wt)
        sh(f"git -C /repo worktree add --detach {wt} HEAD -q")
        try:
            ok0, out0 = run_demo(wt, a.src)
            report["demo_passes_on_clean_tree"] = ok0
            r = sh(f"git apply {patch}", cwd=wt)
            if r.returncode != 0:
                report["error"] = "patch does not apply: " + r.stderr[:300]
                print(json.dumps(report, indent=1))
                return 2
            b = sh("go build ./... && go test -vet=off -count=1 ./... 2>&1 | grep -v 'no test files' | tail -5", cwd=wt)
            report["go_test_with_change"] = "ok" if (b.returncode == 0 and "FAIL" not in b.stdout) else "FAIL: " + (b.stdout + b.stderr)[-400:]
            t = sh("./test 2>&1 | grep -c PASS; ./test 2>&1 | grep -ci fail", cwd=wt)
            report["cli_fixtures_with_change"] = t.stdout.strip().replace("\n", " pass / fail ")
            ok1, out1 = run_demo(wt, a.src)
            report["demo_passes_with_change"] = ok1
            report["demo_output_with_change"] = out1[-600:]
        finally:
            sh(f"git -C /repo worktree remove --force {wt}")
        confirmed = report.get("demo_passes_on_clean_tree") is True and report.get("demo_passes_with_change") is False \
            and report.get("go_test_with_change") == "ok" and report.get("cli_fixtures_with_change", "").startswith("168")
        report["confirmed"] = confirmed
    r = subprocess.run([sys.executable, "/verif/tools/try_patch.py", "--patch", patch, "--props", props, "--tier", a.tier],
                       capture_output=True, text=True, timeout=7200)
    report["checks"] = r.stdout.strip().split("\n")
    dst = os.path.join("/verif/seeded", a.sid)
    os.makedirs(dst, exist_ok=True)
    for f in os.listdir(a.src):
        if os.path.isfile(os.path.join(a.src, f)):
            shutil.copy(os.path.join(a.src, f), os.path.join(dst, f))
    meta["verif"] = report
    json.dump(meta, open(os.path.join(dst, "meta.json"), "w"), indent=1)
    print(json.dumps(report, indent=1))
    return 0


if __name__ == "__main__":
    sys.exit(main())
