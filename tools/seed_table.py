#!/usr/bin/env python3
"""Print the markdown table of seeded changes (DESIGN.md §16) from seeded/*/meta.json."""
import json
import os
rows = []
for sid in sorted(os.listdir("/verif/seeded")):
    p = f"/verif/seeded/{sid}/meta.json"
    if not os.path.exists(p):
        continue
    m = json.load(open(p))
    v = m.get("verif", {})
    checks = v.get("checks") or []
    det = []
    for c in checks:
        if not isinstance(c, str) or ":" not in c:
            continue
        pid, rest = c.split(":", 1)
        tag = "DETECTED" if "DETECTED" in rest else ("missed" if "MISSED" in rest else "error")
        if "no-failing-input-found" in rest:
            tag += " (no-failing-input-found)"
        det.append(f"{pid.strip()}: {tag}")
    what = (m.get("summary") or "").replace("\n", " ").replace("|", "/")
    files = ",".join(m.get("files") or [])
    rows.append(f"| {sid} | {files} | {what[:170]}{'…' if len(what) > 170 else ''} | {'; '.join(det)} | {v.get('note', '')} |")
print("| id | file(s) | what the change does | verdict of the check(s) | note |")
print("|---|---|---|---|---|")
print("\n".join(rows))
