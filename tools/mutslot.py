#!/usr/bin/env python3
"""Evaluate a delivered mutant WITHOUT touching /repo or /verif: a private copy of /verif (slot) is
pointed at a scratch worktree of /repo carrying the patch (VERIF_REPO).  Confirms the mutant
(builds, go test + ./test pass, demonstration passes clean / fails changed), runs the given
checks, stores everything under /verif/seeded/<sid>/.
usage: mutslot.py <src dir> <sid> --slot N [--props C01,C09] [--tier quick] [--skip-confirm]"""
import argparse
import json
import os
import shutil
import subprocess
import sys

ENV = dict(os.environ, GOFLAGS="-mod=mod", GOPROXY="off")


def sh(cmd, cwd=None, timeout=3600, env=None):
    return subprocess.run(cmd, shell=True, executable="/bin/bash", cwd=cwd, capture_output=True, text=True, env=env or ENV, timeout=timeout)


def run_demo(wt, src):
    if os.path.exists(os.path.join(src, "demo_test.go")):
        first = open(os.path.join(src, "demo_test.go")).read().split("\n")[0]
        pkgdir = "."
        for cand in ("cmd/bkld", "cmd/bkli", "cmd/bklr", "cmd/bklb", "cmd/bkl", "wrapper"):
            if cand in first:
                pkgdir = cand
                break
        dst = os.path.join(wt, pkgdir, "zz_demo_test.go")
        shutil.copy(os.path.join(src, "demo_test.go"), dst)
        try:
            r = sh(f"go test -vet=off -count=1 -run 'Demo|C[0-9][0-9]' ./{pkgdir}/ 2>&1 | tail -30", cwd=wt)
            ok = "FAIL" not in r.stdout and ("ok " in r.stdout or "PASS" in r.stdout)
            return ok, r.stdout[-1500:]
        finally:
            os.unlink(dst)
    if os.path.exists(os.path.join(src, "demo.sh")):
        r = sh(f"bash {os.path.join(src, 'demo.sh')} {wt} > /tmp/vmut/demo.$$ 2>&1; rc=$?; tail -30 /tmp/vmut/demo.$$; rm -f /tmp/vmut/demo.$$; exit $rc", cwd=wt)
        return r.returncode == 0, r.stdout[-1500:]
    return None, "no demonstration found"


def main():
    ap = argparse.ArgumentParser()
    ap.add_argument("src")
    ap.add_argument("sid")
    ap.add_argument("--slot", type=int, default=0)
    ap.add_argument("--props")
    ap.add_argument("--tier", default="quick")
    ap.add_argument("--seed", default="1")
    ap.add_argument("--skip-confirm", action="store_true")
    ap.add_argument("--no-store", action="store_true")
    a = ap.parse_args()
    src = os.path.abspath(a.src)
    meta = json.load(open(os.path.join(src, "meta.json")))
    prop = meta.get("property", a.sid[:3])
    props = a.props or prop
    patch = os.path.join(src, "patch.diff")
    slot = f"/tmp/vmut/slot{a.slot}"
    vdir = os.path.join(slot, "verif")
    wt = os.path.join(slot, "repo")
    os.makedirs(slot, exist_ok=True)
    sh(f"rsync -a --delete --exclude .git --exclude replays --exclude seeded /verif/ {vdir}/")
    if os.path.isdir(wt):
        sh(f"git -C /repo worktree remove --force {wt}")
    sh(f"git -C /repo worktree add --detach {wt} HEAD -q")
    report = meta.get("verif") if a.skip_confirm and isinstance(meta.get("verif"), dict) else {"seed": a.sid, "property": prop}
    try:
        if not a.skip_confirm:
            ok0, out0 = run_demo(wt, src)
            report["demo_passes_on_clean_tree"] = ok0
            if not ok0:
                report["demo_output_on_clean_tree"] = out0[-600:]
        r = sh(f"git apply {patch}", cwd=wt)
        if r.returncode != 0:
            # written against an earlier HEAD (before a later fix: commit): fall back to a 3-way merge
            r = sh(f"git apply --3way {patch} && git reset -q", cwd=wt)
            report["applied_with_3way"] = r.returncode == 0
        if r.returncode != 0:
            report["error"] = "patch does not apply: " + r.stderr[:300]
            print(json.dumps(report, indent=1))
            return 2
        if not a.skip_confirm:
            b = sh("go build ./... && go test -vet=off -count=1 ./... 2>&1 | grep -v 'no test files' | tail -5", cwd=wt)
            report["go_test_with_change"] = "ok" if (b.returncode == 0 and "FAIL" not in b.stdout) else "FAIL: " + (b.stdout + b.stderr)[-400:]
            t = sh("./test > /tmp/vmut/fx.$$ 2>&1; grep -c PASS /tmp/vmut/fx.$$; grep -ci fail /tmp/vmut/fx.$$; rm -f /tmp/vmut/fx.$$", cwd=wt)
            report["cli_fixtures_with_change"] = t.stdout.strip().replace("\n", " pass / fail ")
            ok1, out1 = run_demo(wt, src)
            report["demo_passes_with_change"] = ok1
            report["demo_output_with_change"] = out1[-600:]
            report["confirmed"] = (report.get("demo_passes_on_clean_tree") is True and ok1 is False
                                   and report.get("go_test_with_change") == "ok"
                                   and report.get("cli_fixtures_with_change", "").startswith("168"))
        checks = []
        for p in props.split(","):
            env = dict(ENV, VERIF_REPO=wt, VERIF_SEED=a.seed)
            r = subprocess.run(["./check", p, a.tier], cwd=vdir, capture_output=True, text=True, env=env, timeout=7200)
            viol = [l for l in r.stdout.split("\n") if l.startswith("VIOLATION")]
            desc = [l.strip() for l in r.stderr.split("\n") if "violation:" in l]
            tag = "DETECTED" if r.returncode == 1 and viol else ("MISSED" if r.returncode == 0 else f"ERROR rc={r.returncode}")
            noinput = bool(viol) and all("no-failing-input-found" in v for v in viol)
            checks.append(f"{p}: {tag}{' (no-failing-input-found)' if noinput else ''} {desc[:2]}")
            if r.returncode not in (0, 1):
                checks.append((r.stdout[-300:] + r.stderr[-600:]))
        report["checks"] = checks
        report["checked_at_repo_commit"] = sh("git -C /repo rev-parse --short HEAD").stdout.strip()
        report["how"] = "tools/mutslot.py: private copy of /verif run with VERIF_REPO=<scratch worktree with the patch applied>"
    finally:
        sh(f"git -C /repo worktree remove --force {wt}")
    if not a.no_store:
        dst = os.path.join("/verif/seeded", a.sid)
        os.makedirs(dst, exist_ok=True)
        for f in os.listdir(src):
            if os.path.isfile(os.path.join(src, f)) and os.path.abspath(src) != os.path.abspath(dst):
                shutil.copy(os.path.join(src, f), os.path.join(dst, f))
        meta["verif"] = report
        json.dump(meta, open(os.path.join(dst, "meta.json"), "w"), indent=1)
    print(a.sid, json.dumps({k: report.get(k) for k in ("confirmed", "checks", "demo_passes_on_clean_tree", "demo_passes_with_change", "go_test_with_change", "cli_fixtures_with_change")}))
    return 0


if __name__ == "__main__":
    sys.exit(main())
