#!/usr/bin/env python3
"""Apply a patch (or reverse a commit) to /repo, run the given checks, restore /repo.
usage: try_patch.py (--patch file | --revert commit) --props C01,C02 [--tier quick] [--seed 1]
Prints one line per property: DETECTED / MISSED plus the VIOLATION lines."""
import argparse
import os
import subprocess
import sys

REPO = "/repo"


def sh(cmd, **kw):
    return subprocess.run(cmd, shell=True, capture_output=True, text=True, **kw)


def main():
    ap = argparse.ArgumentParser()
    ap.add_argument("--patch")
    ap.add_argument("--revert")
    ap.add_argument("--props", required=True)
    ap.add_argument("--tier", default="quick")
    ap.add_argument("--seed", default="1")
    a = ap.parse_args()
    st = sh(f"git -C {REPO} status --porcelain").stdout.strip()
    if st:
        print("refusing: /repo is not clean:\n" + st)
        return 2
    try:
        if a.patch:
            r = sh(f"git -C {REPO} apply {a.patch}")
        else:
            r = sh(f"git -C {REPO} show {a.revert} | git -C {REPO} apply -R")
        if r.returncode != 0:
            print("patch does not apply:", r.stderr[:500])
            return 2
        b = sh(f"cd {REPO} && GOFLAGS=-mod=mod GOPROXY=off go build ./...")
        if b.returncode != 0:
            print("does not build:", b.stderr[:500])
            return 2
        res = {}
        for p in a.props.split(","):
            env = dict(os.environ, VERIF_SEED=a.seed)
            r = subprocess.run(["./check", p, a.tier], cwd="/verif", capture_output=True, text=True, env=env, timeout=3600)
            viol = [l for l in r.stdout.split("\n") if l.startswith("VIOLATION")]
            desc = [l.strip() for l in r.stderr.split("\n") if "violation:" in l]
            res[p] = (r.returncode, viol, desc)
            tag = "DETECTED" if r.returncode == 1 and viol else ("MISSED" if r.returncode == 0 else f"ERROR rc={r.returncode}")
            noinput = any("no-failing-input-found" in v for v in viol)
            print(f"{p}: {tag}{' (no-failing-input-found)' if noinput else ''} {desc[:2]}")
            if r.returncode not in (0, 1):
                print(r.stdout[-500:], r.stderr[-800:])
        return 0
    finally:
        sh(f"git -C {REPO} checkout -- . && git -C {REPO} clean -fd -q")
        # evidence files were rewritten by runs on a modified tree: restore the committed ones
        sh("git -C /verif checkout -- evidence")


if __name__ == "__main__":
    sys.exit(main())
