#!/usr/bin/env python3
"""Mechanical mutants of /repo (harness/cmd/automut) against the checks.
phase 1 (filter):  automut.py filter [--sample N] [--seed S] [--workers W]
     every sampled mutant is applied in a scratch worktree; those that still build AND pass `go test` and `./test`
     (i.e. the existing tests do not notice them) are kept in build/automut/survivors.json with their diff
phase 2 (judge):   automut.py judge [--workers W]
     each survivor is run against the checks of the properties its file belongs to (private copy of /verif,
     VERIF_REPO = scratch worktree); verdicts go to build/automut/verdicts.json
Nothing is written to /repo; worktrees live under /tmp/amut and are removed at the end."""
import argparse
import json
import os
import random
import subprocess
import sys
from concurrent.futures import ThreadPoolExecutor

V = "/verif"
OUT = os.path.join(V, "build", "automut")
ENV = dict(os.environ, GOFLAGS="-mod=mod", GOPROXY="off")
PROPS = {
    "merge.go": ["C01", "C02", "C07", "C17"], "match.go": ["C01", "C02", "C10"], "parser.go": ["C02", "C19", "C05", "C11"],
    "file.go": ["C03", "C18"], "filepath.go": ["C03", "C18", "C20"], "process1.go": ["C10", "C19", "C08"], "get.go": ["C10", "C13", "C08"],
    "process2.go": ["C12", "C13", "C14", "C07"], "repeat.go": ["C12"], "output.go": ["C11"], "validate.go": ["C06", "C07"],
    "finalize.go": ["C06", "C09"], "yaml.go": ["C04", "C05", "C08"], "toml.go": ["C04", "C05"], "json.go": ["C04", "C05", "C14"],
    "normalize.go": ["C04"], "formats.go": ["C05", "C04"], "util.go": ["C01", "C02", "C10", "C11", "C12", "C14", "C07"],
    "document.go": ["C02", "C19", "C10"], "evalcontext.go": ["C13", "C12"],
    "cmd/bkld/diff.go": ["C15"], "cmd/bkld/main.go": ["C15"], "cmd/bkli/intersect.go": ["C16"], "cmd/bkli/main.go": ["C16"],
    "cmd/bklr/required.go": ["C17"], "cmd/bklr/main.go": ["C17"], "cmd/bkl/main.go": ["C05", "C03", "C18"], "wrapper/wrapper.go": ["C20"],
}


REJUDGE = {"cmd/bkld/main.go": ["C08", "C05"], "cmd/bkli/main.go": ["C08"], "cmd/bklr/main.go": ["C08"], "cmd/bkl/main.go": ["C08", "C09"],
           "wrapper/wrapper.go": ["C08"], "file.go": ["C04", "C08", "C02"], "process2.go": ["C08", "C10"], "parser.go": ["C08", "C07", "C03", "C18"],
           "merge.go": ["C08", "C10"], "yaml.go": ["C15", "C17"], "filepath.go": ["C08"], "repeat.go": ["C09", "C08"], "util.go": ["C13", "C08"]}


def sh(cmd, cwd=None, timeout=3600, env=None):
    return subprocess.run(cmd, shell=True, executable="/bin/bash", cwd=cwd, capture_output=True, text=True, env=env or ENV, timeout=timeout)


def worktree(i):
    wt = f"/tmp/amut/w{i}"
    if not os.path.isdir(wt):
        os.makedirs("/tmp/amut", exist_ok=True)
        sh(f"git -C /repo worktree add --detach {wt} HEAD -q")
    return wt


def filter_one(args):
    m, slot = args
    wt = worktree(slot)
    sh("git checkout -- . && git clean -fdq", cwd=wt)
    r = sh(f"{V}/build/bin/automut apply {wt} {m['id']}")
    if r.returncode != 0:
        return None
    if sh("go build ./...", cwd=wt).returncode != 0:
        return dict(m, status="no-build")
    t = sh("go test -vet=off -count=1 ./... 2>&1 | grep -v 'no test files' | tail -3", cwd=wt, timeout=1200)
    if "FAIL" in t.stdout or "ok " not in t.stdout:
        return dict(m, status="killed-by-go-test")
    f = sh("./test 2>&1 | grep -c PASS; ./test 2>&1 | grep -ci fail", cwd=wt, timeout=1200)
    nums = f.stdout.split()
    if len(nums) < 2 or nums[0] != "168" or nums[1] != "0":
        return dict(m, status="killed-by-fixtures")
    d = sh("git diff", cwd=wt).stdout
    return dict(m, status="survivor", diff=d)


def judge_one(args):
    m, slot = args
    sd = f"/tmp/amut/s{slot}"
    vdir, wt = os.path.join(sd, "verif"), worktree(100 + slot)
    os.makedirs(sd, exist_ok=True)
    sh(f"rsync -a --delete --exclude .git --exclude replays --exclude seeded {V}/ {vdir}/")
    sh("git checkout -- . && git clean -fdq", cwd=wt)
    p = subprocess.run(["git", "apply", "-"], input=m["diff"], text=True, cwd=wt, capture_output=True)
    if p.returncode != 0:
        return dict(m, verdict="apply-failed")
    res = {}
    for pid in PROPS.get(m["file"], []):
        env = dict(ENV, VERIF_REPO=wt, VERIF_SEED="1")
        try:
            r = subprocess.run(["./check", pid, "quick"], cwd=vdir, capture_output=True, text=True, env=env, timeout=3600)
        except subprocess.TimeoutExpired:
            res[pid] = "timeout"
            continue
        viol = [l for l in r.stdout.split("\n") if l.startswith("VIOLATION")]
        desc = [l.strip()[:160] for l in r.stderr.split("\n") if "violation:" in l]
        if r.returncode == 1 and viol:
            res[pid] = ("FACTS " if all("no-failing-input-found" in v for v in viol) else "DETECTED ") + (desc[0] if desc else "")
            if "DETECTED" in res[pid]:
                break            # one concrete detection is enough
        elif r.returncode == 0:
            res[pid] = "silent"
        else:
            res[pid] = f"error rc={r.returncode} {r.stderr[-200:]}"
    v = "detected" if any(x.startswith("DETECTED") for x in res.values()) else ("facts-only" if any(x.startswith("FACTS") for x in res.values()) else "silent")
    return dict(m, verdict=v, checks=res)


def main():
    ap = argparse.ArgumentParser()
    ap.add_argument("phase", choices=["filter", "judge", "clean"])
    ap.add_argument("--sample", type=int, default=0)
    ap.add_argument("--seed", type=int, default=1)
    ap.add_argument("--workers", type=int, default=8)
    ap.add_argument("--rejudge-silent", action="store_true", help="judge phase: only the survivors that an earlier judge run left silent, "
                    "against the wider property lists of REJUDGE (error paths and crashes of the tools are C08's subject)")
    a = ap.parse_args()
    os.makedirs(OUT, exist_ok=True)
    if a.phase == "clean":
        for d in os.listdir("/tmp/amut") if os.path.isdir("/tmp/amut") else []:
            if d.startswith("w"):
                sh(f"git -C /repo worktree remove --force /tmp/amut/{d}")
        sh("rm -rf /tmp/amut; git -C /repo worktree prune")
        return
    if a.phase == "filter":
        r = sh(f"cd {V}/harness && go build -o ../build/bin/automut ./cmd/automut && {V}/build/bin/automut list /repo")
        ms = [json.loads(l) for l in r.stdout.split("\n") if l.strip()]
        if a.sample and a.sample < len(ms):
            ms = random.Random(a.seed).sample(ms, a.sample)
        jobs = [(m, i % a.workers) for i, m in enumerate(ms)]
        # one worktree per worker: run each worker's jobs sequentially
        per = {w: [j for j in jobs if j[1] == w] for w in range(a.workers)}

        def run_worker(w):
            return [filter_one(j) for j in per[w]]
        out = []
        with ThreadPoolExecutor(a.workers) as ex:
            for rs in ex.map(run_worker, range(a.workers)):
                out += [x for x in rs if x]
        json.dump(out, open(os.path.join(OUT, "filtered.json"), "w"), indent=1)
        surv = [x for x in out if x["status"] == "survivor"]
        json.dump(surv, open(os.path.join(OUT, "survivors.json"), "w"), indent=1)
        from collections import Counter
        print(Counter(x["status"] for x in out))
        return
    surv = json.load(open(os.path.join(OUT, "survivors.json")))
    if a.rejudge_silent:
        old = {v["id"]: v for v in json.load(open(os.path.join(OUT, "verdicts.json")))}
        surv = [m for m in surv if old.get(m["id"], {}).get("verdict") == "silent"]
        for f, extra in REJUDGE.items():
            PROPS[f] = extra
    per = {w: [(m, w) for i, m in enumerate(surv) if i % a.workers == w] for w in range(a.workers)}

    def run_worker(w):
        res = []
        for j in per[w]:
            r = judge_one(j)
            res.append(r)
            print(r["id"], r["file"], r["line"], r["op"], r.get("verdict"), flush=True)
        return res
    out = []
    with ThreadPoolExecutor(a.workers) as ex:
        for rs in ex.map(run_worker, range(a.workers)):
            out += rs
    json.dump(out, open(os.path.join(OUT, "verdicts2.json" if a.rejudge_silent else "verdicts.json"), "w"), indent=1)
    from collections import Counter
    print(Counter(x.get("verdict") for x in out))


if __name__ == "__main__":
    main()
