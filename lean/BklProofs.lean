import BklProofs.C01
