/-
  Bkl.Fields — the small helpers of util.go, as pure functions.
-/
import Bkl.Val
namespace Bkl

/-- `getMapBoolValue` + comparison: key present with exactly this bool. util.go:hasMapBoolValue -/
def fhasBool (m : Fields) (k : String) (b : Bool) : Bool :=
  match fget m k with
  | some (.bool b') => b' == b
  | _ => false

/-- util.go:getMapStringValue — the string stored under `k`, "" otherwise. -/
def fgetStr (m : Fields) (k : String) : String :=
  match fget m k with
  | some v => v.toStr
  | none => ""

/-- util.go:popListString — drop every string entry equal to `s`; report whether one was there. -/
def popListString (l : List Val) (s : String) : Bool × List Val :=
  (l.any (fun x => x == .str s), l.filter (fun x => !(x == .str s)))

/-- util.go:hasListMapBoolValue -/
def hasListMapBool (l : List Val) (k : String) (b : Bool) : Bool :=
  l.any fun x => match x with
    | .map m => fhasBool m k b
    | _ => false

/-- util.go:popListMapBoolValue — `(found, rest)`; a marker entry carrying other keys is an error. -/
def popListMapBool (l : List Val) (k : String) (b : Bool) : R (Bool × List Val) :=
  if !hasListMapBool l k b then pure (false, l)
  else do
    let rest ← l.foldlM (init := ([] : List Val)) fun acc x =>
      match x with
      | .map m =>
        if fhasBool m k b then
          if (fdel m k).length > 0 then throw Err.extraKeys else pure acc
        else pure (acc ++ [x])
      | _ => pure (acc ++ [x])
    pure (true, rest)

/-- util.go:popListMapValue — a single-key map entry `{k: val}` is removed and `val` returned.
    Go uses `ret != nil` as "already found", so a first value of `null` does not count. -/
def popListMapValue (l : List Val) (k : String) : R (Val × List Val) :=
  l.foldlM (init := (Val.null, ([] : List Val))) fun (ret, acc) x =>
    match x with
    | .map m =>
      if m.length != 1 then pure (ret, acc ++ [x])
      else match fget m k with
        | some val => if !ret.isNull then throw Err.extraKeys else pure (val, acc)
        | none => pure (ret, acc ++ [x])
    | _ => pure (ret, acc ++ [x])

/-- util.go:getListMapStringValue -/
def getListMapStr (l : List Val) (k : String) : String :=
  match l.find? (fun x => match x with | .map m => fgetStr m k != "" | _ => false) with
  | some (.map m) => fgetStr m k
  | _ => ""

/-- util.go:toStringList -/
def toStringList (l : List Val) : R (List String) :=
  l.mapM fun v => match v with
    | .str s => pure s
    | _ => throw Err.invalidType

end Bkl
