/-
  Bkl.Merge — merge.go.  Well-founded recursion on the size of the patch (`src`).

  Go iterates `for k, v := range src` in hash order; the model folds in key order.
  `BklProofs.C09` proves the result (status and value) is the same for every order.
-/
import Bkl.Match
namespace Bkl

theorem fget_sizeOf {m : Fields} {k : String} {v : Val} (h : fget m k = some v) :
    sizeOf v < sizeOf m := by
  induction m with
  | nil => simp [fget] at h
  | cons hd tl ih =>
    obtain ⟨k', v'⟩ := hd
    simp only [fget] at h
    split at h
    · cases h; simp; omega
    · have := ih h; simp; omega

theorem fdel_sizeOf (m : Fields) (k : String) : sizeOf (fdel m k) ≤ sizeOf m := by
  induction m with
  | nil => simp [fdel]
  | cons hd tl ih =>
    obtain ⟨k', v'⟩ := hd
    simp only [fdel]
    split
    · simp; omega
    · simp; omega

/-- merge.go:mergeListDelete — remove every entry matching `del`; none removed is an error. -/
def mergeListDelete (obj : List Val) (del : Val) : R (List Val) :=
  if obj.any (fun v => matchV v del) then pure (obj.filter (fun v => !matchV v del))
  else throw Err.uselessOverride

mutual
/-- merge.go:merge -/
def merge (dst src : Val) : R Val :=
  match dst with
  | .map d =>
    match src with
    | .map s => mergeMapMap d s
    | .null => pure (.map d)
    | _ => if d.isEmpty then pure src else throw Err.invalidType
  | .list d =>
    match src with
    | .list s => mergeListList d s
    | .null => pure (.list d)
    | _ => throw Err.invalidType
  | .null => pure src
  | _ => if src == dst then throw Err.uselessOverride else pure src
termination_by (sizeOf src, 2)

/-- merge.go:mergeMapMap -/
def mergeMapMap (d s : Fields) : R Val :=
  if fhasBool s "$replace" true then pure (.map (fdel s "$replace"))
  else do pure (.map (← mergeFields d s))
termination_by (sizeOf s, 1)

/-- the `for k, v := range src` loop of mergeMapMap -/
def mergeFields (d : Fields) (s : Fields) : R Fields :=
  match s with
  | [] => pure d
  | (k, v) :: rest =>
    if v.toStr == "$delete" then
      if fhas d k then mergeFields (fdel d k) rest else throw Err.uselessOverride
    else
      match fget d k with
      | some e => do
        let v2 ← merge e v
        mergeFields (fset d k v2) rest
      | none => mergeFields (fset d k v) rest
termination_by (sizeOf s, 0)

/-- merge.go:mergeListList -/
def mergeListList (d s : List Val) : R Val :=
  let (rep, s1) := popListString s "$replace"
  if rep then pure (.list s1)
  else do
    let (rep2, s2) ← popListMapBool s "$replace" true
    if rep2 then pure (.list s2)
    else
      let d1 := (popListString d "$required").2
      pure (.list (← mergeEntries d1 s))
termination_by (sizeOf s, 1)

/-- the `for _, v := range src` loop of mergeListList -/
def mergeEntries (d : List Val) (s : List Val) : R (List Val) :=
  match s with
  | [] => pure d
  | v :: rest =>
    match v with
    | .map kvs =>
      match fget kvs "$delete" with
      | some del =>
        if (fdel kvs "$delete").length > 0 then throw Err.extraKeys
        else do
          let d' ← mergeListDelete d del
          mergeEntries d' rest
      | none =>
        match fget kvs "$match" with
        | some m =>
          let kvs1 := fdel kvs "$match"
          match hv : fget kvs1 "$value" with
          | some v2 =>
            if (fdel kvs1 "$value").length > 0 then throw Err.extraKeys
            else do
              let d' ← d.mapM (fun e => if matchV e m then merge e v2 else pure e)
              if !(d.any (fun e => matchV e m)) then throw Err.noMatchFound
              mergeEntries d' rest
          | none => do
            let d' ← d.mapM (fun e => if matchV e m then merge e (.map kvs1) else pure e)
            if !(d.any (fun e => matchV e m)) then throw Err.noMatchFound
            mergeEntries d' rest
        | none => mergeEntries (d ++ [v]) rest
    | _ => mergeEntries (d ++ [v]) rest
termination_by (sizeOf s, 0)
decreasing_by
  all_goals simp_wf
  all_goals first
    | (apply Prod.Lex.left; simp; omega)
    | (apply Prod.Lex.right; omega)
    | (apply Prod.Lex.left
       have h1 : sizeOf v2 < sizeOf (fdel kvs "$match") := fget_sizeOf hv
       have h2 := fdel_sizeOf kvs "$match"
       simp; omega)
    | (apply Prod.Lex.left
       have h2 := fdel_sizeOf kvs "$match"
       simp; omega)
end

/-- merge a chain of layers base-first (what a filename chain of single-document files does) -/
def mergeChain : List Val → R Val
  | [] => pure .null
  | base :: rest => rest.foldlM merge base

end Bkl
