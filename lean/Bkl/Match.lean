/-
  Bkl.Match — match.go.  Structural recursion on the pattern.
-/
import Bkl.Fields
namespace Bkl

/-- match.go:matchMap — a single-key map whose key is $merge/$replace/$encode never matches. -/
def isPlaceholder (m : Fields) : Bool :=
  match m with
  | [(k, _)] => k == "$merge" || k == "$replace" || k == "$encode"
  | _ => false

mutual
/-- match.go:match -/
def matchV (obj : Val) : Val → Bool
  | .map pkvs =>
    let inv := fhasBool pkvs "$invert" true
    let r := match obj with
      | .map okvs => if isPlaceholder okvs then false else matchFields okvs inv pkvs
      | _ => false
    if inv then !r else r
  | .list ps =>
    match obj with
    | .list os => matchAll os ps
    | _ => false
  | .null => obj == .null
  | .bool b => obj == .bool b
  | .int i => obj == .int i
  | .flt r => obj == .flt r
  | .str s => obj == .str s
/-- the `for pk, pv := range pat` loop of matchMap; `skipInv` = the `$invert: true` entry was popped -/
def matchFields (okvs : Fields) (skipInv : Bool) : Fields → Bool
  | [] => true
  | (k, v) :: rest =>
    (if skipInv && k == "$invert" then true else matchV ((fget okvs k).getD .null) v)
      && matchFields okvs skipInv rest
/-- match.go:matchList / matchListSingle -/
def matchAll (os : List Val) : List Val → Bool
  | [] => true
  | p :: ps => os.any (fun o => matchV o p) && matchAll os ps
end

end Bkl
