/-
  Bkl.Parser — parser.go / document.go: the parser's document list and layer targeting.

  State = the ordered documents (`p.docs`) plus the `Parents` lists of every Document the
  parser has seen (Go keeps them as pointer slices on the Document objects; `mergeDocs`
  appends the merge target to the patch's `Parents`).  Documents are identified by `ID`,
  exactly as `Parser.parents` does (`parents[doc.ID]`).
-/
import Bkl.Process2
namespace Bkl

structure Doc where
  id : String
  parents : List String
  data : Val
  deriving Inhabited, Repr

structure PState where
  docs : List (String × Val)               -- p.docs: (ID, Data) in order
  known : List (String × List String)      -- Document.Parents of every document seen, by ID
  deriving Inhabited, Repr

def PState.empty : PState := { docs := [], known := [] }

def lookupParents (known : List (String × List String)) (id : String) : List String :=
  match known.find? (·.1 == id) with
  | some (_, ps) => ps
  | none => []

/-- document.go:AllParents — transitive closure (fuel = number of known documents + 1;
    the parent graph is acyclic: parents are created before their children) -/
def allParents (known : List (String × List String)) (fuel : Nat) (direct : List String) : List String :=
  match fuel with
  | 0 => direct
  | fuel + 1 => direct ++ direct.flatMap fun p => allParents known fuel (lookupParents known p)

/-- parser.go:parents — the documents of `p.docs` (in order) that are ancestors of the patch -/
def parentsOf (st : PState) (direct : List String) : List String :=
  let anc := allParents st.known (st.known.length + 1) direct
  (st.docs.filter fun d => anc.contains d.1).map (·.1)

/-- parser.go:findMatches — matching ancestors, else matching documents anywhere -/
def findMatches (st : PState) (direct : List String) (pat : Val) : List String :=
  let anc := parentsOf st direct
  let m1 := (st.docs.filter fun d => anc.contains d.1 && matchV d.2 pat).map (·.1)
  if !m1.isEmpty then m1
  else (st.docs.filter fun d => matchV d.2 pat).map (·.1)

def addParents (known : List (String × List String)) (id : String) (ps : List String) :
    List (String × List String) :=
  if known.any (·.1 == id) then
    known.map fun (i, old) => if i == id then (i, old ++ ps) else (i, old)
  else known ++ [(id, ps)]

/-- merge.go:mergeDocs applied to every target id, in document order -/
def mergeInto (st : PState) (patchId : String) (targets : List String) (body : Val) : R PState := do
  let docs ← st.docs.mapM fun (id, d) =>
    if targets.contains id then do pure (id, ← merge d body) else pure (id, d)
  pure { docs := docs, known := addParents st.known patchId targets }

/-- parser.go:MergeDocument -/
def mergeDocument (st : PState) (patch : Doc) : R PState :=
  let st0 : PState := { st with known := addParents st.known patch.id patch.parents }
  let dflt (body : Val) : R PState :=
    let targets := parentsOf st0 patch.parents
    if targets.isEmpty then pure { st0 with docs := st0.docs ++ [(patch.id, body)] }
    else mergeInto st0 patch.id targets body
  match patch.data with
  | .map kvs =>
    match fget kvs "$match" with
    | some pat =>
      let body := Val.map (fdel kvs "$match")
      if pat.isNull then
        -- explicit append: a fresh document receives the patch
        let nid := patch.id ++ "|matchnull"
        pure { docs := st0.docs ++ [(nid, body)], known := addParents st0.known patch.id [nid] }
      else
        let targets := findMatches st0 patch.parents pat
        if targets.isEmpty then throw Err.noMatchFound
        else mergeInto st0 patch.id targets body
    | none => dflt patch.data
  | _ => dflt patch.data

end Bkl
