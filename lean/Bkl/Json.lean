/-
  Bkl.Json — a concrete JSON codec: what bkl gets from Go's encoding/json through json.go.

  * writer  = `json.NewEncoder` with `SetEscapeHTML(false)` (compact form): `jsonEncodeChars`,
              one value per line in a stream (`jsonEncodeStreamChars`);
  * reader  = `json.Decoder` with `UseNumber` looping until EOF (`jsonDecodeDocs`), numbers kept as
              their literal text (`Raw.jnum`), then `normalize` (Bkl/Stream.lean).

  Everything is defined on `List Char` (the kernel reduces those well) and wrapped at the end into
  `String`-level functions.  Two things stay parameters, because the model's `Val.flt r` carries
  Go's `%v` text `r` and not the float64:
    `jf  : String → String`   the JSON literal encoding/json (and bkl's `.0` rule for integral
                              floats) writes for the float whose `%v` text is the argument;
    `fol : String → String`   the `%v` text of `strconv.ParseFloat(literal, 64)` ("" = failure).
  Core Lean only; all functions are total: the parser takes fuel; `2 * input length + 1` is always
  enough (an array costs two units per nesting level, every other step at most one per character
  consumed), so the top-level functions never fail for lack of fuel
  (BklProofs: `C05_json_fuel_adequate`).
-/
import Bkl.Stream
namespace Bkl

/-! ## string escaping (encoding/json `appendString`, escapeHTML = false) -/

/-- lowercase hexadecimal digit -/
def jsonHexDigit (n : Nat) : Char :=
  if n < 10 then Char.ofNat (48 + n) else Char.ofNat (87 + n)

/-- what the encoder writes for one code point of a string -/
def jsonEscapeChar (c : Char) : List Char :=
  if c = '"' then ['\\', '"']
  else if c = '\\' then ['\\', '\\']
  else if c = '\n' then ['\\', 'n']
  else if c = '\r' then ['\\', 'r']
  else if c = '\t' then ['\\', 't']
  else if c = '\x08' then ['\\', 'b']
  else if c = '\x0c' then ['\\', 'f']
  else if c.toNat < 32 then
    ['\\', 'u', '0', '0', jsonHexDigit (c.toNat / 16), jsonHexDigit (c.toNat % 16)]
  else if c = '\u2028' then ['\\', 'u', '2', '0', '2', '8']
  else if c = '\u2029' then ['\\', 'u', '2', '0', '2', '9']
  else [c]

def jsonEscape (cs : List Char) : List Char := cs.flatMap jsonEscapeChar

/-- a quoted JSON string -/
def jsonQuote (cs : List Char) : List Char := '"' :: (jsonEscape cs ++ ['"'])

/-! ## string unescaping (encoding/json scanner + `unquote`) -/

def jsonHexVal (c : Char) : Option Nat :=
  if c.isDigit then some (c.toNat - 48)
  else if 97 ≤ c.toNat ∧ c.toNat ≤ 102 then some (c.toNat - 87)
  else if 65 ≤ c.toNat ∧ c.toNat ≤ 70 then some (c.toNat - 55)
  else none

/-- the value of four hexadecimal digits -/
def jsonHex4 (a b c d : Char) : Option Nat :=
  match jsonHexVal a, jsonHexVal b, jsonHexVal c, jsonHexVal d with
  | some a, some b, some c, some d => some (((a * 16 + b) * 16 + c) * 16 + d)
  | _, _, _, _ => none

/-- the single-character escapes `\" \\ \/ \b \f \n \r \t` -/
def jsonSimpleEscape (e : Char) : Option Char :=
  if e = '"' then some '"'
  else if e = '\\' then some '\\'
  else if e = '/' then some '/'
  else if e = 'b' then some '\x08'
  else if e = 'f' then some '\x0c'
  else if e = 'n' then some '\n'
  else if e = 'r' then some '\r'
  else if e = 't' then some '\t'
  else none

def jsonIsSurrogate (n : Nat) : Bool := 0xD800 ≤ n && n ≤ 0xDFFF

/-- `utf16.DecodeRune`: a high surrogate followed by a low one -/
def jsonSurrogatePair (hi lo : Nat) : Option Char :=
  if 0xD800 ≤ hi ∧ hi ≤ 0xDBFF ∧ 0xDC00 ≤ lo ∧ lo ≤ 0xDFFF then
    some (Char.ofNat (0x10000 + (hi - 0xD800) * 0x400 + (lo - 0xDC00)))
  else none

/-- The body of a JSON string after its opening quote: the unescaped characters up to the closing
    quote, and the input after it.  Unpaired surrogate escapes become U+FFFD, as in Go; raw control
    characters, unknown escapes, bad hex digits and a missing closing quote are errors. -/
def jsonParseStr : List Char → Option (List Char × List Char)
  | [] => none
  | c :: rest =>
    if c = '"' then some ([], rest)
    else if c = '\\' then
      match rest with
      | [] => none
      | e :: rest1 =>
        if e = 'u' then
          match rest1 with
          | a :: b :: c :: d :: rest2 =>
            match jsonHex4 a b c d with
            | none => none
            | some n =>
              if jsonIsSurrogate n then
                let fallback := (jsonParseStr rest2).map fun p => ('\ufffd' :: p.1, p.2)
                match rest2 with
                | e1 :: e2 :: a' :: b' :: c' :: d' :: rest3 =>
                  match (if e1 = '\\' ∧ e2 = 'u' then
                      (jsonHex4 a' b' c' d').bind (jsonSurrogatePair n) else none) with
                  | some ch => (jsonParseStr rest3).map fun p => (ch :: p.1, p.2)
                  | none => fallback
                | _ => fallback
              else (jsonParseStr rest2).map fun p => (Char.ofNat n :: p.1, p.2)
          | _ => none
        else
          match jsonSimpleEscape e with
          | some ch => (jsonParseStr rest1).map fun p => (ch :: p.1, p.2)
          | none => none
    else if c.toNat < 32 then none
    else (jsonParseStr rest).map fun p => (c :: p.1, p.2)

/-- the inverse of `jsonEscape` on a whole string body (`none`: not a valid body) -/
def jsonUnescape (cs : List Char) : Option (List Char) :=
  match jsonParseStr (cs ++ ['"']) with
  | some (s, []) => some s
  | _ => none

/-! ## numbers (the scanner's number automaton; `UseNumber` keeps the literal) -/

inductive JNumState where
  | start | neg | zero | int | dot | frac | exp | expSign | expDigits
  deriving DecidableEq, Repr

def jnumStep : JNumState → Char → Option JNumState
  | .start, c =>
    if c = '-' then some .neg else if c = '0' then some .zero
    else if c.isDigit then some .int else none
  | .neg, c => if c = '0' then some .zero else if c.isDigit then some .int else none
  | .zero, c =>
    if c = '.' then some .dot else if c = 'e' ∨ c = 'E' then some .exp else none
  | .int, c =>
    if c.isDigit then some .int else if c = '.' then some .dot
    else if c = 'e' ∨ c = 'E' then some .exp else none
  | .dot, c => if c.isDigit then some .frac else none
  | .frac, c =>
    if c.isDigit then some .frac else if c = 'e' ∨ c = 'E' then some .exp else none
  | .exp, c =>
    if c = '+' ∨ c = '-' then some .expSign else if c.isDigit then some .expDigits else none
  | .expSign, c => if c.isDigit then some .expDigits else none
  | .expDigits, c => if c.isDigit then some .expDigits else none

def jnumAccept : JNumState → Bool
  | .zero | .int | .frac | .expDigits => true
  | _ => false

/-- run the automaton over a whole text -/
def jnumRun : JNumState → List Char → Option JNumState
  | st, [] => some st
  | st, c :: cs =>
    match jnumStep st c with
    | some st' => jnumRun st' cs
    | none => none

/-- `cs` is a JSON number token: `-?(0|[1-9][0-9]*)(\.[0-9]+)?([eE][+-]?[0-9]+)?` -/
def jsonNumberTok (cs : List Char) : Bool :=
  match jnumRun .start cs with
  | some st => jnumAccept st
  | none => false

/-- longest-match scan of a number: the literal and the input after it (`none`: the input stops
    or goes wrong in the middle of a number) -/
def jsonScanNumber : JNumState → List Char → Option (List Char × List Char)
  | st, [] => if jnumAccept st then some ([], []) else none
  | st, c :: cs =>
    match jnumStep st c with
    | some st' => (jsonScanNumber st' cs).map fun p => (c :: p.1, p.2)
    | none => if jnumAccept st then some ([], c :: cs) else none

/-- decimal text of an integer, as `strconv.AppendInt` writes it -/
def jsonIntChars (i : Int) : List Char :=
  if 0 ≤ i then Nat.toDigits 10 i.toNat else '-' :: Nat.toDigits 10 (-i).toNat

/-! ## the encoder -/

mutual
/-- compact JSON text of a value (map entries in list order = sorted key order for WF values) -/
def jsonEncodeChars (jf : String → String) : Val → List Char
  | .null => ['n', 'u', 'l', 'l']
  | .bool true => ['t', 'r', 'u', 'e']
  | .bool false => ['f', 'a', 'l', 's', 'e']
  | .int i => jsonIntChars i
  | .flt r => (jf r).toList
  | .str s => jsonQuote s.toList
  | .list xs => '[' :: jsonEncodeElems jf xs
  | .map kvs => '{' :: jsonEncodeMembers jf kvs
/-- the elements of an array and its closing bracket -/
def jsonEncodeElems (jf : String → String) : List Val → List Char
  | [] => [']']
  | x :: xs => jsonEncodeChars jf x ++ jsonEncodeElemsTail jf xs
def jsonEncodeElemsTail (jf : String → String) : List Val → List Char
  | [] => [']']
  | x :: xs => ',' :: (jsonEncodeChars jf x ++ jsonEncodeElemsTail jf xs)
/-- the members of an object and its closing brace -/
def jsonEncodeMembers (jf : String → String) : Fields → List Char
  | [] => ['}']
  | (k, v) :: rest =>
    jsonQuote k.toList ++ ':' :: (jsonEncodeChars jf v ++ jsonEncodeMembersTail jf rest)
def jsonEncodeMembersTail (jf : String → String) : Fields → List Char
  | [] => ['}']
  | (k, v) :: rest =>
    ',' :: (jsonQuote k.toList ++ ':' :: (jsonEncodeChars jf v ++ jsonEncodeMembersTail jf rest))
end

/-- json.go:jsonMarshalStream — `Encoder.Encode` writes each value followed by a newline -/
def jsonEncodeStreamChars (jf : String → String) : List Val → List Char
  | [] => []
  | v :: vs => jsonEncodeChars jf v ++ '\n' :: jsonEncodeStreamChars jf vs

/-! ## the indented writer (`json-pretty`: `Encoder.SetIndent("", "  ")`) -/

/-- a line break followed by the indentation of nesting level `lvl` (two spaces per level) -/
def jsonNewline (lvl : Nat) : List Char := '\n' :: List.replicate (2 * lvl) ' '

mutual
/-- indented JSON text of a value at nesting level `lvl`: empty containers stay `[]` / `{}`, every
    element / member starts a line one level deeper, `": "` separates key and value -/
def jsonPrettyChars (jf : String → String) (lvl : Nat) : Val → List Char
  | .list [] => ['[', ']']
  | .list (x :: xs) =>
    '[' :: (jsonNewline (lvl + 1) ++ (jsonPrettyChars jf (lvl + 1) x ++ jsonPrettyElemsTail jf lvl xs))
  | .map [] => ['{', '}']
  | .map ((k, v) :: rest) =>
    '{' :: (jsonNewline (lvl + 1) ++ (jsonQuote k.toList ++ ':' :: ' ' ::
      (jsonPrettyChars jf (lvl + 1) v ++ jsonPrettyMembersTail jf lvl rest)))
  | v => jsonEncodeChars jf v
/-- the remaining elements of an array opened at level `lvl`, and its closing bracket -/
def jsonPrettyElemsTail (jf : String → String) (lvl : Nat) : List Val → List Char
  | [] => jsonNewline lvl ++ [']']
  | x :: xs => ',' :: (jsonNewline (lvl + 1) ++ (jsonPrettyChars jf (lvl + 1) x ++ jsonPrettyElemsTail jf lvl xs))
/-- the remaining members of an object opened at level `lvl`, and its closing brace -/
def jsonPrettyMembersTail (jf : String → String) (lvl : Nat) : Fields → List Char
  | [] => jsonNewline lvl ++ ['}']
  | (k, v) :: rest =>
    ',' :: (jsonNewline (lvl + 1) ++ (jsonQuote k.toList ++ ':' :: ' ' ::
      (jsonPrettyChars jf (lvl + 1) v ++ jsonPrettyMembersTail jf lvl rest)))
end

/-- json.go:jsonMarshalStreamPretty — each value indented, followed by a newline -/
def jsonPrettyStreamChars (jf : String → String) : List Val → List Char
  | [] => []
  | v :: vs => jsonPrettyChars jf 0 v ++ '\n' :: jsonPrettyStreamChars jf vs

/-! ## the decoder -/

def jsonIsWs (c : Char) : Bool := c = ' ' || c = '\t' || c = '\n' || c = '\r'

def jsonSkipWs (cs : List Char) : List Char := cs.dropWhile jsonIsWs

/-- a number literal as the decoder hands it over: `json.Number` -/
def jsonNumberRaw (fol : String → String) (lit : List Char) : Raw :=
  .jnum (String.ofList lit) (fol (String.ofList lit))

/-- the input after the given literal text (`none`: the input does not start with it) -/
def jsonStripPrefix : List Char → List Char → Option (List Char)
  | [], cs => some cs
  | _ :: _, [] => none
  | p :: ps, c :: cs => if p = c then jsonStripPrefix ps cs else none

mutual
/-- One JSON value (leading whitespace allowed) and the input after it. -/
def jsonParseValue (fol : String → String) : Nat → List Char → R (Raw × List Char)
  | 0, _ => .error .other
  | fuel + 1, cs =>
    match jsonSkipWs cs with
    | [] => .error .other
    | c :: rest =>
      if c = '-' ∨ c.isDigit = true then
        match jsonScanNumber .start (c :: rest) with
        | some (lit, r) => .ok (jsonNumberRaw fol lit, r)
        | none => .error .other
      else if c = '"' then
        match jsonParseStr rest with
        | some (s, r) => .ok (.str (String.ofList s), r)
        | none => .error .other
      else if c = '[' then
        match jsonSkipWs rest with
        | [] => .error .other
        | d :: r =>
          if d = ']' then .ok (.list [], r)
          else
            match jsonParseElems fol fuel (d :: r) with
            | .ok (xs, r') => .ok (.list xs, r')
            | .error e => .error e
      else if c = '{' then
        match jsonSkipWs rest with
        | [] => .error .other
        | d :: r =>
          if d = '}' then .ok (.map [], r)
          else
            match jsonParseMembers fol fuel (d :: r) with
            | .ok (kvs, r') => .ok (.map kvs, r')
            | .error e => .error e
      else if c = 'n' then
        match jsonStripPrefix ['u', 'l', 'l'] rest with
        | some r => .ok (.null, r)
        | none => .error .other
      else if c = 't' then
        match jsonStripPrefix ['r', 'u', 'e'] rest with
        | some r => .ok (.bool true, r)
        | none => .error .other
      else if c = 'f' then
        match jsonStripPrefix ['a', 'l', 's', 'e'] rest with
        | some r => .ok (.bool false, r)
        | none => .error .other
      else .error .other
/-- array elements: a value, then `,` and more elements, or `]` -/
def jsonParseElems (fol : String → String) : Nat → List Char → R (List Raw × List Char)
  | 0, _ => .error .other
  | fuel + 1, cs =>
    match jsonParseValue fol fuel cs with
    | .error e => .error e
    | .ok (x, r) =>
      match jsonSkipWs r with
      | [] => .error .other
      | d :: r' =>
        if d = ',' then
          match jsonParseElems fol fuel r' with
          | .ok (xs, r'') => .ok (x :: xs, r'')
          | .error e => .error e
        else if d = ']' then .ok ([x], r')
        else .error .other
/-- object members: a string key, `:`, a value, then `,` and more members, or `}` -/
def jsonParseMembers (fol : String → String) : Nat → List Char → R (List (String × Raw) × List Char)
  | 0, _ => .error .other
  | fuel + 1, cs =>
    match jsonSkipWs cs with
    | [] => .error .other
    | q :: r0 =>
      if q = '"' then
        match jsonParseStr r0 with
        | none => .error .other
        | some (k, r1) =>
          match jsonSkipWs r1 with
          | [] => .error .other
          | col :: r2 =>
            if col = ':' then
              match jsonParseValue fol fuel r2 with
              | .error e => .error e
              | .ok (x, r3) =>
                match jsonSkipWs r3 with
                | [] => .error .other
                | d :: r4 =>
                  if d = ',' then
                    match jsonParseMembers fol fuel r4 with
                    | .ok (kvs, r5) =>
                      -- `Decoder.Decode` stores into a Go map: a LATER member with the same key replaces this
                      -- one, whose value (numbers included) is then never looked at again
                      if kvs.any (fun e => e.1 == String.ofList k) then .ok (kvs, r5)
                      else .ok ((String.ofList k, x) :: kvs, r5)
                    | .error e => .error e
                  else if d = '}' then .ok ([(String.ofList k, x)], r4)
                  else .error .other
            else .error .other
      else .error .other
end

/-- json.go:jsonUnmarshalStream — `Decoder.Decode` until EOF: values separated by optional
    whitespace; trailing whitespace is fine, anything else must be a value -/
def jsonDecodeDocs (fol : String → String) : Nat → List Char → R (List Raw)
  | 0, _ => .error .other
  | fuel + 1, cs =>
    match jsonSkipWs cs with
    | [] => .ok []
    | c :: cs' =>
      match jsonParseValue fol (2 * cs'.length + 3) (c :: cs') with
      | .error e => .error e
      | .ok (x, r) =>
        match jsonDecodeDocs fol fuel r with
        | .ok xs => .ok (x :: xs)
        | .error e => .error e

/-! ## `String`-level interface -/

def jsonEscapeS (s : String) : String := String.ofList (jsonEscape s.toList)
def jsonUnescapeS (s : String) : Option String := (jsonUnescape s.toList).map String.ofList

/-- the compact JSON text of one value (no trailing newline) -/
def jsonEncode (jf : String → String) (v : Val) : String := String.ofList (jsonEncodeChars jf v)

/-- json.go:jsonMarshalStream -/
def jsonEncodeStream (jf : String → String) (vs : List Val) : String :=
  String.ofList (jsonEncodeStreamChars jf vs)

/-- json.go:jsonMarshalStreamPretty -/
def jsonPrettyStream (jf : String → String) (vs : List Val) : String :=
  String.ofList (jsonPrettyStreamChars jf vs)

/-- json.go:jsonUnmarshalStream -/
def jsonDecodeStream (fol : String → String) (s : String) : R (List Raw) :=
  jsonDecodeDocs fol (s.toList.length + 1) s.toList

/-- json.go:jsonUnmarshalStream followed by `normalize` of every document -/
def jsonLoadStream (fol : String → String) (s : String) : R (List Val) :=
  match jsonDecodeStream fol s with
  | .ok rs => normalizeList rs
  | .error e => .error e

/-- a text that must hold exactly one document (process2.go: `ErrUnmarshal` otherwise) -/
def jsonLoad (fol : String → String) (s : String) : R Val :=
  match jsonLoadStream fol s with
  | .ok [d] => .ok d
  | .ok _ => .error .unmarshal
  | .error e => .error e

/-- the JSON codec in the shape Bkl/Stream.lean wants: one value = one line -/
def jsonCodec (jf fol : String → String) : Codec where
  enc v := .ok [jsonEncode jf v]
  dec ls :=
    match ls with
    | [l] => jsonLoad fol l
    | _ => .error .unmarshal

end Bkl
