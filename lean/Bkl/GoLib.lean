/-
  Bkl.GoLib — the Go primitives that the translated definitions (Generated/Trans.lean, written by
  harness/cmd/gotrans from /repo's source on every run) are expressed in.

  These few definitions are the translator's semantics of Go's built-in operations on the model's value
  type; together with the translator they are the trusted part of the tie "translated source = model"
  (DESIGN §15.8).  Core Lean only.
-/
import Bkl.Output
import Bkl.Encode
import Bkl.Process2
namespace Bkl

/-- errors of a translated function: running out of recursion fuel (Go: unbounded stack) -/
inductive GErr where
  | fuel
  deriving DecidableEq, Repr

/-- result of a translated Go function -/
abbrev G := Except GErr

namespace Go

/-- how one execution of a loop body ends -/
inductive Loop (σ : Type) (ρ : Type) where
  | next (s : σ)   -- `continue`, or the end of the body
  | brk (s : σ)    -- `break`
  | ret (r : ρ)    -- `return r`

/-- early exits of a loop nested directly in a labelled loop: `return r`, or `continue <outer label>` -/
inductive Exit (ρ : Type) where
  | ret (r : ρ)
  | cont

/-- `for … := range xs { body }` with the loop-carried variables `s`:
    `inl s` = the loop ended with state `s`, `inr r` = the body returned `r`. -/
def forRange {α σ ρ : Type} : List α → σ → (α → σ → G (Loop σ ρ)) → G (σ ⊕ ρ)
  | [], s, _ => .ok (.inl s)
  | x :: xs, s, body =>
    match body x s with
    | .error e => .error e
    | .ok (.next s') => forRange xs s' body
    | .ok (.brk s') => .ok (.inl s')
    | .ok (.ret r) => .ok (.inr r)

/-- `m[k]` on a `map[string]any`: the zero value (nil) for an absent key -/
def mapIndex (m : Fields) (k : String) : Val := (fget m k).getD .null

/-- `v, found := m[k]` -/
def mapIndex2 (m : Fields) (k : String) : Val × Bool :=
  match fget m k with
  | some v => (v, true)
  | none => (.null, false)

/-- `v, ok := x.(map[string]any)` -/
def asMap : Val → Fields × Bool
  | .map m => (m, true)
  | _ => ([], false)

/-- `v, ok := x.([]any)` -/
def asList : Val → List Val × Bool
  | .list l => (l, true)
  | _ => ([], false)

/-- `v, ok := x.(string)` -/
def asStr : Val → String × Bool
  | .str s => (s, true)
  | _ => ("", false)

/-- `v, ok := x.(bool)` -/
def asBool : Val → Bool × Bool
  | .bool b => (b, true)
  | _ => (false, false)

/-- `v, ok := x.(int)` -/
def asInt : Val → Int × Bool
  | .int i => (i, true)
  | _ => (0, false)

/-- a value the translated code only hands on (`*Document`, `*Format`, …); a string so that parameters standing for
    untranslated functions can tell one handle from another -/
abbrev Opaque := String

/-- `*Document` as a record (units that look into documents): the parents are never inspected by translated code -/
structure Doc where
  id : String
  parents : Opaque
  data : Val
  /-- the nil pointer (`var ret *Document`) -/
  isNil : Bool := false
  deriving Inhabited

def Doc.nil : Doc := { id := "", parents := "", data := .null, isNil := true }

/-- `*EvalContext` -/
structure Ctx where
  vars : Fields
  deriving Inhabited

/-- `l[i]` on a `[]any` for an index inside the slice (outside: Go panics; the translated functions guard the access) -/
def listAt (l : List Val) (i : Int) : Val :=
  if i < 0 then .null else l.getD i.toNat .null

/-- `interpRE.ReplaceAllStringFunc(s, f)` for `interpRE = {.*?}`: the matches are those of the model's segment scanner
    (`interpSegs`: leftmost, shortest, no newline inside the braces); `f` gets the matched text with its braces and, being a
    state-passing function literal, the state -/
def replaceSegs {σ : Type} (f : String → σ → G (String × σ)) : List Seg → String → σ → G (String × σ)
  | [], acc, st => .ok (acc, st)
  | .lit cs :: rest, acc, st => replaceSegs f rest (acc ++ String.ofList cs) st
  | .ref cs :: rest, acc, st =>
    match f (String.ofList ('{' :: cs ++ ['}'])) st with
    | .error e => .error e
    | .ok (r, st') => replaceSegs f rest (acc ++ r) st'

def replaceAllInterp {σ : Type} (s : String) (f : String → σ → G (String × σ)) (st : σ) : G (String × σ) :=
  replaceSegs f (interpSegs s.toList) "" st

/-- the index values of `for i := 0; i < n; i++` -/
def intRange (n : Int) : List Int := (List.range n.toNat).map Int.ofNat

/-- `l[i]` on a `[]string` for an index inside the slice (outside: Go panics; the translated functions guard the access
    with `len`) -/
def strAt (l : List String) (i : Int) : String :=
  if i < 0 then "" else l.getD i.toNat ""

/-- `for idx, v := range l` -/
def enumFrom : Int → List α → List (Int × α)
  | _, [] => []
  | i, x :: xs => (i, x) :: enumFrom (i + 1) xs

def enum (l : List α) : List (Int × α) := enumFrom 0 l

/-- `l[i] = v` for an index inside the slice (outside: Go panics; the list is returned unchanged and
    the translated functions only ever write inside) -/
def listSet (l : List Val) (i : Int) (v : Val) : List Val :=
  if i < 0 then l else l.set i.toNat v

/-- is `p` a prefix of `cs` -/
def isPrefixChars : List Char → List Char → Bool
  | [], _ => true
  | _ :: _, [] => false
  | p :: ps, c :: cs => p == c && isPrefixChars ps cs

/-- strings.ReplaceAll for a NON-EMPTY pattern (the translator accepts only a non-empty literal): left to right,
    non-overlapping.  `skip` = characters of a matched occurrence still to be dropped. -/
def replaceAllAux (old new : List Char) : Nat → List Char → List Char
  | _, [] => []
  | skip + 1, _ :: cs => replaceAllAux old new skip cs
  | 0, c :: cs =>
    if isPrefixChars old (c :: cs) then new ++ replaceAllAux old new (old.length - 1) cs
    else c :: replaceAllAux old new 0 cs

def replaceAll (s old new : String) : String :=
  String.ofList (replaceAllAux old.toList new.toList 0 s.toList)

/-- strings.HasPrefix -/
def hasPrefix (s p : String) : Bool := isPrefixChars p.toList s.toList

/-- strings.HasSuffix / TrimPrefix / TrimSuffix -/
def hasSuffix (s p : String) : Bool := isPrefixChars p.toList.reverse s.toList.reverse
def trimPrefix (s p : String) : String :=
  if isPrefixChars p.toList s.toList then String.ofList (s.toList.drop p.toList.length) else s
def trimSuffix (s p : String) : String :=
  if hasSuffix s p then String.ofList (s.toList.take (s.toList.length - p.toList.length)) else s


/-- utf8string.String.At(i) for an index inside the string (outside: Go panics; the translated functions guard
    the access with RuneCount) -/
def runeAt (cs : List Char) (i : Int) : Char :=
  if i < 0 then default else cs.getD i.toNat default

end Go
end Bkl
