/-
  Bkl.Process2 — repeat.go (document-level `$repeat`) and process2.go (phase 5:
  nested `$repeat`, `$encode`, `$decode`, `$value`, `$env`, interpolation).

  `Vars` is EvalContext.Vars (environment as `$env:NAME`, repeat indices).
  Third-party codecs (`$encode: json|yaml|toml`, `$decode`) are outside the model: such an
  evaluation yields `Err.other` *and* sets no flag — instead the driver first checks
  `usesCodec` on the input and reports the case as unmodelled.
-/
import Bkl.Process1
import Bkl.Encode
import Bkl.Output
set_option linter.unusedVariables false
namespace Bkl

abbrev Vars := Fields

def getVar (ec : Vars) (name : String) : R Val :=
  match fget ec name with
  | some v => pure v
  | none => throw Err.variableNotFound

/-- get.go:getWithVar — a failing string reference falls back to a variable lookup. -/
def getWithVar (root : Val) (docs : List Val) (ec : Vars) (m : String) : R Val :=
  match get root docs (.str m) with
  | .ok v => pure v
  | .error .unmodelled => throw Err.unmodelled
  | .error _ => getVar ec m

/-! ## interpolation scanner: Go regexp `{.*?}` (`.` does not match newline) -/

/-- From just after a `{`: the text up to the first `}` provided no newline comes first. -/
def scanClose : List Char → List Char → Option (List Char × List Char)
  | [], _ => none
  | '}' :: rest, acc => some (acc.reverse, rest)
  | '\n' :: _, _ => none
  | c :: rest, acc => scanClose rest (c :: acc)

inductive Seg where
  | lit (cs : List Char)
  | ref (cs : List Char)
  deriving Repr, DecidableEq

/-- split a template into literal text and `{ref}` matches, leftmost-first, non-overlapping -/
def scanSegs : List Char → List Char → Nat → List Seg
  | [], lit, _ => if lit.isEmpty then [] else [Seg.lit lit.reverse]
  | _, lit, 0 => if lit.isEmpty then [] else [Seg.lit lit.reverse]
  | '{' :: rest, lit, fuel + 1 =>
    match scanClose rest [] with
    | some (inner, after) =>
      (if lit.isEmpty then [] else [Seg.lit lit.reverse]) ++ Seg.ref inner :: scanSegs after [] fuel
    | none => scanSegs rest ('{' :: lit) fuel
  | c :: rest, lit, fuel + 1 => scanSegs rest (c :: lit) fuel

def interpSegs (s : List Char) : List Seg := scanSegs s [] (s.length + 1)

/-- `$"..."` recogniser: strings.HasPrefix(obj, `$"`) && strings.HasSuffix(obj, `"`);
    body = TrimSuffix(TrimPrefix(obj, `$"`), `"`) -/
def interpBody (s : String) : Option (List Char) :=
  match s.toList with
  | '$' :: '"' :: rest =>
    match rest.reverse with
    | '"' :: bodyRev => some bodyRev.reverse
    | [] => some []           -- the two-character string `$"`: prefix and suffix overlap
    | _ => none
  | _ => none

/-- process2.go:process2String -/
def process2String (fuel : Nat) (docs : List Val) (root : Val) (ec : Vars) (s : String) : R Val :=
  match interpBody s with
  | some body =>
    match fuel with
    | 0 => throw Err.circularRef
    | fuel + 1 => do
      let parts ← (interpSegs body).mapM fun seg =>
        match seg with
        | .lit cs => pure (String.ofList cs)
        | .ref cs => do
          let v ← getWithVar root docs ec (String.ofList cs)
          match v with
          | .str s2 => do pure (fmtV (← process2String fuel docs root ec s2))
          | _ => pure (fmtV v)
      pure (.str (String.join parts))
  | none =>
    if s.startsWith "$env:" || s == "$repeat" then getVar ec s
    else pure (.str s)

/-- process2.go:process2 and everything it calls -/
def process2 (fuel : Nat) (docs : List Val) (root : Val) (ec : Vars) (obj : Val) : R Val :=
  match fuel with
  | 0 => throw Err.circularRef
  | fuel + 1 =>
    match obj with
    | .map kvs0 => do
      -- step 1: expand `{k: {$repeat: n, ...}}` entries
      let kvs ← kvs0.foldlM (init := ([] : Fields)) fun acc (k, v) =>
        match v with
        | .map m =>
          match fget m "$repeat" with
          | some r =>
            match r with
            | .int n => do
              let body := Val.map (fdel m "$repeat")
              (List.range n.toNat).foldlM (init := acc) fun acc2 i => do
                let ec' := fset ec "$repeat" (.int (Int.ofNat i))
                let v2 ← process2 fuel docs root ec' body
                if v2.isNull then pure acc2
                else do
                  match ← process2 fuel docs root ec' (.str k) with
                  | .str k2 => pure (fset acc2 k2 v2)
                  | _ => throw Err.invalidType
            | _ => throw Err.invalidType
          | none => pure (fset acc k v)
        | _ => pure (fset acc k v)
      match fget kvs "$encode" with
      | some spec => do
        let obj2 ← process2 fuel docs root ec (.map (fdel kvs "$encode"))
        validate obj2
        match encodeAny obj2 spec with
        | .ok v => pure v
        | .err e => throw e
        | .codec _ _ => throw Err.unmodelled
      | none =>
        match fget kvs "$decode" with
        | some spec =>
          match spec with
          | .str f =>
            let rest := fdel kvs "$decode"
            match fget rest "$value" with
            | none => throw Err.invalidType
            | some (.str _) =>
              if (fdel rest "$value").length != 0 then throw Err.extraKeys
              else if isCodecFormat f then throw Err.unmodelled else throw Err.unknownFormat
            | some _ => throw Err.invalidType
          | _ => throw Err.invalidType
        | none =>
          match fget kvs "$value" with
          | some v =>
            if (fdel kvs "$value").length != 0 then throw Err.extraKeys
            else process2 fuel docs root ec v
          | none => do
            let ret ← kvs.foldlM (init := ([] : Fields)) fun acc (k, v) => do
              let v2 ← process2 fuel docs root ec v
              if v2.isNull then pure acc
              else
                match ← process2 fuel docs root ec (.str k) with
                | .str k2 => pure (fset acc k2 v2)
                | _ => throw Err.invalidType
            pure (.map ret)
    | .list xs => do
      let (spec, rest) ← popListMapValue xs "$encode"
      if !spec.isNull then do
        let obj2 ← process2 fuel docs root ec (.list rest)
        validate obj2
        match encodeAny obj2 spec with
        | .ok v => pure v
        | .err e => throw e
        | .codec _ _ => throw Err.unmodelled
      else do
        let ret ← rest.foldlM (init := ([] : List Val)) fun acc v =>
          match v with
          | .map m =>
            match fget m "$repeat" with
            | some r =>
              match r with
              | .int n => do
                let body := Val.map (fdel m "$repeat")
                (List.range n.toNat).foldlM (init := acc) fun acc2 i => do
                  let v2 ← process2 fuel docs root (fset ec "$repeat" (.int (Int.ofNat i))) body
                  if v2.isNull then pure acc2 else pure (acc2 ++ [v2])
              | _ => throw Err.invalidType
            | none => do
              let v2 ← process2 fuel docs root ec v
              if v2.isNull then pure acc else pure (acc ++ [v2])
          | _ => do
            let v2 ← process2 fuel docs root ec v
            if v2.isNull then pure acc else pure (acc ++ [v2])
        pure (.list ret)
    | .str s => process2String (fuel + 1) docs root ec s
    | _ => pure obj

/-! ## repeat.go: document-level `$repeat` -/

/-- repeatDocGenFromInt over a list of (doc, ec) pairs -/
def repeatInt (name : String) (count : Int) (pairs : List (Val × Vars)) : List (Val × Vars) :=
  pairs.flatMap fun (d, ec) => (List.range count.toNat).map fun i => (d, fset ec name (.int (Int.ofNat i)))

/-- repeatDocGen -/
def repeatGen (data : Val) (ec : Vars) (v : Val) : R (List (Val × Vars)) :=
  match v with
  | .int n => pure (repeatInt "$repeat" n [(data, ec)])
  | .map rs => do
    let ec1 := rs.foldl (fun e (k, v) => fset e ("$repeat." ++ k) v) ec
    rs.foldlM (init := [(data, ec1)]) fun pairs (name, count) =>
      match count with
      | .int n => pure (repeatInt ("$repeat:" ++ name) n pairs)
      | _ => throw Err.invalidRepeat
  | _ => throw Err.invalidRepeat

/-- repeat.go:repeatDoc -/
def repeatDoc (data : Val) (ec : Vars) : R (List (Val × Vars)) :=
  match data with
  | .map kvs =>
    match fget kvs "$repeat" with
    | some v => repeatGen (.map (fdel kvs "$repeat")) ec v
    | none => pure [(data, ec)]
  | .list xs => do
    let (v, rest) ← popListMapValue xs "$repeat"
    if !v.isNull then repeatGen (.list rest) ec v else pure [(data, ec)]
  | _ => pure [(data, ec)]

/-- document.go:Document.Process — the evaluated documents generated by one merged document -/
def processDoc (docs : List Val) (env : Vars) (data : Val) : R (List Val) := do
  let (d1, _) ← process1 depthLimit docs data (some []) data
  let pairs ← repeatDoc d1 env
  pairs.mapM fun (d, ec) => process2 depthLimit docs d ec d

/-- parser.go:outputDocument -/
def outputDocument (docs : List Val) (env : Vars) (data : Val) : R (List Val) := do
  emit (← processDoc docs env data)

/-- parser.go:OutputDocuments -/
def outputDocuments (docs : List Val) (env : Vars) : R (List Val) := do
  let outs ← docs.mapM (outputDocument docs env)
  pure outs.flatten

end Bkl
