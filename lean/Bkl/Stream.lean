/-
  Bkl.Stream — the multi-document framing that json.go / yaml.go / toml.go put around the
  third-party single-document codecs, and Bkl.Decode-style normalisation of decoder output.

  A codec is a *parameter*: `enc` turns one value into lines of text, `dec` turns lines back
  into a value.  Whether yaml.v3 / go-toml / encoding/json meet the hypotheses under which the
  theorems of BklProofs.C05 hold is what the differential run checks (with independent parsers).
  Text is a list of lines (each line without its terminating newline), which is how the Go code's
  `(?m)^---$` regular expressions see it.
-/
import Bkl.Val
namespace Bkl

abbrev Lines := List String

structure Codec where
  enc : Val → R Lines
  dec : Lines → R Val
  /-- yaml.v3's `Decoder` loop over one part of a stream: EVERY document the part holds (a part can
      hold several: `--- # comment`, `--- {a: 1}` and `--- ` are document starts that are not
      separator lines).  By default a part holds the one document `dec` sees. -/
  decMany : Lines → R (List Val) := fun ls => do pure [← dec ls]

def sepYaml (l : String) : Bool := l == "---"
def sepToml (l : String) : Bool := l == "---" || l == "+++"

/-- split a text at separator lines (Go: `regexp.Split` on `(?m)^---$`) -/
def splitAt (isSep : String → Bool) : Lines → List Lines
  | [] => [[]]
  | l :: rest =>
    if isSep l then [] :: splitAt isSep rest
    else match splitAt isSep rest with
      | [] => [[l]]
      | p :: ps => (l :: p) :: ps

/-- yaml.go:yamlMarshalStream — the yaml.v3 encoder starts every document after its first
    with `---`; a nil document is written as a bare separator (and nothing at all when first) -/
def yamlMarshalStream (c : Codec) (vs : List Val) : R Lines :=
  let rec go (first : Bool) (encFirst : Bool) : List Val → R Lines
    | [] => pure []
    | v :: rest => do
      if v.isNull then
        let tail ← go false encFirst rest
        pure ((if first then [] else ["---"]) ++ tail)
      else
        let body ← c.enc v
        let tail ← go false false rest
        pure ((if encFirst then [] else ["---"]) ++ body ++ tail)
  go true true vs

/-- yaml.go:yamlUnmarshalStream, one part: all its documents; a part without any document (blank,
    or only comments) is one empty (null) document -/
def yamlPartDocs (c : Codec) (part : Lines) : R (List Val) :=
  if part.all (fun l => l.trimAscii.toString == "") then pure [Val.null]
  else do
    let ds ← c.decMany part
    pure (if ds.isEmpty then [Val.null] else ds)

/-- yaml.go:yamlUnmarshalStream — split at separator lines, decode every document of every part -/
def yamlUnmarshalStream (c : Codec) (text : Lines) : R (List Val) := do
  let parts ← (splitAt sepYaml text).mapM (yamlPartDocs c)
  pure parts.flatten

/-- toml.go:tomlMarshalStream — `---` between documents; an empty document is written as nothing -/
def tomlMarshalStream (c : Codec) (vs : List Val) : R Lines :=
  let rec go (first : Bool) : List Val → R Lines
    | [] => pure []
    | v :: rest => do
      let body ← if v.isNull then pure [] else c.enc v
      let tail ← go false rest
      pure ((if first then [] else ["---"]) ++ body ++ tail)
  go true vs

/-- toml.go:tomlUnmarshalStream -/
def tomlUnmarshalStream (c : Codec) (text : Lines) : R (List Val) :=
  (splitAt sepToml text).mapM c.dec

/-- json.go:jsonMarshalStream (compact): one encoded value per line -/
def jsonMarshalStream (c : Codec) (vs : List Val) : R Lines := do
  let parts ← vs.mapM c.enc
  pure parts.flatten

/-- json.go:jsonUnmarshalStream for the compact writer's output: one value per line -/
def jsonUnmarshalLines (c : Codec) (text : Lines) : R (List Val) :=
  text.mapM fun l => c.dec [l]

/-! ## normalize.go — what the decoders hand to bkl, and what bkl makes of it -/

/-- values as the third-party decoders produce them -/
inductive Raw where
  | null
  | bool (b : Bool)
  | goInt (i : Int)              -- yaml.go: strconv.ParseInt(_, 10, 32) succeeded
  | goInt64 (i : Int)            -- go-toml integers; yaml.go fallback ParseInt(_, 10, 64)
  | goFloat (repr : String)      -- float64, carried as its %v text
  | jnum (text : String) (floatRepr : String)   -- json.Number: literal text + %v of its float64 value
  | str (s : String)
  | list (xs : List Raw)
  | map (kvs : List (String × Raw))
  | listOfMaps (ms : List (List (String × Raw)))   -- go-toml array of tables: []map[string]any
  | mapAny                        -- map[any]any (non-string keys): rejected

def int64Min : Int := -9223372036854775808
def int64Max : Int := 9223372036854775807

/-- The grammar of `strconv.ParseInt(s, 10, _)`: an optional sign (`+` or `-`), then decimal digits.
    Underscores are rejected (Go accepts them only with base 0); Lean's `String.toInt?` accepts
    them and does not accept `+`, so it is guarded on both sides. -/
def goDecInt (s : String) : Option Int :=
  match s.toList with
  | '+' :: rest =>
    if rest.isEmpty || !(rest.all Char.isDigit) then none else (String.ofList rest).toInt?
  | cs => if cs.any (· == '_') then none else s.toInt?

/-- json.Number.Int64 = strconv.ParseInt(text, 10, 64) -/
def parseInt64 (s : String) : Option Int :=
  match goDecInt s with
  | some i => if int64Min ≤ i ∧ i ≤ int64Max then some i else none
  | none => none

mutual
/-- normalize.go:normalize -/
def normalize : Raw → R Val
  | .null => pure .null
  | .bool b => pure (.bool b)
  | .goInt i => pure (.int i)
  | .goInt64 i => pure (.int i)          -- int64 → int (64-bit platform): same value
  | .goFloat r => pure (.flt r)
  | .jnum text fr =>
    match parseInt64 text with
    | some i => pure (.int i)
    | none => if fr.isEmpty then throw Err.other else pure (.flt fr)   -- "" : json.Number.Float64 failed (out of range)
  | .str s => pure (.str s)
  | .list xs => do pure (.list (← normalizeList xs))
  | .map kvs => do pure (.map (fofList (← normalizeFields kvs)))
  | .listOfMaps ms => do pure (.list (← normalizeMaps ms))
  | .mapAny => throw Err.invalidType
def normalizeList : List Raw → R (List Val)
  | [] => pure []
  | x :: xs => do pure ((← normalize x) :: (← normalizeList xs))
def normalizeFields : List (String × Raw) → R Fields
  | [] => pure []
  | (k, v) :: rest => do pure ((k, ← normalize v) :: (← normalizeFields rest))
def normalizeMaps : List (List (String × Raw)) → R (List Val)
  | [] => pure []
  | m :: ms => do pure (.map (fofList (← normalizeFields m)) :: (← normalizeMaps ms))
end

/-! ## yaml.go:yamlTranslateNode — scalars, merge keys, aliases -/

inductive YNode where
  | scalar (tag : String) (value : String) (floatRepr : String)
  | seq (items : List YNode)
  | mapping (pairs : List (String × YNode))    -- key text, value node (in document order)
  | empty                                       -- Kind 0: an empty document

/-- strconv.ParseInt(text, 10, 32|64) on the decimal grammar Go accepts (optional sign, digits,
    underscores only with base prefix — i.e. none here) -/
def parseGoInt (s : String) (bits : Nat) : Option Int :=
  match goDecInt s with
  | some i => if -(2 ^ (bits - 1) : Int) ≤ i ∧ i < (2 ^ (bits - 1) : Int) then some i else none
  | none => none

def yamlScalar (tag value floatRepr : String) : R Raw :=
  match tag with
  | "!!bool" =>
    if ["1", "t", "T", "TRUE", "true", "True"].contains value then pure (.bool true)
    else if ["0", "f", "F", "FALSE", "false", "False"].contains value then pure (.bool false)
    else throw Err.other
  | "!!int" =>
    match parseGoInt value 32 with
    | some i => pure (.goInt i)
    | none =>
      match parseGoInt value 64 with
      | some i => pure (.goInt64 i)
      | none => throw Err.other
  | "!!float" => if floatRepr.isEmpty then throw Err.other else pure (.goFloat floatRepr)   -- "" : strconv.ParseFloat failed
  | "!!null" => pure .null
  | "!!str" => pure (.str value)
  | "!!timestamp" => pure (.str value)
  | _ => throw Err.invalidType

/-- yaml.go:yamlMerge into an (unordered) destination: `dst[k] = v` for every entry -/
def yamlMergeInto (dst : List (String × Raw)) (src : Raw) : R (List (String × Raw)) :=
  let put (d : List (String × Raw)) (kv : String × Raw) := d.filter (·.1 != kv.1) ++ [kv]
  match src with
  | .map kvs => pure (kvs.foldl put dst)
  | .list xs =>
    -- later mappings first, so that earlier ones win
    xs.reverse.foldlM (init := dst) fun d x =>
      match x with
      | .map kvs => pure (kvs.foldl put d)
      | _ => throw Err.invalidType
  | _ => throw Err.invalidType

mutual
def yamlTranslate : YNode → R Raw
  | .scalar tag v fr => yamlScalar tag v fr
  | .seq items => do pure (.list (← yamlTranslateList items))
  | .mapping pairs => do
    -- first every `<<` entry, then the local keys (which override)
    let merged ← yamlTranslateMerges pairs []
    let locals ← yamlTranslatePairs pairs
    let put (d : List (String × Raw)) (kv : String × Raw) := d.filter (·.1 != kv.1) ++ [kv]
    pure (.map (locals.foldl put merged))
  | .empty => pure .null
def yamlTranslateList : List YNode → R (List Raw)
  | [] => pure []
  | x :: xs => do pure ((← yamlTranslate x) :: (← yamlTranslateList xs))
def yamlTranslateMerges : List (String × YNode) → List (String × Raw) → R (List (String × Raw))
  | [], acc => pure acc
  | (k, v) :: rest, acc =>
    if k == "<<" then do
      let src ← yamlTranslate v
      let acc' ← yamlMergeInto acc src
      yamlTranslateMerges rest acc'
    else yamlTranslateMerges rest acc
def yamlTranslatePairs : List (String × YNode) → R (List (String × Raw))
  | [] => pure []
  | (k, v) :: rest =>
    if k == "<<" then yamlTranslatePairs rest
    else do pure ((k, ← yamlTranslate v) :: (← yamlTranslatePairs rest))
end

end Bkl
