/-
  Bkl.Get — get.go: resolving a reference (`$merge`, `$replace`, interpolation) to a value.

  The only third-party behaviour here is `yaml.Unmarshal` of the reference *string*.
  `parseRef` models it on an explicit, decidable sub-language (plain scalars that YAML
  resolves to strings, and flow lists of those); every other string is reported as
  *unmodelled* (`Err.other` is never used for that: the driver checks `refModelled`).
-/
import Bkl.Merge
namespace Bkl

def isRefChar (c : Char) : Bool :=
  c.isAlphanum || c == '_' || c == '.' || c == '$' || c == '-' || c == ':' || c == '/'

def reservedWords : List String :=
  ["true","false","null","yes","no","on","off","y","n"]

/-- A plain YAML scalar that yaml.v3 resolves to the identical string. -/
def isPlainRef (s : String) : Bool :=
  match s.toList with
  | [] => false
  | c :: cs =>
    (c.isAlpha || c == '_' || c == '$') &&
    cs.all isRefChar &&
    (c :: cs).getLast? != some ':' &&
    !(reservedWords.contains s.toLower)

/-- items of a flow list `[a, b]` -/
def flowItems (s : String) : Option (List String) :=
  match s.toList with
  | '[' :: rest =>
    match rest.reverse with
    | ']' :: innerRev =>
      let inner := String.ofList innerRev.reverse
      let items := (inner.splitOn ",").map (fun x => (x.trimAscii).toString)
      if items.all (fun x => isPlainRef x && !x.contains ':') then some items else none
    | _ => none
  | _ => none

/-- `yaml.Unmarshal(path)` on the modelled sub-language. `none` = outside the model. -/
def parseRef (s : String) : Option Val :=
  if isPlainRef s then some (.str s)
  else match flowItems s with
    | some items => some (.list (items.map .str))
    | none => none

/-- get.go:getPath -/
def getPath (obj : Val) : List String → R Val
  | [] => pure obj
  | p :: ps =>
    match obj with
    | .map kvs =>
      match fget kvs p with
      | some v => getPath v ps
      | none => throw Err.refNotFound
    | _ => throw Err.refNotFound

/-- get.go:getCrossDoc — exactly one document of the stream matches. -/
def getCrossDoc (docs : List Val) (pat : Val) : R Val :=
  match docs.filter (fun d => matchV d pat) with
  | [] => throw Err.noMatchFound
  | [d] => pure d
  | _ => throw Err.multiMatch

/-- get.go:getPathFromList -/
def getPathFromList (obj : Val) (docs : List Val) (path : List Val) : R Val :=
  match path with
  | .map p :: rest => do
    let d ← getCrossDoc docs (.map p)
    getPath d (← toStringList rest)
  | .list p :: rest => do
    let d ← getCrossDoc docs (.list p)
    getPath d (← toStringList rest)
  | _ => do getPath obj (← toStringList path)

/-- get.go:getPathFromString.  `none` from `parseRef` is mapped to `Err.other`
    (the driver never compares such cases: see `refsModelled`). -/
def getPathFromString (obj : Val) (docs : List Val) (path : String) : R Val :=
  match parseRef path with
  | some (.str s) => getPath obj (s.splitOn ".")
  | some (.list l) => getPathFromList obj docs l
  | _ => throw Err.unmodelled

/-- get.go:get (with getCross inlined).  `root` is the data of the referencing document. -/
def get (root : Val) (docs : List Val) (m : Val) : R Val :=
  match m with
  | .str s => getPathFromString root docs s
  | .list l => getPathFromList root docs l
  | .map conf =>
    match fget conf "$match" with
    | none => throw Err.missingMatch
    | some pat => do
      let d ← getCrossDoc docs pat
      match h : fget conf "$path" with
      | some path => get d docs path
      | none => pure d
  | _ => throw Err.invalidType
termination_by sizeOf m
decreasing_by
  have := fget_sizeOf h
  simp; omega

end Bkl
