/-
  Bkl.Encode — the `$encode` transforms of process2.go that need no third-party codec,
  Go's `%v` formatter, and *independent* implementations of base64 (RFC 4648) and
  SHA-256 (FIPS 180-4) against which Go's encoding/base64 and crypto/sha256 are compared.
-/
import Bkl.Get
namespace Bkl

/-! ## Go `fmt.Sprintf("%v", x)` on model values -/

mutual
def fmtV : Val → String
  | .null => "<nil>"
  | .bool b => if b then "true" else "false"
  | .int i => toString i
  | .flt r => r
  | .str s => s
  | .list xs => "[" ++ " ".intercalate (fmtList xs) ++ "]"
  | .map kvs => "map[" ++ " ".intercalate (fmtFields kvs) ++ "]"
def fmtList : List Val → List String
  | [] => []
  | x :: xs => fmtV x :: fmtList xs
def fmtFields : Fields → List String
  | [] => []
  | (k, v) :: rest => (k ++ ":" ++ fmtV v) :: fmtFields rest
end

/-! ## base64 (RFC 4648 §4, with padding) -/

def b64Alphabet : Array Char :=
  "ABCDEFGHIJKLMNOPQRSTUVWXYZabcdefghijklmnopqrstuvwxyz0123456789+/".toList.toArray

def b64Char (n : Nat) : Char := b64Alphabet.getD (n % 64) 'A'

def b64EncodeBytes : List UInt8 → List Char
  | a :: b :: c :: rest =>
    let n := a.toNat * 65536 + b.toNat * 256 + c.toNat
    b64Char (n / 262144) :: b64Char (n / 4096) :: b64Char (n / 64) :: b64Char n :: b64EncodeBytes rest
  | [a, b] =>
    let n := a.toNat * 65536 + b.toNat * 256
    [b64Char (n / 262144), b64Char (n / 4096), b64Char (n / 64), '=']
  | [a] =>
    let n := a.toNat * 65536
    [b64Char (n / 262144), b64Char (n / 4096), '=', '=']
  | [] => []

def base64 (s : String) : String := String.ofList (b64EncodeBytes s.toUTF8.toList)

/-! ## SHA-256 (FIPS 180-4) -/

def sha256K : Array UInt32 := #[
  0x428a2f98, 0x71374491, 0xb5c0fbcf, 0xe9b5dba5, 0x3956c25b, 0x59f111f1, 0x923f82a4, 0xab1c5ed5,
  0xd807aa98, 0x12835b01, 0x243185be, 0x550c7dc3, 0x72be5d74, 0x80deb1fe, 0x9bdc06a7, 0xc19bf174,
  0xe49b69c1, 0xefbe4786, 0x0fc19dc6, 0x240ca1cc, 0x2de92c6f, 0x4a7484aa, 0x5cb0a9dc, 0x76f988da,
  0x983e5152, 0xa831c66d, 0xb00327c8, 0xbf597fc7, 0xc6e00bf3, 0xd5a79147, 0x06ca6351, 0x14292967,
  0x27b70a85, 0x2e1b2138, 0x4d2c6dfc, 0x53380d13, 0x650a7354, 0x766a0abb, 0x81c2c92e, 0x92722c85,
  0xa2bfe8a1, 0xa81a664b, 0xc24b8b70, 0xc76c51a3, 0xd192e819, 0xd6990624, 0xf40e3585, 0x106aa070,
  0x19a4c116, 0x1e376c08, 0x2748774c, 0x34b0bcb5, 0x391c0cb3, 0x4ed8aa4a, 0x5b9cca4f, 0x682e6ff3,
  0x748f82ee, 0x78a5636f, 0x84c87814, 0x8cc70208, 0x90befffa, 0xa4506ceb, 0xbef9a3f7, 0xc67178f2]

def rotr (x : UInt32) (n : UInt32) : UInt32 := (x >>> n) ||| (x <<< (32 - n))

def sha256Pad (msg : List UInt8) : List UInt8 :=
  let l := msg.length
  let zeros := (119 - (l % 64)) % 64   -- so that (l + 1 + zeros + 8) % 64 = 0
  let bits := l * 8
  let lenBytes := (List.range 8).map fun i => UInt8.ofNat ((bits / 2 ^ (8 * (7 - i))) % 256)
  msg ++ [0x80] ++ List.replicate zeros 0 ++ lenBytes

def beWord (a b c d : UInt8) : UInt32 :=
  (a.toUInt32 <<< 24) ||| (b.toUInt32 <<< 16) ||| (c.toUInt32 <<< 8) ||| d.toUInt32

def bytesToWords : List UInt8 → List UInt32
  | a :: b :: c :: d :: rest => beWord a b c d :: bytesToWords rest
  | _ => []

def sha256Schedule (block : Array UInt32) : Array UInt32 := Id.run do
  let mut w := block
  for i in [16:64] do
    let w15 := w.getD (i - 15) 0
    let w2 := w.getD (i - 2) 0
    let s0 := rotr w15 7 ^^^ rotr w15 18 ^^^ (w15 >>> 3)
    let s1 := rotr w2 17 ^^^ rotr w2 19 ^^^ (w2 >>> 10)
    w := w.push (w.getD (i - 16) 0 + s0 + w.getD (i - 7) 0 + s1)
  return w

def sha256Compress (h : Array UInt32) (block : Array UInt32) : Array UInt32 := Id.run do
  let w := sha256Schedule block
  let mut a := h.getD 0 0
  let mut b := h.getD 1 0
  let mut c := h.getD 2 0
  let mut d := h.getD 3 0
  let mut e := h.getD 4 0
  let mut f := h.getD 5 0
  let mut g := h.getD 6 0
  let mut hh := h.getD 7 0
  for i in [0:64] do
    let s1 := rotr e 6 ^^^ rotr e 11 ^^^ rotr e 25
    let ch := (e &&& f) ^^^ ((~~~ e) &&& g)
    let t1 := hh + s1 + ch + sha256K.getD i 0 + w.getD i 0
    let s0 := rotr a 2 ^^^ rotr a 13 ^^^ rotr a 22
    let maj := (a &&& b) ^^^ (a &&& c) ^^^ (b &&& c)
    let t2 := s0 + maj
    hh := g; g := f; f := e; e := d + t1
    d := c; c := b; b := a; a := t1 + t2
  return #[h.getD 0 0 + a, h.getD 1 0 + b, h.getD 2 0 + c, h.getD 3 0 + d,
           h.getD 4 0 + e, h.getD 5 0 + f, h.getD 6 0 + g, h.getD 7 0 + hh]

def sha256Init : Array UInt32 :=
  #[0x6a09e667, 0xbb67ae85, 0x3c6ef372, 0xa54ff53a, 0x510e527f, 0x9b05688c, 0x1f83d9ab, 0x5be0cd19]

def chunks16 (ws : List UInt32) (fuel : Nat) : List (Array UInt32) :=
  match fuel with
  | 0 => []
  | fuel + 1 => if ws.isEmpty then [] else (ws.take 16).toArray :: chunks16 (ws.drop 16) fuel

def hexDigit (n : Nat) : Char := "0123456789abcdef".toList.getD (n % 16) '0'

def hexWord (w : UInt32) : List Char :=
  (List.range 8).map fun i => hexDigit (w.toNat / 16 ^ (7 - i))

def sha256Hex (s : String) : String :=
  let ws := bytesToWords (sha256Pad s.toUTF8.toList)
  let h := (chunks16 ws (ws.length + 1)).foldl sha256Compress sha256Init
  String.ofList (h.toList.flatMap hexWord)

/-! ## list / map transforms -/

/-- util.go:toStringListPermissive -/
def toStringListPermissive (v : Val) : R (List String) :=
  match v with
  | .list xs => pure (xs.map fmtV)
  | _ => throw Err.invalidType

/-- process2.go:process2ToListValue -/
def toListValue (k delim : String) (v : Val) : Val :=
  if v == .str "" then .str k else .str (k ++ delim ++ fmtV v)

/-- process2.go:process2ToListMap -/
def toListMap (obj : Val) (delim : String) : R (List Val) :=
  match obj with
  | .map kvs => pure <| kvs.flatMap fun (k, v) =>
      match v with
      | .list items => items.map (toListValue k delim)
      | _ => [toListValue k delim v]
  | _ => throw Err.invalidType

/-- process2.go:process2ToListList -/
def toListList (xs : List Val) (delim : String) : R (List Val) := do
  let parts ← xs.mapM (fun x => toListMap x delim)
  pure parts.flatten

/-- the `flatten` transform -/
def flattenList (xs : List Val) : List Val :=
  xs.flatMap fun x => match x with
    | .list inner => inner
    | other => [other]

/-- Which text formats need a third-party codec (outside the model). -/
def isCodecFormat (cmd : String) : Bool :=
  cmd == "json" || cmd == "jsonl" || cmd == "json-pretty" || cmd == "toml" || cmd == "yaml" || cmd == "yml"

/-- Result of one transform: a value, an error, or "needs a codec". -/
inductive EncRes where
  | ok (v : Val)
  | err (e : Err)
  | codec (fmt : String) (v : Val)

/-- process2.go:process2EncodeString -/
def encodeString (obj : Val) (spec : String) : EncRes :=
  let parts := spec.splitOn ":"
  let cmd := parts.headD ""
  let n := parts.length
  match cmd with
  | "base64" => if n != 1 then .err .invalidArguments else .ok (.str (base64 (fmtV obj)))
  | "flags" =>
    if n != 1 then .err .invalidArguments else
    -- tolist:= then prefix:--
    match (match obj with | .list xs => toListList xs "=" | o => toListMap o "=") with
    | .error e => .err e
    | .ok l => .ok (.list (l.map fun x => .str ("--" ++ fmtV x)))
  | "flatten" =>
    if n != 1 then .err .invalidArguments else
    match obj with
    | .list xs => .ok (.list (flattenList xs))
    | _ => .err .invalidType
  | "join" =>
    if n > 2 then .err .invalidArguments else
    match toStringListPermissive obj with
    | .error e => .err e
    | .ok strs => .ok (.str ((parts.getD 1 "").intercalate strs))
  | "prefix" =>
    if n != 2 then .err .invalidArguments else
    match toStringListPermissive obj with
    | .error e => .err e
    | .ok strs => .ok (.list (strs.map fun s => .str ((parts.getD 1 "") ++ s)))
  | "sha256" => if n != 1 then .err .invalidArguments else .ok (.str (sha256Hex (fmtV obj)))
  | "tolist" =>
    if n != 2 then .err .invalidArguments else
    match (match obj with | .list xs => toListList xs (parts.getD 1 "") | o => toListMap o (parts.getD 1 "")) with
    | .error e => .err e
    | .ok l => .ok (.list l)
  | "values" =>
    if n != 1 then .err .invalidArguments else
    match obj with
    | .map kvs => .ok (.list (kvs.map (·.2)))
    | _ => .err .invalidType
  | _ =>
    if n != 1 then .err .invalidArguments
    else if isCodecFormat cmd then .codec cmd obj
    else .err .unknownFormat

mutual
/-- process2.go:process2EncodeAny — a string, or a list applied left to right. -/
def encodeAny (obj : Val) : Val → EncRes
  | .str s => encodeString obj s
  | .list specs => encodeList obj specs
  | _ => .err .invalidType
def encodeList (obj : Val) : List Val → EncRes
  | [] => .ok obj
  | sp :: rest =>
    match encodeAny obj sp with
    | .ok v => encodeList v rest
    | e => e
end

end Bkl
