/-
  Bkl.Val — the value domain of the bkl model.

  Mirrors the Go values that flow through package bkl after `normalize`:
  nil, bool, int, float64, string, []any, map[string]any.

  * `map` is an association list.  Well-formed (`WF`) maps are strictly sorted by key
    (Lean's `String.<` is code-point order = Go's byte order on UTF-8 strings), so
    structural equality is semantic equality.
  * `flt` carries Go's `%v` rendering of the float64 (strconv 'g', -1, 64).  Only
    equality and string formatting are ever needed.  NaN and -0 are outside the model.
  Core Lean only: this file is compiled into the `bklmodel` executable.
-/
namespace Bkl

inductive Val where
  | null
  | bool (b : Bool)
  | int (i : Int)
  | flt (r : String)
  | str (s : String)
  | list (xs : List Val)
  | map (kvs : List (String × Val))
  deriving Inhabited, Repr

abbrev Fields := List (String × Val)

/-- Error classes = the exported sentinel errors of package bkl (error.go). -/
inductive Err where
  | circularRef | conflictingParent | extraEntries | extraKeys | invalidArguments
  | invalidDirective | invalidIndex | invalidFilename | invalidType | invalidParent
  | invalidRepeat | marshal | refNotFound | missingEnv | missingFile | missingMatch
  | multiMatch | noMatchFound | noCloneFound | outputFile | requiredField
  | unknownFormat | unmarshal | uselessOverride | variableNotFound
  | other
  /-- not an error of bkl: the evaluation left the modelled sub-language (third-party codec,
      reference string outside `parseRef`) -/
  | unmodelled
  deriving DecidableEq, Repr, Inhabited

def Err.name : Err → String
  | .circularRef => "circularRef" | .conflictingParent => "conflictingParent"
  | .extraEntries => "extraEntries" | .extraKeys => "extraKeys"
  | .invalidArguments => "invalidArguments" | .invalidDirective => "invalidDirective"
  | .invalidIndex => "invalidIndex" | .invalidFilename => "invalidFilename"
  | .invalidType => "invalidType" | .invalidParent => "invalidParent"
  | .invalidRepeat => "invalidRepeat" | .marshal => "marshal"
  | .refNotFound => "refNotFound" | .missingEnv => "missingEnv"
  | .missingFile => "missingFile" | .missingMatch => "missingMatch"
  | .multiMatch => "multiMatch" | .noMatchFound => "noMatchFound"
  | .noCloneFound => "noCloneFound" | .outputFile => "outputFile"
  | .requiredField => "requiredField" | .unknownFormat => "unknownFormat"
  | .unmarshal => "unmarshal" | .uselessOverride => "uselessOverride"
  | .variableNotFound => "variableNotFound" | .other => "other"
  | .unmodelled => "unmodelled"

abbrev R := Except Err

/-! ## Decidable equality (nested inductive: written by hand) -/

mutual
def Val.beq : Val → Val → Bool
  | .null, .null => true
  | .bool a, .bool b => a == b
  | .int a, .int b => a == b
  | .flt a, .flt b => a == b
  | .str a, .str b => a == b
  | .list a, .list b => Val.beqList a b
  | .map a, .map b => Val.beqFields a b
  | _, _ => false
def Val.beqList : List Val → List Val → Bool
  | [], [] => true
  | a :: as, b :: bs => Val.beq a b && Val.beqList as bs
  | _, _ => false
def Val.beqFields : Fields → Fields → Bool
  | [], [] => true
  | (ka, a) :: as, (kb, b) :: bs => ka == kb && Val.beq a b && Val.beqFields as bs
  | _, _ => false
end

mutual
theorem Val.beq_eq : ∀ (a b : Val), Val.beq a b = true → a = b
  | .null, .null, _ => rfl
  | .bool a, .bool b, h => by simp [Val.beq] at h; simp [h]
  | .int a, .int b, h => by simp [Val.beq] at h; simp [h]
  | .flt a, .flt b, h => by simp [Val.beq] at h; simp [h]
  | .str a, .str b, h => by simp [Val.beq] at h; simp [h]
  | .list a, .list b, h => by
      simp only [Val.beq] at h; rw [Val.beqList_eq a b h]
  | .map a, .map b, h => by
      simp only [Val.beq] at h; rw [Val.beqFields_eq a b h]
  | .null, .bool _, h | .null, .int _, h | .null, .flt _, h | .null, .str _, h
  | .null, .list _, h | .null, .map _, h => by simp [Val.beq] at h
  | .bool _, .null, h | .bool _, .int _, h | .bool _, .flt _, h | .bool _, .str _, h
  | .bool _, .list _, h | .bool _, .map _, h => by simp [Val.beq] at h
  | .int _, .null, h | .int _, .bool _, h | .int _, .flt _, h | .int _, .str _, h
  | .int _, .list _, h | .int _, .map _, h => by simp [Val.beq] at h
  | .flt _, .null, h | .flt _, .bool _, h | .flt _, .int _, h | .flt _, .str _, h
  | .flt _, .list _, h | .flt _, .map _, h => by simp [Val.beq] at h
  | .str _, .null, h | .str _, .bool _, h | .str _, .int _, h | .str _, .flt _, h
  | .str _, .list _, h | .str _, .map _, h => by simp [Val.beq] at h
  | .list _, .null, h | .list _, .bool _, h | .list _, .int _, h | .list _, .flt _, h
  | .list _, .str _, h | .list _, .map _, h => by simp [Val.beq] at h
  | .map _, .null, h | .map _, .bool _, h | .map _, .int _, h | .map _, .flt _, h
  | .map _, .str _, h | .map _, .list _, h => by simp [Val.beq] at h
theorem Val.beqList_eq : ∀ (a b : List Val), Val.beqList a b = true → a = b
  | [], [], _ => rfl
  | a :: as, b :: bs, h => by
      simp only [Val.beqList, Bool.and_eq_true] at h
      rw [Val.beq_eq a b h.1, Val.beqList_eq as bs h.2]
  | [], _ :: _, h | _ :: _, [], h => by simp [Val.beqList] at h
theorem Val.beqFields_eq : ∀ (a b : Fields), Val.beqFields a b = true → a = b
  | [], [], _ => rfl
  | (ka, a) :: as, (kb, b) :: bs, h => by
      simp only [Val.beqFields, Bool.and_eq_true, beq_iff_eq] at h
      rw [h.1.1, Val.beq_eq a b h.1.2, Val.beqFields_eq as bs h.2]
  | [], _ :: _, h | _ :: _, [], h => by simp [Val.beqFields] at h
end

mutual
theorem Val.beq_refl : ∀ (a : Val), Val.beq a a = true
  | .null => rfl
  | .bool _ | .int _ | .flt _ | .str _ => by simp [Val.beq]
  | .list a => by simp only [Val.beq]; exact Val.beqList_refl a
  | .map a => by simp only [Val.beq]; exact Val.beqFields_refl a
theorem Val.beqList_refl : ∀ (a : List Val), Val.beqList a a = true
  | [] => rfl
  | a :: as => by simp [Val.beqList, Val.beq_refl a, Val.beqList_refl as]
theorem Val.beqFields_refl : ∀ (a : Fields), Val.beqFields a a = true
  | [] => rfl
  | (k, a) :: as => by simp [Val.beqFields, Val.beq_refl a, Val.beqFields_refl as]
end

instance : BEq Val := ⟨Val.beq⟩

instance : LawfulBEq Val where
  eq_of_beq {a b} h := Val.beq_eq a b h
  rfl {a} := Val.beq_refl a

instance : DecidableEq Val := fun a b =>
  if h : Val.beq a b = true then isTrue (Val.beq_eq a b h)
  else isFalse (fun e => h (e ▸ Val.beq_refl a))

/-! ## Shape predicates -/

def Val.isMap : Val → Bool | .map _ => true | _ => false
def Val.isList : Val → Bool | .list _ => true | _ => false
def Val.isNull : Val → Bool | .null => true | _ => false
def Val.isStr : Val → Bool | .str _ => true | _ => false
/-- Go's `toString`: the string, or "" for anything else. -/
def Val.toStr : Val → String | .str s => s | _ => ""

/-! ## Association-list operations (Go map operations) -/

def fget : Fields → String → Option Val
  | [], _ => none
  | (k, v) :: rest, key => if k = key then some v else fget rest key

def fhas (f : Fields) (k : String) : Bool := (fget f k).isSome

/-- Go `delete(m, k)`. -/
def fdel : Fields → String → Fields
  | [], _ => []
  | (k, v) :: rest, key => if k = key then fdel rest key else (k, v) :: fdel rest key

/-- Go `m[k] = v` on a key-sorted association list. -/
def fset : Fields → String → Val → Fields
  | [], key, val => [(key, val)]
  | (k, v) :: rest, key, val =>
    if key < k then (key, val) :: (k, v) :: rest
    else if key = k then (key, val) :: rest
    else (k, v) :: fset rest key val

def fkeys (f : Fields) : List String := f.map (·.1)

/-- Insert every entry of `src` into `dst` (Go: `for k,v := range src { dst[k] = v }`). -/
def fsetAll (dst : Fields) (src : Fields) : Fields :=
  src.foldl (fun acc kv => fset acc kv.1 kv.2) dst

/-- Build a sorted map from arbitrary entries (later entries win). -/
def fofList (l : Fields) : Fields := fsetAll [] l

/-! ## Well-formedness: keys strictly increasing, recursively -/

def Fields.SortedKeys : Fields → Prop
  | [] => True
  | [_] => True
  | (k1, _) :: (k2, v2) :: rest => k1 < k2 ∧ Fields.SortedKeys ((k2, v2) :: rest)

/-- boolean version used by the driver and by `decide` -/
def Fields.sortedKeysB : Fields → Bool
  | [] => true
  | [_] => true
  | (k1, _) :: (k2, v2) :: rest => decide (k1 < k2) && Fields.sortedKeysB ((k2, v2) :: rest)

mutual
def Val.wfB : Val → Bool
  | .list xs => Val.wfListB xs
  | .map kvs => Fields.sortedKeysB kvs && Val.wfFieldsB kvs
  | _ => true
def Val.wfListB : List Val → Bool
  | [] => true
  | x :: xs => Val.wfB x && Val.wfListB xs
def Val.wfFieldsB : Fields → Bool
  | [] => true
  | (_, v) :: rest => Val.wfB v && Val.wfFieldsB rest
end

/-- `WF v`: every map inside `v` has strictly increasing keys. -/
def Val.WF (v : Val) : Prop := v.wfB = true

-- Normalise an arbitrary tree into WF form (used by the driver on wire input).
mutual
def Val.norm : Val → Val
  | .list xs => .list (Val.normList xs)
  | .map kvs => .map (fofList (Val.normFields kvs))
  | v => v
def Val.normList : List Val → List Val
  | [] => []
  | x :: xs => Val.norm x :: Val.normList xs
def Val.normFields : Fields → Fields
  | [] => []
  | (k, v) :: rest => (k, Val.norm v) :: Val.normFields rest
end

end Bkl
