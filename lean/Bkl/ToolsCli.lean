/-
  Bkl.ToolsCli — cmd/bkld/main.go, cmd/bkli/main.go, cmd/bklr/main.go: what the three tools do
  around `diffDoc` / `intersect` / `required`: FileMatch, a fresh Parser per input, MergeFileLayers
  (inheritance applies to tool inputs too), "exactly one document per file", evaluation of both
  sides for bkld (Document.Process), and the choice of the output format.
-/
import Bkl.Files
import Bkl.Tools
namespace Bkl

structure ToolOpts where
  format : Option String := none       -- -f
  outPath : Option String := none      -- -o
  inputs : List String := []
  deriving Inhabited

structure ToolResult where
  format : String
  doc : Option Val        -- `none`: Go's nil document ("nothing to emit")
  deriving Inhabited

/-- `strings.TrimPrefix(filepath.Ext(path), ".")` -/
def extOfPath (o : String) : String := extOf ((splitPath o).getLastD "")

/-- formats.go:GetFormat -/
def checkFormat (f : String) : R String :=
  if supportedExts.contains f then pure f else throw Err.unknownFormat

/-- FileMatch + New + MergeFileLayers + "exactly 1 source document" (bkld: getOnlyDocument; the same
    steps are inlined in bkli and bklr) -/
def getOnlyDocument (fs : FS) (cwd : Comps) (path : String) : R (Val × String) := do
  let (real, f) ← fileMatch fs cwd path
  let st ← mergeFileLayers fs { root := [], cwd := cwd } PState.empty real
  match st.docs with
  | [d] => pure (d.2, f)
  | _ => throw Err.other

/-- `-f`, else the extension of `-o` (bkld, bkli: only if it has one), else the fallback -/
def toolFormat (opts : ToolOpts) (fallback : String) : String :=
  let f0 := opts.format.getD ""
  let f1 := if f0 == "" then (opts.outPath.map extOfPath).getD "" else f0
  if f1 == "" then fallback else f1

/-- `Document.Process([]*Document{doc})` must yield exactly one document -/
def processOnly (env : Vars) (data : Val) : R Val := do
  match ← processDoc [data] env data with
  | [d] => pure d
  | _ => throw Err.other

/-- cmd/bkld/main.go -/
def bkldRun (fs : FS) (cwd : Comps) (env : Vars) (opts : ToolOpts) : R ToolResult := do
  match opts.inputs with
  | [basePath, targetPath] =>
    let (base, f) ← getOnlyDocument fs cwd basePath
    let base' ← processOnly env base
    let (target, _) ← getOnlyDocument fs cwd targetPath
    let target' ← processOnly env target
    let fmt ← checkFormat (toolFormat opts f)
    pure { format := fmt, doc := diffDoc target' base' }
  | _ => throw Err.other

/-- cmd/bkli/main.go: merged (NOT evaluated) documents are intersected left to right -/
def bkliRun (fs : FS) (cwd : Comps) (opts : ToolOpts) : R ToolResult := do
  match opts.inputs with
  | [] => throw Err.other
  | [_] => throw Err.other        -- go-flags: at least 2 positional arguments
  | first :: _ =>
    let docs ← opts.inputs.mapM fun p => getOnlyDocument fs cwd p
    let (_, f) ← getOnlyDocument fs cwd first
    let fmt ← checkFormat (toolFormat opts f)
    let r := intersectAll (docs.map (·.1))
    pure { format := fmt, doc := if r.isNull then none else some r }

/-- cmd/bklr/main.go: `-o` replaces the input's format unconditionally (also by ""), `-f` after it -/
def bklrRun (fs : FS) (cwd : Comps) (opts : ToolOpts) : R ToolResult := do
  match opts.inputs with
  | [path] =>
    let (data, f) ← getOnlyDocument fs cwd path
    let f1 := match opts.outPath with | some o => extOfPath o | none => f
    let f2 := match opts.format with | some x => x | none => f1
    let fmt ← checkFormat f2
    pure { format := fmt, doc := required data }
  | _ => throw Err.other

end Bkl
