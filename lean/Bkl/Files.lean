/-
  Bkl.Files — file.go, filepath.go, the file half of parser.go, and the input loop of
  cmd/bkl/main.go, over an abstract file system.

  * Paths are lists of components of a *clean absolute* path (`/w/a.yaml` = ["w","a.yaml"]).
  * A file's content is the list of documents it decodes to (already normalised), or a
    decoding error: the three codecs are outside this module (see Bkl.Decode / Bkl.Stream).
  * `os.Root` is modelled as a component-wise walk that refuses `..` above the root, absolute
    symlink targets and relative symlinks that leave the root.  The probes for parent files
    (`Parser.stat`, `Parser.globFiles`) go through the same walk; `FileMatch` (the command
    line argument itself) and `filepath.EvalSymlinks` see the whole file system.
  * Go's `findFile` ranges over the format table in hash order; the model takes the table in
    sorted order.  The two agree whenever a layer name is provided by at most one file
    (`Unambiguous`), which is the property's hypothesis.
-/
import Bkl.Parser
set_option linter.unusedVariables false
namespace Bkl

abbrev Comps := List String

inductive FNode where
  | file (docs : R (List Val))
  | link (target : String)
  | dir
  deriving Inhabited

structure FS where
  entries : List (Comps × FNode)
  deriving Inhabited

def supportedExts : List String := ["json", "json-pretty", "jsonl", "toml", "yaml", "yml"]

/-! ## lexical path algebra (path/filepath: Clean, Join, Dir, Base, Rel) -/

def splitPath (p : String) : List String := (p.splitOn "/").filter (· != "")

def isAbsPath (p : String) : Bool := p.startsWith "/"

/-- filepath.Clean on components of an absolute path: `.` dropped, `..` pops (never above /) -/
def cleanComps (cs : List String) : Comps :=
  cs.foldl (init := []) fun acc c =>
    if c == "." || c == "" then acc
    else if c == ".." then acc.dropLast
    else acc ++ [c]

/-- filepath.Abs: absolute paths are cleaned, relative ones joined to the working directory -/
def absPath (cwd : Comps) (p : String) : Comps :=
  if isAbsPath p then cleanComps (splitPath p) else cleanComps (cwd ++ splitPath p)

def dirOf (p : Comps) : Comps := p.dropLast
def baseOf (p : Comps) : String := p.getLastD ""

/-- filepath.Ext / formats.go:ext — text after the last dot of the base name ("" if none) -/
def extOf (base : String) : String :=
  match (base.splitOn ".").reverse with
  | e :: _ :: _ => e
  | _ => ""

/-- base name without its extension (`strings.TrimSuffix(path, "."+ext)`) -/
def stemOf (base : String) : String :=
  match (base.splitOn ".").reverse with
  | _ :: r :: rest => ".".intercalate (r :: rest).reverse
  | _ => base

/-- filepath.Rel(root, abs) for clean absolute paths: `none` components mean `..` -/
def relTo (root abs : Comps) : List String :=
  let rec strip : Comps → Comps → List String
    | r :: rs, a :: as => if r == a then strip rs as else List.replicate (rs.length + 1) ".." ++ (a :: as)
    | [], as => as
    | rs, [] => List.replicate rs.length ".."
  strip root abs

/-! ## the file system -/

def FS.lstat (fs : FS) (p : Comps) : Option FNode :=
  if p.isEmpty then some .dir
  else (fs.entries.find? (·.1 == p)).map (·.2)

/-- filepath.EvalSymlinks: resolve every symlink on the way; `none` = missing or too many links -/
def FS.resolve (fs : FS) (fuel : Nat) (done : Comps) (todo : List String) : Option Comps :=
  match fuel with
  | 0 => none
  | fuel + 1 =>
    match todo with
    | [] => some done
    | c :: rest =>
      if c == "." || c == "" then fs.resolve fuel done rest
      else if c == ".." then fs.resolve fuel done.dropLast rest
      else
        let next := done ++ [c]
        match fs.lstat next with
        | none => none
        | some (.link t) =>
          if isAbsPath t then fs.resolve fuel [] (splitPath t ++ rest)
          else fs.resolve fuel done (splitPath t ++ rest)
        | some _ => fs.resolve fuel next rest

def linkFuel : Nat := 4096

def FS.evalSymlinks (fs : FS) (p : Comps) : Option Comps := fs.resolve linkFuel [] p

/-- os.Stat: does the path exist (following links)? -/
def FS.exists (fs : FS) (p : Comps) : Bool := (fs.evalSymlinks p).isSome

/-- os.Root follows at most this many symbolic links in one operation (`rootMaxSymlinks`,
    `__POSIX_SYMLOOP_MAX`); one more is `ELOOP`. -/
def rootMaxSymlinks : Nat := 8

/-- os.Root walk: open `rel` beneath `root`. Errors are reported as `missingFile`-class `other`.
    `links` counts the symbolic links followed so far. -/
def FS.rootWalk (fs : FS) (root : Comps) (fuel : Nat) (links : Nat) (cur : Comps) (todo : List String) : R Comps :=
  match fuel with
  | 0 => throw Err.other
  | fuel + 1 =>
    match todo with
    | [] => pure cur
    | c :: rest =>
      if c == "." || c == "" then fs.rootWalk root fuel links cur rest
      else if c == ".." then
        if cur.length ≤ root.length then throw Err.other     -- escapes the root
        else fs.rootWalk root fuel links cur.dropLast rest
      else
        let next := cur ++ [c]
        match fs.lstat next with
        | none => throw Err.other
        | some (.link t) =>
          if isAbsPath t then throw Err.other                -- absolute links are refused
          else if links ≥ rootMaxSymlinks then throw Err.other   -- ELOOP
          else fs.rootWalk root fuel (links + 1) cur (splitPath t ++ rest)
        | some _ => fs.rootWalk root fuel links next rest

/-- `p.root.Open(rel)` + ReadAll + UnmarshalStream: the documents of a file inside the root -/
def FS.rootOpen (fs : FS) (root : Comps) (rel : List String) : R (List Val) := do
  let real ← fs.rootWalk root linkFuel 0 root rel
  match fs.lstat real with
  | some (.file docs) => docs
  | _ => throw Err.other

/-- `p.root.OpenRoot(rel)`: a directory inside the root -/
def FS.rootOpenDir (fs : FS) (root : Comps) (rel : List String) : R Comps := do
  let real ← fs.rootWalk root linkFuel 0 root rel
  match fs.lstat real with
  | some .dir => pure real
  | _ => throw Err.other

/-- filepath.go:findFile with os.Stat (FileMatch) — the first supported extension for which
    `layer.ext` exists -/
def FS.findFile (fs : FS) (dir : Comps) (layer : String) : Option Comps :=
  (supportedExts.map fun e => dir ++ [layer ++ "." ++ e]).find? fs.exists

/-- what `p.root.Stat(rel)` says: a node, `ErrNotExist`, or any other error (a path that leaves
    the root, an absolute link, too many links) -/
inductive Probe where
  | found (real : Comps)
  | missing
  | refused
  deriving Inhabited, DecidableEq

/-- the os.Root walk again, keeping "does not exist" apart from "refused" -/
def FS.rootProbe (fs : FS) (root : Comps) (fuel : Nat) (links : Nat) (cur : Comps) (todo : List String) : Probe :=
  match fuel with
  | 0 => .refused
  | fuel + 1 =>
    match todo with
    | [] => .found cur
    | c :: rest =>
      if c == "." || c == "" then fs.rootProbe root fuel links cur rest
      else if c == ".." then
        if cur.length ≤ root.length then .refused
        else fs.rootProbe root fuel links cur.dropLast rest
      else
        let next := cur ++ [c]
        match fs.lstat next with
        | none => .missing
        | some (.link t) =>
          if isAbsPath t then .refused
          else if links ≥ rootMaxSymlinks then .refused
          else fs.rootProbe root fuel (links + 1) cur (splitPath t ++ rest)
        | some _ => fs.rootProbe root fuel links next rest

/-- parser.go:stat — `errors.Is(err, os.ErrNotExist)` is the only answer findFile skips -/
def FS.rootExists (fs : FS) (root : Comps) (rel : List String) : Bool :=
  match fs.rootProbe root linkFuel 0 root rel with
  | .missing => false
  | _ => true

/-- one-component glob match with `*` and `?` (no classes) -/
def globMatch : List Char → List Char → Nat → Bool
  | [], [], _ => true
  | _, _, 0 => false
  | '*' :: ps, s, fuel + 1 =>
    globMatch ps s fuel || (match s with | [] => false | _ :: s' => globMatch ('*' :: ps) s' fuel)
  | '?' :: ps, _ :: s, fuel + 1 => globMatch ps s fuel
  | p :: ps, c :: s, fuel + 1 => p == c && globMatch ps s fuel
  | _, _, _ => false

def countDots (s : String) : Nat := (s.toList.filter (· == '.')).length

def hasMeta (s : String) : Bool := s.toList.any fun c => c == '*' || c == '?' || c == '[' || c == '\\'

/-- `fs.ReadDir(root.FS(), rel)`: the names in a directory inside the root, sorted; nothing when
    the walk is refused or does not end at a directory (fs.Glob ignores I/O errors) -/
def FS.rootReadDir (fs : FS) (root : Comps) (rel : List String) : List String :=
  match fs.rootWalk root linkFuel 0 root rel with
  | .error _ => []
  | .ok real =>
    match fs.lstat real with
    | some .dir =>
      let names := (fs.entries.filter (fun e => e.1.dropLast == real && !e.1.isEmpty)).map (fun e => baseOf e.1)
      (names.toArray.qsort (· < ·)).toList
    | _ => []

/-- io/fs.Glob over the root's file system, pattern given as REVERSED root-relative components
    (last component first): the directory part is expanded first when it holds a wildcard,
    then each directory is listed and its names matched against the last component. -/
def FS.globRev (fs : FS) (root : Comps) : List String → List (List String)
  | [] => [[]]
  | file :: dirRev =>
    let dirs := if dirRev.any hasMeta then fs.globRev root dirRev else [dirRev.reverse]
    dirs.flatMap fun d =>
      ((fs.rootReadDir root d).filter fun n =>
        globMatch file.toList n.toList (file.length + n.length + 1)).map fun n => d ++ [n]

/-- filepath.go:Parser.globFiles — `target.*` expanded beneath the root: same number of dots
    as the pattern, supported extension; a pattern that leaves the root matches nothing -/
def FS.globFiles (fs : FS) (root : Comps) (target : Comps) : List Comps :=
  let pat := relTo root (dirOf target ++ [baseOf target ++ ".*"])
  if pat.any (· == "..") then []
  else
    let patDots := (pat.map countDots).sum
    ((fs.globRev root pat.reverse).filter fun m =>
      (m.map countDots).sum == patDots && supportedExts.contains (extOf (m.getLastD ""))).map (root ++ ·)

/-! ## loading a file and its parents (file.go) -/

structure LFile where
  id : String
  path : Comps          -- as given (absolute, clean)
  docs : List Doc
  deriving Inhabited

def pathStr (p : Comps) : String := "/" ++ "/".intercalate p

/-- what `$parent` values contribute (file.go:parentsFromDirective) -/
inductive ParentDir where
  | names (ns : List String)
  | noParent
  | absent

def parentDirective (data : Val) : R ParentDir :=
  match data with
  | .map kvs =>
    match fget kvs "$parent" with
    | none => pure .absent
    | some (.str s) => pure (.names [s])
    | some (.list l) =>
      match toStringList l with
      | .ok ns => pure (.names ns)
      | .error _ => throw Err.invalidParent
    | some (.bool b) => if b then throw Err.invalidParent else pure .noParent
    | some .null => pure .noParent
    | some _ => pure (.names [])      -- other types fall through the Go switch silently
  | _ => pure .absent

def stripParent (data : Val) : Val :=
  match data with
  | .map kvs => if fhas kvs "$parent" then .map (fdel kvs "$parent") else data
  | _ => data

structure RootCfg where
  root : Comps
  cwd : Comps
  deriving Inhabited

/-- file.go:loadFile (documents get ids `file|docN`; parents are attached by the caller) -/
def loadFile (fs : FS) (cfg : RootCfg) (path : Comps) (fileId : String) : R (List Val) := do
  if !supportedExts.contains (extOf (baseOf path)) then throw Err.unknownFormat
  fs.rootOpen cfg.root (relTo cfg.root path)

/-- file.go:parents — directive, else symlink, else filename -/
def fileParents (fs : FS) (cfg : RootCfg) (path : Comps) (docs : List Val) : R (List Comps) := do
  let dirs ← docs.mapM parentDirective
  let names := dirs.flatMap fun d => match d with | .names ns => ns | _ => []
  let noParent := dirs.any fun d => match d with | .noParent => true | _ => false
  let fromName (p : Comps) : R (List Comps) :=
    let parts := (baseOf p).splitOn "."
    if parts.length < 2 then throw Err.invalidFilename
    else if parts.length == 2 then pure []
    else
      let layer := ".".intercalate (parts.take (parts.length - 2))
      match (supportedExts.map fun e => dirOf p ++ [layer ++ "." ++ e]).find?
          (fun c => fs.rootExists cfg.root (relTo cfg.root c)) with
      | some f => pure [f]
      | none => throw Err.missingFile
  if noParent then
    if !names.isEmpty then throw Err.conflictingParent else pure []
  else if !names.isEmpty then
    names.foldlM (init := []) fun acc n => do
      -- filepath.Join(filepath.Dir(f.path), n): a leading "/" in n does not make it absolute
      let target := cleanComps (dirOf path ++ splitPath n)
      let ms := fs.globFiles cfg.root target
      if ms.isEmpty then throw Err.missingFile else pure (acc ++ ms)
  else
    match fs.evalSymlinks path with
    | none => throw Err.other
    | some dest => fromName dest

/-- file.go:loadFileAndParents — parents first, depth first; `chain` = the paths of the
    children on the way down (cycle check) -/
def loadFileAndParents (fs : FS) (cfg : RootCfg) (fuel : Nat) (path : Comps) (childId : Option String)
    (childDocIds : List String) (chain : List Comps) : R (List LFile × List String) :=
  match fuel with
  | 0 => throw Err.circularRef
  | fuel + 1 => do
    if chain.contains path then throw Err.circularRef
    let fid := match childId with
      | some c => c ++ "|" ++ pathStr path
      | none => pathStr path
    let raw ← loadFile fs cfg path fid
    let docIds := (List.range raw.length).map fun i => fid ++ "|doc" ++ toString i
    let parents ← fileParents fs cfg path raw
    let docs := raw.map stripParent
    let mut files : List LFile := []
    for p in parents do
      let (fsub, _) ← loadFileAndParents fs cfg fuel p (some fid) docIds (path :: chain)
      files := files ++ fsub
    -- this file's documents: their Parents are the documents of every direct parent file
    let parentDocIds := files.filter (fun f => parents.any fun p => f.id == fid ++ "|" ++ pathStr p)
      |>.flatMap (fun f => f.docs.map (·.id))
    let myDocs : List Doc := (docs.zip docIds).map fun (d, i) =>
      ({ id := i, parents := parentDocIds, data := d } : Doc)
    let mine : LFile := { id := fid, path := path, docs := myDocs }
    pure (files ++ [mine], docIds)

def loadFuel : Nat := 64

/-- parser.go:mergeFile over a list of loaded files -/
def mergeFiles (st : PState) (files : List LFile) : R PState :=
  files.foldlM (init := st) fun st f => f.docs.foldlM mergeDocument st

/-- parser.go:MergeFileLayers -/
def mergeFileLayers (fs : FS) (cfg : RootCfg) (st : PState) (path : Comps) : R PState := do
  let (files, _) ← loadFileAndParents fs cfg loadFuel path none [] []
  mergeFiles st files

/-- parser.go:MergeFile (`bkl -P`): the file alone, `$parent` stripped -/
def mergeFileAlone (fs : FS) (cfg : RootCfg) (st : PState) (path : Comps) : R PState := do
  let raw ← loadFile fs cfg path (pathStr path)
  let fid := pathStr path
  let docs := (raw.map stripParent).zipIdx.map fun (d, i) =>
    ({ id := fid ++ "|doc" ++ toString i, parents := [], data := d } : Doc)
  docs.foldlM mergeDocument st

/-- filepath.go:FileMatch — (real path, requested format) -/
def fileMatch (fs : FS) (cwd : Comps) (arg : String) : R (Comps × String) := do
  let p := absPath cwd arg
  let f := extOf (baseOf p)
  if !supportedExts.contains f then throw Err.invalidType
  match fs.findFile (dirOf p) (stemOf (baseOf p)) with
  | some real => pure (real, f)
  | none => throw Err.missingFile

/-- parser.go:SetRoot -/
def setRoot (fs : FS) (cfg : RootCfg) (path : String) : R RootCfg := do
  let abs := absPath cfg.cwd path
  let real ← fs.rootOpenDir cfg.root (relTo cfg.root abs)
  pure { cfg with root := cleanComps (cfg.root ++ relTo cfg.root abs) }

/-! ## cmd/bkl/main.go: option handling and the input loop -/

structure CliOpts where
  format : Option String := none       -- -f
  outPath : Option String := none      -- -o
  rootPath : Option String := none     -- -r
  skipParent : Bool := false           -- -P
  inputs : List String := []
  deriving Inhabited

/-- the format bkl writes: -f, else (no -o) the first input's extension, else -o's extension -/
def chooseFormat (opts : CliOpts) (firstInputFmt : String) : String :=
  match opts.format with
  | some f => f
  | none =>
    match opts.outPath with
    | none => firstInputFmt
    | some o => extOf ((splitPath o).getLastD "")

structure CliResult where
  format : String
  docs : List Val          -- OutputDocuments
  merged : List Val        -- Documents()
  loadOrder : List String  -- document ids in merge order
  deriving Inhabited

def cliRun (fs : FS) (cwd : Comps) (env : Vars) (opts : CliOpts) : R CliResult := do
  let mut cfg : RootCfg := { root := [], cwd := cwd }
  if let some r := opts.rootPath then
    cfg ← setRoot fs cfg r
  let mut st := PState.empty
  let mut fmt : Option String := none
  for inp in opts.inputs do
    let (real, f) ← fileMatch fs cwd inp
    if fmt.isNone then fmt := some f
    st ← if opts.skipParent then mergeFileAlone fs cfg st real else mergeFileLayers fs cfg st real
  let format := chooseFormat opts (fmt.getD "")
  let format := if format == "" then "json-pretty" else format
  if !supportedExts.contains format then throw Err.unknownFormat
  let outs ← outputDocuments (st.docs.map (·.2)) env
  pure { format := format, docs := outs, merged := st.docs.map (·.2), loadOrder := st.known.map (·.1) }

/-! ## wrapper/wrapper.go -/

inductive WArg where
  | verbatim (s : String)
  | evaluated (format : String) (docs : List Val)

/-- argv rewriting: an argument that FileMatch resolves is replaced by its evaluation in the
    named extension's format; any failing evaluation aborts (the wrapped program is not run) -/
def wrapArgs (fs : FS) (cwd : Comps) (env : Vars) (args : List String) : R (List WArg) :=
  args.mapM fun a =>
    match fileMatch fs cwd a with
    | .error _ => pure (WArg.verbatim a)
    | .ok (real, f) => do
      let st ← mergeFileLayers fs { root := [], cwd := cwd } PState.empty real
      let outs ← outputDocuments (st.docs.map (·.2)) env
      pure (WArg.evaluated f outs)

/-- cmd/bklb/main.go: the wrapped program's name is the invoked name minus one trailing `b` -/
def wrappedName (argv0base : String) : Option String :=
  match argv0base.toList.reverse with
  | 'b' :: rest => some (String.ofList rest.reverse)
  | _ => none

end Bkl
