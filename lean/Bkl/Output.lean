/-
  Bkl.Output — validate.go, finalize.go, output.go.
  String predicates are defined on `List Char` so that the kernel can compute through them.
-/
import Bkl.Fields
import Bkl.UnicodeLower
namespace Bkl

/-- unicode.IsLower: ASCII and Latin-1 by rule (Go's `properties` table), everything above by the
    toolchain's `unicode.Lower` range table (Bkl/UnicodeLower.lean, checked against the toolchain on
    every run by fact F14). -/
def isLowerModel (c : Char) : Bool :=
  if c.toNat ≤ 0xFF then
    c.isLower || c == 'µ' || (0xDF ≤ c.toNat && c.toNat != 0xF7)
  else inRanges c.toNat unicodeLowerRanges

/-- validate.go:validateString on characters -/
def validateChars (cs : List Char) : R Unit :=
  if cs = "$required".toList then throw Err.requiredField
  else match cs with
    | '$' :: c :: _ => if isLowerModel c then throw Err.invalidDirective else pure ()
    | _ => pure ()

def validateString (s : String) : R Unit := validateChars s.toList

mutual
/-- validate.go:validate -/
def validate : Val → R Unit
  | .map kvs => validateFields kvs
  | .list xs => validateList xs
  | .str s => validateString s
  | _ => pure ()
def validateFields : Fields → R Unit
  | [] => pure ()
  | (k, v) :: rest => do validateString k; validate v; validateFields rest
def validateList : List Val → R Unit
  | [] => pure ()
  | x :: xs => do validate x; validateList xs
end

/-- strings.ReplaceAll(s, "$$", "$"): left to right, non-overlapping -/
def unescapeChars : List Char → List Char
  | '$' :: '$' :: rest => '$' :: unescapeChars rest
  | c :: rest => c :: unescapeChars rest
  | [] => []

/-- finalize.go:finalizeString -/
def finalizeString (s : String) : String := String.ofList (unescapeChars s.toList)

mutual
/-- finalize.go:finalizeOutput (maps are rebuilt in key order; later keys win on collision) -/
def finalize : Val → Val
  | .map kvs => .map (fofList (finalizeFields kvs))
  | .list xs => .list (finalizeList xs)
  | .str s => .str (finalizeString s)
  | v => v
def finalizeFields : Fields → Fields
  | [] => []
  | (k, v) :: rest => (finalizeString k, finalize v) :: finalizeFields rest
def finalizeList : List Val → List Val
  | [] => []
  | x :: xs => finalize x :: finalizeList xs
end

mutual
/-- output.go:findOutputs — returns the tree with `$output: true` markers stripped and the
    list of selected subtrees (map: self before children, children in key order;
    list: children before self). -/
def findOutputs : Val → R (Val × List Val)
  | .map kvs => do
    let sel := fhasBool kvs "$output" true
    let (ret, outs) ← findOutputsFields kvs sel
    let self := Val.map ret
    pure (self, if sel then self :: outs else outs)
  | .list xs => do
    -- popListMapBoolValue(obj, "$output", true): marker entries with extra keys are errors
    let sel := hasListMapBool xs "$output" true
    let (ret, outs) ← findOutputsList xs sel
    let self := Val.list ret
    pure (self, if sel then outs ++ [self] else outs)
  | v => pure (v, [])
/-- children of a map; `skip` = the `$output: true` entry was popped -/
def findOutputsFields : Fields → Bool → R (Fields × List Val)
  | [], _ => pure ([], [])
  | (k, v) :: rest, skip =>
    if skip && k == "$output" then findOutputsFields rest skip
    else do
      let (v', o1) ← findOutputs v
      let (rest', o2) ← findOutputsFields rest skip
      pure ((k, v') :: rest', o1 ++ o2)
/-- entries of a list; `skip` = `{$output: true}` marker entries are dropped -/
def findOutputsList : List Val → Bool → R (List Val × List Val)
  | [], _ => pure ([], [])
  | x :: xs, skip =>
    match x with
    | .map m =>
      if skip && fhasBool m "$output" true then
        if (fdel m "$output").length > 0 then throw Err.extraKeys
        else findOutputsList xs skip
      else do
        let (x', o1) ← findOutputs x
        let (xs', o2) ← findOutputsList xs skip
        pure (x' :: xs', o1 ++ o2)
    | _ => do
      let (x', o1) ← findOutputs x
      let (xs', o2) ← findOutputsList xs skip
      pure (x' :: xs', o1 ++ o2)
end

mutual
/-- output.go:filterOutput — `none` = hidden (`$output: false`) -/
def filterOutput : Val → R (Option Val)
  | .map kvs =>
    if fhasBool kvs "$output" false then pure none
    else do pure (some (.map (← filterOutputFields kvs)))
  | .list xs =>
    if hasListMapBool xs "$output" false then do
      -- popListMapBoolValue reports marker entries with extra keys before hiding
      let _ ← popListMapBool xs "$output" false
      pure none
    else do pure (some (.list (← filterOutputList xs)))
  | .null => pure none
  | v => pure (some v)
def filterOutputFields : Fields → R Fields
  | [] => pure []
  | (k, v) :: rest => do
    match ← filterOutput v with
    | some v' => pure ((k, v') :: (← filterOutputFields rest))
    | none => filterOutputFields rest
def filterOutputList : List Val → R (List Val)
  | [] => pure []
  | x :: xs => do
    match ← filterOutput x with
    | some x' => pure (x' :: (← filterOutputList xs))
    | none => filterOutputList xs
end

/-- parser.go:outputDocument after `Process`: selection, hiding, validation, finalisation -/
def emit (processed : List Val) : R (List Val) := do
  let mut outs : List Val := []
  for d in processed do
    let (obj, sel) ← findOutputs d
    outs := outs ++ (if sel.isEmpty then [obj] else sel)
  let mut ret : List Val := []
  for v in outs do
    match ← filterOutput v with
    | none => pure ()
    | some v2 =>
      validate v2
      ret := ret ++ [finalize v2]
  pure ret

end Bkl
