/-
  Bkl.Process1 — process1.go: `$merge` / `$replace` reference expansion (phase 3).

  Go expands a map-level `$merge` *in place* (tests/merge-race depends on it): the host map
  loses its `$merge` key and receives the referenced value, and later references read the
  already-expanded host.  The model is value-semantic and threads the document root:
  `loc = some p` means "the value being processed is `root[p]`" (p descends through maps
  only — `getPath` cannot traverse lists, so anything under a list is unreachable by a
  reference and needs no location).  Values obtained through a reference are copies
  (get.go returns clones), so they are processed with `loc = none`.

  Fuel = the depth guard of process1.go (`depth > 1000`), re-extracted from the source by
  the fact extractor.
-/
import Bkl.Get
set_option linter.unusedVariables false
namespace Bkl

/-- one step of a location inside the document root: a map key or a list index -/
inductive PathElem where
  | key (k : String)
  | idx (i : Nat)
  deriving Repr, DecidableEq, Inhabited

abbrev Loc := Option (List PathElem)

/-- replace the value at a path of `root` (no-op if the path does not exist) -/
def setPath (root : Val) (path : List PathElem) (v : Val) : Val :=
  match path with
  | [] => v
  | .key p :: ps =>
    match root with
    | .map kvs =>
      match fget kvs p with
      | some child => .map (fset kvs p (setPath child ps v))
      | none => root
    | _ => root
  | .idx i :: ps =>
    match root with
    | .list xs =>
      match xs[i]? with
      | some child => .list (xs.set i (setPath child ps v))
      | none => root
    | _ => root

def setLoc (root : Val) (loc : Loc) (v : Val) : Val :=
  match loc with
  | some p => setPath root p v
  | none => root

def childLoc (loc : Loc) (k : String) : Loc :=
  loc.map (· ++ [.key k])

def entryLoc (loc : Loc) (tag : Option Nat) : Loc :=
  match loc, tag with
  | some p, some i => some (p ++ [.idx i])
  | _, _ => none

/-- list entries tagged with their index in the document root's list (`none` = a copy that
    arrived through a reference) -/
abbrev Tagged := List (Val × Option Nat)

def hasMatchEntry (s : List Val) : Bool :=
  s.any fun v => match v with
    | .map kvs => fhas kvs "$match" && !fhas kvs "$delete"
    | _ => false

/-- merge.go:mergeListList on a tagged destination, for sources without `$match` entries
    (a `$match` entry would merge into an original entry *in place*; such documents are
    reported as outside the model). Agrees with `mergeListList` on the untagged values. -/
def mergeListTagged (d : Tagged) (s : List Val) : R Tagged :=
  let fresh (l : List Val) : Tagged := l.map (·, none)
  let (rep, s1) := popListString s "$replace"
  if rep then pure (fresh s1)
  else do
    let (rep2, s2) ← popListMapBool s "$replace" true
    if rep2 then pure (fresh s2)
    else
      let d1 := d.filter (fun x => !(x.1 == .str "$required"))
      s.foldlM (init := d1) fun acc v =>
        match v with
        | .map kvs =>
          match fget kvs "$delete" with
          | some del =>
            if (fdel kvs "$delete").length > 0 then throw Err.extraKeys
            else if acc.any (fun x => matchV x.1 del) then pure (acc.filter (fun x => !matchV x.1 del))
            else throw Err.uselessOverride
          | none =>
            if fhas kvs "$match" then throw Err.unmodelled
            else pure (acc ++ [(v, none)])
        | _ => pure (acc ++ [(v, none)])

/-- strings.HasPrefix / TrimPrefix on the model's strings -/
def stripPrefix (s pre : String) : Option String :=
  if s.startsWith pre then some ((s.drop pre.length).toString) else none

def depthLimit : Nat := 1000

/-- process1.go:process1 and everything it calls.  Returns the evaluated value and the
    (possibly expanded-in-place) document root. -/
def process1 (fuel : Nat) (docs : List Val) (root : Val) (loc : Loc)
    (obj : Val) : R (Val × Val) :=
  match fuel with
  | 0 => throw Err.circularRef
  | fuel + 1 =>
    match obj with
    | .map kvs =>
      match fget kvs "$merge" with
      | some ref => do
        -- process1Map: delete(obj, "$merge"); process1MapMerge
        let obj1 := fdel kvs "$merge"
        let root1 := setLoc root loc (.map obj1)
        let inp ← get root1 docs ref
        match inp with
        | .map s =>
          if fhasBool s "$replace" true then
            -- mergeMapMap returns the (copied) source: the host keeps only the deletion
            process1 fuel docs root1 none (.map (fdel s "$replace"))
          else do
            let next ← mergeFields obj1 s
            process1 fuel docs (setLoc root1 loc (.map next)) loc (.map next)
        | .null => process1 fuel docs root1 loc (.map obj1)
        | other =>
          if obj1.isEmpty then process1 fuel docs root1 none other
          else throw Err.invalidType
      | none =>
        match fget kvs "$replace" with
        | some ref => do
          let next ← get root docs ref
          process1 fuel docs root none next
        | none => do
          -- filterMap over sorted keys: value first, then key; null values are dropped
          let (ret, root') ← kvs.foldlM (init := (([] : Fields), root)) fun (acc, rt) (k, v) => do
            let (v2, rt1) ← process1 fuel docs rt (childLoc loc k) v
            if v2.isNull then pure (acc, rt1)
            else do
              let (k2, rt2) ← process1 fuel docs rt1 none (.str k)
              match k2 with
              | .str ks => pure (fset acc ks v2, rt2)
              | _ => throw Err.invalidType
          pure (.map ret, root')
    | .list xs => do
      -- single-key {$merge: ref} entries are collected and removed
      let merges := xs.filterMap fun v => match v with
        | .map [(k, ref)] => if k == "$merge" then some ref else none
        | _ => none
      let obj0 : Tagged := (xs.zipIdx.filter fun (v, _) => match v with
        | .map [(k, _)] => !(k == "$merge")
        | _ => true).map fun (v, i) => (v, some i)
      let obj1 ← merges.foldlM (init := obj0) fun acc ref => do
        let inp ← get root docs ref
        match inp with
        | .list s => mergeListTagged acc s
        | .null => pure acc
        | _ => throw Err.invalidType
      let (rep, _) ← popListMapValue (obj1.map (·.1)) "$replace"
      if !rep.isNull then do
        let next ← get root docs rep
        process1 fuel docs root none next
      else do
        -- entries that are single-key {$replace: null} maps are dropped by popListMapValue
        let obj2 := obj1.filter fun (v, _) => match v with
          | .map [(k, _)] => !(k == "$replace")
          | _ => true
        let (ret, root') ← obj2.foldlM (init := (([] : List Val), root)) fun (acc, rt) (v, tag) => do
          let (v2, rt1) ← process1 fuel docs rt (entryLoc loc tag) v
          if v2.isNull then pure (acc, rt1) else pure (acc ++ [v2], rt1)
        pure (.list ret, root')
    | .str s =>
      match stripPrefix s "$merge:" with
      | some path => do
        let inp ← get root docs (.str path)
        process1 fuel docs root none inp
      | none =>
        match stripPrefix s "$replace:" with
        | some path => do
          let inp ← get root docs (.str path)
          process1 fuel docs root none inp
        | none => pure (obj, root)
    | _ => pure (obj, root)

end Bkl
