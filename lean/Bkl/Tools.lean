/-
  Bkl.Tools — cmd/bkld/diff.go, cmd/bkli/intersect.go, cmd/bklr/required.go.
  `Option Val`: `none` is Go's untyped nil result ("nothing to emit").
-/
import Bkl.Merge
namespace Bkl

/-! ## bklr -/
mutual
def required : Val → Option Val
  | .map kvs => match requiredFields kvs with
    | [] => none
    | r => some (.map r)
  | .list xs => match requiredList xs with
    | [] => none
    | r => some (.list r)
  | .str s => if s == "$required" then some (.str s) else none
  | _ => none
def requiredFields : Fields → Fields
  | [] => []
  | (k, v) :: rest => match required v with
    | some v' => (k, v') :: requiredFields rest
    | none => requiredFields rest
def requiredList : List Val → List Val
  | [] => []
  | x :: xs => match required x with
    | some x' => x' :: requiredList xs
    | none => requiredList xs
end

/-! ## bkli -/
mutual
/-- intersect.go:intersect (a = the new input, b = the accumulated result) -/
def intersect (a : Val) (b : Val) : Val :=
  match b with
  | .null => .null
  | _ =>
    match a with
    | .map am =>
      match b with
      | .map bm => .map (intersectFields am bm)
      | _ => .str "$required"
    | .list al =>
      match b with
      | .list bl =>
        -- intersectListList: each entry of `a` that occurs in `b`, once; nothing in common
        -- (and not both empty) is marked `$required`
        let common := al.filter (fun v1 => bl.any (fun v2 => v1 == v2))
        if common.isEmpty && (al.length + bl.length > 0) then .list [.str "$required"]
        else .list common
      | _ => .str "$required"
    | .null => .null
    | _ => if a == b then a else .str "$required"
def intersectFields : Fields → Fields → Fields
  | [], _ => []
  | (k, v) :: rest, bm =>
    match fget bm k with
    | none => intersectFields rest bm
    | some v2 =>
      if v.isNull && v2.isNull then (k, .null) :: intersectFields rest bm
      else
        let r := intersect v v2
        if r.isNull then intersectFields rest bm else (k, r) :: intersectFields rest bm
end

/-- bkli main loop: first document, then `doc = intersect(next, doc)` -/
def intersectAll : List Val → Val
  | [] => .null
  | first :: rest => rest.foldl (fun acc next => intersect next acc) first

/-! ## bkld -/

/-- bkl lets a value of another kind be layered over `src` only if `src` is a scalar, null
    or an empty map (merge.go:mergeMap / mergeList). -/
def replaceable : Val → Bool
  | .map kvs => kvs.isEmpty
  | .list _ => false
  | _ => true

inductive DRes where
  | same                 -- Go: (nil, nil)
  | patch (v : Val)
  | replaceParent        -- Go: errReplaceParent
  deriving Inhabited

/-- entry-level list patch: new entries, then `$delete` markers for removed map entries;
    `none` = a removed entry is not a map (cannot be addressed) -/
def listPatch (dst src : List Val) : Option (List Val) :=
  let added := dst.filter (fun v1 => !(src.any (fun v2 => v1 == v2)))
  let removed := src.filter (fun v1 => !(dst.any (fun v2 => v1 == v2)))
  if removed.all Val.isMap then
    some (added ++ removed.map (fun v => .map [("$delete", v)]))
  else none

def replaceList (dst : List Val) : Val := .list (dst ++ [.map [("$replace", .bool true)]])

/-- diff.go:diffListList — the entry-level patch is used only if layering it over `src`
    reproduces `dst` (checked with bkl's own merge); otherwise the whole list is replaced -/
def diffListList (dst src : List Val) : DRes :=
  if dst == src then .same
  else match listPatch dst src with
    | none => .patch (replaceList dst)
    | some p =>
      match mergeListList src p with
      | .ok r => if r == .list dst then .patch (.list p) else .patch (replaceList dst)
      | .error _ => .patch (replaceList dst)

mutual
/-- diff.go:diff (dst = target, src = base) -/
def diff (dst : Val) (src : Val) : DRes :=
  match dst with
  | .map dm =>
    match src with
    | .map sm =>
      let (ret, rp) := diffFields dm sm
      if rp then .patch (.map (fset dm "$replace" (.bool true)))
      else
        let dels := (sm.filter fun (k, _) => !fhas dm k).map fun (k, _) => (k, Val.str "$delete")
        let all := fsetAll ret dels
        if all.isEmpty then .same else .patch (.map all)
    | _ => if replaceable src then .patch dst else .replaceParent
  | .list dl =>
    match src with
    | .list sl => diffListList dl sl
    | _ => if replaceable src then .patch dst else .replaceParent
  | _ =>
    if dst == src then .same
    else if replaceable src then .patch dst else .replaceParent
/-- the `for k, v := range dst` loop of diffMapMap: (entries to emit, some child needs
    its parent replaced) -/
def diffFields : Fields → Fields → Fields × Bool
  | [], _ => ([], false)
  | (k, v) :: rest, sm =>
    let (r, rp) := diffFields rest sm
    match fget sm k with
    | none => (fset r k v, rp)
    | some v2 =>
      match diff v v2 with
      | .same => (r, rp)
      -- Go: `if v3 != nil { ret[k] = v3 }` — a nil child result is not stored, whether it
      -- stands for "no difference" or for a nil target value over a replaceable base
      | .patch p => if p.isNull then (r, rp) else (fset r k p, rp)
      | .replaceParent => (r, true)
end

/-- diff.go:diffDoc — the emitted layer (`none` = empty layer) -/
def diffDoc (target base : Val) : Option Val :=
  match diff target base with
  | .same => none
  | .replaceParent => none   -- unreachable for map-rooted inputs; the tool exits with an error
  | .patch (.map m) => some (.map (fset m "$match" (.map [])))
  | .patch (.list l) => some (.list (.map [("$match", .map [])] :: l))
  | .patch v => some v

end Bkl
