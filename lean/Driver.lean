/-
  Driver — line protocol for the correspondence check.
  One JSON object per input line, one JSON object per output line.  Core Lean only.

  Wire encoding of values:
    null | true | false | "s" | {"i":"123"} | {"f":"0.1"} | [..] | {"m":[["k",v],…]}
-/
import Lean.Data.Json
import Bkl
open Lean Bkl

partial def valToJson : Val → Json
  | .null => Json.null
  | .bool b => Json.bool b
  | .int i => Json.mkObj [("i", Json.str (toString i))]
  | .flt r => Json.mkObj [("f", Json.str r)]
  | .str s => Json.str s
  | .list xs => Json.arr (xs.map valToJson).toArray
  | .map kvs => Json.mkObj [("m", Json.arr (kvs.map fun (k, v) => Json.arr #[Json.str k, valToJson v]).toArray)]

partial def valOfJson (j : Json) : Except String Val :=
  match j with
  | .null => pure .null
  | .bool b => pure (.bool b)
  | .str s => pure (.str s)
  | .arr a => do pure (.list (← a.toList.mapM valOfJson))
  | .obj _ =>
    match j.getObjVal? "i" with
    | .ok (.str s) => match s.toInt? with
      | some i => pure (.int i)
      | none => throw s!"bad int {s}"
    | _ =>
    match j.getObjVal? "f" with
    | .ok (.str s) => pure (.flt s)
    | _ =>
    match j.getObjVal? "m" with
    | .ok (.arr entries) => do
      let kvs ← entries.toList.mapM fun e =>
        match e with
        | .arr #[.str k, v] => do pure (k, ← valOfJson v)
        | _ => throw "bad map entry"
      pure (.map (fofList kvs))
    | _ => throw "bad value object"
  | _ => throw "bad value"

/-- YAML node trees as the harness serialises yaml.v3's `yaml.Node` (aliases already followed):
    {"k":"scalar","tag":"!!int","v":"12","fr":"12"} | {"k":"seq","items":[…]} |
    {"k":"map","pairs":[["key",node],…]} | {"k":"empty"} -/
partial def ynodeOfJson (j : Json) : Except String YNode := do
  let k ← j.getObjValAs? String "k"
  match k with
  | "scalar" =>
    pure (.scalar (← j.getObjValAs? String "tag") (← j.getObjValAs? String "v") (← j.getObjValAs? String "fr"))
  | "seq" => do
    let items ← j.getObjValAs? (Array Json) "items"
    pure (.seq (← items.toList.mapM ynodeOfJson))
  | "map" => do
    let pairs ← j.getObjValAs? (Array Json) "pairs"
    let ps ← pairs.toList.mapM fun e =>
      match e with
      | .arr #[.str key, v] => do pure (key, ← ynodeOfJson v)
      | _ => throw "bad pair"
    pure (.mapping ps)
  | "empty" => pure .empty
  | _ => throw s!"bad ynode kind {k}"

/-- raw decoder values as the harness serialises what encoding/json / go-toml hand to bkl:
    null | bool | "s" | {"int":"5"} | {"int64":"5"} | {"float":"0.5"} | {"jnum":"1e3","fr":"1000"} |
    [..] | {"map":[["k",raw],…]} | {"lom":[[["k",raw],…],…]} | {"mapany":true} -/
partial def rawOfJson (j : Json) : Except String Raw :=
  match j with
  | .null => pure .null
  | .bool b => pure (.bool b)
  | .str s => pure (.str s)
  | .arr a => do pure (.list (← a.toList.mapM rawOfJson))
  | .obj _ =>
    let int? (key : String) : Option Int := match j.getObjVal? key with
      | .ok (.str t) => t.toInt?
      | _ => none
    let fields (e : Json) : Except String (List (String × Raw)) :=
      match e with
      | .arr es => es.toList.mapM fun x => match x with
        | .arr #[.str k, v] => do pure (k, ← rawOfJson v)
        | _ => throw "bad raw map entry"
      | _ => throw "bad raw map"
    match int? "int", int? "int64" with
    | some i, _ => pure (.goInt i)
    | _, some i => pure (.goInt64 i)
    | _, _ =>
    match j.getObjVal? "float", j.getObjVal? "jnum", j.getObjVal? "map", j.getObjVal? "lom" with
    | .ok (.str f), _, _, _ => pure (.goFloat f)
    | _, .ok (.str t), _, _ => do pure (.jnum t (← j.getObjValAs? String "fr"))
    | _, _, .ok m, _ => do pure (.map (← fields m))
    | _, _, _, .ok (.arr ms) => do pure (.listOfMaps (← ms.toList.mapM fields))
    | _, _, _, _ =>
      match j.getObjVal? "mapany" with
      | .ok _ => pure .mapAny
      | _ => throw "bad raw object"
  | _ => throw "bad raw value"

def errJson (e : Err) : Json :=
  if e == .unmodelled then Json.mkObj [("unmodelled", Json.bool true)]
  else Json.mkObj [("err", Json.str e.name)]

def resVals (r : R (List Val)) : Json :=
  match r with
  | .ok vs => Json.mkObj [("ok", Json.arr (vs.map valToJson).toArray)]
  | .error e => errJson e

def envOfJson (j : Json) : Vars :=
  match j with
  | .obj kvs => kvs.foldl (init := []) fun acc k v =>
      match v with
      | .str s => fset acc ("$env:" ++ k) (.str s)
      | _ => acc
  | _ => []

def strTable (j : Json) : List (String × String) :=
  match j with
  | .obj kvs => kvs.foldl (init := []) fun acc k v =>
      match v with
      | .str s => (k, s) :: acc
      | _ => acc
  | _ => []

def strList (j : Json) : List String :=
  match j with
  | .arr a => a.toList.filterMap fun x => match x with | .str s => some s | _ => none
  | _ => []

def runHist (env : Vars) (steps : List Json) (cont : Bool := false) : Except String (List Json) := do
  let mut st := PState.empty
  let mut out : List Json := []
  let mut dead := false
  for step in steps do
    if dead then
      out := out ++ [Json.mkObj [("skipped", Json.bool true)]]
    else
      match step.getObjVal? "merge" with
      | .ok m => do
        let id ← m.getObjValAs? String "id"
        let parents := strList (m.getObjValD "parents")
        let data ← valOfJson (m.getObjValD "data")
        match mergeDocument st { id := id, parents := parents, data := data } with
        | .ok st' =>
          st := st'
          out := out ++ [Json.mkObj [("ok", Json.bool true)]]
        | .error e =>
          -- a failed merge leaves the (functional) state as it was; with `continue` the history goes on
          if !cont then dead := true
          out := out ++ [errJson e]
      | .error _ =>
        match step.getObjVal? "docs" with
        | .ok _ =>
          out := out ++ [Json.mkObj [("ok", Json.arr (st.docs.map fun d => valToJson d.2).toArray)]]
        | .error _ =>
          match step.getObjVal? "outdocs" with
          | .ok _ => out := out ++ [resVals (outputDocuments (st.docs.map (·.2)) env)]
          | .error _ =>
            -- `out` (encoded bytes) and `alias` (heap sharing) have no counterpart in the model
            out := out ++ [Json.mkObj [("unmodelled", Json.bool true)]]
  pure out

def fsOfJson (j : Json) : Except String FS := do
  let ents ← j.getObjValAs? (Array Json) "entries"
  let es ← ents.toList.mapM fun e => do
    let path ← e.getObjValAs? String "path"
    let comps := splitPath path
    match e.getObjVal? "docs" with
    | .ok (.arr ds) => do
      let docs ← ds.toList.mapM valOfJson
      pure (comps, FNode.file (.ok docs))
    | _ =>
      match e.getObjVal? "error" with
      | .ok _ => pure (comps, FNode.file (.error Err.unmarshal))
      | _ =>
        match e.getObjVal? "link" with
        | .ok (.str t) => pure (comps, FNode.link t)
        | _ => pure (comps, FNode.dir)
  pure { entries := es }

def optStr (j : Json) (k : String) : Option String :=
  match j.getObjVal? k with
  | .ok (.str s) => some s
  | _ => none

def handle (j : Json) : Except String Json := do
  let op ← j.getObjValAs? String "op"
  match op with
  | "hist" =>
    let env := envOfJson (j.getObjValD "env")
    let steps ← j.getObjValAs? (Array Json) "steps"
    let cont := (j.getObjValD "continue") == Json.bool true
    pure (Json.mkObj [("res", Json.arr (← runHist env steps.toList cont).toArray)])
  | "required" =>
    let v ← valOfJson (j.getObjValD "v")
    match required v with
    | some r => pure (Json.mkObj [("ok", valToJson r)])
    | none => pure (Json.mkObj [("none", Json.bool true)])
  | "intersect" =>
    let vs ← (← j.getObjValAs? (Array Json) "vs").toList.mapM valOfJson
    pure (Json.mkObj [("ok", valToJson (intersectAll vs))])
  | "diff" =>
    let t ← valOfJson (j.getObjValD "target")
    let b ← valOfJson (j.getObjValD "base")
    match diffDoc t b with
    | some r => pure (Json.mkObj [("ok", valToJson r)])
    | none => pure (Json.mkObj [("none", Json.bool true)])
  | "merge" =>
    let d ← valOfJson (j.getObjValD "dst")
    let s ← valOfJson (j.getObjValD "src")
    match merge d s with
    | .ok r => pure (Json.mkObj [("ok", valToJson r)])
    | .error e => pure (errJson e)
  | "match" =>
    let o ← valOfJson (j.getObjValD "obj")
    let p ← valOfJson (j.getObjValD "pat")
    pure (Json.mkObj [("ok", Json.bool (matchV o p))])
  | "encode" =>
    let v ← valOfJson (j.getObjValD "v")
    let spec ← valOfJson (j.getObjValD "spec")
    match encodeAny v spec with
    | .ok r => pure (Json.mkObj [("ok", valToJson r)])
    | .err e => pure (errJson e)
    | .codec _ _ => pure (errJson .unmodelled)
  | "fmtv" =>
    let v ← valOfJson (j.getObjValD "v")
    pure (Json.mkObj [("ok", Json.str (fmtV v))])
  | "fs" =>
    let fs ← fsOfJson j
    let cwd := splitPath (← j.getObjValAs? String "cwd")
    let env := envOfJson (j.getObjValD "env")
    let o := j.getObjValD "opts"
    let opts : CliOpts := {
      format := optStr o "format", outPath := optStr o "out", rootPath := optStr o "root",
      skipParent := (o.getObjValD "skipParent") == Json.bool true,
      inputs := strList (o.getObjValD "inputs") }
    match cliRun fs cwd env opts with
    | .ok r => pure (Json.mkObj [("ok", Json.mkObj [
        ("format", Json.str r.format),
        ("docs", Json.arr (r.docs.map valToJson).toArray),
        ("merged", Json.arr (r.merged.map valToJson).toArray),
        ("order", Json.arr (r.loadOrder.map Json.str).toArray)])])
    | .error e => pure (errJson e)
  | "libfs" =>
    -- the library used directly: New, SetRoot*, (FileMatch,) MergeFile / MergeFileLayers per input
    let fs ← fsOfJson j
    let cwd := splitPath (← j.getObjValAs? String "cwd")
    let env := envOfJson (j.getObjValD "env")
    let roots := strList (j.getObjValD "roots")
    let inputs := strList (j.getObjValD "inputs")
    let skip := (j.getObjValD "skipParent") == Json.bool true
    let fm := (j.getObjValD "fileMatch") == Json.bool true
    -- actions in order: (0, r) = SetRoot r, (1, p) = merge input p, (2, r) = SetRoot r whose refusal the caller ignores
    let acts : List (Nat × String) :=
      match j.getObjVal? "actions" with
      | .ok (.arr as) => as.toList.filterMap fun a =>
          match a.getObjVal? "root", a.getObjVal? "input", a.getObjVal? "tryroot" with
          | .ok (.str r), _, _ => some (0, r)
          | _, .ok (.str p), _ => some (1, p)
          | _, _, .ok (.str r) => some (2, r)
          | _, _, _ => none
      | _ => roots.map (fun r => (0, r)) ++ inputs.map (fun p => (1, p))
    let run : R (List Val × List Val) := do
      let mut cfg : RootCfg := { root := [], cwd := cwd }
      let mut st := PState.empty
      for (kind, x) in acts do
        if kind == 0 then
          cfg ← setRoot fs cfg x
        else if kind == 2 then
          -- a refused SetRoot leaves the parser as it was
          match setRoot fs cfg x with
          | .ok c => cfg := c
          | .error _ => pure ()
        else
          let real ← if fm then (do let (r, _) ← fileMatch fs cwd x; pure r) else pure (absPath cwd x)
          st ← if skip then mergeFileAlone fs cfg st real else mergeFileLayers fs cfg st real
      let outs ← outputDocuments (st.docs.map (·.2)) env
      pure (st.docs.map (·.2), outs)
    match run with
    | .ok (docs, outs) => pure (Json.mkObj [("ok", Json.mkObj [
        ("merged", Json.arr (docs.map valToJson).toArray), ("docs", Json.arr (outs.map valToJson).toArray)])])
    | .error e => pure (errJson e)
  | "toolcli" =>
    -- the three tool mains around diffDoc / intersect / required
    let fs ← fsOfJson j
    let cwd := splitPath (← j.getObjValAs? String "cwd")
    let env := envOfJson (j.getObjValD "env")
    let o := j.getObjValD "opts"
    let opts : ToolOpts := { format := optStr o "format", outPath := optStr o "out", inputs := strList (o.getObjValD "inputs") }
    let tool ← j.getObjValAs? String "tool"
    let r := match tool with
      | "bkld" => bkldRun fs cwd env opts
      | "bkli" => bkliRun fs cwd opts
      | _ => bklrRun fs cwd opts
    match r with
    | .ok t => pure (Json.mkObj [("ok", Json.mkObj [("format", Json.str t.format),
        ("doc", match t.doc with | some d => valToJson d | none => Json.null),
        ("nil", Json.bool t.doc.isNone)])])
    | .error e => pure (errJson e)
  | "wrap" =>
    let fs ← fsOfJson j
    let cwd := splitPath (← j.getObjValAs? String "cwd")
    let env := envOfJson (j.getObjValD "env")
    let args := strList (j.getObjValD "args")
    match wrapArgs fs cwd env args with
    | .ok ws => pure (Json.mkObj [("ok", Json.arr (ws.map fun w => match w with
        | .verbatim s => Json.mkObj [("verbatim", Json.str s)]
        | .evaluated f ds => Json.mkObj [("format", Json.str f), ("docs", Json.arr (ds.map valToJson).toArray)]).toArray)])
    | .error e => pure (errJson e)
  | "yamltree" =>
    -- yaml.go:yamlTranslateNode followed by normalize.go:normalize (what loadFile does per document)
    let n ← ynodeOfJson (j.getObjValD "node")
    match yamlTranslate n >>= normalize with
    | .ok v => pure (Json.mkObj [("ok", valToJson v)])
    | .error e => pure (errJson e)
  | "rawnorm" =>
    let r ← rawOfJson (j.getObjValD "raw")
    match normalize r with
    | .ok v => pure (Json.mkObj [("ok", valToJson v)])
    | .error e => pure (errJson e)
  | "ssplit" =>
    -- the stream framing of yaml.go / toml.go: where the model cuts a text into parts
    let fmt ← j.getObjValAs? String "format"
    let lines := strList (j.getObjValD "lines")
    let parts := splitAt (if fmt == "toml" then sepToml else sepYaml) lines
    pure (Json.mkObj [("ok", Json.arr (parts.map fun p => Json.arr (p.map Json.str).toArray).toArray)])
  | "jsonenc" =>
    -- json.go:jsonMarshalStream, byte for byte: the model's own JSON writer (Bkl.Json).  `jf` is the table of
    -- float renderings (float text ↦ JSON literal; strconv is outside the model)
    let docs ← (j.getObjValD "docs").getArr? >>= fun a => a.toList.mapM valOfJson
    let tbl := strTable (j.getObjValD "jf")
    let jf := fun (r : String) => ((tbl.find? (·.1 == r)).map (·.2)).getD r
    let pretty := (j.getObjValAs? Bool "pretty").toOption.getD false
    pure (Json.mkObj [("ok", Json.str (if pretty then jsonPrettyStream jf docs else jsonEncodeStream jf docs))])
  | "jsondec" =>
    -- json.go:jsonUnmarshalStream + normalize: the model's own JSON reader.  `fol` maps a number literal to
    -- the float text it denotes ("" = no float64 holds it)
    let text ← j.getObjValAs? String "text"
    let tbl := strTable (j.getObjValD "fol")
    let fol := fun (l : String) => ((tbl.find? (·.1 == l)).map (·.2)).getD ""
    match jsonLoadStream fol text with
    | .ok vs => pure (Json.mkObj [("ok", Json.arr (vs.map valToJson).toArray)])
    | .error e => pure (errJson e)
  | "parseref" =>
    let s ← j.getObjValAs? String "s"
    match parseRef s with
    | some v => pure (Json.mkObj [("ok", valToJson v)])
    | none => pure (errJson .unmodelled)
  | _ => throw s!"unknown op {op}"

partial def loop (hin : IO.FS.Stream) (hout : IO.FS.Stream) : IO Unit := do
  let line ← hin.getLine
  if line.isEmpty then return ()
  let trimmed := line.trimAscii.toString
  if trimmed.isEmpty then
    loop hin hout
  else
    let res := match Json.parse trimmed with
      | .error e => Json.mkObj [("protocol_error", Json.str e)]
      | .ok j =>
        match handle j with
        | .ok r =>
          match j.getObjVal? "id" with
          | .ok id => r.setObjVal! "id" id
          | .error _ => r
        | .error e => Json.mkObj [("protocol_error", Json.str e)]
    hout.putStrLn res.compress
    hout.flush
    loop hin hout

def main : IO Unit := do
  let hin ← IO.getStdin
  let hout ← IO.getStdout
  loop hin hout
  hout.flush
