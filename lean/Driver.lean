/-
  Driver — line protocol for the correspondence check.
  One JSON object per input line, one JSON object per output line.  Core Lean only.

  Wire encoding of values:
    null | true | false | "s" | {"i":"123"} | {"f":"0.1"} | [..] | {"m":[["k",v],…]}
-/
import Lean.Data.Json
import Bkl
open Lean Bkl

partial def valToJson : Val → Json
  | .null => Json.null
  | .bool b => Json.bool b
  | .int i => Json.mkObj [("i", Json.str (toString i))]
  | .flt r => Json.mkObj [("f", Json.str r)]
  | .str s => Json.str s
  | .list xs => Json.arr (xs.map valToJson).toArray
  | .map kvs => Json.mkObj [("m", Json.arr (kvs.map fun (k, v) => Json.arr #[Json.str k, valToJson v]).toArray)]

partial def valOfJson (j : Json) : Except String Val :=
  match j with
  | .null => pure .null
  | .bool b => pure (.bool b)
  | .str s => pure (.str s)
  | .arr a => do pure (.list (← a.toList.mapM valOfJson))
  | .obj _ =>
    match j.getObjVal? "i" with
    | .ok (.str s) => match s.toInt? with
      | some i => pure (.int i)
      | none => throw s!"bad int {s}"
    | _ =>
    match j.getObjVal? "f" with
    | .ok (.str s) => pure (.flt s)
    | _ =>
    match j.getObjVal? "m" with
    | .ok (.arr entries) => do
      let kvs ← entries.toList.mapM fun e =>
        match e with
        | .arr #[.str k, v] => do pure (k, ← valOfJson v)
        | _ => throw "bad map entry"
      pure (.map (fofList kvs))
    | _ => throw "bad value object"
  | _ => throw "bad value"

def errJson (e : Err) : Json :=
  if e == .unmodelled then Json.mkObj [("unmodelled", Json.bool true)]
  else Json.mkObj [("err", Json.str e.name)]

def resVals (r : R (List Val)) : Json :=
  match r with
  | .ok vs => Json.mkObj [("ok", Json.arr (vs.map valToJson).toArray)]
  | .error e => errJson e

def envOfJson (j : Json) : Vars :=
  match j with
  | .obj kvs => kvs.foldl (init := []) fun acc k v =>
      match v with
      | .str s => fset acc ("$env:" ++ k) (.str s)
      | _ => acc
  | _ => []

def strList (j : Json) : List String :=
  match j with
  | .arr a => a.toList.filterMap fun x => match x with | .str s => some s | _ => none
  | _ => []

def runHist (env : Vars) (steps : List Json) : Except String (List Json) := do
  let mut st := PState.empty
  let mut out : List Json := []
  let mut dead := false
  for step in steps do
    if dead then
      out := out ++ [Json.mkObj [("skipped", Json.bool true)]]
    else
      match step.getObjVal? "merge" with
      | .ok m => do
        let id ← m.getObjValAs? String "id"
        let parents := strList (m.getObjValD "parents")
        let data ← valOfJson (m.getObjValD "data")
        match mergeDocument st { id := id, parents := parents, data := data } with
        | .ok st' =>
          st := st'
          out := out ++ [Json.mkObj [("ok", Json.bool true)]]
        | .error e =>
          dead := true
          out := out ++ [errJson e]
      | .error _ =>
        match step.getObjVal? "docs" with
        | .ok _ =>
          out := out ++ [Json.mkObj [("ok", Json.arr (st.docs.map fun d => valToJson d.2).toArray)]]
        | .error _ =>
          match step.getObjVal? "outdocs" with
          | .ok _ => out := out ++ [resVals (outputDocuments (st.docs.map (·.2)) env)]
          | .error _ =>
            -- `out` (encoded bytes) and `alias` (heap sharing) have no counterpart in the model
            out := out ++ [Json.mkObj [("unmodelled", Json.bool true)]]
  pure out

def fsOfJson (j : Json) : Except String FS := do
  let ents ← j.getObjValAs? (Array Json) "entries"
  let es ← ents.toList.mapM fun e => do
    let path ← e.getObjValAs? String "path"
    let comps := splitPath path
    match e.getObjVal? "docs" with
    | .ok (.arr ds) => do
      let docs ← ds.toList.mapM valOfJson
      pure (comps, FNode.file (.ok docs))
    | _ =>
      match e.getObjVal? "error" with
      | .ok _ => pure (comps, FNode.file (.error Err.unmarshal))
      | _ =>
        match e.getObjVal? "link" with
        | .ok (.str t) => pure (comps, FNode.link t)
        | _ => pure (comps, FNode.dir)
  pure { entries := es }

def optStr (j : Json) (k : String) : Option String :=
  match j.getObjVal? k with
  | .ok (.str s) => some s
  | _ => none

def handle (j : Json) : Except String Json := do
  let op ← j.getObjValAs? String "op"
  match op with
  | "hist" =>
    let env := envOfJson (j.getObjValD "env")
    let steps ← j.getObjValAs? (Array Json) "steps"
    pure (Json.mkObj [("res", Json.arr (← runHist env steps.toList).toArray)])
  | "required" =>
    let v ← valOfJson (j.getObjValD "v")
    match required v with
    | some r => pure (Json.mkObj [("ok", valToJson r)])
    | none => pure (Json.mkObj [("none", Json.bool true)])
  | "intersect" =>
    let vs ← (← j.getObjValAs? (Array Json) "vs").toList.mapM valOfJson
    pure (Json.mkObj [("ok", valToJson (intersectAll vs))])
  | "diff" =>
    let t ← valOfJson (j.getObjValD "target")
    let b ← valOfJson (j.getObjValD "base")
    match diffDoc t b with
    | some r => pure (Json.mkObj [("ok", valToJson r)])
    | none => pure (Json.mkObj [("none", Json.bool true)])
  | "merge" =>
    let d ← valOfJson (j.getObjValD "dst")
    let s ← valOfJson (j.getObjValD "src")
    match merge d s with
    | .ok r => pure (Json.mkObj [("ok", valToJson r)])
    | .error e => pure (errJson e)
  | "match" =>
    let o ← valOfJson (j.getObjValD "obj")
    let p ← valOfJson (j.getObjValD "pat")
    pure (Json.mkObj [("ok", Json.bool (matchV o p))])
  | "encode" =>
    let v ← valOfJson (j.getObjValD "v")
    let spec ← valOfJson (j.getObjValD "spec")
    match encodeAny v spec with
    | .ok r => pure (Json.mkObj [("ok", valToJson r)])
    | .err e => pure (errJson e)
    | .codec _ _ => pure (errJson .unmodelled)
  | "fmtv" =>
    let v ← valOfJson (j.getObjValD "v")
    pure (Json.mkObj [("ok", Json.str (fmtV v))])
  | "fs" =>
    let fs ← fsOfJson j
    let cwd := splitPath (← j.getObjValAs? String "cwd")
    let env := envOfJson (j.getObjValD "env")
    let o := j.getObjValD "opts"
    let opts : CliOpts := {
      format := optStr o "format", outPath := optStr o "out", rootPath := optStr o "root",
      skipParent := (o.getObjValD "skipParent") == Json.bool true,
      inputs := strList (o.getObjValD "inputs") }
    match cliRun fs cwd env opts with
    | .ok r => pure (Json.mkObj [("ok", Json.mkObj [
        ("format", Json.str r.format),
        ("docs", Json.arr (r.docs.map valToJson).toArray),
        ("merged", Json.arr (r.merged.map valToJson).toArray),
        ("order", Json.arr (r.loadOrder.map Json.str).toArray)])])
    | .error e => pure (errJson e)
  | "wrap" =>
    let fs ← fsOfJson j
    let cwd := splitPath (← j.getObjValAs? String "cwd")
    let env := envOfJson (j.getObjValD "env")
    let args := strList (j.getObjValD "args")
    match wrapArgs fs cwd env args with
    | .ok ws => pure (Json.mkObj [("ok", Json.arr (ws.map fun w => match w with
        | .verbatim s => Json.mkObj [("verbatim", Json.str s)]
        | .evaluated f ds => Json.mkObj [("format", Json.str f), ("docs", Json.arr (ds.map valToJson).toArray)]).toArray)])
    | .error e => pure (errJson e)
  | "parseref" =>
    let s ← j.getObjValAs? String "s"
    match parseRef s with
    | some v => pure (Json.mkObj [("ok", valToJson v)])
    | none => pure (errJson .unmodelled)
  | _ => throw s!"unknown op {op}"

partial def loop (hin : IO.FS.Stream) (hout : IO.FS.Stream) : IO Unit := do
  let line ← hin.getLine
  if line.isEmpty then return ()
  let trimmed := line.trimAscii.toString
  if trimmed.isEmpty then
    loop hin hout
  else
    let res := match Json.parse trimmed with
      | .error e => Json.mkObj [("protocol_error", Json.str e)]
      | .ok j =>
        match handle j with
        | .ok r =>
          match j.getObjVal? "id" with
          | .ok id => r.setObjVal! "id" id
          | .error _ => r
        | .error e => Json.mkObj [("protocol_error", Json.str e)]
    hout.putStrLn res.compress
    hout.flush
    loop hin hout

def main : IO Unit := do
  let hin ← IO.getStdin
  let hout ← IO.getStdout
  loop hin hout
  hout.flush
