/-
  C17 — bklr (`required`) keeps exactly the `$required` skeleton.
  Specification functions (`countReq`, `onlyMarkers`, `keysPlain`) are defined here, independently
  of the model; the theorems relate the model (`Bkl.required`, Bkl/Tools.lean) to them.
  Theorems about `Val` come with companions for `List Val` / `Fields` (same name + `_list` /
  `_fields`), because `Val` is a nested inductive and the proofs are mutual structural.
-/
import Bkl
import BklProofs.Lemmas.Output
import BklProofs.Lemmas.ToolsCliProofs
namespace Bkl

-- `BklProofs.Lemmas.ToolsCliProofs` (needed for the tool-main theorems at the end of this file)
-- brings in the simp lemma `R_pure_eq` of Lemmas/Files.lean; it is switched off here so that the
-- `simp` calls of the theorems below behave exactly as before.
attribute [-simp] R_pure_eq

/-! ## Specification functions -/

mutual
/-- number of string leaves equal to "$required" -/
def countReq : Val → Nat
  | .str s => if s = "$required" then 1 else 0
  | .list xs => countReqList xs
  | .map kvs => countReqFields kvs
  | _ => 0
def countReqList : List Val → Nat
  | [] => 0
  | x :: xs => countReq x + countReqList xs
def countReqFields : Fields → Nat
  | [] => 0
  | (_, v) :: rest => countReq v + countReqFields rest
end

mutual
/-- every leaf is `.str "$required"`, every container is non-empty -/
def onlyMarkers : Val → Bool
  | .str s => s == "$required"
  | .list xs => !xs.isEmpty && onlyMarkersList xs
  | .map kvs => !kvs.isEmpty && onlyMarkersFields kvs
  | _ => false
def onlyMarkersList : List Val → Bool
  | [] => true
  | x :: xs => onlyMarkers x && onlyMarkersList xs
def onlyMarkersFields : Fields → Bool
  | [] => true
  | (_, v) :: rest => onlyMarkers v && onlyMarkersFields rest
end

/-! ## The result consists of markers only -/

mutual
theorem C17_only_markers : ∀ (v r : Val), required v = some r → onlyMarkers r = true
  | .map kvs, r, h => by
    simp only [required] at h
    split at h
    · cases h
    · rename_i hne
      cases h
      simp only [onlyMarkers, C17_only_markers_fields kvs, Bool.and_true]
      cases hr : requiredFields kvs with
      | nil => exact absurd hr hne
      | cons a b => rfl
  | .list xs, r, h => by
    simp only [required] at h
    split at h
    · cases h
    · rename_i hne
      cases h
      simp only [onlyMarkers, C17_only_markers_list xs, Bool.and_true]
      cases hr : requiredList xs with
      | nil => exact absurd hr hne
      | cons a b => rfl
  | .str s, r, h => by
    simp only [required] at h
    split at h
    · rename_i hs; cases h; simpa [onlyMarkers] using hs
    · cases h
  | .null, _, h | .bool _, _, h | .int _, _, h | .flt _, _, h => by simp [required] at h
theorem C17_only_markers_list : ∀ (xs : List Val), onlyMarkersList (requiredList xs) = true
  | [] => rfl
  | x :: xs => by
    simp only [requiredList]
    cases h : required x with
    | none => exact C17_only_markers_list xs
    | some r => simp [onlyMarkersList, C17_only_markers x r h, C17_only_markers_list xs]
theorem C17_only_markers_fields : ∀ (kvs : Fields), onlyMarkersFields (requiredFields kvs) = true
  | [] => rfl
  | (k, v) :: rest => by
    simp only [requiredFields]
    cases h : required v with
    | none => exact C17_only_markers_fields rest
    | some r => simp [onlyMarkersFields, C17_only_markers v r h, C17_only_markers_fields rest]
end

example : required (.map [("a", .str "$required"), ("b", .int 1)]) =
    some (.map [("a", .str "$required")]) := by decide

/-! ## The number of markers is preserved -/

mutual
theorem C17_count : ∀ (v : Val), countReq ((required v).getD .null) = countReq v
  | .map kvs => by
    have ih := C17_count_fields kvs
    simp only [required, countReq]
    split
    · rename_i hr; rw [hr] at ih; simpa [countReq, countReqFields] using ih
    · simpa [countReq] using ih
  | .list xs => by
    have ih := C17_count_list xs
    simp only [required, countReq]
    split
    · rename_i hr; rw [hr] at ih; simpa [countReq, countReqList] using ih
    · simpa [countReq] using ih
  | .str s => by
    simp only [required, countReq]
    by_cases hs : s = "$required" <;> simp [hs, countReq]
  | .null | .bool _ | .int _ | .flt _ => by simp [required, countReq]
theorem C17_count_list : ∀ (xs : List Val), countReqList (requiredList xs) = countReqList xs
  | [] => rfl
  | x :: xs => by
    have h1 := C17_count x
    have h2 := C17_count_list xs
    simp only [requiredList, countReqList]
    cases h : required x with
    | none => rw [h] at h1; simp [countReq] at h1; dsimp only; omega
    | some r => rw [h] at h1; simp at h1; simp only [countReqList]; omega
theorem C17_count_fields : ∀ (kvs : Fields), countReqFields (requiredFields kvs) = countReqFields kvs
  | [] => rfl
  | (k, v) :: rest => by
    have h1 := C17_count v
    have h2 := C17_count_fields rest
    simp only [requiredFields, countReqFields]
    cases h : required v with
    | none => rw [h] at h1; simp [countReq] at h1; dsimp only; omega
    | some r => rw [h] at h1; simp at h1; simp only [countReqFields]; omega
end

/-- the `some` case of `C17_count` -/
theorem C17_count_some (v r : Val) (h : required v = some r) : countReq r = countReq v := by
  have := C17_count v; rw [h] at this; simpa using this

/-- the `none` case of `C17_count` -/
theorem C17_count_none (v : Val) (h : required v = none) : countReq v = 0 := by
  have := C17_count v; rw [h] at this; simpa [countReq] using this.symm

/-! ## Nothing is emitted iff there is no marker -/

mutual
theorem C17_empty_iff : ∀ (v : Val), required v = none ↔ countReq v = 0
  | .map kvs => by
    have ih := C17_empty_iff_fields kvs
    simp only [required, countReq]
    split
    · rename_i hr; simpa [hr] using ih
    · rename_i hr; simp only [reduceCtorEq, false_iff]; exact fun h => hr (ih.2 h)
  | .list xs => by
    have ih := C17_empty_iff_list xs
    simp only [required, countReq]
    split
    · rename_i hr; simpa [hr] using ih
    · rename_i hr; simp only [reduceCtorEq, false_iff]; exact fun h => hr (ih.2 h)
  | .str s => by
    simp only [required, countReq]
    by_cases hs : s = "$required" <;> simp [hs]
  | .null | .bool _ | .int _ | .flt _ => by simp [required, countReq]
theorem C17_empty_iff_list : ∀ (xs : List Val), requiredList xs = [] ↔ countReqList xs = 0
  | [] => by simp [requiredList, countReqList]
  | x :: xs => by
    have h1 := C17_empty_iff x
    have h2 := C17_empty_iff_list xs
    simp only [requiredList, countReqList]
    cases h : required x with
    | none => rw [h] at h1; simp at h1; simp [h1, h2]
    | some r => rw [h] at h1; simp at h1; simp; omega
theorem C17_empty_iff_fields : ∀ (kvs : Fields), requiredFields kvs = [] ↔ countReqFields kvs = 0
  | [] => by simp [requiredFields, countReqFields]
  | (k, v) :: rest => by
    have h1 := C17_empty_iff v
    have h2 := C17_empty_iff_fields rest
    simp only [requiredFields, countReqFields]
    cases h : required v with
    | none => rw [h] at h1; simp at h1; simp [h1, h2]
    | some r => rw [h] at h1; simp at h1; simp; omega
end

/-! ## Idempotence -/

mutual
theorem C17_idempotent : ∀ (v r : Val), required v = some r → required r = some r
  | .map kvs, r, h => by
    have ih := C17_idempotent_fields kvs
    simp only [required] at h
    split at h
    · cases h
    · cases h; simp only [required, ih]
  | .list xs, r, h => by
    have ih := C17_idempotent_list xs
    simp only [required] at h
    split at h
    · cases h
    · cases h; simp only [required, ih]
  | .str s, r, h => by
    simp only [required] at h
    split at h
    · rename_i hs; cases h; simp [required, hs]
    · cases h
  | .null, _, h | .bool _, _, h | .int _, _, h | .flt _, _, h => by simp [required] at h
theorem C17_idempotent_list : ∀ (xs : List Val), requiredList (requiredList xs) = requiredList xs
  | [] => rfl
  | x :: xs => by
    simp only [requiredList]
    cases h : required x with
    | none => exact C17_idempotent_list xs
    | some r => simp [requiredList, C17_idempotent x r h, C17_idempotent_list xs]
theorem C17_idempotent_fields : ∀ (kvs : Fields),
    requiredFields (requiredFields kvs) = requiredFields kvs
  | [] => rfl
  | (k, v) :: rest => by
    simp only [requiredFields]
    cases h : required v with
    | none => exact C17_idempotent_fields rest
    | some r => simp [requiredFields, C17_idempotent v r h, C17_idempotent_fields rest]
end

example : required (.list [.map [("a", .str "$required"), ("b", .int 1)], .str "x"]) =
    some (.list [.map [("a", .str "$required")]]) := by decide

/-! ## Positions: which entries survive, in which order, with which values -/

/-- unconditional form: the surviving entries of a map -/
theorem C17_positions_fields (kvs : Fields) :
    requiredFields kvs =
      (kvs.filter fun kv => decide (0 < countReq kv.2)).map
        fun kv => (kv.1, (required kv.2).getD .null) := by
  induction kvs with
  | nil => rfl
  | cons kv rest ih =>
    obtain ⟨k, v⟩ := kv
    simp only [requiredFields, List.filter_cons]
    cases h : required v with
    | none =>
      have : countReq v = 0 := (C17_empty_iff v).1 h
      simp [this, ih]
    | some r =>
      have : 0 < countReq v := by
        have := (C17_empty_iff v); rw [h] at this; simp at this; omega
      simp [this, ih, h]

/-- unconditional form: the surviving entries of a list -/
theorem C17_positions_entries (xs : List Val) :
    requiredList xs =
      (xs.filter fun x => decide (0 < countReq x)).map fun x => (required x).getD .null := by
  induction xs with
  | nil => rfl
  | cons x rest ih =>
    simp only [requiredList, List.filter_cons]
    cases h : required x with
    | none =>
      have : countReq x = 0 := (C17_empty_iff x).1 h
      simp [this, ih]
    | some r =>
      have : 0 < countReq x := by
        have := (C17_empty_iff x); rw [h] at this; simp at this; omega
      simp [this, ih, h]

/-- The result for a map keeps exactly the entries whose value contains a marker, in the original
    order, each value replaced by its own `required` image. -/
theorem C17_positions_map (kvs rs : Fields) (h : required (.map kvs) = some (.map rs)) :
    rs = (kvs.filter fun kv => decide (0 < countReq kv.2)).map
          fun kv => (kv.1, (required kv.2).getD .null) := by
  rw [← C17_positions_fields]
  simp only [required] at h
  split at h
  · cases h
  · cases h; rfl

/-- keys of the result = keys of the marker-carrying entries, same order -/
theorem C17_positions_map_keys (kvs rs : Fields) (h : required (.map kvs) = some (.map rs)) :
    rs.map (·.1) = (kvs.filter fun kv => decide (0 < countReq kv.2)).map (·.1) := by
  rw [C17_positions_map kvs rs h, List.map_map]; rfl

/-- every value of the result is `required` of an original value under the same key -/
theorem C17_positions_map_values (kvs rs : Fields) (h : required (.map kvs) = some (.map rs))
    (k : String) (r : Val) (hm : (k, r) ∈ rs) :
    ∃ v, (k, v) ∈ kvs ∧ required v = some r := by
  rw [C17_positions_map kvs rs h] at hm
  simp only [List.mem_map, List.mem_filter, decide_eq_true_eq] at hm
  obtain ⟨⟨k', v⟩, ⟨hmem, hpos⟩, heq⟩ := hm
  simp only [Prod.mk.injEq] at heq
  obtain ⟨rfl, hr⟩ := heq
  refine ⟨v, hmem, ?_⟩
  cases h' : required v with
  | none => have := (C17_empty_iff v).1 h'; simp only at hpos; omega
  | some r' => rw [h'] at hr; simp at hr; rw [hr]

example : required (.map [("a", .str "$required"), ("b", .int 1), ("c", .list [.str "$required"])])
    = some (.map [("a", .str "$required"), ("c", .list [.str "$required"])]) := by decide

/-- The result for a list keeps exactly the entries that contain a marker, in the original order,
    each replaced by its own `required` image. -/
theorem C17_positions_list (xs rs : List Val) (h : required (.list xs) = some (.list rs)) :
    rs = (xs.filter fun x => decide (0 < countReq x)).map fun x => (required x).getD .null := by
  rw [← C17_positions_entries]
  simp only [required] at h
  split at h
  · cases h
  · cases h; rfl

example : required (.list [.int 1, .str "$required", .map [("a", .str "x")], .str "$required"])
    = some (.list [.str "$required", .str "$required"]) := by decide

/-! ## Agreement with `validate` (Bkl/Output.lean) -/

mutual
/-- no map key is rejected by `validateString`, and no string leaf other than "$required" is -/
def keysPlain : Val → Bool
  | .str s => s == "$required" || (validateString s).isOk
  | .list xs => keysPlainList xs
  | .map kvs => keysPlainFields kvs
  | _ => true
def keysPlainList : List Val → Bool
  | [] => true
  | x :: xs => keysPlain x && keysPlainList xs
def keysPlainFields : Fields → Bool
  | [] => true
  | (k, v) :: rest => (validateString k).isOk && keysPlain v && keysPlainFields rest
end

mutual
/-- Under `keysPlain`, `validate` is exactly the emptiness test of `required`. -/
theorem C17_validate_eq : ∀ (v : Val), keysPlain v = true →
    validate v = if (required v).isNone then .ok () else .error .requiredField
  | .map kvs, h => by
    have ih := C17_validate_eq_fields kvs (by simpa [keysPlain] using h)
    simp only [validate, ih, required]
    split <;> simp_all
  | .list xs, h => by
    have ih := C17_validate_eq_list xs (by simpa [keysPlain] using h)
    simp only [validate, ih, required]
    split <;> simp_all
  | .str s, h => by
    simp only [keysPlain, Bool.or_eq_true, beq_iff_eq] at h
    simp only [validate, required]
    by_cases hs : s = "$required"
    · subst hs; decide
    · have h2 := h.resolve_left hs
      simp only [beq_iff_eq, hs, if_false, Option.isNone_none, if_true]
      exact o_isOk_unit h2
  | .null, _ | .bool _, _ | .int _, _ | .flt _, _ => by simp [validate, required]; rfl
theorem C17_validate_eq_list : ∀ (xs : List Val), keysPlainList xs = true →
    validateList xs = if (requiredList xs).isEmpty then .ok () else .error .requiredField
  | [], _ => rfl
  | x :: xs, h => by
    simp only [keysPlainList, Bool.and_eq_true] at h
    have h1 := C17_validate_eq x h.1
    have h2 := C17_validate_eq_list xs h.2
    cases hr : required x with
    | none =>
      rw [hr] at h1; simp only [Option.isNone_none, if_true] at h1
      simp only [validateList, requiredList, hr]
      rw [o_seq_of_ok h1, h2]
    | some r =>
      rw [hr] at h1; simp only [Option.isNone_some] at h1
      simp only [validateList, requiredList, hr]
      rw [o_seq_of_error h1]; simp
theorem C17_validate_eq_fields : ∀ (kvs : Fields), keysPlainFields kvs = true →
    validateFields kvs = if (requiredFields kvs).isEmpty then .ok () else .error .requiredField
  | [], _ => rfl
  | (k, v) :: rest, h => by
    simp only [keysPlainFields, Bool.and_eq_true] at h
    have h0 := o_isOk_unit h.1.1
    have h1 := C17_validate_eq v h.1.2
    have h2 := C17_validate_eq_fields rest h.2
    cases hr : required v with
    | none =>
      rw [hr] at h1; simp only [Option.isNone_none, if_true] at h1
      simp only [validateFields, requiredFields, hr]
      rw [o_seq_of_ok h0, o_seq_of_ok h1, h2]
    | some r =>
      rw [hr] at h1; simp only [Option.isNone_some] at h1
      simp only [validateFields, requiredFields, hr]
      rw [o_seq_of_ok h0, o_seq_of_error h1]; simp
end

/-- With plain keys and strings, `validate` fails with `requiredField` iff bklr reports something. -/
theorem C17_agrees_with_validate (v : Val) (h : keysPlain v = true) :
    (validate v = .error .requiredField ↔ required v ≠ none) ∧
    (validate v = .ok () ↔ required v = none) := by
  rw [C17_validate_eq v h]
  cases required v <;> simp

example : keysPlain (.map [("a", .str "$required"), ("b", .list [.str "$$x", .int 1])]) = true := by
  decide

/-! ## The tool main: cmd/bklr/main.go (`Bkl.bklrRun`, Bkl/ToolsCli.lean)

  Helper lemmas are in BklProofs/Lemmas/ToolsCliProofs.lean (prefix `tc_`); the sample file
  system `tc_toolFS` holds /w/r.yaml with the document `tc_req`
  (`{a: $required, b: 1, c: [$required, 2]}`). -/

/-- bklr's format rule differs from bkld/bkli (`C15_tool_format_choice`): the input's format is
    replaced by the extension of `-o` whenever `-o` is given — also by an empty one — and then
    by `-f` whenever `-f` is given — also by an empty one.  The chosen format must be supported. -/
theorem C17_bklr_format_choice (fs : FS) (cwd : Comps) (opts : ToolOpts) (path : String)
    (data : Val) (f : String) (hi : opts.inputs = [path])
    (hg : getOnlyDocument fs cwd path = .ok (data, f)) :
    (∀ x, opts.format = some x →
      bklrRun fs cwd opts =
        if supportedExts.contains x then .ok { format := x, doc := required data }
        else .error .unknownFormat) ∧
    (∀ o, opts.format = none → opts.outPath = some o →
      bklrRun fs cwd opts =
        if supportedExts.contains (extOfPath o) then
          .ok { format := extOfPath o, doc := required data }
        else .error .unknownFormat) ∧
    (opts.format = none → opts.outPath = none →
      bklrRun fs cwd opts =
        if supportedExts.contains f then .ok { format := f, doc := required data }
        else .error .unknownFormat) := by
  refine ⟨?_, ?_, ?_⟩
  · intro x hx
    rw [tc_bklrRun_one fs cwd opts path hi, hg]
    simp only
    rw [hx]
    simp only
    rw [tc_checkFormat_eq]
    by_cases hc : supportedExts.contains x = true
    · rw [if_pos hc, if_pos hc]
    · rw [if_neg hc, if_neg hc]
  · intro o hx ho
    rw [tc_bklrRun_one fs cwd opts path hi, hg]
    simp only
    rw [hx, ho]
    simp only
    rw [tc_checkFormat_eq]
    by_cases hc : supportedExts.contains (extOfPath o) = true
    · rw [if_pos hc, if_pos hc]
    · rw [if_neg hc, if_neg hc]
  · intro hx ho
    rw [tc_bklrRun_one fs cwd opts path hi, hg]
    simp only
    rw [hx, ho]
    simp only
    rw [tc_checkFormat_eq]
    by_cases hc : supportedExts.contains f = true
    · rw [if_pos hc, if_pos hc]
    · rw [if_neg hc, if_neg hc]

example : ({ inputs := ["r.yaml"] } : ToolOpts).inputs = ["r.yaml"] ∧
    getOnlyDocument tc_toolFS ["w"] "r.yaml" = .ok (tc_req, "yaml") := ⟨rfl, tc_toolFS_get_r⟩

/-- `bklr r.yaml`: the input's format -/
theorem C17_bklr_sample :
    bklrRun tc_toolFS ["w"] { inputs := ["r.yaml"] } =
      .ok { format := "yaml",
            doc := some (.map [("a", .str "$required"), ("c", .list [.str "$required"])]) } := by
  rw [(C17_bklr_format_choice tc_toolFS ["w"] _ "r.yaml" tc_req "yaml" rfl tc_toolFS_get_r).2.2
    rfl rfl]
  rfl

/-- `bklr -o out.toml r.yaml` → toml; `bklr -f json -o out.toml r.yaml` → json -/
example : bklrRun tc_toolFS ["w"] { outPath := some "out.toml", inputs := ["r.yaml"] } =
    .ok { format := "toml", doc := required tc_req } := by
  rw [(C17_bklr_format_choice tc_toolFS ["w"] _ "r.yaml" tc_req "yaml" rfl tc_toolFS_get_r).2.1
    "out.toml" rfl rfl, tc_ext_out_toml]
  rfl

example : bklrRun tc_toolFS ["w"]
      { format := some "json", outPath := some "out.toml", inputs := ["r.yaml"] } =
    .ok { format := "json", doc := required tc_req } := by
  rw [(C17_bklr_format_choice tc_toolFS ["w"] _ "r.yaml" tc_req "yaml" rfl tc_toolFS_get_r).1
    "json" rfl]
  rfl

/-- the difference to bkld/bkli: `-o out` (no extension) does not fall back to the input's
    format — bklr fails, while `toolFormat` answers `yaml` -/
theorem C17_bklr_format_differs :
    bklrRun tc_toolFS ["w"] { outPath := some "out", inputs := ["r.yaml"] } =
      .error .unknownFormat ∧
    toolFormat { outPath := some "out", inputs := ["r.yaml"] } "yaml" = "yaml" ∧
    bklrRun tc_toolFS ["w"] { format := some "", inputs := ["r.yaml"] } = .error .unknownFormat ∧
    toolFormat { format := some "", inputs := ["r.yaml"] } "yaml" = "yaml" := by
  refine ⟨?_, tc_toolFormat_fb _ _ (.inl rfl) (.inr ⟨"out", rfl, tc_ext_out⟩), ?_,
    tc_toolFormat_fb _ _ (.inr rfl) (.inl rfl)⟩
  · rw [(C17_bklr_format_choice tc_toolFS ["w"] _ "r.yaml" tc_req "yaml" rfl tc_toolFS_get_r).2.1
      "out" rfl rfl, tc_ext_out]
    rfl
  · rw [(C17_bklr_format_choice tc_toolFS ["w"] _ "r.yaml" tc_req "yaml" rfl tc_toolFS_get_r).1
      "" rfl]
    rfl

/-- bklr succeeds exactly when it has one input, the input yields exactly one merged document
    (`getOnlyDocument`; the document is NOT evaluated), and the chosen format is supported; the
    emitted document is `required` of that merged document. -/
theorem C17_bklr_result_iff (fs : FS) (cwd : Comps) (opts : ToolOpts) (r : ToolResult) :
    bklrRun fs cwd opts = .ok r ↔
      ∃ path data f,
        opts.inputs = [path] ∧ getOnlyDocument fs cwd path = .ok (data, f) ∧
        (match opts.format with
          | some x => x
          | none => match opts.outPath with | some o => extOfPath o | none => f) ∈ supportedExts ∧
        r = { format := (match opts.format with
                | some x => x
                | none => match opts.outPath with | some o => extOfPath o | none => f),
              doc := required data } :=
  tc_bklrRun_ok_iff fs cwd opts r

/-- the forward direction, field by field; nothing is emitted iff the merged document carries
    no `$required` marker (`C17_empty_iff`) -/
theorem C17_bklr_result (fs : FS) (cwd : Comps) (opts : ToolOpts) (r : ToolResult)
    (h : bklrRun fs cwd opts = .ok r) :
    ∃ path data f,
      opts.inputs = [path] ∧ getOnlyDocument fs cwd path = .ok (data, f) ∧
      r.doc = required data ∧ (r.doc = none ↔ countReq data = 0) ∧
      (∀ out, r.doc = some out → onlyMarkers out = true ∧ countReq out = countReq data) ∧
      r.format = (match opts.format with
        | some x => x
        | none => match opts.outPath with | some o => extOfPath o | none => f) ∧
      r.format ∈ supportedExts := by
  obtain ⟨path, data, f, hi, hg, hmem, rfl⟩ := (C17_bklr_result_iff fs cwd opts r).1 h
  exact ⟨path, data, f, hi, hg, rfl, C17_empty_iff data,
    fun out ho => ⟨C17_only_markers data out ho, C17_count_some data out ho⟩, rfl, hmem⟩

example : ∃ r, bklrRun tc_toolFS ["w"] { inputs := ["r.yaml"] } = .ok r := ⟨_, C17_bklr_sample⟩

/-- a document without markers: bklr succeeds and emits nothing -/
example : bklrRun tc_toolFS ["w"] { inputs := ["a.yaml"] } = .ok { format := "yaml", doc := none } := by
  rw [(C17_bklr_format_choice tc_toolFS ["w"] _ "a.yaml" tc_base "yaml" rfl tc_toolFS_get_a).2.2
    rfl rfl]
  rfl

/-- The merged document a tool works on never has a top-level `$parent` or `$match` key (both
    are consumed by the loader / the parser), and neither has bklr's output.  This is what makes
    the output readable back as a plain single-document file. -/
theorem C17_bklr_output_no_directives (fs : FS) (cwd : Comps) (opts : ToolOpts) (r : ToolResult)
    (out : Val) (h : bklrRun fs cwd opts = .ok r) (ho : r.doc = some out) :
    ∀ m, out = .map m → fget m "$parent" = none ∧ fget m "$match" = none := by
  obtain ⟨path, data, f, _, hg, hdoc, _⟩ := C17_bklr_result fs cwd opts r h
  rw [hdoc] at ho
  have hc := tc_required_clean (tc_getOnlyDocument_clean hg) ho
  rintro m rfl
  simpa [tc_clean, tc_noKey] using hc

example : (∃ r, bklrRun tc_toolFS ["w"] { inputs := ["r.yaml"] } = .ok r ∧
    r.doc = some (.map [("a", .str "$required"), ("c", .list [.str "$required"])])) :=
  ⟨_, C17_bklr_sample, rfl⟩

/-- Idempotence through the CLI.  Let bklr succeed and emit `out` in format `r.format`.  Store
    the output as the only file `/w/out.<format>` of a file system (`tc_outFS`: the directory
    /w and that one single-document file, no parents) and run `bklr out.<format>` in /w:
    the result is the same document in the same format.  No hypothesis on the original input. -/
theorem C17_bklr_cli_idempotent (fs : FS) (cwd : Comps) (opts : ToolOpts) (r : ToolResult)
    (out : Val) (h : bklrRun fs cwd opts = .ok r) (ho : r.doc = some out) :
    bklrRun (tc_outFS r.format out) ["w"] { inputs := ["out" ++ "." ++ r.format] } =
      .ok { format := r.format, doc := some out } := by
  obtain ⟨path, data, f, _, hg, hdoc, _, _, _, hmem⟩ := C17_bklr_result fs cwd opts r h
  rw [hdoc] at ho
  have hc := tc_required_clean (tc_getOnlyDocument_clean hg) ho
  rw [C17_bklr_result_iff]
  refine ⟨"out" ++ "." ++ r.format, out, r.format, rfl, tc_outFS_get r.format hmem out hc, hmem, ?_⟩
  rw [C17_idempotent data out ho]

example : (∃ r, bklrRun tc_toolFS ["w"] { inputs := ["r.yaml"] } = .ok r ∧
    r.doc = some (.map [("a", .str "$required"), ("c", .list [.str "$required"])])) :=
  ⟨_, C17_bklr_sample, rfl⟩

/-- the instance for the sample: `bklr r.yaml > out.yaml; bklr out.yaml` -/
example :
    bklrRun (tc_outFS "yaml" (.map [("a", .str "$required"), ("c", .list [.str "$required"])]))
      ["w"] { inputs := ["out" ++ "." ++ "yaml"] } =
      .ok { format := "yaml",
            doc := some (.map [("a", .str "$required"), ("c", .list [.str "$required"])]) } :=
  C17_bklr_cli_idempotent tc_toolFS ["w"] { inputs := ["r.yaml"] }
    { format := "yaml",
      doc := some (.map [("a", .str "$required"), ("c", .list [.str "$required"])]) }
    (.map [("a", .str "$required"), ("c", .list [.str "$required"])]) C17_bklr_sample rfl

end Bkl
