/-
  C02 — "Stream layering targets the right documents and treats each independently".

  The first section is a *specification* of which documents a new document (the "patch") is
  layered onto, written from the documentation and independent of `mergeDocument`'s control
  flow.  The theorems say that `mergeDocument` (Bkl/Parser.lean, mirroring parser.go) selects
  exactly those documents, merges the patch body into each of them separately (the new data of
  a selected document is `merge ownData body`), leaves every other document alone, and fails
  as a whole when one target's merge fails.
-/
import BklProofs.Lemmas.Parser
import BklProofs.Lemmas.Merge
import BklProofs.Lemmas.Order
import BklProofs.Lemmas.Process1
import BklProofs.Lemmas.C02Files
namespace Bkl

/-! ## Specification of the selection -/

/-- the parser state with the patch's own parents registered -/
def registered (st : PState) (patch : Doc) : PState :=
  { st with known := addParents st.known patch.id patch.parents }

/-- `id` is a (transitive) ancestor of the patch.  Computed with the parser's fuel-bounded
    `allParents`; `C02_ancestor_iff` below shows that this is exactly reachability from the
    patch's direct parents along recorded parent links (`Ancestor`, Lemmas/Parser.lean). -/
def isAncestorOf (st0 : PState) (patch : Doc) (id : String) : Bool :=
  (allParents st0.known (st0.known.length + 1) patch.parents).contains id

/-- the ids of the documents satisfying `p`, in document order -/
def idsWhere (st : PState) (p : String → Val → Bool) : List String :=
  (st.docs.filter fun d => p d.1 d.2).map (·.1)

/-- the `$match` directive of a patch: its pattern and the body (the patch minus `$match`) -/
def matchDirective : Val → Option (Val × Val)
  | .map kvs => (fget kvs "$match").map fun pat => (pat, .map (fdel kvs "$match"))
  | _ => none

inductive Selection where
  /-- a new document `(newId, body)` is added at the end of the stream -/
  | append (newId : String) (body : Val)
  /-- `body` is merged into each of the documents `targets` -/
  | merge (targets : List String) (body : Val)
  /-- a non-null `$match` matched nothing: error -/
  | noMatch
  deriving DecidableEq, Repr

/-- The selection, as documented:
    * `$match: null` → append;
    * `$match: pat` → the ancestors that match; if none, all documents that match; if none, error;
    * otherwise → the ancestors; if none, append. -/
def selectionOf (st : PState) (patch : Doc) : Selection :=
  let st0 := registered st patch
  match matchDirective patch.data with
  | some (pat, body) =>
    if pat = .null then .append (patch.id ++ "|matchnull") body
    else
      let ancestorsMatching := idsWhere st0 fun id d => isAncestorOf st0 patch id && matchV d pat
      let allMatching := idsWhere st0 fun _ d => matchV d pat
      if ancestorsMatching ≠ [] then .merge ancestorsMatching body
      else if allMatching ≠ [] then .merge allMatching body
      else .noMatch
  | none =>
    let ancestors := idsWhere st0 fun id _ => isAncestorOf st0 patch id
    if ancestors ≠ [] then .merge ancestors patch.data
    else .append patch.id patch.data

/-- the parents recorded for the patch by a selection (besides its own direct parents) -/
def Selection.linked (patchId : String) : Selection → List String
  | .append newId _ => if newId = patchId then [] else [newId]
  | .merge targets _ => targets
  | .noMatch => []

/-- the documents a selection merges into -/
def Selection.targets : Selection → List String
  | .merge targets _ => targets
  | _ => []

/-- the ids a selection adds at the end of the stream -/
def Selection.newIds : Selection → List String
  | .append newId _ => [newId]
  | _ => []

/-- "the patch makes the same selection in both streams, at every step of the run" -/
def SameSelections : PState → PState → List Doc → Prop
  | _, _, [] => True
  | s₁, s₂, p :: ps =>
    selectionOf s₁ p = selectionOf s₂ p ∧
      ∀ s₁' s₂', mergeDocument s₁ p = .ok s₁' → mergeDocument s₂ p = .ok s₂' →
        SameSelections s₁' s₂' ps

/-! ### witnesses used by the non-vacuity examples -/

/-- two scalar documents `a`, `b` -/
def C02_st : PState :=
  { docs := [("a", .int 1), ("b", .int 2)], known := [("a", []), ("b", [])] }
/-- a layer on top of `a` -/
def C02_patch : Doc := { id := "c", parents := ["a"], data := .int 5 }
def C02_st' : PState :=
  { docs := [("a", .int 5), ("b", .int 2)], known := [("a", []), ("b", []), ("c", ["a", "a"])] }

/-- two map documents -/
def C02_mst : PState :=
  { docs := [("a", .map [("x", .int 1)]), ("b", .map [("x", .int 2)])],
    known := [("a", []), ("b", [])] }
/-- a parentless patch selecting `x: 1` by `$match` -/
def C02_mpatch : Doc :=
  { id := "c", parents := [], data := .map [("$match", .map [("x", .int 1)]), ("y", .int 2)] }
def C02_mst' : PState :=
  { docs := [("a", .map [("x", .int 1), ("y", .int 2)]), ("b", .map [("x", .int 2)])],
    known := [("a", []), ("b", []), ("c", ["a"])] }

theorem C02_sel_example : selectionOf C02_st C02_patch = .merge ["a"] (.int 5) := by decide
theorem C02_msel_example :
    selectionOf C02_mst C02_mpatch = .merge ["a"] (.map [("y", .int 2)]) := by decide

/-! ## "ancestor" means: reachable along parent links -/

/-- `isAncestorOf` is the reflexive-transitive closure of the recorded `Parents` links, started
    at the patch's direct parents:
    `Ancestor known direct x` is generated by `x ∈ direct → Ancestor x` and
    `Ancestor p → x ∈ lookupParents known p → Ancestor x`.
    (So the fuel `known.length + 1` in `parentsOf` never cuts the closure short.) -/
theorem C02_ancestor_iff (st0 : PState) (patch : Doc) (id : String) :
    isAncestorOf st0 patch id = true ↔ Ancestor st0.known patch.parents id := by
  unfold isAncestorOf
  rw [List.contains_iff_mem]
  exact mem_allParents_iff_ancestor _ _ _

/-! ## The selection made by `mergeDocument` is the specified one -/

/-- `mergeDocument` = "compute the specified selection, then apply it". -/
theorem C02_selection (st : PState) (patch : Doc) :
    mergeDocument st patch =
      match selectionOf st patch with
      | .noMatch => .error .noMatchFound
      | .append newId body =>
        .ok { docs := st.docs ++ [(newId, body)],
              known := addParents (registered st patch).known patch.id
                (if newId = patch.id then [] else [newId]) }
      | .merge targets body => mergeInto (registered st patch) patch.id targets body := by
  have hdflt : ∀ data : Val,
      (if (parentsOf (registered st patch) patch.parents).isEmpty then
          (pure { registered st patch with
                    docs := (registered st patch).docs ++ [(patch.id, data)] } : R PState)
        else mergeInto (registered st patch) patch.id
              (parentsOf (registered st patch) patch.parents) data) =
      match (if idsWhere (registered st patch)
                  (fun id _ => isAncestorOf (registered st patch) patch id) ≠ [] then
               Selection.merge (idsWhere (registered st patch)
                  (fun id _ => isAncestorOf (registered st patch) patch id)) data
             else Selection.append patch.id data) with
      | .noMatch => .error .noMatchFound
      | .append newId body =>
        .ok { docs := st.docs ++ [(newId, body)],
              known := addParents (registered st patch).known patch.id
                (if newId = patch.id then [] else [newId]) }
      | .merge targets body => mergeInto (registered st patch) patch.id targets body := by
    intro data
    have hp : idsWhere (registered st patch)
        (fun id _ => isAncestorOf (registered st patch) patch id) =
        parentsOf (registered st patch) patch.parents := rfl
    rw [hp]
    cases hts : parentsOf (registered st patch) patch.parents with
    | nil =>
      simp only [List.isEmpty_nil, if_true, ne_eq, not_true_eq_false, if_false]
      have hk : addParents (registered st patch).known patch.id [] = (registered st patch).known :=
        addParents_nil_of_any _ _ (addParents_any_self st.known patch.id patch.parents)
      rw [hk]
      rfl
    | cons t ts => simp
  unfold mergeDocument selectionOf
  cases hd : patch.data with
  | map kvs =>
    simp only [matchDirective]
    cases hg : fget kvs "$match" with
    | none =>
      simp only [Option.map_none]
      exact hdflt _
    | some pat =>
      simp only [Option.map_some]
      by_cases hp : pat = .null
      · subst hp
        simp only [Val.isNull, if_true, append_matchnull_ne, if_false]
        rfl
      · have hn : pat.isNull = false := by
          cases pat <;> simp [Val.isNull] at hp ⊢
        simp only [hn, if_neg hp, Bool.false_eq_true, if_false]
        have hfm : findMatches (registered st patch) patch.parents pat =
            if idsWhere (registered st patch)
                (fun id d => isAncestorOf (registered st patch) patch id && matchV d pat) ≠ [] then
              idsWhere (registered st patch)
                (fun id d => isAncestorOf (registered st patch) patch id && matchV d pat)
            else idsWhere (registered st patch) (fun _ d => matchV d pat) :=
          findMatches_eq _ _ _
        rw [show ({ docs := st.docs, known := addParents st.known patch.id patch.parents } : PState)
              = registered st patch from rfl, hfm]
        by_cases ha : idsWhere (registered st patch)
            (fun id d => isAncestorOf (registered st patch) patch id && matchV d pat) = []
        · simp only [ha, ne_eq, not_true_eq_false, if_false]
          by_cases hb : idsWhere (registered st patch) (fun _ d => matchV d pat) = []
          · simp only [hb, List.isEmpty_nil, if_true, not_true_eq_false, if_false]
            rfl
          · have hb' : (idsWhere (registered st patch) (fun _ d => matchV d pat)).isEmpty = false :=
              (isEmpty_eq_false_iff_ne_nil _).2 hb
            simp only [hb', hb, not_false_eq_true, if_true, Bool.false_eq_true, if_false]
        · have ha' : (idsWhere (registered st patch) (fun id d =>
              isAncestorOf (registered st patch) patch id && matchV d pat)).isEmpty = false :=
            (isEmpty_eq_false_iff_ne_nil _).2 ha
          simp only [ne_eq, ha, not_false_eq_true, if_true, ha', Bool.false_eq_true, if_false]
  | null => exact hdflt _
  | bool b => exact hdflt _
  | int n => exact hdflt _
  | flt f => exact hdflt _
  | str s => exact hdflt _
  | list xs => exact hdflt _

theorem C02_selection_noMatch {st : PState} {patch : Doc} (h : selectionOf st patch = .noMatch) :
    mergeDocument st patch = .error .noMatchFound := by
  rw [C02_selection, h]

theorem C02_selection_append {st : PState} {patch : Doc} {newId : String} {body : Val}
    (h : selectionOf st patch = .append newId body) :
    mergeDocument st patch =
      .ok { docs := st.docs ++ [(newId, body)],
            known := addParents (registered st patch).known patch.id
              (if newId = patch.id then [] else [newId]) } := by
  rw [C02_selection, h]

theorem C02_selection_merge {st : PState} {patch : Doc} {targets : List String} {body : Val}
    (h : selectionOf st patch = .merge targets body) :
    mergeDocument st patch = mergeInto (registered st patch) patch.id targets body := by
  rw [C02_selection, h]

example : selectionOf C02_st C02_patch = .merge ["a"] (.int 5) := C02_sel_example
example : selectionOf C02_st { id := "c", parents := [], data := .int 5 } =
    .append "c" (.int 5) := by decide
example : selectionOf C02_mst
    { id := "c", parents := [], data := .map [("$match", .map [("x", .int 3)])] } = .noMatch := by
  decide

/-! ## C02_targets: every document gets `merge ownData body` if selected, else stays -/

/-- Merge case, by position: the stream keeps its length; the document at position `i` keeps
    its id; its new data is `merge d body` if its id is selected and `d` otherwise. -/
theorem C02_targets {st st' : PState} {patch : Doc} {targets : List String} {body : Val}
    (hm : mergeDocument st patch = .ok st') (hs : selectionOf st patch = .merge targets body) :
    st'.docs.length = st.docs.length ∧
      ∀ (i : Nat) (id : String) (d : Val), st.docs[i]? = some (id, d) →
        ∃ d', st'.docs[i]? = some (id, d') ∧
          (if id ∈ targets then merge d body = .ok d' else d' = d) := by
  rw [C02_selection_merge hs, mergeInto_ok_iff] at hm
  obtain ⟨hf, _⟩ := hm
  refine ⟨(forall₂_length hf).symm, ?_⟩
  intro i id d hi
  obtain ⟨⟨id', d'⟩, hb, he, hr⟩ := forall₂_getElem? hf i hi
  simp only at he hr
  subst he
  exact ⟨d', hb, hr⟩

/-- Merge case, as one equation: the new stream is the old one with `merge · body` applied to
    the data of the selected documents — and all of these merges succeed. -/
theorem C02_targets_map {st st' : PState} {patch : Doc} {targets : List String} {body : Val}
    (hm : mergeDocument st patch = .ok st') (hs : selectionOf st patch = .merge targets body) :
    (∀ p ∈ st.docs, p.1 ∈ targets → ∃ v, merge p.2 body = .ok v) ∧
      st'.docs = st.docs.map fun p =>
        (p.1, if p.1 ∈ targets then (match merge p.2 body with | .ok v => v | .error _ => p.2)
              else p.2) := by
  rw [C02_selection_merge hs, mergeInto_ok_iff] at hm
  obtain ⟨hf, _⟩ := hm
  refine ⟨?_, forall2_stepRel_eq_map hf⟩
  intro p hp ht
  obtain ⟨b, _, _, hr⟩ := forall₂_mem_left hf hp
  rw [if_pos ht] at hr
  exact ⟨b.2, hr⟩

/-- Merge case: the step succeeds exactly when the merge into every selected document does. -/
theorem C02_targets_ok_iff {st : PState} {patch : Doc} {targets : List String} {body : Val}
    (hs : selectionOf st patch = .merge targets body) :
    (∃ st', mergeDocument st patch = .ok st') ↔
      ∀ p ∈ st.docs, p.1 ∈ targets → ∃ v, merge p.2 body = .ok v := by
  constructor
  · rintro ⟨st', hm⟩
    exact (C02_targets_map hm hs).1
  · intro h
    refine ⟨{ docs := st.docs.map (stepFun targets body),
              known := addParents (registered st patch).known patch.id targets }, ?_⟩
    rw [C02_selection_merge hs, mergeInto_ok_iff]
    exact ⟨forall2_stepRel_of_ok h, rfl⟩

/-- Append cases: exactly one new document, holding the body, at the end. -/
theorem C02_targets_append {st st' : PState} {patch : Doc} {newId : String} {body : Val}
    (hm : mergeDocument st patch = .ok st') (hs : selectionOf st patch = .append newId body) :
    st'.docs = st.docs ++ [(newId, body)] := by
  rw [C02_selection_append hs] at hm
  cases hm; rfl

/-- the example: `c` (parent `a`) is merged into `a` only -/
theorem C02_run_example : mergeDocument C02_st C02_patch = .ok C02_st' := by
  rw [C02_selection_merge C02_sel_example, mergeInto_ok_iff]
  refine ⟨Forall2.cons ⟨rfl, ?_⟩ (Forall2.cons ⟨rfl, ?_⟩ Forall2.nil), by decide⟩
  · rw [if_pos (by decide)]
    show Bkl.merge (.int 1) (.int 5) = .ok (.int 5)
    rw [merge_scalar _ _ rfl]; rfl
  · rw [if_neg (by decide)]

example : mergeDocument C02_st C02_patch = .ok C02_st' ∧
    selectionOf C02_st C02_patch = .merge ["a"] (.int 5) := ⟨C02_run_example, C02_sel_example⟩

/-- the `$match` example: the parentless patch is merged into the one document it matches -/
theorem C02_mrun_example : mergeDocument C02_mst C02_mpatch = .ok C02_mst' := by
  rw [C02_selection_merge C02_msel_example, mergeInto_ok_iff]
  refine ⟨Forall2.cons ⟨rfl, ?_⟩ (Forall2.cons ⟨rfl, ?_⟩ Forall2.nil), by decide⟩
  · rw [if_pos (by decide)]
    show Bkl.merge (.map [("x", .int 1)]) (.map [("y", .int 2)]) =
      .ok (.map [("x", .int 1), ("y", .int 2)])
    rw [merge_map_map, mergeMapMap_noreplace (by decide), mergeFields_cons]
    have h1 : ((Val.int 2).toStr = "$delete") = False := by decide
    have h2 : fget [("x", Val.int 1)] "y" = none := by decide
    simp only [h1, if_false, h2, mergeFields_nil]
    rfl
  · rw [if_neg (by decide)]

example : mergeDocument C02_mst C02_mpatch = .ok C02_mst' ∧
    selectionOf C02_mst C02_mpatch = .merge ["a"] (.map [("y", .int 2)]) :=
  ⟨C02_mrun_example, C02_msel_example⟩

/-- the recorded parents of the patch: its own, plus what it was layered onto -/
theorem C02_known {st st' : PState} {patch : Doc} (hm : mergeDocument st patch = .ok st') :
    st'.known = addParents (addParents st.known patch.id patch.parents) patch.id
      ((selectionOf st patch).linked patch.id) := by
  rw [C02_selection] at hm
  cases hs : selectionOf st patch with
  | noMatch => rw [hs] at hm; cases hm
  | append newId body => rw [hs] at hm; cases hm; rfl
  | merge targets body =>
    rw [hs] at hm
    exact ((mergeInto_ok_iff _ _ _ _ _).1 hm).2

/-- the ids of the stream: unchanged, or one new id at the end -/
theorem C02_ids {st st' : PState} {patch : Doc} (hm : mergeDocument st patch = .ok st') :
    st'.docs.map (·.1) = st.docs.map (·.1) ++ (selectionOf st patch).newIds := by
  rw [C02_selection] at hm
  cases hs : selectionOf st patch with
  | noMatch => rw [hs] at hm; cases hm
  | append newId body =>
    rw [hs] at hm; cases hm
    simp [Selection.newIds]
  | merge targets body =>
    rw [hs] at hm
    rw [forall₂_stepRel_ids ((mergeInto_ok_iff _ _ _ _ _).1 hm).1]
    simp [Selection.newIds, registered]

/-! ## C02_frame / C02_order -/

/-- Documents that are not selected are the same before and after, at the same position. -/
theorem C02_frame {st st' : PState} {patch : Doc} (hm : mergeDocument st patch = .ok st')
    {i : Nat} {id : String} {d : Val} (hi : st.docs[i]? = some (id, d))
    (hn : id ∉ (selectionOf st patch).targets) : st'.docs[i]? = some (id, d) := by
  cases hs : selectionOf st patch with
  | noMatch => rw [C02_selection_noMatch hs] at hm; cases hm
  | append newId body =>
    rw [C02_targets_append hm hs]
    have hlt : i < st.docs.length := (List.getElem?_eq_some_iff.1 hi).1
    rw [List.getElem?_append_left hlt, hi]
  | merge targets body =>
    rw [hs] at hn
    have hn' : id ∉ targets := hn
    obtain ⟨d', h1, h2⟩ := (C02_targets hm hs).2 i id d hi
    rw [if_neg hn'] at h2
    rw [h1, h2]

/-- membership form of the frame property -/
theorem C02_frame_mem {st st' : PState} {patch : Doc} (hm : mergeDocument st patch = .ok st')
    {id : String} {d : Val} (hd : (id, d) ∈ st.docs)
    (hn : id ∉ (selectionOf st patch).targets) : (id, d) ∈ st'.docs := by
  obtain ⟨i, hi⟩ := List.mem_iff_getElem?.1 hd
  exact List.mem_iff_getElem?.2 ⟨i, C02_frame hm hi hn⟩

example : mergeDocument C02_st C02_patch = .ok C02_st' ∧ C02_st.docs[1]? = some ("b", .int 2) ∧
    "b" ∉ (selectionOf C02_st C02_patch).targets :=
  ⟨C02_run_example, rfl, by decide⟩

/-- Ids keep their order; the stream only grows at the end, by at most one document. -/
theorem C02_order {st st' : PState} {patch : Doc} (hm : mergeDocument st patch = .ok st') :
    st.docs.map (·.1) <+: st'.docs.map (·.1) ∧
      st.docs.length ≤ st'.docs.length ∧ st'.docs.length ≤ st.docs.length + 1 := by
  have h := C02_ids hm
  refine ⟨⟨_, h.symm⟩, ?_⟩
  have hl := congrArg List.length h
  simp only [List.length_map, List.length_append] at hl
  have : (selectionOf st patch).newIds.length ≤ 1 := by
    cases selectionOf st patch <;> simp [Selection.newIds]
  omega

/-! ## C02_local: the new data of a document depends on its own data and the patch only -/

/-- The new document at position `i` is a function of the old document at position `i`, the
    selected ids and the patch body — no other document's data occurs in it. -/
theorem C02_local {st st' : PState} {patch : Doc} {targets : List String} {body : Val}
    (hm : mergeDocument st patch = .ok st') (hs : selectionOf st patch = .merge targets body)
    {i : Nat} {id : String} {d : Val} (hi : st.docs[i]? = some (id, d)) :
    st'.docs[i]? = some (id, if id ∈ targets then
        (match merge d body with | .ok v => v | .error _ => d) else d) := by
  rw [(C02_targets_map hm hs).2, List.getElem?_map, hi]
  rfl

example : mergeDocument C02_mst C02_mpatch = .ok C02_mst' ∧
    selectionOf C02_mst C02_mpatch = .merge ["a"] (.map [("y", .int 2)]) ∧
    C02_mst.docs[1]? = some ("b", .map [("x", .int 2)]) :=
  ⟨C02_mrun_example, C02_msel_example, rfl⟩

/-- Two streams of the same length for which the patch makes the same selection, and which
    hold the same document at position `i`: after the step they still hold the same document
    at position `i` — whatever the *other* documents are. -/
theorem C02_noninterference_step {st₁ st₂ st₁' st₂' : PState} {patch : Doc}
    (hlen : st₁.docs.length = st₂.docs.length)
    (hsel : selectionOf st₁ patch = selectionOf st₂ patch)
    (h₁ : mergeDocument st₁ patch = .ok st₁') (h₂ : mergeDocument st₂ patch = .ok st₂')
    {i : Nat} (hi : st₁.docs[i]? = st₂.docs[i]?) : st₁'.docs[i]? = st₂'.docs[i]? := by
  cases hs : selectionOf st₁ patch with
  | noMatch => rw [C02_selection_noMatch hs] at h₁; cases h₁
  | append newId body =>
    rw [C02_targets_append h₁ hs, C02_targets_append h₂ (hsel ▸ hs)]
    rw [List.getElem?_append, List.getElem?_append, hlen, hi]
  | merge targets body =>
    have hs₂ : selectionOf st₂ patch = .merge targets body := hsel ▸ hs
    obtain ⟨hl₁, ht₁⟩ := C02_targets h₁ hs
    obtain ⟨hl₂, ht₂⟩ := C02_targets h₂ hs₂
    cases hd : st₁.docs[i]? with
    | none =>
      have hd₂ : st₂.docs[i]? = none := hi ▸ hd
      rw [List.getElem?_eq_none_iff] at hd hd₂
      rw [List.getElem?_eq_none_iff.2 (by omega), List.getElem?_eq_none_iff.2 (by omega)]
    | some p =>
      obtain ⟨id, d⟩ := p
      obtain ⟨d₁, e₁, r₁⟩ := ht₁ i id d hd
      obtain ⟨d₂, e₂, r₂⟩ := ht₂ i id d (hi ▸ hd)
      rw [e₁, e₂]
      by_cases ht : id ∈ targets
      · rw [if_pos ht] at r₁ r₂
        rw [r₁] at r₂; cases r₂; rfl
      · rw [if_neg ht] at r₁ r₂
        rw [r₁, r₂]

/-- the same patch on a stream whose *other* document differs: same selection, same `a` -/
example :
    let st₂ : PState := { docs := [("a", .int 1), ("b", .int 7)], known := [("a", []), ("b", [])] }
    C02_st.docs.length = st₂.docs.length ∧
    selectionOf C02_st C02_patch = selectionOf st₂ C02_patch ∧
    C02_st.docs[0]? = st₂.docs[0]? ∧ C02_st.docs[1]? ≠ st₂.docs[1]? := by decide

/-! ## C02_singleton: a selected document receives what it would receive alone -/

/-- The new data of a selected document is the result of the one-document merge
    `merge d body` — no other document's data occurs. -/
theorem C02_singleton {st st' : PState} {patch : Doc} {targets : List String} {body : Val}
    (hm : mergeDocument st patch = .ok st') (hs : selectionOf st patch = .merge targets body)
    {i : Nat} {id : String} {d : Val} (hi : st.docs[i]? = some (id, d)) (ht : id ∈ targets) :
    ∃ d', merge d body = .ok d' ∧ st'.docs[i]? = some (id, d') := by
  obtain ⟨d', h1, h2⟩ := (C02_targets hm hs).2 i id d hi
  rw [if_pos ht] at h2
  exact ⟨d', h2, h1⟩

theorem C02_singleton_mem {st st' : PState} {patch : Doc} {targets : List String} {body : Val}
    (hm : mergeDocument st patch = .ok st') (hs : selectionOf st patch = .merge targets body)
    {id : String} {d : Val} (hd : (id, d) ∈ st.docs) (ht : id ∈ targets) :
    ∃ d', merge d body = .ok d' ∧ (id, d') ∈ st'.docs := by
  obtain ⟨i, hi⟩ := List.mem_iff_getElem?.1 hd
  obtain ⟨d', h1, h2⟩ := C02_singleton hm hs hi ht
  exact ⟨d', h1, List.mem_iff_getElem?.2 ⟨i, h2⟩⟩

example : mergeDocument C02_st C02_patch = .ok C02_st' ∧
    selectionOf C02_st C02_patch = .merge ["a"] (.int 5) ∧
    C02_st.docs[0]? = some ("a", .int 1) ∧ "a" ∈ ["a"] :=
  ⟨C02_run_example, C02_sel_example, rfl, by decide⟩

/-- Literally "the result it would receive if it were the only document in the stream"
    (ids pairwise distinct): running the same patch on the one-document stream `[(id, d)]`
    (same recorded parents) succeeds, selects that document, and yields exactly the data `d'`
    that document `id` has after the step on the full stream. -/
theorem C02_singleton_stream {st st' : PState} {patch : Doc} {targets : List String} {body : Val}
    (hm : mergeDocument st patch = .ok st') (hs : selectionOf st patch = .merge targets body)
    (hnd : (st.docs.map (·.1)).Nodup)
    {i : Nat} {id : String} {d : Val} (hi : st.docs[i]? = some (id, d)) (ht : id ∈ targets) :
    ∃ d' known', mergeDocument { docs := [(id, d)], known := st.known } patch =
        .ok { docs := [(id, d')], known := known' } ∧ st'.docs[i]? = some (id, d') := by
  obtain ⟨d', hd', hi'⟩ := C02_singleton hm hs hi ht
  have hmem : (id, d) ∈ st.docs := List.mem_of_getElem? hi
  have key : ∀ q : String → Val → Bool, id ∈ idsWhere (registered st patch) q → q id d = true := by
    intro q hq
    unfold idsWhere at hq
    rw [List.mem_map] at hq
    obtain ⟨⟨id0, d0⟩, hf, he⟩ := hq
    rw [List.mem_filter] at hf
    simp only at he
    subst he
    have : d0 = d := distinctKeys_unique hnd hf.1 hmem
    subst this
    exact hf.2
  have single : ∀ q : String → Val → Bool,
      idsWhere (registered { docs := [(id, d)], known := st.known } patch) q =
        if q id d then [id] else [] := by
    intro q
    simp only [idsWhere, registered, List.filter_cons, List.filter_nil]
    cases q id d <;> rfl
  have hanc : isAncestorOf (registered { docs := [(id, d)], known := st.known } patch) patch =
      isAncestorOf (registered st patch) patch := rfl
  have hs1 : selectionOf { docs := [(id, d)], known := st.known } patch = .merge [id] body := by
    unfold selectionOf at hs ⊢
    cases hmd : matchDirective patch.data with
    | none =>
      rw [hmd] at hs
      simp only at hs ⊢
      split at hs
      · cases hs
        rw [single, hanc, key _ ht]
        simp
      · cases hs
    | some pb =>
      obtain ⟨pat, b⟩ := pb
      rw [hmd] at hs
      simp only at hs ⊢
      split at hs
      · cases hs
      · rename_i hp
        rw [if_neg hp]
        split at hs
        · cases hs
          rw [single, hanc, key _ ht]
          simp
        · split at hs
          · cases hs
            have hq : matchV d pat = true := key _ ht
            rw [single, single, hq]
            cases isAncestorOf (registered st patch) patch id <;> simp
          · cases hs
  refine ⟨d', addParents (registered st patch).known patch.id [id], ?_, hi'⟩
  rw [C02_selection_merge hs1, mergeInto_eq]
  have hstep : (registered { docs := [(id, d)], known := st.known } patch).docs.mapM
      (mergeStep [id] body) = .ok [(id, d')] := by
    show [(id, d)].mapM (mergeStep [id] body) = .ok [(id, d')]
    rw [mapM_R_cons, mapM_R_nil]
    simp [mergeStep, hd']
  rw [hstep]
  rfl

example : mergeDocument C02_st C02_patch = .ok C02_st' ∧
    selectionOf C02_st C02_patch = .merge ["a"] (.int 5) ∧ (C02_st.docs.map (·.1)).Nodup ∧
    C02_st.docs[0]? = some ("a", .int 1) ∧ "a" ∈ ["a"] :=
  ⟨C02_run_example, C02_sel_example, by decide, rfl, by decide⟩

/-- Why `C02_singleton_stream` asks for distinct ids: the model (like `Parser.parents`)
    identifies documents by id, so in a state with a duplicated id a `$match` hit on one copy
    selects the other copy too.  (`C02_ids_unique_preserved`: such states do not arise from
    fresh patch ids.) -/
theorem C02_duplicate_ids_select_by_id :
    let st : PState := { docs := [("a", .map [("x", .int 1)]), ("a", .map [("x", .int 2)])],
                         known := [("a", [])] }
    selectionOf st C02_mpatch = .merge ["a"] (.map [("y", .int 2)]) ∧
    st.docs[1]? = some ("a", .map [("x", .int 2)]) ∧
    matchV (.map [("x", .int 2)]) (.map [("x", .int 1)]) = false := by decide

/-! ## The three special outcomes, from hypotheses on the input only -/

/-- A non-null `$match` that matches no document is an error. -/
theorem C02_error_no_match {st : PState} {patch : Doc} {kvs : Fields} {pat : Val}
    (hd : patch.data = .map kvs) (hg : fget kvs "$match" = some pat) (hp : pat ≠ .null)
    (hno : ∀ p ∈ st.docs, matchV p.2 pat = false) :
    mergeDocument st patch = .error .noMatchFound := by
  apply C02_selection_noMatch
  have ha : idsWhere (registered st patch)
      (fun id d => isAncestorOf (registered st patch) patch id && matchV d pat) = [] := by
    unfold idsWhere
    rw [List.map_eq_nil_iff, List.filter_eq_nil_iff]
    intro a ha
    simp [hno a ha]
  have hb : idsWhere (registered st patch) (fun _ d => matchV d pat) = [] := by
    unfold idsWhere
    rw [List.map_eq_nil_iff, List.filter_eq_nil_iff]
    intro a ha
    simp [hno a ha]
  unfold selectionOf
  simp only [hd, matchDirective, hg, Option.map_some, if_neg hp, ha, hb, ne_eq,
    not_true_eq_false, if_false]

example :
    let patch : Doc := { id := "c", parents := [], data := .map [("$match", .map [("x", .int 3)])] }
    patch.data = .map [("$match", .map [("x", .int 3)])] ∧
    fget [("$match", Val.map [("x", .int 3)])] "$match" = some (.map [("x", .int 3)]) ∧
    Val.map [("x", .int 3)] ≠ .null ∧
    ∀ p ∈ C02_mst.docs, matchV p.2 (.map [("x", .int 3)]) = false := by decide

/-- `$match: null`: exactly one new document `id|matchnull` holding the body (the patch minus
    `$match`) is added at the end; no existing document changes. -/
theorem C02_match_null_appends {st : PState} {patch : Doc} {kvs : Fields}
    (hd : patch.data = .map kvs) (hg : fget kvs "$match" = some .null) :
    mergeDocument st patch =
      .ok { docs := st.docs ++ [(patch.id ++ "|matchnull", .map (fdel kvs "$match"))],
            known := addParents (addParents st.known patch.id patch.parents) patch.id
              [patch.id ++ "|matchnull"] } := by
  have hs : selectionOf st patch =
      .append (patch.id ++ "|matchnull") (.map (fdel kvs "$match")) := by
    unfold selectionOf
    simp only [hd, matchDirective, hg, Option.map_some, if_true]
  rw [C02_selection_append hs, if_neg (append_matchnull_ne _)]
  rfl

example : (Doc.mk "c" ["a"] (.map [("$match", .null), ("y", .int 2)])).data =
      .map [("$match", .null), ("y", .int 2)] ∧
    fget [("$match", Val.null), ("y", .int 2)] "$match" = some .null := by decide

/-- No `$match` and no ancestor among the documents: the patch itself becomes a new document
    at the end; no existing document changes. -/
theorem C02_default_no_parents_appends {st : PState} {patch : Doc}
    (hnm : matchDirective patch.data = none)
    (hno : ∀ p ∈ st.docs, isAncestorOf (registered st patch) patch p.1 = false) :
    mergeDocument st patch =
      .ok { docs := st.docs ++ [(patch.id, patch.data)],
            known := addParents st.known patch.id patch.parents } := by
  have ha : idsWhere (registered st patch)
      (fun id _ => isAncestorOf (registered st patch) patch id) = [] := by
    unfold idsWhere
    rw [List.map_eq_nil_iff, List.filter_eq_nil_iff]
    intro a ha
    simp [hno a ha]
  have hs : selectionOf st patch = .append patch.id patch.data := by
    unfold selectionOf
    simp only [hnm, ha, ne_eq, not_true_eq_false, if_false]
  rw [C02_selection_append hs, if_pos rfl]
  have hk : addParents (registered st patch).known patch.id [] = (registered st patch).known :=
    addParents_nil_of_any _ _ (addParents_any_self st.known patch.id patch.parents)
  rw [hk]
  rfl

/-- in particular: a document without parents and without `$match` starts a new document -/
theorem C02_default_root_appends {st : PState} {patch : Doc}
    (hnm : matchDirective patch.data = none) (hp : patch.parents = []) :
    mergeDocument st patch =
      .ok { docs := st.docs ++ [(patch.id, patch.data)],
            known := addParents st.known patch.id [] } := by
  rw [C02_default_no_parents_appends hnm, hp]
  intro p _
  simp only [isAncestorOf, hp, allParents, List.flatMap_nil, List.append_nil,
    List.contains_nil]

example : matchDirective (Doc.mk "c" [] (.int 5)).data = none ∧
    (Doc.mk "c" [] (.int 5)).parents = [] := by decide
example : matchDirective (Doc.mk "c" ["zz"] (.int 5)).data = none ∧
    ∀ p ∈ C02_st.docs, isAncestorOf (registered C02_st (Doc.mk "c" ["zz"] (.int 5)))
      (Doc.mk "c" ["zz"] (.int 5)) p.1 = false := by decide

/-! ## C02_merge_error_propagates: no silent skip -/

/-- If the merge into some selected document fails, the whole step fails. -/
theorem C02_merge_error_propagates {st : PState} {patch : Doc} {targets : List String}
    {body : Val} (hs : selectionOf st patch = .merge targets body)
    {id : String} {d : Val} {e : Err} (hd : (id, d) ∈ st.docs) (ht : id ∈ targets)
    (he : merge d body = .error e) : ∃ e', mergeDocument st patch = .error e' := by
  cases hm : mergeDocument st patch with
  | error e' => exact ⟨e', rfl⟩
  | ok st' =>
    obtain ⟨v, hv⟩ := (C02_targets_map hm hs).1 (id, d) hd ht
    rw [he] at hv; cases hv

/-- … and the error reported is that of the first selected document (in document order) whose
    merge fails. -/
theorem C02_merge_error_first {st : PState} {patch : Doc} {targets : List String}
    {body : Val} (hs : selectionOf st patch = .merge targets body) (e : Err) :
    mergeDocument st patch = .error e ↔
      ∃ before p after, st.docs = before ++ p :: after ∧
        (∀ q ∈ before, q.1 ∈ targets → ∃ v, merge q.2 body = .ok v) ∧
        p.1 ∈ targets ∧ merge p.2 body = .error e := by
  rw [C02_selection_merge hs, mergeInto_error_iff, mapM_R_error_iff]
  simp only [mergeStep_ok_iff', mergeStep_error_iff]
  rfl

/-- a stream where the patch `x: 1` cannot be layered onto `a` (`x: 1` already there) -/
example :
    let patch : Doc := { id := "c", parents := ["a"], data := .map [("x", .int 1)] }
    selectionOf C02_mst patch = .merge ["a"] (.map [("x", .int 1)]) ∧
    ("a", Val.map [("x", .int 1)]) ∈ C02_mst.docs ∧ "a" ∈ ["a"] ∧
    merge (.map [("x", .int 1)]) (.map [("x", .int 1)]) = .error .uselessOverride :=
  ⟨by decide, by decide, by decide, merge_x_x⟩

/-! ## C02_noninterference: whole streams -/

theorem C02_length {st st' : PState} {patch : Doc} (hm : mergeDocument st patch = .ok st') :
    st'.docs.length = st.docs.length + (selectionOf st patch).newIds.length := by
  have h := congrArg List.length (C02_ids hm)
  simpa only [List.length_map, List.length_append] using h

/-- Two runs of the same patch list (`runMerges` is defined in `Lemmas/Parser.lean` as
    `ps.foldlM mergeDocument st`) from streams of the same length, in which every patch makes
    the same selection: if the streams start with the same document at position `i`, they end
    with the same document at position `i`.  The data of the *other* documents is unconstrained,
    so it cannot influence document `i`. -/
theorem C02_noninterference {ps : List Doc} : ∀ {st₁ st₂ f₁ f₂ : PState},
    SameSelections st₁ st₂ ps → st₁.docs.length = st₂.docs.length →
    runMerges st₁ ps = .ok f₁ → runMerges st₂ ps = .ok f₂ →
    ∀ {i : Nat}, st₁.docs[i]? = st₂.docs[i]? → f₁.docs[i]? = f₂.docs[i]? := by
  induction ps with
  | nil =>
    intro st₁ st₂ f₁ f₂ _ _ h₁ h₂ i hi
    rw [runMerges_nil] at h₁ h₂
    cases h₁; cases h₂; exact hi
  | cons p ps ih =>
    intro st₁ st₂ f₁ f₂ hsel hlen h₁ h₂ i hi
    rw [runMerges_cons] at h₁ h₂
    cases hm₁ : mergeDocument st₁ p with
    | error e => rw [hm₁] at h₁; cases h₁
    | ok s₁ =>
      cases hm₂ : mergeDocument st₂ p with
      | error e => rw [hm₂] at h₂; cases h₂
      | ok s₂ =>
        rw [hm₁] at h₁; rw [hm₂] at h₂
        have hlen' : s₁.docs.length = s₂.docs.length := by
          rw [C02_length hm₁, C02_length hm₂, hsel.1, hlen]
        exact ih (hsel.2 s₁ s₂ hm₁ hm₂) hlen' h₁ h₂
          (C02_noninterference_step hlen hsel.1 hm₁ hm₂ hi)

/-- Without `$match` the selection is by ancestry only: it depends on the ids and on the
    recorded parents, not on any document's data. -/
theorem C02_selection_nomatch_congr {st₁ st₂ : PState} {patch : Doc}
    (hnm : matchDirective patch.data = none)
    (hids : st₁.docs.map (·.1) = st₂.docs.map (·.1)) (hk : st₁.known = st₂.known) :
    selectionOf st₁ patch = selectionOf st₂ patch := by
  have e₁ : idsWhere (registered st₁ patch)
      (fun id _ => isAncestorOf (registered st₁ patch) patch id) =
      (st₁.docs.map (·.1)).filter (fun id => isAncestorOf (registered st₁ patch) patch id) :=
    filter_ids st₁.docs _
  have e₂ : idsWhere (registered st₂ patch)
      (fun id _ => isAncestorOf (registered st₂ patch) patch id) =
      (st₂.docs.map (·.1)).filter (fun id => isAncestorOf (registered st₂ patch) patch id) :=
    filter_ids st₂.docs _
  have ea : isAncestorOf (registered st₁ patch) patch = isAncestorOf (registered st₂ patch) patch := by
    funext id
    simp only [isAncestorOf, registered, hk]
  unfold selectionOf
  simp only [hnm]
  rw [e₁, e₂, ea, hids]

theorem C02_sameSelections_nomatch {ps : List Doc} : ∀ {st₁ st₂ : PState},
    (∀ p ∈ ps, matchDirective p.data = none) →
    st₁.docs.map (·.1) = st₂.docs.map (·.1) → st₁.known = st₂.known →
    SameSelections st₁ st₂ ps := by
  induction ps with
  | nil => intro _ _ _ _ _; trivial
  | cons p ps ih =>
    intro st₁ st₂ hnm hids hk
    have hsel := C02_selection_nomatch_congr (hnm p List.mem_cons_self) hids hk
    refine ⟨hsel, ?_⟩
    intro s₁ s₂ hm₁ hm₂
    refine ih (fun q hq => hnm q (List.mem_cons_of_mem _ hq)) ?_ ?_
    · rw [C02_ids hm₁, C02_ids hm₂, hsel, hids]
    · rw [C02_known hm₁, C02_known hm₂, hsel, hk]

/-- `$match`-free streams: the final data of document `i` is a function of its initial data and
    the patch list (given the ids and the parent table) — two runs that start with the same ids,
    the same recorded parents and the same document at position `i` end with the same document
    at position `i`, whatever the other documents hold. -/
theorem C02_noninterference_nomatch {ps : List Doc} {st₁ st₂ f₁ f₂ : PState}
    (hnm : ∀ p ∈ ps, matchDirective p.data = none)
    (hids : st₁.docs.map (·.1) = st₂.docs.map (·.1)) (hk : st₁.known = st₂.known)
    (h₁ : runMerges st₁ ps = .ok f₁) (h₂ : runMerges st₂ ps = .ok f₂)
    {i : Nat} (hi : st₁.docs[i]? = st₂.docs[i]?) : f₁.docs[i]? = f₂.docs[i]? :=
  C02_noninterference (C02_sameSelections_nomatch hnm hids hk)
    (by simpa only [List.length_map] using congrArg List.length hids) h₁ h₂ hi

/-- witnesses: a second stream that differs from `C02_st` in the *other* document `b` -/
def C02_st₂ : PState :=
  { docs := [("a", .int 1), ("b", .int 7)], known := [("a", []), ("b", [])] }
def C02_st₂' : PState :=
  { docs := [("a", .int 5), ("b", .int 7)], known := [("a", []), ("b", []), ("c", ["a", "a"])] }

theorem C02_run_example₂ : mergeDocument C02_st₂ C02_patch = .ok C02_st₂' := by
  rw [C02_selection_merge (show selectionOf C02_st₂ C02_patch = .merge ["a"] (.int 5) by decide),
    mergeInto_ok_iff]
  refine ⟨Forall2.cons ⟨rfl, ?_⟩ (Forall2.cons ⟨rfl, ?_⟩ Forall2.nil), by decide⟩
  · rw [if_pos (by decide)]
    show Bkl.merge (.int 1) (.int 5) = .ok (.int 5)
    rw [merge_scalar _ _ rfl]; rfl
  · rw [if_neg (by decide)]

example : (∀ p ∈ [C02_patch], matchDirective p.data = none) ∧
    C02_st.docs.map (·.1) = C02_st₂.docs.map (·.1) ∧ C02_st.known = C02_st₂.known ∧
    runMerges C02_st [C02_patch] = .ok C02_st' ∧ runMerges C02_st₂ [C02_patch] = .ok C02_st₂' ∧
    C02_st.docs[0]? = C02_st₂.docs[0]? ∧ C02_st.docs[1]? ≠ C02_st₂.docs[1]? := by
  refine ⟨by decide, by decide, by decide, ?_, ?_, by decide, by decide⟩
  · rw [runMerges_cons, C02_run_example]; rfl
  · rw [runMerges_cons, C02_run_example₂]; rfl

example : SameSelections C02_st C02_st₂ [C02_patch] ∧
    C02_st.docs.length = C02_st₂.docs.length :=
  ⟨⟨by decide, fun _ _ _ _ => trivial⟩, rfl⟩

/-! ## C02_ids_unique_preserved -/

theorem C02_append_id {st : PState} {patch : Doc} {newId : String} {body : Val}
    (h : selectionOf st patch = .append newId body) :
    newId = patch.id ∨ newId = patch.id ++ "|matchnull" := by
  unfold selectionOf at h
  cases hmd : matchDirective patch.data with
  | none =>
    rw [hmd] at h
    simp only at h
    split at h
    · cases h
    · cases h; exact Or.inl rfl
  | some pb =>
    obtain ⟨pat, b⟩ := pb
    rw [hmd] at h
    simp only at h
    split at h
    · cases h; exact Or.inr rfl
    · split at h
      · cases h
      · split at h <;> cases h

/-- Distinct ids stay distinct when the patch's id (and `id|matchnull`) is fresh. -/
theorem C02_ids_unique_preserved {st st' : PState} {patch : Doc}
    (hm : mergeDocument st patch = .ok st') (hnd : (st.docs.map (·.1)).Nodup)
    (hf₁ : patch.id ∉ st.docs.map (·.1))
    (hf₂ : patch.id ++ "|matchnull" ∉ st.docs.map (·.1)) : (st'.docs.map (·.1)).Nodup := by
  rw [C02_ids hm]
  cases hs : selectionOf st patch with
  | noMatch => simpa [Selection.newIds] using hnd
  | merge targets body => simpa [Selection.newIds] using hnd
  | append newId body =>
    simp only [Selection.newIds]
    rw [List.nodup_append]
    refine ⟨hnd, by simp, ?_⟩
    intro a ha b hb
    rw [List.mem_singleton] at hb
    subst hb
    intro hab
    subst hab
    rcases C02_append_id hs with h | h
    · exact hf₁ (h ▸ ha)
    · exact hf₂ (h ▸ ha)

example : mergeDocument C02_st C02_patch = .ok C02_st' ∧ (C02_st.docs.map (·.1)).Nodup ∧
    C02_patch.id ∉ C02_st.docs.map (·.1) ∧
    C02_patch.id ++ "|matchnull" ∉ C02_st.docs.map (·.1) :=
  ⟨C02_run_example, by decide, by decide, by decide⟩

/-! ## C02 and the file loader: layers that are files with several documents -/

/-- `matchDirective v = none` in the vocabulary of the lemma library -/
theorem C02_noMatch_iff (v : Val) : matchDirective v = none ↔ fl_NoMatch v := by
  cases v with
  | map kvs =>
    simp only [matchDirective, fl_NoMatch, Option.map_eq_none_iff]
  | _ => simp [matchDirective, fl_NoMatch]

/-- `$match: null` in the vocabulary of the lemma library; the body is the patch minus `$match` -/
theorem C02_matchNull_iff (v : Val) :
    (∃ body, matchDirective v = some (.null, body)) ↔ fl_MatchNull v := by
  cases v with
  | map kvs =>
    simp only [matchDirective, fl_MatchNull]
    constructor
    · rintro ⟨body, h⟩
      cases hg : fget kvs "$match" with
      | none => rw [hg] at h; cases h
      | some pat =>
        rw [hg] at h
        simp only [Option.map_some, Option.some.injEq, Prod.mk.injEq] at h
        exact ⟨kvs, rfl, by rw [hg, h.1]⟩
    · rintro ⟨kvs', e, hg⟩
      cases e
      exact ⟨_, by rw [hg]; rfl⟩
  | _ =>
    simp only [matchDirective, fl_MatchNull]
    constructor
    · rintro ⟨_, h⟩; cases h
    · rintro ⟨_, h, _⟩; cases h

theorem C02_matchNull_body {v body : Val} (h : matchDirective v = some (.null, body)) :
    fl_body v = body := by
  cases v with
  | map kvs =>
    simp only [matchDirective] at h
    cases hg : fget kvs "$match" with
    | none => rw [hg] at h; cases h
    | some pat =>
      rw [hg] at h
      simp only [Option.map_some, Option.some.injEq, Prod.mk.injEq] at h
      exact h.2
  | _ => simp [matchDirective] at h


/-- **C02_file_layer_targets.**  Parent file `d/a.e₁` with documents `ps` (`p₁ … pₘ`, none with
    `$match`), child file `d/a.b.e₂` with documents `cs` (`c₁ … cₖ`), no `$parent`, plain names,
    link-free directory (`fl_Chain2`).  `mergeFileLayers` of the child from the empty state:

    1. the parent's documents are appended as `m` documents, in order, with ids
       `<child path>|<parent path>|doc<i>` and no recorded parents (state `stP`);
    2. then the child's documents are merged one after the other by `mergeDocument`
       (`runMerges`), document `k` carrying the id `<child path>|doc<k>` and the direct parents
       `pids` = the ids of **all** `m` parent documents;
    3. in every state `st` this run passes through, the ancestors of the next child document
       `c` are exactly `pids`, and the selection (`C02_selection`) is:
       * no `$match`: `c` is merged into all `m` parent documents (appended if `m = 0`);
       * `$match: null`: appended as `c.id|matchnull`;
       * `$match: pat`: merged into the parent documents whose *current* data matches; if none
         does, into all documents that match (these can only be documents appended by earlier
         `$match: null` children); if none, `noMatchFound`. -/
theorem C02_file_layer_targets {fs : FS} {d : Comps} {a b e₁ e₂ : String} {ps cs : List Val}
    (h : fl_Chain2 fs d a b e₁ e₂ ps cs) (cwd : Comps)
    (hnp : ∀ p ∈ ps, matchDirective p = none) :
    let fidB := pathStr (fl_pathB d a b e₂)
    let fidA := fidB ++ "|" ++ pathStr (fl_pathA d a e₁)
    let pids := docIdsOf fidA ps.length
    let stP : PState := ⟨pids.zip ps, pids.map fun i => (i, [])⟩
    let cdocs := plainDocs fidB pids cs
    runMerges PState.empty (plainDocs fidA [] ps) = .ok stP ∧
    mergeFileLayers fs ⟨[], cwd⟩ PState.empty (fl_pathB d a b e₂) = runMerges stP cdocs ∧
    (∀ (k : Nat) (c : Doc), cdocs[k]? = some c →
      c.id = fidB ++ "|doc" ++ toString k ∧ c.parents = pids ∧ cs[k]? = some c.data) ∧
    ∀ (k : Nat) (st : PState) (c : Doc), runMerges stP (cdocs.take k) = .ok st → cdocs[k]? = some c →
      (∀ id, isAncestorOf (registered st c) c id = pids.contains id) ∧
      selectionOf st c =
        match matchDirective c.data with
        | none => if ps = [] then .append c.id c.data else .merge pids c.data
        | some (pat, body) =>
          if pat = .null then .append (c.id ++ "|matchnull") body
          else
            let among := idsWhere st fun id v => pids.contains id && matchV v pat
            let anywhere := idsWhere st fun _ v => matchV v pat
            if among ≠ [] then .merge among body
            else if anywhere ≠ [] then .merge anywhere body
            else .noMatch := by
  intro fidB fidA pids stP cdocs
  have hnp' : ∀ p ∈ ps, fl_NoMatch p := fun p hp => (C02_noMatch_iff p).1 (hnp p hp)
  have hb : fl_Below fidB fidA := fl_below_sub fidB _
  have hpar : runMerges PState.empty (plainDocs fidA [] ps) = .ok stP := fl_parent_run ps hnp'
  refine ⟨hpar, ?_, fun k c hc => fl_plainDocs_getElem? _ _ _ k c hc, ?_⟩
  · have := fl_runMerges_append PState.empty (plainDocs fidA [] ps) cdocs
    rw [hpar] at this
    rw [fl_stream2 h cwd]
    exact this
  · intro k st c hrun hc
    have hI := fl_childInv_reach hb ps cs hrun
    have hfresh := fl_child_next_fresh hb ps cs hc
    have hcp : c.parents = pids := (fl_plainDocs_getElem? _ _ _ k c hc).2.1
    have hcid : c.id ∉ pids := fun hm => hfresh (hI.sub _ hm)
    have hanc : ∀ id, isAncestorOf (registered st c) c id = pids.contains id := by
      intro id
      show (allParents (fl_reg st c).known ((fl_reg st c).known.length + 1) c.parents).contains id = _
      rw [hcp]
      exact fl_anc_exact (fl_roots_reg hI.roots hcid) id
    refine ⟨hanc, ?_⟩
    have hfun : isAncestorOf (registered st c) c = fun id => pids.contains id := funext hanc
    unfold selectionOf
    simp only [hfun]
    cases hmd : matchDirective c.data with
    | none =>
      simp only
      have hids : idsWhere (registered st c) (fun id _ => pids.contains id) = pids :=
        fl_ids_filter_pids (st := st) hI
      rw [hids]
      have hiff : pids = [] ↔ ps = [] := by
        constructor
        · intro e
          have := congrArg List.length e
          rw [docIdsOf_length] at this
          exact List.eq_nil_of_length_eq_zero this
        · intro e; rw [show pids = docIdsOf fidA ps.length from rfl, e]; rfl
      by_cases hps : ps = []
      · rw [if_pos hps, if_neg (fun hne => hne (hiff.2 hps))]
      · rw [if_neg hps, if_pos (fun e => hps (hiff.1 e))]
    | some pb =>
      obtain ⟨pat, body⟩ := pb
      rfl


/-- **C02_file_layer_targets, the `$match`-free case, explicitly.**  In the setting of
    `C02_file_layer_targets` with `m ≥ 1` parent documents and no `$match` in the child either:
    the result has exactly the `m` parent documents (same ids, same order) and

      document `i` = `merge (… (merge (merge pᵢ c₁) c₂) …) cₖ`  (`cs.foldlM merge pᵢ`).

    * `mergeFileLayers` is *equal* (errors included) to the row-wise computation `fl_layerAll`
      (each child document is merged into every parent document before the next one is read);
    * it succeeds exactly when every column `cs.foldlM merge pᵢ` succeeds, and then the documents
      are these columns.
    The parent table records, for every child document, its parents `pids` twice (once as its
    direct parents, once as the documents it was layered onto). -/
theorem C02_file_layer_docs {fs : FS} {d : Comps} {a b e₁ e₂ : String} {ps cs : List Val}
    (h : fl_Chain2 fs d a b e₁ e₂ ps cs) (cwd : Comps) (hne : ps ≠ [])
    (hnp : ∀ p ∈ ps, matchDirective p = none) (hnc : ∀ c ∈ cs, matchDirective c = none) :
    let fidB := pathStr (fl_pathB d a b e₂)
    let fidA := fidB ++ "|" ++ pathStr (fl_pathA d a e₁)
    let pids := docIdsOf fidA ps.length
    let final (vs : List Val) : PState :=
      ⟨pids.zip vs,
        (pids.map fun i => (i, [])) ++ (docIdsOf fidB cs.length).map fun i => (i, pids ++ pids)⟩
    mergeFileLayers fs ⟨[], cwd⟩ PState.empty (fl_pathB d a b e₂) =
      (match fl_layerAll ps cs with
       | .error e => .error e
       | .ok vs => .ok (final vs)) ∧
    (∀ vs, ps.mapM (fun p => cs.foldlM merge p) = .ok vs →
      mergeFileLayers fs ⟨[], cwd⟩ PState.empty (fl_pathB d a b e₂) = .ok (final vs)) ∧
    (∀ st, mergeFileLayers fs ⟨[], cwd⟩ PState.empty (fl_pathB d a b e₂) = .ok st →
      ∃ vs, ps.mapM (fun p => cs.foldlM merge p) = .ok vs ∧ st = final vs) := by
  intro fidB fidA pids final
  have hb : fl_Below fidB fidA := fl_below_sub fidB _
  have hrow : mergeFileLayers fs ⟨[], cwd⟩ PState.empty (fl_pathB d a b e₂) =
      (match fl_layerAll ps cs with
       | .error e => .error e
       | .ok vs => .ok (final vs)) := by
    rw [fl_stream2 h cwd]
    exact fl_two_layer_all hb ps cs hne (fun p hp => (C02_noMatch_iff p).1 (hnp p hp))
      (fun c hc => (C02_noMatch_iff c).1 (hnc c hc))
  refine ⟨hrow, ?_, ?_⟩
  · intro vs hvs
    rw [hrow, (fl_layerAll_ok_iff cs ps vs).2 hvs]
  · intro st hst
    rw [hrow] at hst
    cases hla : fl_layerAll ps cs with
    | error e => rw [hla] at hst; cases hst
    | ok vs =>
      rw [hla] at hst
      cases hst
      exact ⟨vs, (fl_layerAll_ok_iff cs ps vs).1 hla, rfl⟩

/-- The remaining case of `C02_file_layer_docs`: a parent file with **no** documents.  The child's
    documents then have no parents at all and (without `$match`) are appended as they are. -/
theorem C02_file_layer_docs_empty_parent {fs : FS} {d : Comps} {a b e₁ e₂ : String} {cs : List Val}
    (h : fl_Chain2 fs d a b e₁ e₂ [] cs) (cwd : Comps)
    (hnc : ∀ c ∈ cs, matchDirective c = none) :
    let cids := docIdsOf (pathStr (fl_pathB d a b e₂)) cs.length
    mergeFileLayers fs ⟨[], cwd⟩ PState.empty (fl_pathB d a b e₂) =
      .ok ⟨cids.zip cs, cids.map fun i => (i, [])⟩ := by
  intro cids
  rw [fl_stream2 h cwd]
  exact fl_parent_run cs (fun c hc => (C02_noMatch_iff c).1 (hnc c hc))

/-- **C02_file_layer_independent.**  In the setting of `C02_file_layer_targets` (the child's
    documents may carry `$match`): when the run succeeds, document `i` of the result has the id
    of `pᵢ` and its data is `pᵢ` taken through `c₁ … cₖ` by `fl_layerStep` — at each `cⱼ`:
    `merge · cⱼ` if `cⱼ` has no `$match`; unchanged if `$match: null`; `merge · body` if the
    document's current data matches the `$match` pattern and unchanged otherwise.  This is a
    function of `pᵢ` and `c₁ … cₖ` alone: no other parent document occurs in it. -/
theorem C02_file_layer_independent {fs : FS} {d : Comps} {a b e₁ e₂ : String} {ps cs : List Val}
    (h : fl_Chain2 fs d a b e₁ e₂ ps cs) (cwd : Comps)
    (hnp : ∀ p ∈ ps, matchDirective p = none) {st : PState}
    (hm : mergeFileLayers fs ⟨[], cwd⟩ PState.empty (fl_pathB d a b e₂) = .ok st)
    (i : Nat) (hi : i < ps.length) :
    ∃ v, cs.foldlM fl_layerStep ps[i] = .ok v ∧
      st.docs[i]? = some (pathStr (fl_pathB d a b e₂) ++ "|" ++ pathStr (fl_pathA d a e₁) ++
        "|doc" ++ toString i, v) := by
  rw [fl_stream2 h cwd] at hm
  exact fl_two_layer_doc (fl_below_sub _ _) ps cs
    (fun p hp => (C02_noMatch_iff p).1 (hnp p hp)) hm i hi

/-- …so two parent files that hold the same document (at positions `i` and `i'`), under the
    same child documents, end with the same data in that document — whatever their other
    documents are, and even if the child uses `$match` (both runs succeeding). -/
theorem C02_file_layer_noninterference {fs fs' : FS} {d d' : Comps} {a b e₁ e₂ a' b' e₁' e₂' : String}
    {ps ps' cs : List Val}
    (h : fl_Chain2 fs d a b e₁ e₂ ps cs) (h' : fl_Chain2 fs' d' a' b' e₁' e₂' ps' cs)
    (cwd cwd' : Comps)
    (hnp : ∀ p ∈ ps, matchDirective p = none) (hnp' : ∀ p ∈ ps', matchDirective p = none)
    {st st' : PState}
    (hm : mergeFileLayers fs ⟨[], cwd⟩ PState.empty (fl_pathB d a b e₂) = .ok st)
    (hm' : mergeFileLayers fs' ⟨[], cwd'⟩ PState.empty (fl_pathB d' a' b' e₂') = .ok st')
    (i i' : Nat) (hi : i < ps.length) (hi' : i' < ps'.length) (he : ps[i] = ps'[i']) :
    st.docs[i]?.map (·.2) = st'.docs[i']?.map (·.2) := by
  obtain ⟨v, hv, hs⟩ := C02_file_layer_independent h cwd hnp hm i hi
  obtain ⟨v', hv', hs'⟩ := C02_file_layer_independent h' cwd' hnp' hm' i' hi'
  rw [he, hv'] at hv
  cases hv
  rw [hs, hs']
  rfl

/-- **Partial** (no child document with a non-null `$match`; with one the statement is false,
    see `C02_file_layer_singleton_false`): document `i` of the result is what the
    single-document parent file `[pᵢ]` would give under the same child.  That run succeeds too
    and its first document (the only one that is not an appended `…|matchnull` document) holds
    the data of document `i` of the full run. -/
theorem C02_file_layer_singleton_partial {fs fs' : FS} {d d' : Comps}
    {a b e₁ e₂ a' b' e₁' e₂' : String} {ps cs : List Val} (i : Nat) (hi : i < ps.length)
    (h : fl_Chain2 fs d a b e₁ e₂ ps cs) (h' : fl_Chain2 fs' d' a' b' e₁' e₂' [ps[i]] cs)
    (cwd cwd' : Comps)
    (hnp : ∀ p ∈ ps, matchDirective p = none)
    (hnc : ∀ c ∈ cs, matchDirective c = none ∨ ∃ body, matchDirective c = some (.null, body))
    {st : PState}
    (hm : mergeFileLayers fs ⟨[], cwd⟩ PState.empty (fl_pathB d a b e₂) = .ok st) :
    ∃ st' v, mergeFileLayers fs' ⟨[], cwd'⟩ PState.empty (fl_pathB d' a' b' e₂') = .ok st' ∧
      cs.foldlM fl_layerStep ps[i] = .ok v ∧
      st'.docs[0]?.map (·.2) = some v ∧ st.docs[i]?.map (·.2) = some v := by
  obtain ⟨v, hv, hs⟩ := C02_file_layer_independent h cwd hnp hm i hi
  have hnp1 : ∀ p ∈ [ps[i]], matchDirective p = none := by
    intro p hp
    rw [List.mem_singleton.1 hp]
    exact hnp _ (List.getElem_mem hi)
  have hrun := (C02_file_layer_targets h' cwd' hnp1).2.1
  obtain ⟨st', hst'⟩ := fl_single_layer_ok
    (fidA := pathStr (fl_pathB d' a' b' e₂') ++ "|" ++ pathStr (fl_pathA d' a' e₁'))
    (fl_below_sub (pathStr (fl_pathB d' a' b' e₂')) _) ps[i] cs
    (fun c hc => (hnc c hc).imp (C02_noMatch_iff c).1 (C02_matchNull_iff c).1) ⟨v, hv⟩
  have hm' : mergeFileLayers fs' ⟨[], cwd'⟩ PState.empty (fl_pathB d' a' b' e₂') = .ok st' := by
    rw [hrun]; exact hst'
  obtain ⟨v', hv', hs'⟩ := C02_file_layer_independent h' cwd' hnp1 hm' 0 (by simp)
  have : v' = v := by
    have e : [ps[i]][0] = ps[i] := rfl
    rw [e, hv] at hv'
    exact (Except.ok.inj hv').symm
  subst this
  exact ⟨st', v', hm', hv, by rw [hs']; rfl, by rw [hs]; rfl⟩

/-- The `$match`-free instance of `C02_file_layer_singleton_partial`, with the whole result of
    the single-document run: it has exactly one document, `cs.foldlM merge pᵢ`, which is the
    data of document `i` of the full run. -/
theorem C02_file_layer_singleton_nomatch {fs fs' : FS} {d d' : Comps}
    {a b e₁ e₂ a' b' e₁' e₂' : String} {ps cs : List Val} (i : Nat) (hi : i < ps.length)
    (h : fl_Chain2 fs d a b e₁ e₂ ps cs) (h' : fl_Chain2 fs' d' a' b' e₁' e₂' [ps[i]] cs)
    (cwd cwd' : Comps)
    (hnp : ∀ p ∈ ps, matchDirective p = none) (hnc : ∀ c ∈ cs, matchDirective c = none)
    {st : PState}
    (hm : mergeFileLayers fs ⟨[], cwd⟩ PState.empty (fl_pathB d a b e₂) = .ok st) :
    ∃ st' v, mergeFileLayers fs' ⟨[], cwd'⟩ PState.empty (fl_pathB d' a' b' e₂') = .ok st' ∧
      cs.foldlM merge ps[i] = .ok v ∧
      st'.docs.map (·.2) = [v] ∧ st.docs[i]?.map (·.2) = some v := by
  obtain ⟨v, hv, hs⟩ := C02_file_layer_independent h cwd hnp hm i hi
  rw [fl_foldlM_layerStep_noMatch cs _ (fun c hc => (C02_noMatch_iff c).1 (hnc c hc))] at hv
  have hcol : [ps[i]].mapM (fun p => cs.foldlM merge p) = .ok [v] := by
    rw [mapM_R_cons, mapM_R_nil, hv]
  have hnp1 : ∀ p ∈ [ps[i]], matchDirective p = none := by
    intro p hp
    rw [List.mem_singleton.1 hp]
    exact hnp _ (List.getElem_mem hi)
  have := (C02_file_layer_docs h' cwd' (by simp) hnp1 hnc).2.1 [v] hcol
  refine ⟨_, v, this, hv, ?_, by rw [hs]; rfl⟩
  exact fl_map_snd_zip _ _ (docIdsOf_length _ _)


/-- **C02_three_layers_after_append.**  Base file `d/a.e₁` (documents `ps`, no `$match`), middle
    file `d/a.b.e₂` all of whose documents `ms` (at least one) say `$match: null`, top file
    `d/a.b.c.e₃` (documents `ts`, no `$match`).

    * After the first two files the stream holds the `m` base documents followed by one
      *appended* document per middle document, with id `<middle doc id>|matchnull` and the
      patch minus `$match` as data (`fl_body`); the parent table `fl_knownM` records for every
      middle document its direct parents `pids` **and** the document appended for it.
    * A document `t` of the top file has the middle file's documents `mids` as direct parents.
      None of these is in the stream; but through the recorded links every document of the
      stream is an ancestor of `t`: the appended documents (`mid → mid|matchnull`) and the base
      documents (`mid → pids`).  So `t` is merged into **all `m + |ms|` documents**: the base
      documents and the appended ones (`selectionOf st t = .merge (pids ++ appended) t.data`, in
      every state the top file's run passes through).
    * Hence the result: `m + |ms|` documents, document `j` = `ts.foldlM merge` of the `j`-th of
      `ps ++ bodies`. -/
theorem C02_three_layers_after_append {fs : FS} {d : Comps} {a b c e₁ e₂ e₃ : String}
    {ps ms ts : List Val} (h : fl_Chain3 fs d a b c e₁ e₂ e₃ ps ms ts) (cwd : Comps)
    (hne : ms ≠ []) (hnp : ∀ p ∈ ps, matchDirective p = none)
    (hmn : ∀ v ∈ ms, ∃ body, matchDirective v = some (.null, body))
    (hnt : ∀ t ∈ ts, matchDirective t = none) :
    let fidC := pathStr (fl_pathC d a b c e₃)
    let fidB := fidC ++ "|" ++ pathStr (fl_pathB d a b e₂)
    let fidA := fidB ++ "|" ++ pathStr (fl_pathA d a e₁)
    let pids := docIdsOf fidA ps.length
    let mids := docIdsOf fidB ms.length
    let appended := mids.map (· ++ "|matchnull")
    let stM : PState := ⟨pids.zip ps ++ appended.zip (ms.map fl_body), fl_knownM pids mids⟩
    let tdocs := plainDocs fidC mids ts
    let final (vs : List Val) : PState :=
      ⟨(pids ++ appended).zip vs,
        fl_knownM pids mids ++ (docIdsOf fidC ts.length).map fun i => (i, mids ++ (pids ++ appended))⟩
    runMerges PState.empty (plainDocs fidA [] ps ++ plainDocs fidB pids ms) = .ok stM ∧
    mergeFileLayers fs ⟨[], cwd⟩ PState.empty (fl_pathC d a b c e₃) = runMerges stM tdocs ∧
    (∀ (k : Nat) (st : PState) (t : Doc), runMerges stM (tdocs.take k) = .ok st →
      tdocs[k]? = some t →
        t.parents = mids ∧ st.docs.map (·.1) = pids ++ appended ∧
        (∀ id ∈ pids ++ appended, isAncestorOf (registered st t) t id = true) ∧
        selectionOf st t = .merge (pids ++ appended) t.data) ∧
    mergeFileLayers fs ⟨[], cwd⟩ PState.empty (fl_pathC d a b c e₃) =
      (match fl_layerAll (ps ++ ms.map fl_body) ts with
       | .error e => .error e
       | .ok vs => .ok (final vs)) ∧
    (∀ st, mergeFileLayers fs ⟨[], cwd⟩ PState.empty (fl_pathC d a b c e₃) = .ok st ↔
      ∃ vs, (ps ++ ms.map fl_body).mapM (fun p => ts.foldlM merge p) = .ok vs ∧ st = final vs) := by
  intro fidC fidB fidA pids mids appended stM tdocs final
  have hBA : fl_Below fidB fidA := fl_below_sub fidB _
  have hCB : fl_Below fidC fidB := fl_below_sub fidC _
  have hnp' : ∀ p ∈ ps, fl_NoMatch p := fun p hp => (C02_noMatch_iff p).1 (hnp p hp)
  have hmn' : ∀ v ∈ ms, fl_MatchNull v := fun v hv => (C02_matchNull_iff v).1 (hmn v hv)
  have hnt' : ∀ t ∈ ts, fl_NoMatch t := fun t ht => (C02_noMatch_iff t).1 (hnt t ht)
  have hmid : runMerges PState.empty (plainDocs fidA [] ps ++ plainDocs fidB pids ms) = .ok stM :=
    fl_three_mid hBA ps ms hnp' hmn'
  have hrow : mergeFileLayers fs ⟨[], cwd⟩ PState.empty (fl_pathC d a b c e₃) =
      (match fl_layerAll (ps ++ ms.map fl_body) ts with
       | .error e => .error e
       | .ok vs => .ok (final vs)) := by
    rw [fl_stream3 h cwd]
    exact fl_three_all hBA hCB ps ms ts hne hnp' hmn' hnt'
  refine ⟨hmid, ?_, ?_, hrow, ?_⟩
  · have := fl_runMerges_append PState.empty (plainDocs fidA [] ps ++ plainDocs fidB pids ms) tdocs
    rw [hmid] at this
    rw [fl_stream3 h cwd, ← List.append_assoc]
    exact this
  · intro k st t hrun ht
    obtain ⟨hids, hanc⟩ := fl_three_reach hBA hCB ps ms ts hne hnt' hrun
    obtain ⟨_, htp, htd⟩ := fl_plainDocs_getElem? _ _ _ k t ht
    have hanc' : ∀ id ∈ pids ++ appended,
        Ancestor (registered st t).known t.parents id := by
      intro id hid
      rw [htp]
      exact fl_ancestor_mono (fun q y hy => fl_lookup_addParents_mono _ _ _ _ _ hy) (hanc id hid)
    refine ⟨htp, hids, fun id hid => (C02_ancestor_iff _ _ _).2 (hanc' id hid), ?_⟩
    have hmd : matchDirective t.data = none := hnt _ (List.mem_of_getElem? htd)
    have hpo : idsWhere (registered st t) (fun id _ => isAncestorOf (registered st t) t id) =
        pids ++ appended := by
      have : idsWhere (registered st t) (fun id _ => isAncestorOf (registered st t) t id) =
          parentsOf (registered st t) t.parents := rfl
      rw [this, fl_parentsOf_all (st0 := registered st t)
        (fun p hp => hanc' p.1 (by rw [← hids]; exact List.mem_map_of_mem hp))]
      exact hids
    have hidne : pids ++ appended ≠ [] := by
      intro e
      have := congrArg List.length e
      simp only [pids, mids, appended, List.length_append, List.length_map, docIdsOf_length,
        List.length_nil] at this
      have := List.length_pos_iff.2 hne
      omega
    unfold selectionOf
    simp only [hmd, hpo]
    rw [if_pos hidne]
  · intro st
    rw [hrow]
    constructor
    · intro hst
      cases hla : fl_layerAll (ps ++ ms.map fl_body) ts with
      | error e => rw [hla] at hst; cases hst
      | ok vs =>
        rw [hla] at hst
        cases hst
        exact ⟨vs, (fl_layerAll_ok_iff ts _ vs).1 hla, rfl⟩
    · rintro ⟨vs, hvs, rfl⟩
      rw [(fl_layerAll_ok_iff ts _ vs).2 hvs]

/-- the data of an appended document is the middle document minus its `$match` -/
theorem C02_three_layers_body {v body : Val} (h : matchDirective v = some (.null, body)) :
    fl_body v = body := C02_matchNull_body h

/-- **C02_ids_unique_files.**  The document ids the loader assigns along a filename chain of
    any depth (`chainFiles`, see `C03_chain_order_n_partial`: `file|docN`, the file id prefixed
    by the chain of children it was reached from) are pairwise distinct, and none ends in
    `|matchnull`. -/
theorem C02_ids_unique_files (d : Comps) (pre : List String) (R : List CLayer) (c : Option String) :
    (((chainFiles d pre c R).flatMap (·.docs)).map (·.id)).Nodup ∧
      ∀ x ∈ ((chainFiles d pre c R).flatMap (·.docs)).map (·.id), ∀ t, x ≠ t ++ "|matchnull" :=
  ⟨fl_chainFiles_ids_nodup d pre R c, fl_chainFiles_ids_noMN d pre R c⟩

/-- …for the files `loadFileAndParents` actually returns (hypotheses of
    `C03_chain_order_n_partial`) -/
theorem C02_ids_unique_loaded (fs : FS) (d cwd : Comps) (P : List CLayer) (x : CLayer)
    (hd : PlainDir fs d) (hn : (P ++ [x]).length ≤ loadFuel)
    (hpl : ∀ y ∈ P ++ [x], PlainName y.name) (hok : ChainFilesOK fs d [] (P ++ [x]))
    {files : List LFile} {ids : List String}
    (hl : loadFileAndParents fs ⟨[], cwd⟩ loadFuel (prefixPath d [] (P ++ [x])) none [] [] =
      .ok (files, ids)) :
    ((files.flatMap (·.docs)).map (·.id)).Nodup := by
  rw [load_chain (cwd := cwd) hd P x hn hpl hok] at hl
  cases hl
  exact fl_chainFiles_ids_nodup d [] _ none

/-- **…so the `ids unique` hypotheses of the C02 theorems hold for file-loaded streams**: while
    the documents of a loaded chain are merged from the empty state, every state has pairwise
    distinct document ids (`hnd` of `C02_singleton_stream`, `C02_ids_unique_preserved`) and the
    next document's id, with or without `|matchnull`, is fresh (`hf₁`, `hf₂` of
    `C02_ids_unique_preserved`). -/
theorem C02_ids_unique_run (d : Comps) (pre : List String) (R : List CLayer) (c : Option String)
    (k : Nat) {st : PState}
    (h : runMerges PState.empty (((chainFiles d pre c R).flatMap (·.docs)).take k) = .ok st) :
    (st.docs.map (·.1)).Nodup ∧
      ∀ p, ((chainFiles d pre c R).flatMap (·.docs))[k]? = some p →
        p.id ∉ st.docs.map (·.1) ∧ p.id ++ "|matchnull" ∉ st.docs.map (·.1) :=
  fl_unique_run _ (fl_chainFiles_ids_nodup d pre R c) (fl_chainFiles_ids_noMN d pre R c) k h


/-- The unrestricted "document `i` is what the single-document parent file `[pᵢ]` would give" is
    FALSE once the child uses `$match`: parent `{x: 1}`, `{x: 2}`, child `{$match: {x: 2}, y: 1}`.
    The full run succeeds (the child is merged into the second document; the first is left
    alone), but over the single-document parent `{x: 1}` the same child matches nothing and the
    run fails with `noMatchFound`.  (`C02_file_layer_noninterference` is what remains true with
    `$match`: *if* both runs succeed, the data agree.) -/
theorem C02_file_layer_singleton_false :
    ∃ (fs fs' : FS) (d cwd : Comps) (a b e₁ e₂ : String) (ps cs : List Val) (i : Nat)
      (hi : i < ps.length),
      fl_Chain2 fs d a b e₁ e₂ ps cs ∧ fl_Chain2 fs' d a b e₁ e₂ [ps[i]] cs ∧
      (∀ p ∈ ps, matchDirective p = none) ∧
      (∃ st, mergeFileLayers fs ⟨[], cwd⟩ PState.empty (fl_pathB d a b e₂) = .ok st) ∧
      mergeFileLayers fs' ⟨[], cwd⟩ PState.empty (fl_pathB d a b e₂) = .error .noMatchFound := by
  have hnp : ∀ p ∈ [fl_p0, fl_p1], matchDirective p = none := by decide
  have hnp1 : ∀ p ∈ [fl_p0], matchDirective p = none := by decide
  refine ⟨fl_fsMatch, fl_fsOne, ["w"], [], "a", "b", "yaml", "json", [fl_p0, fl_p1], [fl_cm], 0,
    by decide, fl_fsMatch_chain, fl_fsOne_chain, hnp, ?_, ?_⟩
  · rw [(C02_file_layer_targets fl_fsMatch_chain [] hnp).2.1]
    exact fl_cex_full_ok (fl_below_sub _ _)
  · rw [(C02_file_layer_targets fl_fsOne_chain [] hnp1).2.1]
    exact fl_cex_one_fail _ _

/-! ### non-vacuity: concrete file systems (`BklProofs/Lemmas/C02Files.lean`) -/

/-- `/w/a.yaml` = `{x: 1}`, `{x: 2}` and `/w/a.b.json` = `{y: 5}`, `{z: 6}` satisfy the hypotheses
    of `C02_file_layer_targets`, `C02_file_layer_docs`, `C02_file_layer_independent` -/
example : fl_Chain2 fl_fsPlain ["w"] "a" "b" "yaml" "json" [fl_p0, fl_p1]
      [.map [("y", .int 5)], .map [("z", .int 6)]] ∧
    [fl_p0, fl_p1] ≠ [] ∧ (∀ p ∈ [fl_p0, fl_p1], matchDirective p = none) ∧
    (∀ c ∈ [Val.map [("y", .int 5)], .map [("z", .int 6)]], matchDirective c = none) ∧
    fl_pathB ["w"] "a" "b" "json" = ["w", "a.b.json"] ∧ fl_pathA ["w"] "a" "yaml" = ["w", "a.yaml"] :=
  ⟨fl_fsPlain_chain, by decide, by decide, by decide, by decide, by decide⟩

/-- …and there the run succeeds: both columns `cs.foldlM merge pᵢ` do -/
example : [fl_p0, fl_p1].mapM (fun p => [Val.map [("y", .int 5)], .map [("z", .int 6)]].foldlM merge p) =
    .ok [.map [("x", .int 1), ("y", .int 5), ("z", .int 6)],
         .map [("x", .int 2), ("y", .int 5), ("z", .int 6)]] := fl_plain_columns

/-- the `$match` setting of `C02_file_layer_targets` / `C02_file_layer_independent` /
    `C02_file_layer_noninterference` (the child selects `x: 2`) -/
example : fl_Chain2 fl_fsMatch ["w"] "a" "b" "yaml" "json" [fl_p0, fl_p1] [fl_cm] ∧
    (∀ p ∈ [fl_p0, fl_p1], matchDirective p = none) ∧
    matchDirective fl_cm = some (.map [("x", .int 2)], .map [("y", .int 1)]) ∧
    ∃ st, mergeFileLayers fl_fsMatch ⟨[], []⟩ PState.empty (fl_pathB ["w"] "a" "b" "json") = .ok st := by
  have hnp : ∀ p ∈ [fl_p0, fl_p1], matchDirective p = none := by decide
  refine ⟨fl_fsMatch_chain, hnp, by decide, ?_⟩
  rw [(C02_file_layer_targets fl_fsMatch_chain [] hnp).2.1]
  exact fl_cex_full_ok (fl_below_sub _ _)

/-- `C02_file_layer_singleton_partial` / `C02_file_layer_singleton_nomatch`: `fl_fsPlainOne` is
    `fl_fsPlain` with the parent cut down to its document `0`; the full run succeeds -/
example : ∃ st, 0 < [fl_p0, fl_p1].length ∧
    fl_Chain2 fl_fsPlain ["w"] "a" "b" "yaml" "json" [fl_p0, fl_p1]
      [.map [("y", .int 5)], .map [("z", .int 6)]] ∧
    fl_Chain2 fl_fsPlainOne ["w"] "a" "b" "yaml" "json" [[fl_p0, fl_p1][0]]
      [.map [("y", .int 5)], .map [("z", .int 6)]] ∧
    (∀ p ∈ [fl_p0, fl_p1], matchDirective p = none) ∧
    (∀ c ∈ [Val.map [("y", .int 5)], .map [("z", .int 6)]], matchDirective c = none) ∧
    mergeFileLayers fl_fsPlain ⟨[], []⟩ PState.empty (fl_pathB ["w"] "a" "b" "json") = .ok st := by
  have hnp : ∀ p ∈ [fl_p0, fl_p1], matchDirective p = none := by decide
  have hnc : ∀ c ∈ [Val.map [("y", .int 5)], .map [("z", .int 6)]], matchDirective c = none := by
    decide
  exact ⟨_, by decide, fl_fsPlain_chain, fl_fsPlainOne_chain, hnp, hnc,
    (C02_file_layer_docs fl_fsPlain_chain [] (by decide) hnp hnc).2.1 _ fl_plain_columns⟩

/-- `C02_file_layer_noninterference`: two different parent files (`fl_fsPlain`, `fl_fsPlainOne`)
    sharing their document `0`, same child, both runs succeeding -/
example : ∃ st st', fl_Chain2 fl_fsPlain ["w"] "a" "b" "yaml" "json" [fl_p0, fl_p1]
      [.map [("y", .int 5)], .map [("z", .int 6)]] ∧
    fl_Chain2 fl_fsPlainOne ["w"] "a" "b" "yaml" "json" [fl_p0]
      [.map [("y", .int 5)], .map [("z", .int 6)]] ∧
    (∀ p ∈ [fl_p0, fl_p1], matchDirective p = none) ∧ (∀ p ∈ [fl_p0], matchDirective p = none) ∧
    mergeFileLayers fl_fsPlain ⟨[], []⟩ PState.empty (fl_pathB ["w"] "a" "b" "json") = .ok st ∧
    mergeFileLayers fl_fsPlainOne ⟨[], []⟩ PState.empty (fl_pathB ["w"] "a" "b" "json") = .ok st' ∧
    [fl_p0, fl_p1][0] = [fl_p0][0] := by
  have hnp : ∀ p ∈ [fl_p0, fl_p1], matchDirective p = none := by decide
  have hnc : ∀ c ∈ [Val.map [("y", .int 5)], .map [("z", .int 6)]], matchDirective c = none := by
    decide
  have hm := (C02_file_layer_docs fl_fsPlain_chain [] (by decide) hnp hnc).2.1 _ fl_plain_columns
  obtain ⟨st', _, hm', _⟩ := C02_file_layer_singleton_nomatch 0 (by decide) fl_fsPlain_chain
    fl_fsPlainOne_chain [] [] hnp hnc hm
  exact ⟨_, st', fl_fsPlain_chain, fl_fsPlainOne_chain, hnp, by decide, hm, hm', rfl⟩

/-- `C02_file_layer_docs_empty_parent`: nothing forbids an empty parent file -/
example : ∃ fs : FS, fl_Chain2 fs ["w"] "a" "b" "yaml" "json" [] [fl_p0] :=
  ⟨⟨[(["w"], .dir), (["w", "a.yaml"], .file (.ok [])), (["w", "a.b.json"], .file (.ok [fl_p0]))]⟩,
    { dir := plainDir_single (n := .dir) (by decide) (by decide) rfl
      na := fl_plain_a
      nb := fl_plain_b
      fileA := layerFile_of_decide (by decide) (by decide) (fun _ => by decide) (fun _ => by decide)
        (fun _ => by decide) (fun _ => by decide) (fun h => absurd rfl h) (fun _ => by decide)
      fileB := layerFile_of_decide (by decide) (by decide) (fun h => absurd rfl h)
        (fun _ => by decide) (fun _ => by decide) (fun _ => by decide) (fun _ => by decide)
        (fun _ => by decide)
      noParentA := fun _ h => nomatch h
      noParentB := fl_absent_of_mem1 rfl }⟩

/-- `C02_three_layers_after_append`: `/w/a.yaml` = `{x: 1}`, `/w/a.b.json` = `{$match: null, y: 2}`,
    `/w/a.b.c.toml` = `{z: 3}`; the result has two documents, `{x: 1, z: 3}` and `{y: 2, z: 3}` -/
example : fl_Chain3 fl_fsThree ["w"] "a" "b" "c" "yaml" "json" "toml" [fl_p0] [fl_mn]
      [.map [("z", .int 3)]] ∧
    [fl_mn] ≠ [] ∧ (∀ p ∈ [fl_p0], matchDirective p = none) ∧
    (∀ v ∈ [fl_mn], ∃ body, matchDirective v = some (.null, body)) ∧
    (∀ t ∈ [Val.map [("z", .int 3)]], matchDirective t = none) ∧
    [fl_mn].map fl_body = [.map [("y", .int 2)]] ∧
    ([fl_p0] ++ [fl_mn].map fl_body).mapM (fun p => [Val.map [("z", .int 3)]].foldlM merge p) =
      .ok [.map [("x", .int 1), ("z", .int 3)], .map [("y", .int 2), ("z", .int 3)]] := by
  refine ⟨fl_fsThree_chain, by decide, by decide, ?_, by decide, by decide, ?_⟩
  · intro v hv
    rw [List.mem_singleton.1 hv]
    exact ⟨_, rfl⟩
  · have hb : [fl_mn].map fl_body = [.map [("y", .int 2)]] := by decide
    have h1 : merge (.map [("x", .int 1)]) (.map [("z", .int 3)]) =
        .ok (.map [("x", .int 1), ("z", .int 3)]) := by
      rw [merge_map_map, mergeMapMap_noreplace rfl, mergeFields_cons]
      have h1 : ((Val.int 3).toStr = "$delete") = False := by decide
      have h2 : fget [("x", Val.int 1)] "z" = none := rfl
      simp only [h1, if_false, h2, mergeFields_nil]
      rfl
    have h2 : merge (.map [("y", .int 2)]) (.map [("z", .int 3)]) =
        .ok (.map [("y", .int 2), ("z", .int 3)]) := by
      rw [merge_map_map, mergeMapMap_noreplace rfl, mergeFields_cons]
      have h1 : ((Val.int 3).toStr = "$delete") = False := by decide
      have h2 : fget [("y", Val.int 2)] "z" = none := rfl
      simp only [h1, if_false, h2, mergeFields_nil]
      rfl
    rw [hb]
    simp only [List.cons_append, List.nil_append]
    rw [mapM_R_cons, mapM_R_cons, mapM_R_nil]
    simp only [fl_foldlM_cons, fl_foldlM_nil, fl_p0, h1, h2]

/-- `C02_ids_unique_files` / `C02_ids_unique_loaded` / `C02_ids_unique_run`: the chain of
    `C03_chain_order_n_partial`'s example -/
example : PlainDir chainFS ["w"] ∧ exChain.length ≤ loadFuel ∧ (∀ y ∈ exChain, PlainName y.name) ∧
    ChainFilesOK chainFS ["w"] [] exChain :=
  ⟨chainFS_plain, by decide, exChain_plain, exChain_ok⟩

/-! ## a layer whose whole document is null -/

/-- is the value a map, a list or null (a document the merge rules extend rather than replace) -/
def c02_isContainerOrNull : Val → Bool
  | .map _ => true
  | .list _ => true
  | .null => true
  | _ => false

theorem c02_merge_null_of_container {d : Val} (h : c02_isContainerOrNull d = true) : merge d .null = .ok d := by
  cases d with
  | map kvs => exact merge_map_null kvs
  | list l => exact merge_list_null l
  | null => exact merge_null .null
  | _ => simp [c02_isContainerOrNull] at h

/-- A layer whose whole document is null (JSON `null`, YAML `~`, an empty YAML file) and that has ancestors among the documents
    CHANGES NO DOCUMENT (map-, list- and null-rooted targets; a scalar-rooted target is replaced, as by any other value), and it
    is recorded with the selected documents as its parents - so the layers above it still inherit from the layers below it. -/
theorem C02_null_layer_changes_nothing {st : PState} {patch : Doc} {targets : List String}
    (hs : selectionOf st patch = .merge targets .null)
    (hc : ∀ p ∈ st.docs, p.1 ∈ targets → c02_isContainerOrNull p.2 = true) :
    mergeDocument st patch =
      .ok { docs := st.docs, known := addParents (registered st patch).known patch.id targets } := by
  rw [C02_selection_merge hs, mergeInto_ok_iff]
  refine ⟨?_, rfl⟩
  have hmap : st.docs.map (stepFun targets .null) = st.docs := by
    conv => rhs; rw [← List.map_id st.docs]
    apply List.map_congr_left
    intro p hp
    obtain ⟨i, d⟩ := p
    simp only [stepFun, id]
    by_cases ht : i ∈ targets
    · rw [if_pos ht, c02_merge_null_of_container (hc (i, d) hp ht)]
    · rw [if_neg ht]
  have h := forall2_stepRel_of_ok (targets := targets) (body := .null) (l := (registered st patch).docs)
    (fun p hp ht => ⟨p.2, c02_merge_null_of_container (hc p hp ht)⟩)
  have hd : (registered st patch).docs = st.docs := rfl
  rw [hd, hmap] at h
  exact h

/-- the hypotheses are met: a null document layered over a map-rooted one (over the scalar-rooted `C02_st` the second one fails,
    and there the null layer does replace the document: `merge (.int 1) .null = .ok .null`) -/
example : selectionOf C02_mst { id := "n", parents := ["a"], data := .null } = .merge ["a"] .null := by decide
example : (mergeDocument C02_mst { id := "n", parents := ["a"], data := .null }).toOption.map (·.docs) = some C02_mst.docs := by
  rw [C02_null_layer_changes_nothing (targets := ["a"]) (by decide) (by decide)]
  rfl


end Bkl
