/-
  C02 — "Stream layering targets the right documents and treats each independently".

  The first section is a *specification* of which documents a new document (the "patch") is
  layered onto, written from the documentation and independent of `mergeDocument`'s control
  flow.  The theorems say that `mergeDocument` (Bkl/Parser.lean, mirroring parser.go) selects
  exactly those documents, merges the patch body into each of them separately (the new data of
  a selected document is `merge ownData body`), leaves every other document alone, and fails
  as a whole when one target's merge fails.
-/
import BklProofs.Lemmas.Parser
import BklProofs.Lemmas.Merge
import BklProofs.Lemmas.Order
import BklProofs.Lemmas.Process1
namespace Bkl

/-! ## Specification of the selection -/

/-- the parser state with the patch's own parents registered -/
def registered (st : PState) (patch : Doc) : PState :=
  { st with known := addParents st.known patch.id patch.parents }

/-- `id` is a (transitive) ancestor of the patch.  Computed with the parser's fuel-bounded
    `allParents`; `C02_ancestor_iff` below shows that this is exactly reachability from the
    patch's direct parents along recorded parent links (`Ancestor`, Lemmas/Parser.lean). -/
def isAncestorOf (st0 : PState) (patch : Doc) (id : String) : Bool :=
  (allParents st0.known (st0.known.length + 1) patch.parents).contains id

/-- the ids of the documents satisfying `p`, in document order -/
def idsWhere (st : PState) (p : String → Val → Bool) : List String :=
  (st.docs.filter fun d => p d.1 d.2).map (·.1)

/-- the `$match` directive of a patch: its pattern and the body (the patch minus `$match`) -/
def matchDirective : Val → Option (Val × Val)
  | .map kvs => (fget kvs "$match").map fun pat => (pat, .map (fdel kvs "$match"))
  | _ => none

inductive Selection where
  /-- a new document `(newId, body)` is added at the end of the stream -/
  | append (newId : String) (body : Val)
  /-- `body` is merged into each of the documents `targets` -/
  | merge (targets : List String) (body : Val)
  /-- a non-null `$match` matched nothing: error -/
  | noMatch
  deriving DecidableEq, Repr

/-- The selection, as documented:
    * `$match: null` → append;
    * `$match: pat` → the ancestors that match; if none, all documents that match; if none, error;
    * otherwise → the ancestors; if none, append. -/
def selectionOf (st : PState) (patch : Doc) : Selection :=
  let st0 := registered st patch
  match matchDirective patch.data with
  | some (pat, body) =>
    if pat = .null then .append (patch.id ++ "|matchnull") body
    else
      let ancestorsMatching := idsWhere st0 fun id d => isAncestorOf st0 patch id && matchV d pat
      let allMatching := idsWhere st0 fun _ d => matchV d pat
      if ancestorsMatching ≠ [] then .merge ancestorsMatching body
      else if allMatching ≠ [] then .merge allMatching body
      else .noMatch
  | none =>
    let ancestors := idsWhere st0 fun id _ => isAncestorOf st0 patch id
    if ancestors ≠ [] then .merge ancestors patch.data
    else .append patch.id patch.data

/-- the parents recorded for the patch by a selection (besides its own direct parents) -/
def Selection.linked (patchId : String) : Selection → List String
  | .append newId _ => if newId = patchId then [] else [newId]
  | .merge targets _ => targets
  | .noMatch => []

/-- the documents a selection merges into -/
def Selection.targets : Selection → List String
  | .merge targets _ => targets
  | _ => []

/-- the ids a selection adds at the end of the stream -/
def Selection.newIds : Selection → List String
  | .append newId _ => [newId]
  | _ => []

/-- "the patch makes the same selection in both streams, at every step of the run" -/
def SameSelections : PState → PState → List Doc → Prop
  | _, _, [] => True
  | s₁, s₂, p :: ps =>
    selectionOf s₁ p = selectionOf s₂ p ∧
      ∀ s₁' s₂', mergeDocument s₁ p = .ok s₁' → mergeDocument s₂ p = .ok s₂' →
        SameSelections s₁' s₂' ps

/-! ### witnesses used by the non-vacuity examples -/

/-- two scalar documents `a`, `b` -/
def C02_st : PState :=
  { docs := [("a", .int 1), ("b", .int 2)], known := [("a", []), ("b", [])] }
/-- a layer on top of `a` -/
def C02_patch : Doc := { id := "c", parents := ["a"], data := .int 5 }
def C02_st' : PState :=
  { docs := [("a", .int 5), ("b", .int 2)], known := [("a", []), ("b", []), ("c", ["a", "a"])] }

/-- two map documents -/
def C02_mst : PState :=
  { docs := [("a", .map [("x", .int 1)]), ("b", .map [("x", .int 2)])],
    known := [("a", []), ("b", [])] }
/-- a parentless patch selecting `x: 1` by `$match` -/
def C02_mpatch : Doc :=
  { id := "c", parents := [], data := .map [("$match", .map [("x", .int 1)]), ("y", .int 2)] }
def C02_mst' : PState :=
  { docs := [("a", .map [("x", .int 1), ("y", .int 2)]), ("b", .map [("x", .int 2)])],
    known := [("a", []), ("b", []), ("c", ["a"])] }

theorem C02_sel_example : selectionOf C02_st C02_patch = .merge ["a"] (.int 5) := by decide
theorem C02_msel_example :
    selectionOf C02_mst C02_mpatch = .merge ["a"] (.map [("y", .int 2)]) := by decide

/-! ## "ancestor" means: reachable along parent links -/

/-- `isAncestorOf` is the reflexive-transitive closure of the recorded `Parents` links, started
    at the patch's direct parents:
    `Ancestor known direct x` is generated by `x ∈ direct → Ancestor x` and
    `Ancestor p → x ∈ lookupParents known p → Ancestor x`.
    (So the fuel `known.length + 1` in `parentsOf` never cuts the closure short.) -/
theorem C02_ancestor_iff (st0 : PState) (patch : Doc) (id : String) :
    isAncestorOf st0 patch id = true ↔ Ancestor st0.known patch.parents id := by
  unfold isAncestorOf
  rw [List.contains_iff_mem]
  exact mem_allParents_iff_ancestor _ _ _

/-! ## The selection made by `mergeDocument` is the specified one -/

/-- `mergeDocument` = "compute the specified selection, then apply it". -/
theorem C02_selection (st : PState) (patch : Doc) :
    mergeDocument st patch =
      match selectionOf st patch with
      | .noMatch => .error .noMatchFound
      | .append newId body =>
        .ok { docs := st.docs ++ [(newId, body)],
              known := addParents (registered st patch).known patch.id
                (if newId = patch.id then [] else [newId]) }
      | .merge targets body => mergeInto (registered st patch) patch.id targets body := by
  have hdflt : ∀ data : Val,
      (if (parentsOf (registered st patch) patch.parents).isEmpty then
          (pure { registered st patch with
                    docs := (registered st patch).docs ++ [(patch.id, data)] } : R PState)
        else mergeInto (registered st patch) patch.id
              (parentsOf (registered st patch) patch.parents) data) =
      match (if idsWhere (registered st patch)
                  (fun id _ => isAncestorOf (registered st patch) patch id) ≠ [] then
               Selection.merge (idsWhere (registered st patch)
                  (fun id _ => isAncestorOf (registered st patch) patch id)) data
             else Selection.append patch.id data) with
      | .noMatch => .error .noMatchFound
      | .append newId body =>
        .ok { docs := st.docs ++ [(newId, body)],
              known := addParents (registered st patch).known patch.id
                (if newId = patch.id then [] else [newId]) }
      | .merge targets body => mergeInto (registered st patch) patch.id targets body := by
    intro data
    have hp : idsWhere (registered st patch)
        (fun id _ => isAncestorOf (registered st patch) patch id) =
        parentsOf (registered st patch) patch.parents := rfl
    rw [hp]
    cases hts : parentsOf (registered st patch) patch.parents with
    | nil =>
      simp only [List.isEmpty_nil, if_true, ne_eq, not_true_eq_false, if_false]
      have hk : addParents (registered st patch).known patch.id [] = (registered st patch).known :=
        addParents_nil_of_any _ _ (addParents_any_self st.known patch.id patch.parents)
      rw [hk]
      rfl
    | cons t ts => simp
  unfold mergeDocument selectionOf
  cases hd : patch.data with
  | map kvs =>
    simp only [matchDirective]
    cases hg : fget kvs "$match" with
    | none =>
      simp only [Option.map_none]
      exact hdflt _
    | some pat =>
      simp only [Option.map_some]
      by_cases hp : pat = .null
      · subst hp
        simp only [Val.isNull, if_true, append_matchnull_ne, if_false]
        rfl
      · have hn : pat.isNull = false := by
          cases pat <;> simp [Val.isNull] at hp ⊢
        simp only [hn, if_neg hp, Bool.false_eq_true, if_false]
        have hfm : findMatches (registered st patch) patch.parents pat =
            if idsWhere (registered st patch)
                (fun id d => isAncestorOf (registered st patch) patch id && matchV d pat) ≠ [] then
              idsWhere (registered st patch)
                (fun id d => isAncestorOf (registered st patch) patch id && matchV d pat)
            else idsWhere (registered st patch) (fun _ d => matchV d pat) :=
          findMatches_eq _ _ _
        rw [show ({ docs := st.docs, known := addParents st.known patch.id patch.parents } : PState)
              = registered st patch from rfl, hfm]
        by_cases ha : idsWhere (registered st patch)
            (fun id d => isAncestorOf (registered st patch) patch id && matchV d pat) = []
        · simp only [ha, ne_eq, not_true_eq_false, if_false]
          by_cases hb : idsWhere (registered st patch) (fun _ d => matchV d pat) = []
          · simp only [hb, List.isEmpty_nil, if_true, not_true_eq_false, if_false]
            rfl
          · have hb' : (idsWhere (registered st patch) (fun _ d => matchV d pat)).isEmpty = false :=
              (isEmpty_eq_false_iff_ne_nil _).2 hb
            simp only [hb', hb, not_false_eq_true, if_true, Bool.false_eq_true, if_false]
        · have ha' : (idsWhere (registered st patch) (fun id d =>
              isAncestorOf (registered st patch) patch id && matchV d pat)).isEmpty = false :=
            (isEmpty_eq_false_iff_ne_nil _).2 ha
          simp only [ne_eq, ha, not_false_eq_true, if_true, ha', Bool.false_eq_true, if_false]
  | null => exact hdflt _
  | bool b => exact hdflt _
  | int n => exact hdflt _
  | flt f => exact hdflt _
  | str s => exact hdflt _
  | list xs => exact hdflt _

theorem C02_selection_noMatch {st : PState} {patch : Doc} (h : selectionOf st patch = .noMatch) :
    mergeDocument st patch = .error .noMatchFound := by
  rw [C02_selection, h]

theorem C02_selection_append {st : PState} {patch : Doc} {newId : String} {body : Val}
    (h : selectionOf st patch = .append newId body) :
    mergeDocument st patch =
      .ok { docs := st.docs ++ [(newId, body)],
            known := addParents (registered st patch).known patch.id
              (if newId = patch.id then [] else [newId]) } := by
  rw [C02_selection, h]

theorem C02_selection_merge {st : PState} {patch : Doc} {targets : List String} {body : Val}
    (h : selectionOf st patch = .merge targets body) :
    mergeDocument st patch = mergeInto (registered st patch) patch.id targets body := by
  rw [C02_selection, h]

example : selectionOf C02_st C02_patch = .merge ["a"] (.int 5) := C02_sel_example
example : selectionOf C02_st { id := "c", parents := [], data := .int 5 } =
    .append "c" (.int 5) := by decide
example : selectionOf C02_mst
    { id := "c", parents := [], data := .map [("$match", .map [("x", .int 3)])] } = .noMatch := by
  decide

/-! ## C02_targets: every document gets `merge ownData body` if selected, else stays -/

/-- Merge case, by position: the stream keeps its length; the document at position `i` keeps
    its id; its new data is `merge d body` if its id is selected and `d` otherwise. -/
theorem C02_targets {st st' : PState} {patch : Doc} {targets : List String} {body : Val}
    (hm : mergeDocument st patch = .ok st') (hs : selectionOf st patch = .merge targets body) :
    st'.docs.length = st.docs.length ∧
      ∀ (i : Nat) (id : String) (d : Val), st.docs[i]? = some (id, d) →
        ∃ d', st'.docs[i]? = some (id, d') ∧
          (if id ∈ targets then merge d body = .ok d' else d' = d) := by
  rw [C02_selection_merge hs, mergeInto_ok_iff] at hm
  obtain ⟨hf, _⟩ := hm
  refine ⟨(forall₂_length hf).symm, ?_⟩
  intro i id d hi
  obtain ⟨⟨id', d'⟩, hb, he, hr⟩ := forall₂_getElem? hf i hi
  simp only at he hr
  subst he
  exact ⟨d', hb, hr⟩

/-- Merge case, as one equation: the new stream is the old one with `merge · body` applied to
    the data of the selected documents — and all of these merges succeed. -/
theorem C02_targets_map {st st' : PState} {patch : Doc} {targets : List String} {body : Val}
    (hm : mergeDocument st patch = .ok st') (hs : selectionOf st patch = .merge targets body) :
    (∀ p ∈ st.docs, p.1 ∈ targets → ∃ v, merge p.2 body = .ok v) ∧
      st'.docs = st.docs.map fun p =>
        (p.1, if p.1 ∈ targets then (match merge p.2 body with | .ok v => v | .error _ => p.2)
              else p.2) := by
  rw [C02_selection_merge hs, mergeInto_ok_iff] at hm
  obtain ⟨hf, _⟩ := hm
  refine ⟨?_, forall2_stepRel_eq_map hf⟩
  intro p hp ht
  obtain ⟨b, _, _, hr⟩ := forall₂_mem_left hf hp
  rw [if_pos ht] at hr
  exact ⟨b.2, hr⟩

/-- Merge case: the step succeeds exactly when the merge into every selected document does. -/
theorem C02_targets_ok_iff {st : PState} {patch : Doc} {targets : List String} {body : Val}
    (hs : selectionOf st patch = .merge targets body) :
    (∃ st', mergeDocument st patch = .ok st') ↔
      ∀ p ∈ st.docs, p.1 ∈ targets → ∃ v, merge p.2 body = .ok v := by
  constructor
  · rintro ⟨st', hm⟩
    exact (C02_targets_map hm hs).1
  · intro h
    refine ⟨{ docs := st.docs.map (stepFun targets body),
              known := addParents (registered st patch).known patch.id targets }, ?_⟩
    rw [C02_selection_merge hs, mergeInto_ok_iff]
    exact ⟨forall2_stepRel_of_ok h, rfl⟩

/-- Append cases: exactly one new document, holding the body, at the end. -/
theorem C02_targets_append {st st' : PState} {patch : Doc} {newId : String} {body : Val}
    (hm : mergeDocument st patch = .ok st') (hs : selectionOf st patch = .append newId body) :
    st'.docs = st.docs ++ [(newId, body)] := by
  rw [C02_selection_append hs] at hm
  cases hm; rfl

/-- the example: `c` (parent `a`) is merged into `a` only -/
theorem C02_run_example : mergeDocument C02_st C02_patch = .ok C02_st' := by
  rw [C02_selection_merge C02_sel_example, mergeInto_ok_iff]
  refine ⟨Forall2.cons ⟨rfl, ?_⟩ (Forall2.cons ⟨rfl, ?_⟩ Forall2.nil), by decide⟩
  · rw [if_pos (by decide)]
    show Bkl.merge (.int 1) (.int 5) = .ok (.int 5)
    rw [merge_scalar _ _ rfl]; rfl
  · rw [if_neg (by decide)]

example : mergeDocument C02_st C02_patch = .ok C02_st' ∧
    selectionOf C02_st C02_patch = .merge ["a"] (.int 5) := ⟨C02_run_example, C02_sel_example⟩

/-- the `$match` example: the parentless patch is merged into the one document it matches -/
theorem C02_mrun_example : mergeDocument C02_mst C02_mpatch = .ok C02_mst' := by
  rw [C02_selection_merge C02_msel_example, mergeInto_ok_iff]
  refine ⟨Forall2.cons ⟨rfl, ?_⟩ (Forall2.cons ⟨rfl, ?_⟩ Forall2.nil), by decide⟩
  · rw [if_pos (by decide)]
    show Bkl.merge (.map [("x", .int 1)]) (.map [("y", .int 2)]) =
      .ok (.map [("x", .int 1), ("y", .int 2)])
    rw [merge_map_map, mergeMapMap_noreplace (by decide), mergeFields_cons]
    have h1 : ((Val.int 2).toStr = "$delete") = False := by decide
    have h2 : fget [("x", Val.int 1)] "y" = none := by decide
    simp only [h1, if_false, h2, mergeFields_nil]
    rfl
  · rw [if_neg (by decide)]

example : mergeDocument C02_mst C02_mpatch = .ok C02_mst' ∧
    selectionOf C02_mst C02_mpatch = .merge ["a"] (.map [("y", .int 2)]) :=
  ⟨C02_mrun_example, C02_msel_example⟩

/-- the recorded parents of the patch: its own, plus what it was layered onto -/
theorem C02_known {st st' : PState} {patch : Doc} (hm : mergeDocument st patch = .ok st') :
    st'.known = addParents (addParents st.known patch.id patch.parents) patch.id
      ((selectionOf st patch).linked patch.id) := by
  rw [C02_selection] at hm
  cases hs : selectionOf st patch with
  | noMatch => rw [hs] at hm; cases hm
  | append newId body => rw [hs] at hm; cases hm; rfl
  | merge targets body =>
    rw [hs] at hm
    exact ((mergeInto_ok_iff _ _ _ _ _).1 hm).2

/-- the ids of the stream: unchanged, or one new id at the end -/
theorem C02_ids {st st' : PState} {patch : Doc} (hm : mergeDocument st patch = .ok st') :
    st'.docs.map (·.1) = st.docs.map (·.1) ++ (selectionOf st patch).newIds := by
  rw [C02_selection] at hm
  cases hs : selectionOf st patch with
  | noMatch => rw [hs] at hm; cases hm
  | append newId body =>
    rw [hs] at hm; cases hm
    simp [Selection.newIds]
  | merge targets body =>
    rw [hs] at hm
    rw [forall₂_stepRel_ids ((mergeInto_ok_iff _ _ _ _ _).1 hm).1]
    simp [Selection.newIds, registered]

/-! ## C02_frame / C02_order -/

/-- Documents that are not selected are the same before and after, at the same position. -/
theorem C02_frame {st st' : PState} {patch : Doc} (hm : mergeDocument st patch = .ok st')
    {i : Nat} {id : String} {d : Val} (hi : st.docs[i]? = some (id, d))
    (hn : id ∉ (selectionOf st patch).targets) : st'.docs[i]? = some (id, d) := by
  cases hs : selectionOf st patch with
  | noMatch => rw [C02_selection_noMatch hs] at hm; cases hm
  | append newId body =>
    rw [C02_targets_append hm hs]
    have hlt : i < st.docs.length := (List.getElem?_eq_some_iff.1 hi).1
    rw [List.getElem?_append_left hlt, hi]
  | merge targets body =>
    rw [hs] at hn
    have hn' : id ∉ targets := hn
    obtain ⟨d', h1, h2⟩ := (C02_targets hm hs).2 i id d hi
    rw [if_neg hn'] at h2
    rw [h1, h2]

/-- membership form of the frame property -/
theorem C02_frame_mem {st st' : PState} {patch : Doc} (hm : mergeDocument st patch = .ok st')
    {id : String} {d : Val} (hd : (id, d) ∈ st.docs)
    (hn : id ∉ (selectionOf st patch).targets) : (id, d) ∈ st'.docs := by
  obtain ⟨i, hi⟩ := List.mem_iff_getElem?.1 hd
  exact List.mem_iff_getElem?.2 ⟨i, C02_frame hm hi hn⟩

example : mergeDocument C02_st C02_patch = .ok C02_st' ∧ C02_st.docs[1]? = some ("b", .int 2) ∧
    "b" ∉ (selectionOf C02_st C02_patch).targets :=
  ⟨C02_run_example, rfl, by decide⟩

/-- Ids keep their order; the stream only grows at the end, by at most one document. -/
theorem C02_order {st st' : PState} {patch : Doc} (hm : mergeDocument st patch = .ok st') :
    st.docs.map (·.1) <+: st'.docs.map (·.1) ∧
      st.docs.length ≤ st'.docs.length ∧ st'.docs.length ≤ st.docs.length + 1 := by
  have h := C02_ids hm
  refine ⟨⟨_, h.symm⟩, ?_⟩
  have hl := congrArg List.length h
  simp only [List.length_map, List.length_append] at hl
  have : (selectionOf st patch).newIds.length ≤ 1 := by
    cases selectionOf st patch <;> simp [Selection.newIds]
  omega

/-! ## C02_local: the new data of a document depends on its own data and the patch only -/

/-- The new document at position `i` is a function of the old document at position `i`, the
    selected ids and the patch body — no other document's data occurs in it. -/
theorem C02_local {st st' : PState} {patch : Doc} {targets : List String} {body : Val}
    (hm : mergeDocument st patch = .ok st') (hs : selectionOf st patch = .merge targets body)
    {i : Nat} {id : String} {d : Val} (hi : st.docs[i]? = some (id, d)) :
    st'.docs[i]? = some (id, if id ∈ targets then
        (match merge d body with | .ok v => v | .error _ => d) else d) := by
  rw [(C02_targets_map hm hs).2, List.getElem?_map, hi]
  rfl

example : mergeDocument C02_mst C02_mpatch = .ok C02_mst' ∧
    selectionOf C02_mst C02_mpatch = .merge ["a"] (.map [("y", .int 2)]) ∧
    C02_mst.docs[1]? = some ("b", .map [("x", .int 2)]) :=
  ⟨C02_mrun_example, C02_msel_example, rfl⟩

/-- Two streams of the same length for which the patch makes the same selection, and which
    hold the same document at position `i`: after the step they still hold the same document
    at position `i` — whatever the *other* documents are. -/
theorem C02_noninterference_step {st₁ st₂ st₁' st₂' : PState} {patch : Doc}
    (hlen : st₁.docs.length = st₂.docs.length)
    (hsel : selectionOf st₁ patch = selectionOf st₂ patch)
    (h₁ : mergeDocument st₁ patch = .ok st₁') (h₂ : mergeDocument st₂ patch = .ok st₂')
    {i : Nat} (hi : st₁.docs[i]? = st₂.docs[i]?) : st₁'.docs[i]? = st₂'.docs[i]? := by
  cases hs : selectionOf st₁ patch with
  | noMatch => rw [C02_selection_noMatch hs] at h₁; cases h₁
  | append newId body =>
    rw [C02_targets_append h₁ hs, C02_targets_append h₂ (hsel ▸ hs)]
    rw [List.getElem?_append, List.getElem?_append, hlen, hi]
  | merge targets body =>
    have hs₂ : selectionOf st₂ patch = .merge targets body := hsel ▸ hs
    obtain ⟨hl₁, ht₁⟩ := C02_targets h₁ hs
    obtain ⟨hl₂, ht₂⟩ := C02_targets h₂ hs₂
    cases hd : st₁.docs[i]? with
    | none =>
      have hd₂ : st₂.docs[i]? = none := hi ▸ hd
      rw [List.getElem?_eq_none_iff] at hd hd₂
      rw [List.getElem?_eq_none_iff.2 (by omega), List.getElem?_eq_none_iff.2 (by omega)]
    | some p =>
      obtain ⟨id, d⟩ := p
      obtain ⟨d₁, e₁, r₁⟩ := ht₁ i id d hd
      obtain ⟨d₂, e₂, r₂⟩ := ht₂ i id d (hi ▸ hd)
      rw [e₁, e₂]
      by_cases ht : id ∈ targets
      · rw [if_pos ht] at r₁ r₂
        rw [r₁] at r₂; cases r₂; rfl
      · rw [if_neg ht] at r₁ r₂
        rw [r₁, r₂]

/-- the same patch on a stream whose *other* document differs: same selection, same `a` -/
example :
    let st₂ : PState := { docs := [("a", .int 1), ("b", .int 7)], known := [("a", []), ("b", [])] }
    C02_st.docs.length = st₂.docs.length ∧
    selectionOf C02_st C02_patch = selectionOf st₂ C02_patch ∧
    C02_st.docs[0]? = st₂.docs[0]? ∧ C02_st.docs[1]? ≠ st₂.docs[1]? := by decide

/-! ## C02_singleton: a selected document receives what it would receive alone -/

/-- The new data of a selected document is the result of the one-document merge
    `merge d body` — no other document's data occurs. -/
theorem C02_singleton {st st' : PState} {patch : Doc} {targets : List String} {body : Val}
    (hm : mergeDocument st patch = .ok st') (hs : selectionOf st patch = .merge targets body)
    {i : Nat} {id : String} {d : Val} (hi : st.docs[i]? = some (id, d)) (ht : id ∈ targets) :
    ∃ d', merge d body = .ok d' ∧ st'.docs[i]? = some (id, d') := by
  obtain ⟨d', h1, h2⟩ := (C02_targets hm hs).2 i id d hi
  rw [if_pos ht] at h2
  exact ⟨d', h2, h1⟩

theorem C02_singleton_mem {st st' : PState} {patch : Doc} {targets : List String} {body : Val}
    (hm : mergeDocument st patch = .ok st') (hs : selectionOf st patch = .merge targets body)
    {id : String} {d : Val} (hd : (id, d) ∈ st.docs) (ht : id ∈ targets) :
    ∃ d', merge d body = .ok d' ∧ (id, d') ∈ st'.docs := by
  obtain ⟨i, hi⟩ := List.mem_iff_getElem?.1 hd
  obtain ⟨d', h1, h2⟩ := C02_singleton hm hs hi ht
  exact ⟨d', h1, List.mem_iff_getElem?.2 ⟨i, h2⟩⟩

example : mergeDocument C02_st C02_patch = .ok C02_st' ∧
    selectionOf C02_st C02_patch = .merge ["a"] (.int 5) ∧
    C02_st.docs[0]? = some ("a", .int 1) ∧ "a" ∈ ["a"] :=
  ⟨C02_run_example, C02_sel_example, rfl, by decide⟩

/-- Literally "the result it would receive if it were the only document in the stream"
    (ids pairwise distinct): running the same patch on the one-document stream `[(id, d)]`
    (same recorded parents) succeeds, selects that document, and yields exactly the data `d'`
    that document `id` has after the step on the full stream. -/
theorem C02_singleton_stream {st st' : PState} {patch : Doc} {targets : List String} {body : Val}
    (hm : mergeDocument st patch = .ok st') (hs : selectionOf st patch = .merge targets body)
    (hnd : (st.docs.map (·.1)).Nodup)
    {i : Nat} {id : String} {d : Val} (hi : st.docs[i]? = some (id, d)) (ht : id ∈ targets) :
    ∃ d' known', mergeDocument { docs := [(id, d)], known := st.known } patch =
        .ok { docs := [(id, d')], known := known' } ∧ st'.docs[i]? = some (id, d') := by
  obtain ⟨d', hd', hi'⟩ := C02_singleton hm hs hi ht
  have hmem : (id, d) ∈ st.docs := List.mem_of_getElem? hi
  have key : ∀ q : String → Val → Bool, id ∈ idsWhere (registered st patch) q → q id d = true := by
    intro q hq
    unfold idsWhere at hq
    rw [List.mem_map] at hq
    obtain ⟨⟨id0, d0⟩, hf, he⟩ := hq
    rw [List.mem_filter] at hf
    simp only at he
    subst he
    have : d0 = d := distinctKeys_unique hnd hf.1 hmem
    subst this
    exact hf.2
  have single : ∀ q : String → Val → Bool,
      idsWhere (registered { docs := [(id, d)], known := st.known } patch) q =
        if q id d then [id] else [] := by
    intro q
    simp only [idsWhere, registered, List.filter_cons, List.filter_nil]
    cases q id d <;> rfl
  have hanc : isAncestorOf (registered { docs := [(id, d)], known := st.known } patch) patch =
      isAncestorOf (registered st patch) patch := rfl
  have hs1 : selectionOf { docs := [(id, d)], known := st.known } patch = .merge [id] body := by
    unfold selectionOf at hs ⊢
    cases hmd : matchDirective patch.data with
    | none =>
      rw [hmd] at hs
      simp only at hs ⊢
      split at hs
      · cases hs
        rw [single, hanc, key _ ht]
        simp
      · cases hs
    | some pb =>
      obtain ⟨pat, b⟩ := pb
      rw [hmd] at hs
      simp only at hs ⊢
      split at hs
      · cases hs
      · rename_i hp
        rw [if_neg hp]
        split at hs
        · cases hs
          rw [single, hanc, key _ ht]
          simp
        · split at hs
          · cases hs
            have hq : matchV d pat = true := key _ ht
            rw [single, single, hq]
            cases isAncestorOf (registered st patch) patch id <;> simp
          · cases hs
  refine ⟨d', addParents (registered st patch).known patch.id [id], ?_, hi'⟩
  rw [C02_selection_merge hs1, mergeInto_eq]
  have hstep : (registered { docs := [(id, d)], known := st.known } patch).docs.mapM
      (mergeStep [id] body) = .ok [(id, d')] := by
    show [(id, d)].mapM (mergeStep [id] body) = .ok [(id, d')]
    rw [mapM_R_cons, mapM_R_nil]
    simp [mergeStep, hd']
  rw [hstep]
  rfl

example : mergeDocument C02_st C02_patch = .ok C02_st' ∧
    selectionOf C02_st C02_patch = .merge ["a"] (.int 5) ∧ (C02_st.docs.map (·.1)).Nodup ∧
    C02_st.docs[0]? = some ("a", .int 1) ∧ "a" ∈ ["a"] :=
  ⟨C02_run_example, C02_sel_example, by decide, rfl, by decide⟩

/-- Why `C02_singleton_stream` asks for distinct ids: the model (like `Parser.parents`)
    identifies documents by id, so in a state with a duplicated id a `$match` hit on one copy
    selects the other copy too.  (`C02_ids_unique_preserved`: such states do not arise from
    fresh patch ids.) -/
theorem C02_duplicate_ids_select_by_id :
    let st : PState := { docs := [("a", .map [("x", .int 1)]), ("a", .map [("x", .int 2)])],
                         known := [("a", [])] }
    selectionOf st C02_mpatch = .merge ["a"] (.map [("y", .int 2)]) ∧
    st.docs[1]? = some ("a", .map [("x", .int 2)]) ∧
    matchV (.map [("x", .int 2)]) (.map [("x", .int 1)]) = false := by decide

/-! ## The three special outcomes, from hypotheses on the input only -/

/-- A non-null `$match` that matches no document is an error. -/
theorem C02_error_no_match {st : PState} {patch : Doc} {kvs : Fields} {pat : Val}
    (hd : patch.data = .map kvs) (hg : fget kvs "$match" = some pat) (hp : pat ≠ .null)
    (hno : ∀ p ∈ st.docs, matchV p.2 pat = false) :
    mergeDocument st patch = .error .noMatchFound := by
  apply C02_selection_noMatch
  have ha : idsWhere (registered st patch)
      (fun id d => isAncestorOf (registered st patch) patch id && matchV d pat) = [] := by
    unfold idsWhere
    rw [List.map_eq_nil_iff, List.filter_eq_nil_iff]
    intro a ha
    simp [hno a ha]
  have hb : idsWhere (registered st patch) (fun _ d => matchV d pat) = [] := by
    unfold idsWhere
    rw [List.map_eq_nil_iff, List.filter_eq_nil_iff]
    intro a ha
    simp [hno a ha]
  unfold selectionOf
  simp only [hd, matchDirective, hg, Option.map_some, if_neg hp, ha, hb, ne_eq,
    not_true_eq_false, if_false]

example :
    let patch : Doc := { id := "c", parents := [], data := .map [("$match", .map [("x", .int 3)])] }
    patch.data = .map [("$match", .map [("x", .int 3)])] ∧
    fget [("$match", Val.map [("x", .int 3)])] "$match" = some (.map [("x", .int 3)]) ∧
    Val.map [("x", .int 3)] ≠ .null ∧
    ∀ p ∈ C02_mst.docs, matchV p.2 (.map [("x", .int 3)]) = false := by decide

/-- `$match: null`: exactly one new document `id|matchnull` holding the body (the patch minus
    `$match`) is added at the end; no existing document changes. -/
theorem C02_match_null_appends {st : PState} {patch : Doc} {kvs : Fields}
    (hd : patch.data = .map kvs) (hg : fget kvs "$match" = some .null) :
    mergeDocument st patch =
      .ok { docs := st.docs ++ [(patch.id ++ "|matchnull", .map (fdel kvs "$match"))],
            known := addParents (addParents st.known patch.id patch.parents) patch.id
              [patch.id ++ "|matchnull"] } := by
  have hs : selectionOf st patch =
      .append (patch.id ++ "|matchnull") (.map (fdel kvs "$match")) := by
    unfold selectionOf
    simp only [hd, matchDirective, hg, Option.map_some, if_true]
  rw [C02_selection_append hs, if_neg (append_matchnull_ne _)]
  rfl

example : (Doc.mk "c" ["a"] (.map [("$match", .null), ("y", .int 2)])).data =
      .map [("$match", .null), ("y", .int 2)] ∧
    fget [("$match", Val.null), ("y", .int 2)] "$match" = some .null := by decide

/-- No `$match` and no ancestor among the documents: the patch itself becomes a new document
    at the end; no existing document changes. -/
theorem C02_default_no_parents_appends {st : PState} {patch : Doc}
    (hnm : matchDirective patch.data = none)
    (hno : ∀ p ∈ st.docs, isAncestorOf (registered st patch) patch p.1 = false) :
    mergeDocument st patch =
      .ok { docs := st.docs ++ [(patch.id, patch.data)],
            known := addParents st.known patch.id patch.parents } := by
  have ha : idsWhere (registered st patch)
      (fun id _ => isAncestorOf (registered st patch) patch id) = [] := by
    unfold idsWhere
    rw [List.map_eq_nil_iff, List.filter_eq_nil_iff]
    intro a ha
    simp [hno a ha]
  have hs : selectionOf st patch = .append patch.id patch.data := by
    unfold selectionOf
    simp only [hnm, ha, ne_eq, not_true_eq_false, if_false]
  rw [C02_selection_append hs, if_pos rfl]
  have hk : addParents (registered st patch).known patch.id [] = (registered st patch).known :=
    addParents_nil_of_any _ _ (addParents_any_self st.known patch.id patch.parents)
  rw [hk]
  rfl

/-- in particular: a document without parents and without `$match` starts a new document -/
theorem C02_default_root_appends {st : PState} {patch : Doc}
    (hnm : matchDirective patch.data = none) (hp : patch.parents = []) :
    mergeDocument st patch =
      .ok { docs := st.docs ++ [(patch.id, patch.data)],
            known := addParents st.known patch.id [] } := by
  rw [C02_default_no_parents_appends hnm, hp]
  intro p _
  simp only [isAncestorOf, hp, allParents, List.flatMap_nil, List.append_nil,
    List.contains_nil]

example : matchDirective (Doc.mk "c" [] (.int 5)).data = none ∧
    (Doc.mk "c" [] (.int 5)).parents = [] := by decide
example : matchDirective (Doc.mk "c" ["zz"] (.int 5)).data = none ∧
    ∀ p ∈ C02_st.docs, isAncestorOf (registered C02_st (Doc.mk "c" ["zz"] (.int 5)))
      (Doc.mk "c" ["zz"] (.int 5)) p.1 = false := by decide

/-! ## C02_merge_error_propagates: no silent skip -/

/-- If the merge into some selected document fails, the whole step fails. -/
theorem C02_merge_error_propagates {st : PState} {patch : Doc} {targets : List String}
    {body : Val} (hs : selectionOf st patch = .merge targets body)
    {id : String} {d : Val} {e : Err} (hd : (id, d) ∈ st.docs) (ht : id ∈ targets)
    (he : merge d body = .error e) : ∃ e', mergeDocument st patch = .error e' := by
  cases hm : mergeDocument st patch with
  | error e' => exact ⟨e', rfl⟩
  | ok st' =>
    obtain ⟨v, hv⟩ := (C02_targets_map hm hs).1 (id, d) hd ht
    rw [he] at hv; cases hv

/-- … and the error reported is that of the first selected document (in document order) whose
    merge fails. -/
theorem C02_merge_error_first {st : PState} {patch : Doc} {targets : List String}
    {body : Val} (hs : selectionOf st patch = .merge targets body) (e : Err) :
    mergeDocument st patch = .error e ↔
      ∃ before p after, st.docs = before ++ p :: after ∧
        (∀ q ∈ before, q.1 ∈ targets → ∃ v, merge q.2 body = .ok v) ∧
        p.1 ∈ targets ∧ merge p.2 body = .error e := by
  rw [C02_selection_merge hs, mergeInto_error_iff, mapM_R_error_iff]
  simp only [mergeStep_ok_iff', mergeStep_error_iff]
  rfl

/-- a stream where the patch `x: 1` cannot be layered onto `a` (`x: 1` already there) -/
example :
    let patch : Doc := { id := "c", parents := ["a"], data := .map [("x", .int 1)] }
    selectionOf C02_mst patch = .merge ["a"] (.map [("x", .int 1)]) ∧
    ("a", Val.map [("x", .int 1)]) ∈ C02_mst.docs ∧ "a" ∈ ["a"] ∧
    merge (.map [("x", .int 1)]) (.map [("x", .int 1)]) = .error .uselessOverride :=
  ⟨by decide, by decide, by decide, merge_x_x⟩

/-! ## C02_noninterference: whole streams -/

theorem C02_length {st st' : PState} {patch : Doc} (hm : mergeDocument st patch = .ok st') :
    st'.docs.length = st.docs.length + (selectionOf st patch).newIds.length := by
  have h := congrArg List.length (C02_ids hm)
  simpa only [List.length_map, List.length_append] using h

/-- Two runs of the same patch list (`runMerges` is defined in `Lemmas/Parser.lean` as
    `ps.foldlM mergeDocument st`) from streams of the same length, in which every patch makes
    the same selection: if the streams start with the same document at position `i`, they end
    with the same document at position `i`.  The data of the *other* documents is unconstrained,
    so it cannot influence document `i`. -/
theorem C02_noninterference {ps : List Doc} : ∀ {st₁ st₂ f₁ f₂ : PState},
    SameSelections st₁ st₂ ps → st₁.docs.length = st₂.docs.length →
    runMerges st₁ ps = .ok f₁ → runMerges st₂ ps = .ok f₂ →
    ∀ {i : Nat}, st₁.docs[i]? = st₂.docs[i]? → f₁.docs[i]? = f₂.docs[i]? := by
  induction ps with
  | nil =>
    intro st₁ st₂ f₁ f₂ _ _ h₁ h₂ i hi
    rw [runMerges_nil] at h₁ h₂
    cases h₁; cases h₂; exact hi
  | cons p ps ih =>
    intro st₁ st₂ f₁ f₂ hsel hlen h₁ h₂ i hi
    rw [runMerges_cons] at h₁ h₂
    cases hm₁ : mergeDocument st₁ p with
    | error e => rw [hm₁] at h₁; cases h₁
    | ok s₁ =>
      cases hm₂ : mergeDocument st₂ p with
      | error e => rw [hm₂] at h₂; cases h₂
      | ok s₂ =>
        rw [hm₁] at h₁; rw [hm₂] at h₂
        have hlen' : s₁.docs.length = s₂.docs.length := by
          rw [C02_length hm₁, C02_length hm₂, hsel.1, hlen]
        exact ih (hsel.2 s₁ s₂ hm₁ hm₂) hlen' h₁ h₂
          (C02_noninterference_step hlen hsel.1 hm₁ hm₂ hi)

/-- Without `$match` the selection is by ancestry only: it depends on the ids and on the
    recorded parents, not on any document's data. -/
theorem C02_selection_nomatch_congr {st₁ st₂ : PState} {patch : Doc}
    (hnm : matchDirective patch.data = none)
    (hids : st₁.docs.map (·.1) = st₂.docs.map (·.1)) (hk : st₁.known = st₂.known) :
    selectionOf st₁ patch = selectionOf st₂ patch := by
  have e₁ : idsWhere (registered st₁ patch)
      (fun id _ => isAncestorOf (registered st₁ patch) patch id) =
      (st₁.docs.map (·.1)).filter (fun id => isAncestorOf (registered st₁ patch) patch id) :=
    filter_ids st₁.docs _
  have e₂ : idsWhere (registered st₂ patch)
      (fun id _ => isAncestorOf (registered st₂ patch) patch id) =
      (st₂.docs.map (·.1)).filter (fun id => isAncestorOf (registered st₂ patch) patch id) :=
    filter_ids st₂.docs _
  have ea : isAncestorOf (registered st₁ patch) patch = isAncestorOf (registered st₂ patch) patch := by
    funext id
    simp only [isAncestorOf, registered, hk]
  unfold selectionOf
  simp only [hnm]
  rw [e₁, e₂, ea, hids]

theorem C02_sameSelections_nomatch {ps : List Doc} : ∀ {st₁ st₂ : PState},
    (∀ p ∈ ps, matchDirective p.data = none) →
    st₁.docs.map (·.1) = st₂.docs.map (·.1) → st₁.known = st₂.known →
    SameSelections st₁ st₂ ps := by
  induction ps with
  | nil => intro _ _ _ _ _; trivial
  | cons p ps ih =>
    intro st₁ st₂ hnm hids hk
    have hsel := C02_selection_nomatch_congr (hnm p List.mem_cons_self) hids hk
    refine ⟨hsel, ?_⟩
    intro s₁ s₂ hm₁ hm₂
    refine ih (fun q hq => hnm q (List.mem_cons_of_mem _ hq)) ?_ ?_
    · rw [C02_ids hm₁, C02_ids hm₂, hsel, hids]
    · rw [C02_known hm₁, C02_known hm₂, hsel, hk]

/-- `$match`-free streams: the final data of document `i` is a function of its initial data and
    the patch list (given the ids and the parent table) — two runs that start with the same ids,
    the same recorded parents and the same document at position `i` end with the same document
    at position `i`, whatever the other documents hold. -/
theorem C02_noninterference_nomatch {ps : List Doc} {st₁ st₂ f₁ f₂ : PState}
    (hnm : ∀ p ∈ ps, matchDirective p.data = none)
    (hids : st₁.docs.map (·.1) = st₂.docs.map (·.1)) (hk : st₁.known = st₂.known)
    (h₁ : runMerges st₁ ps = .ok f₁) (h₂ : runMerges st₂ ps = .ok f₂)
    {i : Nat} (hi : st₁.docs[i]? = st₂.docs[i]?) : f₁.docs[i]? = f₂.docs[i]? :=
  C02_noninterference (C02_sameSelections_nomatch hnm hids hk)
    (by simpa only [List.length_map] using congrArg List.length hids) h₁ h₂ hi

/-- witnesses: a second stream that differs from `C02_st` in the *other* document `b` -/
def C02_st₂ : PState :=
  { docs := [("a", .int 1), ("b", .int 7)], known := [("a", []), ("b", [])] }
def C02_st₂' : PState :=
  { docs := [("a", .int 5), ("b", .int 7)], known := [("a", []), ("b", []), ("c", ["a", "a"])] }

theorem C02_run_example₂ : mergeDocument C02_st₂ C02_patch = .ok C02_st₂' := by
  rw [C02_selection_merge (show selectionOf C02_st₂ C02_patch = .merge ["a"] (.int 5) by decide),
    mergeInto_ok_iff]
  refine ⟨Forall2.cons ⟨rfl, ?_⟩ (Forall2.cons ⟨rfl, ?_⟩ Forall2.nil), by decide⟩
  · rw [if_pos (by decide)]
    show Bkl.merge (.int 1) (.int 5) = .ok (.int 5)
    rw [merge_scalar _ _ rfl]; rfl
  · rw [if_neg (by decide)]

example : (∀ p ∈ [C02_patch], matchDirective p.data = none) ∧
    C02_st.docs.map (·.1) = C02_st₂.docs.map (·.1) ∧ C02_st.known = C02_st₂.known ∧
    runMerges C02_st [C02_patch] = .ok C02_st' ∧ runMerges C02_st₂ [C02_patch] = .ok C02_st₂' ∧
    C02_st.docs[0]? = C02_st₂.docs[0]? ∧ C02_st.docs[1]? ≠ C02_st₂.docs[1]? := by
  refine ⟨by decide, by decide, by decide, ?_, ?_, by decide, by decide⟩
  · rw [runMerges_cons, C02_run_example]; rfl
  · rw [runMerges_cons, C02_run_example₂]; rfl

example : SameSelections C02_st C02_st₂ [C02_patch] ∧
    C02_st.docs.length = C02_st₂.docs.length :=
  ⟨⟨by decide, fun _ _ _ _ => trivial⟩, rfl⟩

/-! ## C02_ids_unique_preserved -/

theorem C02_append_id {st : PState} {patch : Doc} {newId : String} {body : Val}
    (h : selectionOf st patch = .append newId body) :
    newId = patch.id ∨ newId = patch.id ++ "|matchnull" := by
  unfold selectionOf at h
  cases hmd : matchDirective patch.data with
  | none =>
    rw [hmd] at h
    simp only at h
    split at h
    · cases h
    · cases h; exact Or.inl rfl
  | some pb =>
    obtain ⟨pat, b⟩ := pb
    rw [hmd] at h
    simp only at h
    split at h
    · cases h; exact Or.inr rfl
    · split at h
      · cases h
      · split at h <;> cases h

/-- Distinct ids stay distinct when the patch's id (and `id|matchnull`) is fresh. -/
theorem C02_ids_unique_preserved {st st' : PState} {patch : Doc}
    (hm : mergeDocument st patch = .ok st') (hnd : (st.docs.map (·.1)).Nodup)
    (hf₁ : patch.id ∉ st.docs.map (·.1))
    (hf₂ : patch.id ++ "|matchnull" ∉ st.docs.map (·.1)) : (st'.docs.map (·.1)).Nodup := by
  rw [C02_ids hm]
  cases hs : selectionOf st patch with
  | noMatch => simpa [Selection.newIds] using hnd
  | merge targets body => simpa [Selection.newIds] using hnd
  | append newId body =>
    simp only [Selection.newIds]
    rw [List.nodup_append]
    refine ⟨hnd, by simp, ?_⟩
    intro a ha b hb
    rw [List.mem_singleton] at hb
    subst hb
    intro hab
    subst hab
    rcases C02_append_id hs with h | h
    · exact hf₁ (h ▸ ha)
    · exact hf₂ (h ▸ ha)

example : mergeDocument C02_st C02_patch = .ok C02_st' ∧ (C02_st.docs.map (·.1)).Nodup ∧
    C02_patch.id ∉ C02_st.docs.map (·.1) ∧
    C02_patch.id ++ "|matchnull" ∉ C02_st.docs.map (·.1) :=
  ⟨C02_run_example, by decide, by decide, by decide⟩

end Bkl
