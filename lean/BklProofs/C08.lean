/-
  C08 — "Every invocation terminates with complete output or a reported error …  Reference
  cycles of every kind — $merge/$replace loops, self-referential interpolation, a subtree merged
  into itself, $parent cycles between files — are reported as errors."

  Every model function is total (structural recursion, fuel recursion with fuel = the depth
  guard 1000 of the Go code, or well-founded recursion), so "terminates" holds by construction
  (`C08_total`).  The theorems below say what the depth guard turns the cyclic inputs into, for
  EVERY fuel:

  * forwarding references (`$merge:k` / `$replace:k` strings, `{$replace: k}` maps): every closed
    system — n-cycles, lassos, mixed forms — is `circularRef` (`C08_string_cycle`,
    `C08_string_replace_cycle`, `C08_map_replace_cycle_2`, `C08_forwarding_closed_is_error`);
  * interpolation cycles are `circularRef` (`C08_interp_cycle`, `…_2`, `…_general`, `…_doc`);
  * `$parent` cycles between files are `circularRef` (`C08_parent_cycle`, `…_general`, `…_list`);
  * a map key that evaluates to a non-string is `invalidType` (`C08_key_not_string_is_error`);
  * FALSE as worded: the MAP form of a `$merge` loop, `a: {$merge: b}, b: {$merge: a}` (and the
    self-loop `a: {$merge: a}`), is NOT reported: the host is expanded in place after its
    `$merge` key was deleted, so the second visit finds an empty map and the evaluation ends
    with `{a: {}, b: {}}` (`C08_map_cycle_2_false`, `C08_map_cycle_2_partial`,
    `C08_map_self_cycle_false`, `C08_map_self_cycle_partial`).  The Go binary agrees.  With
    content in the hosts the loop is reported, as `uselessOverride` (`C08_map_cycle_2_with_keys`).
  * likewise "a subtree merged into itself" (`a: {$merge: [], x: 1}`) is evaluated once and
    yields a finite value (`C08_self_merge_value`).

  Helper lemmas: `BklProofs/Lemmas/Cycles.lean`.
-/
import BklProofs.Lemmas.Cycles
import BklProofs.Lemmas.CyclesFS
import BklProofs.Lemmas.C08Cycles
import BklProofs.Lemmas.C08Errors
set_option linter.unusedVariables false
namespace Bkl

/-! ## 1. forwarding references: `$merge:` / `$replace:` strings, `$replace` maps -/

/-- The general statement.  A document `kvs` is a *closed system of forwarding references*
    (`RefClosed`) if every entry value, evaluated against this root, resolves a simple key of the
    same document and continues with the referenced value (`NextRef`: this is what `$merge:k`,
    `$replace:k` and `{$replace: k}` do).  Then the evaluation is `circularRef` for every fuel:
    every n-cycle, every lasso into a cycle, every mixture of the three forms. -/
theorem C08_forwarding_closed_is_error {kvs : Fields} (H : RefClosed kvs) (hne : kvs ≠ [])
    (h0 : fget kvs "$merge" = none) (h1 : fget kvs "$replace" = none)
    (fuel : Nat) (docs : List Val) :
    process1 fuel docs (.map kvs) (some []) (.map kvs) = .error .circularRef :=
  refClosed_doc_error H hne h0 h1 fuel docs (some [])

/-- … and each single entry is `circularRef` wherever it is evaluated. -/
theorem C08_forwarding_closed_entry_is_error {kvs : Fields} (H : RefClosed kvs)
    (fuel : Nat) (docs : List Val) (loc : Loc) (p : String × Val) (hp : p ∈ kvs) :
    process1 fuel docs (.map kvs) loc p.2 = .error .circularRef :=
  refClosed_entry_error H fuel docs loc p hp

-- non-vacuity: a lasso `c → a ⇄ b` mixing the three forms
example : RefClosed [("a", .str "$merge:b"), ("b", .map [("$replace", .str "a")]),
    ("c", .str "$replace:a")] ∧
    fget [("a", Val.str "$merge:b"), ("b", .map [("$replace", .str "a")]),
      ("c", .str "$replace:a")] "$merge" = none ∧
    fget [("a", Val.str "$merge:b"), ("b", .map [("$replace", .str "a")]),
      ("c", .str "$replace:a")] "$replace" = none := by
  refine ⟨?_, by decide, by decide⟩
  intro p hp
  simp only [List.mem_cons, List.not_mem_nil, or_false] at hp
  rcases hp with rfl | rfl | rfl
  · exact ⟨"b", .map [("$replace", .str "a")], nextRef_str_merge _ "b", simpleKey_b, by decide⟩
  · exact ⟨"a", .str "$merge:b", nextRef_map_replace _ (by decide) (by decide), simpleKey_a,
      by decide⟩
  · exact ⟨"a", .str "$merge:b", nextRef_str_replace _ "a", simpleKey_a, by decide⟩

/-- The n-cycle of `$merge:` strings, for every n ≥ 1 and all simple key names
    `k₀ … kₙ₋₁` (distinctness and sortedness are not even needed):
    `k₀: $merge:k₁, k₁: $merge:k₂, …, kₙ₋₁: $merge:k₀` is `circularRef` for every fuel. -/
theorem C08_string_cycle (ks : List String) (hne : ks ≠ []) (hk : ∀ k ∈ ks, SimpleKey k)
    (hm : "$merge" ∉ ks) (hr : "$replace" ∉ ks) (fuel : Nat) (docs : List Val) :
    process1 fuel docs (.map (cycleFields (fun k => .str ("$merge:" ++ k)) ks)) (some [])
      (.map (cycleFields (fun k => .str ("$merge:" ++ k)) ks)) = .error .circularRef :=
  C08_forwarding_closed_is_error
    (cycleFields_refClosed _ ks hk (fun k _ => nextRef_str_merge _ k))
    (cycleFields_ne_nil _ hne) (cycleFields_fget_none _ ks hm) (cycleFields_fget_none _ ks hr)
    fuel docs

/-- The same for `$replace:` strings. -/
theorem C08_string_replace_cycle (ks : List String) (hne : ks ≠ [])
    (hk : ∀ k ∈ ks, SimpleKey k) (hm : "$merge" ∉ ks) (hr : "$replace" ∉ ks)
    (fuel : Nat) (docs : List Val) :
    process1 fuel docs (.map (cycleFields (fun k => .str ("$replace:" ++ k)) ks)) (some [])
      (.map (cycleFields (fun k => .str ("$replace:" ++ k)) ks)) = .error .circularRef :=
  C08_forwarding_closed_is_error
    (cycleFields_refClosed _ ks hk (fun k _ => nextRef_str_replace _ k))
    (cycleFields_ne_nil _ hne) (cycleFields_fget_none _ ks hm) (cycleFields_fget_none _ ks hr)
    fuel docs

-- non-vacuity: the 5-cycle a → b → c → d → e → a (sorted keys), and the simple keys "a" … "e"
example : cycleFields (fun k => .str ("$merge:" ++ k)) ["a", "b", "c", "d", "e"] =
    [("a", .str "$merge:b"), ("b", .str "$merge:c"), ("c", .str "$merge:d"),
     ("d", .str "$merge:e"), ("e", .str "$merge:a")] := by decide
example : (∀ k ∈ ["a", "b", "c", "d", "e"], SimpleKey k) ∧
    "$merge" ∉ ["a", "b", "c", "d", "e"] ∧ "$replace" ∉ ["a", "b", "c", "d", "e"] := by
  refine ⟨?_, by decide, by decide⟩
  intro k hk
  simp only [List.mem_cons, List.not_mem_nil, or_false] at hk
  rcases hk with rfl | rfl | rfl | rfl | rfl
  exacts [simpleKey_a, simpleKey_b, simpleKey_c, simpleKey_d, simpleKey_e]

/-- a key is simple as soon as it is a plain YAML scalar without a dot -/
theorem C08_simple_key_of_plain {k : String} (h1 : isPlainRef k = true) (h2 : '.' ∉ k.toList) :
    SimpleKey k := simpleKey_of_plain h1 h2

example : isPlainRef "c" = true ∧ '.' ∉ "c".toList := ⟨isPlainRef_c, by decide⟩

/-- the 5-cycle as a concrete document -/
theorem C08_string_cycle_5 (fuel : Nat) (docs : List Val) :
    process1 fuel docs
      (.map [("a", .str "$merge:b"), ("b", .str "$merge:c"), ("c", .str "$merge:d"),
        ("d", .str "$merge:e"), ("e", .str "$merge:a")]) (some [])
      (.map [("a", .str "$merge:b"), ("b", .str "$merge:c"), ("c", .str "$merge:d"),
        ("d", .str "$merge:e"), ("e", .str "$merge:a")]) = .error .circularRef := by
  have h := C08_string_cycle ["a", "b", "c", "d", "e"] (by decide)
    (by
      intro k hk
      simp only [List.mem_cons, List.not_mem_nil, or_false] at hk
      rcases hk with rfl | rfl | rfl | rfl | rfl
      exacts [simpleKey_a, simpleKey_b, simpleKey_c, simpleKey_d, simpleKey_e])
    (by decide) (by decide) fuel docs
  have e : cycleFields (fun k => .str ("$merge:" ++ k)) ["a", "b", "c", "d", "e"] =
      [("a", .str "$merge:b"), ("b", .str "$merge:c"), ("c", .str "$merge:d"),
       ("d", .str "$merge:e"), ("e", .str "$merge:a")] := by decide
  rw [e] at h; exact h

/-- `a: {$replace: b}, b: {$replace: a}` is `circularRef` for every fuel. -/
theorem C08_map_replace_cycle_2 (fuel : Nat) (docs : List Val) :
    process1 fuel docs
      (.map [("a", .map [("$replace", .str "b")]), ("b", .map [("$replace", .str "a")])])
      (some [])
      (.map [("a", .map [("$replace", .str "b")]), ("b", .map [("$replace", .str "a")])]) =
      .error .circularRef := by
  refine C08_forwarding_closed_is_error ?_ (by decide) (by decide) (by decide) fuel docs
  intro p hp
  simp only [List.mem_cons, List.not_mem_nil, or_false] at hp
  rcases hp with rfl | rfl
  · exact ⟨"b", .map [("$replace", .str "a")], nextRef_map_replace _ (by decide) (by decide),
      simpleKey_b, by decide⟩
  · exact ⟨"a", .map [("$replace", .str "b")], nextRef_map_replace _ (by decide) (by decide),
      simpleKey_a, by decide⟩

/-! ## 2. the MAP form of a `$merge` loop is not reported -/

/-- Exact behaviour: with at least 4 units of fuel the 2-cycle of `$merge` maps evaluates to
    `{a: {}, b: {}}`.  Reduction: host `a` loses `$merge` (root: `a: {}`), receives `b`'s map
    `{$merge: a}` and is evaluated again: it loses `$merge` again, receives its own current
    content `{}`, and ends as `{}`; then host `b` receives `a`'s content `{}`. -/
theorem C08_map_cycle_2_partial (fuel : Nat) (docs : List Val) :
    process1 (fuel + 4) docs mapCycle2 (some []) mapCycle2 =
      .ok (.map [("a", .map []), ("b", .map [])], .map [("a", .map []), ("b", .map [])]) := by
  unfold mapCycle2
  rw [process1_map_plain (by decide) (by decide), foldlM_cons]
  have ha : process1 (fuel + 3) docs
      (.map [("a", .map [("$merge", .str "b")]), ("b", .map [("$merge", .str "a")])])
      (some [.key "a"]) (.map [("$merge", .str "b")]) =
      .ok (.map [], .map [("a", .map []), ("b", .map [("$merge", .str "a")])]) := by
    refine (host_step (k := "b") (d := []) (s := [("$merge", .str "a")])
      (next := [("$merge", .str "a")])
      (rkvs1 := [("a", .map []), ("b", .map [("$merge", .str "a")])])
      (rkvs2 := [("a", .map [("$merge", .str "a")]), ("b", .map [("$merge", .str "a")])])
      simpleKey_b (by decide) (by decide) (by decide) (by decide) (by decide)
      (mergeFields_empty_single _ _ (by decide)) (by decide)).trans ?_
    refine (host_step (k := "a") (d := []) (s := []) (next := [])
      (rkvs1 := [("a", .map []), ("b", .map [("$merge", .str "a")])])
      (rkvs2 := [("a", .map []), ("b", .map [("$merge", .str "a")])])
      simpleKey_a (by decide) (by decide) (by decide) (by decide) (by decide)
      (mergeFields_nil _) (by decide)).trans ?_
    rw [process1_empty_map]
  have hb : process1 (fuel + 3) docs
      (.map [("a", .map []), ("b", .map [("$merge", .str "a")])])
      (some [.key "b"]) (.map [("$merge", .str "a")]) =
      .ok (.map [], .map [("a", .map []), ("b", .map [])]) := by
    refine (host_step (k := "a") (d := []) (s := []) (next := [])
      (rkvs1 := [("a", .map []), ("b", .map [])])
      (rkvs2 := [("a", .map []), ("b", .map [])])
      simpleKey_a (by decide) (by decide) (by decide) (by decide) (by decide)
      (mergeFields_nil _) (by decide)).trans ?_
    rw [process1_empty_map]
  have ea : childLoc (some []) "a" = some [.key "a"] := rfl
  have eb : childLoc (some []) "b" = some [.key "b"] := rfl
  simp only [mapStep, ea, eb, ha, hb, R_bind_ok, Val.isNull, Bool.false_eq_true, if_false,
    process1_key_plain (k := "a") (by decide) (by decide),
    process1_key_plain (k := "b") (by decide) (by decide), R_pure, foldlM_cons, foldlM_nil]
  exact congrArg Except.ok (by decide)

/-- The requested statement "for every fuel the result is an error" is FALSE for the map form. -/
theorem C08_map_cycle_2_false :
    ¬ ∀ fuel, ∃ e, process1 fuel [] mapCycle2 (some []) mapCycle2 = .error e := by
  intro h
  obtain ⟨e, he⟩ := h 4
  rw [C08_map_cycle_2_partial 0 []] at he
  cases he

/-- In particular at the depth limit used by `processDoc` (1000). -/
theorem C08_map_cycle_2_at_depth_limit (docs : List Val) :
    process1 depthLimit docs mapCycle2 (some []) mapCycle2 =
      .ok (.map [("a", .map []), ("b", .map [])], .map [("a", .map []), ("b", .map [])]) :=
  C08_map_cycle_2_partial 996 docs

/-- Exact behaviour of the self-loop: `{a: {}}` (fuel ≥ 3). -/
theorem C08_map_self_cycle_partial (fuel : Nat) (docs : List Val) :
    process1 (fuel + 3) docs mapSelfCycle (some []) mapSelfCycle =
      .ok (.map [("a", .map [])], .map [("a", .map [])]) := by
  unfold mapSelfCycle
  rw [process1_map_plain (by decide) (by decide), foldlM_cons]
  have ha : process1 (fuel + 2) docs (.map [("a", .map [("$merge", .str "a")])])
      (some [.key "a"]) (.map [("$merge", .str "a")]) =
      .ok (.map [], .map [("a", .map [])]) := by
    refine (host_step (k := "a") (d := []) (s := []) (next := [])
      (rkvs1 := [("a", .map [])]) (rkvs2 := [("a", .map [])])
      simpleKey_a (by decide) (by decide) (by decide) (by decide) (by decide)
      (mergeFields_nil _) (by decide)).trans ?_
    rw [process1_empty_map]
  have ea : childLoc (some []) "a" = some [.key "a"] := rfl
  simp only [mapStep, ea, ha, R_bind_ok, Val.isNull, Bool.false_eq_true, if_false,
    process1_key_plain (k := "a") (by decide) (by decide), R_pure, foldlM_nil]
  exact congrArg Except.ok (by decide)

theorem C08_map_self_cycle_false :
    ¬ ∀ fuel, ∃ e, process1 fuel [] mapSelfCycle (some []) mapSelfCycle = .error e := by
  intro h
  obtain ⟨e, he⟩ := h 3
  rw [C08_map_self_cycle_partial 0 []] at he
  cases he

/-- When the hosts of the loop carry content, the second visit of `a` merges `a`'s content into
    itself and the ordinary merge rules report a useless override: an error, though not
    `circularRef`. -/
theorem C08_map_cycle_2_with_keys (fuel : Nat) (docs : List Val) :
    process1 (fuel + 3) docs mapCycle2Keys (some []) mapCycle2Keys = .error .uselessOverride := by
  unfold mapCycle2Keys
  rw [process1_map_plain (by decide) (by decide), foldlM_cons]
  have hn1 : mergeFields [("x", Val.int 1)] [("$merge", .str "a"), ("y", .int 2)] =
      .ok [("$merge", .str "a"), ("x", .int 1), ("y", .int 2)] := by
    rw [mergeFields_cons, if_neg (by decide)]
    have h1 : fget [("x", Val.int 1)] "$merge" = none := by decide
    have h2 : fset [("x", Val.int 1)] "$merge" (.str "a") =
        [("$merge", .str "a"), ("x", .int 1)] := by decide
    simp only [h1, h2]
    rw [mergeFields_cons, if_neg (by decide)]
    have h3 : fget [("$merge", Val.str "a"), ("x", Val.int 1)] "y" = none := by decide
    have h4 : fset [("$merge", Val.str "a"), ("x", Val.int 1)] "y" (.int 2) =
        [("$merge", .str "a"), ("x", .int 1), ("y", .int 2)] := by decide
    simp only [h3, h4, mergeFields_nil]
  have hn2 : mergeFields [("x", Val.int 1), ("y", .int 2)] [("x", Val.int 1), ("y", .int 2)] =
      .error .uselessOverride := by
    rw [mergeFields_cons, if_neg (by decide)]
    have h1 : fget [("x", Val.int 1), ("y", .int 2)] "x" = some (.int 1) := by decide
    have h2 : merge (.int 1) (.int 1) = .error .uselessOverride := by
      rw [merge_scalar _ _ rfl]; rfl
    simp only [h1, h2]
  have ha : process1 (fuel + 2) docs
      (.map [("a", .map [("$merge", .str "b"), ("x", .int 1)]),
        ("b", .map [("$merge", .str "a"), ("y", .int 2)])])
      (some [.key "a"]) (.map [("$merge", .str "b"), ("x", .int 1)]) =
      .error .uselessOverride := by
    refine (host_step (k := "b") (d := [("x", .int 1)]) (s := [("$merge", .str "a"), ("y", .int 2)])
      (next := [("$merge", .str "a"), ("x", .int 1), ("y", .int 2)])
      (rkvs1 := [("a", .map [("x", .int 1)]), ("b", .map [("$merge", .str "a"), ("y", .int 2)])])
      (rkvs2 := [("a", .map [("$merge", .str "a"), ("x", .int 1), ("y", .int 2)]),
        ("b", .map [("$merge", .str "a"), ("y", .int 2)])])
      simpleKey_b (by decide) (by decide) (by decide) (by decide) (by decide) hn1
      (by decide)).trans ?_
    exact process1_merge_step_error (ref := .str "a") (s := [("x", .int 1), ("y", .int 2)])
      (root1 := .map [("a", .map [("x", .int 1), ("y", .int 2)]),
        ("b", .map [("$merge", .str "a"), ("y", .int 2)])])
      (by decide) (by decide) (get_simpleKey simpleKey_a docs (by decide)) (by decide)
      (by rw [show fdel [("$merge", Val.str "a"), ("x", .int 1), ("y", .int 2)] "$merge" =
            [("x", .int 1), ("y", .int 2)] from by decide]; exact hn2)
  have ea : childLoc (some []) "a" = some [.key "a"] := rfl
  simp only [mapStep, ea, ha]
  rfl

/-! ## 3. interpolation cycles -/

/-- A closed system of interpolations — every entry is `$"{k}"` for a plain key `k` of the same
    document — is `circularRef` for every fuel, stream and variable context. -/
theorem C08_interp_cycle_general {kvs : Fields} (H : InterpClosed kvs)
    (fuel : Nat) (docs : List Val) (ec : Vars) (k : String) (s : String)
    (hp : (k, Val.str s) ∈ kvs) :
    process2String fuel docs (.map kvs) ec s = .error .circularRef := by
  obtain ⟨s', hs, herr⟩ := interpClosed_entry_error H fuel docs ec _ hp
  cases hs; exact herr

example : InterpClosed [("a", .str "$\"{b}\""), ("b", .str "$\"{a}\"")] := interpClosed_2

/-- `a: $"{a}"` -/
theorem C08_interp_cycle (fuel : Nat) (docs : List Val) (ec : Vars) :
    process2String fuel docs (.map [("a", .str "$\"{a}\"")]) ec "$\"{a}\"" =
      .error .circularRef :=
  C08_interp_cycle_general interpClosed_1 fuel docs ec "a" _ (by simp)

/-- `a: $"{b}", b: $"{a}"` -/
theorem C08_interp_cycle_2 (fuel : Nat) (docs : List Val) (ec : Vars) :
    process2String fuel docs (.map [("a", .str "$\"{b}\""), ("b", .str "$\"{a}\"")]) ec
      "$\"{b}\"" = .error .circularRef ∧
    process2String fuel docs (.map [("a", .str "$\"{b}\""), ("b", .str "$\"{a}\"")]) ec
      "$\"{a}\"" = .error .circularRef :=
  ⟨C08_interp_cycle_general interpClosed_2 fuel docs ec "a" _ (by simp),
   C08_interp_cycle_general interpClosed_2 fuel docs ec "b" _ (by simp)⟩

/-- The whole document: a (sorted, non-empty) closed system of interpolations without
    `$encode` / `$decode` / `$value` keys is `circularRef` under `process2`, for every fuel. -/
theorem C08_interp_cycle_doc {kvs : Fields} (H : InterpClosed kvs) (hne : kvs ≠ [])
    (hs : Fields.sortedKeysB kvs = true) (h1 : fget kvs "$encode" = none)
    (h2 : fget kvs "$decode" = none) (h3 : fget kvs "$value" = none)
    (fuel : Nat) (docs : List Val) (ec : Vars) :
    process2 fuel docs (.map kvs) ec (.map kvs) = .error .circularRef := by
  cases fuel with
  | zero => exact process2_zero _ _ _ _
  | succ n =>
    rw [process2]
    rw [e_foldlM_fields_id _ kvs []]
    · rw [← fofList, e_fofList_sorted _ hs]
      simp only [e_ok_bind, h1, h2, h3]
      cases kvs with
      | nil => exact absurd rfl hne
      | cons p rest =>
        obtain ⟨k, v⟩ := p
        have := interpClosed_entry_error2 H n docs ec (k, v) List.mem_cons_self
        simp only [List.foldlM_cons, this]
        rfl
    · intro acc q hq
      obtain ⟨k, v, hv, _⟩ := H q hq
      obtain ⟨qk, qv⟩ := q
      have : qv = .str (interpRefStr k) := hv
      subst this
      rfl

example : Fields.sortedKeysB [("a", .str "$\"{b}\""), ("b", .str "$\"{a}\"")] = true ∧
    fget [("a", Val.str "$\"{b}\""), ("b", .str "$\"{a}\"")] "$encode" = none ∧
    fget [("a", Val.str "$\"{b}\""), ("b", .str "$\"{a}\"")] "$decode" = none ∧
    fget [("a", Val.str "$\"{b}\""), ("b", .str "$\"{a}\"")] "$value" = none := by decide

/-- `a: $"{a}"` as a document -/
theorem C08_interp_cycle_doc_1 (fuel : Nat) (docs : List Val) (ec : Vars) :
    process2 fuel docs (.map [("a", .str "$\"{a}\"")]) ec (.map [("a", .str "$\"{a}\"")]) =
      .error .circularRef :=
  C08_interp_cycle_doc interpClosed_1 (by decide) (by decide) (by decide) (by decide) (by decide)
    fuel docs ec

/-! ## 4. a subtree merged into itself is evaluated once -/

/-- `$merge: []` refers to the whole document.  The host first loses its `$merge` key, then
    receives a copy of the root as it is at that moment (`{a: {x: 1}}`); the copy contains no
    reference any more, so the expansion does not recur: the result is the finite value
    `{a: {a: {x: 1}, x: 1}}` (fuel ≥ 5), not an error. -/
theorem C08_self_merge_value (fuel : Nat) (docs : List Val) :
    process1 (fuel + 5) docs selfMerge (some []) selfMerge =
      .ok (.map [("a", .map [("a", .map [("x", .int 1)]), ("x", .int 1)])],
           .map [("a", .map [("a", .map [("x", .int 1)]), ("x", .int 1)])]) := by
  unfold selfMerge
  rw [process1_map_plain (by decide) (by decide), foldlM_cons]
  have hn : mergeFields [("x", Val.int 1)] [("a", .map [("x", .int 1)])] =
      .ok [("a", .map [("x", .int 1)]), ("x", .int 1)] := by
    rw [mergeFields_cons, if_neg (by decide)]
    have h1 : fget [("x", Val.int 1)] "a" = none := by decide
    have h2 : fset [("x", Val.int 1)] "a" (.map [("x", .int 1)]) =
        [("a", .map [("x", .int 1)]), ("x", .int 1)] := by decide
    simp only [h1, h2, mergeFields_nil]
  have ha : process1 (fuel + 4) docs (.map [("a", .map [("$merge", .list []), ("x", .int 1)])])
      (some [.key "a"]) (.map [("$merge", .list []), ("x", .int 1)]) =
      .ok (.map [("a", .map [("x", .int 1)]), ("x", .int 1)],
           .map [("a", .map [("a", .map [("x", .int 1)]), ("x", .int 1)])]) := by
    refine (process1_merge_step (ref := .list []) (s := [("a", .map [("x", .int 1)])])
      (next := [("a", .map [("x", .int 1)]), ("x", .int 1)])
      (root1 := .map [("a", .map [("x", .int 1)])])
      (root2 := .map [("a", .map [("a", .map [("x", .int 1)]), ("x", .int 1)])])
      (by decide) (by decide) (get_list_nil _ _) (by decide)
      (by rw [show fdel [("$merge", Val.list []), ("x", .int 1)] "$merge" = [("x", .int 1)]
            from by decide]; exact hn)
      (by decide)).trans ?_
    rw [e_process1_plain (fuel + 3) docs _ _ _ (by decide) (by decide)
      (by
        show depth (.map [("a", .map [("x", .int 1)]), ("x", .int 1)]) < fuel + 3
        have : depth (.map [("a", .map [("x", .int 1)]), ("x", .int 1)]) = 2 := by decide
        omega)]
    exact congrArg Except.ok (by decide)
  have ea : childLoc (some []) "a" = some [.key "a"] := rfl
  simp only [mapStep, ea, ha, R_bind_ok, Val.isNull, Bool.false_eq_true, if_false,
    process1_key_plain (k := "a") (by decide) (by decide), R_pure, foldlM_nil]
  exact congrArg Except.ok (by decide)

/-- so this kind of "cycle" is not an error either -/
theorem C08_self_merge_not_error :
    ¬ ∀ fuel, ∃ e, process1 fuel [] selfMerge (some []) selfMerge = .error e := by
  intro h
  obtain ⟨e, he⟩ := h 5
  rw [C08_self_merge_value 0 []] at he
  cases he

/-! ## 5. `$parent` cycles between files -/

/-- the cycle check: a file that is already on the chain of children is `circularRef` -/
theorem C08_parent_chain_is_error (fs : FS) (cfg : RootCfg) (fuel : Nat) (path : Comps)
    (c : Option String) (ids : List String) (chain : List Comps) (h : path ∈ chain) :
    loadFileAndParents fs cfg (fuel + 1) path c ids chain = .error .circularRef :=
  loadFileAndParents_chain fs cfg fuel path c ids chain h

example : (["w", "p.yaml"] : Comps) ∈ [["w", "q.yaml"], ["w", "p.yaml"]] := by decide

/-- the depth guard -/
theorem C08_parent_no_fuel (fs : FS) (cfg : RootCfg) (path : Comps) (c : Option String)
    (ids : List String) (chain : List Comps) :
    loadFileAndParents fs cfg 0 path c ids chain = .error .circularRef :=
  loadFileAndParents_zero fs cfg path c ids chain

/-- General form.  Let `S` be a set of files such that every file in `S` loads and its first
    parent (`ParentEdge`) is again in `S` — a cycle, or any path leading into one.  Then loading
    any file of `S` is `circularRef`, for every fuel, child id and chain. -/
theorem C08_parent_cycle_general {fs : FS} {cfg : RootCfg} {S : Comps → Prop}
    (H : ParentClosed fs cfg S) (fuel : Nat) (p : Comps) (hp : S p) (c : Option String)
    (ids : List String) (chain : List Comps) :
    loadFileAndParents fs cfg fuel p c ids chain = .error .circularRef :=
  parentClosed_error H fuel p hp c ids chain

/-- The n-cycle `p₀ → p₁ → … → pₙ₋₁ → p₀` of first parents. -/
theorem C08_parent_cycle_list (fs : FS) (cfg : RootCfg) (ps : List Comps)
    (H : ∀ e ∈ ps.zip (rot1 ps), ParentEdge fs cfg e.1 e.2)
    (fuel : Nat) (p : Comps) (hp : p ∈ ps) :
    loadFileAndParents fs cfg fuel p none [] [] = .error .circularRef := by
  refine C08_parent_cycle_general (S := fun x => x ∈ ps) ?_ fuel p hp none [] []
  intro x hx
  obtain ⟨q, hq⟩ := exists_zip_of_mem ps (rot1 ps) (length_rot1 ps).symm x hx
  exact ⟨q, H _ hq, mem_rot1.1 (List.of_mem_zip hq).2⟩

/-- Two files naming each other as parent: `p` has parent `q` and `q` has parent `p`. -/
theorem C08_parent_cycle (fs : FS) (cfg : RootCfg) (p q : Comps) (docsP docsQ : List Val)
    (hlp : ∀ fid, loadFile fs cfg p fid = .ok docsP)
    (hlq : ∀ fid, loadFile fs cfg q fid = .ok docsQ)
    (hpp : fileParents fs cfg p docsP = .ok [q]) (hpq : fileParents fs cfg q docsQ = .ok [p])
    (fuel : Nat) :
    loadFileAndParents fs cfg fuel p none [] [] = .error .circularRef := by
  refine C08_parent_cycle_list fs cfg [p, q] ?_ fuel p (by simp)
  intro e he
  have hz : [p, q].zip (rot1 [p, q]) = [(p, q), (q, p)] := rfl
  rw [hz] at he
  simp only [List.mem_cons, List.not_mem_nil, or_false] at he
  rcases he with rfl | rfl
  · exact ⟨docsP, [], hlp, hpp⟩
  · exact ⟨docsQ, [], hlq, hpq⟩

-- non-vacuity: the file system `fsPQ` = { /w/p.yaml: {$parent: q}, /w/q.yaml: {$parent: p} }
example :
    (∀ fid, loadFile fsPQ cfgPQ ["w", "p.yaml"] fid = .ok [.map [("$parent", .str "q")]]) ∧
    (∀ fid, loadFile fsPQ cfgPQ ["w", "q.yaml"] fid = .ok [.map [("$parent", .str "p")]]) ∧
    fileParents fsPQ cfgPQ ["w", "p.yaml"] [.map [("$parent", .str "q")]] = .ok [["w", "q.yaml"]] ∧
    fileParents fsPQ cfgPQ ["w", "q.yaml"] [.map [("$parent", .str "p")]] = .ok [["w", "p.yaml"]] :=
  ⟨fsPQ_load_p, fsPQ_load_q, fsPQ_parents_p, fsPQ_parents_q⟩

/-- … so loading `/w/p.yaml` (as `bkl /w/p.yaml` does, with `loadFuel`) reports the cycle -/
theorem C08_parent_cycle_concrete (fuel : Nat) :
    loadFileAndParents fsPQ cfgPQ fuel ["w", "p.yaml"] none [] [] = .error .circularRef :=
  C08_parent_cycle fsPQ cfgPQ ["w", "p.yaml"] ["w", "q.yaml"] _ _ fsPQ_load_p fsPQ_load_q
    fsPQ_parents_p fsPQ_parents_q fuel

theorem C08_parent_cycle_mergeFileLayers (st : PState) :
    mergeFileLayers fsPQ cfgPQ st ["w", "p.yaml"] = .error .circularRef := by
  unfold mergeFileLayers
  rw [C08_parent_cycle_concrete]; rfl

/-! ## 6. a map key that evaluates to a non-string is an error, not a crash -/

/-- `{"$merge:a": 1, a: 5}`: the key `$merge:a` resolves to the int 5.  (The `process2`
    counterpart, a key `$env:X` bound to a non-string, is `C13_env_in_key`.) -/
theorem C08_key_not_string_is_error (fuel : Nat) (docs : List Val) :
    process1 (fuel + 3) docs (.map [("$merge:a", .int 1), ("a", .int 5)]) (some [])
      (.map [("$merge:a", .int 1), ("a", .int 5)]) = .error .invalidType := by
  rw [process1_map_plain (by decide) (by decide), foldlM_cons]
  have hk : process1 (fuel + 2) docs (.map [("$merge:a", .int 1), ("a", .int 5)]) none
      (.str "$merge:a") = .ok (.int 5, .map [("$merge:a", .int 1), ("a", .int 5)]) := by
    rw [process1_str_merge stripPrefix_merge_a,
      get_simpleKey simpleKey_a docs (v := .int 5) (by decide), R_bind_ok, process1_int]
  simp only [mapStep, process1_int, R_bind_ok, Val.isNull, Bool.false_eq_true, if_false, hk]
  rfl

/-! ## 7. no reference, no lookup -/

/-- The positive side of the open finding (the depth guard bounds depth, not branching: a
    `$merge` host whose target contains the host, in a document with further references, makes
    the evaluation grow exponentially).  A reference-free value — no `$merge` / `$replace` key,
    no `$merge:` / `$replace:` string — never triggers a lookup: for every fuel the evaluated
    value (or error) is the same for all streams, roots and locations, and the root is handed
    back unchanged. -/
theorem C08_no_reference_no_lookup (fuel : Nat) (v : Val) (hv : refFree v = true)
    (docs₁ docs₂ : List Val) (root₁ root₂ : Val) (loc₁ loc₂ : Loc) :
    Except.map Prod.fst (process1 fuel docs₁ root₁ loc₁ v) =
      Except.map Prod.fst (process1 fuel docs₂ root₂ loc₂ v) ∧
    ∀ x r', process1 fuel docs₁ root₁ loc₁ v = .ok (x, r') → r' = root₁ := by
  rw [process1_refFree fuel v hv docs₁ root₁ loc₁, process1_refFree fuel v hv docs₂ root₂ loc₂]
  cases process1 fuel [] .null none v with
  | error e => exact ⟨rfl, fun x r' h => by cases h⟩
  | ok r => exact ⟨rfl, fun x r' h => by cases h; rfl⟩

/-- the same as a rewrite rule -/
theorem C08_no_reference_no_lookup_eq (fuel : Nat) (v : Val) (hv : refFree v = true)
    (docs : List Val) (root : Val) (loc : Loc) :
    process1 fuel docs root loc v =
      Except.map (fun r => (r.1, root)) (process1 fuel [] .null none v) :=
  process1_refFree fuel v hv docs root loc

example : refFree (.map [("k", .list [.str "x$merge:", .map [("$merger", .null)]])]) = true := by
  decide

/-- plain data (C06: nothing recognised by the evaluator) is reference-free -/
theorem C08_plain_is_refFree (v : Val) (h : plain v = true) : refFree v = true :=
  plain_refFree v h

/-! ## 8. totality -/

/-- Totality is by construction: `process1`, `process2`, `process2String`, `loadFileAndParents`
    recurse structurally on the fuel (= the depth guards of the Go code), `merge` and `get` by
    well-founded recursion, `outputDocuments` is a composition of these; Lean accepted all of
    them without `partial`, so each call denotes a value — a result or a reported error. -/
theorem C08_total :
    (∀ fuel docs root loc v, ∃ r, process1 fuel docs root loc v = r) ∧
    (∀ fuel docs root ec v, ∃ r, process2 fuel docs root ec v = r) ∧
    (∀ d s, ∃ r, merge d s = r) ∧
    (∀ docs env, ∃ r, outputDocuments docs env = r) ∧
    (∀ fs cfg fuel p c ids chain, ∃ r, loadFileAndParents fs cfg fuel p c ids chain = r) :=
  ⟨fun _ _ _ _ _ => ⟨_, rfl⟩, fun _ _ _ _ _ => ⟨_, rfl⟩, fun _ _ => ⟨_, rfl⟩,
   fun _ _ => ⟨_, rfl⟩, fun _ _ _ _ _ _ _ => ⟨_, rfl⟩⟩

end Bkl

/-! # Round 2: cycles of arbitrary length, mixed forms, negative `$repeat` counts, error classes

  Helper lemmas: `BklProofs/Lemmas/C08Cycles.lean`, `BklProofs/Lemmas/C08Errors.lean`.

  * `C08_mixed_cycle` (+ `_entry`, `_embedded`, `_list`): every closed system of forwarding
    references — any mixture of `"$merge:k"`, `"$replace:k"`, `{$replace: k}` maps and
    `[…, {$replace: k}, …]` lists, cycles of any length, lassos — is `circularRef` for every fuel,
    also under `processDoc` / `outputDocument`; embedded in a larger document it still makes
    the document an error.  `C08_map_replace_cycle_n`, `C08_list_replace_cycle_n` are the
    n-cycles of one form.
  * the MAP form of a `$merge` n-cycle `kᵢ: {$merge: kᵢ₊₁, …contents}`: with int-valued contents
    (at least one host non-empty) it IS an error for every fuel — `uselessOverride` as soon as
    the fuel is at least n + 1, `circularRef` or `uselessOverride` below
    (`C08_map_merge_cycle_partial`); without contents it is NOT an error: the value is
    `{kᵢ: {}}` for every n (`C08_map_merge_cycle_empty_value`, `C08_map_merge_cycle_3_false`).
  * `$repeat: n` with `n ≤ 0` yields zero copies and no error at document level and nested
    (`C08_repeat_negative`, `…_list_doc`, `…_named`, `…_list_entry`, `…_map_value`); a
    non-integer count is an error (`C08_repeat_nonint_is_error`).
  * `outputDocuments` returns a value or one of 15 error classes (`C08_evaluation_total_status`,
    `C08_error_is_reported`, `C08_never_produced`; per stage: `C08_error_classes_by_stage`).
    `marshal` is never produced; `unknownFormat` IS (`C08_unknownFormat_is_produced`).
-/
namespace Bkl

/-! ## 9. forwarding cycles of arbitrary length, any mixture of forms -/

/-- "Every key of `S` forwards to another key of `S`" (`cy_FwdClosed kvs S`: the value under
    each `k ∈ S` is one of the forwarding forms `cy_Fwd` and refers to a simple key of `S`), and
    every key of the document is in `S`.  Then the document is `circularRef` for every fuel, and
    `processDoc` / `outputDocument` report `circularRef`. -/
theorem C08_mixed_cycle {kvs : Fields} {S : String → Prop} (H : cy_FwdClosed kvs S)
    (hall : ∀ p ∈ kvs, S p.1) (hne : kvs ≠ [])
    (h0 : fget kvs "$merge" = none) (h1 : fget kvs "$replace" = none)
    (fuel : Nat) (docs : List Val) (env : Vars) :
    process1 fuel docs (.map kvs) (some []) (.map kvs) = .error .circularRef ∧
    processDoc docs env (.map kvs) = .error .circularRef ∧
    outputDocument docs env (.map kvs) = .error .circularRef :=
  ⟨cy_fwdClosed_doc_error H hall hne h0 h1 fuel docs (some []),
   cy_processDoc_error env (cy_fwdClosed_doc_error H hall hne h0 h1 depthLimit docs (some []))⟩

/-- … each member of the closed system is `circularRef` wherever it is evaluated, whatever the
    other keys of the document hold … -/
theorem C08_mixed_cycle_entry {kvs : Fields} {S : String → Prop} (H : cy_FwdClosed kvs S)
    (fuel : Nat) (docs : List Val) (loc : Loc) (k : String) (v : Val) (hk : S k)
    (hv : fget kvs k = some v) :
    process1 fuel docs (.map kvs) loc v = .error .circularRef :=
  cy_fwdClosed_entry_error H fuel docs loc k v hk hv

/-- … and a document that merely CONTAINS a closed system among its top-level keys is an error
    for every fuel (the keys before the first member are evaluated first and may fail with an
    error of their own; their in-place expansions cannot touch the members). -/
theorem C08_mixed_cycle_embedded {kvs : Fields} {S : String → Prop} (H : cy_FwdClosed kvs S)
    (k0 : String) (hk0 : S k0)
    (h0 : fget kvs "$merge" = none) (h1 : fget kvs "$replace" = none)
    (fuel : Nat) (docs : List Val) (env : Vars) :
    (∃ e, process1 fuel docs (.map kvs) (some []) (.map kvs) = .error e) ∧
    (∃ e, processDoc docs env (.map kvs) = .error e) := by
  refine ⟨cy_fwdClosed_embedded_error H k0 hk0 h0 h1 fuel docs, ?_⟩
  obtain ⟨e, he⟩ := cy_fwdClosed_embedded_error H k0 hk0 h0 h1 depthLimit docs
  exact ⟨e, (cy_processDoc_error env he).1⟩

-- non-vacuity: the lasso `a → b → c → d → b` plus an unrelated key `A`, all four forms
example : cy_FwdClosed
    [("A", .int 1), ("a", .str "$merge:b"), ("b", .map [("$replace", .str "c")]),
     ("c", .list [.int 7, .map [("$replace", .str "d")]]), ("d", .str "$replace:b")]
    (· ∈ ["a", "b", "c", "d"]) := by
  intro k hk
  simp only [List.mem_cons, List.not_mem_nil, or_false] at hk
  rcases hk with rfl | rfl | rfl | rfl
  · exact ⟨_, "b", by decide, .strMerge "b", simpleKey_b, by decide⟩
  · exact ⟨_, "c", by decide, cy_fwd_map1 "c", simpleKey_c, by decide⟩
  · exact ⟨_, "d", by decide,
      .listReplace [.int 7] [] "d" (by intro x hx; simp at hx; subst hx; rfl), simpleKey_d,
      by decide⟩
  · exact ⟨_, "b", by decide, .strReplace "b", simpleKey_b, by decide⟩

/-- The n-cycle `k₀ ↦ f k₁, …, kₙ₋₁ ↦ f k₀` in which every link `f k` is ANY forwarding form
    referring to `k` (the forms may differ from key to key), for every n ≥ 1. -/
theorem C08_mixed_cycle_list (f : String → Val) (ks : List String) (hne : ks ≠ [])
    (hk : ∀ k ∈ ks, SimpleKey k) (hf : ∀ k ∈ ks, cy_Fwd (f k) k)
    (hm : "$merge" ∉ ks) (hr : "$replace" ∉ ks) (fuel : Nat) (docs : List Val) (env : Vars) :
    process1 fuel docs (.map (cycleFields f ks)) (some []) (.map (cycleFields f ks)) =
      .error .circularRef ∧
    processDoc docs env (.map (cycleFields f ks)) = .error .circularRef ∧
    outputDocument docs env (.map (cycleFields f ks)) = .error .circularRef :=
  C08_mixed_cycle (cy_cycleFields_fwdClosed f ks hk hf) (cy_cycleFields_keys f ks)
    (cycleFields_ne_nil f hne) (cycleFields_fget_none f ks hm) (cycleFields_fget_none f ks hr)
    fuel docs env

/-- `a1: {$replace: a2}, …, an: {$replace: a1}` (map form) is `circularRef`, for every n ≥ 1,
    all simple keys and every fuel. -/
theorem C08_map_replace_cycle_n (ks : List String) (hne : ks ≠ [])
    (hk : ∀ k ∈ ks, SimpleKey k) (hm : "$merge" ∉ ks) (hr : "$replace" ∉ ks)
    (fuel : Nat) (docs : List Val) (env : Vars) :
    process1 fuel docs (.map (cycleFields (fun k => .map [("$replace", .str k)]) ks)) (some [])
      (.map (cycleFields (fun k => .map [("$replace", .str k)]) ks)) = .error .circularRef ∧
    processDoc docs env (.map (cycleFields (fun k => .map [("$replace", .str k)]) ks)) =
      .error .circularRef ∧
    outputDocument docs env (.map (cycleFields (fun k => .map [("$replace", .str k)]) ks)) =
      .error .circularRef :=
  C08_mixed_cycle_list _ ks hne hk (fun k _ => cy_fwd_map1 k) hm hr fuel docs env

/-- the same for the list-entry form `a1: [{$replace: a2}], …, an: [{$replace: a1}]` -/
theorem C08_list_replace_cycle_n (ks : List String) (hne : ks ≠ [])
    (hk : ∀ k ∈ ks, SimpleKey k) (hm : "$merge" ∉ ks) (hr : "$replace" ∉ ks)
    (fuel : Nat) (docs : List Val) (env : Vars) :
    process1 fuel docs (.map (cycleFields (fun k => .list [.map [("$replace", .str k)]]) ks))
      (some []) (.map (cycleFields (fun k => .list [.map [("$replace", .str k)]]) ks)) =
      .error .circularRef ∧
    processDoc docs env (.map (cycleFields (fun k => .list [.map [("$replace", .str k)]]) ks)) =
      .error .circularRef ∧
    outputDocument docs env
      (.map (cycleFields (fun k => .list [.map [("$replace", .str k)]]) ks)) =
      .error .circularRef :=
  C08_mixed_cycle_list _ ks hne hk (fun k _ => cy_fwd_list1 k) hm hr fuel docs env

-- non-vacuity: the 4-cycle of `$replace` maps
example : cycleFields (fun k => .map [("$replace", .str k)]) ["a", "b", "c", "d"] =
    [("a", .map [("$replace", .str "b")]), ("b", .map [("$replace", .str "c")]),
     ("c", .map [("$replace", .str "d")]), ("d", .map [("$replace", .str "a")])] := by decide
example : (∀ k ∈ ["a", "b", "c", "d"], SimpleKey k) ∧
    "$merge" ∉ ["a", "b", "c", "d"] ∧ "$replace" ∉ ["a", "b", "c", "d"] := by
  refine ⟨?_, by decide, by decide⟩
  intro k hk
  simp only [List.mem_cons, List.not_mem_nil, or_false] at hk
  rcases hk with rfl | rfl | rfl | rfl
  exacts [simpleKey_a, simpleKey_b, simpleKey_c, simpleKey_d]

/-- the 3-cycle of `$replace` maps as a concrete document -/
theorem C08_map_replace_cycle_3 (fuel : Nat) (docs : List Val) :
    process1 fuel docs
      (.map [("a", .map [("$replace", .str "b")]), ("b", .map [("$replace", .str "c")]),
        ("c", .map [("$replace", .str "a")])]) (some [])
      (.map [("a", .map [("$replace", .str "b")]), ("b", .map [("$replace", .str "c")]),
        ("c", .map [("$replace", .str "a")])]) = .error .circularRef := by
  have h := (C08_map_replace_cycle_n ["a", "b", "c"] (by decide)
    (by
      intro k hk
      simp only [List.mem_cons, List.not_mem_nil, or_false] at hk
      rcases hk with rfl | rfl | rfl
      exacts [simpleKey_a, simpleKey_b, simpleKey_c])
    (by decide) (by decide) fuel docs []).1
  have e : cycleFields (fun k => .map [("$replace", .str k)]) ["a", "b", "c"] =
      [("a", .map [("$replace", .str "b")]), ("b", .map [("$replace", .str "c")]),
       ("c", .map [("$replace", .str "a")])] := by decide
  rw [e] at h; exact h

/-! ## 10. the MAP form of a `$merge` n-cycle -/

/-- `k₀: {$merge: k₁, …c k₀}, …, kₙ₋₁: {$merge: k₀, …c kₙ₋₁}` (`cy_mergeCycle c ks`; distinct
    simple keys) where the contents `c k` are int-valued (any number of keys other than `$merge`)
    and at least one host has contents.  The first host collects the contents of all hosts on
    its way round the cycle and is finally merged into itself: an error for EVERY fuel —
    `uselessOverride` as soon as the fuel is at least n + 1, `circularRef` or (when two hosts
    carry the same key with the same value) `uselessOverride` below.  The hypothesis excludes
    exactly the content-free cycles, which are not errors (`C08_map_merge_cycle_empty_value`). -/
theorem C08_map_merge_cycle_partial (docs : List Val) (c : String → Fields) (k0 : String)
    (tl : List String) (hnd : (k0 :: tl).Nodup)
    (hk : ∀ k ∈ k0 :: tl, SimpleKey k ∧ k ≠ "$delete" ∧ cy_IntContent (c k))
    (hm : "$merge" ∉ k0 :: tl) (hr : "$replace" ∉ k0 :: tl)
    (hne : ∃ k ∈ k0 :: tl, c k ≠ []) (fuel : Nat) :
    ∃ e, process1 fuel docs (.map (cy_mergeCycle c (k0 :: tl))) (some [])
        (.map (cy_mergeCycle c (k0 :: tl))) = .error e ∧
      (e = .circularRef ∨ e = .uselessOverride) ∧
      ((k0 :: tl).length + 1 ≤ fuel → e = .uselessOverride) :=
  cy_content_cycle_error docs c k0 tl hnd hk hm hr hne fuel

/-- hence `processDoc` reports an error; `uselessOverride` for every cycle shorter than the
    depth limit -/
theorem C08_map_merge_cycle_partial_doc (docs : List Val) (env : Vars) (c : String → Fields)
    (k0 : String) (tl : List String) (hnd : (k0 :: tl).Nodup)
    (hk : ∀ k ∈ k0 :: tl, SimpleKey k ∧ k ≠ "$delete" ∧ cy_IntContent (c k))
    (hm : "$merge" ∉ k0 :: tl) (hr : "$replace" ∉ k0 :: tl)
    (hne : ∃ k ∈ k0 :: tl, c k ≠ []) :
    ∃ e, processDoc docs env (.map (cy_mergeCycle c (k0 :: tl))) = .error e ∧
      (e = .circularRef ∨ e = .uselessOverride) ∧
      ((k0 :: tl).length < depthLimit → e = .uselessOverride) := by
  obtain ⟨e, he, h1, h2⟩ := cy_content_cycle_error docs c k0 tl hnd hk hm hr hne depthLimit
  exact ⟨e, (cy_processDoc_error env he).1, h1, fun hl => h2 (by omega)⟩

/-- the shape of the document -/
theorem C08_map_merge_cycle_shape (c : String → Fields) (ks : List String) :
    cy_mergeCycle c ks =
      (ks.zip (rot1 ks)).map fun p => (p.1, .map (("$merge", .str p.2) :: c p.1)) :=
  cy_mergeCycle_eq_zip c ks

-- non-vacuity: `a: {$merge: b, x: 1}, b: {$merge: c}, c: {$merge: a, y: 3, z: 4}`
example : cy_mergeCycle
    (fun k => if k = "a" then [("x", .int 1)] else if k = "c" then [("y", .int 3), ("z", .int 4)]
      else []) ["a", "b", "c"] =
    [("a", .map [("$merge", .str "b"), ("x", .int 1)]), ("b", .map [("$merge", .str "c")]),
     ("c", .map [("$merge", .str "a"), ("y", .int 3), ("z", .int 4)])] := by decide
example : (["a", "b", "c"] : List String).Nodup ∧
    (∀ k ∈ ["a", "b", "c"], SimpleKey k ∧ k ≠ "$delete" ∧ cy_IntContent
      ((fun k => if k = "a" then [("x", .int 1)]
        else if k = "c" then [("y", .int 3), ("z", .int 4)] else []) k)) ∧
    "$merge" ∉ ["a", "b", "c"] ∧ "$replace" ∉ ["a", "b", "c"] ∧
    (∃ k ∈ ["a", "b", "c"], (fun k => if k = "a" then [("x", Val.int 1)]
        else if k = "c" then [("y", .int 3), ("z", .int 4)] else []) k ≠ []) := by
  refine ⟨by decide, ?_, by decide, by decide, ⟨"a", by decide, by decide⟩⟩
  intro k hk
  simp only [List.mem_cons, List.not_mem_nil, or_false] at hk
  rcases hk with rfl | rfl | rfl
  · refine ⟨simpleKey_a, by decide, ?_⟩
    intro p hp
    simp at hp
    subst hp
    exact ⟨by decide, 1, rfl⟩
  · refine ⟨simpleKey_b, by decide, ?_⟩
    intro p hp
    simp at hp
  · refine ⟨simpleKey_c, by decide, ?_⟩
    intro p hp
    simp at hp
    rcases hp with rfl | rfl
    · exact ⟨by decide, 3, rfl⟩
    · exact ⟨by decide, 4, rfl⟩

/-- Exact behaviour WITHOUT contents, for every n ≥ 1: the cycle `kᵢ: {$merge: kᵢ₊₁}` evaluates
    (fuel ≥ n + 2) to `{kᵢ: {}}` — every host loses its `$merge` key, walks round the cycle and
    finally receives the empty content of a host that was emptied before (or of itself). -/
theorem C08_map_merge_cycle_empty_value (docs : List Val) (k0 : String) (tl : List String)
    (hnd : (k0 :: tl).Nodup)
    (hk : ∀ k ∈ k0 :: tl, SimpleKey k ∧ k ≠ "$delete" ∧ refStr k = false)
    (hm : "$merge" ∉ k0 :: tl) (hr : "$replace" ∉ k0 :: tl) (fuel : Nat) :
    process1 (fuel + (k0 :: tl).length + 2) docs
        (.map (cy_mergeCycle (fun _ => []) (k0 :: tl))) (some [])
        (.map (cy_mergeCycle (fun _ => []) (k0 :: tl))) =
      .ok (.map (cy_emptied [] (k0 :: tl)),
           .map (cy_emptied (cy_mergeCycle (fun _ => []) (k0 :: tl)) (k0 :: tl))) :=
  cy_empty_cycle_value docs k0 tl hnd hk hm hr fuel

/-- for increasing keys the value is literally `{k₀: {}, k₁: {}, …}` -/
theorem C08_map_merge_cycle_empty_value_sorted (ks : List String) (h : ks.Pairwise (· < ·)) :
    cy_emptied [] ks = ks.map fun k => (k, Val.map []) :=
  cy_emptied_sorted ks h

/-- so the statement "a map-form `$merge` n-cycle is an error for every fuel" is FALSE for
    every n ≥ 1 … -/
theorem C08_map_merge_cycle_empty_false (docs : List Val) (k0 : String) (tl : List String)
    (hnd : (k0 :: tl).Nodup)
    (hk : ∀ k ∈ k0 :: tl, SimpleKey k ∧ k ≠ "$delete" ∧ refStr k = false)
    (hm : "$merge" ∉ k0 :: tl) (hr : "$replace" ∉ k0 :: tl) :
    ¬ ∀ fuel, ∃ e, process1 fuel docs (.map (cy_mergeCycle (fun _ => []) (k0 :: tl))) (some [])
      (.map (cy_mergeCycle (fun _ => []) (k0 :: tl))) = .error e := by
  intro h
  obtain ⟨e, he⟩ := h (0 + (k0 :: tl).length + 2)
  rw [cy_empty_cycle_value docs k0 tl hnd hk hm hr 0] at he
  cases he

/-- … concretely for n = 3, `cy_mapCycle3 = {a: {$merge: b}, b: {$merge: c}, c: {$merge: a}}`:
    the value is `{a: {}, b: {}, c: {}}` (fuel ≥ 5) … -/
theorem C08_map_merge_cycle_3_value (fuel : Nat) (docs : List Val) :
    ∃ root', process1 (fuel + 5) docs cy_mapCycle3 (some []) cy_mapCycle3 =
      .ok (.map [("a", .map []), ("b", .map []), ("c", .map [])], root') := by
  have h := cy_empty_cycle_value docs "a" ["b", "c"] (by decide)
    (by
      intro k hk
      simp only [List.mem_cons, List.not_mem_nil, or_false] at hk
      rcases hk with rfl | rfl | rfl
      · exact ⟨simpleKey_a, by decide, by decide⟩
      · exact ⟨simpleKey_b, by decide, by decide⟩
      · exact ⟨simpleKey_c, by decide, by decide⟩)
    (by decide) (by decide) fuel
  have e1 : Val.map (cy_mergeCycle (fun _ => []) ["a", "b", "c"]) = cy_mapCycle3 := by decide
  have e2 : cy_emptied [] ["a", "b", "c"] = [("a", .map []), ("b", .map []), ("c", .map [])] := by
    decide
  rw [e1, e2] at h
  exact ⟨_, h⟩

/-- … not an error. -/
theorem C08_map_merge_cycle_3_false :
    ¬ ∀ fuel, ∃ e, process1 fuel [] cy_mapCycle3 (some []) cy_mapCycle3 = .error e := by
  intro h
  obtain ⟨e, he⟩ := h 5
  obtain ⟨r, hr⟩ := C08_map_merge_cycle_3_value 0 []
  rw [hr] at he
  cases he

/-- with contents the 3-cycle is reported, at the depth limit as `uselessOverride` -/
theorem C08_map_merge_cycle_3_with_keys (docs : List Val) (env : Vars) :
    processDoc docs env
      (.map [("a", .map [("$merge", .str "b"), ("x", .int 1)]), ("b", .map [("$merge", .str "c")]),
        ("c", .map [("$merge", .str "a"), ("y", .int 3), ("z", .int 4)])]) =
      .error .uselessOverride := by
  obtain ⟨e, he, _, h2⟩ := C08_map_merge_cycle_partial_doc docs env
    (fun k => if k = "a" then [("x", .int 1)] else if k = "c" then [("y", .int 3), ("z", .int 4)]
      else []) "a" ["b", "c"] (by decide)
    (by
      intro k hk
      simp only [List.mem_cons, List.not_mem_nil, or_false] at hk
      rcases hk with rfl | rfl | rfl
      · refine ⟨simpleKey_a, by decide, ?_⟩
        intro p hp
        simp at hp
        subst hp
        exact ⟨by decide, 1, rfl⟩
      · refine ⟨simpleKey_b, by decide, ?_⟩
        intro p hp
        simp at hp
      · refine ⟨simpleKey_c, by decide, ?_⟩
        intro p hp
        simp at hp
        rcases hp with rfl | rfl
        · exact ⟨by decide, 3, rfl⟩
        · exact ⟨by decide, 4, rfl⟩)
    (by decide) (by decide) ⟨"a", by decide, by decide⟩
  have e1 : cy_mergeCycle
      (fun k => if k = "a" then [("x", .int 1)]
        else if k = "c" then [("y", .int 3), ("z", .int 4)] else []) ["a", "b", "c"] =
      [("a", .map [("$merge", .str "b"), ("x", .int 1)]), ("b", .map [("$merge", .str "c")]),
       ("c", .map [("$merge", .str "a"), ("y", .int 3), ("z", .int 4)])] := by decide
  rw [e1] at he
  rw [he, h2 (by decide)]

/-! ## 11. `$repeat` with a count ≤ 0: zero copies, no error -/

/-- Document level, map document.  If phase 3 turns the merged document into a map with
    `$repeat: n`, `n ≤ 0` (in particular every negative count), no document is generated and
    nothing is reported: `processDoc` and `outputDocument` return the empty list.  (`C12_doc_int`:
    the count is `n.toNat`.) -/
theorem C08_repeat_negative (docs : List Val) (env : Vars) (data : Val) (kvs : Fields)
    (rt : Val) (n : Int)
    (h1 : process1 depthLimit docs data (some []) data = .ok (.map kvs, rt))
    (hr : fget kvs "$repeat" = some (.int n)) (hn : n ≤ 0) :
    processDoc docs env data = .ok [] ∧ outputDocument docs env data = .ok [] := by
  have h : processDoc docs env data = .ok [] := by
    rw [C12_doc_int_order docs env data kvs rt n h1 hr, cy_range_nonpos hn]; rfl
  exact ⟨h, by unfold outputDocument; rw [h]; rfl⟩

/-- the `process1` hypothesis discharged for reference-free documents (`C12_doc_int_order_closed`) -/
theorem C08_repeat_negative_closed (docs : List Val) (env : Vars) (kvs : Fields) (n : Int)
    (hp : allStr p1OK (.map kvs) = true) (hw : Val.wfB (.map kvs) = true)
    (hd : depth (.map kvs) < depthLimit) (hr : fget kvs "$repeat" = some (.int n)) (hn : n ≤ 0) :
    processDoc docs env (.map kvs) = .ok [] ∧ outputDocument docs env (.map kvs) = .ok [] :=
  C08_repeat_negative docs env (.map kvs) (dropNullsFields kvs) (.map kvs) n
    (process1_p1 depthLimit docs (.map kvs) (some []) (.map kvs) hp hw hd)
    (fget_dropNullsFields_int hr) hn

/-- `{$repeat: -3, a: 1}`: no output, no error -/
theorem C08_repeat_negative_example (docs : List Val) (env : Vars) :
    outputDocument docs env (.map [("$repeat", .int (-3)), ("a", .int 1)]) = .ok [] :=
  (C08_repeat_negative_closed docs env _ (-3) (by decide) (by decide) (by decide) (by decide)
    (by decide)).2

/-- Document level, list document `[{$repeat: n}, …]`. -/
theorem C08_repeat_negative_list_doc (docs : List Val) (env : Vars) (data : Val)
    (xs rest : List Val) (rt : Val) (n : Int)
    (h1 : process1 depthLimit docs data (some []) data = .ok (.list xs, rt))
    (hp : popListMapValue xs "$repeat" = .ok (.int n, rest)) (hn : n ≤ 0) :
    processDoc docs env data = .ok [] ∧ outputDocument docs env data = .ok [] := by
  have h : processDoc docs env data = .ok [] := by
    unfold processDoc
    rw [h1]
    simp only [ok_bind, repeatDoc, hp, Val.isNull, Bool.not_false, if_true]
    rw [C12_doc_int, cy_range_nonpos hn]
    rfl
  exact ⟨h, by unfold outputDocument; rw [h]; rfl⟩

example : popListMapValue [.map [("$repeat", .int (-1))], .int 5] "$repeat" =
    .ok (.int (-1), [.int 5]) := by
  simp [popListMapValue, fget, Val.isNull, R_pure]

/-- Document level, named counts `$repeat: {i: …, j: …}`: one count ≤ 0 (all counts integers)
    empties the cartesian product. -/
theorem C08_repeat_negative_named (data : Val) (ec : Vars) (rs : Fields)
    (h : ∀ kv ∈ rs, ∃ n, kv.2 = Val.int n) (hneg : ∃ kv ∈ rs, ∃ n, kv.2 = Val.int n ∧ n ≤ 0) :
    repeatGen data ec (.map rs) = .ok [] := by
  obtain ⟨pairs, hp, hl⟩ := C12_doc_named_length data ec rs h
  have : (rs.map fun kv => countOf kv.2).prod = 0 := by
    apply cy_prod_zero
    obtain ⟨kv, hkv, n, hn, hn0⟩ := hneg
    refine ⟨countOf kv.2, List.mem_map_of_mem hkv, ?_⟩
    rw [hn]
    show n.toNat = 0
    omega
  rw [this] at hl
  rw [hp, List.eq_nil_of_length_eq_zero hl]

example : (∀ kv ∈ ([("i", .int 2), ("j", .int (-1))] : Fields), ∃ n, kv.2 = Val.int n) ∧
    ∃ kv ∈ ([("i", .int 2), ("j", .int (-1))] : Fields), ∃ n, kv.2 = Val.int n ∧ n ≤ 0 := by
  refine ⟨?_, ("j", .int (-1)), by simp, -1, rfl, by decide⟩
  intro kv hkv
  simp only [List.mem_cons, List.not_mem_nil, or_false] at hkv
  rcases hkv with rfl | rfl <;> exact ⟨_, rfl⟩

/-- Nested, list entry: `{$repeat: n, …}` with `n ≤ 0` anywhere in a list contributes nothing —
    the list evaluates exactly as without the entry (for every fuel; in particular the entry
    itself causes no error). -/
theorem C08_repeat_negative_list_entry (fuel : Nat) (docs : List Val) (root : Val) (ec : Vars)
    (pre post : List Val) (m : Fields) (n : Int)
    (hr : fget m "$repeat" = some (.int n)) (hn : n ≤ 0) :
    process2 fuel docs root ec (.list (pre ++ .map m :: post)) =
      process2 fuel docs root ec (.list (pre ++ post)) :=
  cy_process2_list_drop docs root ec m n hr hn fuel pre post

/-- Nested, map value: `k: {$repeat: n, …}` with `n ≤ 0` anywhere in a map contributes nothing. -/
theorem C08_repeat_negative_map_value (fuel : Nat) (docs : List Val) (root : Val) (ec : Vars)
    (pre post : Fields) (k : String) (m : Fields) (n : Int)
    (hr : fget m "$repeat" = some (.int n)) (hn : n ≤ 0) :
    process2 fuel docs root ec (.map (pre ++ (k, .map m) :: post)) =
      process2 fuel docs root ec (.map (pre ++ post)) := by
  cases fuel with
  | zero => rw [cy_process2_zero, cy_process2_zero]
  | succ f => exact cy_process2_map_drop f docs root ec pre post k m n hr hn

/-- alone: `[{$repeat: n, …}]` is `[]` and `{k: {$repeat: n, …}}` is `{}` -/
theorem C08_repeat_negative_nested_alone (fuel : Nat) (docs : List Val) (root : Val) (ec : Vars)
    (k : String) (m : Fields) (n : Int) (hr : fget m "$repeat" = some (.int n)) (hn : n ≤ 0) :
    process2 (fuel + 1) docs root ec (.list [.map m]) = .ok (.list []) ∧
    process2 (fuel + 1) docs root ec (.map [(k, .map m)]) = .ok (.map []) :=
  ⟨(cy_process2_list_drop docs root ec m n hr hn (fuel + 1) [] []).trans
      (cy_process2_list_nil fuel docs root ec),
   (cy_process2_map_drop fuel docs root ec [] [] k m n hr hn).trans
      (cy_process2_map_nil fuel docs root ec)⟩

example : fget [("$repeat", Val.int (-2)), ("x", .int 1)] "$repeat" = some (.int (-2)) ∧
    (-2 : Int) ≤ 0 := by decide

/-- A count that is neither an integer nor a map of named counts is an error, at document level
    `invalidRepeat` (`C12_nonint_error`) … -/
theorem C08_repeat_nonint_is_error (docs : List Val) (env : Vars) (data : Val) (kvs : Fields)
    (rt : Val) (v : Val)
    (h1 : process1 depthLimit docs data (some []) data = .ok (.map kvs, rt))
    (hr : fget kvs "$repeat" = some v) (hv1 : ∀ n, v ≠ .int n) (hv2 : ∀ rs, v ≠ .map rs) :
    processDoc docs env data = .error .invalidRepeat ∧
    outputDocument docs env data = .error .invalidRepeat := by
  have h : processDoc docs env data = .error .invalidRepeat := by
    unfold processDoc
    rw [h1]
    simp only [ok_bind, repeatDoc, hr, C12_nonint_error _ env v hv1 hv2]
    rfl
  exact ⟨h, by unfold outputDocument; rw [h]; rfl⟩

/-- … and nested `invalidType` (`C12_nonint_error_nested`, `C12_nonint_error_map_nested`). -/
theorem C08_repeat_nonint_nested_is_error (fuel : Nat) (docs : List Val) (root : Val) (ec : Vars)
    (k : String) (m : Fields) (r : Val) (hr : fget m "$repeat" = some r) (hni : ∀ n, r ≠ .int n) :
    process2 (fuel + 1) docs root ec (.list [.map m]) = .error .invalidType ∧
    process2 (fuel + 1) docs root ec (.map [(k, .map m)]) = .error .invalidType :=
  ⟨C12_nonint_error_nested fuel docs root ec m r hr hni,
   C12_nonint_error_map_nested fuel docs root ec k m r hr hni⟩

example : (∀ n, Val.flt "1.5" ≠ .int n) ∧ (∀ rs, Val.flt "1.5" ≠ .map rs) :=
  ⟨fun _ h => (by cases h), fun _ h => (by cases h)⟩

/-! ## 12. the evaluation is total, and every error it returns is one of 15 classes -/

/-- `outputDocuments` is a total function of the stream and the environment: every invocation
    denotes complete output (`.ok`) or a reported error, and a reported error is one of the 15
    classes `cy_reported` (`circularRef`, `extraKeys`, `invalidArguments`, `invalidDirective`,
    `invalidType`, `invalidRepeat`, `refNotFound`, `missingMatch`, `multiMatch`, `noMatchFound`,
    `requiredField`, `unknownFormat`, `uselessOverride`, `variableNotFound`, and the model's own
    `unmodelled`). -/
theorem C08_evaluation_total_status (docs : List Val) (env : Vars) :
    (∃ outs, outputDocuments docs env = .ok outs) ∨
    (∃ e, outputDocuments docs env = .error e ∧ cy_reported e = true) := by
  cases h : outputDocuments docs env with
  | ok outs => exact Or.inl ⟨outs, rfl⟩
  | error e => exact Or.inr ⟨e, rfl, (cy_rep_outputDocuments docs env).rep e h⟩

/-- the finite list, explicitly -/
theorem C08_error_is_reported (docs : List Val) (env : Vars) (e : Err)
    (h : outputDocuments docs env = .error e) :
    e ∈ [Err.circularRef, .extraKeys, .invalidArguments, .invalidDirective, .invalidType,
      .invalidRepeat, .refNotFound, .missingMatch, .multiMatch, .noMatchFound, .requiredField,
      .unknownFormat, .uselessOverride, .variableNotFound, .unmodelled] := by
  have h' := (cy_rep_outputDocuments docs env).rep e h
  revert h'
  cases e <;> decide

/-- the other 12 constructors — `marshal`, `unmarshal`, the file and command-line errors and
    `other` — are never produced by `outputDocuments` -/
theorem C08_never_produced (docs : List Val) (env : Vars) :
    ∀ e ∈ [Err.conflictingParent, .extraEntries, .invalidIndex, .invalidFilename, .invalidParent,
      .marshal, .missingEnv, .missingFile, .noCloneFound, .outputFile, .unmarshal, .other],
      outputDocuments docs env ≠ .error e := by
  intro e he h
  have h' := (cy_rep_outputDocuments docs env).rep e h
  revert he h'
  cases e <;> decide

/-- Per stage.  Phase 3 (`process1`, hence `get` and `merge`) returns only `circularRef`,
    `extraKeys`, `invalidType`, `refNotFound`, `missingMatch`, `multiMatch`, `noMatchFound`,
    `uselessOverride`, `unmodelled`; the output stage (`emit`: selection, hiding, validation)
    only `extraKeys`, `requiredField`, `invalidDirective`; `repeatDoc`, `process2`, `processDoc`
    and `outputDocument` stay within the 15 classes. -/
theorem C08_error_classes_by_stage (fuel : Nat) (docs : List Val) (root : Val) (loc : Loc)
    (ec : Vars) (v : Val) (vs : List Val) (e : Err) :
    (process1 fuel docs root loc v = .error e → cy_p1Err e = true) ∧
    (emit vs = .error e → cy_emitErr e = true) ∧
    (repeatDoc v ec = .error e → cy_reported e = true) ∧
    (process2 fuel docs root ec v = .error e → cy_reported e = true) ∧
    (processDoc docs ec v = .error e → cy_reported e = true) ∧
    (outputDocument docs ec v = .error e → cy_reported e = true) :=
  ⟨(cy_rep_process1 fuel docs root loc v).rep e, (cy_rep_emit vs).rep e,
   (cy_rep_repeatDoc v ec).rep e, (cy_rep_process2 fuel docs root ec v).rep e,
   (cy_rep_processDoc docs ec v).rep e, (cy_rep_outputDocument docs ec v).rep e⟩

/-- the classes, spelled out (so that the statements above do not depend on reading the lemma
    file) -/
theorem C08_error_classes_spec (e : Err) :
    (cy_p1Err e = true ↔ e ∈ [Err.circularRef, .extraKeys, .invalidType, .refNotFound,
      .missingMatch, .multiMatch, .noMatchFound, .uselessOverride, .unmodelled]) ∧
    (cy_emitErr e = true ↔ e ∈ [Err.extraKeys, .requiredField, .invalidDirective]) ∧
    (cy_reported e = true ↔ e ∈ [Err.circularRef, .extraKeys, .invalidArguments,
      .invalidDirective, .invalidType, .invalidRepeat, .refNotFound, .missingMatch, .multiMatch,
      .noMatchFound, .requiredField, .unknownFormat, .uselessOverride, .variableNotFound,
      .unmodelled]) := by
  cases e <;> decide

/-- `unknownFormat` is NOT among the never-produced classes: `{$decode: xml, $value: "1"}` makes
    the pipeline return it (so the list of 15 cannot be shortened by it) -/
theorem C08_unknownFormat_is_produced (env : Vars) :
    outputDocuments [.map [("$decode", .str "xml"), ("$value", .str "1")]] env =
      .error .unknownFormat :=
  cy_outputDocuments_single_error [] [] rfl (fun x hx => by cases hx)
    (cy_unknownFormat_witness _ env)

end Bkl
