/-
  C08 — "Every invocation terminates with complete output or a reported error …  Reference
  cycles of every kind — $merge/$replace loops, self-referential interpolation, a subtree merged
  into itself, $parent cycles between files — are reported as errors."

  Every model function is total (structural recursion, fuel recursion with fuel = the depth
  guard 1000 of the Go code, or well-founded recursion), so "terminates" holds by construction
  (`C08_total`).  The theorems below say what the depth guard turns the cyclic inputs into, for
  EVERY fuel:

  * forwarding references (`$merge:k` / `$replace:k` strings, `{$replace: k}` maps): every closed
    system — n-cycles, lassos, mixed forms — is `circularRef` (`C08_string_cycle`,
    `C08_string_replace_cycle`, `C08_map_replace_cycle_2`, `C08_forwarding_closed_is_error`);
  * interpolation cycles are `circularRef` (`C08_interp_cycle`, `…_2`, `…_general`, `…_doc`);
  * `$parent` cycles between files are `circularRef` (`C08_parent_cycle`, `…_general`, `…_list`);
  * a map key that evaluates to a non-string is `invalidType` (`C08_key_not_string_is_error`);
  * FALSE as worded: the MAP form of a `$merge` loop, `a: {$merge: b}, b: {$merge: a}` (and the
    self-loop `a: {$merge: a}`), is NOT reported: the host is expanded in place after its
    `$merge` key was deleted, so the second visit finds an empty map and the evaluation ends
    with `{a: {}, b: {}}` (`C08_map_cycle_2_false`, `C08_map_cycle_2_partial`,
    `C08_map_self_cycle_false`, `C08_map_self_cycle_partial`).  The Go binary agrees.  With
    content in the hosts the loop is reported, as `uselessOverride` (`C08_map_cycle_2_with_keys`).
  * likewise "a subtree merged into itself" (`a: {$merge: [], x: 1}`) is evaluated once and
    yields a finite value (`C08_self_merge_value`).

  Helper lemmas: `BklProofs/Lemmas/Cycles.lean`.
-/
import BklProofs.Lemmas.Cycles
set_option linter.unusedVariables false
namespace Bkl

/-! ## 1. forwarding references: `$merge:` / `$replace:` strings, `$replace` maps -/

/-- The general statement.  A document `kvs` is a *closed system of forwarding references*
    (`RefClosed`) if every entry value, evaluated against this root, resolves a simple key of the
    same document and continues with the referenced value (`NextRef`: this is what `$merge:k`,
    `$replace:k` and `{$replace: k}` do).  Then the evaluation is `circularRef` for every fuel:
    every n-cycle, every lasso into a cycle, every mixture of the three forms. -/
theorem C08_forwarding_closed_is_error {kvs : Fields} (H : RefClosed kvs) (hne : kvs ≠ [])
    (h0 : fget kvs "$merge" = none) (h1 : fget kvs "$replace" = none)
    (fuel : Nat) (docs : List Val) :
    process1 fuel docs (.map kvs) (some []) (.map kvs) = .error .circularRef :=
  refClosed_doc_error H hne h0 h1 fuel docs (some [])

/-- … and each single entry is `circularRef` wherever it is evaluated. -/
theorem C08_forwarding_closed_entry_is_error {kvs : Fields} (H : RefClosed kvs)
    (fuel : Nat) (docs : List Val) (loc : Loc) (p : String × Val) (hp : p ∈ kvs) :
    process1 fuel docs (.map kvs) loc p.2 = .error .circularRef :=
  refClosed_entry_error H fuel docs loc p hp

-- non-vacuity: a lasso `c → a ⇄ b` mixing the three forms
example : RefClosed [("a", .str "$merge:b"), ("b", .map [("$replace", .str "a")]),
    ("c", .str "$replace:a")] ∧
    fget [("a", Val.str "$merge:b"), ("b", .map [("$replace", .str "a")]),
      ("c", .str "$replace:a")] "$merge" = none ∧
    fget [("a", Val.str "$merge:b"), ("b", .map [("$replace", .str "a")]),
      ("c", .str "$replace:a")] "$replace" = none := by
  refine ⟨?_, by decide, by decide⟩
  intro p hp
  simp only [List.mem_cons, List.not_mem_nil, or_false] at hp
  rcases hp with rfl | rfl | rfl
  · exact ⟨"b", .map [("$replace", .str "a")], nextRef_str_merge _ "b", simpleKey_b, by decide⟩
  · exact ⟨"a", .str "$merge:b", nextRef_map_replace _ (by decide) (by decide), simpleKey_a,
      by decide⟩
  · exact ⟨"a", .str "$merge:b", nextRef_str_replace _ "a", simpleKey_a, by decide⟩

/-- The n-cycle of `$merge:` strings, for every n ≥ 1 and all simple key names
    `k₀ … kₙ₋₁` (distinctness and sortedness are not even needed):
    `k₀: $merge:k₁, k₁: $merge:k₂, …, kₙ₋₁: $merge:k₀` is `circularRef` for every fuel. -/
theorem C08_string_cycle (ks : List String) (hne : ks ≠ []) (hk : ∀ k ∈ ks, SimpleKey k)
    (hm : "$merge" ∉ ks) (hr : "$replace" ∉ ks) (fuel : Nat) (docs : List Val) :
    process1 fuel docs (.map (cycleFields (fun k => .str ("$merge:" ++ k)) ks)) (some [])
      (.map (cycleFields (fun k => .str ("$merge:" ++ k)) ks)) = .error .circularRef :=
  C08_forwarding_closed_is_error
    (cycleFields_refClosed _ ks hk (fun k _ => nextRef_str_merge _ k))
    (cycleFields_ne_nil _ hne) (cycleFields_fget_none _ ks hm) (cycleFields_fget_none _ ks hr)
    fuel docs

/-- The same for `$replace:` strings. -/
theorem C08_string_replace_cycle (ks : List String) (hne : ks ≠ [])
    (hk : ∀ k ∈ ks, SimpleKey k) (hm : "$merge" ∉ ks) (hr : "$replace" ∉ ks)
    (fuel : Nat) (docs : List Val) :
    process1 fuel docs (.map (cycleFields (fun k => .str ("$replace:" ++ k)) ks)) (some [])
      (.map (cycleFields (fun k => .str ("$replace:" ++ k)) ks)) = .error .circularRef :=
  C08_forwarding_closed_is_error
    (cycleFields_refClosed _ ks hk (fun k _ => nextRef_str_replace _ k))
    (cycleFields_ne_nil _ hne) (cycleFields_fget_none _ ks hm) (cycleFields_fget_none _ ks hr)
    fuel docs

-- non-vacuity: the 5-cycle a → b → c → d → e → a (sorted keys), and the simple keys "a" … "e"
example : cycleFields (fun k => .str ("$merge:" ++ k)) ["a", "b", "c", "d", "e"] =
    [("a", .str "$merge:b"), ("b", .str "$merge:c"), ("c", .str "$merge:d"),
     ("d", .str "$merge:e"), ("e", .str "$merge:a")] := by decide
example : (∀ k ∈ ["a", "b", "c", "d", "e"], SimpleKey k) ∧
    "$merge" ∉ ["a", "b", "c", "d", "e"] ∧ "$replace" ∉ ["a", "b", "c", "d", "e"] := by
  refine ⟨?_, by decide, by decide⟩
  intro k hk
  simp only [List.mem_cons, List.not_mem_nil, or_false] at hk
  rcases hk with rfl | rfl | rfl | rfl | rfl
  exacts [simpleKey_a, simpleKey_b, simpleKey_c, simpleKey_d, simpleKey_e]

/-- a key is simple as soon as it is a plain YAML scalar without a dot -/
theorem C08_simple_key_of_plain {k : String} (h1 : isPlainRef k = true) (h2 : '.' ∉ k.toList) :
    SimpleKey k := simpleKey_of_plain h1 h2

example : isPlainRef "c" = true ∧ '.' ∉ "c".toList := ⟨isPlainRef_c, by decide⟩

/-- the 5-cycle as a concrete document -/
theorem C08_string_cycle_5 (fuel : Nat) (docs : List Val) :
    process1 fuel docs
      (.map [("a", .str "$merge:b"), ("b", .str "$merge:c"), ("c", .str "$merge:d"),
        ("d", .str "$merge:e"), ("e", .str "$merge:a")]) (some [])
      (.map [("a", .str "$merge:b"), ("b", .str "$merge:c"), ("c", .str "$merge:d"),
        ("d", .str "$merge:e"), ("e", .str "$merge:a")]) = .error .circularRef := by
  have h := C08_string_cycle ["a", "b", "c", "d", "e"] (by decide)
    (by
      intro k hk
      simp only [List.mem_cons, List.not_mem_nil, or_false] at hk
      rcases hk with rfl | rfl | rfl | rfl | rfl
      exacts [simpleKey_a, simpleKey_b, simpleKey_c, simpleKey_d, simpleKey_e])
    (by decide) (by decide) fuel docs
  have e : cycleFields (fun k => .str ("$merge:" ++ k)) ["a", "b", "c", "d", "e"] =
      [("a", .str "$merge:b"), ("b", .str "$merge:c"), ("c", .str "$merge:d"),
       ("d", .str "$merge:e"), ("e", .str "$merge:a")] := by decide
  rw [e] at h; exact h

/-- `a: {$replace: b}, b: {$replace: a}` is `circularRef` for every fuel. -/
theorem C08_map_replace_cycle_2 (fuel : Nat) (docs : List Val) :
    process1 fuel docs
      (.map [("a", .map [("$replace", .str "b")]), ("b", .map [("$replace", .str "a")])])
      (some [])
      (.map [("a", .map [("$replace", .str "b")]), ("b", .map [("$replace", .str "a")])]) =
      .error .circularRef := by
  refine C08_forwarding_closed_is_error ?_ (by decide) (by decide) (by decide) fuel docs
  intro p hp
  simp only [List.mem_cons, List.not_mem_nil, or_false] at hp
  rcases hp with rfl | rfl
  · exact ⟨"b", .map [("$replace", .str "a")], nextRef_map_replace _ (by decide) (by decide),
      simpleKey_b, by decide⟩
  · exact ⟨"a", .map [("$replace", .str "b")], nextRef_map_replace _ (by decide) (by decide),
      simpleKey_a, by decide⟩

/-! ## 2. the MAP form of a `$merge` loop is not reported -/

/-- Exact behaviour: with at least 4 units of fuel the 2-cycle of `$merge` maps evaluates to
    `{a: {}, b: {}}`.  Reduction: host `a` loses `$merge` (root: `a: {}`), receives `b`'s map
    `{$merge: a}` and is evaluated again: it loses `$merge` again, receives its own current
    content `{}`, and ends as `{}`; then host `b` receives `a`'s content `{}`. -/
theorem C08_map_cycle_2_partial (fuel : Nat) (docs : List Val) :
    process1 (fuel + 4) docs mapCycle2 (some []) mapCycle2 =
      .ok (.map [("a", .map []), ("b", .map [])], .map [("a", .map []), ("b", .map [])]) := by
  unfold mapCycle2
  rw [process1_map_plain (by decide) (by decide), foldlM_cons]
  have ha : process1 (fuel + 3) docs
      (.map [("a", .map [("$merge", .str "b")]), ("b", .map [("$merge", .str "a")])])
      (some [.key "a"]) (.map [("$merge", .str "b")]) =
      .ok (.map [], .map [("a", .map []), ("b", .map [("$merge", .str "a")])]) := by
    refine (host_step (k := "b") (d := []) (s := [("$merge", .str "a")])
      (next := [("$merge", .str "a")])
      (rkvs1 := [("a", .map []), ("b", .map [("$merge", .str "a")])])
      (rkvs2 := [("a", .map [("$merge", .str "a")]), ("b", .map [("$merge", .str "a")])])
      simpleKey_b (by decide) (by decide) (by decide) (by decide) (by decide)
      (mergeFields_empty_single _ _ (by decide)) (by decide)).trans ?_
    refine (host_step (k := "a") (d := []) (s := []) (next := [])
      (rkvs1 := [("a", .map []), ("b", .map [("$merge", .str "a")])])
      (rkvs2 := [("a", .map []), ("b", .map [("$merge", .str "a")])])
      simpleKey_a (by decide) (by decide) (by decide) (by decide) (by decide)
      (mergeFields_nil _) (by decide)).trans ?_
    rw [process1_empty_map]
  have hb : process1 (fuel + 3) docs
      (.map [("a", .map []), ("b", .map [("$merge", .str "a")])])
      (some [.key "b"]) (.map [("$merge", .str "a")]) =
      .ok (.map [], .map [("a", .map []), ("b", .map [])]) := by
    refine (host_step (k := "a") (d := []) (s := []) (next := [])
      (rkvs1 := [("a", .map []), ("b", .map [])])
      (rkvs2 := [("a", .map []), ("b", .map [])])
      simpleKey_a (by decide) (by decide) (by decide) (by decide) (by decide)
      (mergeFields_nil _) (by decide)).trans ?_
    rw [process1_empty_map]
  have ea : childLoc (some []) "a" = some [.key "a"] := rfl
  have eb : childLoc (some []) "b" = some [.key "b"] := rfl
  simp only [mapStep, ea, eb, ha, hb, R_bind_ok, Val.isNull, Bool.false_eq_true, if_false,
    process1_key_plain (k := "a") (by decide) (by decide),
    process1_key_plain (k := "b") (by decide) (by decide), R_pure, foldlM_cons, foldlM_nil]
  exact congrArg Except.ok (by decide)

/-- The requested statement "for every fuel the result is an error" is FALSE for the map form. -/
theorem C08_map_cycle_2_false :
    ¬ ∀ fuel, ∃ e, process1 fuel [] mapCycle2 (some []) mapCycle2 = .error e := by
  intro h
  obtain ⟨e, he⟩ := h 4
  rw [C08_map_cycle_2_partial 0 []] at he
  cases he

/-- In particular at the depth limit used by `processDoc` (1000). -/
theorem C08_map_cycle_2_at_depth_limit (docs : List Val) :
    process1 depthLimit docs mapCycle2 (some []) mapCycle2 =
      .ok (.map [("a", .map []), ("b", .map [])], .map [("a", .map []), ("b", .map [])]) :=
  C08_map_cycle_2_partial 996 docs

/-- Exact behaviour of the self-loop: `{a: {}}` (fuel ≥ 3). -/
theorem C08_map_self_cycle_partial (fuel : Nat) (docs : List Val) :
    process1 (fuel + 3) docs mapSelfCycle (some []) mapSelfCycle =
      .ok (.map [("a", .map [])], .map [("a", .map [])]) := by
  unfold mapSelfCycle
  rw [process1_map_plain (by decide) (by decide), foldlM_cons]
  have ha : process1 (fuel + 2) docs (.map [("a", .map [("$merge", .str "a")])])
      (some [.key "a"]) (.map [("$merge", .str "a")]) =
      .ok (.map [], .map [("a", .map [])]) := by
    refine (host_step (k := "a") (d := []) (s := []) (next := [])
      (rkvs1 := [("a", .map [])]) (rkvs2 := [("a", .map [])])
      simpleKey_a (by decide) (by decide) (by decide) (by decide) (by decide)
      (mergeFields_nil _) (by decide)).trans ?_
    rw [process1_empty_map]
  have ea : childLoc (some []) "a" = some [.key "a"] := rfl
  simp only [mapStep, ea, ha, R_bind_ok, Val.isNull, Bool.false_eq_true, if_false,
    process1_key_plain (k := "a") (by decide) (by decide), R_pure, foldlM_nil]
  exact congrArg Except.ok (by decide)

theorem C08_map_self_cycle_false :
    ¬ ∀ fuel, ∃ e, process1 fuel [] mapSelfCycle (some []) mapSelfCycle = .error e := by
  intro h
  obtain ⟨e, he⟩ := h 3
  rw [C08_map_self_cycle_partial 0 []] at he
  cases he

/-- When the hosts of the loop carry content, the second visit of `a` merges `a`'s content into
    itself and the ordinary merge rules report a useless override: an error, though not
    `circularRef`. -/
theorem C08_map_cycle_2_with_keys (fuel : Nat) (docs : List Val) :
    process1 (fuel + 3) docs mapCycle2Keys (some []) mapCycle2Keys = .error .uselessOverride := by
  unfold mapCycle2Keys
  rw [process1_map_plain (by decide) (by decide), foldlM_cons]
  have hn1 : mergeFields [("x", Val.int 1)] [("$merge", .str "a"), ("y", .int 2)] =
      .ok [("$merge", .str "a"), ("x", .int 1), ("y", .int 2)] := by
    rw [mergeFields_cons, if_neg (by decide)]
    have h1 : fget [("x", Val.int 1)] "$merge" = none := by decide
    have h2 : fset [("x", Val.int 1)] "$merge" (.str "a") =
        [("$merge", .str "a"), ("x", .int 1)] := by decide
    simp only [h1, h2]
    rw [mergeFields_cons, if_neg (by decide)]
    have h3 : fget [("$merge", Val.str "a"), ("x", Val.int 1)] "y" = none := by decide
    have h4 : fset [("$merge", Val.str "a"), ("x", Val.int 1)] "y" (.int 2) =
        [("$merge", .str "a"), ("x", .int 1), ("y", .int 2)] := by decide
    simp only [h3, h4, mergeFields_nil]
  have hn2 : mergeFields [("x", Val.int 1), ("y", .int 2)] [("x", Val.int 1), ("y", .int 2)] =
      .error .uselessOverride := by
    rw [mergeFields_cons, if_neg (by decide)]
    have h1 : fget [("x", Val.int 1), ("y", .int 2)] "x" = some (.int 1) := by decide
    have h2 : merge (.int 1) (.int 1) = .error .uselessOverride := by
      rw [merge_scalar _ _ rfl]; rfl
    simp only [h1, h2]
  have ha : process1 (fuel + 2) docs
      (.map [("a", .map [("$merge", .str "b"), ("x", .int 1)]),
        ("b", .map [("$merge", .str "a"), ("y", .int 2)])])
      (some [.key "a"]) (.map [("$merge", .str "b"), ("x", .int 1)]) =
      .error .uselessOverride := by
    refine (host_step (k := "b") (d := [("x", .int 1)]) (s := [("$merge", .str "a"), ("y", .int 2)])
      (next := [("$merge", .str "a"), ("x", .int 1), ("y", .int 2)])
      (rkvs1 := [("a", .map [("x", .int 1)]), ("b", .map [("$merge", .str "a"), ("y", .int 2)])])
      (rkvs2 := [("a", .map [("$merge", .str "a"), ("x", .int 1), ("y", .int 2)]),
        ("b", .map [("$merge", .str "a"), ("y", .int 2)])])
      simpleKey_b (by decide) (by decide) (by decide) (by decide) (by decide) hn1
      (by decide)).trans ?_
    exact process1_merge_step_error (ref := .str "a") (s := [("x", .int 1), ("y", .int 2)])
      (root1 := .map [("a", .map [("x", .int 1), ("y", .int 2)]),
        ("b", .map [("$merge", .str "a"), ("y", .int 2)])])
      (by decide) (by decide) (get_simpleKey simpleKey_a docs (by decide)) (by decide)
      (by rw [show fdel [("$merge", Val.str "a"), ("x", .int 1), ("y", .int 2)] "$merge" =
            [("x", .int 1), ("y", .int 2)] from by decide]; exact hn2)
  have ea : childLoc (some []) "a" = some [.key "a"] := rfl
  simp only [mapStep, ea, ha]
  rfl

/-! ## 3. interpolation cycles -/

/-- A closed system of interpolations — every entry is `$"{k}"` for a plain key `k` of the same
    document — is `circularRef` for every fuel, stream and variable context. -/
theorem C08_interp_cycle_general {kvs : Fields} (H : InterpClosed kvs)
    (fuel : Nat) (docs : List Val) (ec : Vars) (k : String) (s : String)
    (hp : (k, Val.str s) ∈ kvs) :
    process2String fuel docs (.map kvs) ec s = .error .circularRef := by
  obtain ⟨s', hs, herr⟩ := interpClosed_entry_error H fuel docs ec _ hp
  cases hs; exact herr

example : InterpClosed [("a", .str "$\"{b}\""), ("b", .str "$\"{a}\"")] := interpClosed_2

/-- `a: $"{a}"` -/
theorem C08_interp_cycle (fuel : Nat) (docs : List Val) (ec : Vars) :
    process2String fuel docs (.map [("a", .str "$\"{a}\"")]) ec "$\"{a}\"" =
      .error .circularRef :=
  C08_interp_cycle_general interpClosed_1 fuel docs ec "a" _ (by simp)

/-- `a: $"{b}", b: $"{a}"` -/
theorem C08_interp_cycle_2 (fuel : Nat) (docs : List Val) (ec : Vars) :
    process2String fuel docs (.map [("a", .str "$\"{b}\""), ("b", .str "$\"{a}\"")]) ec
      "$\"{b}\"" = .error .circularRef ∧
    process2String fuel docs (.map [("a", .str "$\"{b}\""), ("b", .str "$\"{a}\"")]) ec
      "$\"{a}\"" = .error .circularRef :=
  ⟨C08_interp_cycle_general interpClosed_2 fuel docs ec "a" _ (by simp),
   C08_interp_cycle_general interpClosed_2 fuel docs ec "b" _ (by simp)⟩

/-- The whole document: a (sorted, non-empty) closed system of interpolations without
    `$encode` / `$decode` / `$value` keys is `circularRef` under `process2`, for every fuel. -/
theorem C08_interp_cycle_doc {kvs : Fields} (H : InterpClosed kvs) (hne : kvs ≠ [])
    (hs : Fields.sortedKeysB kvs = true) (h1 : fget kvs "$encode" = none)
    (h2 : fget kvs "$decode" = none) (h3 : fget kvs "$value" = none)
    (fuel : Nat) (docs : List Val) (ec : Vars) :
    process2 fuel docs (.map kvs) ec (.map kvs) = .error .circularRef := by
  cases fuel with
  | zero => exact process2_zero _ _ _ _
  | succ n =>
    rw [process2]
    rw [e_foldlM_fields_id _ kvs []]
    · rw [← fofList, e_fofList_sorted _ hs]
      simp only [e_ok_bind, h1, h2, h3]
      cases kvs with
      | nil => exact absurd rfl hne
      | cons p rest =>
        obtain ⟨k, v⟩ := p
        have := interpClosed_entry_error2 H n docs ec (k, v) List.mem_cons_self
        simp only [List.foldlM_cons, this]
        rfl
    · intro acc q hq
      obtain ⟨k, v, hv, _⟩ := H q hq
      obtain ⟨qk, qv⟩ := q
      have : qv = .str (interpRefStr k) := hv
      subst this
      rfl

example : Fields.sortedKeysB [("a", .str "$\"{b}\""), ("b", .str "$\"{a}\"")] = true ∧
    fget [("a", Val.str "$\"{b}\""), ("b", .str "$\"{a}\"")] "$encode" = none ∧
    fget [("a", Val.str "$\"{b}\""), ("b", .str "$\"{a}\"")] "$decode" = none ∧
    fget [("a", Val.str "$\"{b}\""), ("b", .str "$\"{a}\"")] "$value" = none := by decide

/-- `a: $"{a}"` as a document -/
theorem C08_interp_cycle_doc_1 (fuel : Nat) (docs : List Val) (ec : Vars) :
    process2 fuel docs (.map [("a", .str "$\"{a}\"")]) ec (.map [("a", .str "$\"{a}\"")]) =
      .error .circularRef :=
  C08_interp_cycle_doc interpClosed_1 (by decide) (by decide) (by decide) (by decide) (by decide)
    fuel docs ec

/-! ## 4. a subtree merged into itself is evaluated once -/

/-- `$merge: []` refers to the whole document.  The host first loses its `$merge` key, then
    receives a copy of the root as it is at that moment (`{a: {x: 1}}`); the copy contains no
    reference any more, so the expansion does not recur: the result is the finite value
    `{a: {a: {x: 1}, x: 1}}` (fuel ≥ 5), not an error. -/
theorem C08_self_merge_value (fuel : Nat) (docs : List Val) :
    process1 (fuel + 5) docs selfMerge (some []) selfMerge =
      .ok (.map [("a", .map [("a", .map [("x", .int 1)]), ("x", .int 1)])],
           .map [("a", .map [("a", .map [("x", .int 1)]), ("x", .int 1)])]) := by
  unfold selfMerge
  rw [process1_map_plain (by decide) (by decide), foldlM_cons]
  have hn : mergeFields [("x", Val.int 1)] [("a", .map [("x", .int 1)])] =
      .ok [("a", .map [("x", .int 1)]), ("x", .int 1)] := by
    rw [mergeFields_cons, if_neg (by decide)]
    have h1 : fget [("x", Val.int 1)] "a" = none := by decide
    have h2 : fset [("x", Val.int 1)] "a" (.map [("x", .int 1)]) =
        [("a", .map [("x", .int 1)]), ("x", .int 1)] := by decide
    simp only [h1, h2, mergeFields_nil]
  have ha : process1 (fuel + 4) docs (.map [("a", .map [("$merge", .list []), ("x", .int 1)])])
      (some [.key "a"]) (.map [("$merge", .list []), ("x", .int 1)]) =
      .ok (.map [("a", .map [("x", .int 1)]), ("x", .int 1)],
           .map [("a", .map [("a", .map [("x", .int 1)]), ("x", .int 1)])]) := by
    refine (process1_merge_step (ref := .list []) (s := [("a", .map [("x", .int 1)])])
      (next := [("a", .map [("x", .int 1)]), ("x", .int 1)])
      (root1 := .map [("a", .map [("x", .int 1)])])
      (root2 := .map [("a", .map [("a", .map [("x", .int 1)]), ("x", .int 1)])])
      (by decide) (by decide) (get_list_nil _ _) (by decide)
      (by rw [show fdel [("$merge", Val.list []), ("x", .int 1)] "$merge" = [("x", .int 1)]
            from by decide]; exact hn)
      (by decide)).trans ?_
    rw [e_process1_plain (fuel + 3) docs _ _ _ (by decide) (by decide)
      (by
        show depth (.map [("a", .map [("x", .int 1)]), ("x", .int 1)]) < fuel + 3
        have : depth (.map [("a", .map [("x", .int 1)]), ("x", .int 1)]) = 2 := by decide
        omega)]
    exact congrArg Except.ok (by decide)
  have ea : childLoc (some []) "a" = some [.key "a"] := rfl
  simp only [mapStep, ea, ha, R_bind_ok, Val.isNull, Bool.false_eq_true, if_false,
    process1_key_plain (k := "a") (by decide) (by decide), R_pure, foldlM_nil]
  exact congrArg Except.ok (by decide)

/-- so this kind of "cycle" is not an error either -/
theorem C08_self_merge_not_error :
    ¬ ∀ fuel, ∃ e, process1 fuel [] selfMerge (some []) selfMerge = .error e := by
  intro h
  obtain ⟨e, he⟩ := h 5
  rw [C08_self_merge_value 0 []] at he
  cases he

/-! ## 5. `$parent` cycles between files -/

/-- the cycle check: a file that is already on the chain of children is `circularRef` -/
theorem C08_parent_chain_is_error (fs : FS) (cfg : RootCfg) (fuel : Nat) (path : Comps)
    (c : Option String) (ids : List String) (chain : List Comps) (h : path ∈ chain) :
    loadFileAndParents fs cfg (fuel + 1) path c ids chain = .error .circularRef :=
  loadFileAndParents_chain fs cfg fuel path c ids chain h

example : (["w", "p.yaml"] : Comps) ∈ [["w", "q.yaml"], ["w", "p.yaml"]] := by decide

/-- the depth guard -/
theorem C08_parent_no_fuel (fs : FS) (cfg : RootCfg) (path : Comps) (c : Option String)
    (ids : List String) (chain : List Comps) :
    loadFileAndParents fs cfg 0 path c ids chain = .error .circularRef :=
  loadFileAndParents_zero fs cfg path c ids chain

/-- General form.  Let `S` be a set of files such that every file in `S` loads and its first
    parent (`ParentEdge`) is again in `S` — a cycle, or any path leading into one.  Then loading
    any file of `S` is `circularRef`, for every fuel, child id and chain. -/
theorem C08_parent_cycle_general {fs : FS} {cfg : RootCfg} {S : Comps → Prop}
    (H : ParentClosed fs cfg S) (fuel : Nat) (p : Comps) (hp : S p) (c : Option String)
    (ids : List String) (chain : List Comps) :
    loadFileAndParents fs cfg fuel p c ids chain = .error .circularRef :=
  parentClosed_error H fuel p hp c ids chain

/-- The n-cycle `p₀ → p₁ → … → pₙ₋₁ → p₀` of first parents. -/
theorem C08_parent_cycle_list (fs : FS) (cfg : RootCfg) (ps : List Comps)
    (H : ∀ e ∈ ps.zip (rot1 ps), ParentEdge fs cfg e.1 e.2)
    (fuel : Nat) (p : Comps) (hp : p ∈ ps) :
    loadFileAndParents fs cfg fuel p none [] [] = .error .circularRef := by
  refine C08_parent_cycle_general (S := fun x => x ∈ ps) ?_ fuel p hp none [] []
  intro x hx
  obtain ⟨q, hq⟩ := exists_zip_of_mem ps (rot1 ps) (length_rot1 ps).symm x hx
  exact ⟨q, H _ hq, mem_rot1.1 (List.of_mem_zip hq).2⟩

/-- Two files naming each other as parent: `p` has parent `q` and `q` has parent `p`. -/
theorem C08_parent_cycle (fs : FS) (cfg : RootCfg) (p q : Comps) (docsP docsQ : List Val)
    (hlp : ∀ fid, loadFile fs cfg p fid = .ok docsP)
    (hlq : ∀ fid, loadFile fs cfg q fid = .ok docsQ)
    (hpp : fileParents fs p docsP = .ok [q]) (hpq : fileParents fs q docsQ = .ok [p])
    (fuel : Nat) :
    loadFileAndParents fs cfg fuel p none [] [] = .error .circularRef := by
  refine C08_parent_cycle_list fs cfg [p, q] ?_ fuel p (by simp)
  intro e he
  have hz : [p, q].zip (rot1 [p, q]) = [(p, q), (q, p)] := rfl
  rw [hz] at he
  simp only [List.mem_cons, List.not_mem_nil, or_false] at he
  rcases he with rfl | rfl
  · exact ⟨docsP, [], hlp, hpp⟩
  · exact ⟨docsQ, [], hlq, hpq⟩

-- non-vacuity: the file system `fsPQ` = { /w/p.yaml: {$parent: q}, /w/q.yaml: {$parent: p} }
example :
    (∀ fid, loadFile fsPQ cfgPQ ["w", "p.yaml"] fid = .ok [.map [("$parent", .str "q")]]) ∧
    (∀ fid, loadFile fsPQ cfgPQ ["w", "q.yaml"] fid = .ok [.map [("$parent", .str "p")]]) ∧
    fileParents fsPQ ["w", "p.yaml"] [.map [("$parent", .str "q")]] = .ok [["w", "q.yaml"]] ∧
    fileParents fsPQ ["w", "q.yaml"] [.map [("$parent", .str "p")]] = .ok [["w", "p.yaml"]] :=
  ⟨fsPQ_load_p, fsPQ_load_q, fsPQ_parents_p, fsPQ_parents_q⟩

/-- … so loading `/w/p.yaml` (as `bkl /w/p.yaml` does, with `loadFuel`) reports the cycle -/
theorem C08_parent_cycle_concrete (fuel : Nat) :
    loadFileAndParents fsPQ cfgPQ fuel ["w", "p.yaml"] none [] [] = .error .circularRef :=
  C08_parent_cycle fsPQ cfgPQ ["w", "p.yaml"] ["w", "q.yaml"] _ _ fsPQ_load_p fsPQ_load_q
    fsPQ_parents_p fsPQ_parents_q fuel

theorem C08_parent_cycle_mergeFileLayers (st : PState) :
    mergeFileLayers fsPQ cfgPQ st ["w", "p.yaml"] = .error .circularRef := by
  unfold mergeFileLayers
  rw [C08_parent_cycle_concrete]; rfl

/-! ## 6. a map key that evaluates to a non-string is an error, not a crash -/

/-- `{"$merge:a": 1, a: 5}`: the key `$merge:a` resolves to the int 5.  (The `process2`
    counterpart, a key `$env:X` bound to a non-string, is `C13_env_in_key`.) -/
theorem C08_key_not_string_is_error (fuel : Nat) (docs : List Val) :
    process1 (fuel + 3) docs (.map [("$merge:a", .int 1), ("a", .int 5)]) (some [])
      (.map [("$merge:a", .int 1), ("a", .int 5)]) = .error .invalidType := by
  rw [process1_map_plain (by decide) (by decide), foldlM_cons]
  have hk : process1 (fuel + 2) docs (.map [("$merge:a", .int 1), ("a", .int 5)]) none
      (.str "$merge:a") = .ok (.int 5, .map [("$merge:a", .int 1), ("a", .int 5)]) := by
    rw [process1_str_merge stripPrefix_merge_a,
      get_simpleKey simpleKey_a docs (v := .int 5) (by decide), R_bind_ok, process1_int]
  simp only [mapStep, process1_int, R_bind_ok, Val.isNull, Bool.false_eq_true, if_false, hk]
  rfl

/-! ## 7. no reference, no lookup -/

/-- The positive side of the open finding (the depth guard bounds depth, not branching: a
    `$merge` host whose target contains the host, in a document with further references, makes
    the evaluation grow exponentially).  A reference-free value — no `$merge` / `$replace` key,
    no `$merge:` / `$replace:` string — never triggers a lookup: for every fuel the evaluated
    value (or error) is the same for all streams, roots and locations, and the root is handed
    back unchanged. -/
theorem C08_no_reference_no_lookup (fuel : Nat) (v : Val) (hv : refFree v = true)
    (docs₁ docs₂ : List Val) (root₁ root₂ : Val) (loc₁ loc₂ : Loc) :
    Except.map Prod.fst (process1 fuel docs₁ root₁ loc₁ v) =
      Except.map Prod.fst (process1 fuel docs₂ root₂ loc₂ v) ∧
    ∀ x r', process1 fuel docs₁ root₁ loc₁ v = .ok (x, r') → r' = root₁ := by
  rw [process1_refFree fuel v hv docs₁ root₁ loc₁, process1_refFree fuel v hv docs₂ root₂ loc₂]
  cases process1 fuel [] .null none v with
  | error e => exact ⟨rfl, fun x r' h => by cases h⟩
  | ok r => exact ⟨rfl, fun x r' h => by cases h; rfl⟩

/-- the same as a rewrite rule -/
theorem C08_no_reference_no_lookup_eq (fuel : Nat) (v : Val) (hv : refFree v = true)
    (docs : List Val) (root : Val) (loc : Loc) :
    process1 fuel docs root loc v =
      Except.map (fun r => (r.1, root)) (process1 fuel [] .null none v) :=
  process1_refFree fuel v hv docs root loc

example : refFree (.map [("k", .list [.str "x$merge:", .map [("$merger", .null)]])]) = true := by
  decide

/-- plain data (C06: nothing recognised by the evaluator) is reference-free -/
theorem C08_plain_is_refFree (v : Val) (h : plain v = true) : refFree v = true :=
  plain_refFree v h

/-! ## 8. totality -/

/-- Totality is by construction: `process1`, `process2`, `process2String`, `loadFileAndParents`
    recurse structurally on the fuel (= the depth guards of the Go code), `merge` and `get` by
    well-founded recursion, `outputDocuments` is a composition of these; Lean accepted all of
    them without `partial`, so each call denotes a value — a result or a reported error. -/
theorem C08_total :
    (∀ fuel docs root loc v, ∃ r, process1 fuel docs root loc v = r) ∧
    (∀ fuel docs root ec v, ∃ r, process2 fuel docs root ec v = r) ∧
    (∀ d s, ∃ r, merge d s = r) ∧
    (∀ docs env, ∃ r, outputDocuments docs env = r) ∧
    (∀ fs cfg fuel p c ids chain, ∃ r, loadFileAndParents fs cfg fuel p c ids chain = r) :=
  ⟨fun _ _ _ _ _ => ⟨_, rfl⟩, fun _ _ _ _ _ => ⟨_, rfl⟩, fun _ _ => ⟨_, rfl⟩,
   fun _ _ => ⟨_, rfl⟩, fun _ _ _ _ _ _ _ => ⟨_, rfl⟩⟩

end Bkl
