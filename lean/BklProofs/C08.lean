import Bkl
namespace Bkl
/-- placeholder until the property theorems land -/
theorem C08_placeholder : validate (.int 1) = .ok () := by simp [validate]; rfl
end Bkl
