/-
  C19 — "Producing output is a pure observation of parser state".

  The history language below is what the driver's `runHist` (Driver.lean) executes: a parser
  state threaded through `merge` steps, with `documents` / `outputDocuments` steps that only
  look at it.  In the model `outputDocuments` is a pure function of the merged trees, so the
  theorems here hold *by construction*; their content is that the Go implementation — where
  `OutputDocuments` runs on the parser's own heap objects — computes this same pure function,
  which is what the differential history test checks.  They are therefore kept short.
-/
import BklProofs.Lemmas.Parser
namespace Bkl

/-- one step of a parser history -/
inductive Op where
  | merge (d : Doc)                   -- Parser.MergeDocument
  | documents                         -- Parser.Documents (the merged, unevaluated trees)
  | outputDocuments (env : Vars)      -- Parser.OutputDocuments

/-- what a step lets the caller observe -/
inductive Obs where
  | merged (ok : Bool)
  | docs (ds : List Val)
  | out (r : R (List Val))
  | skipped                           -- only produced by `runDead`

/-- a failing merge keeps the state; `documents` and `outputDocuments` never change it -/
def step (st : PState) : Op → PState × Obs
  | .merge d =>
    match mergeDocument st d with
    | .ok st' => (st', .merged true)
    | .error _ => (st, .merged false)
  | .documents => (st, .docs (st.docs.map (·.2)))
  | .outputDocuments env => (st, .out (outputDocuments (st.docs.map (·.2)) env))

def run : PState → List Op → PState × List Obs
  | st, [] => (st, [])
  | st, op :: ops => ((run (step st op).1 ops).1, (step st op).2 :: (run (step st op).1 ops).2)

/-- `runHist`'s convention: after a failed merge every later step is skipped -/
def runDead : PState → Bool → List Op → PState × List Obs
  | st, _, [] => (st, [])
  | st, true, _ :: ops => ((runDead st true ops).1, .skipped :: (runDead st true ops).2)
  | st, false, op :: ops =>
    let dead := match (step st op).2 with | .merged false => true | _ => false
    ((runDead (step st op).1 dead ops).1, (step st op).2 :: (runDead (step st op).1 dead ops).2)

def Op.isMerge : Op → Bool
  | .merge _ => true
  | _ => false

/-! two bookkeeping facts about `run` (kept here because `run` is defined in this file) -/

theorem run_append (st : PState) (h₁ h₂ : List Op) :
    run st (h₁ ++ h₂) =
      ((run (run st h₁).1 h₂).1, (run st h₁).2 ++ (run (run st h₁).1 h₂).2) := by
  induction h₁ generalizing st with
  | nil => rfl
  | cons op ops ih => simp only [List.cons_append, run, ih]

theorem run_obs_length (st : PState) (h : List Op) : (run st h).2.length = h.length := by
  induction h generalizing st with
  | nil => rfl
  | cons op ops ih => simp only [run, List.length_cons, ih]

/-- Inserting an `outputDocuments` step anywhere in a history changes neither the final state
    nor any other observation: the observations are those of the shorter history with exactly
    one extra `out` observation (of the state reached after `h₁`) at position `h₁.length`. -/
theorem C19_output_pure (st : PState) (h₁ h₂ : List Op) (env : Vars) :
    (run st (h₁ ++ [.outputDocuments env] ++ h₂)).1 = (run st (h₁ ++ h₂)).1 ∧
    (run st (h₁ ++ [.outputDocuments env] ++ h₂)).2 =
      (run st (h₁ ++ h₂)).2.take h₁.length ++
        [.out (outputDocuments ((run st h₁).1.docs.map (·.2)) env)] ++
        (run st (h₁ ++ h₂)).2.drop h₁.length := by
  have hl := run_obs_length st h₁
  simp only [run_append, run, step, List.append_assoc, List.take_left', List.drop_left', hl,
    List.nil_append, List.cons_append, and_self]

/-- the same holds under `runHist`'s "dead after a failed merge" convention (live prefix) -/
theorem C19_output_pure_dead (st : PState) (ops : List Op) (env : Vars) :
    (runDead st false (.outputDocuments env :: ops)).1 = (runDead st false ops).1 ∧
    (runDead st false (.outputDocuments env :: ops)).2 =
      .out (outputDocuments (st.docs.map (·.2)) env) :: (runDead st false ops).2 := by
  simp only [runDead, step, and_self]

/-- Asking for the output twice gives the same answer twice. -/
theorem C19_output_repeatable (st : PState) (env : Vars) :
    (run st [.outputDocuments env, .outputDocuments env]).2 =
      [.out (outputDocuments (st.docs.map (·.2)) env),
       .out (outputDocuments (st.docs.map (·.2)) env)] := rfl

/-- The state after a history depends on its `merge` steps only. -/
theorem C19_state_depends_on_merges_only (st : PState) (h : List Op) :
    (run st h).1 = (run st (h.filter Op.isMerge)).1 := by
  induction h generalizing st with
  | nil => rfl
  | cons op ops ih =>
    cases op with
    | merge d => simp only [List.filter_cons, Op.isMerge, if_true, run, ih]
    | documents => simp [Op.isMerge, run, step, ih]
    | outputDocuments env => simp [Op.isMerge, run, step, ih]

/-- After a history of (successful) merges, `documents` shows exactly the merged trees of the
    state `runMerges` computes — never an evaluated tree: no `outputDocuments` result is stored
    anywhere (there is no place in `PState` for it). -/
theorem C19_documents_are_merged_trees {ps : List Doc} : ∀ {st st' : PState},
    runMerges st ps = .ok st' →
    run st (ps.map Op.merge ++ [.documents]) =
      (st', ps.map (fun _ => Obs.merged true) ++ [.docs (st'.docs.map (·.2))]) := by
  induction ps with
  | nil =>
    intro st st' h
    rw [runMerges_nil] at h
    cases h; rfl
  | cons p ps ih =>
    intro st st' h
    rw [runMerges_cons] at h
    cases hm : mergeDocument st p with
    | error e => rw [hm] at h; cases h
    | ok s =>
      rw [hm] at h
      simp only [List.map_cons, List.cons_append, run, step, hm, ih h]

/-- … also when output was requested in between (`outputDocuments` steps interleaved). -/
theorem C19_documents_after_outputs {ps : List Doc} {st st' : PState} (h : List Op)
    (hf : h.filter Op.isMerge = ps.map Op.merge) (hr : runMerges st ps = .ok st') :
    (run st (h ++ [.documents])).2.getLast? = some (.docs (st'.docs.map (·.2))) := by
  have h1 : (run st h).1 = st' := by
    rw [C19_state_depends_on_merges_only, hf]
    have := congrArg (·.1) (C19_documents_are_merged_trees hr)
    rw [run_append] at this
    exact this
  rw [run_append]
  simp only [run, step, h1, List.getLast?_append, List.getLast?_singleton, Option.some_or]

/-- A merge after an output request behaves as if the output had never been requested. -/
theorem C19_merge_after_output (st : PState) (env : Vars) (d : Doc) :
    (run st [.outputDocuments env, .merge d]).1 = (run st [.merge d]).1 ∧
    (run st [.outputDocuments env, .merge d]).2 =
      .out (outputDocuments (st.docs.map (·.2)) env) :: (run st [.merge d]).2 := ⟨rfl, rfl⟩

/-! non-vacuity of the two theorems with hypotheses -/

example : runMerges PState.empty [{ id := "a", parents := [], data := .int 1 }] =
    .ok { docs := [("a", .int 1)], known := [("a", [])] } := by
  rw [runMerges_cons]
  have : mergeDocument PState.empty { id := "a", parents := [], data := .int 1 } =
      .ok { docs := [("a", .int 1)], known := [("a", [])] } := rfl
  rw [this]; rfl

example :
    let h : List Op := [.merge { id := "a", parents := [], data := .int 1 }, .outputDocuments []]
    h.filter Op.isMerge = [Doc.mk "a" [] (.int 1)].map Op.merge := rfl

end Bkl
