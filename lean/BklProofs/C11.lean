/-
  C11 — `$output` selects exactly the marked subtrees and hides exactly the excluded ones.
  Model: `findOutputs`, `filterOutput`, `emit` (Bkl/Output.lean).
  Specification functions are defined here, independently of the model.  Theorems about `Val`
  come with `_list` / `_fields` companions (mutual structural proofs over the nested inductive).
-/
import Bkl
import BklProofs.Lemmas.Output
import BklProofs.Lemmas.OutputSel
import BklProofs.Lemmas.C11Spec
import BklProofs.C07
namespace Bkl

/-! ## Specification functions -/

mutual
/-- some map in `v` carries `$output: true`, or some list has a `{$output: true}` entry -/
def hasOutTrue : Val → Bool
  | .map kvs => fhasBool kvs "$output" true || hasOutTrueFields kvs
  | .list xs => hasListMapBool xs "$output" true || hasOutTrueList xs
  | _ => false
def hasOutTrueList : List Val → Bool
  | [] => false
  | x :: xs => hasOutTrue x || hasOutTrueList xs
def hasOutTrueFields : Fields → Bool
  | [] => false
  | (_, v) :: rest => hasOutTrue v || hasOutTrueFields rest
end

mutual
/-- the same for `$output: false` -/
def hasOutFalse : Val → Bool
  | .map kvs => fhasBool kvs "$output" false || hasOutFalseFields kvs
  | .list xs => hasListMapBool xs "$output" false || hasOutFalseList xs
  | _ => false
def hasOutFalseList : List Val → Bool
  | [] => false
  | x :: xs => hasOutFalse x || hasOutFalseList xs
def hasOutFalseFields : Fields → Bool
  | [] => false
  | (_, v) :: rest => hasOutFalse v || hasOutFalseFields rest
end

/-- a list entry that is a `$output: true` marker (consumed by the enclosing list) -/
def isTrueMarker : Val → Bool
  | .map m => fhasBool m "$output" true
  | _ => false

mutual
/-- number of containers carrying the marker: maps with `$output: true`, lists with at least one
    `{$output: true}` entry (the marker entries themselves are consumed, not counted) -/
def countSel : Val → Nat
  | .map kvs => (if fhasBool kvs "$output" true then 1 else 0) + countSelFields kvs
  | .list xs => (if hasListMapBool xs "$output" true then 1 else 0) + countSelList xs
  | _ => 0
def countSelList : List Val → Nat
  | [] => 0
  | x :: xs => (if isTrueMarker x then 0 else countSel x) + countSelList xs
def countSelFields : Fields → Nat
  | [] => 0
  | (_, v) :: rest => countSel v + countSelFields rest
end

/-- a value that `filterOutput` drops -/
def hidden : Val → Bool
  | .map kvs => fhasBool kvs "$output" false
  | .list xs => hasListMapBool xs "$output" false
  | .null => true
  | _ => false

mutual
/-- no `null` anywhere (root, map values, list entries) -/
def noNull : Val → Bool
  | .null => false
  | .map kvs => noNullFields kvs
  | .list xs => noNullList xs
  | _ => true
def noNullList : List Val → Bool
  | [] => true
  | x :: xs => noNull x && noNullList xs
def noNullFields : Fields → Bool
  | [] => true
  | (_, v) :: rest => noNull v && noNullFields rest
end

mutual
/-- some map in `v` has the key `k` -/
def hasKey (k : String) : Val → Bool
  | .map kvs => hasKeyFields k kvs
  | .list xs => hasKeyList k xs
  | _ => false
def hasKeyList (k : String) : List Val → Bool
  | [] => false
  | x :: xs => hasKey k x || hasKeyList k xs
def hasKeyFields (k : String) : Fields → Bool
  | [] => false
  | (k', v) :: rest => k' == k || hasKey k v || hasKeyFields k rest
end

theorem C11_aux_isTrueMarker_eq (x : Val) : isTrueMarker x = o_isMarker "$output" true x := by
  cases x <;> rfl

/-! ## No marker: nothing is selected, the tree is unchanged -/

mutual
theorem C11_no_marker_root_fallback : ∀ (v : Val), hasOutTrue v = false →
    findOutputs v = .ok (v, [])
  | .map kvs, h => by
    simp only [hasOutTrue, Bool.or_eq_false_iff] at h
    simp only [findOutputs, h.1, C11_no_marker_root_fallback_fields kvs h.2]
    rfl
  | .list xs, h => by
    simp only [hasOutTrue, Bool.or_eq_false_iff] at h
    simp only [findOutputs, h.1, C11_no_marker_root_fallback_list xs h.2]
    rfl
  | .null, _ | .bool _, _ | .int _, _ | .flt _, _ | .str _, _ => rfl
theorem C11_no_marker_root_fallback_list : ∀ (xs : List Val), hasOutTrueList xs = false →
    findOutputsList xs false = .ok (xs, [])
  | [], _ => rfl
  | x :: xs, h => by
    simp only [hasOutTrueList, Bool.or_eq_false_iff] at h
    rw [findOutputsList_cons_eq]
    simp only [Bool.false_and, Bool.false_eq_true, if_false, C11_no_marker_root_fallback x h.1,
      C11_no_marker_root_fallback_list xs h.2]
    rfl
theorem C11_no_marker_root_fallback_fields : ∀ (kvs : Fields), hasOutTrueFields kvs = false →
    findOutputsFields kvs false = .ok (kvs, [])
  | [], _ => rfl
  | (k, v) :: rest, h => by
    simp only [hasOutTrueFields, Bool.or_eq_false_iff] at h
    simp only [findOutputsFields, Bool.false_and, Bool.false_eq_true, if_false,
      C11_no_marker_root_fallback v h.1, C11_no_marker_root_fallback_fields rest h.2]
    rfl
end

example : hasOutTrue (.map [("a", .list [.int 1, .map [("$output", .bool false)]])]) = false := by
  decide

/-- consequently the first loop of `emit` (see `emit_eq`) passes the document root on -/
theorem C11_no_marker_emit_root (d : Val) (h : hasOutTrue d = false) :
    emitSelect [d] = .ok [d] := by
  simp only [emitSelect, C11_no_marker_root_fallback d h]
  rfl

/-! ## The number of selected subtrees -/

/-- Without well-formedness (sorted, hence duplicate-free keys) the count is wrong: a second
    `$output` entry is skipped together with the marker, so markers below it are never seen. -/
example : ∃ v v' outs, findOutputs v = .ok (v', outs) ∧ outs.length ≠ countSel v :=
  ⟨.map [("$output", .bool true), ("$output", .map [("$output", .bool true)])], .map [], [.map []],
    by decide, by decide⟩

mutual
/-- `_partial`: needs `Val.WF` (see the counterexample above) -/
theorem C11_selected_count_partial : ∀ (v v' : Val) (outs : List Val), v.wfB = true →
    findOutputs v = .ok (v', outs) → outs.length = countSel v
  | .map kvs, v', outs, hw, h => by
    obtain ⟨ret, o, hf, rfl, rfl⟩ := findOutputs_map_ok h
    simp only [Val.wfB, Bool.and_eq_true] at hw
    have ih := C11_selected_count_fields kvs (fhasBool kvs "$output" true) ret o hw.2
      (fun hs => o_fhasBool_sorted_mem kvs _ _ hw.1 hs) hf
    simp only [countSel]
    split
    · simp only [List.length_cons, ih]; omega
    · simp only [ih]; omega
  | .list xs, v', outs, hw, h => by
    obtain ⟨ret, o, hf, rfl, rfl⟩ := findOutputs_list_ok h
    simp only [Val.wfB] at hw
    have ih := C11_selected_count_list xs (hasListMapBool xs "$output" true) ret o hw id hf
    simp only [countSel]
    split
    · simp only [List.length_append, List.length_cons, List.length_nil, ih]; omega
    · simp only [ih]; omega
  | .null, v', outs, _, h | .bool _, v', outs, _, h | .int _, v', outs, _, h
  | .flt _, v', outs, _, h | .str _, v', outs, _, h => by
    obtain ⟨_, rfl⟩ := findOutputs_scalar_ok rfl rfl h; rfl
theorem C11_selected_count_list : ∀ (xs : List Val) (skip : Bool) (r outs : List Val),
    Val.wfListB xs = true → (hasListMapBool xs "$output" true = true → skip = true) →
    findOutputsList xs skip = .ok (r, outs) → outs.length = countSelList xs
  | [], skip, r, outs, _, _, h => by obtain ⟨_, rfl⟩ := findOutputsList_nil_ok h; rfl
  | x :: xs, skip, r, outs, hw, hinv, h => by
    simp only [Val.wfListB, Bool.and_eq_true] at hw
    rw [o_hasListMapBool_cons] at hinv
    have hinv' : hasListMapBool xs "$output" true = true → skip = true :=
      fun hx => hinv (by simp [hx])
    rcases findOutputsList_cons_ok h with
      ⟨_, ⟨m, rfl, hb, _⟩, h'⟩ | ⟨hc, x', o1, xs', o2, h1, h2, _, rfl⟩
    · have ih := C11_selected_count_list xs skip r outs hw.2 hinv' h'
      simp only [countSelList, isTrueMarker, hb, if_true]; omega
    · have hm : isTrueMarker x = false := by
        cases hx : isTrueMarker x with
        | false => rfl
        | true =>
          rw [C11_aux_isTrueMarker_eq] at hx
          exact absurd ⟨hinv (by simp [hx]), hx⟩ hc
      have ih1 := C11_selected_count_partial x x' o1 hw.1 h1
      have ih2 := C11_selected_count_list xs skip xs' o2 hw.2 hinv' h2
      simp only [countSelList, hm, List.length_append]; simp only [Bool.false_eq_true, if_false]; omega
theorem C11_selected_count_fields : ∀ (kvs : Fields) (skip : Bool) (r : Fields) (outs : List Val),
    Val.wfFieldsB kvs = true →
    (skip = true → ∀ kv ∈ kvs, kv.1 = "$output" → kv.2 = .bool true) →
    findOutputsFields kvs skip = .ok (r, outs) → outs.length = countSelFields kvs
  | [], skip, r, outs, _, _, h => by obtain ⟨_, rfl⟩ := findOutputsFields_nil_ok h; rfl
  | (k, v) :: rest, skip, r, outs, hw, hinv, h => by
    simp only [Val.wfFieldsB, Bool.and_eq_true] at hw
    have hinv' : skip = true → ∀ kv ∈ rest, kv.1 = "$output" → kv.2 = .bool true :=
      fun hs kv hm => hinv hs kv (List.mem_cons_of_mem _ hm)
    rcases findOutputsFields_cons_ok h with ⟨hs, hk, h'⟩ | ⟨_, v', o1, rest', o2, h1, h2, _, rfl⟩
    · have hv : v = .bool true := hinv hs (k, v) List.mem_cons_self hk
      have ih := C11_selected_count_fields rest skip r outs hw.2 hinv' h'
      simp only [countSelFields, hv, countSel]; omega
    · have ih1 := C11_selected_count_partial v v' o1 hw.1 h1
      have ih2 := C11_selected_count_fields rest skip rest' o2 hw.2 hinv' h2
      simp only [countSelFields, List.length_append]; omega
end

example :
    let v := Val.map [("$output", .bool true), ("a", .list [.map [("$output", .bool true)], .int 1]),
                      ("b", .map [("$output", .bool true), ("c", .int 2)])]
    v.wfB = true ∧ findOutputs v =
      .ok (.map [("a", .list [.int 1]), ("b", .map [("c", .int 2)])],
           [.map [("a", .list [.int 1]), ("b", .map [("c", .int 2)])], .list [.int 1],
            .map [("c", .int 2)]]) ∧ countSel v = 3 := by
  decide

/-! ## No `$output: true` marker survives selection -/

/-- auxiliary: a list whose entries contain no marker has no marker entry -/
theorem C11_aux_hasOutTrueList (xs : List Val) (h : hasOutTrueList xs = false) :
    hasListMapBool xs "$output" true = false := by
  induction xs with
  | nil => rfl
  | cons x xs ih =>
    simp only [hasOutTrueList, Bool.or_eq_false_iff] at h
    rw [o_hasListMapBool_cons, ih h.2, Bool.or_false]
    cases x with
    | map m =>
      have := h.1; simp only [hasOutTrue, Bool.or_eq_false_iff] at this
      exact this.1
    | _ => rfl

mutual
theorem C11_markers_stripped : ∀ (v v' : Val) (outs : List Val),
    findOutputs v = .ok (v', outs) →
    hasOutTrue v' = false ∧ ∀ o ∈ outs, hasOutTrue o = false
  | .map kvs, v', outs, h => by
    obtain ⟨ret, o, hf, rfl, rfl⟩ := findOutputs_map_ok h
    obtain ⟨ih1, ih2⟩ := C11_markers_stripped_fields kvs _ ret o hf
    have hself : hasOutTrue (.map ret) = false := by
      simp only [hasOutTrue, ih1, Bool.or_false]
      cases hs : fhasBool kvs "$output" true with
      | true =>
        rw [hs] at hf; unfold fhasBool
        rw [o_fget_none_of_no_key ret _ (o_findOutputsFields_skip_no_key kvs ret o hf)]
      | false =>
        rw [hs] at hf; rw [o_findOutputsFields_noskip_fhasBool true kvs ret o hf, hs]
    refine ⟨hself, ?_⟩
    intro x hx
    split at hx
    · rcases List.mem_cons.1 hx with rfl | hx'
      · exact hself
      · exact ih2 x hx'
    · exact ih2 x hx
  | .list xs, v', outs, h => by
    obtain ⟨ret, o, hf, rfl, rfl⟩ := findOutputs_list_ok h
    obtain ⟨ih1, ih2⟩ := C11_markers_stripped_list xs _ ret o hf
    have hself : hasOutTrue (.list ret) = false := by
      simp only [hasOutTrue, ih1, C11_aux_hasOutTrueList ret ih1, Bool.or_false]
    refine ⟨hself, ?_⟩
    intro x hx
    split at hx
    · rcases List.mem_append.1 hx with hx' | hx'
      · exact ih2 x hx'
      · rw [List.mem_singleton.1 hx']; exact hself
    · exact ih2 x hx
  | .null, v', outs, h | .bool _, v', outs, h | .int _, v', outs, h
  | .flt _, v', outs, h | .str _, v', outs, h => by
    obtain ⟨rfl, rfl⟩ := findOutputs_scalar_ok rfl rfl h
    exact ⟨rfl, fun _ hm => nomatch hm⟩
theorem C11_markers_stripped_list : ∀ (xs : List Val) (skip : Bool) (r outs : List Val),
    findOutputsList xs skip = .ok (r, outs) →
    hasOutTrueList r = false ∧ ∀ o ∈ outs, hasOutTrue o = false
  | [], skip, r, outs, h => by
    obtain ⟨rfl, rfl⟩ := findOutputsList_nil_ok h
    exact ⟨rfl, fun _ hm => nomatch hm⟩
  | x :: xs, skip, r, outs, h => by
    rcases findOutputsList_cons_ok h with ⟨_, _, h'⟩ | ⟨_, x', o1, xs', o2, h1, h2, rfl, rfl⟩
    · exact C11_markers_stripped_list xs skip r outs h'
    · obtain ⟨a1, a2⟩ := C11_markers_stripped x x' o1 h1
      obtain ⟨b1, b2⟩ := C11_markers_stripped_list xs skip xs' o2 h2
      refine ⟨by simp only [hasOutTrueList, a1, b1, Bool.or_false], ?_⟩
      intro y hy
      rcases List.mem_append.1 hy with hy' | hy'
      · exact a2 y hy'
      · exact b2 y hy'
theorem C11_markers_stripped_fields : ∀ (kvs : Fields) (skip : Bool) (r : Fields)
    (outs : List Val), findOutputsFields kvs skip = .ok (r, outs) →
    hasOutTrueFields r = false ∧ ∀ o ∈ outs, hasOutTrue o = false
  | [], skip, r, outs, h => by
    obtain ⟨rfl, rfl⟩ := findOutputsFields_nil_ok h
    exact ⟨rfl, fun _ hm => nomatch hm⟩
  | (k, v) :: rest, skip, r, outs, h => by
    rcases findOutputsFields_cons_ok h with ⟨_, _, h'⟩ | ⟨_, v', o1, rest', o2, h1, h2, rfl, rfl⟩
    · exact C11_markers_stripped_fields rest skip r outs h'
    · obtain ⟨a1, a2⟩ := C11_markers_stripped v v' o1 h1
      obtain ⟨b1, b2⟩ := C11_markers_stripped_fields rest skip rest' o2 h2
      refine ⟨by simp only [hasOutTrueFields, a1, b1, Bool.or_false], ?_⟩
      intro y hy
      rcases List.mem_append.1 hy with hy' | hy'
      · exact a2 y hy'
      · exact b2 y hy'
end

example : findOutputs (.map [("a", .list [.map [("$output", .bool true)], .int 1]),
                           ("b", .map [("$output", .bool true), ("c", .int 2)])]) =
    .ok (.map [("a", .list [.int 1]), ("b", .map [("c", .int 2)])],
         [.list [.int 1], .map [("c", .int 2)]]) := by decide

/-! ## Order of the selected subtrees -/

/-- a marked map is itself the first selected document -/
theorem C11_map_self_first (kvs : Fields) (v' : Val) (outs : List Val)
    (hm : fhasBool kvs "$output" true = true) (h : findOutputs (.map kvs) = .ok (v', outs)) :
    outs.head? = some v' := by
  obtain ⟨ret, o, _, rfl, rfl⟩ := findOutputs_map_ok h
  simp [hm]

/-- a marked list is itself the last selected document -/
theorem C11_list_self_last (xs : List Val) (v' : Val) (outs : List Val)
    (hm : hasListMapBool xs "$output" true = true) (h : findOutputs (.list xs) = .ok (v', outs)) :
    outs.getLast? = some v' := by
  obtain ⟨ret, o, _, rfl, rfl⟩ := findOutputs_list_ok h
  simp [hm]

example : findOutputs (.map [("$output", .bool true), ("a", .map [("$output", .bool true)])]) =
    .ok (.map [("a", .map [])], [.map [("a", .map [])], .map []]) := by decide
example : findOutputs (.list [.map [("$output", .bool true)], .list [.map [("$output", .bool true)]]])
    = .ok (.list [.list []], [.list [], .list [.list []]]) := by decide

/-! ## Hiding: `filterOutput` drops exactly the hidden values -/

/-- when `filterOutput` succeeds, it returns nothing iff the value is hidden -/
theorem C11_hide_spec (v : Val) (r : Option Val) (h : filterOutput v = .ok r) :
    r = none ↔ hidden v = true := by
  cases v with
  | map kvs =>
    rcases filterOutput_map_ok h with ⟨hb, rfl⟩ | ⟨hb, fs, _, rfl⟩ <;> simp [hidden, hb]
  | list xs =>
    rcases filterOutput_list_ok h with ⟨hb, rfl⟩ | ⟨hb, rs, _, rfl⟩ <;> simp [hidden, hb]
  | null => rw [filterOutput_scalar_ok rfl rfl h]; simp [hidden, Val.isNull]
  | bool _ | int _ | flt _ | str _ =>
    rw [filterOutput_scalar_ok rfl rfl h]; simp [hidden, Val.isNull]

example : filterOutput (.list [.int 1, .map [("$output", .bool false)]]) = .ok none := by decide
example : filterOutput (.map [("$output", .bool true)]) = .ok (some (.map [("$output", .bool true)])) := by
  decide

/-- a hidden value is dropped or (list marker entry with extra keys) rejected, never kept -/
theorem C11_hidden_not_kept (v r : Val) (hh : hidden v = true) : filterOutput v ≠ .ok (some r) := by
  intro h
  have := (C11_hide_spec v _ h).2 hh
  cases this

/-- the entries of a visible map: exactly the entries whose value is kept, in order, each with
    its filtered value; and every child was filtered successfully -/
theorem C11_hide_spec_map (kvs r : Fields) (h : filterOutput (.map kvs) = .ok (some (.map r))) :
    hidden (.map kvs) = false ∧
    (∀ kv ∈ kvs, ∃ o, filterOutput kv.2 = .ok o) ∧
    r = kvs.filterMap fun kv =>
      match filterOutput kv.2 with
      | .ok (some v'') => some (kv.1, v'')
      | _ => none := by
  rcases filterOutput_map_ok h with ⟨_, h'⟩ | ⟨hb, fs, hf, h'⟩
  · cases h'
  · cases h'
    exact ⟨hb, o_filterOutputFields_spec kvs r hf⟩

/-- the same for lists -/
theorem C11_hide_spec_list (xs r : List Val) (h : filterOutput (.list xs) = .ok (some (.list r))) :
    hidden (.list xs) = false ∧
    (∀ x ∈ xs, ∃ o, filterOutput x = .ok o) ∧
    r = xs.filterMap fun x =>
      match filterOutput x with
      | .ok (some x'') => some x''
      | _ => none := by
  rcases filterOutput_list_ok h with ⟨_, h'⟩ | ⟨hb, rs, hf, h'⟩
  · cases h'
  · cases h'
    exact ⟨hb, o_filterOutputList_spec xs r hf⟩

example : filterOutput (.map [("a", .null), ("b", .map [("$output", .bool false)]), ("c", .int 1)])
    = .ok (some (.map [("c", .int 1)])) := by decide
example : filterOutput (.list [.null, .list [.map [("$output", .bool false)]], .int 1])
    = .ok (some (.list [.int 1])) := by decide

/-! ## Nothing hidden survives -/

/-- Without well-formedness a shadowed second `$output` key can surface after the first one
    has been dropped. -/
example : ∃ v r, filterOutput v = .ok (some r) ∧ hasOutFalse r = true :=
  ⟨.map [("$output", .null), ("$output", .bool false)], .map [("$output", .bool false)],
    by decide, by decide⟩

/-- auxiliary: a list whose entries contain no `$output: false` has no such marker entry -/
theorem C11_aux_hasOutFalseList (xs : List Val) (h : hasOutFalseList xs = false) :
    hasListMapBool xs "$output" false = false := by
  induction xs with
  | nil => rfl
  | cons x xs ih =>
    simp only [hasOutFalseList, Bool.or_eq_false_iff] at h
    rw [o_hasListMapBool_cons, ih h.2, Bool.or_false]
    cases x with
    | map m =>
      have := h.1; simp only [hasOutFalse, Bool.or_eq_false_iff] at this
      exact this.1
    | _ => rfl

mutual
/-- `_partial`: needs `Val.WF` (see the counterexample above) -/
theorem C11_hidden_absent_partial : ∀ (v r : Val), v.wfB = true →
    filterOutput v = .ok (some r) → hasOutFalse r = false ∧ noNull r = true
  | .map kvs, r, hw, h => by
    simp only [Val.wfB, Bool.and_eq_true] at hw
    rcases filterOutput_map_ok h with ⟨_, h'⟩ | ⟨hb, fs, hf, h'⟩
    · cases h'
    · cases h'
      obtain ⟨ih1, ih2⟩ := C11_hidden_absent_fields kvs fs hw.2 hf
      exact ⟨by simp only [hasOutFalse, ih1, o_filterOutputFields_fhasBool kvs fs false hw.1 hf hb,
        Bool.or_false], by simpa only [noNull] using ih2⟩
  | .list xs, r, hw, h => by
    simp only [Val.wfB] at hw
    rcases filterOutput_list_ok h with ⟨_, h'⟩ | ⟨hb, rs, hf, h'⟩
    · cases h'
    · cases h'
      obtain ⟨ih1, ih2⟩ := C11_hidden_absent_list xs rs hw hf
      exact ⟨by simp only [hasOutFalse, ih1, C11_aux_hasOutFalseList rs ih1, Bool.or_false],
        by simpa only [noNull] using ih2⟩
  | .null, r, _, h => by cases filterOutput_scalar_ok rfl rfl h
  | .bool _, r, _, h | .int _, r, _, h | .flt _, r, _, h | .str _, r, _, h => by
    have := filterOutput_scalar_ok rfl rfl h
    simp only [Val.isNull, Bool.false_eq_true, if_false, Option.some.injEq] at this
    subst this; exact ⟨rfl, rfl⟩
theorem C11_hidden_absent_list : ∀ (xs rs : List Val), Val.wfListB xs = true →
    filterOutputList xs = .ok rs → hasOutFalseList rs = false ∧ noNullList rs = true
  | [], rs, _, h => by rw [filterOutputList_nil_ok h]; exact ⟨rfl, rfl⟩
  | x :: xs, rs, hw, h => by
    simp only [Val.wfListB, Bool.and_eq_true] at hw
    obtain ⟨o, rs', h1, h2, rfl⟩ := filterOutputList_cons_ok h
    obtain ⟨b1, b2⟩ := C11_hidden_absent_list xs rs' hw.2 h2
    cases o with
    | none => exact ⟨b1, b2⟩
    | some x' =>
      obtain ⟨a1, a2⟩ := C11_hidden_absent_partial x x' hw.1 h1
      exact ⟨by simp only [hasOutFalseList, a1, b1, Bool.or_false],
        by simp only [noNullList, a2, b2, Bool.and_true]⟩
theorem C11_hidden_absent_fields : ∀ (kvs fs : Fields), Val.wfFieldsB kvs = true →
    filterOutputFields kvs = .ok fs → hasOutFalseFields fs = false ∧ noNullFields fs = true
  | [], fs, _, h => by rw [filterOutputFields_nil_ok h]; exact ⟨rfl, rfl⟩
  | (k, v) :: rest, fs, hw, h => by
    simp only [Val.wfFieldsB, Bool.and_eq_true] at hw
    obtain ⟨o, fs', h1, h2, rfl⟩ := filterOutputFields_cons_ok h
    obtain ⟨b1, b2⟩ := C11_hidden_absent_fields rest fs' hw.2 h2
    cases o with
    | none => exact ⟨b1, b2⟩
    | some v' =>
      obtain ⟨a1, a2⟩ := C11_hidden_absent_partial v v' hw.1 h1
      exact ⟨by simp only [hasOutFalseFields, a1, b1, Bool.or_false],
        by simp only [noNullFields, a2, b2, Bool.and_true]⟩
end

example :
    let v := Val.map [("a", .null), ("b", .map [("$output", .bool false), ("x", .int 1)]),
                      ("c", .list [.int 1, .null, .list [.map [("$output", .bool false)]]])]
    v.wfB = true ∧ filterOutput v = .ok (some (.map [("c", .list [.int 1])])) := by decide

mutual
/-- `noNull` holds without well-formedness -/
theorem C11_no_null : ∀ (v r : Val), filterOutput v = .ok (some r) → noNull r = true
  | .map kvs, r, h => by
    rcases filterOutput_map_ok h with ⟨_, h'⟩ | ⟨_, fs, hf, h'⟩
    · cases h'
    · cases h'; simpa only [noNull] using C11_no_null_fields kvs fs hf
  | .list xs, r, h => by
    rcases filterOutput_list_ok h with ⟨_, h'⟩ | ⟨_, rs, hf, h'⟩
    · cases h'
    · cases h'; simpa only [noNull] using C11_no_null_list xs rs hf
  | .null, r, h => by cases filterOutput_scalar_ok rfl rfl h
  | .bool _, r, h | .int _, r, h | .flt _, r, h | .str _, r, h => by
    have := filterOutput_scalar_ok rfl rfl h
    simp only [Val.isNull, Bool.false_eq_true, if_false, Option.some.injEq] at this
    subst this; rfl
theorem C11_no_null_list : ∀ (xs rs : List Val), filterOutputList xs = .ok rs →
    noNullList rs = true
  | [], rs, h => by rw [filterOutputList_nil_ok h]; rfl
  | x :: xs, rs, h => by
    obtain ⟨o, rs', h1, h2, rfl⟩ := filterOutputList_cons_ok h
    have b := C11_no_null_list xs rs' h2
    cases o with
    | none => exact b
    | some x' => simp only [noNullList, C11_no_null x x' h1, b, Bool.and_true]
theorem C11_no_null_fields : ∀ (kvs fs : Fields), filterOutputFields kvs = .ok fs →
    noNullFields fs = true
  | [], fs, h => by rw [filterOutputFields_nil_ok h]; rfl
  | (k, v) :: rest, fs, h => by
    obtain ⟨o, fs', h1, h2, rfl⟩ := filterOutputFields_cons_ok h
    have b := C11_no_null_fields rest fs' h2
    cases o with
    | none => exact b
    | some v' => simp only [noNullFields, C11_no_null v v' h1, b, Bool.and_true]
end

/-! ## A marker entry with extra keys is an error -/

theorem C11_marker_extra_keys_error (m : Fields) (hb : fhasBool m "$output" true = true)
    (hl : (fdel m "$output").length > 0) :
    findOutputs (.list [.map m]) = .error .extraKeys := by
  have hs : hasListMapBool [.map m] "$output" true = true := by
    simp [hasListMapBool, hb]
  simp only [findOutputs, hs, findOutputsList, hb, Bool.and_self, if_true, hl]
  rfl

/-- anywhere in a list, such an entry makes `findOutputs` fail (possibly with an earlier error) -/
theorem C11_marker_extra_keys_error_mem (xs : List Val) (m : Fields) (hm : .map m ∈ xs)
    (hb : fhasBool m "$output" true = true) (hl : (fdel m "$output").length > 0) :
    ∃ e, findOutputs (.list xs) = .error e := by
  cases h : findOutputs (.list xs) with
  | error e => exact ⟨e, rfl⟩
  | ok p =>
    obtain ⟨v', outs⟩ := p
    obtain ⟨ret, o, hf, _, _⟩ := findOutputs_list_ok h
    have hs : hasListMapBool xs "$output" true = true := by
      simp only [hasListMapBool, List.any_eq_true]
      exact ⟨.map m, hm, hb⟩
    rw [hs] at hf
    have := o_findOutputsList_marker_clean xs ret o hf m hm hb
    omega

example : fhasBool [("$output", .bool true), ("x", .int 1)] "$output" true = true ∧
    (fdel [("$output", .bool true), ("x", .int 1)] "$output").length > 0 := by decide

/-! ## No `$output` key reaches the finalisation step of `emit` -/

mutual
/-- a validated tree has no map key that `validateString` rejects -/
theorem C11_validate_no_bad_key (k : String) (hk : validateString k ≠ .ok ()) :
    ∀ (v : Val), validate v = .ok () → hasKey k v = false
  | .map kvs, h => by
    simp only [validate] at h; simp only [hasKey]
    exact C11_validate_no_bad_key_fields k hk kvs h
  | .list xs, h => by
    simp only [validate] at h; simp only [hasKey]
    exact C11_validate_no_bad_key_list k hk xs h
  | .null, _ | .bool _, _ | .int _, _ | .flt _, _ | .str _, _ => rfl
theorem C11_validate_no_bad_key_list (k : String) (hk : validateString k ≠ .ok ()) :
    ∀ (xs : List Val), validateList xs = .ok () → hasKeyList k xs = false
  | [], _ => rfl
  | x :: xs, h => by
    simp only [validateList, o_seq_ok] at h
    simp only [hasKeyList, C11_validate_no_bad_key k hk x h.1,
      C11_validate_no_bad_key_list k hk xs h.2, Bool.or_false]
theorem C11_validate_no_bad_key_fields (k : String) (hk : validateString k ≠ .ok ()) :
    ∀ (kvs : Fields), validateFields kvs = .ok () → hasKeyFields k kvs = false
  | [], _ => rfl
  | (k', v) :: rest, h => by
    simp only [validateFields, o_seq_ok] at h
    have hne : (k' == k) = false := by
      rw [beq_eq_false_iff_ne]; intro e; subst e; exact hk h.1
    simp only [hasKeyFields, hne, C11_validate_no_bad_key k hk v h.2.1,
      C11_validate_no_bad_key_fields k hk rest h.2.2, Bool.or_false]
end

example : validateString "$output" ≠ .ok () ∧
    validate (.map [("a", .list [.map [("$$output", .bool true)]])]) = .ok () := by decide

/-- auxiliary: a present key is found by `hasKeyFields` -/
theorem C11_aux_hasKeyFields_of_fget (kvs : Fields) (k : String) (x : Val)
    (h : fget kvs k = some x) : hasKeyFields k kvs = true := by
  induction kvs with
  | nil => cases h
  | cons kv rest ih =>
    obtain ⟨k', v⟩ := kv
    simp only [fget] at h
    simp only [hasKeyFields, Bool.or_eq_true, beq_iff_eq]
    split at h
    · rename_i hk; exact Or.inl (Or.inl hk)
    · exact Or.inr (ih h)

/-- auxiliary: no key `k` ⇒ no `k: b` marker -/
theorem C11_aux_fhasBool_of_no_key (kvs : Fields) (k : String) (b : Bool)
    (h : hasKeyFields k kvs = false) : fhasBool kvs k b = false := by
  unfold fhasBool
  cases hg : fget kvs k with
  | none => rfl
  | some x => rw [C11_aux_hasKeyFields_of_fget kvs k x hg] at h; cases h

mutual
/-- a tree without any `$output` key has no `$output` marker of either polarity -/
theorem C11_no_key_no_marker : ∀ (v : Val), hasKey "$output" v = false →
    hasOutTrue v = false ∧ hasOutFalse v = false
  | .map kvs, h => by
    simp only [hasKey] at h
    obtain ⟨a, b⟩ := C11_no_key_no_marker_fields kvs h
    simp only [hasOutTrue, hasOutFalse, a, b, C11_aux_fhasBool_of_no_key kvs _ _ h, Bool.or_false,
      and_self]
  | .list xs, h => by
    simp only [hasKey] at h
    obtain ⟨a, b⟩ := C11_no_key_no_marker_list xs h
    simp only [hasOutTrue, hasOutFalse, a, b, C11_aux_hasOutTrueList xs a,
      C11_aux_hasOutFalseList xs b, Bool.or_false, and_self]
  | .null, _ | .bool _, _ | .int _, _ | .flt _, _ | .str _, _ => ⟨rfl, rfl⟩
theorem C11_no_key_no_marker_list : ∀ (xs : List Val), hasKeyList "$output" xs = false →
    hasOutTrueList xs = false ∧ hasOutFalseList xs = false
  | [], _ => ⟨rfl, rfl⟩
  | x :: xs, h => by
    simp only [hasKeyList, Bool.or_eq_false_iff] at h
    obtain ⟨a1, a2⟩ := C11_no_key_no_marker x h.1
    obtain ⟨b1, b2⟩ := C11_no_key_no_marker_list xs h.2
    simp only [hasOutTrueList, hasOutFalseList, a1, a2, b1, b2, Bool.or_false, and_self]
theorem C11_no_key_no_marker_fields : ∀ (kvs : Fields), hasKeyFields "$output" kvs = false →
    hasOutTrueFields kvs = false ∧ hasOutFalseFields kvs = false
  | [], _ => ⟨rfl, rfl⟩
  | (k, v) :: rest, h => by
    simp only [hasKeyFields, Bool.or_eq_false_iff] at h
    obtain ⟨a1, a2⟩ := C11_no_key_no_marker v h.1.2
    obtain ⟨b1, b2⟩ := C11_no_key_no_marker_fields rest h.2
    simp only [hasOutTrueFields, hasOutFalseFields, a1, a2, b1, b2, Bool.or_false, and_self]
end

example : hasKey "$output" (.map [("a", .list [.map [("b", .bool true)]])]) = false := by decide

/-- Every document `emit` returns is `finalize v2` of a validated tree `v2` that contains no
    `$output` key at all (hence no marker of either polarity) and no `null`.  (Nothing is claimed
    about `finalize v2` itself: `finalize` turns a key "$$output" into "$output".) -/
theorem C11_emit_no_markers (ds outs : List Val) (h : emit ds = .ok outs) :
    ∀ o ∈ outs, ∃ v2, o = finalize v2 ∧ validate v2 = .ok () ∧ hasKey "$output" v2 = false ∧
      hasOutTrue v2 = false ∧ hasOutFalse v2 = false ∧ noNull v2 = true := by
  intro o ho
  rw [emit_eq] at h
  cases hs : emitSelect ds with
  | error e => rw [hs] at h; cases h
  | ok vs =>
    rw [hs] at h
    obtain ⟨v, _, v2, hf, hv, rfl⟩ := emitFinish_mem vs outs h o ho
    have hk := C11_validate_no_bad_key "$output" (by decide) v2 hv
    obtain ⟨a, b⟩ := C11_no_key_no_marker v2 hk
    exact ⟨v2, rfl, hv, hk, a, b, C11_no_null v v2 hf⟩

/-- provenance of every emitted document: selected (or root) subtree, then hidden parts removed,
    validated, finalised -/
theorem C11_emit_provenance (ds outs : List Val) (h : emit ds = .ok outs) :
    ∀ o ∈ outs, ∃ d ∈ ds, ∃ obj sel v v2, findOutputs d = .ok (obj, sel) ∧
      ((sel = [] ∧ v = obj) ∨ v ∈ sel) ∧ hasOutTrue v = false ∧
      filterOutput v = .ok (some v2) ∧ hidden v = false ∧ validate v2 = .ok () ∧
      o = finalize v2 := by
  intro o ho
  rw [emit_eq] at h
  cases hs : emitSelect ds with
  | error e => rw [hs] at h; cases h
  | ok vs =>
    rw [hs] at h
    obtain ⟨v, hv, v2, hf, hval, rfl⟩ := emitFinish_mem vs outs h o ho
    obtain ⟨d, hd, obj, sel, hfo, hsel⟩ := emitSelect_mem ds vs hs v hv
    obtain ⟨m1, m2⟩ := C11_markers_stripped d obj sel hfo
    have hclean : hasOutTrue v = false := by
      rcases hsel with ⟨_, rfl⟩ | hm
      · exact m1
      · exact m2 v hm
    have hh : hidden v = false := by
      cases hh : hidden v with
      | false => rfl
      | true => exact absurd hf (C11_hidden_not_kept v v2 hh)
    exact ⟨d, hd, obj, sel, v, v2, hfo, hsel, hclean, hf, hh, hval, rfl⟩

example : emit [.map [("a", .map [("$output", .bool true), ("x", .int 1), ("y", .null)]),
                      ("b", .list [.map [("$output", .bool true)], .str "$$z",
                                   .map [("k", .map [("$output", .bool false), ("h", .int 2)])]])]] =
    .ok [.map [("x", .int 1)], .list [.str "$z", .map []]] := by decide

/-! # Specification of selection against independent definitions

  Paths are lists of `PathElem` (`.key k` = map key, `.idx i` = list index), always relative to
  the ORIGINAL document (before any marker is removed). -/

/-- the subtree at a path; `none` if the path does not exist -/
def subtreeAt : Val → List PathElem → Option Val
  | v, [] => some v
  | .map kvs, .key k :: p =>
    match fget kvs k with
    | some c => subtreeAt c p
    | none => none
  | .list xs, .idx i :: p =>
    match xs[i]? with
    | some c => subtreeAt c p
    | none => none
  | _, _ :: _ => none

/-- a container that carries the selection marker: a map with `$output: true`, a list with a
    `{$output: true}` entry -/
def carriesTrue : Val → Bool
  | .map kvs => fhasBool kvs "$output" true
  | .list xs => hasListMapBool xs "$output" true
  | _ => false

mutual
/-- Paths of the selected containers, in output order.  A map: itself first (if marked), then
    its children in key order.  A list: its children in index order, then itself (if marked).
    The `{$output: true}` entries of a list ARE the list's marker: they are not visited. -/
def selectedPaths : Val → List (List PathElem)
  | .map kvs => (if fhasBool kvs "$output" true then [[]] else []) ++ selectedPathsFields kvs
  | .list xs => selectedPathsList xs 0 ++ (if hasListMapBool xs "$output" true then [[]] else [])
  | _ => []
/-- entries of a list, the head having index `i` -/
def selectedPathsList : List Val → Nat → List (List PathElem)
  | [], _ => []
  | x :: xs, i =>
    (if isTrueMarker x then [] else (selectedPaths x).map (PathElem.idx i :: ·)) ++
      selectedPathsList xs (i + 1)
def selectedPathsFields : Fields → List (List PathElem)
  | [] => []
  | (k, v) :: rest => (selectedPaths v).map (PathElem.key k :: ·) ++ selectedPathsFields rest
end

mutual
/-- The value with every selection marker removed: the key `$output` of every map carrying
    `$output: true`, and every `{$output: true}` entry of a list.  Nothing else changes; in
    particular a selected subtree STAYS in its parent (stripped). -/
def stripOut : Val → Val
  | .map kvs =>
    .map (if fhasBool kvs "$output" true then fdel (stripOutFields kvs) "$output"
          else stripOutFields kvs)
  | .list xs => .list (stripOutList xs)
  | v => v
def stripOutList : List Val → List Val
  | [] => []
  | x :: xs => if isTrueMarker x then stripOutList xs else stripOut x :: stripOutList xs
def stripOutFields : Fields → Fields
  | [] => []
  | (k, v) :: rest => (k, stripOut v) :: stripOutFields rest
end

/-- a list entry with `$output: b` AND other keys -/
def isBadMarker (b : Bool) : Val → Bool
  | .map m => fhasBool m "$output" b && decide ((fdel m "$output").length > 0)
  | _ => false

mutual
/-- some list (outside the consumed marker entries) has a marker entry with extra keys: the only
    way `findOutputs` fails -/
def hasBadMarker : Val → Bool
  | .map kvs => hasBadMarkerFields kvs
  | .list xs => hasBadMarkerList xs
  | _ => false
def hasBadMarkerList : List Val → Bool
  | [] => false
  | x :: xs => (if isTrueMarker x then isBadMarker true x else hasBadMarker x) || hasBadMarkerList xs
def hasBadMarkerFields : Fields → Bool
  | [] => false
  | (_, v) :: rest => hasBadMarker v || hasBadMarkerFields rest
end

mutual
/-- the stripped selected subtrees by direct recursion (auxiliary; see `C11_aux_selDocs_paths`) -/
def selDocs : Val → List Val
  | .map kvs => (if fhasBool kvs "$output" true then [stripOut (.map kvs)] else []) ++ selDocsFields kvs
  | .list xs => selDocsList xs ++ (if hasListMapBool xs "$output" true then [stripOut (.list xs)] else [])
  | _ => []
def selDocsList : List Val → List Val
  | [] => []
  | x :: xs => (if isTrueMarker x then [] else selDocs x) ++ selDocsList xs
def selDocsFields : Fields → List Val
  | [] => []
  | (_, v) :: rest => selDocs v ++ selDocsFields rest
end

/-- running example: a marked root map; a marked list (two marker entries) holding a marked map
    one level down; an unmarked map holding a marked map -/
def c11_ex : Val :=
  .map [("$output", .bool true),
        ("a", .list [.map [("$output", .bool true)],
                     .map [("m", .map [("$output", .bool true), ("x", .int 1)])],
                     .map [("$output", .bool true)], .int 2]),
        ("b", .map [("c", .map [("$output", .bool true), ("y", .null)])])]

example : selectedPaths c11_ex =
      [[], [.key "a", .idx 1, .key "m"], [.key "a"], [.key "b", .key "c"]] ∧
    stripOut c11_ex =
      .map [("a", .list [.map [("m", .map [("x", .int 1)])], .int 2]),
            ("b", .map [("c", .map [("y", .null)])])] ∧
    subtreeAt c11_ex [.key "a", .idx 1, .key "m"] = some (.map [("$output", .bool true), ("x", .int 1)]) ∧
    subtreeAt c11_ex [.key "a", .idx 7] = none := by decide

mutual
theorem C11_findOutputs_eq : ∀ (v : Val), v.wfB = true →
    findOutputs v =
      if hasBadMarker v then .error .extraKeys else .ok (stripOut v, selDocs v)
  | .map kvs, hw => by
    simp only [Val.wfB, Bool.and_eq_true] at hw
    rw [os_findOutputs_map_eq, C11_findOutputs_eq_fields kvs _ hw.2
      (fun hs => o_fhasBool_sorted_mem kvs _ _ hw.1 hs)]
    simp only [hasBadMarker]
    by_cases hb : hasBadMarkerFields kvs = true
    · simp only [hb, if_true]
    · simp only [hb]
      cases hs : fhasBool kvs "$output" true <;>
        simp only [Bool.false_eq_true, if_false, if_true, stripOut, selDocs, hs, List.nil_append,
          List.singleton_append]
  | .list xs, hw => by
    simp only [Val.wfB] at hw
    rw [os_findOutputs_list_eq, C11_findOutputs_eq_list xs _ hw id]
    simp only [hasBadMarker]
    by_cases hb : hasBadMarkerList xs = true
    · simp only [hb, if_true]
    · simp only [hb]
      cases hs : hasListMapBool xs "$output" true <;>
        simp only [Bool.false_eq_true, if_false, if_true, stripOut, selDocs, hs, List.append_nil]
  | .null, _ | .bool _, _ | .int _, _ | .flt _, _ | .str _, _ => rfl
theorem C11_findOutputs_eq_list : ∀ (xs : List Val) (skip : Bool), Val.wfListB xs = true →
    (hasListMapBool xs "$output" true = true → skip = true) →
    findOutputsList xs skip =
      if hasBadMarkerList xs then .error .extraKeys else .ok (stripOutList xs, selDocsList xs)
  | [], skip, _, _ => rfl
  | x :: xs, skip, hw, hinv => by
    simp only [Val.wfListB, Bool.and_eq_true] at hw
    rw [o_hasListMapBool_cons] at hinv
    have hinv' : hasListMapBool xs "$output" true = true → skip = true :=
      fun hx => hinv (by simp [hx])
    have ih2 := C11_findOutputs_eq_list xs skip hw.2 hinv'
    cases hm : isTrueMarker x with
    | true =>
      have hs : skip = true := hinv (by rw [← C11_aux_isTrueMarker_eq, hm]; rfl)
      subst hs
      cases x with
      | map m =>
        simp only [isTrueMarker] at hm
        rw [os_findOutputsList_marker_eq m xs hm, ih2]
        simp only [hasBadMarkerList, isTrueMarker, hm, if_true, isBadMarker, Bool.true_and,
          stripOutList, selDocsList, List.nil_append]
        by_cases hl : (fdel m "$output").length > 0
        · simp only [hl, if_true, decide_true, Bool.true_or]
        · simp only [hl, if_false, decide_false, Bool.false_or]
      | _ => cases hm
    | false =>
      have hc : ¬(skip = true ∧ o_isMarker "$output" true x = true) := by
        rw [← C11_aux_isTrueMarker_eq, hm]; exact fun h => nomatch h.2
      rw [os_findOutputsList_step_eq x xs skip hc, C11_findOutputs_eq x hw.1, ih2]
      simp only [hasBadMarkerList, hm, Bool.false_eq_true, if_false, stripOutList, selDocsList]
      by_cases hb1 : hasBadMarker x = true
      · simp only [hb1, if_true, Bool.true_or]
      · by_cases hb2 : hasBadMarkerList xs = true
        · simp only [hb1, hb2, if_true, if_false, Bool.or_true, Bool.false_eq_true]
        · simp only [hb1, hb2, if_false, Bool.or_self, Bool.false_eq_true]
theorem C11_findOutputs_eq_fields : ∀ (kvs : Fields) (skip : Bool), Val.wfFieldsB kvs = true →
    (skip = true → ∀ kv ∈ kvs, kv.1 = "$output" → kv.2 = .bool true) →
    findOutputsFields kvs skip =
      if hasBadMarkerFields kvs then .error .extraKeys
      else .ok (if skip then fdel (stripOutFields kvs) "$output" else stripOutFields kvs,
                selDocsFields kvs)
  | [], skip, _, _ => by cases skip <;> rfl
  | (k, v) :: rest, skip, hw, hinv => by
    simp only [Val.wfFieldsB, Bool.and_eq_true] at hw
    have hinv' : skip = true → ∀ kv ∈ rest, kv.1 = "$output" → kv.2 = .bool true :=
      fun hs kv hm => hinv hs kv (List.mem_cons_of_mem _ hm)
    have ih2 := C11_findOutputs_eq_fields rest skip hw.2 hinv'
    by_cases hc : skip = true ∧ k = "$output"
    · have hv : v = .bool true := hinv hc.1 (k, v) List.mem_cons_self hc.2
      rw [os_findOutputsFields_skip_eq k v rest skip hc, ih2]
      obtain ⟨rfl, rfl⟩ := hc
      subst hv
      simp only [hasBadMarkerFields, hasBadMarker, Bool.false_or, if_true, stripOutFields, fdel,
        selDocsFields, selDocs, List.nil_append]
    · rw [os_findOutputsFields_step_eq k v rest skip hc, C11_findOutputs_eq v hw.1, ih2]
      simp only [hasBadMarkerFields, stripOutFields, selDocsFields]
      by_cases hb1 : hasBadMarker v = true
      · simp only [hb1, if_true, Bool.true_or]
      · by_cases hb2 : hasBadMarkerFields rest = true
        · simp only [hb1, hb2, if_true, if_false, Bool.or_true, Bool.false_eq_true]
        · simp only [hb1, hb2, if_false, Bool.or_self, Bool.false_eq_true]
          cases skip with
          | false => rfl
          | true =>
            have hk : k ≠ "$output" := fun hk => hc ⟨rfl, hk⟩
            simp only [if_true, fdel, hk, if_false]
end

example : c11_ex.wfB = true ∧ hasBadMarker c11_ex = false := by decide
example : hasBadMarker (.list [.map [("$output", .bool true), ("x", .int 1)]]) = true ∧
    findOutputs (.list [.map [("$output", .bool true), ("x", .int 1)]]) = .error .extraKeys := by
  decide

theorem C11_aux_subtreeAt_key (kvs : Fields) (k : String) (c : Val) (p : List PathElem)
    (h : fget kvs k = some c) : subtreeAt (.map kvs) (.key k :: p) = subtreeAt c p := by
  simp only [subtreeAt, h]

theorem C11_aux_subtreeAt_idx (xs : List Val) (i : Nat) (c : Val) (p : List PathElem)
    (h : xs[i]? = some c) : subtreeAt (.list xs) (.idx i :: p) = subtreeAt c p := by
  simp only [subtreeAt, h]

mutual
/-- the direct recursion `selDocs` lists the stripped subtrees at `selectedPaths`, in order -/
theorem C11_aux_selDocs_paths : ∀ (v : Val), v.wfB = true →
    (selectedPaths v).map (fun p => (subtreeAt v p).map stripOut) = (selDocs v).map some
  | .map kvs, hw => by
    simp only [Val.wfB, Bool.and_eq_true] at hw
    have ih := C11_aux_selDocs_paths_fields kvs kvs hw.2
      (fun kv hm => o_fget_of_mem_sorted kvs kv.1 kv.2 hw.1 hm)
    simp only [selectedPaths, selDocs, List.map_append, ih]
    cases fhasBool kvs "$output" true <;> rfl
  | .list xs, hw => by
    simp only [Val.wfB] at hw
    have ih := C11_aux_selDocs_paths_list xs xs 0 hw (fun j => by simp)
    simp only [selectedPaths, selDocs, List.map_append, ih]
    cases hasListMapBool xs "$output" true <;> rfl
  | .null, _ | .bool _, _ | .int _, _ | .flt _, _ | .str _, _ => rfl
theorem C11_aux_selDocs_paths_list : ∀ (all rest : List Val) (i : Nat),
    Val.wfListB rest = true → (∀ j, rest[j]? = all[i + j]?) →
    (selectedPathsList rest i).map (fun p => (subtreeAt (.list all) p).map stripOut) =
      (selDocsList rest).map some
  | _, [], _, _, _ => rfl
  | all, x :: xs, i, hw, hidx => by
    simp only [Val.wfListB, Bool.and_eq_true] at hw
    have hx : all[i]? = some x := by have := hidx 0; simpa using this.symm
    have ih2 := C11_aux_selDocs_paths_list all xs (i + 1) hw.2 (fun j => by
      have := hidx (j + 1)
      rw [List.getElem?_cons_succ] at this
      rw [this]; congr 1; omega)
    simp only [selectedPathsList, selDocsList, List.map_append, ih2]
    congr 1
    cases isTrueMarker x with
    | true => rfl
    | false =>
      simp only [Bool.false_eq_true, if_false, List.map_map]
      rw [← C11_aux_selDocs_paths x hw.1]
      apply List.map_congr_left
      intro p _
      simp only [Function.comp, C11_aux_subtreeAt_idx all i x p hx]
theorem C11_aux_selDocs_paths_fields : ∀ (all rest : Fields),
    Val.wfFieldsB rest = true → (∀ kv ∈ rest, fget all kv.1 = some kv.2) →
    (selectedPathsFields rest).map (fun p => (subtreeAt (.map all) p).map stripOut) =
      (selDocsFields rest).map some
  | _, [], _, _ => rfl
  | all, (k, v) :: rest, hw, hget => by
    simp only [Val.wfFieldsB, Bool.and_eq_true] at hw
    have hk : fget all k = some v := hget (k, v) List.mem_cons_self
    have ih2 := C11_aux_selDocs_paths_fields all rest hw.2
      (fun kv hm => hget kv (List.mem_cons_of_mem _ hm))
    simp only [selectedPathsFields, selDocsFields, List.map_append, ih2, List.map_map]
    congr 1
    rw [← C11_aux_selDocs_paths v hw.1]
    apply List.map_congr_left
    intro p _
    simp only [Function.comp, C11_aux_subtreeAt_key all k v p hk]
end

/-- **Selection, specified.**  When `findOutputs` succeeds on a well-formed tree, the parent
    document is the tree with all selection markers removed (selected subtrees stay in it), and
    the selected documents are exactly the (stripped) subtrees at `selectedPaths v`: every
    path exists, each is listed once, in the documented order. -/
theorem C11_selected_spec (v v' : Val) (outs : List Val) (hw : v.WF)
    (h : findOutputs v = .ok (v', outs)) :
    v' = stripOut v ∧
    outs.map some = (selectedPaths v).map (fun p => (subtreeAt v p).map stripOut) := by
  rw [C11_findOutputs_eq v hw] at h
  split at h
  · cases h
  · cases h
    exact ⟨rfl, (C11_aux_selDocs_paths v hw).symm⟩

example : c11_ex.wfB = true ∧
    findOutputs c11_ex = .ok (stripOut c11_ex,
      [stripOut c11_ex, .map [("x", .int 1)], .list [.map [("m", .map [("x", .int 1)])], .int 2],
       .map [("y", .null)]]) ∧
    (selectedPaths c11_ex).map (fun p => (subtreeAt c11_ex p).map stripOut) =
      [some (stripOut c11_ex), some (.map [("x", .int 1)]),
       some (.list [.map [("m", .map [("x", .int 1)])], .int 2]), some (.map [("y", .null)])] := by
  decide

/-- well-formedness is needed (same counterexample as for `C11_selected_count_partial`): the
    second `$output` entry is skipped together with the marker -/
example : ∃ v v' outs, findOutputs v = .ok (v', outs) ∧ outs.length ≠ (selectedPaths v).length :=
  ⟨.map [("$output", .bool true), ("$output", .map [("$output", .bool true)])], .map [], [.map []],
    by decide, by decide⟩

/-! ## `selectedPaths` is exactly the set of marked containers -/

/-- the path exists and does not enter a `{$output: true}` entry of a list (those entries are
    consumed as the list's marker) -/
def liveAt : Val → List PathElem → Bool
  | _, [] => true
  | .map kvs, .key k :: p =>
    match fget kvs k with
    | some c => liveAt c p
    | none => false
  | .list xs, .idx i :: p =>
    match xs[i]? with
    | some c => !isTrueMarker c && liveAt c p
    | none => false
  | _, _ :: _ => false

theorem C11_aux_mem_selectedPathsList (p : List PathElem) : ∀ (xs : List Val) (i : Nat),
    p ∈ selectedPathsList xs i ↔
      ∃ j c q, p = .idx (i + j) :: q ∧ xs[j]? = some c ∧ isTrueMarker c = false ∧
        q ∈ selectedPaths c
  | [], i => by simp [selectedPathsList]
  | x :: xs, i => by
    simp only [selectedPathsList, List.mem_append, C11_aux_mem_selectedPathsList p xs (i + 1)]
    constructor
    · rintro (h | ⟨j, c, q, rfl, hc, hm, hq⟩)
      · cases hm : isTrueMarker x with
        | true => simp [hm] at h
        | false =>
          simp only [hm, Bool.false_eq_true, if_false, List.mem_map] at h
          obtain ⟨q, hq, rfl⟩ := h
          exact ⟨0, x, q, rfl, rfl, hm, hq⟩
      · exact ⟨j + 1, c, q, by congr 2; omega, by simpa using hc, hm, hq⟩
    · rintro ⟨j, c, q, rfl, hc, hm, hq⟩
      cases j with
      | zero =>
        left
        simp only [List.getElem?_cons_zero, Option.some.injEq] at hc
        subst hc
        simp only [hm, Bool.false_eq_true, if_false, List.mem_map]
        exact ⟨q, hq, rfl⟩
      | succ j =>
        right
        exact ⟨j, c, q, by congr 2; omega, by simpa using hc, hm, hq⟩

theorem C11_aux_mem_selectedPathsFields (p : List PathElem) : ∀ (kvs : Fields),
    p ∈ selectedPathsFields kvs ↔
      ∃ k c q, p = .key k :: q ∧ (k, c) ∈ kvs ∧ q ∈ selectedPaths c
  | [] => by simp [selectedPathsFields]
  | (k, v) :: rest => by
    simp only [selectedPathsFields, List.mem_append, C11_aux_mem_selectedPathsFields p rest,
      List.mem_map, List.mem_cons]
    constructor
    · rintro (⟨q, hq, rfl⟩ | ⟨k', c, q, rfl, hc, hq⟩)
      · exact ⟨k, v, q, rfl, Or.inl rfl, hq⟩
      · exact ⟨k', c, q, rfl, Or.inr hc, hq⟩
    · rintro ⟨k', c, q, rfl, hc | hc, hq⟩
      · cases hc; exact Or.inl ⟨q, hq, rfl⟩
      · exact Or.inr ⟨k', c, q, rfl, hc, hq⟩

/-- **exactly the marked subtrees**: a path is listed iff it leads (without entering a consumed
    marker entry) to a map carrying `$output: true` or a list carrying a `{$output: true}` entry -/
theorem C11_selectedPaths_mem : ∀ (p : List PathElem) (v : Val), v.WF →
    (p ∈ selectedPaths v ↔
      liveAt v p = true ∧ ∃ t, subtreeAt v p = some t ∧ carriesTrue t = true)
  | [], v, _ => by
    cases v with
    | map kvs =>
      have : [] ∉ selectedPathsFields kvs := by
        rw [C11_aux_mem_selectedPathsFields]; rintro ⟨_, _, _, h, _⟩; cases h
      cases hs : fhasBool kvs "$output" true <;>
        simp [selectedPaths, liveAt, subtreeAt, carriesTrue, hs, this]
    | list xs =>
      have : [] ∉ selectedPathsList xs 0 := by
        rw [C11_aux_mem_selectedPathsList]; rintro ⟨_, _, _, h, _⟩; cases h
      cases hs : hasListMapBool xs "$output" true <;>
        simp [selectedPaths, liveAt, subtreeAt, carriesTrue, hs, this]
    | _ => simp [selectedPaths, liveAt, subtreeAt, carriesTrue]
  | .key k :: q, v, hw => by
    cases v with
    | map kvs =>
      have hw' := hw
      simp only [Val.WF, Val.wfB, Bool.and_eq_true] at hw'
      have hne : (PathElem.key k :: q) ∉ (if fhasBool kvs "$output" true then [[]] else []) := by
        split <;> simp
      simp only [selectedPaths, List.mem_append, hne, false_or, C11_aux_mem_selectedPathsFields]
      constructor
      · rintro ⟨k', c, q', heq, hc, hq⟩
        cases heq
        have hg := o_fget_of_mem_sorted kvs k c hw'.1 hc
        have hcw : c.WF := wfFieldsB_iff.1 hw'.2 (k, c) hc
        simpa only [liveAt, subtreeAt, hg] using (C11_selectedPaths_mem q c hcw).1 hq
      · intro h
        cases hg : fget kvs k with
        | none => simp [liveAt, hg] at h
        | some c =>
          have hc := o_mem_of_fget kvs k c hg
          have hcw : c.WF := wfFieldsB_iff.1 hw'.2 (k, c) hc
          simp only [liveAt, subtreeAt, hg] at h
          exact ⟨k, c, q, rfl, hc, (C11_selectedPaths_mem q c hcw).2 h⟩
    | list xs =>
      have h1 : (PathElem.key k :: q) ∉ selectedPaths (.list xs) := by
        simp only [selectedPaths, List.mem_append, C11_aux_mem_selectedPathsList]
        rintro (⟨_, _, _, h, _⟩ | h)
        · cases h
        · split at h <;> simp at h
      simp [h1, liveAt]
    | _ => simp [selectedPaths, liveAt]
  | .idx i :: q, v, hw => by
    cases v with
    | list xs =>
      have hw' := hw
      simp only [Val.WF, Val.wfB] at hw'
      have hne : (PathElem.idx i :: q) ∉ (if hasListMapBool xs "$output" true then [[]] else []) := by
        split <;> simp
      simp only [selectedPaths, List.mem_append, hne, or_false, C11_aux_mem_selectedPathsList]
      constructor
      · rintro ⟨j, c, q', heq, hc, hm, hq⟩
        cases heq
        have hcw : c.WF := wfListB_iff.1 hw' c (List.mem_of_getElem? hc)
        simp only [Nat.zero_add, liveAt, subtreeAt, hc, hm, Bool.not_false, Bool.true_and]
        exact (C11_selectedPaths_mem q c hcw).1 hq
      · intro h
        cases hc : xs[i]? with
        | none => simp [liveAt, hc] at h
        | some c =>
          have hcw : c.WF := wfListB_iff.1 hw' c (List.mem_of_getElem? hc)
          simp only [liveAt, subtreeAt, hc, Bool.and_eq_true, Bool.not_eq_true'] at h
          exact ⟨i, c, q, by simp, hc, h.1.1, (C11_selectedPaths_mem q c hcw).2 ⟨h.1.2, h.2⟩⟩
    | map kvs =>
      have h1 : (PathElem.idx i :: q) ∉ selectedPaths (.map kvs) := by
        simp only [selectedPaths, List.mem_append, C11_aux_mem_selectedPathsFields]
        rintro (h | ⟨_, _, _, h, _⟩)
        · split at h <;> simp at h
        · cases h
      simp [h1, liveAt]
    | _ => simp [selectedPaths, liveAt]

example : liveAt c11_ex [.key "a", .idx 1, .key "m"] = true ∧
    liveAt c11_ex [.key "a", .idx 0] = false ∧
    (subtreeAt c11_ex [.key "a", .idx 0]).map carriesTrue = some true ∧
    [PathElem.key "a", .idx 0] ∉ selectedPaths c11_ex := by decide

mutual
/-- **each once**: no path is listed twice -/
theorem C11_selectedPaths_nodup : ∀ (v : Val), v.wfB = true → (selectedPaths v).Nodup
  | .map kvs, hw => by
    simp only [Val.wfB, Bool.and_eq_true] at hw
    simp only [selectedPaths]
    refine List.nodup_append.2 ⟨by split <;> simp, C11_selectedPaths_nodup_fields kvs hw.1 hw.2, ?_⟩
    intro a ha b hb hab
    subst hab
    rw [C11_aux_mem_selectedPathsFields] at hb
    obtain ⟨_, _, _, rfl, _⟩ := hb
    split at ha <;> simp at ha
  | .list xs, hw => by
    simp only [Val.wfB] at hw
    simp only [selectedPaths]
    refine List.nodup_append.2 ⟨C11_selectedPaths_nodup_list xs 0 hw, by split <;> simp, ?_⟩
    intro a ha b hb hab
    subst hab
    rw [C11_aux_mem_selectedPathsList] at ha
    obtain ⟨_, _, _, rfl, _⟩ := ha
    split at hb <;> simp at hb
  | .null, _ | .bool _, _ | .int _, _ | .flt _, _ | .str _, _ => List.nodup_nil
theorem C11_selectedPaths_nodup_list : ∀ (xs : List Val) (i : Nat), Val.wfListB xs = true →
    (selectedPathsList xs i).Nodup
  | [], _, _ => List.nodup_nil
  | x :: xs, i, hw => by
    simp only [Val.wfListB, Bool.and_eq_true] at hw
    simp only [selectedPathsList]
    refine List.nodup_append.2 ⟨?_, C11_selectedPaths_nodup_list xs (i + 1) hw.2, ?_⟩
    · split
      · exact List.nodup_nil
      · exact os_nodup_map_cons _ _ (C11_selectedPaths_nodup x hw.1)
    · intro a ha b hb hab
      subst hab
      rw [C11_aux_mem_selectedPathsList] at hb
      obtain ⟨j, _, _, rfl, _⟩ := hb
      split at ha
      · cases ha
      · simp only [List.mem_map] at ha
        obtain ⟨_, _, heq⟩ := ha
        have := (List.cons.inj heq).1
        simp only [PathElem.idx.injEq] at this
        omega
theorem C11_selectedPaths_nodup_fields : ∀ (kvs : Fields), Fields.sortedKeysB kvs = true →
    Val.wfFieldsB kvs = true → (selectedPathsFields kvs).Nodup
  | [], _, _ => List.nodup_nil
  | (k, v) :: rest, hs, hw => by
    simp only [Val.wfFieldsB, Bool.and_eq_true] at hw
    simp only [selectedPathsFields]
    refine List.nodup_append.2 ⟨os_nodup_map_cons _ _ (C11_selectedPaths_nodup v hw.1),
      C11_selectedPaths_nodup_fields rest (o_sorted_tail hs) hw.2, ?_⟩
    intro a ha b hb hab
    subst hab
    rw [C11_aux_mem_selectedPathsFields] at hb
    obtain ⟨k', c, _, rfl, hc, _⟩ := hb
    simp only [List.mem_map] at ha
    obtain ⟨_, _, heq⟩ := ha
    have hk := (List.cons.inj heq).1
    simp only [PathElem.key.injEq] at hk
    have hlt := o_sorted_head_lt k v rest hs (k', c) hc
    rw [hk] at hlt
    exact String.lt_irrefl _ hlt
end

/-! # Specification of hiding against independent definitions -/

mutual
/-- the value with every hidden child (a map with `$output: false`, a list with a
    `{$output: false}` entry, a `null`; see `hidden`) removed from its parent, recursively.
    The root itself is not examined. -/
def prune : Val → Val
  | .map kvs => .map (pruneFields kvs)
  | .list xs => .list (pruneList xs)
  | v => v
def pruneList : List Val → List Val
  | [] => []
  | x :: xs => if hidden x then pruneList xs else prune x :: pruneList xs
def pruneFields : Fields → Fields
  | [] => []
  | (k, v) :: rest => if hidden v then pruneFields rest else (k, prune v) :: pruneFields rest
end

mutual
/-- the only failure of `filterOutput`: a hidden list that is reached (not below another hidden
    node) has a `{$output: false}` entry with extra keys -/
def filterFails : Val → Bool
  | .map kvs => !fhasBool kvs "$output" false && filterFailsFields kvs
  | .list xs =>
    if hasListMapBool xs "$output" false then xs.any (isBadMarker false) else filterFailsList xs
  | _ => false
def filterFailsList : List Val → Bool
  | [] => false
  | x :: xs => filterFails x || filterFailsList xs
def filterFailsFields : Fields → Bool
  | [] => false
  | (_, v) :: rest => filterFails v || filterFailsFields rest
end

theorem C11_aux_isBadMarker_eq (b : Bool) : isBadMarker b = os_isExtra "$output" b := by
  funext x; cases x <;> rfl

mutual
/-- **Hiding, specified** (no well-formedness needed): `filterOutput` fails exactly on
    `filterFails`; otherwise a hidden root yields nothing and any other root yields `prune`. -/
theorem C11_filterOutput_eq : ∀ (v : Val),
    filterOutput v =
      if filterFails v then .error .extraKeys
      else .ok (if hidden v then none else some (prune v))
  | .map kvs => by
    rw [os_filterOutput_map_eq, C11_filterOutput_eq_fields kvs]
    simp only [filterFails, hidden, prune]
    by_cases hh : fhasBool kvs "$output" false = true
    · simp only [hh, if_true, Bool.not_true, Bool.false_and, Bool.false_eq_true, if_false]
    · simp only [hh, Bool.false_eq_true, if_false, Bool.not_false, Bool.true_and]
      by_cases hb : filterFailsFields kvs = true
      · simp only [hb, if_true]
      · simp only [hb, Bool.false_eq_true, if_false]
  | .list xs => by
    rw [os_filterOutput_list_eq, C11_filterOutput_eq_list xs]
    simp only [filterFails, hidden, prune, C11_aux_isBadMarker_eq]
    by_cases hh : hasListMapBool xs "$output" false = true
    · simp only [hh, if_true]
    · simp only [hh, Bool.false_eq_true, if_false]
      by_cases hb : filterFailsList xs = true
      · simp only [hb, if_true]
      · simp only [hb, Bool.false_eq_true, if_false]
  | .null => rfl
  | .bool _ | .int _ | .flt _ | .str _ => rfl
theorem C11_filterOutput_eq_list : ∀ (xs : List Val),
    filterOutputList xs =
      if filterFailsList xs then .error .extraKeys else .ok (pruneList xs)
  | [] => rfl
  | x :: xs => by
    rw [os_filterOutputList_cons_eq, C11_filterOutput_eq x, C11_filterOutput_eq_list xs]
    simp only [filterFailsList, pruneList]
    by_cases hb1 : filterFails x = true
    · simp only [hb1, if_true, Bool.true_or]
    · by_cases hb2 : filterFailsList xs = true
      · simp only [hb1, hb2, Bool.false_eq_true, if_false, if_true, Bool.or_true]
        cases hidden x <;> rfl
      · simp only [hb1, hb2, Bool.false_eq_true, if_false, Bool.or_self]
        cases hidden x <;> rfl
theorem C11_filterOutput_eq_fields : ∀ (kvs : Fields),
    filterOutputFields kvs =
      if filterFailsFields kvs then .error .extraKeys else .ok (pruneFields kvs)
  | [] => rfl
  | (k, v) :: rest => by
    rw [os_filterOutputFields_cons_eq, C11_filterOutput_eq v, C11_filterOutput_eq_fields rest]
    simp only [filterFailsFields, pruneFields]
    by_cases hb1 : filterFails v = true
    · simp only [hb1, if_true, Bool.true_or]
    · by_cases hb2 : filterFailsFields rest = true
      · simp only [hb1, hb2, Bool.false_eq_true, if_false, if_true, Bool.or_true]
        cases hidden v <;> rfl
      · simp only [hb1, hb2, Bool.false_eq_true, if_false, Bool.or_self]
        cases hidden v <;> rfl
end

example : filterFails (.map [("a", .list [.map [("$output", .bool false), ("x", .int 1)]])]) = true ∧
    filterOutput (.map [("a", .list [.map [("$output", .bool false), ("x", .int 1)]])]) =
      .error .extraKeys ∧
    -- below a hidden map the same entry is never looked at
    filterOutput (.map [("$output", .bool false),
      ("a", .list [.map [("$output", .bool false), ("x", .int 1)]])]) = .ok none := by decide

/-! # Root fallback -/

mutual
/-- a tree without selected paths has no marker: stripping changes nothing, selection cannot fail -/
theorem C11_aux_no_paths : ∀ (v : Val), selectedPaths v = [] →
    stripOut v = v ∧ hasBadMarker v = false ∧ hasOutTrue v = false
  | .map kvs, h => by
    simp only [selectedPaths, List.append_eq_nil_iff] at h
    have hs : fhasBool kvs "$output" true = false := by
      cases hs : fhasBool kvs "$output" true with
      | false => rfl
      | true => rw [hs] at h; simp at h
    obtain ⟨a, b, c⟩ := C11_aux_no_paths_fields kvs h.2
    simp only [stripOut, hs, Bool.false_eq_true, if_false, a, hasBadMarker, b, hasOutTrue, c,
      Bool.or_self, and_self]
  | .list xs, h => by
    simp only [selectedPaths, List.append_eq_nil_iff] at h
    have hs : hasListMapBool xs "$output" true = false := by
      cases hs : hasListMapBool xs "$output" true with
      | false => rfl
      | true => rw [hs] at h; simp at h
    obtain ⟨a, b, c⟩ := C11_aux_no_paths_list xs 0 h.1 hs
    simp only [stripOut, a, hasBadMarker, b, hasOutTrue, c, hs, Bool.or_self, and_self]
  | .null, _ | .bool _, _ | .int _, _ | .flt _, _ | .str _, _ => ⟨rfl, rfl, rfl⟩
theorem C11_aux_no_paths_list : ∀ (xs : List Val) (i : Nat), selectedPathsList xs i = [] →
    hasListMapBool xs "$output" true = false →
    stripOutList xs = xs ∧ hasBadMarkerList xs = false ∧ hasOutTrueList xs = false
  | [], _, _, _ => ⟨rfl, rfl, rfl⟩
  | x :: xs, i, h, hs => by
    rw [o_hasListMapBool_cons, Bool.or_eq_false_iff, ← C11_aux_isTrueMarker_eq] at hs
    simp only [selectedPathsList, hs.1, Bool.false_eq_true, if_false, List.append_eq_nil_iff,
      List.map_eq_nil_iff] at h
    obtain ⟨a1, b1, c1⟩ := C11_aux_no_paths x h.1
    obtain ⟨a2, b2, c2⟩ := C11_aux_no_paths_list xs (i + 1) h.2 hs.2
    simp only [stripOutList, hs.1, Bool.false_eq_true, if_false, a1, a2, hasBadMarkerList, b1, b2,
      hasOutTrueList, c1, c2, Bool.or_self, and_self]
theorem C11_aux_no_paths_fields : ∀ (kvs : Fields), selectedPathsFields kvs = [] →
    stripOutFields kvs = kvs ∧ hasBadMarkerFields kvs = false ∧ hasOutTrueFields kvs = false
  | [], _ => ⟨rfl, rfl, rfl⟩
  | (k, v) :: rest, h => by
    simp only [selectedPathsFields, List.append_eq_nil_iff, List.map_eq_nil_iff] at h
    obtain ⟨a1, b1, c1⟩ := C11_aux_no_paths v h.1
    obtain ⟨a2, b2, c2⟩ := C11_aux_no_paths_fields rest h.2
    simp only [stripOutFields, a1, a2, hasBadMarkerFields, b1, b2, hasOutTrueFields, c1, c2,
      Bool.or_self, and_self]
end

mutual
theorem C11_aux_paths_of_no_marker : ∀ (v : Val), hasOutTrue v = false → selectedPaths v = []
  | .map kvs, h => by
    simp only [hasOutTrue, Bool.or_eq_false_iff] at h
    simp only [selectedPaths, h.1, Bool.false_eq_true, if_false, List.nil_append,
      C11_aux_paths_of_no_marker_fields kvs h.2]
  | .list xs, h => by
    simp only [hasOutTrue, Bool.or_eq_false_iff] at h
    simp only [selectedPaths, h.1, Bool.false_eq_true, if_false, List.append_nil,
      C11_aux_paths_of_no_marker_list xs 0 h.2]
  | .null, _ | .bool _, _ | .int _, _ | .flt _, _ | .str _, _ => rfl
theorem C11_aux_paths_of_no_marker_list : ∀ (xs : List Val) (i : Nat), hasOutTrueList xs = false →
    selectedPathsList xs i = []
  | [], _, _ => rfl
  | x :: xs, i, h => by
    simp only [hasOutTrueList, Bool.or_eq_false_iff] at h
    simp only [selectedPathsList, C11_aux_paths_of_no_marker x h.1, List.map_nil, ite_self,
      List.nil_append, C11_aux_paths_of_no_marker_list xs (i + 1) h.2]
theorem C11_aux_paths_of_no_marker_fields : ∀ (kvs : Fields), hasOutTrueFields kvs = false →
    selectedPathsFields kvs = []
  | [], _ => rfl
  | (k, v) :: rest, h => by
    simp only [hasOutTrueFields, Bool.or_eq_false_iff] at h
    simp only [selectedPathsFields, C11_aux_paths_of_no_marker v h.1, List.map_nil, List.nil_append,
      C11_aux_paths_of_no_marker_fields rest h.2]
end

/-- "no marker" in terms of paths and in terms of the existing predicate `hasOutTrue` -/
theorem C11_selectedPaths_nil_iff (v : Val) : selectedPaths v = [] ↔ hasOutTrue v = false :=
  ⟨fun h => (C11_aux_no_paths v h).2.2, C11_aux_paths_of_no_marker v⟩

/-- the paths whose subtrees are handed to the hiding / validation / finalisation stage:
    the selected ones, or the document root when nothing is selected -/
def emittedPaths (d : Val) : List (List PathElem) :=
  if selectedPaths d = [] then [[]] else selectedPaths d

/-- the candidate documents at those paths, selection markers removed -/
def docCandidates (d : Val) : List Val :=
  (emittedPaths d).filterMap fun p => (subtreeAt d p).map stripOut

/-- what the output stage makes of one candidate: nothing if it is hidden, else its hidden
    parts removed and `$$` unescaped -/
def renderDoc (v : Val) : Option Val := if hidden v then none else some (finalize (prune v))

theorem C11_aux_docCandidates (d : Val) (hw : d.WF) :
    docCandidates d = if selectedPaths d = [] then [d] else selDocs d := by
  unfold docCandidates emittedPaths
  split
  · rename_i h
    simp [subtreeAt, (C11_aux_no_paths d h).1]
  · exact os_filterMap_map_some _ _ _ (C11_aux_selDocs_paths d hw)

theorem C11_aux_selDocs_nil (d : Val) (hw : d.WF) : selDocs d = [] ↔ selectedPaths d = [] := by
  have := C11_aux_selDocs_paths d hw
  constructor
  · intro h; rw [h] at this; simpa using this
  · intro h; rw [h] at this; simpa using this.symm

/-- **`emit` on one processed document**, as an equation: selection fails only on a marker
    entry with extra keys; otherwise the candidates (`docCandidates`: the stripped subtrees at
    `emittedPaths`) go through the second loop of `emit` (`emitFinish`, see `emit_eq`). -/
theorem C11_emit_doc_eq (d : Val) (hw : d.WF) :
    emit [d] = if hasBadMarker d then .error .extraKeys else emitFinish (docCandidates d) := by
  rw [os_emit_eq, os_emitSelect_single, C11_findOutputs_eq d hw, C11_aux_docCandidates d hw]
  by_cases hb : hasBadMarker d = true
  · simp only [hb, if_true]
  · simp only [hb, Bool.false_eq_true, if_false, List.isEmpty_iff, C11_aux_selDocs_nil d hw]
    by_cases hp : selectedPaths d = []
    · simp only [hp, if_true, (C11_aux_no_paths d hp).1]
    · simp only [hp, if_false]

theorem C11_aux_render_eq (c : Val) (h : filterFails c = false) :
    (match filterOutput c with
     | .ok (some v2) => some (finalize v2)
     | _ => none) = renderDoc c := by
  rw [C11_filterOutput_eq c]
  simp only [h, Bool.false_eq_true, if_false, renderDoc]
  cases hidden c <;> rfl

/-- when `emit` succeeds on one processed document, and what it returns: the candidates in
    order, hidden ones dropped, the others pruned and finalised -/
theorem C11_emit_doc_spec (d : Val) (hw : d.WF) (outs : List Val) :
    emit [d] = .ok outs ↔
      hasBadMarker d = false ∧
      (∀ c ∈ docCandidates d, filterFails c = false ∧
        (hidden c = false → clean (prune c) = true)) ∧
      outs = (docCandidates d).filterMap renderDoc := by
  rw [C11_emit_doc_eq d hw]
  by_cases hb : hasBadMarker d = true
  · simp [hb]
  · simp only [hb, Bool.false_eq_true, if_false, os_emitFinish_ok_iff, true_and]
    constructor
    · rintro ⟨h1, h2⟩
      have h3 : ∀ c ∈ docCandidates d, filterFails c = false ∧
          (hidden c = false → clean (prune c) = true) := by
        intro c hc
        obtain ⟨r, hr, hv⟩ := h1 c hc
        rw [C11_filterOutput_eq c] at hr
        cases hf : filterFails c with
        | true => rw [hf] at hr; cases hr
        | false =>
          rw [hf] at hr
          simp only [Bool.false_eq_true, if_false, Except.ok.injEq] at hr
          refine ⟨rfl, fun hh => ?_⟩
          rw [hh] at hr
          exact (validate_iff _).1 (hv _ hr.symm)
      refine ⟨h3, ?_⟩
      rw [h2]
      exact os_filterMap_congr _ _ _ (fun c hc => C11_aux_render_eq c (h3 c hc).1)
    · rintro ⟨h3, h2⟩
      refine ⟨?_, ?_⟩
      · intro c hc
        have hfo := C11_filterOutput_eq c
        simp only [(h3 c hc).1, Bool.false_eq_true, if_false] at hfo
        refine ⟨_, hfo, ?_⟩
        intro v2 hv2
        cases hh : hidden c with
        | true => rw [hh] at hv2; cases hv2
        | false =>
          rw [hh] at hv2
          simp only [Bool.false_eq_true, if_false, Option.some.injEq] at hv2
          subst hv2
          exact (validate_iff _).2 ((h3 c hc).2 hh)
      · rw [h2]
        exact (os_filterMap_congr _ _ _ (fun c hc => C11_aux_render_eq c (h3 c hc).1)).symm

example : docCandidates c11_ex = [stripOut c11_ex, .map [("x", .int 1)],
      .list [.map [("m", .map [("x", .int 1)])], .int 2], .map [("y", .null)]] ∧
    emit [c11_ex] =
      .ok [.map [("a", .list [.map [("m", .map [("x", .int 1)])], .int 2]), ("b", .map [("c", .map [])])],
           .map [("x", .int 1)], .list [.map [("m", .map [("x", .int 1)])], .int 2], .map []] := by
  decide

/-- **Root fallback.**  (1) Without any marker the document root is the single candidate, and
    `emit` is: hide, validate, finalise the root.  (2) With markers the candidates are exactly the
    selected subtrees; the root is among them only if it carries the marker itself.  (3) In both
    cases the outputs are the rendered candidates, in order. -/
theorem C11_root_fallback_spec (d : Val) (hw : d.WF) :
    (hasOutTrue d = false →
      emittedPaths d = [[]] ∧ docCandidates d = [d] ∧
      emit [d] =
        match filterOutput d with
        | .error e => .error e
        | .ok none => .ok []
        | .ok (some v2) =>
          match validate v2 with
          | .error e => .error e
          | .ok _ => .ok [finalize v2]) ∧
    (hasOutTrue d = true →
      emittedPaths d = selectedPaths d ∧ ([] ∈ emittedPaths d ↔ carriesTrue d = true)) ∧
    (∀ outs, emit [d] = .ok outs → outs = (docCandidates d).filterMap renderDoc) := by
  refine ⟨?_, ?_, ?_⟩
  · intro h
    have hp := (C11_selectedPaths_nil_iff d).2 h
    have hc : docCandidates d = [d] := by rw [C11_aux_docCandidates d hw, hp]; rfl
    refine ⟨by simp [emittedPaths, hp], hc, ?_⟩
    rw [C11_emit_doc_eq d hw, (C11_aux_no_paths d hp).2.1, hc, os_emitFinish_cons]
    simp only [Bool.false_eq_true, if_false, os_emitFinish_nil]
    cases filterOutput d with
    | error e => rfl
    | ok r =>
      cases r with
      | none => rfl
      | some v2 => simp only []; cases validate v2 <;> rfl
  · intro h
    have hp : selectedPaths d ≠ [] := by
      intro hp; rw [(C11_selectedPaths_nil_iff d).1 hp] at h; cases h
    have he : emittedPaths d = selectedPaths d := by simp [emittedPaths, hp]
    refine ⟨he, ?_⟩
    rw [he, C11_selectedPaths_mem [] d hw]
    simp [liveAt, subtreeAt]
  · intro outs h
    exact ((C11_emit_doc_spec d hw outs).1 h).2.2

/-- second running example: no selection marker; a hidden map, a hidden list inside a list, a
    `null`, an escaped dollar -/
def c11_ex2 : Val :=
  .map [("k", .map [("$output", .bool false), ("h", .int 2)]),
        ("l", .list [.null, .int 1, .list [.map [("$output", .bool false)]], .str "$$z"])]

example : c11_ex2.wfB = true ∧ hasOutTrue c11_ex2 = false ∧ emittedPaths c11_ex2 = [[]] ∧
    emit [c11_ex2] = .ok [.map [("l", .list [.int 1, .str "$z"])]] := by decide
example : hasOutTrue c11_ex = true ∧ carriesTrue c11_ex = true ∧ [] ∈ emittedPaths c11_ex := by
  decide
/-- markers below an unmarked root: the root is not emitted; and a subtree selected below a hidden
    map IS emitted (selection does not look at `$output: false`) -/
example : emit [.map [("a", .int 1), ("h", .map [("$output", .bool false),
      ("s", .map [("$output", .bool true), ("x", .int 1)])])]] = .ok [.map [("x", .int 1)]] := by
  decide

/-- **Order across a stream** (`outputDocuments`): the merged documents are processed in
    document order (each into zero or more documents), every processed document `p` is emitted on
    its own (`emit [p]`), and the results are concatenated in that order.  When the processed
    documents are well-formed, each contributes its rendered candidates in the per-document
    order of `selectedPaths` (map: itself, then children by key; list: children by index, then
    itself). -/
theorem C11_order_stable (docs : List Val) (env : Vars) (outs : List Val)
    (h : outputDocuments docs env = .ok outs) :
    ∃ pss, docs.mapM (processDoc docs env) = .ok pss ∧
      (∃ oss, pss.flatten.mapM (fun p => emit [p]) = .ok oss ∧ outs = oss.flatten) ∧
      ((∀ p ∈ pss.flatten, p.WF) →
        outs = pss.flatten.flatMap fun p => (docCandidates p).filterMap renderDoc) := by
  obtain ⟨pss, h1, oss, h2, rfl⟩ := os_outputDocuments_stream docs env outs h
  refine ⟨pss, h1, ⟨oss, h2, rfl⟩, ?_⟩
  intro hw
  rw [os_mapM_ok_map _ (fun p => (docCandidates p).filterMap renderDoc) _ _ ?_ h2,
    List.flatMap_def]
  intro p hp o ho
  exact ((C11_emit_doc_spec p (hw p hp) o).1 ho).2.2

/-- the same one level down: `emit` on the processed documents of one merged document -/
theorem C11_order_stable_emit (ps outs : List Val) (hw : ∀ p ∈ ps, p.WF)
    (h : emit ps = .ok outs) :
    outs = ps.flatMap fun p => (docCandidates p).filterMap renderDoc := by
  obtain ⟨oss, h2, rfl⟩ := (os_emit_ok_iff ps outs).1 h
  rw [os_mapM_ok_map _ (fun p => (docCandidates p).filterMap renderDoc) _ _ ?_ h2,
    List.flatMap_def]
  intro p hp o ho
  exact ((C11_emit_doc_spec p (hw p hp) o).1 ho).2.2

example : outputDocuments [c11_ex2, c11_ex] [] =
    .ok [.map [("l", .list [.int 1, .str "$z"])],
         .map [("a", .list [.map [("m", .map [("x", .int 1)])], .int 2]), ("b", .map [("c", .map [])])],
         .map [("x", .int 1)], .list [.map [("m", .map [("x", .int 1)])], .int 2], .map []] := by
  decide +kernel
example : outputDocuments [.map [("a", .int 1)], .null, .int 3] [] =
    .ok [.map [("a", .int 1)], .int 3] := by decide

/-! # Duplicate and malformed markers -/

/-- the marker entry of a list -/
def trueMarker : Val := .map [("$output", .bool true)]

/-- **Duplicate list markers are idempotent** (no well-formedness needed): in a list that
    already has a `{$output: true}` entry, a further clean marker entry `m` anywhere changes
    neither the parent document nor the selected documents — it is consumed like the first. -/
theorem C11_duplicate_markers (m : Fields) (a b : List Val)
    (hm : fhasBool m "$output" true = true) (hl : (fdel m "$output").length = 0)
    (h : hasListMapBool (a ++ b) "$output" true = true) :
    findOutputs (.list (a ++ .map m :: b)) = findOutputs (.list (a ++ b)) := by
  have h' : hasListMapBool (a ++ .map m :: b) "$output" true = true := by
    rw [os_hasListMapBool_append, o_hasListMapBool_cons]
    simp only [o_isMarker, hm, Bool.true_or, Bool.or_true]
  rw [os_findOutputs_list_eq, os_findOutputs_list_eq, h, h',
    os_findOutputsList_insert_marker m hm hl a b]

/-- in particular two leading `{$output: true}` entries: both are removed, nothing fails, the
    list is selected ONCE (last, after the documents selected inside it) -/
theorem C11_duplicate_markers_spec (xs : List Val) (hw : (Val.list xs).WF)
    (hb : hasBadMarkerList xs = false) :
    findOutputs (.list (trueMarker :: trueMarker :: xs)) =
      .ok (.list (stripOutList xs), selDocsList xs ++ [.list (stripOutList xs)]) ∧
    findOutputs (.list (trueMarker :: trueMarker :: xs)) = findOutputs (.list (trueMarker :: xs)) := by
  have hw1 : (Val.list (trueMarker :: xs)).wfB = true := by
    simp only [Val.WF, Val.wfB] at hw
    simp only [Val.wfB, Val.wfListB, hw, Bool.and_true]; decide
  have hm : isTrueMarker trueMarker = true := by decide
  have hbm : isBadMarker true trueMarker = false := by decide
  have hs : hasListMapBool (trueMarker :: xs) "$output" true = true := by
    rw [o_hasListMapBool_cons]; simp only [← C11_aux_isTrueMarker_eq, hm, Bool.true_or]
  have h2 : findOutputs (.list (trueMarker :: trueMarker :: xs)) =
      findOutputs (.list (trueMarker :: xs)) :=
    C11_duplicate_markers [("$output", .bool true)] [trueMarker] xs (by decide) (by decide) hs
  refine ⟨?_, h2⟩
  rw [h2, C11_findOutputs_eq _ hw1]
  simp only [hasBadMarker, hasBadMarkerList, hm, if_true, hbm, Bool.false_or, hb,
    Bool.false_eq_true, if_false, stripOut, stripOutList, selDocs, selDocsList, List.nil_append,
    hs]

example : findOutputs (.list [trueMarker, .int 1, trueMarker, .map [("a", trueMarker)], trueMarker]) =
    .ok (.list [.int 1, .map [("a", .map [])]], [.map [], .list [.int 1, .map [("a", .map [])]]]) := by
  decide
example : (Val.list [.int 1, .map [("a", trueMarker)]]).wfB = true ∧
    hasBadMarkerList [.int 1, .map [("a", trueMarker)]] = false := by decide

/-- the full statement "a non-boolean `$output` is left in place and rejected" is FALSE: when
    its value is hidden (`null`, a map with `$output: false`, a list with such an entry) the key
    is dropped together with the value and the document passes -/
theorem C11_nonbool_marker_counterexample :
    emit [.map [("$output", .null), ("a", .int 1)]] = .ok [.map [("a", .int 1)]] ∧
    emit [.map [("$output", .map [("$output", .bool false)]), ("a", .int 1)]] =
      .ok [.map [("a", .int 1)]] := by decide

theorem C11_aux_fget_stripOutFields (kvs : Fields) (k : String) :
    fget (stripOutFields kvs) k = (fget kvs k).map stripOut := by
  induction kvs with
  | nil => rfl
  | cons kv rest ih =>
    obtain ⟨k', v⟩ := kv
    simp only [stripOutFields, fget]
    split
    · rfl
    · exact ih

theorem C11_aux_fget_pruneFields (kvs : Fields) (k : String) (x : Val)
    (h : fget kvs k = some x) (hh : hidden x = false) :
    fget (pruneFields kvs) k = some (prune x) := by
  induction kvs with
  | nil => cases h
  | cons kv rest ih =>
    obtain ⟨k', v⟩ := kv
    simp only [fget] at h
    simp only [pruneFields]
    split at h
    · rename_i hk
      cases h
      simp only [hh, Bool.false_eq_true, if_false, fget, hk, if_true]
    · rename_i hk
      split
      · exact ih h
      · simp only [fget, hk, if_false]; exact ih h

theorem C11_aux_not_clean_of_key (kvs : Fields) (k : String) (y : Val) (hk : badString k = true)
    (h : fget kvs k = some y) : cleanFields kvs = false := by
  induction kvs with
  | nil => cases h
  | cons kv rest ih =>
    obtain ⟨k', v⟩ := kv
    simp only [fget] at h
    simp only [cleanFields, Bool.and_eq_false_iff]
    split at h
    · rename_i hk'; subst hk'; left; left; simp [hk]
    · right; exact ih h

/-- **A non-boolean `$output`** is no marker of either polarity; selection leaves it in place
    (its value is stripped like any other child), and so does hiding unless the value itself is
    hidden. -/
theorem C11_nonbool_marker_kept (kvs : Fields) (x : Val) (hx : fget kvs "$output" = some x)
    (hnb : ∀ b, x ≠ .bool b) :
    carriesTrue (.map kvs) = false ∧ hidden (.map kvs) = false ∧
    stripOut (.map kvs) = .map (stripOutFields kvs) ∧
    fget (stripOutFields kvs) "$output" = some (stripOut x) ∧
    (hidden x = false → fget (pruneFields kvs) "$output" = some (prune x)) := by
  have hb : ∀ b, fhasBool kvs "$output" b = false := by
    intro b
    unfold fhasBool
    rw [hx]
    cases x with
    | bool b' => exact absurd rfl (hnb b')
    | _ => rfl
  refine ⟨hb true, hb false, ?_, ?_, C11_aux_fget_pruneFields kvs _ x hx⟩
  · simp only [stripOut, hb true, Bool.false_eq_true, if_false]
  · rw [C11_aux_fget_stripOutFields, hx]; rfl

/-- `_partial` (see `C11_nonbool_marker_counterexample`; the hypothesis `hidden x = false`
    excludes exactly the failing class): a candidate document that is a map whose `$output` is
    neither a boolean nor hidden makes `emit` fail — the key reaches `validate`, which rejects it
    (`validate_iff`: the pruned candidate is not `clean`). -/
theorem C11_nonbool_marker_partial (d : Val) (hw : d.WF) (kvs : Fields) (x : Val)
    (hc : .map kvs ∈ docCandidates d) (hx : fget kvs "$output" = some x)
    (hnb : ∀ b, x ≠ .bool b) (hh : hidden x = false) :
    clean (prune (.map kvs)) = false ∧ validate (prune (.map kvs)) ≠ .ok () ∧
    ∃ e, emit [d] = .error e := by
  obtain ⟨_, h2, _, _, h5⟩ := C11_nonbool_marker_kept kvs x hx hnb
  have hcl : clean (prune (.map kvs)) = false := by
    simp only [prune, clean]
    exact C11_aux_not_clean_of_key _ "$output" _ (by decide) (h5 hh)
  refine ⟨hcl, ?_, ?_⟩
  · intro hv; rw [(validate_iff _).1 hv] at hcl; cases hcl
  · cases he : emit [d] with
    | error e => exact ⟨e, rfl⟩
    | ok outs =>
      have := ((C11_emit_doc_spec d hw outs).1 he).2.1 _ hc
      rw [this.2 h2] at hcl; cases hcl

/-- the root case: no selection marker anywhere, `$output` non-boolean and not hidden -/
theorem C11_nonbool_marker_root (kvs : Fields) (x : Val) (hw : (Val.map kvs).WF)
    (hm : hasOutTrue (.map kvs) = false) (hx : fget kvs "$output" = some x)
    (hnb : ∀ b, x ≠ .bool b) (hh : hidden x = false) :
    ∃ e, emit [.map kvs] = .error e := by
  have hc := ((C11_root_fallback_spec (.map kvs) hw).1 hm).2.1
  exact (C11_nonbool_marker_partial (.map kvs) hw kvs x (by rw [hc]; exact List.mem_singleton.2 rfl)
    hx hnb hh).2.2

example : emit [.map [("$output", .str "yes"), ("a", .int 1)]] = .error .invalidDirective ∧
    emit [.map [("$output", .list [.int 1]), ("a", .int 1)]] = .error .invalidDirective ∧
    hidden (.str "yes") = false ∧ hasOutTrue (.map [("$output", .str "yes"), ("a", .int 1)]) = false :=
  by decide
/-- (when the non-boolean value is itself a marked map, that map is selected and the root — with
    its stray `$output` key — is not a candidate at all) -/
example : emit [.map [("$output", .map [("$output", .bool true)]), ("a", .int 1)]] = .ok [.map []] := by
  decide

/-! # Hidden paths: which nodes of a candidate survive `prune` -/

/-- a container that carries the hiding marker: a map with `$output: false`, a list with a
    `{$output: false}` entry (`hidden` = `carriesFalse` or `null`) -/
def carriesFalse : Val → Bool
  | .map kvs => fhasBool kvs "$output" false
  | .list xs => hasListMapBool xs "$output" false
  | _ => false

theorem C11_hidden_eq (v : Val) : hidden v = (carriesFalse v || v.isNull) := by
  cases v <;> simp [hidden, carriesFalse, Val.isNull]

mutual
/-- the paths of all nodes of `v` satisfying `P`, in pre-order -/
def pathsWhere (P : Val → Bool) : Val → List (List PathElem)
  | .map kvs => (if P (.map kvs) then [[]] else []) ++ pathsWhereFields P kvs
  | .list xs => (if P (.list xs) then [[]] else []) ++ pathsWhereList P xs 0
  | v => if P v then [[]] else []
def pathsWhereList (P : Val → Bool) : List Val → Nat → List (List PathElem)
  | [], _ => []
  | x :: xs, i => (pathsWhere P x).map (PathElem.idx i :: ·) ++ pathsWhereList P xs (i + 1)
def pathsWhereFields (P : Val → Bool) : Fields → List (List PathElem)
  | [] => []
  | (k, v) :: rest => (pathsWhere P v).map (PathElem.key k :: ·) ++ pathsWhereFields P rest
end

/-- **the hidden paths** of a tree: the maps with `$output: false` and the lists with a
    `{$output: false}` entry (all of them, also below one another) -/
def hiddenPaths (v : Val) : List (List PathElem) := pathsWhere carriesFalse v

/-- one step down -/
def childAt : Val → PathElem → Option Val
  | .map kvs, .key k => fget kvs k
  | .list xs, .idx i => xs[i]?
  | _, _ => none

theorem C11_aux_subtreeAt_cons (t : Val) (e : PathElem) (p : List PathElem) :
    subtreeAt t (e :: p) = match childAt t e with
      | some c => subtreeAt c p
      | none => none := by
  cases t <;> cases e <;> simp only [subtreeAt, childAt]

theorem C11_aux_subtreeAt_append (p q : List PathElem) : ∀ (t : Val),
    subtreeAt t (p ++ q) = match subtreeAt t p with
      | some c => subtreeAt c q
      | none => none := by
  induction p with
  | nil => intro t; rfl
  | cons e p ih =>
    intro t
    rw [List.cons_append, C11_aux_subtreeAt_cons, C11_aux_subtreeAt_cons]
    cases childAt t e with
    | none => rfl
    | some c => exact ih c

theorem C11_aux_childAt_wf {t c : Val} {e : PathElem} (hw : t.WF) (h : childAt t e = some c) :
    c.WF := by
  cases t with
  | map kvs =>
    cases e with
    | key k =>
      simp only [Val.WF, Val.wfB, Bool.and_eq_true] at hw
      exact wfFieldsB_iff.1 hw.2 (k, c) (o_mem_of_fget kvs k c h)
    | idx i => cases h
  | list xs =>
    cases e with
    | key k => cases h
    | idx i =>
      simp only [Val.WF, Val.wfB] at hw
      exact wfListB_iff.1 hw c (List.mem_of_getElem? h)
  | _ => cases h

theorem C11_aux_mem_pathsWhereList (P : Val → Bool) (p : List PathElem) :
    ∀ (xs : List Val) (i : Nat),
    p ∈ pathsWhereList P xs i ↔
      ∃ j c q, p = .idx (i + j) :: q ∧ xs[j]? = some c ∧ q ∈ pathsWhere P c
  | [], i => by simp [pathsWhereList]
  | x :: xs, i => by
    simp only [pathsWhereList, List.mem_append, C11_aux_mem_pathsWhereList P p xs (i + 1),
      List.mem_map]
    constructor
    · rintro (⟨q, hq, rfl⟩ | ⟨j, c, q, rfl, hc, hq⟩)
      · exact ⟨0, x, q, rfl, rfl, hq⟩
      · exact ⟨j + 1, c, q, by congr 2; omega, by simpa using hc, hq⟩
    · rintro ⟨j, c, q, rfl, hc, hq⟩
      cases j with
      | zero =>
        left
        simp only [List.getElem?_cons_zero, Option.some.injEq] at hc
        subst hc
        exact ⟨q, hq, rfl⟩
      | succ j =>
        right
        exact ⟨j, c, q, by congr 2; omega, by simpa using hc, hq⟩

theorem C11_aux_mem_pathsWhereFields (P : Val → Bool) (p : List PathElem) : ∀ (kvs : Fields),
    p ∈ pathsWhereFields P kvs ↔
      ∃ k c q, p = .key k :: q ∧ (k, c) ∈ kvs ∧ q ∈ pathsWhere P c
  | [] => by simp [pathsWhereFields]
  | (k, v) :: rest => by
    simp only [pathsWhereFields, List.mem_append, C11_aux_mem_pathsWhereFields P p rest,
      List.mem_map, List.mem_cons]
    constructor
    · rintro (⟨q, hq, rfl⟩ | ⟨k', c, q, rfl, hc, hq⟩)
      · exact ⟨k, v, q, rfl, Or.inl rfl, hq⟩
      · exact ⟨k', c, q, rfl, Or.inr hc, hq⟩
    · rintro ⟨k', c, q, rfl, hc | hc, hq⟩
      · cases hc; exact Or.inl ⟨q, hq, rfl⟩
      · exact Or.inr ⟨k', c, q, rfl, hc, hq⟩

theorem C11_aux_nil_mem_pathsWhere (P : Val → Bool) (v : Val) :
    [] ∈ pathsWhere P v ↔ P v = true := by
  cases v with
  | map kvs =>
    have : [] ∉ pathsWhereFields P kvs := by
      rw [C11_aux_mem_pathsWhereFields]; rintro ⟨_, _, _, h, _⟩; cases h
    cases hp : P (.map kvs) <;> simp [pathsWhere, hp, this]
  | list xs =>
    have : [] ∉ pathsWhereList P xs 0 := by
      rw [C11_aux_mem_pathsWhereList]; rintro ⟨_, _, _, h, _⟩; cases h
    cases hp : P (.list xs) <;> simp [pathsWhere, hp, this]
  | null => cases hp : P .null <;> simp [pathsWhere, hp]
  | bool b => cases hp : P (.bool b) <;> simp [pathsWhere, hp]
  | int i => cases hp : P (.int i) <;> simp [pathsWhere, hp]
  | flt r => cases hp : P (.flt r) <;> simp [pathsWhere, hp]
  | str s => cases hp : P (.str s) <;> simp [pathsWhere, hp]

theorem C11_aux_cons_mem_pathsWhere (P : Val → Bool) (e : PathElem) (q : List PathElem) (v : Val)
    (hw : v.WF) :
    e :: q ∈ pathsWhere P v ↔ ∃ c, childAt v e = some c ∧ q ∈ pathsWhere P c := by
  cases v with
  | map kvs =>
    simp only [Val.WF, Val.wfB, Bool.and_eq_true] at hw
    have hne : (e :: q) ∉ (if P (.map kvs) then [[]] else []) := by split <;> simp
    simp only [pathsWhere, List.mem_append, hne, false_or, C11_aux_mem_pathsWhereFields]
    constructor
    · rintro ⟨k, c, q', heq, hc, hq⟩
      cases heq
      exact ⟨c, o_fget_of_mem_sorted kvs k c hw.1 hc, hq⟩
    · rintro ⟨c, hc, hq⟩
      cases e with
      | key k => exact ⟨k, c, q, rfl, o_mem_of_fget kvs k c hc, hq⟩
      | idx i => cases hc
  | list xs =>
    have hne : (e :: q) ∉ (if P (.list xs) then [[]] else []) := by split <;> simp
    simp only [pathsWhere, List.mem_append, hne, false_or, C11_aux_mem_pathsWhereList]
    constructor
    · rintro ⟨j, c, q', heq, hc, hq⟩
      cases heq
      exact ⟨c, by simpa [childAt] using hc, hq⟩
    · rintro ⟨c, hc, hq⟩
      cases e with
      | key k => cases hc
      | idx i => exact ⟨i, c, q, by simp, hc, hq⟩
  | null | bool _ | int _ | flt _ | str _ =>
    simp only [pathsWhere, childAt, reduceCtorEq, false_and, exists_false, iff_false]
    split <;> simp

/-- `pathsWhere P` lists exactly the nodes satisfying `P` -/
theorem C11_pathsWhere_mem (P : Val → Bool) : ∀ (p : List PathElem) (v : Val), v.WF →
    (p ∈ pathsWhere P v ↔ ∃ t, subtreeAt v p = some t ∧ P t = true)
  | [], v, _ => by simp [C11_aux_nil_mem_pathsWhere, subtreeAt]
  | e :: q, v, hw => by
    rw [C11_aux_cons_mem_pathsWhere P e q v hw, C11_aux_subtreeAt_cons]
    cases hc : childAt v e with
    | none => simp
    | some c =>
      simp only [Option.some.injEq, exists_eq_left']
      exact C11_pathsWhere_mem P q c (C11_aux_childAt_wf hw hc)

/-- so: `p` is a hidden path iff the node at `p` is a map with `$output: false` or a list with a
    `{$output: false}` entry -/
theorem C11_hiddenPaths_mem (v : Val) (hw : v.WF) (p : List PathElem) :
    p ∈ hiddenPaths v ↔ ∃ t, subtreeAt v p = some t ∧ carriesFalse t = true :=
  C11_pathsWhere_mem carriesFalse p v hw

example : hiddenPaths c11_ex2 = [[.key "k"], [.key "l", .idx 2], [.key "l", .idx 2, .idx 0]] := by
  decide

/-- where a step lands after pruning: keys are unchanged, a list index is lowered by the number
    of hidden entries before it -/
def keptElem : Val → PathElem → PathElem
  | .list xs, .idx i => .idx ((xs.take i).countP (fun x => !hidden x))
  | _, e => e

/-- the image in `prune t` of a path of `t`; `none` if the path does not exist in `t` or leads
    through (or to) a hidden node below the root -/
def keptPath : Val → List PathElem → Option (List PathElem)
  | _, [] => some []
  | t, e :: p =>
    match childAt t e with
    | some c => if hidden c then none else (keptPath c p).map (keptElem t e :: ·)
    | none => none

theorem C11_aux_pruneList_getElem : ∀ (xs : List Val) (i : Nat) (c : Val),
    xs[i]? = some c → hidden c = false →
    (pruneList xs)[(xs.take i).countP (fun x => !hidden x)]? = some (prune c)
  | [], i, c, h, _ => by simp at h
  | x :: xs, 0, c, h, hh => by
    simp only [List.getElem?_cons_zero, Option.some.injEq] at h
    subst h
    simp [pruneList, hh]
  | x :: xs, i + 1, c, h, hh => by
    simp only [List.getElem?_cons_succ] at h
    have ih := C11_aux_pruneList_getElem xs i c h hh
    simp only [List.take_succ_cons, List.countP_cons, pruneList]
    cases hx : hidden x with
    | true => simpa using ih
    | false => simpa using ih

theorem C11_aux_pruneList_getElem_inv : ∀ (xs : List Val) (j : Nat) (s : Val),
    (pruneList xs)[j]? = some s →
    ∃ i c, xs[i]? = some c ∧ hidden c = false ∧ s = prune c ∧
      (xs.take i).countP (fun x => !hidden x) = j
  | [], j, s, h => by simp [pruneList] at h
  | x :: xs, j, s, h => by
    simp only [pruneList] at h
    cases hx : hidden x with
    | true =>
      rw [hx] at h
      simp only [if_true] at h
      obtain ⟨i, c, h1, h2, h3, h4⟩ := C11_aux_pruneList_getElem_inv xs j s h
      exact ⟨i + 1, c, by simpa using h1, h2, h3, by simp [List.take_succ_cons, hx, h4]⟩
    | false =>
      rw [hx] at h
      simp only [Bool.false_eq_true, if_false] at h
      cases j with
      | zero =>
        simp only [List.getElem?_cons_zero, Option.some.injEq] at h
        exact ⟨0, x, rfl, hx, h.symm, by simp⟩
      | succ j =>
        simp only [List.getElem?_cons_succ] at h
        obtain ⟨i, c, h1, h2, h3, h4⟩ := C11_aux_pruneList_getElem_inv xs j s h
        exact ⟨i + 1, c, by simpa using h1, h2, h3,
          by simp [List.take_succ_cons, hx, h4]⟩

theorem C11_aux_fget_pruneFields_inv : ∀ (kvs : Fields) (k : String) (s : Val),
    Fields.sortedKeysB kvs = true → fget (pruneFields kvs) k = some s →
    ∃ c, fget kvs k = some c ∧ hidden c = false ∧ s = prune c
  | [], _, _, _, h => by cases h
  | (k', v) :: rest, k, s, hs, h => by
    simp only [pruneFields] at h
    have ih := C11_aux_fget_pruneFields_inv rest k s (o_sorted_tail hs)
    have hne_of : ∀ c, fget rest k = some c → k' ≠ k := by
      intro c hc hk
      have := o_sorted_head_lt k' v rest hs (k, c) (o_mem_of_fget rest k c hc)
      rw [hk] at this
      exact String.lt_irrefl _ this
    cases hv : hidden v with
    | true =>
      rw [hv] at h
      simp only [if_true] at h
      obtain ⟨c, h1, h2, h3⟩ := ih h
      exact ⟨c, by simp only [fget, hne_of c h1, if_false]; exact h1, h2, h3⟩
    | false =>
      rw [hv] at h
      simp only [Bool.false_eq_true, if_false, fget] at h
      by_cases hk : k' = k
      · simp only [hk, if_true, Option.some.injEq] at h
        exact ⟨v, by simp only [fget, hk, if_true], hv, h.symm⟩
      · simp only [hk, if_false] at h
        obtain ⟨c, h1, h2, h3⟩ := ih h
        exact ⟨c, by simp only [fget, hk, if_false]; exact h1, h2, h3⟩

/-- a kept child is found in the pruned parent, at the translated step -/
theorem C11_aux_childAt_prune (t c : Val) (e : PathElem) (h : childAt t e = some c)
    (hh : hidden c = false) : childAt (prune t) (keptElem t e) = some (prune c) := by
  cases t with
  | map kvs =>
    cases e with
    | key k => exact C11_aux_fget_pruneFields kvs k c h hh
    | idx i => cases h
  | list xs =>
    cases e with
    | key k => cases h
    | idx i => exact C11_aux_pruneList_getElem xs i c h hh
  | _ => cases h

/-- … and every child of the pruned parent is such an image -/
theorem C11_aux_childAt_prune_inv (t s : Val) (e' : PathElem) (hw : t.WF)
    (h : childAt (prune t) e' = some s) :
    ∃ e c, childAt t e = some c ∧ hidden c = false ∧ s = prune c ∧ keptElem t e = e' := by
  cases t with
  | map kvs =>
    cases e' with
    | key k =>
      simp only [Val.WF, Val.wfB, Bool.and_eq_true] at hw
      obtain ⟨c, h1, h2, h3⟩ := C11_aux_fget_pruneFields_inv kvs k s hw.1 h
      exact ⟨.key k, c, h1, h2, h3, rfl⟩
    | idx i => cases h
  | list xs =>
    cases e' with
    | key k => cases h
    | idx j =>
      obtain ⟨i, c, h1, h2, h3, h4⟩ := C11_aux_pruneList_getElem_inv xs j s h
      exact ⟨.idx i, c, h1, h2, h3, by simp only [keptElem, h4]⟩
  | _ => cases h

/-- `p` exists in `t` but a node on the way (the root excluded, the end point included) is
    hidden -/
def droppedAt (t : Val) (p : List PathElem) : Prop :=
  ∃ q r c, p = q ++ r ∧ q ≠ [] ∧ subtreeAt t q = some c ∧ hidden c = true

theorem C11_aux_droppedAt_cons (t c : Val) (e : PathElem) (p : List PathElem)
    (hc : childAt t e = some c) :
    droppedAt t (e :: p) ↔ hidden c = true ∨ droppedAt c p := by
  constructor
  · rintro ⟨q, r, c', heq, hq, hs, hh⟩
    cases q with
    | nil => exact absurd rfl hq
    | cons e' q' =>
      simp only [List.cons_append, List.cons.injEq] at heq
      obtain ⟨rfl, rfl⟩ := heq
      rw [C11_aux_subtreeAt_cons, hc] at hs
      cases q' with
      | nil =>
        simp only [subtreeAt, Option.some.injEq] at hs
        subst hs; exact Or.inl hh
      | cons e2 q2 => exact Or.inr ⟨e2 :: q2, r, c', rfl, by simp, hs, hh⟩
  · rintro (hh | ⟨q, r, c', rfl, hq, hs, hh⟩)
    · exact ⟨[e], p, c, rfl, by simp, by rw [C11_aux_subtreeAt_cons, hc]; rfl, hh⟩
    · exact ⟨e :: q, r, c', rfl, by simp, by rw [C11_aux_subtreeAt_cons, hc]; exact hs, hh⟩

/-- **which paths are lost**: exactly those that do not exist or are dropped -/
theorem C11_keptPath_none : ∀ (p : List PathElem) (t : Val),
    keptPath t p = none ↔ subtreeAt t p = none ∨ droppedAt t p
  | [], t => by
    simp only [keptPath, subtreeAt, reduceCtorEq, false_or, false_iff]
    rintro ⟨q, r, _, heq, hq, _⟩
    cases q with
    | nil => exact hq rfl
    | cons _ _ => cases heq
  | e :: p, t => by
    rw [C11_aux_subtreeAt_cons]
    simp only [keptPath]
    cases hc : childAt t e with
    | none =>
      simp only [true_or]
    | some c =>
      simp only [C11_aux_droppedAt_cons t c e p hc]
      cases hh : hidden c with
      | true => simp
      | false =>
        simp only [Bool.false_eq_true, if_false, Option.map_eq_none_iff, false_or]
        exact C11_keptPath_none p c

/-- **the nodes that are kept** sit, pruned, at the translated path -/
theorem C11_keptPath_some : ∀ (p p' : List PathElem) (t : Val), keptPath t p = some p' →
    ∃ s, subtreeAt t p = some s ∧ subtreeAt (prune t) p' = some (prune s)
  | [], p', t, h => by
    simp only [keptPath, Option.some.injEq] at h
    subst h
    exact ⟨t, rfl, rfl⟩
  | e :: p, p', t, h => by
    simp only [keptPath] at h
    cases hc : childAt t e with
    | none => rw [hc] at h; cases h
    | some c =>
      rw [hc] at h
      simp only at h
      cases hh : hidden c with
      | true => rw [hh] at h; cases h
      | false =>
        rw [hh] at h
        simp only [Bool.false_eq_true, if_false, Option.map_eq_some_iff] at h
        obtain ⟨p1, h1, rfl⟩ := h
        obtain ⟨s, h2, h3⟩ := C11_keptPath_some p p1 c h1
        refine ⟨s, ?_, ?_⟩
        · rw [C11_aux_subtreeAt_cons, hc]; exact h2
        · rw [C11_aux_subtreeAt_cons, C11_aux_childAt_prune t c e hc hh]; exact h3

/-- **nothing else is there**: every node of `prune t` is the image of a kept node of `t` -/
theorem C11_keptPath_surj : ∀ (p' : List PathElem) (t s : Val), t.WF →
    subtreeAt (prune t) p' = some s → ∃ p, keptPath t p = some p'
  | [], t, s, _, _ => ⟨[], rfl⟩
  | e' :: p1', t, s, hw, h => by
    rw [C11_aux_subtreeAt_cons] at h
    cases hc : childAt (prune t) e' with
    | none => rw [hc] at h; cases h
    | some s1 =>
      rw [hc] at h
      obtain ⟨e, c, h1, h2, rfl, rfl⟩ := C11_aux_childAt_prune_inv t s1 e' hw hc
      obtain ⟨p1, h3⟩ := C11_keptPath_surj p1' c s (C11_aux_childAt_wf hw h1) h
      exact ⟨e :: p1, by simp only [keptPath, h1, h2, Bool.false_eq_true, if_false, h3]; rfl⟩

/-- "dropped" in terms of `hiddenPaths`: a non-empty prefix of the path is a hidden path, or
    leads to a `null` -/
theorem C11_droppedAt_iff (t : Val) (hw : t.WF) (p : List PathElem) :
    droppedAt t p ↔
      ∃ q r, p = q ++ r ∧ q ≠ [] ∧ (q ∈ hiddenPaths t ∨ subtreeAt t q = some .null) := by
  constructor
  · rintro ⟨q, r, c, rfl, hq, hs, hh⟩
    refine ⟨q, r, rfl, hq, ?_⟩
    rw [C11_hidden_eq, Bool.or_eq_true] at hh
    rcases hh with hh | hh
    · exact Or.inl ((C11_hiddenPaths_mem t hw q).2 ⟨c, hs, hh⟩)
    · cases c <;> simp_all [Val.isNull]
  · rintro ⟨q, r, rfl, hq, h | h⟩
    · obtain ⟨c, hs, hh⟩ := (C11_hiddenPaths_mem t hw q).1 h
      exact ⟨q, r, c, rfl, hq, hs, by rw [C11_hidden_eq, hh]; rfl⟩
    · exact ⟨q, r, .null, rfl, hq, h, rfl⟩

/-- **Hiding, specified.**  For a candidate `t` (a selected subtree or the root):
    (1) `filterOutput` returns nothing for a hidden `t`, else `prune t`;
    (2) the paths of `t` that are lost are exactly the non-existent ones and those with a
        non-empty prefix in `hiddenPaths t` (or at a `null`): nothing at or below a hidden path
        survives;
    (3) every other node of `t` is in `prune t`, pruned, at the translated path;
    (4) `prune t` has no other nodes. -/
theorem C11_hidden_spec (t : Val) (hw : t.WF) :
    (∀ r, filterOutput t = .ok r → r = if hidden t then none else some (prune t)) ∧
    (∀ p, keptPath t p = none ↔ subtreeAt t p = none ∨
      ∃ q r, p = q ++ r ∧ q ≠ [] ∧ (q ∈ hiddenPaths t ∨ subtreeAt t q = some .null)) ∧
    (∀ p p', keptPath t p = some p' →
      ∃ s, subtreeAt t p = some s ∧ subtreeAt (prune t) p' = some (prune s)) ∧
    (∀ p' s, subtreeAt (prune t) p' = some s → ∃ p, keptPath t p = some p') := by
  refine ⟨?_, ?_, fun p p' => C11_keptPath_some p p' t, fun p' s => C11_keptPath_surj p' t s hw⟩
  · intro r h
    rw [C11_filterOutput_eq t] at h
    split at h
    · cases h
    · cases h; rfl
  · intro p
    rw [C11_keptPath_none p t, C11_droppedAt_iff t hw p]

/-- **A hidden root yields no document**: `filterOutput` returns nothing (a hidden list whose
    marker entry has extra keys is rejected instead), so a document without selection markers
    whose root is hidden produces no output at all. -/
theorem C11_hidden_root (t : Val) (hh : hidden t = true) :
    (filterOutput t = .ok none ∨ filterOutput t = .error .extraKeys) ∧
    (∀ r, filterOutput t = .ok r → r = none) ∧
    renderDoc t = none ∧
    (t.WF → hasOutTrue t = false → emit [t] = .ok [] ∨ emit [t] = .error .extraKeys) := by
  have h1 : filterOutput t = .ok none ∨ filterOutput t = .error .extraKeys := by
    rw [C11_filterOutput_eq t, hh]
    cases filterFails t
    · left; rfl
    · right; rfl
  refine ⟨h1, ?_, by simp [renderDoc, hh], ?_⟩
  · intro r h
    rcases h1 with h1 | h1 <;> rw [h1] at h <;> cases h
    rfl
  · intro hw hm
    rw [((C11_root_fallback_spec t hw).1 hm).2.2]
    rcases h1 with h1 | h1 <;> rw [h1]
    · left; rfl
    · right; rfl

example : prune c11_ex2 = .map [("l", .list [.int 1, .str "$$z"])] ∧
    keptPath c11_ex2 [.key "l", .idx 3] = some [.key "l", .idx 1] ∧
    subtreeAt (prune c11_ex2) [.key "l", .idx 1] = some (.str "$$z") ∧
    keptPath c11_ex2 [.key "l", .idx 2, .idx 0] = none ∧
    keptPath c11_ex2 [.key "k", .key "h"] = none ∧ keptPath c11_ex2 [.key "l", .idx 0] = none := by
  decide
example : hidden (.list [.int 1, .map [("$output", .bool false)]]) = true ∧
    emit [.list [.int 1, .map [("$output", .bool false)]]] = .ok [] ∧
    emit [.list [.int 1, .map [("$output", .bool false), ("x", .int 1)]]] = .error .extraKeys := by
  decide

end Bkl
