/-
  C11 — `$output` selects exactly the marked subtrees and hides exactly the excluded ones.
  Model: `findOutputs`, `filterOutput`, `emit` (Bkl/Output.lean).
  Specification functions are defined here, independently of the model.  Theorems about `Val`
  come with `_list` / `_fields` companions (mutual structural proofs over the nested inductive).
-/
import Bkl
import BklProofs.Lemmas.Output
import BklProofs.Lemmas.OutputSel
namespace Bkl

/-! ## Specification functions -/

mutual
/-- some map in `v` carries `$output: true`, or some list has a `{$output: true}` entry -/
def hasOutTrue : Val → Bool
  | .map kvs => fhasBool kvs "$output" true || hasOutTrueFields kvs
  | .list xs => hasListMapBool xs "$output" true || hasOutTrueList xs
  | _ => false
def hasOutTrueList : List Val → Bool
  | [] => false
  | x :: xs => hasOutTrue x || hasOutTrueList xs
def hasOutTrueFields : Fields → Bool
  | [] => false
  | (_, v) :: rest => hasOutTrue v || hasOutTrueFields rest
end

mutual
/-- the same for `$output: false` -/
def hasOutFalse : Val → Bool
  | .map kvs => fhasBool kvs "$output" false || hasOutFalseFields kvs
  | .list xs => hasListMapBool xs "$output" false || hasOutFalseList xs
  | _ => false
def hasOutFalseList : List Val → Bool
  | [] => false
  | x :: xs => hasOutFalse x || hasOutFalseList xs
def hasOutFalseFields : Fields → Bool
  | [] => false
  | (_, v) :: rest => hasOutFalse v || hasOutFalseFields rest
end

/-- a list entry that is a `$output: true` marker (consumed by the enclosing list) -/
def isTrueMarker : Val → Bool
  | .map m => fhasBool m "$output" true
  | _ => false

mutual
/-- number of containers carrying the marker: maps with `$output: true`, lists with at least one
    `{$output: true}` entry (the marker entries themselves are consumed, not counted) -/
def countSel : Val → Nat
  | .map kvs => (if fhasBool kvs "$output" true then 1 else 0) + countSelFields kvs
  | .list xs => (if hasListMapBool xs "$output" true then 1 else 0) + countSelList xs
  | _ => 0
def countSelList : List Val → Nat
  | [] => 0
  | x :: xs => (if isTrueMarker x then 0 else countSel x) + countSelList xs
def countSelFields : Fields → Nat
  | [] => 0
  | (_, v) :: rest => countSel v + countSelFields rest
end

/-- a value that `filterOutput` drops -/
def hidden : Val → Bool
  | .map kvs => fhasBool kvs "$output" false
  | .list xs => hasListMapBool xs "$output" false
  | .null => true
  | _ => false

mutual
/-- no `null` anywhere (root, map values, list entries) -/
def noNull : Val → Bool
  | .null => false
  | .map kvs => noNullFields kvs
  | .list xs => noNullList xs
  | _ => true
def noNullList : List Val → Bool
  | [] => true
  | x :: xs => noNull x && noNullList xs
def noNullFields : Fields → Bool
  | [] => true
  | (_, v) :: rest => noNull v && noNullFields rest
end

mutual
/-- some map in `v` has the key `k` -/
def hasKey (k : String) : Val → Bool
  | .map kvs => hasKeyFields k kvs
  | .list xs => hasKeyList k xs
  | _ => false
def hasKeyList (k : String) : List Val → Bool
  | [] => false
  | x :: xs => hasKey k x || hasKeyList k xs
def hasKeyFields (k : String) : Fields → Bool
  | [] => false
  | (k', v) :: rest => k' == k || hasKey k v || hasKeyFields k rest
end

theorem C11_aux_isTrueMarker_eq (x : Val) : isTrueMarker x = o_isMarker "$output" true x := by
  cases x <;> rfl

/-! ## No marker: nothing is selected, the tree is unchanged -/

mutual
theorem C11_no_marker_root_fallback : ∀ (v : Val), hasOutTrue v = false →
    findOutputs v = .ok (v, [])
  | .map kvs, h => by
    simp only [hasOutTrue, Bool.or_eq_false_iff] at h
    simp only [findOutputs, h.1, C11_no_marker_root_fallback_fields kvs h.2]
    rfl
  | .list xs, h => by
    simp only [hasOutTrue, Bool.or_eq_false_iff] at h
    simp only [findOutputs, h.1, C11_no_marker_root_fallback_list xs h.2]
    rfl
  | .null, _ | .bool _, _ | .int _, _ | .flt _, _ | .str _, _ => rfl
theorem C11_no_marker_root_fallback_list : ∀ (xs : List Val), hasOutTrueList xs = false →
    findOutputsList xs false = .ok (xs, [])
  | [], _ => rfl
  | x :: xs, h => by
    simp only [hasOutTrueList, Bool.or_eq_false_iff] at h
    rw [findOutputsList_cons_eq]
    simp only [Bool.false_and, Bool.false_eq_true, if_false, C11_no_marker_root_fallback x h.1,
      C11_no_marker_root_fallback_list xs h.2]
    rfl
theorem C11_no_marker_root_fallback_fields : ∀ (kvs : Fields), hasOutTrueFields kvs = false →
    findOutputsFields kvs false = .ok (kvs, [])
  | [], _ => rfl
  | (k, v) :: rest, h => by
    simp only [hasOutTrueFields, Bool.or_eq_false_iff] at h
    simp only [findOutputsFields, Bool.false_and, Bool.false_eq_true, if_false,
      C11_no_marker_root_fallback v h.1, C11_no_marker_root_fallback_fields rest h.2]
    rfl
end

example : hasOutTrue (.map [("a", .list [.int 1, .map [("$output", .bool false)]])]) = false := by
  decide

/-- consequently the first loop of `emit` (see `emit_eq`) passes the document root on -/
theorem C11_no_marker_emit_root (d : Val) (h : hasOutTrue d = false) :
    emitSelect [d] = .ok [d] := by
  simp only [emitSelect, C11_no_marker_root_fallback d h]
  rfl

/-! ## The number of selected subtrees -/

/-- Without well-formedness (sorted, hence duplicate-free keys) the count is wrong: a second
    `$output` entry is skipped together with the marker, so markers below it are never seen. -/
example : ∃ v v' outs, findOutputs v = .ok (v', outs) ∧ outs.length ≠ countSel v :=
  ⟨.map [("$output", .bool true), ("$output", .map [("$output", .bool true)])], .map [], [.map []],
    by decide, by decide⟩

mutual
/-- `_partial`: needs `Val.WF` (see the counterexample above) -/
theorem C11_selected_count_partial : ∀ (v v' : Val) (outs : List Val), v.wfB = true →
    findOutputs v = .ok (v', outs) → outs.length = countSel v
  | .map kvs, v', outs, hw, h => by
    obtain ⟨ret, o, hf, rfl, rfl⟩ := findOutputs_map_ok h
    simp only [Val.wfB, Bool.and_eq_true] at hw
    have ih := C11_selected_count_fields kvs (fhasBool kvs "$output" true) ret o hw.2
      (fun hs => o_fhasBool_sorted_mem kvs _ _ hw.1 hs) hf
    simp only [countSel]
    split
    · simp only [List.length_cons, ih]; omega
    · simp only [ih]; omega
  | .list xs, v', outs, hw, h => by
    obtain ⟨ret, o, hf, rfl, rfl⟩ := findOutputs_list_ok h
    simp only [Val.wfB] at hw
    have ih := C11_selected_count_list xs (hasListMapBool xs "$output" true) ret o hw id hf
    simp only [countSel]
    split
    · simp only [List.length_append, List.length_cons, List.length_nil, ih]; omega
    · simp only [ih]; omega
  | .null, v', outs, _, h | .bool _, v', outs, _, h | .int _, v', outs, _, h
  | .flt _, v', outs, _, h | .str _, v', outs, _, h => by
    obtain ⟨_, rfl⟩ := findOutputs_scalar_ok rfl rfl h; rfl
theorem C11_selected_count_list : ∀ (xs : List Val) (skip : Bool) (r outs : List Val),
    Val.wfListB xs = true → (hasListMapBool xs "$output" true = true → skip = true) →
    findOutputsList xs skip = .ok (r, outs) → outs.length = countSelList xs
  | [], skip, r, outs, _, _, h => by obtain ⟨_, rfl⟩ := findOutputsList_nil_ok h; rfl
  | x :: xs, skip, r, outs, hw, hinv, h => by
    simp only [Val.wfListB, Bool.and_eq_true] at hw
    rw [o_hasListMapBool_cons] at hinv
    have hinv' : hasListMapBool xs "$output" true = true → skip = true :=
      fun hx => hinv (by simp [hx])
    rcases findOutputsList_cons_ok h with
      ⟨_, ⟨m, rfl, hb, _⟩, h'⟩ | ⟨hc, x', o1, xs', o2, h1, h2, _, rfl⟩
    · have ih := C11_selected_count_list xs skip r outs hw.2 hinv' h'
      simp only [countSelList, isTrueMarker, hb, if_true]; omega
    · have hm : isTrueMarker x = false := by
        cases hx : isTrueMarker x with
        | false => rfl
        | true =>
          rw [C11_aux_isTrueMarker_eq] at hx
          exact absurd ⟨hinv (by simp [hx]), hx⟩ hc
      have ih1 := C11_selected_count_partial x x' o1 hw.1 h1
      have ih2 := C11_selected_count_list xs skip xs' o2 hw.2 hinv' h2
      simp only [countSelList, hm, List.length_append]; simp only [Bool.false_eq_true, if_false]; omega
theorem C11_selected_count_fields : ∀ (kvs : Fields) (skip : Bool) (r : Fields) (outs : List Val),
    Val.wfFieldsB kvs = true →
    (skip = true → ∀ kv ∈ kvs, kv.1 = "$output" → kv.2 = .bool true) →
    findOutputsFields kvs skip = .ok (r, outs) → outs.length = countSelFields kvs
  | [], skip, r, outs, _, _, h => by obtain ⟨_, rfl⟩ := findOutputsFields_nil_ok h; rfl
  | (k, v) :: rest, skip, r, outs, hw, hinv, h => by
    simp only [Val.wfFieldsB, Bool.and_eq_true] at hw
    have hinv' : skip = true → ∀ kv ∈ rest, kv.1 = "$output" → kv.2 = .bool true :=
      fun hs kv hm => hinv hs kv (List.mem_cons_of_mem _ hm)
    rcases findOutputsFields_cons_ok h with ⟨hs, hk, h'⟩ | ⟨_, v', o1, rest', o2, h1, h2, _, rfl⟩
    · have hv : v = .bool true := hinv hs (k, v) List.mem_cons_self hk
      have ih := C11_selected_count_fields rest skip r outs hw.2 hinv' h'
      simp only [countSelFields, hv, countSel]; omega
    · have ih1 := C11_selected_count_partial v v' o1 hw.1 h1
      have ih2 := C11_selected_count_fields rest skip rest' o2 hw.2 hinv' h2
      simp only [countSelFields, List.length_append]; omega
end

example :
    let v := Val.map [("$output", .bool true), ("a", .list [.map [("$output", .bool true)], .int 1]),
                      ("b", .map [("$output", .bool true), ("c", .int 2)])]
    v.wfB = true ∧ findOutputs v =
      .ok (.map [("a", .list [.int 1]), ("b", .map [("c", .int 2)])],
           [.map [("a", .list [.int 1]), ("b", .map [("c", .int 2)])], .list [.int 1],
            .map [("c", .int 2)]]) ∧ countSel v = 3 := by
  decide

/-! ## No `$output: true` marker survives selection -/

/-- auxiliary: a list whose entries contain no marker has no marker entry -/
theorem C11_aux_hasOutTrueList (xs : List Val) (h : hasOutTrueList xs = false) :
    hasListMapBool xs "$output" true = false := by
  induction xs with
  | nil => rfl
  | cons x xs ih =>
    simp only [hasOutTrueList, Bool.or_eq_false_iff] at h
    rw [o_hasListMapBool_cons, ih h.2, Bool.or_false]
    cases x with
    | map m =>
      have := h.1; simp only [hasOutTrue, Bool.or_eq_false_iff] at this
      exact this.1
    | _ => rfl

mutual
theorem C11_markers_stripped : ∀ (v v' : Val) (outs : List Val),
    findOutputs v = .ok (v', outs) →
    hasOutTrue v' = false ∧ ∀ o ∈ outs, hasOutTrue o = false
  | .map kvs, v', outs, h => by
    obtain ⟨ret, o, hf, rfl, rfl⟩ := findOutputs_map_ok h
    obtain ⟨ih1, ih2⟩ := C11_markers_stripped_fields kvs _ ret o hf
    have hself : hasOutTrue (.map ret) = false := by
      simp only [hasOutTrue, ih1, Bool.or_false]
      cases hs : fhasBool kvs "$output" true with
      | true =>
        rw [hs] at hf; unfold fhasBool
        rw [o_fget_none_of_no_key ret _ (o_findOutputsFields_skip_no_key kvs ret o hf)]
      | false =>
        rw [hs] at hf; rw [o_findOutputsFields_noskip_fhasBool true kvs ret o hf, hs]
    refine ⟨hself, ?_⟩
    intro x hx
    split at hx
    · rcases List.mem_cons.1 hx with rfl | hx'
      · exact hself
      · exact ih2 x hx'
    · exact ih2 x hx
  | .list xs, v', outs, h => by
    obtain ⟨ret, o, hf, rfl, rfl⟩ := findOutputs_list_ok h
    obtain ⟨ih1, ih2⟩ := C11_markers_stripped_list xs _ ret o hf
    have hself : hasOutTrue (.list ret) = false := by
      simp only [hasOutTrue, ih1, C11_aux_hasOutTrueList ret ih1, Bool.or_false]
    refine ⟨hself, ?_⟩
    intro x hx
    split at hx
    · rcases List.mem_append.1 hx with hx' | hx'
      · exact ih2 x hx'
      · rw [List.mem_singleton.1 hx']; exact hself
    · exact ih2 x hx
  | .null, v', outs, h | .bool _, v', outs, h | .int _, v', outs, h
  | .flt _, v', outs, h | .str _, v', outs, h => by
    obtain ⟨rfl, rfl⟩ := findOutputs_scalar_ok rfl rfl h
    exact ⟨rfl, fun _ hm => nomatch hm⟩
theorem C11_markers_stripped_list : ∀ (xs : List Val) (skip : Bool) (r outs : List Val),
    findOutputsList xs skip = .ok (r, outs) →
    hasOutTrueList r = false ∧ ∀ o ∈ outs, hasOutTrue o = false
  | [], skip, r, outs, h => by
    obtain ⟨rfl, rfl⟩ := findOutputsList_nil_ok h
    exact ⟨rfl, fun _ hm => nomatch hm⟩
  | x :: xs, skip, r, outs, h => by
    rcases findOutputsList_cons_ok h with ⟨_, _, h'⟩ | ⟨_, x', o1, xs', o2, h1, h2, rfl, rfl⟩
    · exact C11_markers_stripped_list xs skip r outs h'
    · obtain ⟨a1, a2⟩ := C11_markers_stripped x x' o1 h1
      obtain ⟨b1, b2⟩ := C11_markers_stripped_list xs skip xs' o2 h2
      refine ⟨by simp only [hasOutTrueList, a1, b1, Bool.or_false], ?_⟩
      intro y hy
      rcases List.mem_append.1 hy with hy' | hy'
      · exact a2 y hy'
      · exact b2 y hy'
theorem C11_markers_stripped_fields : ∀ (kvs : Fields) (skip : Bool) (r : Fields)
    (outs : List Val), findOutputsFields kvs skip = .ok (r, outs) →
    hasOutTrueFields r = false ∧ ∀ o ∈ outs, hasOutTrue o = false
  | [], skip, r, outs, h => by
    obtain ⟨rfl, rfl⟩ := findOutputsFields_nil_ok h
    exact ⟨rfl, fun _ hm => nomatch hm⟩
  | (k, v) :: rest, skip, r, outs, h => by
    rcases findOutputsFields_cons_ok h with ⟨_, _, h'⟩ | ⟨_, v', o1, rest', o2, h1, h2, rfl, rfl⟩
    · exact C11_markers_stripped_fields rest skip r outs h'
    · obtain ⟨a1, a2⟩ := C11_markers_stripped v v' o1 h1
      obtain ⟨b1, b2⟩ := C11_markers_stripped_fields rest skip rest' o2 h2
      refine ⟨by simp only [hasOutTrueFields, a1, b1, Bool.or_false], ?_⟩
      intro y hy
      rcases List.mem_append.1 hy with hy' | hy'
      · exact a2 y hy'
      · exact b2 y hy'
end

example : findOutputs (.map [("a", .list [.map [("$output", .bool true)], .int 1]),
                           ("b", .map [("$output", .bool true), ("c", .int 2)])]) =
    .ok (.map [("a", .list [.int 1]), ("b", .map [("c", .int 2)])],
         [.list [.int 1], .map [("c", .int 2)]]) := by decide

/-! ## Order of the selected subtrees -/

/-- a marked map is itself the first selected document -/
theorem C11_map_self_first (kvs : Fields) (v' : Val) (outs : List Val)
    (hm : fhasBool kvs "$output" true = true) (h : findOutputs (.map kvs) = .ok (v', outs)) :
    outs.head? = some v' := by
  obtain ⟨ret, o, _, rfl, rfl⟩ := findOutputs_map_ok h
  simp [hm]

/-- a marked list is itself the last selected document -/
theorem C11_list_self_last (xs : List Val) (v' : Val) (outs : List Val)
    (hm : hasListMapBool xs "$output" true = true) (h : findOutputs (.list xs) = .ok (v', outs)) :
    outs.getLast? = some v' := by
  obtain ⟨ret, o, _, rfl, rfl⟩ := findOutputs_list_ok h
  simp [hm]

example : findOutputs (.map [("$output", .bool true), ("a", .map [("$output", .bool true)])]) =
    .ok (.map [("a", .map [])], [.map [("a", .map [])], .map []]) := by decide
example : findOutputs (.list [.map [("$output", .bool true)], .list [.map [("$output", .bool true)]]])
    = .ok (.list [.list []], [.list [], .list [.list []]]) := by decide

/-! ## Hiding: `filterOutput` drops exactly the hidden values -/

/-- when `filterOutput` succeeds, it returns nothing iff the value is hidden -/
theorem C11_hide_spec (v : Val) (r : Option Val) (h : filterOutput v = .ok r) :
    r = none ↔ hidden v = true := by
  cases v with
  | map kvs =>
    rcases filterOutput_map_ok h with ⟨hb, rfl⟩ | ⟨hb, fs, _, rfl⟩ <;> simp [hidden, hb]
  | list xs =>
    rcases filterOutput_list_ok h with ⟨hb, rfl⟩ | ⟨hb, rs, _, rfl⟩ <;> simp [hidden, hb]
  | null => rw [filterOutput_scalar_ok rfl rfl h]; simp [hidden, Val.isNull]
  | bool _ | int _ | flt _ | str _ =>
    rw [filterOutput_scalar_ok rfl rfl h]; simp [hidden, Val.isNull]

example : filterOutput (.list [.int 1, .map [("$output", .bool false)]]) = .ok none := by decide
example : filterOutput (.map [("$output", .bool true)]) = .ok (some (.map [("$output", .bool true)])) := by
  decide

/-- a hidden value is dropped or (list marker entry with extra keys) rejected, never kept -/
theorem C11_hidden_not_kept (v r : Val) (hh : hidden v = true) : filterOutput v ≠ .ok (some r) := by
  intro h
  have := (C11_hide_spec v _ h).2 hh
  cases this

/-- the entries of a visible map: exactly the entries whose value is kept, in order, each with
    its filtered value; and every child was filtered successfully -/
theorem C11_hide_spec_map (kvs r : Fields) (h : filterOutput (.map kvs) = .ok (some (.map r))) :
    hidden (.map kvs) = false ∧
    (∀ kv ∈ kvs, ∃ o, filterOutput kv.2 = .ok o) ∧
    r = kvs.filterMap fun kv =>
      match filterOutput kv.2 with
      | .ok (some v'') => some (kv.1, v'')
      | _ => none := by
  rcases filterOutput_map_ok h with ⟨_, h'⟩ | ⟨hb, fs, hf, h'⟩
  · cases h'
  · cases h'
    exact ⟨hb, o_filterOutputFields_spec kvs r hf⟩

/-- the same for lists -/
theorem C11_hide_spec_list (xs r : List Val) (h : filterOutput (.list xs) = .ok (some (.list r))) :
    hidden (.list xs) = false ∧
    (∀ x ∈ xs, ∃ o, filterOutput x = .ok o) ∧
    r = xs.filterMap fun x =>
      match filterOutput x with
      | .ok (some x'') => some x''
      | _ => none := by
  rcases filterOutput_list_ok h with ⟨_, h'⟩ | ⟨hb, rs, hf, h'⟩
  · cases h'
  · cases h'
    exact ⟨hb, o_filterOutputList_spec xs r hf⟩

example : filterOutput (.map [("a", .null), ("b", .map [("$output", .bool false)]), ("c", .int 1)])
    = .ok (some (.map [("c", .int 1)])) := by decide
example : filterOutput (.list [.null, .list [.map [("$output", .bool false)]], .int 1])
    = .ok (some (.list [.int 1])) := by decide

/-! ## Nothing hidden survives -/

/-- Without well-formedness a shadowed second `$output` key can surface after the first one
    has been dropped. -/
example : ∃ v r, filterOutput v = .ok (some r) ∧ hasOutFalse r = true :=
  ⟨.map [("$output", .null), ("$output", .bool false)], .map [("$output", .bool false)],
    by decide, by decide⟩

/-- auxiliary: a list whose entries contain no `$output: false` has no such marker entry -/
theorem C11_aux_hasOutFalseList (xs : List Val) (h : hasOutFalseList xs = false) :
    hasListMapBool xs "$output" false = false := by
  induction xs with
  | nil => rfl
  | cons x xs ih =>
    simp only [hasOutFalseList, Bool.or_eq_false_iff] at h
    rw [o_hasListMapBool_cons, ih h.2, Bool.or_false]
    cases x with
    | map m =>
      have := h.1; simp only [hasOutFalse, Bool.or_eq_false_iff] at this
      exact this.1
    | _ => rfl

mutual
/-- `_partial`: needs `Val.WF` (see the counterexample above) -/
theorem C11_hidden_absent_partial : ∀ (v r : Val), v.wfB = true →
    filterOutput v = .ok (some r) → hasOutFalse r = false ∧ noNull r = true
  | .map kvs, r, hw, h => by
    simp only [Val.wfB, Bool.and_eq_true] at hw
    rcases filterOutput_map_ok h with ⟨_, h'⟩ | ⟨hb, fs, hf, h'⟩
    · cases h'
    · cases h'
      obtain ⟨ih1, ih2⟩ := C11_hidden_absent_fields kvs fs hw.2 hf
      exact ⟨by simp only [hasOutFalse, ih1, o_filterOutputFields_fhasBool kvs fs false hw.1 hf hb,
        Bool.or_false], by simpa only [noNull] using ih2⟩
  | .list xs, r, hw, h => by
    simp only [Val.wfB] at hw
    rcases filterOutput_list_ok h with ⟨_, h'⟩ | ⟨hb, rs, hf, h'⟩
    · cases h'
    · cases h'
      obtain ⟨ih1, ih2⟩ := C11_hidden_absent_list xs rs hw hf
      exact ⟨by simp only [hasOutFalse, ih1, C11_aux_hasOutFalseList rs ih1, Bool.or_false],
        by simpa only [noNull] using ih2⟩
  | .null, r, _, h => by cases filterOutput_scalar_ok rfl rfl h
  | .bool _, r, _, h | .int _, r, _, h | .flt _, r, _, h | .str _, r, _, h => by
    have := filterOutput_scalar_ok rfl rfl h
    simp only [Val.isNull, Bool.false_eq_true, if_false, Option.some.injEq] at this
    subst this; exact ⟨rfl, rfl⟩
theorem C11_hidden_absent_list : ∀ (xs rs : List Val), Val.wfListB xs = true →
    filterOutputList xs = .ok rs → hasOutFalseList rs = false ∧ noNullList rs = true
  | [], rs, _, h => by rw [filterOutputList_nil_ok h]; exact ⟨rfl, rfl⟩
  | x :: xs, rs, hw, h => by
    simp only [Val.wfListB, Bool.and_eq_true] at hw
    obtain ⟨o, rs', h1, h2, rfl⟩ := filterOutputList_cons_ok h
    obtain ⟨b1, b2⟩ := C11_hidden_absent_list xs rs' hw.2 h2
    cases o with
    | none => exact ⟨b1, b2⟩
    | some x' =>
      obtain ⟨a1, a2⟩ := C11_hidden_absent_partial x x' hw.1 h1
      exact ⟨by simp only [hasOutFalseList, a1, b1, Bool.or_false],
        by simp only [noNullList, a2, b2, Bool.and_true]⟩
theorem C11_hidden_absent_fields : ∀ (kvs fs : Fields), Val.wfFieldsB kvs = true →
    filterOutputFields kvs = .ok fs → hasOutFalseFields fs = false ∧ noNullFields fs = true
  | [], fs, _, h => by rw [filterOutputFields_nil_ok h]; exact ⟨rfl, rfl⟩
  | (k, v) :: rest, fs, hw, h => by
    simp only [Val.wfFieldsB, Bool.and_eq_true] at hw
    obtain ⟨o, fs', h1, h2, rfl⟩ := filterOutputFields_cons_ok h
    obtain ⟨b1, b2⟩ := C11_hidden_absent_fields rest fs' hw.2 h2
    cases o with
    | none => exact ⟨b1, b2⟩
    | some v' =>
      obtain ⟨a1, a2⟩ := C11_hidden_absent_partial v v' hw.1 h1
      exact ⟨by simp only [hasOutFalseFields, a1, b1, Bool.or_false],
        by simp only [noNullFields, a2, b2, Bool.and_true]⟩
end

example :
    let v := Val.map [("a", .null), ("b", .map [("$output", .bool false), ("x", .int 1)]),
                      ("c", .list [.int 1, .null, .list [.map [("$output", .bool false)]]])]
    v.wfB = true ∧ filterOutput v = .ok (some (.map [("c", .list [.int 1])])) := by decide

mutual
/-- `noNull` holds without well-formedness -/
theorem C11_no_null : ∀ (v r : Val), filterOutput v = .ok (some r) → noNull r = true
  | .map kvs, r, h => by
    rcases filterOutput_map_ok h with ⟨_, h'⟩ | ⟨_, fs, hf, h'⟩
    · cases h'
    · cases h'; simpa only [noNull] using C11_no_null_fields kvs fs hf
  | .list xs, r, h => by
    rcases filterOutput_list_ok h with ⟨_, h'⟩ | ⟨_, rs, hf, h'⟩
    · cases h'
    · cases h'; simpa only [noNull] using C11_no_null_list xs rs hf
  | .null, r, h => by cases filterOutput_scalar_ok rfl rfl h
  | .bool _, r, h | .int _, r, h | .flt _, r, h | .str _, r, h => by
    have := filterOutput_scalar_ok rfl rfl h
    simp only [Val.isNull, Bool.false_eq_true, if_false, Option.some.injEq] at this
    subst this; rfl
theorem C11_no_null_list : ∀ (xs rs : List Val), filterOutputList xs = .ok rs →
    noNullList rs = true
  | [], rs, h => by rw [filterOutputList_nil_ok h]; rfl
  | x :: xs, rs, h => by
    obtain ⟨o, rs', h1, h2, rfl⟩ := filterOutputList_cons_ok h
    have b := C11_no_null_list xs rs' h2
    cases o with
    | none => exact b
    | some x' => simp only [noNullList, C11_no_null x x' h1, b, Bool.and_true]
theorem C11_no_null_fields : ∀ (kvs fs : Fields), filterOutputFields kvs = .ok fs →
    noNullFields fs = true
  | [], fs, h => by rw [filterOutputFields_nil_ok h]; rfl
  | (k, v) :: rest, fs, h => by
    obtain ⟨o, fs', h1, h2, rfl⟩ := filterOutputFields_cons_ok h
    have b := C11_no_null_fields rest fs' h2
    cases o with
    | none => exact b
    | some v' => simp only [noNullFields, C11_no_null v v' h1, b, Bool.and_true]
end

/-! ## A marker entry with extra keys is an error -/

theorem C11_marker_extra_keys_error (m : Fields) (hb : fhasBool m "$output" true = true)
    (hl : (fdel m "$output").length > 0) :
    findOutputs (.list [.map m]) = .error .extraKeys := by
  have hs : hasListMapBool [.map m] "$output" true = true := by
    simp [hasListMapBool, hb]
  simp only [findOutputs, hs, findOutputsList, hb, Bool.and_self, if_true, hl]
  rfl

/-- anywhere in a list, such an entry makes `findOutputs` fail (possibly with an earlier error) -/
theorem C11_marker_extra_keys_error_mem (xs : List Val) (m : Fields) (hm : .map m ∈ xs)
    (hb : fhasBool m "$output" true = true) (hl : (fdel m "$output").length > 0) :
    ∃ e, findOutputs (.list xs) = .error e := by
  cases h : findOutputs (.list xs) with
  | error e => exact ⟨e, rfl⟩
  | ok p =>
    obtain ⟨v', outs⟩ := p
    obtain ⟨ret, o, hf, _, _⟩ := findOutputs_list_ok h
    have hs : hasListMapBool xs "$output" true = true := by
      simp only [hasListMapBool, List.any_eq_true]
      exact ⟨.map m, hm, hb⟩
    rw [hs] at hf
    have := o_findOutputsList_marker_clean xs ret o hf m hm hb
    omega

example : fhasBool [("$output", .bool true), ("x", .int 1)] "$output" true = true ∧
    (fdel [("$output", .bool true), ("x", .int 1)] "$output").length > 0 := by decide

/-! ## No `$output` key reaches the finalisation step of `emit` -/

mutual
/-- a validated tree has no map key that `validateString` rejects -/
theorem C11_validate_no_bad_key (k : String) (hk : validateString k ≠ .ok ()) :
    ∀ (v : Val), validate v = .ok () → hasKey k v = false
  | .map kvs, h => by
    simp only [validate] at h; simp only [hasKey]
    exact C11_validate_no_bad_key_fields k hk kvs h
  | .list xs, h => by
    simp only [validate] at h; simp only [hasKey]
    exact C11_validate_no_bad_key_list k hk xs h
  | .null, _ | .bool _, _ | .int _, _ | .flt _, _ | .str _, _ => rfl
theorem C11_validate_no_bad_key_list (k : String) (hk : validateString k ≠ .ok ()) :
    ∀ (xs : List Val), validateList xs = .ok () → hasKeyList k xs = false
  | [], _ => rfl
  | x :: xs, h => by
    simp only [validateList, o_seq_ok] at h
    simp only [hasKeyList, C11_validate_no_bad_key k hk x h.1,
      C11_validate_no_bad_key_list k hk xs h.2, Bool.or_false]
theorem C11_validate_no_bad_key_fields (k : String) (hk : validateString k ≠ .ok ()) :
    ∀ (kvs : Fields), validateFields kvs = .ok () → hasKeyFields k kvs = false
  | [], _ => rfl
  | (k', v) :: rest, h => by
    simp only [validateFields, o_seq_ok] at h
    have hne : (k' == k) = false := by
      rw [beq_eq_false_iff_ne]; intro e; subst e; exact hk h.1
    simp only [hasKeyFields, hne, C11_validate_no_bad_key k hk v h.2.1,
      C11_validate_no_bad_key_fields k hk rest h.2.2, Bool.or_false]
end

example : validateString "$output" ≠ .ok () ∧
    validate (.map [("a", .list [.map [("$$output", .bool true)]])]) = .ok () := by decide

/-- auxiliary: a present key is found by `hasKeyFields` -/
theorem C11_aux_hasKeyFields_of_fget (kvs : Fields) (k : String) (x : Val)
    (h : fget kvs k = some x) : hasKeyFields k kvs = true := by
  induction kvs with
  | nil => cases h
  | cons kv rest ih =>
    obtain ⟨k', v⟩ := kv
    simp only [fget] at h
    simp only [hasKeyFields, Bool.or_eq_true, beq_iff_eq]
    split at h
    · rename_i hk; exact Or.inl (Or.inl hk)
    · exact Or.inr (ih h)

/-- auxiliary: no key `k` ⇒ no `k: b` marker -/
theorem C11_aux_fhasBool_of_no_key (kvs : Fields) (k : String) (b : Bool)
    (h : hasKeyFields k kvs = false) : fhasBool kvs k b = false := by
  unfold fhasBool
  cases hg : fget kvs k with
  | none => rfl
  | some x => rw [C11_aux_hasKeyFields_of_fget kvs k x hg] at h; cases h

mutual
/-- a tree without any `$output` key has no `$output` marker of either polarity -/
theorem C11_no_key_no_marker : ∀ (v : Val), hasKey "$output" v = false →
    hasOutTrue v = false ∧ hasOutFalse v = false
  | .map kvs, h => by
    simp only [hasKey] at h
    obtain ⟨a, b⟩ := C11_no_key_no_marker_fields kvs h
    simp only [hasOutTrue, hasOutFalse, a, b, C11_aux_fhasBool_of_no_key kvs _ _ h, Bool.or_false,
      and_self]
  | .list xs, h => by
    simp only [hasKey] at h
    obtain ⟨a, b⟩ := C11_no_key_no_marker_list xs h
    simp only [hasOutTrue, hasOutFalse, a, b, C11_aux_hasOutTrueList xs a,
      C11_aux_hasOutFalseList xs b, Bool.or_false, and_self]
  | .null, _ | .bool _, _ | .int _, _ | .flt _, _ | .str _, _ => ⟨rfl, rfl⟩
theorem C11_no_key_no_marker_list : ∀ (xs : List Val), hasKeyList "$output" xs = false →
    hasOutTrueList xs = false ∧ hasOutFalseList xs = false
  | [], _ => ⟨rfl, rfl⟩
  | x :: xs, h => by
    simp only [hasKeyList, Bool.or_eq_false_iff] at h
    obtain ⟨a1, a2⟩ := C11_no_key_no_marker x h.1
    obtain ⟨b1, b2⟩ := C11_no_key_no_marker_list xs h.2
    simp only [hasOutTrueList, hasOutFalseList, a1, a2, b1, b2, Bool.or_false, and_self]
theorem C11_no_key_no_marker_fields : ∀ (kvs : Fields), hasKeyFields "$output" kvs = false →
    hasOutTrueFields kvs = false ∧ hasOutFalseFields kvs = false
  | [], _ => ⟨rfl, rfl⟩
  | (k, v) :: rest, h => by
    simp only [hasKeyFields, Bool.or_eq_false_iff] at h
    obtain ⟨a1, a2⟩ := C11_no_key_no_marker v h.1.2
    obtain ⟨b1, b2⟩ := C11_no_key_no_marker_fields rest h.2
    simp only [hasOutTrueFields, hasOutFalseFields, a1, a2, b1, b2, Bool.or_false, and_self]
end

example : hasKey "$output" (.map [("a", .list [.map [("b", .bool true)]])]) = false := by decide

/-- Every document `emit` returns is `finalize v2` of a validated tree `v2` that contains no
    `$output` key at all (hence no marker of either polarity) and no `null`.  (Nothing is claimed
    about `finalize v2` itself: `finalize` turns a key "$$output" into "$output".) -/
theorem C11_emit_no_markers (ds outs : List Val) (h : emit ds = .ok outs) :
    ∀ o ∈ outs, ∃ v2, o = finalize v2 ∧ validate v2 = .ok () ∧ hasKey "$output" v2 = false ∧
      hasOutTrue v2 = false ∧ hasOutFalse v2 = false ∧ noNull v2 = true := by
  intro o ho
  rw [emit_eq] at h
  cases hs : emitSelect ds with
  | error e => rw [hs] at h; cases h
  | ok vs =>
    rw [hs] at h
    obtain ⟨v, _, v2, hf, hv, rfl⟩ := emitFinish_mem vs outs h o ho
    have hk := C11_validate_no_bad_key "$output" (by decide) v2 hv
    obtain ⟨a, b⟩ := C11_no_key_no_marker v2 hk
    exact ⟨v2, rfl, hv, hk, a, b, C11_no_null v v2 hf⟩

/-- provenance of every emitted document: selected (or root) subtree, then hidden parts removed,
    validated, finalised -/
theorem C11_emit_provenance (ds outs : List Val) (h : emit ds = .ok outs) :
    ∀ o ∈ outs, ∃ d ∈ ds, ∃ obj sel v v2, findOutputs d = .ok (obj, sel) ∧
      ((sel = [] ∧ v = obj) ∨ v ∈ sel) ∧ hasOutTrue v = false ∧
      filterOutput v = .ok (some v2) ∧ hidden v = false ∧ validate v2 = .ok () ∧
      o = finalize v2 := by
  intro o ho
  rw [emit_eq] at h
  cases hs : emitSelect ds with
  | error e => rw [hs] at h; cases h
  | ok vs =>
    rw [hs] at h
    obtain ⟨v, hv, v2, hf, hval, rfl⟩ := emitFinish_mem vs outs h o ho
    obtain ⟨d, hd, obj, sel, hfo, hsel⟩ := emitSelect_mem ds vs hs v hv
    obtain ⟨m1, m2⟩ := C11_markers_stripped d obj sel hfo
    have hclean : hasOutTrue v = false := by
      rcases hsel with ⟨_, rfl⟩ | hm
      · exact m1
      · exact m2 v hm
    have hh : hidden v = false := by
      cases hh : hidden v with
      | false => rfl
      | true => exact absurd hf (C11_hidden_not_kept v v2 hh)
    exact ⟨d, hd, obj, sel, v, v2, hfo, hsel, hclean, hf, hh, hval, rfl⟩

example : emit [.map [("a", .map [("$output", .bool true), ("x", .int 1), ("y", .null)]),
                      ("b", .list [.map [("$output", .bool true)], .str "$$z",
                                   .map [("k", .map [("$output", .bool false), ("h", .int 2)])]])]] =
    .ok [.map [("x", .int 1)], .list [.str "$z", .map []]] := by decide

end Bkl
