/-
  C09 — "Evaluation is deterministic … regardless of hash-map iteration order".

  The Go implementation walks Go maps with `for k, v := range m` (random order); the Lean model
  walks association lists in key order.  For every such loop we show that the observable result
  is the same for EVERY iteration order: `s` is the entry list of the Go map (pairwise distinct
  keys — `Fields.DistinctKeys s`, which follows from `Fields.SortedKeys s`), `s'` is any
  permutation of it (`s'.Perm s`, core `List.Perm`), and the loop run over `s'` is compared with
  the loop run over `s`.
-/
import BklProofs.Lemmas.Order
import BklProofs.Lemmas.C14Codec
namespace Bkl

/-! The shared non-vacuity witnesses `C09_s` (a 3-entry map in key order) and `C09_s'` (the same
    entries visited in the order c, a, b), with `C09_s'_perm`, `C09_s'_ne`, `C09_s_sorted`,
    `C09_s_distinct`, are defined in `BklProofs.Lemmas.Order`. -/

/-- sorted keys (the model's well-formedness) imply distinct keys, so every theorem below that
    asks for `Fields.DistinctKeys s` applies to every well-formed model map -/
theorem C09_sorted_distinct {s : Fields} (h : Fields.SortedKeys s) : Fields.DistinctKeys s :=
  distinctKeys_of_sorted h

/-! ## 1. merge.go:mergeMapMap `for k, v := range src` -/

/-- Same success/failure status, and on success the same resulting map, for every order in
    which the patch entries are visited.  (When both runs fail the error *class* may differ:
    it is the one of whichever bad key is visited first.) -/
theorem C09_merge_order_invariant {d s s' : Fields} (hd : Fields.SortedKeys d)
    (hn : Fields.DistinctKeys s) (hp : s'.Perm s) :
    ((∃ r', mergeFields d s' = .ok r') ↔ (∃ r, mergeFields d s = .ok r)) ∧
    (∀ r' r, mergeFields d s' = .ok r' → mergeFields d s = .ok r → r' = r) := by
  refine ⟨?_, fun r' r h' h => mergeFields_perm_eq hd hn hp h' h⟩
  rw [mergeFields_ok_iff hn, mergeFields_ok_iff (distinctKeys_perm hp hn)]
  exact ⟨fun h p hm => h p (hp.mem_iff.2 hm), fun h p hm => h p (hp.mem_iff.1 hm)⟩

/-- (a) needs no hypothesis on `d` at all: the status is order-independent for any `d`. -/
theorem C09_merge_status_order_invariant (d : Fields) {s s' : Fields}
    (hn : Fields.DistinctKeys s) (hp : s'.Perm s) :
    (mergeFields d s').isOk = (mergeFields d s).isOk := by
  have h : (∃ r', mergeFields d s' = .ok r') ↔ (∃ r, mergeFields d s = .ok r) := by
    rw [mergeFields_ok_iff hn, mergeFields_ok_iff (distinctKeys_perm hp hn)]
    exact ⟨fun h p hm => h p (hp.mem_iff.2 hm), fun h p hm => h p (hp.mem_iff.1 hm)⟩
  cases h1 : mergeFields d s' with
  | ok r' =>
    obtain ⟨r, hr⟩ := h.1 ⟨r', h1⟩
    rw [hr]; rfl
  | error e' =>
    cases h2 : mergeFields d s with
    | ok r =>
      obtain ⟨r', hr'⟩ := h.2 ⟨r, h2⟩
      rw [h1] at hr'; cases hr'
    | error e => rfl

/-- (b) does need the accumulated map `d` to be key-sorted (i.e. to be a map at all): on an
    ill-formed `d` with an out-of-order key the two orders give different lists.  Every `d` the
    model produces is sorted (C01_wf), so this is not a defect of the model. -/
theorem C09_merge_unsorted_dst_counterexample :
    let d : Fields := [("b", .int 1), ("a", .int 2)]
    let s : Fields := [("a", .int 5), ("b", .str "$delete")]
    let s' : Fields := [("b", .str "$delete"), ("a", .int 5)]
    s'.Perm s ∧ Fields.DistinctKeys s ∧ ¬ Fields.SortedKeys d ∧
    mergeFields d s = .ok [("a", .int 5), ("a", .int 2)] ∧
    mergeFields d s' = .ok [("a", .int 5)] := by
  refine ⟨List.Perm.swap _ _ _, by decide, by decide, ?_, ?_⟩
  · simp [mergeFields, merge, fget, fset, fdel, fhas, Val.toStr]; rfl
  · simp [mergeFields, merge, fget, fset, fdel, fhas, Val.toStr]; rfl

-- non-vacuity: a sorted `d`, the 3-entry patch and a different visiting order; both succeed
example : Fields.SortedKeys [("a", .int 0), ("z", .int 9)] ∧ Fields.DistinctKeys C09_s ∧
    C09_s'.Perm C09_s ∧ C09_s' ≠ C09_s ∧
    mergeFields [("a", .int 0), ("z", .int 9)] C09_s' =
      .ok [("a", .int 1), ("b", .int 2), ("c", .int 3), ("z", .int 9)] ∧
    mergeFields [("a", .int 0), ("z", .int 9)] C09_s =
      .ok [("a", .int 1), ("b", .int 2), ("c", .int 3), ("z", .int 9)] := by
  refine ⟨by decide, C09_s_distinct, C09_s'_perm, C09_s'_ne, ?_, ?_⟩
  · simp [C09_s', mergeFields, merge, fget, fset, Val.toStr]; rfl
  · simp [C09_s, mergeFields, merge, fget, fset, Val.toStr]; rfl

-- non-vacuity of "both fail with different error classes": hence only the status is claimed
example :
    mergeFields [("a", .int 1), ("b", .list [])] [("a", .int 1), ("b", .int 2)]
      = .error .uselessOverride ∧
    mergeFields [("a", .int 1), ("b", .list [])] [("b", .int 2), ("a", .int 1)]
      = .error .invalidType := by
  constructor
  · simp [mergeFields, merge, fget, fset, Val.toStr]; rfl
  · simp [mergeFields, merge, fget, fset, Val.toStr]; rfl

/-! ## 2. match.go:matchMap `for pk, pv := range pat` -/

theorem C09_match_order_invariant (okvs : Fields) (skip : Bool) {s s' : Fields}
    (hp : s'.Perm s) : matchFields okvs skip s' = matchFields okvs skip s := by
  rw [matchFields_eq_all, matchFields_eq_all]
  exact hp.all_eq

example : C09_s'.Perm C09_s ∧ C09_s' ≠ C09_s := ⟨C09_s'_perm, C09_s'_ne⟩

/-! ## 3. validate.go:validateMap `for k, v := range obj` -/

/-- Status only: which offending entry is reported first may differ. -/
theorem C09_validate_order_invariant {s s' : Fields} (hp : s'.Perm s) :
    (validateFields s' = .ok ()) ↔ (validateFields s = .ok ()) := by
  rw [validateFields_ok_iff, validateFields_ok_iff]
  exact ⟨fun h p hm => h p (hp.mem_iff.2 hm), fun h p hm => h p (hp.mem_iff.1 hm)⟩

example : C09_s'.Perm C09_s ∧ C09_s' ≠ C09_s ∧ validateFields C09_s = .ok () :=
  ⟨C09_s'_perm, C09_s'_ne, rfl⟩

-- the reported error does depend on the order
example :
    validateFields [("a", .str "$required"), ("b", .str "$x")] = .error .requiredField ∧
    validateFields [("b", .str "$x"), ("a", .str "$required")] = .error .invalidDirective :=
  ⟨rfl, rfl⟩

/-! ## 4. finalize.go:finalizeMap (iterates `sortedMap(obj)` since the repair) -/

/-- The model's finalised map is a function of the map alone: no order parameter. -/
theorem C09_finalize_function (s : Fields) :
    ∃ r, fofList (finalizeFields s) = r ∧ ∀ r', fofList (finalizeFields s) = r' → r' = r :=
  ⟨_, rfl, fun _ h => h.symm⟩

/-- When the finalised keys do not collide, every iteration order gives the same map. -/
theorem C09_finalize_sorted {s s' : Fields}
    (hn : (s.map (fun kv => finalizeString kv.1)).Nodup) (hp : s'.Perm s) :
    fofList (finalizeFields s') = fofList (finalizeFields s) := by
  rw [finalizeFields_eq_map, finalizeFields_eq_map]
  apply fofList_perm _ (hp.map _)
  show ((s.map (fun p => (finalizeString p.1, finalize p.2))).map (·.1)).Nodup
  rw [List.map_map]
  exact hn

example : (C09_s.map (fun kv => finalizeString kv.1)).Nodup ∧ C09_s'.Perm C09_s ∧
    C09_s' ≠ C09_s := ⟨by decide, C09_s'_perm, C09_s'_ne⟩

/-- When two keys finalise to the same string (`$$A` and `$A` both become `$A`) the order
    decides which value survives: with Go's random `range` order the output would be
    nondeterministic.  This is why finalizeMap must (and, since the repair, does) iterate in
    sorted key order, which is the one order the model implements. -/
theorem C09_finalize_collision_counterexample :
    let s : Fields := [("$$A", .int 1), ("$A", .int 2)]
    let s' : Fields := [("$A", .int 2), ("$$A", .int 1)]
    s'.Perm s ∧ Fields.SortedKeys s ∧
    fofList (finalizeFields s) = [("$A", .int 2)] ∧
    fofList (finalizeFields s') = [("$A", .int 1)] ∧
    fofList (finalizeFields s') ≠ fofList (finalizeFields s) := by
  have h1 : finalizeString "$$A" = "$A" := by decide
  have h2 : finalizeString "$A" = "$A" := by decide
  refine ⟨List.Perm.swap _ _ _, by decide, ?_, ?_, ?_⟩
  · simp [finalizeFields, finalize, h1, h2, fofList, fsetAll, fset, String.lt_irrefl]
  · simp [finalizeFields, finalize, h1, h2, fofList, fsetAll, fset, String.lt_irrefl]
  · simp [finalizeFields, finalize, h1, h2, fofList, fsetAll, fset, String.lt_irrefl]

/-! ## 5. `for k, v := range src { dst[k] = v }` (yaml.go:yamlMerge, repeat.go) -/

theorem C09_insert_order_invariant {d s s' : Fields} (hd : Fields.SortedKeys d)
    (hn : Fields.DistinctKeys s) (hp : s'.Perm s) : fsetAll d s' = fsetAll d s :=
  fsetAll_perm hd hn hp

example : Fields.SortedKeys [("b", .int 0), ("z", .int 9)] ∧ Fields.DistinctKeys C09_s ∧
    C09_s'.Perm C09_s ∧ C09_s' ≠ C09_s := ⟨by decide, C09_s_distinct, C09_s'_perm, C09_s'_ne⟩

/-- repeat.go `for k, v := range rs { ec.Vars["$repeat."+k] = v }`, exactly as it occurs in
    `repeatGen` -/
theorem C09_repeat_vars_order_invariant {ec rs rs' : Fields} (hec : Fields.SortedKeys ec)
    (hn : Fields.DistinctKeys rs) (hp : rs'.Perm rs) :
    rs'.foldl (fun e (k, v) => fset e ("$repeat." ++ k) v) ec =
      rs.foldl (fun e (k, v) => fset e ("$repeat." ++ k) v) ec := by
  have key : ∀ (l : Fields) (e : Fields),
      l.foldl (fun e (k, v) => fset e ("$repeat." ++ k) v) e =
        fsetAll e (l.map (fun p => ("$repeat." ++ p.1, p.2))) := by
    intro l
    induction l with
    | nil => intro e; rfl
    | cons hd tl ih => intro e; rw [List.foldl_cons, ih]; rfl
  rw [key, key]
  apply fsetAll_perm hec _ (hp.map _)
  show ((rs.map (fun p => ("$repeat." ++ p.1, p.2))).map (·.1)).Nodup
  rw [List.map_map]
  have : (rs.map (·.1)).Pairwise (fun a b => "$repeat." ++ a ≠ "$repeat." ++ b) :=
    List.Pairwise.imp (fun h e => h ((String.append_right_inj _).1 e)) hn
  rw [List.pairwise_map] at this
  exact List.pairwise_map.2 this

example : Fields.SortedKeys [("$env:X", .str "1")] ∧ Fields.DistinctKeys C09_s ∧
    C09_s'.Perm C09_s := ⟨by decide, C09_s_distinct, C09_s'_perm⟩

/-! ## 6. tools: the Go code stores into a fresh Go map, i.e. `fofList` of the model's list -/

/-- cmd/bklr/required.go `for k, v := range obj` -/
theorem C09_required_order_invariant {s s' : Fields} (hn : Fields.DistinctKeys s)
    (hp : s'.Perm s) : fofList (requiredFields s') = fofList (requiredFields s) := by
  rw [requiredFields_eq_filterMap, requiredFields_eq_filterMap]
  exact fofList_perm (distinctKeys_filterMap _ requiredEntry_key hn) (hp.filterMap _)

/-- cmd/bkli/intersect.go `for k, v := range a` -/
theorem C09_intersect_order_invariant (bm : Fields) {s s' : Fields} (hn : Fields.DistinctKeys s)
    (hp : s'.Perm s) : fofList (intersectFields s' bm) = fofList (intersectFields s bm) := by
  rw [intersectFields_eq_filterMap, intersectFields_eq_filterMap]
  exact fofList_perm (distinctKeys_filterMap _ (intersectEntry_key bm) hn) (hp.filterMap _)

/-- the model's `diffFields` result is always a well-formed (key-sorted) map -/
theorem C09_sorted_diffFields (s sm : Fields) : Fields.SortedKeys (diffFields s sm).1 :=
  sorted_diffFields s sm

/-- cmd/bkld/diff.go `for k, v := range dst`: both components of the loop's result -/
theorem C09_diff_order_invariant (sm : Fields) {s s' : Fields} (hn : Fields.DistinctKeys s)
    (hp : s'.Perm s) :
    (diffFields s' sm).1 = (diffFields s sm).1 ∧ (diffFields s' sm).2 = (diffFields s sm).2 := by
  constructor
  · rw [diffFields_fst, diffFields_fst]
    apply fofList_perm
    · exact ((List.reverse_perm _).map (fun p : String × Val => p.1)).nodup_iff.2
        (distinctKeys_filterMap _ (diffEntry_key sm) hn)
    · exact ((List.reverse_perm _).trans (hp.filterMap _)).trans (List.reverse_perm _).symm
  · rw [diffFields_snd, diffFields_snd]
    exact hp.any_eq

example : Fields.DistinctKeys C09_s ∧ C09_s'.Perm C09_s ∧ C09_s' ≠ C09_s ∧
    requiredFields [("a", .str "$required"), ("b", .int 1)] = [("a", .str "$required")] ∧
    (diffFields C09_s [("a", .int 1), ("b", .int 7)]).1 = [("b", .int 2), ("c", .int 3)] ∧
    (diffFields C09_s' [("a", .int 1), ("b", .int 7)]).1 = [("b", .int 2), ("c", .int 3)] :=
  ⟨C09_s_distinct, C09_s'_perm, C09_s'_ne, by decide, by decide, by decide⟩

/-! ## 7. document.go:allParents -/

theorem C09_allParents_order_invariant (known : List (String × List String)) (fuel : Nat)
    {direct direct' : List String} (hp : direct'.Perm direct) :
    ∀ x, x ∈ allParents known fuel direct' ↔ x ∈ allParents known fuel direct :=
  mem_allParents_congr known fuel (fun _ => hp.mem_iff)

/-- the targets of a layer (ancestors, in document order) do not depend on the order in which
    the parents are walked -/
theorem C09_parentsOf_order_invariant (st : PState) {direct direct' : List String}
    (hp : direct'.Perm direct) : parentsOf st direct' = parentsOf st direct := by
  unfold parentsOf
  have h : ∀ d : String × Val,
      (allParents st.known (st.known.length + 1) direct').contains d.1 =
        (allParents st.known (st.known.length + 1) direct).contains d.1 := by
    intro d
    rw [Bool.eq_iff_iff, List.contains_iff_mem, List.contains_iff_mem]
    exact C09_allParents_order_invariant _ _ hp d.1
  simp only [h]

example : (["p2", "p1"] : List String).Perm ["p1", "p2"] ∧ (["p2", "p1"] : List String) ≠ ["p1", "p2"] :=
  ⟨List.Perm.swap _ _ _, by decide⟩

/-! ## 8. the composed pipeline takes no order argument -/

/-- The model's output depends only on the documents and the environment (`∃!`, spelled out
    because the `∃!` notation is Mathlib-only). -/
theorem C09_eval_function : ∀ (docs : List Val) (env : Vars),
    ∃ r, outputDocuments docs env = r ∧ ∀ r', outputDocuments docs env = r' → r' = r :=
  fun _ _ => ⟨_, rfl, fun _ h => h.symm⟩

/-! ## 9. process2.go:process2Map — evaluated-key collisions

  The last `filterMap` of process2Map evaluates every value and every key (`$"…"`, `$env:…` keys
  are replaced by their values), so two different keys can evaluate to the same key.  The Go
  code walks `sortedMap(obj)` and stores into a fresh map; the model walks the key-sorted entry
  list and stores with `fset`.  `evalEntry` / `evalEntries` (BklProofs/Lemmas/C14Codec.lean)
  are the per-entry evaluation and its in-order collection; `noRepeatEntries kvs` says that no
  entry is a `{$repeat: …}` map (those are expanded by an earlier step). -/

/-- The result is an explicit function of the sorted entry list: evaluate the entries in order
    (first error wins), then build the map from the evaluated entries in that same order. -/
theorem C09_process2_map_entries (fuel : Nat) (docs : List Val) (root : Val) (ec : Vars)
    (kvs : Fields) (hs : Fields.sortedKeysB kvs = true) (hr : noRepeatEntries kvs)
    (h1 : fget kvs "$encode" = none) (h2 : fget kvs "$decode" = none)
    (h3 : fget kvs "$value" = none) :
    process2 (fuel + 1) docs root ec (.map kvs) =
      (evalEntries fuel docs root ec kvs >>= fun es => pure (.map (fofList es))) := by
  rw [process2_map_noRepeat _ _ _ _ _ hs hr]
  simp only [cx_process2MapTail, h1, h2, h3]
  exact process2Entries_eq fuel docs root ec kvs

/-- … and of nothing else: in whatever order the entries of the Go map are listed, `process2`
    first re-inserts them one by one into a fresh map, i.e. sorts them. -/
theorem C09_process2_map_order_invariant (fuel : Nat) (docs : List Val) (root : Val) (ec : Vars)
    {s s' : Fields} (hn : Fields.DistinctKeys s) (hr : noRepeatEntries s) (hp : s'.Perm s) :
    process2 (fuel + 1) docs root ec (.map s') = process2 (fuel + 1) docs root ec (.map s) :=
  process2_map_perm fuel docs root ec hn hr hp

example : Fields.DistinctKeys C09_s ∧ noRepeatEntries C09_s ∧ C09_s'.Perm C09_s ∧ C09_s' ≠ C09_s := by
  refine ⟨C09_s_distinct, ?_, C09_s'_perm, C09_s'_ne⟩
  intro p hp m hm
  simp only [C09_s, List.mem_cons, List.mem_nil_iff, or_false] at hp
  rcases hp with rfl | rfl | rfl <;> cases hm

/-- General collision rule: among the entries that evaluate to the key `k`, the LAST one in
    sorted order of the ORIGINAL keys supplies the value — if `(k2, v2)` evaluates to `(k, w2)`
    and no entry after it evaluates to `k`, the result maps `k` to `w2`, whatever the entries
    before it do. -/
theorem C09_process2_map_later_wins (fuel : Nat) (docs : List Val) (root : Val) (ec : Vars)
    (kvs : Fields) (hs : Fields.sortedKeysB kvs = true) (hr : noRepeatEntries kvs)
    (h1 : fget kvs "$encode" = none) (h2 : fget kvs "$decode" = none)
    (h3 : fget kvs "$value" = none)
    (P C : Fields) (k2 : String) (v2 : Val) (hsplit : kvs = P ++ (k2, v2) :: C)
    (k : String) (w2 : Val)
    (he2 : evalEntry fuel docs root ec (k2, v2) = .ok (some (k, w2)))
    (hC : ∀ p ∈ C, ∀ q, evalEntry fuel docs root ec p = .ok (some q) → q.1 ≠ k)
    (ret : Val) (hok : process2 (fuel + 1) docs root ec (.map kvs) = .ok ret) :
    ∃ m, ret = .map m ∧ Fields.SortedKeys m ∧ fget m k = some w2 := by
  rw [C09_process2_map_entries fuel docs root ec kvs hs hr h1 h2 h3] at hok
  cases hes : evalEntries fuel docs root ec kvs with
  | error e => rw [hes] at hok; cases hok
  | ok es =>
    rw [hes] at hok
    simp only [e_ok_bind, e_pure_eq, Except.ok.injEq] at hok
    subst hok
    refine ⟨_, rfl, sorted_fofList es, ?_⟩
    subst hsplit
    obtain ⟨eP, o, eC, _, hx, hCe, rfl⟩ := evalEntries_split hes
    rw [he2] at hx
    cases hx
    exact fget_fofList_last eP eC k w2 (evalEntries_no_key hCe hC)

/-- A key that no entry evaluates to is absent from the result. -/
theorem C09_process2_map_absent (fuel : Nat) (docs : List Val) (root : Val) (ec : Vars)
    (kvs : Fields) (hs : Fields.sortedKeysB kvs = true) (hr : noRepeatEntries kvs)
    (h1 : fget kvs "$encode" = none) (h2 : fget kvs "$decode" = none)
    (h3 : fget kvs "$value" = none) (k : String)
    (hk : ∀ p ∈ kvs, ∀ q, evalEntry fuel docs root ec p = .ok (some q) → q.1 ≠ k)
    (ret : Val) (hok : process2 (fuel + 1) docs root ec (.map kvs) = .ok ret) :
    ∃ m, ret = .map m ∧ fget m k = none := by
  rw [C09_process2_map_entries fuel docs root ec kvs hs hr h1 h2 h3] at hok
  cases hes : evalEntries fuel docs root ec kvs with
  | error e => rw [hes] at hok; cases hok
  | ok es =>
    rw [hes] at hok
    simp only [e_ok_bind, e_pure_eq, Except.ok.injEq] at hok
    subst hok
    exact ⟨_, rfl, fget_fofList_none es k (evalEntries_no_key hes hk)⟩

/-- **C09_process2_map_collision**: two entries `k1 < k2` whose evaluated keys coincide (`k`),
    no other entry evaluating to `k`: the value kept under `k` is the one of `k2`, the entry that
    is later in the sorted order of the original keys — not of any iteration order. -/
theorem C09_process2_map_collision (fuel : Nat) (docs : List Val) (root : Val) (ec : Vars)
    (kvs : Fields) (hs : Fields.sortedKeysB kvs = true) (hr : noRepeatEntries kvs)
    (h1 : fget kvs "$encode" = none) (h2 : fget kvs "$decode" = none)
    (h3 : fget kvs "$value" = none)
    (k1 k2 : String) (v1 v2 : Val) (hm1 : (k1, v1) ∈ kvs) (hm2 : (k2, v2) ∈ kvs) (hlt : k1 < k2)
    (k : String) (w1 w2 : Val)
    (he1 : evalEntry fuel docs root ec (k1, v1) = .ok (some (k, w1)))
    (he2 : evalEntry fuel docs root ec (k2, v2) = .ok (some (k, w2)))
    (hother : ∀ p ∈ kvs, p ≠ (k1, v1) → p ≠ (k2, v2) →
      ∀ q, evalEntry fuel docs root ec p = .ok (some q) → q.1 ≠ k)
    (ret : Val) (hok : process2 (fuel + 1) docs root ec (.map kvs) = .ok ret) :
    ∃ m, ret = .map m ∧ Fields.SortedKeys m ∧ fget m k = some w2 := by
  have _ := hm1; have _ := he1
  obtain ⟨P, C, hsplit, _, hC⟩ := sorted_split_at hs hm2
  refine C09_process2_map_later_wins fuel docs root ec kvs hs hr h1 h2 h3 P C k2 v2 hsplit k w2 he2
    ?_ ret hok
  intro p hp
  have hp2 : k2 < p.1 := hC p hp
  apply hother p (by rw [hsplit]; exact List.mem_append_right _ (List.mem_cons_of_mem _ hp))
  · intro e
    rw [e] at hp2
    exact String.lt_asymm hlt hp2
  · intro e
    rw [e] at hp2
    exact String.lt_irrefl _ hp2

/-- The document `C09_collide = {$"{p}": 1, $"{q}": 2, p: web, q: web}` (both interpolated keys
    evaluate to `web`; sorted order of the original keys: `$"{p}" < $"{q}" < p < q`)
    evaluates to `{p: web, q: web, web: 2}`: the entry of the LATER original key `$"{q}"`
    wins.  Were the same evaluated entries inserted in another order (as a Go `range` over the
    map could), the value under `web` would be 1: the result is fixed by the sorted order only. -/
theorem C09_process2_map_collision_example (fuel : Nat) :
    Fields.sortedKeysB C09_collide = true ∧
    process2 (fuel + 3) [] (.map C09_collide) [] (.map C09_collide) =
      .ok (.map [("p", .str "web"), ("q", .str "web"), ("web", .int 2)]) ∧
    fofList [("web", .int 2), ("web", .int 1), ("p", .str "web"), ("q", .str "web")] =
      [("p", .str "web"), ("q", .str "web"), ("web", .int 1)] := by
  refine ⟨by decide, ?_, by decide⟩
  obtain ⟨e1, e2, e3, e4⟩ := C09_collide_entries fuel
  rw [C09_process2_map_entries _ _ _ _ _ (by decide) ?_ (by decide) (by decide) (by decide)]
  · simp only [C09_collide] at e1 e2 e3 e4 ⊢
    simp only [evalEntries, e1, e2, e3, e4, e_ok_bind, e_pure_eq]
    exact congrArg Except.ok (congrArg Val.map (by decide))
  · intro p hp m hm
    simp only [C09_collide, List.mem_cons, List.mem_nil_iff, or_false] at hp
    rcases hp with rfl | rfl | rfl | rfl <;> cases hm

/-- the same instance through the general theorem (non-vacuity of its hypotheses) -/
example (fuel : Nat) (ret : Val)
    (hok : process2 (fuel + 3) [] (.map C09_collide) [] (.map C09_collide) = .ok ret) :
    ∃ m, ret = .map m ∧ Fields.SortedKeys m ∧ fget m "web" = some (.int 2) := by
  obtain ⟨e1, e2, e3, e4⟩ := C09_collide_entries fuel
  refine C09_process2_map_collision (fuel + 2) [] (.map C09_collide) [] C09_collide (by decide) ?_
    (by decide) (by decide) (by decide) "$\"{p}\"" "$\"{q}\"" (.int 1) (.int 2)
    (by simp [C09_collide]) (by simp [C09_collide]) (by decide) "web" (.int 1) (.int 2) e1 e2 ?_
    ret hok
  · intro p hp m hm
    simp only [C09_collide, List.mem_cons, List.mem_nil_iff, or_false] at hp
    rcases hp with rfl | rfl | rfl | rfl <;> cases hm
  · intro p hp n1 n2 q hq
    simp only [C09_collide, List.mem_cons, List.mem_nil_iff, or_false] at hp
    rcases hp with rfl | rfl | rfl | rfl
    · exact absurd rfl n1
    · exact absurd rfl n2
    · rw [e3] at hq; cases hq; decide
    · rw [e4] at hq; cases hq; decide

end Bkl
