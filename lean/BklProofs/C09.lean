/-
  C09 — "Evaluation is deterministic … regardless of hash-map iteration order".

  The Go implementation walks Go maps with `for k, v := range m` (random order); the Lean model
  walks association lists in key order.  For every such loop we show that the observable result
  is the same for EVERY iteration order: `s` is the entry list of the Go map (pairwise distinct
  keys — `Fields.DistinctKeys s`, which follows from `Fields.SortedKeys s`), `s'` is any
  permutation of it (`s'.Perm s`, core `List.Perm`), and the loop run over `s'` is compared with
  the loop run over `s`.
-/
import BklProofs.Lemmas.Order
namespace Bkl

/-! The shared non-vacuity witnesses `C09_s` (a 3-entry map in key order) and `C09_s'` (the same
    entries visited in the order c, a, b), with `C09_s'_perm`, `C09_s'_ne`, `C09_s_sorted`,
    `C09_s_distinct`, are defined in `BklProofs.Lemmas.Order`. -/

/-- sorted keys (the model's well-formedness) imply distinct keys, so every theorem below that
    asks for `Fields.DistinctKeys s` applies to every well-formed model map -/
theorem C09_sorted_distinct {s : Fields} (h : Fields.SortedKeys s) : Fields.DistinctKeys s :=
  distinctKeys_of_sorted h

/-! ## 1. merge.go:mergeMapMap `for k, v := range src` -/

/-- Same success/failure status, and on success the same resulting map, for every order in
    which the patch entries are visited.  (When both runs fail the error *class* may differ:
    it is the one of whichever bad key is visited first.) -/
theorem C09_merge_order_invariant {d s s' : Fields} (hd : Fields.SortedKeys d)
    (hn : Fields.DistinctKeys s) (hp : s'.Perm s) :
    ((∃ r', mergeFields d s' = .ok r') ↔ (∃ r, mergeFields d s = .ok r)) ∧
    (∀ r' r, mergeFields d s' = .ok r' → mergeFields d s = .ok r → r' = r) := by
  refine ⟨?_, fun r' r h' h => mergeFields_perm_eq hd hn hp h' h⟩
  rw [mergeFields_ok_iff hn, mergeFields_ok_iff (distinctKeys_perm hp hn)]
  exact ⟨fun h p hm => h p (hp.mem_iff.2 hm), fun h p hm => h p (hp.mem_iff.1 hm)⟩

/-- (a) needs no hypothesis on `d` at all: the status is order-independent for any `d`. -/
theorem C09_merge_status_order_invariant (d : Fields) {s s' : Fields}
    (hn : Fields.DistinctKeys s) (hp : s'.Perm s) :
    (mergeFields d s').isOk = (mergeFields d s).isOk := by
  have h : (∃ r', mergeFields d s' = .ok r') ↔ (∃ r, mergeFields d s = .ok r) := by
    rw [mergeFields_ok_iff hn, mergeFields_ok_iff (distinctKeys_perm hp hn)]
    exact ⟨fun h p hm => h p (hp.mem_iff.2 hm), fun h p hm => h p (hp.mem_iff.1 hm)⟩
  cases h1 : mergeFields d s' with
  | ok r' =>
    obtain ⟨r, hr⟩ := h.1 ⟨r', h1⟩
    rw [hr]; rfl
  | error e' =>
    cases h2 : mergeFields d s with
    | ok r =>
      obtain ⟨r', hr'⟩ := h.2 ⟨r, h2⟩
      rw [h1] at hr'; cases hr'
    | error e => rfl

/-- (b) does need the accumulated map `d` to be key-sorted (i.e. to be a map at all): on an
    ill-formed `d` with an out-of-order key the two orders give different lists.  Every `d` the
    model produces is sorted (C01_wf), so this is not a defect of the model. -/
theorem C09_merge_unsorted_dst_counterexample :
    let d : Fields := [("b", .int 1), ("a", .int 2)]
    let s : Fields := [("a", .int 5), ("b", .str "$delete")]
    let s' : Fields := [("b", .str "$delete"), ("a", .int 5)]
    s'.Perm s ∧ Fields.DistinctKeys s ∧ ¬ Fields.SortedKeys d ∧
    mergeFields d s = .ok [("a", .int 5), ("a", .int 2)] ∧
    mergeFields d s' = .ok [("a", .int 5)] := by
  refine ⟨List.Perm.swap _ _ _, by decide, by decide, ?_, ?_⟩
  · simp [mergeFields, merge, fget, fset, fdel, fhas, Val.toStr]; rfl
  · simp [mergeFields, merge, fget, fset, fdel, fhas, Val.toStr]; rfl

-- non-vacuity: a sorted `d`, the 3-entry patch and a different visiting order; both succeed
example : Fields.SortedKeys [("a", .int 0), ("z", .int 9)] ∧ Fields.DistinctKeys C09_s ∧
    C09_s'.Perm C09_s ∧ C09_s' ≠ C09_s ∧
    mergeFields [("a", .int 0), ("z", .int 9)] C09_s' =
      .ok [("a", .int 1), ("b", .int 2), ("c", .int 3), ("z", .int 9)] ∧
    mergeFields [("a", .int 0), ("z", .int 9)] C09_s =
      .ok [("a", .int 1), ("b", .int 2), ("c", .int 3), ("z", .int 9)] := by
  refine ⟨by decide, C09_s_distinct, C09_s'_perm, C09_s'_ne, ?_, ?_⟩
  · simp [C09_s', mergeFields, merge, fget, fset, Val.toStr]; rfl
  · simp [C09_s, mergeFields, merge, fget, fset, Val.toStr]; rfl

-- non-vacuity of "both fail with different error classes": hence only the status is claimed
example :
    mergeFields [("a", .int 1), ("b", .list [])] [("a", .int 1), ("b", .int 2)]
      = .error .uselessOverride ∧
    mergeFields [("a", .int 1), ("b", .list [])] [("b", .int 2), ("a", .int 1)]
      = .error .invalidType := by
  constructor
  · simp [mergeFields, merge, fget, fset, Val.toStr]; rfl
  · simp [mergeFields, merge, fget, fset, Val.toStr]; rfl

/-! ## 2. match.go:matchMap `for pk, pv := range pat` -/

theorem C09_match_order_invariant (okvs : Fields) (skip : Bool) {s s' : Fields}
    (hp : s'.Perm s) : matchFields okvs skip s' = matchFields okvs skip s := by
  rw [matchFields_eq_all, matchFields_eq_all]
  exact hp.all_eq

example : C09_s'.Perm C09_s ∧ C09_s' ≠ C09_s := ⟨C09_s'_perm, C09_s'_ne⟩

/-! ## 3. validate.go:validateMap `for k, v := range obj` -/

/-- Status only: which offending entry is reported first may differ. -/
theorem C09_validate_order_invariant {s s' : Fields} (hp : s'.Perm s) :
    (validateFields s' = .ok ()) ↔ (validateFields s = .ok ()) := by
  rw [validateFields_ok_iff, validateFields_ok_iff]
  exact ⟨fun h p hm => h p (hp.mem_iff.2 hm), fun h p hm => h p (hp.mem_iff.1 hm)⟩

example : C09_s'.Perm C09_s ∧ C09_s' ≠ C09_s ∧ validateFields C09_s = .ok () :=
  ⟨C09_s'_perm, C09_s'_ne, rfl⟩

-- the reported error does depend on the order
example :
    validateFields [("a", .str "$required"), ("b", .str "$x")] = .error .requiredField ∧
    validateFields [("b", .str "$x"), ("a", .str "$required")] = .error .invalidDirective :=
  ⟨rfl, rfl⟩

/-! ## 4. finalize.go:finalizeMap (iterates `sortedMap(obj)` since the repair) -/

/-- The model's finalised map is a function of the map alone: no order parameter. -/
theorem C09_finalize_function (s : Fields) :
    ∃ r, fofList (finalizeFields s) = r ∧ ∀ r', fofList (finalizeFields s) = r' → r' = r :=
  ⟨_, rfl, fun _ h => h.symm⟩

/-- When the finalised keys do not collide, every iteration order gives the same map. -/
theorem C09_finalize_sorted {s s' : Fields}
    (hn : (s.map (fun kv => finalizeString kv.1)).Nodup) (hp : s'.Perm s) :
    fofList (finalizeFields s') = fofList (finalizeFields s) := by
  rw [finalizeFields_eq_map, finalizeFields_eq_map]
  apply fofList_perm _ (hp.map _)
  show ((s.map (fun p => (finalizeString p.1, finalize p.2))).map (·.1)).Nodup
  rw [List.map_map]
  exact hn

example : (C09_s.map (fun kv => finalizeString kv.1)).Nodup ∧ C09_s'.Perm C09_s ∧
    C09_s' ≠ C09_s := ⟨by decide, C09_s'_perm, C09_s'_ne⟩

/-- When two keys finalise to the same string (`$$A` and `$A` both become `$A`) the order
    decides which value survives: with Go's random `range` order the output would be
    nondeterministic.  This is why finalizeMap must (and, since the repair, does) iterate in
    sorted key order, which is the one order the model implements. -/
theorem C09_finalize_collision_counterexample :
    let s : Fields := [("$$A", .int 1), ("$A", .int 2)]
    let s' : Fields := [("$A", .int 2), ("$$A", .int 1)]
    s'.Perm s ∧ Fields.SortedKeys s ∧
    fofList (finalizeFields s) = [("$A", .int 2)] ∧
    fofList (finalizeFields s') = [("$A", .int 1)] ∧
    fofList (finalizeFields s') ≠ fofList (finalizeFields s) := by
  have h1 : finalizeString "$$A" = "$A" := by decide
  have h2 : finalizeString "$A" = "$A" := by decide
  refine ⟨List.Perm.swap _ _ _, by decide, ?_, ?_, ?_⟩
  · simp [finalizeFields, finalize, h1, h2, fofList, fsetAll, fset, String.lt_irrefl]
  · simp [finalizeFields, finalize, h1, h2, fofList, fsetAll, fset, String.lt_irrefl]
  · simp [finalizeFields, finalize, h1, h2, fofList, fsetAll, fset, String.lt_irrefl]

/-! ## 5. `for k, v := range src { dst[k] = v }` (yaml.go:yamlMerge, repeat.go) -/

theorem C09_insert_order_invariant {d s s' : Fields} (hd : Fields.SortedKeys d)
    (hn : Fields.DistinctKeys s) (hp : s'.Perm s) : fsetAll d s' = fsetAll d s :=
  fsetAll_perm hd hn hp

example : Fields.SortedKeys [("b", .int 0), ("z", .int 9)] ∧ Fields.DistinctKeys C09_s ∧
    C09_s'.Perm C09_s ∧ C09_s' ≠ C09_s := ⟨by decide, C09_s_distinct, C09_s'_perm, C09_s'_ne⟩

/-- repeat.go `for k, v := range rs { ec.Vars["$repeat."+k] = v }`, exactly as it occurs in
    `repeatGen` -/
theorem C09_repeat_vars_order_invariant {ec rs rs' : Fields} (hec : Fields.SortedKeys ec)
    (hn : Fields.DistinctKeys rs) (hp : rs'.Perm rs) :
    rs'.foldl (fun e (k, v) => fset e ("$repeat." ++ k) v) ec =
      rs.foldl (fun e (k, v) => fset e ("$repeat." ++ k) v) ec := by
  have key : ∀ (l : Fields) (e : Fields),
      l.foldl (fun e (k, v) => fset e ("$repeat." ++ k) v) e =
        fsetAll e (l.map (fun p => ("$repeat." ++ p.1, p.2))) := by
    intro l
    induction l with
    | nil => intro e; rfl
    | cons hd tl ih => intro e; rw [List.foldl_cons, ih]; rfl
  rw [key, key]
  apply fsetAll_perm hec _ (hp.map _)
  show ((rs.map (fun p => ("$repeat." ++ p.1, p.2))).map (·.1)).Nodup
  rw [List.map_map]
  have : (rs.map (·.1)).Pairwise (fun a b => "$repeat." ++ a ≠ "$repeat." ++ b) :=
    List.Pairwise.imp (fun h e => h ((String.append_right_inj _).1 e)) hn
  rw [List.pairwise_map] at this
  exact List.pairwise_map.2 this

example : Fields.SortedKeys [("$env:X", .str "1")] ∧ Fields.DistinctKeys C09_s ∧
    C09_s'.Perm C09_s := ⟨by decide, C09_s_distinct, C09_s'_perm⟩

/-! ## 6. tools: the Go code stores into a fresh Go map, i.e. `fofList` of the model's list -/

/-- cmd/bklr/required.go `for k, v := range obj` -/
theorem C09_required_order_invariant {s s' : Fields} (hn : Fields.DistinctKeys s)
    (hp : s'.Perm s) : fofList (requiredFields s') = fofList (requiredFields s) := by
  rw [requiredFields_eq_filterMap, requiredFields_eq_filterMap]
  exact fofList_perm (distinctKeys_filterMap _ requiredEntry_key hn) (hp.filterMap _)

/-- cmd/bkli/intersect.go `for k, v := range a` -/
theorem C09_intersect_order_invariant (bm : Fields) {s s' : Fields} (hn : Fields.DistinctKeys s)
    (hp : s'.Perm s) : fofList (intersectFields s' bm) = fofList (intersectFields s bm) := by
  rw [intersectFields_eq_filterMap, intersectFields_eq_filterMap]
  exact fofList_perm (distinctKeys_filterMap _ (intersectEntry_key bm) hn) (hp.filterMap _)

/-- the model's `diffFields` result is always a well-formed (key-sorted) map -/
theorem C09_sorted_diffFields (s sm : Fields) : Fields.SortedKeys (diffFields s sm).1 :=
  sorted_diffFields s sm

/-- cmd/bkld/diff.go `for k, v := range dst`: both components of the loop's result -/
theorem C09_diff_order_invariant (sm : Fields) {s s' : Fields} (hn : Fields.DistinctKeys s)
    (hp : s'.Perm s) :
    (diffFields s' sm).1 = (diffFields s sm).1 ∧ (diffFields s' sm).2 = (diffFields s sm).2 := by
  constructor
  · rw [diffFields_fst, diffFields_fst]
    apply fofList_perm
    · exact ((List.reverse_perm _).map (fun p : String × Val => p.1)).nodup_iff.2
        (distinctKeys_filterMap _ (diffEntry_key sm) hn)
    · exact ((List.reverse_perm _).trans (hp.filterMap _)).trans (List.reverse_perm _).symm
  · rw [diffFields_snd, diffFields_snd]
    exact hp.any_eq

example : Fields.DistinctKeys C09_s ∧ C09_s'.Perm C09_s ∧ C09_s' ≠ C09_s ∧
    requiredFields [("a", .str "$required"), ("b", .int 1)] = [("a", .str "$required")] ∧
    (diffFields C09_s [("a", .int 1), ("b", .int 7)]).1 = [("b", .int 2), ("c", .int 3)] ∧
    (diffFields C09_s' [("a", .int 1), ("b", .int 7)]).1 = [("b", .int 2), ("c", .int 3)] :=
  ⟨C09_s_distinct, C09_s'_perm, C09_s'_ne, by decide, by decide, by decide⟩

/-! ## 7. document.go:allParents -/

theorem C09_allParents_order_invariant (known : List (String × List String)) (fuel : Nat)
    {direct direct' : List String} (hp : direct'.Perm direct) :
    ∀ x, x ∈ allParents known fuel direct' ↔ x ∈ allParents known fuel direct :=
  mem_allParents_congr known fuel (fun _ => hp.mem_iff)

/-- the targets of a layer (ancestors, in document order) do not depend on the order in which
    the parents are walked -/
theorem C09_parentsOf_order_invariant (st : PState) {direct direct' : List String}
    (hp : direct'.Perm direct) : parentsOf st direct' = parentsOf st direct := by
  unfold parentsOf
  have h : ∀ d : String × Val,
      (allParents st.known (st.known.length + 1) direct').contains d.1 =
        (allParents st.known (st.known.length + 1) direct).contains d.1 := by
    intro d
    rw [Bool.eq_iff_iff, List.contains_iff_mem, List.contains_iff_mem]
    exact C09_allParents_order_invariant _ _ hp d.1
  simp only [h]

example : (["p2", "p1"] : List String).Perm ["p1", "p2"] ∧ (["p2", "p1"] : List String) ≠ ["p1", "p2"] :=
  ⟨List.Perm.swap _ _ _, by decide⟩

/-! ## 8. the composed pipeline takes no order argument -/

/-- The model's output depends only on the documents and the environment (`∃!`, spelled out
    because the `∃!` notation is Mathlib-only). -/
theorem C09_eval_function : ∀ (docs : List Val) (env : Vars),
    ∃ r, outputDocuments docs env = r ∧ ∀ r', outputDocuments docs env = r' → r' = r :=
  fun _ _ => ⟨_, rfl, fun _ h => h.symm⟩

end Bkl
