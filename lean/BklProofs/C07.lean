/-
  C07 — no unresolved `$required` and no stray `$directive` string reaches the output.
  Model: `validateChars`, `validateString`, `validate`, `emit` (Bkl/Output.lean).
  Theorems about `Val` come with `_list` / `_fields` companions (mutual structural proofs).
-/
import Bkl
import BklProofs.Lemmas.Output
import BklProofs.C17
import BklProofs.Lemmas.C06Layered
namespace Bkl

-- BklProofs/C17.lean now imports BklProofs.Lemmas.ToolsCliProofs (tool-main theorems), which brings
-- in the simp lemma `R_pure_eq` of Lemmas/Files.lean; it is switched off here so that the `simp`
-- calls below behave exactly as before (several proofs end in `simp […]; rfl`).
attribute [-simp] R_pure_eq

/-! ## Specification -/

/-- a string the output stage must reject: exactly "$required", or `$` followed by a
    lower-case letter (a directive that was not consumed) -/
def badString (s : String) : Bool :=
  decide (s.toList = "$required".toList) ||
  match s.toList with
  | '$' :: c :: _ => isLowerModel c
  | _ => false

mutual
/-- no map key and no string leaf is a `badString` -/
def clean : Val → Bool
  | .str s => !badString s
  | .list xs => cleanList xs
  | .map kvs => cleanFields kvs
  | _ => true
def cleanList : List Val → Bool
  | [] => true
  | x :: xs => clean x && cleanList xs
def cleanFields : Fields → Bool
  | [] => true
  | (k, v) :: rest => !badString k && clean v && cleanFields rest
end

/-! ## `validate` accepts exactly the clean trees -/

theorem validateString_iff (s : String) : validateString s = .ok () ↔ badString s = false := by
  unfold validateString validateChars badString
  by_cases h : s.toList = "$required".toList
  · simp [h, throw, throwThe, MonadExceptOf.throw]
  · simp only [h, if_false, decide_false, Bool.false_or]
    split
    · rename_i c rest heq
      by_cases hc : isLowerModel c <;> simp [heq, hc, throw, throwThe, MonadExceptOf.throw, pure, Except.pure]
    · simp [pure, Except.pure]

mutual
theorem validate_iff : ∀ (v : Val), validate v = .ok () ↔ clean v = true
  | .map kvs => by simp only [validate, clean]; exact validate_iff_fields kvs
  | .list xs => by simp only [validate, clean]; exact validate_iff_list xs
  | .str s => by simp [validate, clean, validateString_iff]
  | .null | .bool _ | .int _ | .flt _ => by simp [validate, clean, pure, Except.pure]
theorem validate_iff_list : ∀ (xs : List Val), validateList xs = .ok () ↔ cleanList xs = true
  | [] => by simp [validateList, cleanList, pure, Except.pure]
  | x :: xs => by
    simp only [validateList, cleanList, Bool.and_eq_true, o_seq_ok, validate_iff x,
      validate_iff_list xs]
theorem validate_iff_fields : ∀ (kvs : Fields), validateFields kvs = .ok () ↔ cleanFields kvs = true
  | [] => by simp [validateFields, cleanFields, pure, Except.pure]
  | (k, v) :: rest => by
    simp only [validateFields, cleanFields, Bool.and_eq_true, o_seq_ok, validate_iff v,
      validate_iff_fields rest, validateString_iff, Bool.not_eq_true', and_assoc]
end

example : clean (.map [("a", .str "$$x"), ("$Upper", .list [.str "$", .int 1])]) = true := by decide
example : clean (.map [("a", .str "$x")]) = false := by decide

/-! ## The only errors of `validate` -/

theorem validateString_error (s : String) (e : Err) (h : validateString s = .error e) :
    e = .requiredField ∨ e = .invalidDirective := by
  unfold validateString validateChars at h
  split at h
  · cases h; left; rfl
  · split at h
    · split at h
      · cases h; right; rfl
      · cases h
    · cases h

mutual
theorem validate_error : ∀ (v : Val) (e : Err), validate v = .error e →
    e = .requiredField ∨ e = .invalidDirective
  | .map kvs, e, h => validate_error_fields kvs e (by simpa only [validate] using h)
  | .list xs, e, h => validate_error_list xs e (by simpa only [validate] using h)
  | .str s, e, h => validateString_error s e (by simpa only [validate] using h)
  | .null, _, h | .bool _, _, h | .int _, _, h | .flt _, _, h => by
    simp [validate, pure, Except.pure] at h
theorem validate_error_list : ∀ (xs : List Val) (e : Err), validateList xs = .error e →
    e = .requiredField ∨ e = .invalidDirective
  | [], e, h => by simp [validateList, pure, Except.pure] at h
  | x :: xs, e, h => by
    simp only [validateList] at h
    rcases o_seq_error h with h | h
    · exact validate_error x e h
    · exact validate_error_list xs e h
theorem validate_error_fields : ∀ (kvs : Fields) (e : Err), validateFields kvs = .error e →
    e = .requiredField ∨ e = .invalidDirective
  | [], e, h => by simp [validateFields, pure, Except.pure] at h
  | (k, v) :: rest, e, h => by
    simp only [validateFields] at h
    rcases o_seq_error h with h | h
    · exact validateString_error k e h
    · rcases o_seq_error h with h | h
      · exact validate_error v e h
      · exact validate_error_fields rest e h
end

example : validate (.map [("a", .str "$required")]) = .error .requiredField := by decide
example : validate (.list [.map [("$merge", .int 1)]]) = .error .invalidDirective := by decide

/-! ## Everything `emit` returns went through `validate` -/

/-- every emitted document is the finalisation of a validated tree -/
theorem C07_outputs_validated (ds outs : List Val) (h : emit ds = .ok outs) :
    ∀ o ∈ outs, ∃ v2, o = finalize v2 ∧ validate v2 = .ok () := by
  intro o ho
  rw [emit_eq] at h
  cases hs : emitSelect ds with
  | error e => rw [hs] at h; cases h
  | ok vs =>
    rw [hs] at h
    obtain ⟨_, _, v2, _, hv, rfl⟩ := emitFinish_mem vs outs h o ho
    exact ⟨v2, rfl, hv⟩

/-- … and hence of a `clean` tree -/
theorem C07_outputs_clean (ds outs : List Val) (h : emit ds = .ok outs) :
    ∀ o ∈ outs, ∃ v2, o = finalize v2 ∧ clean v2 = true := by
  intro o ho
  obtain ⟨v2, h1, h2⟩ := C07_outputs_validated ds outs h o ho
  exact ⟨v2, h1, (validate_iff v2).1 h2⟩

example : emit [.map [("a", .int 1), ("b", .map [("$output", .bool false)])]] =
    .ok [.map [("a", .int 1)]] := by decide

/-! ## An unresolved `$required` is rejected -/

mutual
theorem C07_required_not_clean : ∀ (v : Val), 0 < countReq v → clean v = false
  | .map kvs, h => by
    simp only [countReq] at h; simp only [clean]; exact C07_required_not_clean_fields kvs h
  | .list xs, h => by
    simp only [countReq] at h; simp only [clean]; exact C07_required_not_clean_list xs h
  | .str s, h => by
    simp only [countReq] at h
    split at h
    · rename_i hs; subst hs; decide
    · omega
  | .null, h | .bool _, h | .int _, h | .flt _, h => by simp [countReq] at h
theorem C07_required_not_clean_list : ∀ (xs : List Val), 0 < countReqList xs → cleanList xs = false
  | [], h => by simp [countReqList] at h
  | x :: xs, h => by
    simp only [countReqList] at h
    simp only [cleanList, Bool.and_eq_false_iff]
    by_cases hx : 0 < countReq x
    · left; exact C07_required_not_clean x hx
    · right; exact C07_required_not_clean_list xs (by omega)
theorem C07_required_not_clean_fields : ∀ (kvs : Fields), 0 < countReqFields kvs →
    cleanFields kvs = false
  | [], h => by simp [countReqFields] at h
  | (k, v) :: rest, h => by
    simp only [countReqFields] at h
    simp only [cleanFields, Bool.and_eq_false_iff]
    by_cases hx : 0 < countReq v
    · left; right; exact C07_required_not_clean v hx
    · right; exact C07_required_not_clean_fields rest (by omega)
end

/-- a tree that still contains a `$required` marker never validates -/
theorem C07_required_rejected (v2 : Val) (h : 0 < countReq v2) : validate v2 ≠ .ok () := by
  intro hv
  have := C07_required_not_clean v2 h
  rw [(validate_iff v2).1 hv] at this
  cases this

/-- more precisely it fails, with one of the two `validate` errors -/
theorem C07_required_rejected_error (v2 : Val) (h : 0 < countReq v2) :
    validate v2 = .error .requiredField ∨ validate v2 = .error .invalidDirective := by
  cases hv : validate v2 with
  | ok u => exact absurd hv (C07_required_rejected v2 h)
  | error e => rcases validate_error v2 e hv with rfl | rfl <;> simp

example : 0 < countReq (.map [("a", .list [.int 1, .str "$required"])]) := by decide

/-- so `emit` fails as soon as a filtered document still carries a marker -/
theorem C07_emit_required_fails (v v2 : Val) (h1 : findOutputs v = .ok (v, []))
    (h2 : filterOutput v = .ok (some v2)) (h3 : 0 < countReq v2) :
    ∃ e, emit [v] = .error e := by
  rw [emit_eq]
  simp only [emitSelect, h1, bind, Except.bind, pure, Except.pure, List.isEmpty_nil, if_true,
    List.append_nil, emitFinish, h2]
  rcases C07_required_rejected_error v2 h3 with h | h <;> rw [h] <;> exact ⟨_, rfl⟩

example : findOutputs (.map [("a", .str "$required")]) = .ok (.map [("a", .str "$required")], []) ∧
    filterOutput (.map [("a", .str "$required")]) = .ok (some (.map [("a", .str "$required")])) := by
  decide

/-! ## Directive literals are rejected -/

theorem C07_directive_strings_rejected :
    ∀ s ∈ ["$delete", "$replace", "$match", "$value", "$invert", "$required", "$output", "$merge",
           "$encode", "$decode", "$repeat", "$parent", "$env:X", "$merge:a", "$replace:a"],
      validateString s ≠ .ok () := by
  decide

theorem C07_dollar_lower_rejected (c : Char) (rest : List Char) (h : isLowerModel c = true) :
    validateChars ('$' :: c :: rest) ≠ .ok () := by
  unfold validateChars
  split
  · intro h'; cases h'
  · simp [h, throw, throwThe, MonadExceptOf.throw]

/-- lifted to strings -/
theorem C07_dollar_lower_rejected_string (c : Char) (rest : List Char)
    (h : isLowerModel c = true) : validateString (String.ofList ('$' :: c :: rest)) ≠ .ok () := by
  unfold validateString
  rw [String.toList_ofList]
  exact C07_dollar_lower_rejected c rest h

example : isLowerModel 'm' = true := by decide

/-! ## `$required` across layers

  Definitions (BklProofs/Lemmas/C06Layered.lean):
  * `mapPath v π` — follow the keys `π` through nested maps of `v` (`none` if a key is missing or
    a non-map is met before the end);
  * `mentions u π` — following `π` through the layer `u` one meets a map with `$replace: true`,
    or a value that is neither a map nor null, or reaches the end of `π`.  A layer that lacks
    the next key, or is null at a proper prefix of `π`, does not mention `π`;
  * `noReplaceAlong u π` — no map met on the way (end point excluded) has `$replace: true`;
  * `dropRequired d` — the list `d` without its `"$required"` string entries;
  * `plainEntry` — a list-patch entry that is no list directive (BklProofs/Lemmas/Merge.lean). -/

/-- whatever sits at a map path is counted in the whole document -/
theorem C07_countReq_of_path : ∀ (π : List String) (v x : Val), mapPath v π = some x →
    countReq x ≤ countReq v := by
  intro π
  induction π with
  | nil => intro v x h; rw [q_mapPath_nil] at h; cases h; omega
  | cons k π ih =>
    intro v x h
    obtain ⟨m, c, rfl, hc, hx⟩ := q_mapPath_cons h
    have h1 := ih c x hx
    have h2 := q_countReq_le_of_fget hc
    simp only [countReq]; omega

/-- any value at a path no upper layer mentions is still there after the whole chain -/
theorem C07_path_persists (lower : Val) (uppers : List Val) (π : List String) (x res : Val)
    (hx : mapPath lower π = some x)
    (hup : ∀ u ∈ uppers, u.WF ∧ mentions u π = false)
    (h : mergeChain (lower :: uppers) = .ok res) : mapPath res π = some x :=
  q_chain_path_frame π x uppers lower res hup hx h

/-- **a `$required` in the lower layer persists** through any number of upper layers that do
    not mention its path: it is still at `π` in the merged document, which therefore is
    rejected by `validate` (and so by `emit`). -/
theorem C07_required_persists (lower : Val) (uppers : List Val) (π : List String) (res : Val)
    (hreq : mapPath lower π = some (.str "$required"))
    (hup : ∀ u ∈ uppers, u.WF ∧ mentions u π = false)
    (h : mergeChain (lower :: uppers) = .ok res) :
    mapPath res π = some (.str "$required") ∧ 0 < countReq res ∧ validate res ≠ .ok () := by
  have h1 := C07_path_persists lower uppers π _ res hreq hup h
  have h2 : 0 < countReq res := by
    have := C07_countReq_of_path π res _ h1
    simp only [countReq, if_true] at this
    omega
  exact ⟨h1, h2, C07_required_rejected res h2⟩

/-- **an upper layer that sets `π` overrides the marker**: the merged document has the upper
    layer's value `c` at `π` (so for `c ≠ "$required"` this marker is gone).  `c` may be any value
    (scalar, list, map, null) except the `$delete` directive.  Maps with `$replace: true` on the
    way are allowed; the single excluded case is `c` being that very `$replace: true` entry. -/
theorem C07_required_scalar_override (lower upper res : Val) (π : List String) (c : Val)
    (hw : upper.WF) (hreq : mapPath lower π = some (.str "$required"))
    (hc : mapPath upper π = some c) (hdel : c ≠ .str "$delete")
    (hlast : c = .bool true → π.getLast? ≠ some "$replace")
    (h : merge lower upper = .ok res) : mapPath res π = some c := by
  refine q_merge_path_scalar π lower upper res _ c hw hreq rfl hc ?_ hlast h
  intro ht
  apply hdel
  cases c <;> simp_all [Val.toStr]

/-- an upper layer repeating the marker does not satisfy it: that merge is rejected -/
theorem C07_required_same_rejected (lower upper : Val) (π : List String)
    (hw : upper.WF) (hreq : mapPath lower π = some (.str "$required"))
    (hc : mapPath upper π = some (.str "$required")) (hnr : noReplaceAlong upper π = true) :
    ∃ e, merge lower upper = .error e := by
  cases h : merge lower upper with
  | error e => exact ⟨e, rfl⟩
  | ok r =>
    obtain ⟨r', h1, _⟩ := q_merge_path_merge π lower upper r _ _ hw hreq hc hnr (by decide) h
    rw [merge_scalar _ _ rfl] at h1
    simp at h1

/-- the model's rule for `$required` entries of a list (`mergeListList`): unless the patch
    list carries a `$replace` directive, the parent's `"$required"` string entries are removed
    *before* the patch entries are applied — whatever the patch is, even `[]`. -/
theorem C07_list_strip_rule (d s : List Val)
    (h1 : s.any (fun x => x == Val.str "$replace") = false)
    (h2 : hasListMapBool s "$replace" true = false) :
    merge (.list d) (.list s) = Except.map Val.list (mergeEntries (dropRequired d) s) := by
  rw [merge_list_list, mergeListList_no_replace d h1 h2]
  cases mergeEntries (dropRequired d) s <;> rfl

theorem C07_list_strip_nil (d : List Val) :
    merge (.list d) (.list []) = .ok (.list (dropRequired d)) ∧
    Val.str "$required" ∉ dropRequired d :=
  ⟨q_merge_list_nil d, q_not_mem_dropRequired d⟩

/-- **a `$required` list entry survives** upper layers that do not mention the list's path (for
    `π = [k]`: that do not have the key `k` at all) -/
theorem C07_required_list_persists (lower : Val) (uppers : List Val) (π : List String)
    (L : List Val) (res : Val)
    (hL : mapPath lower π = some (.list L)) (hmem : Val.str "$required" ∈ L)
    (hup : ∀ u ∈ uppers, u.WF ∧ mentions u π = false)
    (h : mergeChain (lower :: uppers) = .ok res) :
    mapPath res π = some (.list L) ∧ 0 < countReq res ∧ validate res ≠ .ok () := by
  have h1 := C07_path_persists lower uppers π _ res hL hup h
  have h2 : 0 < countReq res := by
    have := C07_countReq_of_path π res _ h1
    have h3 := q_countReq_le_of_mem hmem
    simp only [countReq, if_true] at this h3
    omega
  exact ⟨h1, h2, C07_required_rejected res h2⟩

/-- **… and is stripped when the upper layer's list appends**: for a patch list `s` of plain
    entries at the same path the merged list is `dropRequired L ++ s`; it contains a
    `"$required"` entry only if `s` brings its own. -/
theorem C07_required_list_stripped (lower upper res : Val) (π : List String) (L s : List Val)
    (hw : upper.WF) (hL : mapPath lower π = some (.list L))
    (hs : mapPath upper π = some (.list s)) (hnr : noReplaceAlong upper π = true)
    (hplain : s.all plainEntry = true) (h : merge lower upper = .ok res) :
    mapPath res π = some (.list (dropRequired L ++ s)) ∧
    (Val.str "$required" ∈ dropRequired L ++ s ↔ Val.str "$required" ∈ s) := by
  obtain ⟨r', h1, h2⟩ := q_merge_path_merge π lower upper res _ _ hw hL hs hnr
    (by simp only [Val.toStr]; decide) h
  rw [q_merge_list_plain L s hplain] at h1
  cases h1
  refine ⟨h2, ?_⟩
  rw [List.mem_append]
  constructor
  · rintro (h | h)
    · exact absurd h (q_not_mem_dropRequired L)
    · exact h
  · exact Or.inr

/-! ### non-vacuity -/

local instance instDecWF_C07 (v : Val) : Decidable v.WF := by unfold Val.WF; infer_instance

/-- lower layer: a marker at `svc.port`, a marker entry in the list `svc.args` -/
def c07_lower : Val :=
  .map [("name", .str "x"),
        ("svc", .map [("args", .list [.str "$required", .str "-v"]), ("port", .str "$required")])]

/-- two upper layers that touch `svc` and `name` but neither `svc.port` nor `svc.args` -/
def c07_up1 : Val := .map [("svc", .map [("host", .str "h")])]
def c07_up2 : Val := .map [("name", .str "y"), ("svc", .null)]

example : mapPath c07_lower ["svc", "port"] = some (.str "$required") ∧
    (∀ u ∈ [c07_up1, c07_up2], u.WF ∧ mentions u ["svc", "port"] = false) ∧
    mergeChain [c07_lower, c07_up1, c07_up2] =
      .ok (.map [("name", .str "y"),
        ("svc", .map [("args", .list [.str "$required", .str "-v"]), ("host", .str "h"),
                      ("port", .str "$required")])]) := by
  refine ⟨by decide, by decide, ?_⟩
  simp [c07_lower, c07_up1, c07_up2, mergeChain, List.foldlM, merge, mergeMapMap, mergeFields,
    fhasBool, fget, fset, Val.toStr]
  rfl

example : mapPath c07_lower ["svc", "args"] = some (.list [.str "$required", .str "-v"]) ∧
    Val.str "$required" ∈ [Val.str "$required", .str "-v"] ∧
    (∀ u ∈ [c07_up1, c07_up2], u.WF ∧ mentions u ["svc", "args"] = false) := by decide

/-- an upper layer that sets the port, below a `$replace: true` map -/
def c07_up3 : Val := .map [("svc", .map [("$replace", .bool true), ("port", .int 80)])]

example : c07_up3.WF ∧ mapPath c07_up3 ["svc", "port"] = some (.int 80) ∧
    Val.int 80 ≠ .str "$delete" ∧ (Val.int 80 = .bool true → False) ∧
    mentions c07_up3 ["svc", "port"] = true ∧
    merge c07_lower c07_up3 = .ok (.map [("name", .str "x"), ("svc", .map [("port", .int 80)])]) := by
  refine ⟨by decide, by decide, by decide, by decide, by decide, ?_⟩
  simp [c07_lower, c07_up3, merge, mergeMapMap, mergeFields, fhasBool, fget, fset, fdel,
    Val.toStr]
  rfl

/-- the excluded case of `C07_required_scalar_override` is real: the value at `π` is itself the
    `$replace: true` directive and is consumed -/
example : mapPath (.map [("$replace", .str "$required")]) ["$replace"] = some (.str "$required") ∧
    mapPath (.map [("$replace", .bool true)]) ["$replace"] = some (.bool true) ∧
    merge (.map [("$replace", .str "$required")]) (.map [("$replace", .bool true)])
      = .ok (.map []) := by
  refine ⟨by decide, by decide, ?_⟩
  simp [merge, mergeMapMap, fhasBool, fget, fdel]
  rfl

/-- `$delete` is the other way to get rid of the marker: the key disappears -/
example : merge (.map [("a", .str "$required")]) (.map [("a", .str "$delete")]) = .ok (.map []) := by
  simp [merge, mergeMapMap, mergeFields, fhasBool, fget, fdel, fhas, Val.toStr]
  rfl

/-- an upper layer whose list appends: the marker entry is stripped -/
def c07_up4 : Val := .map [("svc", .map [("args", .list [.str "-q"]), ("port", .int 1)])]

example : c07_up4.WF ∧ mapPath c07_up4 ["svc", "args"] = some (.list [.str "-q"]) ∧
    noReplaceAlong c07_up4 ["svc", "args"] = true ∧ [Val.str "-q"].all plainEntry = true ∧
    merge c07_lower c07_up4 = .ok (.map [("name", .str "x"),
      ("svc", .map [("args", .list [.str "-v", .str "-q"]), ("port", .int 1)])]) := by
  refine ⟨by decide, by decide, by decide, by decide, ?_⟩
  simp [c07_lower, c07_up4, merge, mergeMapMap, mergeFields, fhasBool, fget, fset, Val.toStr,
    mergeListList, popListString, popListMapBool, hasListMapBool, mergeEntries]
  rfl

example : [Val.int 1].any (fun x => x == Val.str "$replace") = false ∧
    hasListMapBool [Val.int 1] "$replace" true = false := by decide


end Bkl
