/-
  C07 — no unresolved `$required` and no stray `$directive` string reaches the output.
  Model: `validateChars`, `validateString`, `validate`, `emit` (Bkl/Output.lean).
  Theorems about `Val` come with `_list` / `_fields` companions (mutual structural proofs).
-/
import Bkl
import BklProofs.Lemmas.Output
import BklProofs.C17
namespace Bkl

/-! ## Specification -/

/-- a string the output stage must reject: exactly "$required", or `$` followed by a
    lower-case letter (a directive that was not consumed) -/
def badString (s : String) : Bool :=
  decide (s.toList = "$required".toList) ||
  match s.toList with
  | '$' :: c :: _ => isLowerModel c
  | _ => false

mutual
/-- no map key and no string leaf is a `badString` -/
def clean : Val → Bool
  | .str s => !badString s
  | .list xs => cleanList xs
  | .map kvs => cleanFields kvs
  | _ => true
def cleanList : List Val → Bool
  | [] => true
  | x :: xs => clean x && cleanList xs
def cleanFields : Fields → Bool
  | [] => true
  | (k, v) :: rest => !badString k && clean v && cleanFields rest
end

/-! ## `validate` accepts exactly the clean trees -/

theorem validateString_iff (s : String) : validateString s = .ok () ↔ badString s = false := by
  unfold validateString validateChars badString
  by_cases h : s.toList = "$required".toList
  · simp [h, throw, throwThe, MonadExceptOf.throw]
  · simp only [h, if_false, decide_false, Bool.false_or]
    split
    · rename_i c rest heq
      by_cases hc : isLowerModel c <;> simp [heq, hc, throw, throwThe, MonadExceptOf.throw, pure, Except.pure]
    · simp [pure, Except.pure]

mutual
theorem validate_iff : ∀ (v : Val), validate v = .ok () ↔ clean v = true
  | .map kvs => by simp only [validate, clean]; exact validate_iff_fields kvs
  | .list xs => by simp only [validate, clean]; exact validate_iff_list xs
  | .str s => by simp [validate, clean, validateString_iff]
  | .null | .bool _ | .int _ | .flt _ => by simp [validate, clean, pure, Except.pure]
theorem validate_iff_list : ∀ (xs : List Val), validateList xs = .ok () ↔ cleanList xs = true
  | [] => by simp [validateList, cleanList, pure, Except.pure]
  | x :: xs => by
    simp only [validateList, cleanList, Bool.and_eq_true, o_seq_ok, validate_iff x,
      validate_iff_list xs]
theorem validate_iff_fields : ∀ (kvs : Fields), validateFields kvs = .ok () ↔ cleanFields kvs = true
  | [] => by simp [validateFields, cleanFields, pure, Except.pure]
  | (k, v) :: rest => by
    simp only [validateFields, cleanFields, Bool.and_eq_true, o_seq_ok, validate_iff v,
      validate_iff_fields rest, validateString_iff, Bool.not_eq_true', and_assoc]
end

example : clean (.map [("a", .str "$$x"), ("$Upper", .list [.str "$", .int 1])]) = true := by decide
example : clean (.map [("a", .str "$x")]) = false := by decide

/-! ## The only errors of `validate` -/

theorem validateString_error (s : String) (e : Err) (h : validateString s = .error e) :
    e = .requiredField ∨ e = .invalidDirective := by
  unfold validateString validateChars at h
  split at h
  · cases h; left; rfl
  · split at h
    · split at h
      · cases h; right; rfl
      · cases h
    · cases h

mutual
theorem validate_error : ∀ (v : Val) (e : Err), validate v = .error e →
    e = .requiredField ∨ e = .invalidDirective
  | .map kvs, e, h => validate_error_fields kvs e (by simpa only [validate] using h)
  | .list xs, e, h => validate_error_list xs e (by simpa only [validate] using h)
  | .str s, e, h => validateString_error s e (by simpa only [validate] using h)
  | .null, _, h | .bool _, _, h | .int _, _, h | .flt _, _, h => by
    simp [validate, pure, Except.pure] at h
theorem validate_error_list : ∀ (xs : List Val) (e : Err), validateList xs = .error e →
    e = .requiredField ∨ e = .invalidDirective
  | [], e, h => by simp [validateList, pure, Except.pure] at h
  | x :: xs, e, h => by
    simp only [validateList] at h
    rcases o_seq_error h with h | h
    · exact validate_error x e h
    · exact validate_error_list xs e h
theorem validate_error_fields : ∀ (kvs : Fields) (e : Err), validateFields kvs = .error e →
    e = .requiredField ∨ e = .invalidDirective
  | [], e, h => by simp [validateFields, pure, Except.pure] at h
  | (k, v) :: rest, e, h => by
    simp only [validateFields] at h
    rcases o_seq_error h with h | h
    · exact validateString_error k e h
    · rcases o_seq_error h with h | h
      · exact validate_error v e h
      · exact validate_error_fields rest e h
end

example : validate (.map [("a", .str "$required")]) = .error .requiredField := by decide
example : validate (.list [.map [("$merge", .int 1)]]) = .error .invalidDirective := by decide

/-! ## Everything `emit` returns went through `validate` -/

/-- every emitted document is the finalisation of a validated tree -/
theorem C07_outputs_validated (ds outs : List Val) (h : emit ds = .ok outs) :
    ∀ o ∈ outs, ∃ v2, o = finalize v2 ∧ validate v2 = .ok () := by
  intro o ho
  rw [emit_eq] at h
  cases hs : emitSelect ds with
  | error e => rw [hs] at h; cases h
  | ok vs =>
    rw [hs] at h
    obtain ⟨_, _, v2, _, hv, rfl⟩ := emitFinish_mem vs outs h o ho
    exact ⟨v2, rfl, hv⟩

/-- … and hence of a `clean` tree -/
theorem C07_outputs_clean (ds outs : List Val) (h : emit ds = .ok outs) :
    ∀ o ∈ outs, ∃ v2, o = finalize v2 ∧ clean v2 = true := by
  intro o ho
  obtain ⟨v2, h1, h2⟩ := C07_outputs_validated ds outs h o ho
  exact ⟨v2, h1, (validate_iff v2).1 h2⟩

example : emit [.map [("a", .int 1), ("b", .map [("$output", .bool false)])]] =
    .ok [.map [("a", .int 1)]] := by decide

/-! ## An unresolved `$required` is rejected -/

mutual
theorem C07_required_not_clean : ∀ (v : Val), 0 < countReq v → clean v = false
  | .map kvs, h => by
    simp only [countReq] at h; simp only [clean]; exact C07_required_not_clean_fields kvs h
  | .list xs, h => by
    simp only [countReq] at h; simp only [clean]; exact C07_required_not_clean_list xs h
  | .str s, h => by
    simp only [countReq] at h
    split at h
    · rename_i hs; subst hs; decide
    · omega
  | .null, h | .bool _, h | .int _, h | .flt _, h => by simp [countReq] at h
theorem C07_required_not_clean_list : ∀ (xs : List Val), 0 < countReqList xs → cleanList xs = false
  | [], h => by simp [countReqList] at h
  | x :: xs, h => by
    simp only [countReqList] at h
    simp only [cleanList, Bool.and_eq_false_iff]
    by_cases hx : 0 < countReq x
    · left; exact C07_required_not_clean x hx
    · right; exact C07_required_not_clean_list xs (by omega)
theorem C07_required_not_clean_fields : ∀ (kvs : Fields), 0 < countReqFields kvs →
    cleanFields kvs = false
  | [], h => by simp [countReqFields] at h
  | (k, v) :: rest, h => by
    simp only [countReqFields] at h
    simp only [cleanFields, Bool.and_eq_false_iff]
    by_cases hx : 0 < countReq v
    · left; right; exact C07_required_not_clean v hx
    · right; exact C07_required_not_clean_fields rest (by omega)
end

/-- a tree that still contains a `$required` marker never validates -/
theorem C07_required_rejected (v2 : Val) (h : 0 < countReq v2) : validate v2 ≠ .ok () := by
  intro hv
  have := C07_required_not_clean v2 h
  rw [(validate_iff v2).1 hv] at this
  cases this

/-- more precisely it fails, with one of the two `validate` errors -/
theorem C07_required_rejected_error (v2 : Val) (h : 0 < countReq v2) :
    validate v2 = .error .requiredField ∨ validate v2 = .error .invalidDirective := by
  cases hv : validate v2 with
  | ok u => exact absurd hv (C07_required_rejected v2 h)
  | error e => rcases validate_error v2 e hv with rfl | rfl <;> simp

example : 0 < countReq (.map [("a", .list [.int 1, .str "$required"])]) := by decide

/-- so `emit` fails as soon as a filtered document still carries a marker -/
theorem C07_emit_required_fails (v v2 : Val) (h1 : findOutputs v = .ok (v, []))
    (h2 : filterOutput v = .ok (some v2)) (h3 : 0 < countReq v2) :
    ∃ e, emit [v] = .error e := by
  rw [emit_eq]
  simp only [emitSelect, h1, bind, Except.bind, pure, Except.pure, List.isEmpty_nil, if_true,
    List.append_nil, emitFinish, h2]
  rcases C07_required_rejected_error v2 h3 with h | h <;> rw [h] <;> exact ⟨_, rfl⟩

example : findOutputs (.map [("a", .str "$required")]) = .ok (.map [("a", .str "$required")], []) ∧
    filterOutput (.map [("a", .str "$required")]) = .ok (some (.map [("a", .str "$required")])) := by
  decide

/-! ## Directive literals are rejected -/

theorem C07_directive_strings_rejected :
    ∀ s ∈ ["$delete", "$replace", "$match", "$value", "$invert", "$required", "$output", "$merge",
           "$encode", "$decode", "$repeat", "$parent", "$env:X", "$merge:a", "$replace:a"],
      validateString s ≠ .ok () := by
  decide

theorem C07_dollar_lower_rejected (c : Char) (rest : List Char) (h : isLowerModel c = true) :
    validateChars ('$' :: c :: rest) ≠ .ok () := by
  unfold validateChars
  split
  · intro h'; cases h'
  · simp [h, throw, throwThe, MonadExceptOf.throw]

/-- lifted to strings -/
theorem C07_dollar_lower_rejected_string (c : Char) (rest : List Char)
    (h : isLowerModel c = true) : validateString (String.ofList ('$' :: c :: rest)) ≠ .ok () := by
  unfold validateString
  rw [String.toList_ofList]
  exact C07_dollar_lower_rejected c rest h

example : isLowerModel 'm' = true := by decide

end Bkl
