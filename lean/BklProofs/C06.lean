/-
  C06 — "Plain data passes through unchanged; `$$` escapes any literal dollar."

  Definitions used here (all in BklProofs/Lemmas/Escape*.lean):
  * `doubleChars`, `doubleStr`, `double` (+ `doubleList`, `doubleFields`): every `$` in every
    map key and every string leaf becomes `$$`;
  * `dropNulls`: null map values and null list entries are removed, recursively;
  * `noNulls v`: no null map value / list entry inside `v`;
  * `depth`: scalars 0, a list / map is one more than its deepest entry;
  * `recognisedCore s`: `s` is a directive name (`directiveNames`), or has prefix `$merge:` /
    `$replace:` / `$env:`, or is an interpolation (`interpBody s ≠ none`), or is rejected by
    `validateString`;   `recognised s := recognisedCore s || s contains "$$"`;
  * `plain v`: no map key and no string leaf of `v` satisfies `recognisedCore`;
    `inert v`: none satisfies `recognised`.
-/
import BklProofs.Lemmas.EscapeProc
import BklProofs.Lemmas.C06Layered
namespace Bkl

-- BklProofs/C17.lean now imports BklProofs.Lemmas.ToolsCliProofs (tool-main theorems), which brings
-- in the simp lemma `R_pure_eq` of Lemmas/Files.lean; it is switched off here so that the `simp`
-- calls below behave exactly as before (several proofs end in `simp […]; rfl`).
attribute [-simp] R_pure_eq

/-! ## 1. unescaping undoes doubling -/

theorem unescape_double (cs : List Char) : unescapeChars (doubleChars cs) = cs :=
  e_unescape_double cs

theorem finalizeString_double (s : String) : finalizeString (doubleStr s) = s :=
  e_finalize_doubleStr s

/-! ## 2. a doubled string is recognised by no phase of the evaluator -/

theorem doubled_not_recognised (s : String) :
    doubleStr s ≠ "$merge" ∧ doubleStr s ≠ "$replace" ∧ doubleStr s ≠ "$repeat" ∧
    doubleStr s ≠ "$encode" ∧ doubleStr s ≠ "$decode" ∧ doubleStr s ≠ "$value" ∧
    doubleStr s ≠ "$output" ∧ doubleStr s ≠ "$match" ∧ doubleStr s ≠ "$required" ∧
    doubleStr s ≠ "$delete" ∧
    stripPrefix (doubleStr s) "$merge:" = none ∧
    stripPrefix (doubleStr s) "$replace:" = none ∧
    interpBody (doubleStr s) = none ∧
    (doubleStr s).startsWith "$env:" = false ∧
    validateString (doubleStr s) = .ok () := by
  have h := e_rc_doubleStr s
  have hn := e_rc_names h
  refine ⟨hn _ (by decide), hn _ (by decide), hn _ (by decide), hn _ (by decide),
    hn _ (by decide), hn _ (by decide), hn _ (by decide), hn _ (by decide), hn _ (by decide),
    hn _ (by decide), e_rc_merge h, e_rc_replace h, e_rc_interp h, e_rc_env h, e_rc_validate h⟩

/-- doubling is strictly monotone for the string order, … -/
theorem doubleStr_lt {a b : String} (h : a < b) : doubleStr a < doubleStr b :=
  e_doubleStr_lt h

/-- … so doubling a well-formed (key-sorted) value gives a well-formed value, … -/
theorem double_WF {v : Val} (h : v.WF) : (double v).WF :=
  e_wf_double_all.1 v h

/-- … which is plain: nothing in it is recognised by the evaluator. -/
theorem double_plain (v : Val) : plain (double v) = true :=
  e_plain_double_all.1 v

/-! ## 3. inert data -/

theorem inert_plain {v : Val} (h : inert v = true) : plain v = true := e_inert_plain h

/-! ## 4./5. the two evaluation phases are the identity up to null dropping -/

/-- process1 on plain data (inert or doubled): only nulls are dropped, the root is untouched. -/
theorem C06_process1_plain (fuel : Nat) (docs : List Val) (root : Val) (loc : Loc) (v : Val)
    (hp : plain v = true) (hw : v.WF) (hd : depth v < fuel) :
    process1 fuel docs root loc v = .ok (dropNulls v, root) :=
  e_process1_plain fuel docs root loc v hp hw hd

theorem C06_process1_inert (fuel : Nat) (docs : List Val) (root : Val) (loc : Loc) (v : Val)
    (hi : inert v = true) (hw : v.WF) (hd : depth v < fuel) :
    process1 fuel docs root loc v = .ok (dropNulls v, root) :=
  e_process1_plain fuel docs root loc v (e_inert_plain hi) hw hd

theorem C06_process2_plain (fuel : Nat) (docs : List Val) (root : Val) (ec : Vars) (v : Val)
    (hp : plain v = true) (hw : v.WF) (hd : depth v < fuel) :
    process2 fuel docs root ec v = .ok (dropNulls v) :=
  e_process2_plain fuel docs root ec v hp hw hd

theorem C06_process2_inert (fuel : Nat) (docs : List Val) (root : Val) (ec : Vars) (v : Val)
    (hi : inert v = true) (hw : v.WF) (hd : depth v < fuel) :
    process2 fuel docs root ec v = .ok (dropNulls v) :=
  e_process2_plain fuel docs root ec v (e_inert_plain hi) hw hd

/-- `dropNulls` is idempotent (so a second phase changes nothing more). -/
theorem dropNulls_idem (v : Val) : dropNulls (dropNulls v) = dropNulls v := e_dropNulls_idem v

/-! ## 6. emission -/

theorem C06_emit_inert (v : Val) (hi : inert v = true) (hw : v.WF) (hn : noNulls v = true)
    (h0 : v ≠ .null) : emit [v] = .ok [v] := by
  have hp := e_inert_plain hi
  have := e_emit_single v v (e_findOutputs_plain_all.1 v hp)
    (e_filterOutput_plain_all.1 v hp hn (by cases v <;> simp_all [Val.isNull]))
    (e_validate_plain_all.1 v hp)
  rw [this, e_finalize_noDD_all.1 v (e_inert_noDD hi) hw]

/-! ## 7. plain data passes through unchanged -/

theorem C06_identity (docs : List Val) (env : Vars) (v : Val)
    (hi : inert v = true) (hw : v.WF) (hd : depth v < depthLimit) (hn : dropNulls v ≠ .null) :
    outputDocument docs env v = .ok [dropNulls v] := by
  rw [e_outputDocument_plain docs env v (e_inert_plain hi) hw hd hn]
  have h1 : noDD (dropNulls v) = true := (e_allStr_dropNulls_all _).1 v (e_inert_noDD hi)
  rw [e_finalize_noDD_all.1 _ h1 (e_wf_dropNulls_all.1 v hw)]

/-- a null document produces no output at all -/
theorem C06_identity_null (docs : List Val) (env : Vars) :
    outputDocument docs env .null = .ok [] :=
  e_outputDocument_null docs env

/-- `dropNulls v` is null exactly for the null document -/
theorem dropNulls_eq_null_iff (v : Val) : dropNulls v = .null ↔ v = .null := by
  cases v <;> simp [dropNulls]

/-! ## 8. `$$` escapes any literal dollar: doubled data evaluates to the original data -/

theorem C06_escape (docs : List Val) (env : Vars) (v : Val)
    (hw : v.WF) (hd : depth v < depthLimit) (hn : dropNulls v ≠ .null) :
    outputDocument docs env (double v) = .ok [dropNulls v] := by
  have hn' : dropNulls (double v) ≠ .null := by
    rw [e_dropNulls_double_all.1]; cases v <;> simp_all [dropNulls, double]
  rw [e_outputDocument_plain docs env (double v) (e_plain_double_all.1 v)
    (e_wf_double_all.1 v hw) (by rw [e_depth_double_all.1]; exact hd) hn']
  rw [e_dropNulls_double_all.1, e_finalize_double_all.1 _ (e_wf_dropNulls_all.1 v hw)]

theorem C06_escape_null (docs : List Val) (env : Vars) :
    outputDocument docs env (double .null) = .ok [] :=
  e_outputDocument_null docs env

/-! ## the depth hypothesis cannot be dropped -/

/-- `nest n` (n singleton lists around `1`) is inert, well-formed, null-free, of depth `n`;
    below the limit it evaluates to itself, at the limit evaluation fails with
    `circularRef` (process1 enters the root with fuel `depthLimit = 1000`). -/
theorem C06_depth_bound_needed (docs : List Val) (env : Vars) (n : Nat) :
    inert (nest n) = true ∧ (nest n).WF ∧ depth (nest n) = n ∧ dropNulls (nest n) = nest n ∧
    (n < depthLimit → outputDocument docs env (nest n) = .ok [nest n]) ∧
    (depthLimit ≤ n → outputDocument docs env (nest n) = .error .circularRef) := by
  obtain ⟨h1, h2, h3, h4⟩ := e_nest_props n
  refine ⟨h1, h2, h3, h4, ?_, e_outputDocument_nest_fail docs env n⟩
  intro hn
  have := C06_identity docs env (nest n) h1 h2 (by omega) (by rw [h4]; cases n <;> simp [nest])
  rw [this, h4]

/-! ## non-vacuity -/

local instance instDecWF_C06 (v : Val) : Decidable v.WF := by unfold Val.WF; infer_instance

/-- plain data with dollars that are not directives, nulls to drop, nested containers -/
def c06_ex1 : Val :=
  .map [("a", .str "$5 bill"), ("b", .list [.null, .int 1, .str "x{y}$", .map [("$", .null)]]),
        ("c", .null), ("d", .map [])]

example : inert c06_ex1 = true ∧ c06_ex1.WF ∧ depth c06_ex1 < depthLimit ∧
    dropNulls c06_ex1 ≠ .null := by decide

example : outputDocument [] [] c06_ex1 =
    .ok [.map [("a", .str "$5 bill"), ("b", .list [.int 1, .str "x{y}$", .map []]),
               ("d", .map [])]] :=
  C06_identity [] [] c06_ex1 (by decide) (by decide) (by decide) (by decide)

example : inert (dropNulls c06_ex1) = true ∧ (dropNulls c06_ex1).WF ∧
    noNulls (dropNulls c06_ex1) = true ∧ dropNulls c06_ex1 ≠ .null := by decide

example : process1 depthLimit [] c06_ex1 (some []) c06_ex1 = .ok (dropNulls c06_ex1, c06_ex1) :=
  C06_process1_inert _ _ _ _ _ (by decide) (by decide) (by decide)

example : process2 depthLimit [] c06_ex1 [] c06_ex1 = .ok (dropNulls c06_ex1) :=
  C06_process2_inert _ _ _ _ _ (by decide) (by decide) (by decide)

example : emit [dropNulls c06_ex1] = .ok [dropNulls c06_ex1] :=
  C06_emit_inert _ (by decide) (by decide) (by decide) (by decide)

/-- data full of directive names: every one is neutralised by doubling -/
def c06_ex2 : Val :=
  .map [("$merge", .str "$env:HOME"), ("$output", .bool false),
        ("k$$", .list [.str "$\"{a}\"", .null, .str "$required", .map [("$repeat", .int 3)]])]

example : c06_ex2.WF ∧ depth c06_ex2 < depthLimit ∧ dropNulls c06_ex2 ≠ .null := by decide

example : outputDocument [] [] (double c06_ex2) =
    .ok [.map [("$merge", .str "$env:HOME"), ("$output", .bool false),
        ("k$$", .list [.str "$\"{a}\"", .str "$required", .map [("$repeat", .int 3)]])]] :=
  C06_escape [] [] c06_ex2 (by decide) (by decide) (by decide)

example : doubleStr "a$b$$" = "a$$b$$$$" := by decide

/-- the fuel bound is tight: depth 1 needs fuel 2 -/
example : process1 1 [] .null none (.list [.int 1]) = .error .circularRef := by rfl
example : process1 2 [] .null none (.list [.int 1]) = .ok (.list [.int 1], .null) := by rfl
example : process2 1 [] .null [] (.list [.int 1]) = .error .circularRef := by rfl

/-! ## 9. doubled data layered over other documents

  Definitions (BklProofs/Lemmas/C06Layered.lean):
  * `plainMerge dst src` / `plainMergeFields` — the *directive-free structural merge*: `merge`
    (Bkl/Merge.lean) with every directive switched off.  Maps merge key by key (a new key is
    inserted, an existing key is merged recursively), lists concatenate (`d ++ s`, nothing is
    stripped), a null child keeps the parent, a null parent is replaced, a scalar parent is
    replaced (an identical child is `uselessOverride`), a scalar / list over a non-empty map and
    a scalar / map over a list are `invalidType`.  In particular the strings `"$delete"`,
    `"$replace"`, `"$required"` and the keys `$replace`, `$match`, `$value`, `$delete` in the
    child are DATA: `plainMerge {a: 1} {a: "$delete"} = {a: "$delete"}`.
  * `plainChain` — `plainMerge` folded over a chain of layers, base first (as `mergeChain`).
  * `noDollar v` — no map key and no string leaf of `v` contains a `$`
    (`noDollar v → inert v`, and `double v = v`).
  * `plainOutputs r` — `[]` for the null document, else `[dropNulls r]`. -/

/-- **doubling commutes with merge** (no hypothesis): for the doubled child no directive is
    recognised, so merging doubled data is the directive-free merge of the data, doubled —
    same success, same error. -/
theorem C06_merge_double (a b : Val) :
    merge (double a) (double b) = Except.map double (plainMerge a b) :=
  l_merge_double a b

/-- the same for a whole chain of doubled layers -/
theorem C06_mergeChain_double (vs : List Val) :
    mergeChain (doubleList vs) = Except.map double (plainChain vs) :=
  l_mergeChain_double vs

/-- `plainMerge` is not a new operation: on `$`-free data it IS `merge`. -/
theorem C06_plainMerge_is_merge (a b : Val) (ha : noDollar a = true)
    (hb : noDollar b = true) : merge a b = plainMerge a b :=
  l_merge_eq_plainMerge_free ha hb

/-- `$`-free data is inert, and doubling leaves it alone -/
theorem C06_noDollar (p : Val) (hp : noDollar p = true) : inert p = true ∧ double p = p :=
  ⟨l_free_inert hp, l_double_free hp⟩

/-- merge level: a doubled child over a `$`-free parent -/
theorem C06_layered_merge (p v : Val) (hp : noDollar p = true) :
    mergeChain [p, double v] = Except.map double (plainMerge p v) := by
  have h := l_merge_double p v
  rw [l_double_free hp] at h
  rw [l_mergeChain_pair, h]

/-- **C06, layered**: evaluating the chain `[p, double v]` (merge, then the pipeline of
    `C06_escape`) gives exactly the plain structural merge of `p` and the *undoubled* `v`, nulls
    dropped: success with `dropNulls (plainMerge p v)` exactly when `plainMerge p v` succeeds,
    the same error exactly where it fails. -/
theorem C06_layered (docs : List Val) (env : Vars) (p v : Val)
    (hp : noDollar p = true) (hpw : p.WF) (hvw : v.WF)
    (hpd : depth p < depthLimit) (hvd : depth v < depthLimit) :
    (mergeChain [p, double v] >>= outputDocument docs env) =
      Except.map plainOutputs (plainMerge p v) := by
  rw [C06_layered_merge p v hp]
  cases hm : plainMerge p v with
  | error e => rfl
  | ok r =>
    show outputDocument docs env (double r) = .ok (plainOutputs r)
    have hrw : r.WF := l_plainMerge_wf hpw hvw hm
    have hrd : depth r < depthLimit := by
      have := l_plainMerge_depth hm
      omega
    unfold plainOutputs
    by_cases hn : r = .null
    · subst hn; exact C06_escape_null docs env
    · have hnn : r.isNull = false := by cases r <;> simp_all [Val.isNull]
      rw [hnn]
      exact C06_escape docs env r hrw hrd (by rw [Ne, dropNulls_eq_null_iff]; exact hn)

/-- the two halves of `C06_layered`, spelled out -/
theorem C06_layered_ok (docs : List Val) (env : Vars) (p v r : Val)
    (hp : noDollar p = true) (hpw : p.WF) (hvw : v.WF)
    (hpd : depth p < depthLimit) (hvd : depth v < depthLimit) (hm : plainMerge p v = .ok r) :
    mergeChain [p, double v] = .ok (double r) ∧
    (mergeChain [p, double v] >>= outputDocument docs env) = .ok (plainOutputs r) := by
  refine ⟨by rw [C06_layered_merge p v hp, hm]; rfl, ?_⟩
  rw [C06_layered docs env p v hp hpw hvw hpd hvd, hm]; rfl

theorem C06_layered_error (docs : List Val) (env : Vars) (p v : Val) (e : Err)
    (hp : noDollar p = true) (hm : plainMerge p v = .error e) :
    mergeChain [p, double v] = .error e ∧
    (mergeChain [p, double v] >>= outputDocument docs env) = .error e := by
  rw [C06_layered_merge p v hp, hm]; exact ⟨rfl, rfl⟩

/-- for two maps the merged document is a map, so exactly one document is printed -/
theorem C06_layered_map (docs : List Val) (env : Vars) (p v : Fields)
    (hp : noDollar (.map p) = true) (hpw : (Val.map p).WF) (hvw : (Val.map v).WF)
    (hpd : depth (.map p) < depthLimit) (hvd : depth (.map v) < depthLimit) :
    (mergeChain [.map p, double (.map v)] >>= outputDocument docs env) =
      Except.map (fun r => [dropNulls r]) (plainMerge (.map p) (.map v)) := by
  rw [C06_layered docs env _ _ hp hpw hvw hpd hvd, l_pm_map_map]
  cases plainMergeFields p v <;> rfl

/-- The parent must really be `$`-free; *inert* (not recognised by the evaluator, no `$$`) is
    not enough.  (1) An inert parent string with a `$` is no longer equal to the doubled child
    string, so a `uselessOverride` of the plain merge is lost.  (2) An inert parent key with a
    `$` and its doubled twin are different keys for `merge` but the same key after `$$` is
    unescaped: the override by the upper layer is lost. -/
theorem C06_layered_inert_counterexample :
    (let p : Val := .map [("a", .str "$5")]
     inert p = true ∧ p.WF ∧ noDollar p = false ∧
     plainMerge p p = .error .uselessOverride ∧
     (mergeChain [p, double p] >>= outputDocument [] []) = .ok [p]) ∧
    (let p : Val := .map [("$X", .int 1)]
     let v : Val := .map [("$X", .int 2)]
     inert p = true ∧ p.WF ∧ v.WF ∧ noDollar p = false ∧
     plainMerge p v = .ok v ∧
     (mergeChain [p, double v] >>= outputDocument [] []) = .ok [p]) := by
  constructor
  · refine ⟨by decide, by decide, by decide, by rfl, ?_⟩
    have hd : double (.map [("a", .str "$5")]) = .map [("a", .str "$$5")] := by decide
    have hm : mergeChain [.map [("a", .str "$5")], .map [("a", .str "$$5")]]
        = .ok (.map [("a", .str "$$5")]) := by
      rw [l_mergeChain_pair]
      simp [merge, mergeMapMap, mergeFields, fhasBool, fget, fset, Val.toStr]
      rfl
    rw [hd, hm, ← hd]
    exact C06_escape [] [] (.map [("a", .str "$5")]) (by decide) (by decide) (by decide)
  · refine ⟨by decide, by decide, by decide, by decide, by rfl, ?_⟩
    have hd : double (.map [("$X", .int 2)]) = .map [("$$X", .int 2)] := by decide
    have hm : mergeChain [.map [("$X", .int 1)], .map [("$$X", .int 2)]]
        = .ok (.map [("$$X", .int 2), ("$X", .int 1)]) := by
      rw [l_mergeChain_pair]
      simp [merge, mergeMapMap, mergeFields, fhasBool, fget, fset, Val.toStr]
      rfl
    rw [hd, hm]
    show outputDocument [] [] (.map [("$$X", .int 2), ("$X", .int 1)]) = _
    rw [e_outputDocument_plain [] [] _ (by decide) (by decide) (by decide) (by decide)]
    rfl

/-! ### non-vacuity for section 9 -/

/-- a `$`-free parent -/
def c06_par : Val :=
  .map [("a", .int 1), ("k", .map [("x", .str "old"), ("y", .null)]), ("l", .list [.int 1])]

/-- a child full of strings that `merge` would take for directives -/
def c06_child : Val :=
  .map [("$match", .int 7), ("a", .str "$delete"),
        ("k", .map [("$replace", .bool true), ("x", .str "$required")]),
        ("l", .list [.str "$replace", .map [("$delete", .int 1)]])]

example : noDollar c06_par = true ∧ c06_par.WF ∧ c06_child.WF ∧
    depth c06_par < depthLimit ∧ depth c06_child < depthLimit := by decide

/-- every "directive" of the child arrives as data; `y: null` of the parent is dropped -/
example : (mergeChain [c06_par, double c06_child] >>= outputDocument [] []) =
    .ok [.map [("$match", .int 7), ("a", .str "$delete"),
        ("k", .map [("$replace", .bool true), ("x", .str "$required")]),
        ("l", .list [.int 1, .str "$replace", .map [("$delete", .int 1)]])]] := by
  rw [C06_layered [] [] c06_par c06_child (by decide) (by decide) (by decide) (by decide)
    (by decide)]
  rfl

/-- whereas the undoubled child is full of directives: `a` is deleted, `k` and `l` replaced -/
example : merge c06_par c06_child ≠ plainMerge c06_par c06_child := by
  have hm : merge c06_par c06_child = .ok (.map [("$match", .int 7),
      ("k", .map [("x", .str "$required")]), ("l", .list [.map [("$delete", .int 1)]])]) := by
    simp [c06_par, c06_child, merge, mergeMapMap, mergeFields, fhasBool, fget, fset, fdel, fhas,
      Val.toStr, mergeListList, popListString]
    rfl
  have hp : plainMerge c06_par c06_child = .ok (.map [("$match", .int 7), ("a", .str "$delete"),
      ("k", .map [("$replace", .bool true), ("x", .str "$required"), ("y", .null)]),
      ("l", .list [.int 1, .str "$replace", .map [("$delete", .int 1)]])]) := by rfl
  rw [hm, hp]
  intro h
  exact absurd (Except.ok.inj h) (by decide)

/-- an error of the plain merge is the error of the layered evaluation -/
example : plainMerge c06_par (.map [("l", .int 3)]) = .error .invalidType ∧
    (mergeChain [c06_par, double (.map [("l", .int 3)])] >>= outputDocument [] [])
      = .error .invalidType :=
  ⟨by rfl, (C06_layered_error [] [] c06_par _ _ (by decide) (by rfl)).2⟩

example : noDollar c06_par = true ∧ noDollar (.map [("a", .str "x")]) = true ∧
    merge c06_par (.map [("a", .str "x")]) = plainMerge c06_par (.map [("a", .str "x")]) :=
  ⟨by decide, by decide, C06_plainMerge_is_merge _ _ (by decide) (by decide)⟩


end Bkl
