/-
  C06 — "Plain data passes through unchanged; `$$` escapes any literal dollar."

  Definitions used here (all in BklProofs/Lemmas/Escape*.lean):
  * `doubleChars`, `doubleStr`, `double` (+ `doubleList`, `doubleFields`): every `$` in every
    map key and every string leaf becomes `$$`;
  * `dropNulls`: null map values and null list entries are removed, recursively;
  * `noNulls v`: no null map value / list entry inside `v`;
  * `depth`: scalars 0, a list / map is one more than its deepest entry;
  * `recognisedCore s`: `s` is a directive name (`directiveNames`), or has prefix `$merge:` /
    `$replace:` / `$env:`, or is an interpolation (`interpBody s ≠ none`), or is rejected by
    `validateString`;   `recognised s := recognisedCore s || s contains "$$"`;
  * `plain v`: no map key and no string leaf of `v` satisfies `recognisedCore`;
    `inert v`: none satisfies `recognised`.
-/
import BklProofs.Lemmas.EscapeProc
namespace Bkl

/-! ## 1. unescaping undoes doubling -/

theorem unescape_double (cs : List Char) : unescapeChars (doubleChars cs) = cs :=
  e_unescape_double cs

theorem finalizeString_double (s : String) : finalizeString (doubleStr s) = s :=
  e_finalize_doubleStr s

/-! ## 2. a doubled string is recognised by no phase of the evaluator -/

theorem doubled_not_recognised (s : String) :
    doubleStr s ≠ "$merge" ∧ doubleStr s ≠ "$replace" ∧ doubleStr s ≠ "$repeat" ∧
    doubleStr s ≠ "$encode" ∧ doubleStr s ≠ "$decode" ∧ doubleStr s ≠ "$value" ∧
    doubleStr s ≠ "$output" ∧ doubleStr s ≠ "$match" ∧ doubleStr s ≠ "$required" ∧
    doubleStr s ≠ "$delete" ∧
    stripPrefix (doubleStr s) "$merge:" = none ∧
    stripPrefix (doubleStr s) "$replace:" = none ∧
    interpBody (doubleStr s) = none ∧
    (doubleStr s).startsWith "$env:" = false ∧
    validateString (doubleStr s) = .ok () := by
  have h := e_rc_doubleStr s
  have hn := e_rc_names h
  refine ⟨hn _ (by decide), hn _ (by decide), hn _ (by decide), hn _ (by decide),
    hn _ (by decide), hn _ (by decide), hn _ (by decide), hn _ (by decide), hn _ (by decide),
    hn _ (by decide), e_rc_merge h, e_rc_replace h, e_rc_interp h, e_rc_env h, e_rc_validate h⟩

/-- doubling is strictly monotone for the string order, … -/
theorem doubleStr_lt {a b : String} (h : a < b) : doubleStr a < doubleStr b :=
  e_doubleStr_lt h

/-- … so doubling a well-formed (key-sorted) value gives a well-formed value, … -/
theorem double_WF {v : Val} (h : v.WF) : (double v).WF :=
  e_wf_double_all.1 v h

/-- … which is plain: nothing in it is recognised by the evaluator. -/
theorem double_plain (v : Val) : plain (double v) = true :=
  e_plain_double_all.1 v

/-! ## 3. inert data -/

theorem inert_plain {v : Val} (h : inert v = true) : plain v = true := e_inert_plain h

/-! ## 4./5. the two evaluation phases are the identity up to null dropping -/

/-- process1 on plain data (inert or doubled): only nulls are dropped, the root is untouched. -/
theorem C06_process1_plain (fuel : Nat) (docs : List Val) (root : Val) (loc : Loc) (v : Val)
    (hp : plain v = true) (hw : v.WF) (hd : depth v < fuel) :
    process1 fuel docs root loc v = .ok (dropNulls v, root) :=
  e_process1_plain fuel docs root loc v hp hw hd

theorem C06_process1_inert (fuel : Nat) (docs : List Val) (root : Val) (loc : Loc) (v : Val)
    (hi : inert v = true) (hw : v.WF) (hd : depth v < fuel) :
    process1 fuel docs root loc v = .ok (dropNulls v, root) :=
  e_process1_plain fuel docs root loc v (e_inert_plain hi) hw hd

theorem C06_process2_plain (fuel : Nat) (docs : List Val) (root : Val) (ec : Vars) (v : Val)
    (hp : plain v = true) (hw : v.WF) (hd : depth v < fuel) :
    process2 fuel docs root ec v = .ok (dropNulls v) :=
  e_process2_plain fuel docs root ec v hp hw hd

theorem C06_process2_inert (fuel : Nat) (docs : List Val) (root : Val) (ec : Vars) (v : Val)
    (hi : inert v = true) (hw : v.WF) (hd : depth v < fuel) :
    process2 fuel docs root ec v = .ok (dropNulls v) :=
  e_process2_plain fuel docs root ec v (e_inert_plain hi) hw hd

/-- `dropNulls` is idempotent (so a second phase changes nothing more). -/
theorem dropNulls_idem (v : Val) : dropNulls (dropNulls v) = dropNulls v := e_dropNulls_idem v

/-! ## 6. emission -/

theorem C06_emit_inert (v : Val) (hi : inert v = true) (hw : v.WF) (hn : noNulls v = true)
    (h0 : v ≠ .null) : emit [v] = .ok [v] := by
  have hp := e_inert_plain hi
  have := e_emit_single v v (e_findOutputs_plain_all.1 v hp)
    (e_filterOutput_plain_all.1 v hp hn (by cases v <;> simp_all [Val.isNull]))
    (e_validate_plain_all.1 v hp)
  rw [this, e_finalize_noDD_all.1 v (e_inert_noDD hi) hw]

/-! ## 7. plain data passes through unchanged -/

theorem C06_identity (docs : List Val) (env : Vars) (v : Val)
    (hi : inert v = true) (hw : v.WF) (hd : depth v < depthLimit) (hn : dropNulls v ≠ .null) :
    outputDocument docs env v = .ok [dropNulls v] := by
  rw [e_outputDocument_plain docs env v (e_inert_plain hi) hw hd hn]
  have h1 : noDD (dropNulls v) = true := (e_allStr_dropNulls_all _).1 v (e_inert_noDD hi)
  rw [e_finalize_noDD_all.1 _ h1 (e_wf_dropNulls_all.1 v hw)]

/-- a null document produces no output at all -/
theorem C06_identity_null (docs : List Val) (env : Vars) :
    outputDocument docs env .null = .ok [] :=
  e_outputDocument_null docs env

/-- `dropNulls v` is null exactly for the null document -/
theorem dropNulls_eq_null_iff (v : Val) : dropNulls v = .null ↔ v = .null := by
  cases v <;> simp [dropNulls]

/-! ## 8. `$$` escapes any literal dollar: doubled data evaluates to the original data -/

theorem C06_escape (docs : List Val) (env : Vars) (v : Val)
    (hw : v.WF) (hd : depth v < depthLimit) (hn : dropNulls v ≠ .null) :
    outputDocument docs env (double v) = .ok [dropNulls v] := by
  have hn' : dropNulls (double v) ≠ .null := by
    rw [e_dropNulls_double_all.1]; cases v <;> simp_all [dropNulls, double]
  rw [e_outputDocument_plain docs env (double v) (e_plain_double_all.1 v)
    (e_wf_double_all.1 v hw) (by rw [e_depth_double_all.1]; exact hd) hn']
  rw [e_dropNulls_double_all.1, e_finalize_double_all.1 _ (e_wf_dropNulls_all.1 v hw)]

theorem C06_escape_null (docs : List Val) (env : Vars) :
    outputDocument docs env (double .null) = .ok [] :=
  e_outputDocument_null docs env

/-! ## the depth hypothesis cannot be dropped -/

/-- `nest n` (n singleton lists around `1`) is inert, well-formed, null-free, of depth `n`;
    below the limit it evaluates to itself, at the limit evaluation fails with
    `circularRef` (process1 enters the root with fuel `depthLimit = 1000`). -/
theorem C06_depth_bound_needed (docs : List Val) (env : Vars) (n : Nat) :
    inert (nest n) = true ∧ (nest n).WF ∧ depth (nest n) = n ∧ dropNulls (nest n) = nest n ∧
    (n < depthLimit → outputDocument docs env (nest n) = .ok [nest n]) ∧
    (depthLimit ≤ n → outputDocument docs env (nest n) = .error .circularRef) := by
  obtain ⟨h1, h2, h3, h4⟩ := e_nest_props n
  refine ⟨h1, h2, h3, h4, ?_, e_outputDocument_nest_fail docs env n⟩
  intro hn
  have := C06_identity docs env (nest n) h1 h2 (by omega) (by rw [h4]; cases n <;> simp [nest])
  rw [this, h4]

/-! ## non-vacuity -/

local instance instDecWF_C06 (v : Val) : Decidable v.WF := by unfold Val.WF; infer_instance

/-- plain data with dollars that are not directives, nulls to drop, nested containers -/
def c06_ex1 : Val :=
  .map [("a", .str "$5 bill"), ("b", .list [.null, .int 1, .str "x{y}$", .map [("$", .null)]]),
        ("c", .null), ("d", .map [])]

example : inert c06_ex1 = true ∧ c06_ex1.WF ∧ depth c06_ex1 < depthLimit ∧
    dropNulls c06_ex1 ≠ .null := by decide

example : outputDocument [] [] c06_ex1 =
    .ok [.map [("a", .str "$5 bill"), ("b", .list [.int 1, .str "x{y}$", .map []]),
               ("d", .map [])]] :=
  C06_identity [] [] c06_ex1 (by decide) (by decide) (by decide) (by decide)

example : inert (dropNulls c06_ex1) = true ∧ (dropNulls c06_ex1).WF ∧
    noNulls (dropNulls c06_ex1) = true ∧ dropNulls c06_ex1 ≠ .null := by decide

example : process1 depthLimit [] c06_ex1 (some []) c06_ex1 = .ok (dropNulls c06_ex1, c06_ex1) :=
  C06_process1_inert _ _ _ _ _ (by decide) (by decide) (by decide)

example : process2 depthLimit [] c06_ex1 [] c06_ex1 = .ok (dropNulls c06_ex1) :=
  C06_process2_inert _ _ _ _ _ (by decide) (by decide) (by decide)

example : emit [dropNulls c06_ex1] = .ok [dropNulls c06_ex1] :=
  C06_emit_inert _ (by decide) (by decide) (by decide) (by decide)

/-- data full of directive names: every one is neutralised by doubling -/
def c06_ex2 : Val :=
  .map [("$merge", .str "$env:HOME"), ("$output", .bool false),
        ("k$$", .list [.str "$\"{a}\"", .null, .str "$required", .map [("$repeat", .int 3)]])]

example : c06_ex2.WF ∧ depth c06_ex2 < depthLimit ∧ dropNulls c06_ex2 ≠ .null := by decide

example : outputDocument [] [] (double c06_ex2) =
    .ok [.map [("$merge", .str "$env:HOME"), ("$output", .bool false),
        ("k$$", .list [.str "$\"{a}\"", .str "$required", .map [("$repeat", .int 3)]])]] :=
  C06_escape [] [] c06_ex2 (by decide) (by decide) (by decide)

example : doubleStr "a$b$$" = "a$$b$$$$" := by decide

/-- the fuel bound is tight: depth 1 needs fuel 2 -/
example : process1 1 [] .null none (.list [.int 1]) = .error .circularRef := by rfl
example : process1 2 [] .null none (.list [.int 1]) = .ok (.list [.int 1], .null) := by rfl
example : process2 1 [] .null [] (.list [.int 1]) = .error .circularRef := by rfl

end Bkl
