import BklProofs.Facts.SourceC14
#print axioms Bkl.Gen.S_C14_bad_args_noarg
#print axioms Bkl.Gen.S_C14_bad_args_error
#print axioms Bkl.Gen.S_C14_flags_def
#print axioms Bkl.Gen.S_C14_base64_rt
