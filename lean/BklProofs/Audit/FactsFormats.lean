import BklProofs.Facts.Formats
#print axioms Bkl.F1_format_keys
#print axioms Bkl.F1_aliases
#print axioms Bkl.F7_cli_options
