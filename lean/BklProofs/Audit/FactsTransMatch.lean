import BklProofs.Facts.TransMatch
#print axioms Bkl.Gen.Lib.T_match_eq
#print axioms Bkl.Gen.Lib.T_matchMap_eq
#print axioms Bkl.Gen.Lib.T_matchList_eq
#print axioms Bkl.Gen.Lib.T_matchListSingle_eq
#print axioms Bkl.Gen.Lib.popMapBoolValue_eq
