import BklProofs.Facts.DispatchMerge
#print axioms Bkl.F10_dispatch_order_merge
#print axioms Bkl.F10_files_known
