import BklProofs.Facts.StateTools
#print axioms Bkl.F13_tools_stateless
