import BklProofs.C10
#print axioms Bkl.C10_string_not_ref
