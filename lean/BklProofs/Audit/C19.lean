import BklProofs.C19
#print axioms Bkl.run_append
#print axioms Bkl.run_obs_length
#print axioms Bkl.C19_output_pure
#print axioms Bkl.C19_output_pure_dead
#print axioms Bkl.C19_output_repeatable
#print axioms Bkl.C19_state_depends_on_merges_only
#print axioms Bkl.C19_documents_are_merged_trees
#print axioms Bkl.C19_documents_after_outputs
#print axioms Bkl.C19_merge_after_output
