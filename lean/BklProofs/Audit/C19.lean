import BklProofs.C19
#print axioms Bkl.C19_placeholder
