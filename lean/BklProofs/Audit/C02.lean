import BklProofs.C02
#print axioms Bkl.C02_placeholder
