import BklProofs.Facts.StateParser
#print axioms Bkl.F12_no_hidden_state_parser
#print axioms Bkl.F12_types_known
