import BklProofs.C04
#print axioms Bkl.C04_int_exact
#print axioms Bkl.C04_yaml_int_repr
#print axioms Bkl.C04_parseInt64_toString
#print axioms Bkl.C04_int_out_of_range
#print axioms Bkl.C04_normalize_total
#print axioms Bkl.C04_float_path
#print axioms Bkl.C04_float_unrepresentable_is_error
#print axioms Bkl.C04_goDecInt_grammar
#print axioms Bkl.C04_compare_canonical
#print axioms Bkl.C04_map_order_irrelevant
#print axioms Bkl.C04_map_sorted
#print axioms Bkl.C04_yaml_merge_key
#print axioms Bkl.C04_yaml_merge_key_list
#print axioms Bkl.C04_yaml_merge_key_scalar
#print axioms Bkl.C04_yaml_merge_key_instance
#print axioms Bkl.C04_yaml_merge_key_list_instance
#print axioms Bkl.C04_toml_array_of_tables
