import BklProofs.C04
#print axioms Bkl.C04_placeholder
