import BklProofs.Facts.TransValidate
#print axioms Bkl.Gen.Lib.T_validate_eq
#print axioms Bkl.Gen.Lib.validateString_eq
