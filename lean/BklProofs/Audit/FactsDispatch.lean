import BklProofs.Facts.Dispatch
#print axioms Bkl.F10_directive_dispatch_order
