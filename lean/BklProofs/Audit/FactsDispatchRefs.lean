import BklProofs.Facts.DispatchRefs
#print axioms Bkl.F10_dispatch_order_refs
#print axioms Bkl.F10_files_known
