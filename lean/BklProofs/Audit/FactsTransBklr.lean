import BklProofs.Facts.TransBklr
#print axioms Bkl.Gen.Bklr.T_required_eq
#print axioms Bkl.Gen.Bklr.T_requiredMap_eq
#print axioms Bkl.Gen.Bklr.T_requiredList_eq
#print axioms Bkl.Gen.Bklr.T_requiredMap_eq_required
#print axioms Bkl.Gen.Bklr.T_requiredList_eq_required
#print axioms Bkl.Gen.Bklr.T_required_eq_norm
#print axioms Bkl.Gen.Bklr.T_required_eq_iff
#print axioms Bkl.Gen.Bklr.required_eq_needs_WF
#print axioms Bkl.Gen.Bklr.required_eq_needs_WF_nested
#print axioms Bkl.Gen.Bklr.requiredMap_eq_needs_sorted
#print axioms Bkl.Gen.Bklr.requiredList_eq_needs_WF
