import BklProofs.C20
#print axioms Bkl.C20_placeholder
