import BklProofs.C20
#print axioms Bkl.C20_length_order
#print axioms Bkl.C20_verbatim
#print axioms Bkl.C20_unsupported_ext
#print axioms Bkl.C20_verbatim_ext
#print axioms Bkl.C20_file_args
#print axioms Bkl.C20_fail_no_exec
#print axioms Bkl.C20_first_failure
#print axioms Bkl.C20_step_error
#print axioms Bkl.C20_name
#print axioms Bkl.C20_args_independent
#print axioms Bkl.C20_format_is_named_extension
#print axioms Bkl.C20_failure_classes
#print axioms Bkl.C20_verbatim_only_if_nomatch
#print axioms Bkl.C20_failure_classes_examples
