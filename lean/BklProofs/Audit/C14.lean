import BklProofs.C14
#print axioms Bkl.C14_placeholder
