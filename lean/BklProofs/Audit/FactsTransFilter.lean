import BklProofs.Facts.TransFilter
#print axioms Bkl.Gen.Lib.T_filterList_rec
#print axioms Bkl.Gen.Lib.T_filterList_spec
#print axioms Bkl.Gen.Lib.T_filterList_spec_err
#print axioms Bkl.Gen.Lib.T_filterList_spec_gerr
#print axioms Bkl.Gen.Lib.T_filterList_flatMapR
#print axioms Bkl.Gen.Lib.T_filterMap_rec
#print axioms Bkl.Gen.Lib.T_filterMap_spec
#print axioms Bkl.Gen.Lib.T_filterMap_spec_flatMap
#print axioms Bkl.Gen.Lib.T_filterMap_spec_err
#print axioms Bkl.Gen.Lib.T_filterMap_spec_gerr
#print axioms Bkl.Gen.Lib.popListMapBool_eq_flatMapR
#print axioms Bkl.Gen.Lib.T_popListMapBoolValue_eq
#print axioms Bkl.Gen.Lib.T_popListMapStringValue_eq
#print axioms Bkl.Gen.Lib.popListMapStr_ok
#print axioms Bkl.Gen.Lib.popListMapStr_err
