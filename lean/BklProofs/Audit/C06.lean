import BklProofs.C06
#print axioms Bkl.C06_placeholder
