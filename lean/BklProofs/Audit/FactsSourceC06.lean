import BklProofs.Facts.SourceC06
#print axioms Bkl.Gen.Lib.S_depth_double_all
#print axioms Bkl.Gen.Lib.S_C06_finalizeString_double
#print axioms Bkl.Gen.Lib.S_C06_unescape_double
#print axioms Bkl.Gen.Lib.S_C06_finalize_double
#print axioms Bkl.Gen.Lib.S_C06_finalize_noDD
#print axioms Bkl.Gen.Lib.S_C06_finalize_inert
#print axioms Bkl.Gen.Lib.S_C06_merge_double_ok
