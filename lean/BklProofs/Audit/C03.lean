import BklProofs.C03
#print axioms Bkl.C03_placeholder
