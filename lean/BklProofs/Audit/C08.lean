import BklProofs.C08
#print axioms Bkl.C08_placeholder
