import BklProofs.Facts.TransEncode
#print axioms Bkl.Gen.Lib.T_process2ToListValue_eq
#print axioms Bkl.Gen.Lib.T_process2ToListValue_eq_str
#print axioms Bkl.Gen.Lib.T_process2ToListMap_eq
#print axioms Bkl.Gen.Lib.T_process2ToListList_eq
#print axioms Bkl.Gen.Lib.T_process2ValuesMap_eq
#print axioms Bkl.Gen.Lib.process2ValuesMap_encodeString
#print axioms Bkl.Gen.Lib.T_toStringListPermissive_eq
