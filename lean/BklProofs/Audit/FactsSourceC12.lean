import BklProofs.Facts.SourceC12
#print axioms Bkl.Gen.S_C12_doc_int
#print axioms Bkl.Gen.S_C12_no_repeat
#print axioms Bkl.Gen.S_C12_doc_named
#print axioms Bkl.Gen.S_C12_nonint_error
