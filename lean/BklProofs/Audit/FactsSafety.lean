import BklProofs.Facts.Safety
#print axioms Bkl.F3_no_unchecked_type_assertions
#print axioms Bkl.F8_depth_guards
