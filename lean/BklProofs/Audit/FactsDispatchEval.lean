import BklProofs.Facts.DispatchEval
#print axioms Bkl.F10_dispatch_order_eval
#print axioms Bkl.F10_files_known
