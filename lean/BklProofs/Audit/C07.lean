import BklProofs.C07
#print axioms Bkl.C07_placeholder
