import BklProofs.Facts.TransUtil
#print axioms Bkl.Gen.Lib.T_popMapValue_eq
#print axioms Bkl.Gen.Lib.T_toBool_eq
#print axioms Bkl.Gen.Lib.T_getMapBoolValue_eq
#print axioms Bkl.Gen.Lib.T_hasMapBoolValue_eq
#print axioms Bkl.Gen.Lib.T_popMapBoolValue_eq
#print axioms Bkl.Gen.Lib.T_toString_eq
#print axioms Bkl.Gen.Lib.T_getMapStringValue_eq
#print axioms Bkl.Gen.Lib.T_popMapStringValue_eq
#print axioms Bkl.Gen.Lib.T_hasListMapBoolValue_eq
#print axioms Bkl.Gen.Lib.T_getListMapStringValue_eq
#print axioms Bkl.Gen.Lib.T_toStringList_eq
#print axioms Bkl.Gen.Lib.T_deepClone_eq
#print axioms Bkl.Gen.Lib.T_deepClone_eq_norm
#print axioms Bkl.Gen.Lib.deepClone_eq_iff_wf
#print axioms Bkl.Gen.Lib.deepClone_unsorted_ne
#print axioms Bkl.Gen.Lib.deepClone_dupkey_ne
