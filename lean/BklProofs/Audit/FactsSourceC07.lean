import BklProofs.Facts.SourceC07
#print axioms Bkl.Gen.Lib.S_C07_ok_iff
#print axioms Bkl.Gen.Lib.S_C07_error_iff
#print axioms Bkl.Gen.Lib.S_C07_validate_iff
#print axioms Bkl.Gen.Lib.S_C07_validateString_iff
#print axioms Bkl.Gen.Lib.S_C07_error_class
#print axioms Bkl.Gen.Lib.S_C07_required_string
#print axioms Bkl.Gen.Lib.S_C07_required_rejected
#print axioms Bkl.Gen.Lib.S_C07_outputs_validated
