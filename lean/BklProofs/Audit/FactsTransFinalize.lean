import BklProofs.Facts.TransFinalize
#print axioms Bkl.Gen.Lib.T_finalizeString_eq
#print axioms Bkl.Gen.Lib.T_finalizeOutput_eq
#print axioms Bkl.Gen.Lib.T_finalizeMap_eq
#print axioms Bkl.Gen.Lib.T_finalizeList_eq
