import BklProofs.C18
#print axioms Bkl.C18_placeholder
