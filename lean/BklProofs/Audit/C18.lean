import BklProofs.C18
#print axioms Bkl.C18_walk_stays_inside
#print axioms Bkl.C18_reads_inside
#print axioms Bkl.C18_reads_inside_any
#print axioms Bkl.C18_dotdot_escape_refused
#print axioms Bkl.C18_absolute_link_refused
#print axioms Bkl.C18_independent_walk
#print axioms Bkl.C18_independent_open
#print axioms Bkl.C18_independent
#print axioms Bkl.C18_relTo_outside
#print axioms Bkl.C18_outside_never_read
#print axioms Bkl.C18_setRoot_nested
