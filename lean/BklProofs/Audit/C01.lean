import BklProofs.C01
#print axioms Bkl.C01_null_child_map
