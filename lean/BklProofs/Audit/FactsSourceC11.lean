import BklProofs.Facts.SourceC11
#print axioms Bkl.Gen.Lib.S_C11_ok_iff
#print axioms Bkl.Gen.Lib.S_C11_hidden_map
#print axioms Bkl.Gen.Lib.S_C11_hidden_list
#print axioms Bkl.Gen.Lib.S_C11_hide_spec
#print axioms Bkl.Gen.Lib.S_C11_unmarked_unchanged
#print axioms Bkl.Gen.Lib.S_C11_hidden_absent
#print axioms Bkl.Gen.Lib.filterOutput_unmarked_all
