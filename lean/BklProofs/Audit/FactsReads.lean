import BklProofs.Facts.Reads
#print axioms Bkl.F5_file_reads
