import BklProofs.Facts.State
#print axioms Bkl.F12_no_hidden_state
#print axioms Bkl.F13_tools_stateless
