import BklProofs.Facts.State
#print axioms Bkl.F12_types_known
