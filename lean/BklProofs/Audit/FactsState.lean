import BklProofs.Facts.State
#print axioms Bkl.F12_no_hidden_state
