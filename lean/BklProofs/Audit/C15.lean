import BklProofs.C15
#print axioms Bkl.C15_roundtrip_core
#print axioms Bkl.C15_replaceParent_iff
#print axioms Bkl.C15_roundtrip_wf_base
#print axioms Bkl.C15_roundtrip
#print axioms Bkl.C15_roundtrip_parser
#print axioms Bkl.C15_doc_never_replaceParent
#print axioms Bkl.C15_empty_when_equal
#print axioms Bkl.C15_same_iff
#print axioms Bkl.C15_delete_entry_accepted
#print axioms Bkl.C15_tool_format_choice
#print axioms Bkl.C15_getOnlyDocument_iff
#print axioms Bkl.C15_bkld_result_iff
#print axioms Bkl.C15_bkld_result
#print axioms Bkl.C15_bkld_sample
#print axioms Bkl.C15_bkld_cli_roundtrip
#print axioms Bkl.C15_bkld_cli_roundtrip_parser
#print axioms Bkl.C15_one_document_required
