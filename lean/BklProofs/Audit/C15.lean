import BklProofs.C15
#print axioms Bkl.C15_placeholder
