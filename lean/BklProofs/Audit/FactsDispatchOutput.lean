import BklProofs.Facts.DispatchOutput
#print axioms Bkl.F10_dispatch_order_output
#print axioms Bkl.F10_files_known
