import BklProofs.Facts.Literals
#print axioms Bkl.F6_recognisers_known
#print axioms Bkl.F6_recognisers_rejected_if_left_over
