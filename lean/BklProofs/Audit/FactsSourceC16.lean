import BklProofs.Facts.SourceC16
#print axioms Bkl.Gen.S_C16_idempotent
#print axioms Bkl.Gen.S_C16_common
#print axioms Bkl.Gen.S_C16_required_on_conflict
#print axioms Bkl.Gen.S_C16_lossless
