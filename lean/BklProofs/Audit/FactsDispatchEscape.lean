import BklProofs.Facts.DispatchEscape
#print axioms Bkl.F10_dispatch_order_escape
#print axioms Bkl.F10_files_known
