import BklProofs.Facts.SourceC17
#print axioms Bkl.Gen.S_C17_only_markers
#print axioms Bkl.Gen.S_C17_empty_iff
#print axioms Bkl.Gen.S_C17_idempotent
#print axioms Bkl.Gen.depth_required_le
#print axioms Bkl.Gen.required_wf
