import BklProofs.C12
#print axioms Bkl.C12_doc_int
#print axioms Bkl.C12_doc_int_length
#print axioms Bkl.C12_doc_named
#print axioms Bkl.C12_doc_named_ec1
#print axioms Bkl.C12_doc_named_ec1_get
#print axioms Bkl.C12_doc_named_length
#print axioms Bkl.C12_doc_named_nodup
#print axioms Bkl.C12_nonint_error
#print axioms Bkl.C12_nonint_error_named
#print axioms Bkl.C12_nonint_error_nested
#print axioms Bkl.C12_list_nested
#print axioms Bkl.C12_list_nested_exact
#print axioms Bkl.C12_repeatDoc_no_repeat_map
#print axioms Bkl.C12_repeatDoc_no_repeat_list
#print axioms Bkl.C12_repeatDoc_no_repeat_scalar
#print axioms Bkl.C12_repeatDoc_map_int
