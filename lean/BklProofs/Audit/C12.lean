import BklProofs.C12
#print axioms Bkl.C12_placeholder
