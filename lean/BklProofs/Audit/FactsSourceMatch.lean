import BklProofs.Facts.SourceMatch
#print axioms Bkl.Gen.Lib.S_match_invert
#print axioms Bkl.Gen.Lib.S_match_refl_plain
#print axioms Bkl.Gen.Lib.S_match_scalar
#print axioms Bkl.Gen.Lib.S_match_placeholder
#print axioms Bkl.Gen.Lib.matchFields_skip_fdel
#print axioms Bkl.Gen.Lib.matchV_invert
