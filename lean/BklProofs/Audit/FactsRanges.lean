import BklProofs.Facts.Ranges
#print axioms Bkl.F2_raw_ranges_covered
#print axioms Bkl.F4_no_mutable_globals
#print axioms Bkl.F4_no_goroutines
