import BklProofs.Facts.TransEncode2
#print axioms Bkl.Gen.Lib.T_process2EncodeString_exact
#print axioms Bkl.Gen.Lib.T_process2EncodeString_eq
#print axioms Bkl.Gen.Lib.T_process2EncodeAny_eq
#print axioms Bkl.Gen.Lib.T_process2EncodeAny_list_eq
#print axioms Bkl.Gen.Lib.T_process2EncodeAny_eq_model
#print axioms Bkl.Gen.Lib.T_process2EncodeAny_eq_codec_last
#print axioms Bkl.Gen.Lib.encodeAnyWith_of_noCodec
#print axioms Bkl.Gen.Lib.encodeAnyWith_of_ok
#print axioms Bkl.Gen.Lib.encodeAnyWith_of_err
#print axioms Bkl.Gen.Lib.encodeAnyWith_codec_last
