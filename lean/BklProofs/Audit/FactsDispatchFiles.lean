import BklProofs.Facts.DispatchFiles
#print axioms Bkl.F10_dispatch_order_files
#print axioms Bkl.F10_files_known
