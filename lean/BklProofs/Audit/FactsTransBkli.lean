import BklProofs.Facts.TransBkli
#print axioms Bkl.Gen.Bkli.T_intersect_eq
#print axioms Bkl.Gen.Bkli.T_intersect_eq_spine
#print axioms Bkl.Gen.Bkli.T_intersectMap_eq
#print axioms Bkl.Gen.Bkli.T_intersectMap_eq_spine
#print axioms Bkl.Gen.Bkli.T_intersectMapMap_eq
#print axioms Bkl.Gen.Bkli.T_intersectMapMap_eq_spine
#print axioms Bkl.Gen.Bkli.T_intersectList_eq
#print axioms Bkl.Gen.Bkli.T_intersectListList_eq
#print axioms Bkl.Gen.Bkli.intersect_list_list_model
#print axioms Bkl.Gen.Bkli.intersect_unsorted_differs
#print axioms Bkl.Gen.Bkli.intersect_dupkey_differs
#print axioms Bkl.Gen.Bkli.intersect_unsorted_nested_differs
#print axioms Bkl.Gen.Bkli.intersectMap_null_differs
#print axioms Bkl.Gen.Bkli.intersectList_null_differs
