import BklProofs.Facts.StateFiles
#print axioms Bkl.F12_no_hidden_state_files
#print axioms Bkl.F12_types_known
