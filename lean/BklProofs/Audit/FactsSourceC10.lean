import BklProofs.Facts.SourceC10
#print axioms Bkl.Gen.S_C10_error_is_error
#print axioms Bkl.Gen.S_C10_dangling_is_error
#print axioms Bkl.Gen.S_C10_cross_zero_or_many_is_error
#print axioms Bkl.Gen.S_C10_cross_unique
