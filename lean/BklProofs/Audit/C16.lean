import BklProofs.C16
#print axioms Bkl.C16_common
#print axioms Bkl.C16_required_on_conflict
#print axioms Bkl.C16_required_on_conflict_scalar
#print axioms Bkl.C16_idempotent
#print axioms Bkl.C16_keeps_shared
#print axioms Bkl.C16_fold_same
#print axioms Bkl.C16_fold
#print axioms Bkl.C16_fold_wf
#print axioms Bkl.C16_fold_needs_plain
#print axioms Bkl.C16_fold_partial
#print axioms Bkl.C16_lossless
#print axioms Bkl.C16_lossless_migrate
#print axioms Bkl.C16_lossless_doc
