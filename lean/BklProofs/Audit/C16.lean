import BklProofs.C16
#print axioms Bkl.C16_placeholder
