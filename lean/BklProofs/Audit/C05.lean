import BklProofs.C05
#print axioms Bkl.C05_placeholder
