import BklProofs.C13
#print axioms Bkl.C13_scan_spec
#print axioms Bkl.C13_scan_render
#print axioms Bkl.C13_interp_spec
#print axioms Bkl.C13_interp_no_fuel
#print axioms Bkl.C13_missing_is_error
#print axioms Bkl.C13_getWithVar_error
#print axioms Bkl.C13_getWithVar_var
#print axioms Bkl.C13_ref_simple_key
#print axioms Bkl.C13_ref_simple_key_missing
#print axioms Bkl.C13_env_is_lookup
#print axioms Bkl.C13_env_bound
#print axioms Bkl.C13_env_unbound
#print axioms Bkl.C13_env_is_string
#print axioms Bkl.C13_plain_string_untouched
#print axioms Bkl.C13_env_in_key
