import BklProofs.C13
#print axioms Bkl.C13_placeholder
