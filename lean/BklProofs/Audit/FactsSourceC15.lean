import BklProofs.Facts.SourceC15
#print axioms Bkl.Gen.S_C15_same_iff
#print axioms Bkl.Gen.S_C15_empty_when_equal
#print axioms Bkl.Gen.S_C15_roundtrip
#print axioms Bkl.Gen.S_C15_roundtrip_fuel
#print axioms Bkl.Gen.S_C15_roundtrip_core
#print axioms Bkl.Gen.S_C15_doc_never_replaceParent
#print axioms Bkl.Gen.S_C15_doc_roundtrip
#print axioms Bkl.Gen.diff_patch_wf
#print axioms Bkl.Gen.diff_patch_depth
