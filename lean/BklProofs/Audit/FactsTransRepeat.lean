import BklProofs.Facts.TransRepeat
#print axioms Bkl.Gen.Lib.T_EvalContext_Clone_eq
#print axioms Bkl.Gen.Lib.T_EvalContext_GetVar_eq
#print axioms Bkl.Gen.Lib.T_repeatDocGenFromInt_exact
#print axioms Bkl.Gen.Lib.T_repeatDocGenFromInt_cloneErr
#print axioms Bkl.Gen.Lib.T_repeatDocGenFromInt_eq
#print axioms Bkl.Gen.Lib.T_repeatDocGenFromMap_exact
#print axioms Bkl.Gen.Lib.expandDims_spec
#print axioms Bkl.Gen.Lib.T_repeatDocGenFromMap_eq
#print axioms Bkl.Gen.Lib.T_repeatDocGen_eq
#print axioms Bkl.Gen.Lib.T_repeatDocMap_eq
#print axioms Bkl.Gen.Lib.T_repeatDocList_eq
#print axioms Bkl.Gen.Lib.T_repeatDoc_eq
#print axioms Bkl.Gen.Lib.T_repeatDoc_eq_norm
#print axioms Bkl.Gen.Lib.cloneSpec_needed_err
#print axioms Bkl.Gen.Lib.cloneSpec_needed_data
#print axioms Bkl.Gen.Lib.wf_needed_norm
