import BklProofs.C11
#print axioms Bkl.C11_placeholder
