/-
  C16 — "bkli yields the maximal common base, and the migrate workflow is lossless".

  `intersect a b` / `intersectAll` (Bkl/Tools.lean, mirror cmd/bkli/intersect.go) compute the
  common base of several documents; conflicting values become the marker string `"$required"`
  (lists with nothing in common become `["$required"]`).

  `Sub r v` (BklProofs/Lemmas/ToolsIntersect.lean, decidable): `r` is a marker-tolerant
  sub-document of `v` — `r = "$required"`, or both are maps and every key of `r` is in `v` with
  `Sub` of the values, or both are lists and (`r = ["$required"]` or every entry of `r` occurs
  in `v`), or `r = v`.

  Input domains: `Val.WF`, `Val.nullFree` (no `.null` anywhere), `plainVal` (WF, null-free and
  `$`-free), all in BklProofs/Lemmas/Tools.lean.

  Property theorems only; helpers are in BklProofs/Lemmas/{Tools,ToolsDiff,ToolsIntersect}.lean.
-/
import BklProofs.Lemmas.ToolsIntersect
import BklProofs.C15
import BklProofs.Lemmas.ToolsCliProofs
namespace Bkl

/-! ### the shared witnesses `C16_a`, `C16_b`, `C16_c` are in Lemmas/ToolsIntersect.lean -/

/-- what bkli computes for two and for three of the witnesses -/
example : intersect C16_a C16_b =
    .map [("img", .str "nginx"), ("name", .str "$required"), ("ports", .list [.int 80]),
          ("res", .map [("cpu", .int 1), ("mem", .str "$required")]),
          ("tags", .list [.str "$required"])] := by decide

example : intersectAll [C16_a, C16_b, C16_c] =
    .map [("img", .str "nginx"), ("name", .str "$required"), ("ports", .list [.int 80]),
          ("res", .str "$required"), ("tags", .list [.str "$required"])] := by decide

/-! ## 1. the result is a common sub-document -/

/-- For null-free inputs (`a` well-formed) the intersection is a sub-document of both. -/
theorem C16_common (a b : Val) (ha : Val.WF a) (han : a.nullFree = true)
    (hbn : b.nullFree = true) :
    Sub (intersect a b) a ∧ Sub (intersect a b) b :=
  ⟨Sub_intersect_left a b ha han hbn, Sub_intersect_right a b han hbn⟩

example : Val.WF C16_a ∧ C16_a.nullFree = true ∧ C16_b.nullFree = true := by decide

/-- null-freeness cannot be dropped: a `null` on one side makes the result `null` -/
example : ¬ Sub (intersect (.int 1) .null) (.int 1) := by decide

/-! ## 2. a field present in both inputs is never dropped -/

/-- a key carrying non-null values in both inputs is kept; its value is the intersection of the
    two values (no sortedness needed) -/
theorem C16_required_on_conflict (am bm : Fields) (k : String) (x y : Val)
    (hx : fget am k = some x) (hy : fget bm k = some y) (hxn : x ≠ .null) (hyn : y ≠ .null) :
    fget (intersectFields am bm) k = some (intersect x y) ∧
    fget (intersectFields am bm) k ≠ none := by
  have h := fget_intersectFields hx hy (intersect_isNull hxn hyn)
  exact ⟨h, by rw [h]; simp⟩

example : fget [("name", Val.str "a")] "name" = some (.str "a") ∧
    fget [("name", Val.str "b")] "name" = some (.str "b") ∧
    Val.str "a" ≠ .null ∧ Val.str "b" ≠ .null := by decide

/-- … and two different scalars become the marker `"$required"` -/
theorem C16_required_on_conflict_scalar (am bm : Fields) (k : String) (x y : Val)
    (hx : fget am k = some x) (hy : fget bm k = some y) (hxs : x.isScalar = true)
    (hyn : y ≠ .null) (hne : x ≠ y) :
    fget (intersectFields am bm) k = some (.str "$required") := by
  have hxn : x ≠ .null := by intro e; subst e; cases hxs
  rw [(C16_required_on_conflict am bm k x y hx hy hxn hyn).1, intersect_scalar x y hxs hyn]
  have : (x == y) = false := beq_eq_false_iff_ne.2 hne
  rw [this]; rfl

example : fget [("name", Val.str "a")] "name" = some (.str "a") ∧
    fget [("name", Val.str "b")] "name" = some (.str "b") ∧
    (Val.str "a").isScalar = true ∧ Val.str "b" ≠ .null ∧ Val.str "a" ≠ .str "b" := by decide

/-! ## 3. idempotence and maximality -/

theorem C16_idempotent (v : Val) (hv : Val.WF v) (hn : v.nullFree = true) :
    intersect v v = v :=
  intersect_self v hv hn

example : Val.WF C16_a ∧ C16_a.nullFree = true := by decide

/-- an empty list is the one place where well-formed, null-free data could have been lost
    (`len(a)+len(b) > 0` in the Go code guards it) -/
example : intersect (.list []) (.list []) = .list [] := by decide

/-- a key with the same (well-formed, null-free) value in both inputs is kept unchanged -/
theorem C16_keeps_shared (am bm : Fields) (k : String) (x : Val)
    (hx : fget am k = some x) (hy : fget bm k = some x) (hw : Val.WF x)
    (hn : x.nullFree = true) :
    fget (intersectFields am bm) k = some x := by
  have hxn := nullFree_ne_null hn
  have h := (C16_required_on_conflict am bm k x x hx hy hxn hxn).1
  rwa [intersect_self x hw hn] at h

example : fget [("res", Val.map [("cpu", .int 1)])] "res" = some (.map [("cpu", .int 1)]) ∧
    Val.WF (.map [("cpu", .int 1)]) ∧ (Val.map [("cpu", .int 1)]).nullFree = true := by decide

/-! ## 4. the bkli main loop -/

theorem C16_fold_same (v : Val) (hv : Val.WF v) (hn : v.nullFree = true) :
    intersectAll [v, v, v] = v := by
  simp only [intersectAll, List.foldl_cons, List.foldl_nil]
  rw [intersect_self v hv hn, intersect_self v hv hn]

example : Val.WF C16_a ∧ C16_a.nullFree = true := by decide

/-- for plain inputs the result of the whole fold is a sub-document of every input -/
theorem C16_fold (vs : List Val) (h : ∀ x ∈ vs, plainVal x = true) :
    ∀ x ∈ vs, Sub (intersectAll vs) x :=
  (intersectAll_sub vs h).2

example : ∀ x ∈ [C16_a, C16_b, C16_c], plainVal x = true := by decide

/-- … and stays in the domain (well-formed, null-free) -/
theorem C16_fold_wf (vs : List Val) (hne : vs ≠ []) (h : ∀ x ∈ vs, plainVal x = true) :
    Val.WF (intersectAll vs) ∧ (intersectAll vs).nullFree = true :=
  (intersectAll_sub vs h).1 hne

example : [C16_a, C16_b, C16_c] ≠ [] ∧ ∀ x ∈ [C16_a, C16_b, C16_c], plainVal x = true := by decide

/-- `C16_fold` is FALSE for inputs that are merely well-formed and null-free: an input list
    that itself carries the marker string twice survives as `["$required", "$required"]`, which
    is neither `["$required"]` nor a sub-list of the first input. -/
theorem C16_fold_needs_plain :
    let vs := [Val.list [.str "x"], .list [.str "y"], .list [.str "$required", .str "$required"]]
    (∀ x ∈ vs, Val.WF x ∧ x.nullFree = true) ∧
    intersectAll vs = .list [.str "$required", .str "$required"] ∧
    ¬ Sub (intersectAll vs) (.list [.str "x"]) := by decide

/-- two inputs: no `$`-freeness needed -/
theorem C16_fold_partial (a b : Val) (ha : Val.WF a) (han : a.nullFree = true)
    (hbn : b.nullFree = true) :
    Sub (intersectAll [b, a]) a ∧ Sub (intersectAll [b, a]) b :=
  C16_common a b ha han hbn

example : Val.WF C16_a ∧ C16_a.nullFree = true ∧ C16_b.nullFree = true := by decide

/-! ## 5. the migrate workflow is lossless -/

/-- For a plain document `x` and any well-formed base `b` that is a sub-document of `x`
    (markers `"$required"` and `["$required"]` allowed anywhere): bkld either finds them equal
    or emits a patch that bkl accepts over `b` and that reproduces `x`. -/
theorem C16_lossless (x b : Val) (hx : plainVal x = true) (hb : Val.WF b) (hsub : Sub b x) :
    match diff x b with
    | .same => x = b
    | .patch p => merge b p = .ok x
    | .replaceParent => False := by
  have h := diff_spec x b hx hb
  have hne := diff_ne_replaceParent_of_Sub hsub
  cases hd : diff x b with
  | same => rw [hd] at h; exact h
  | patch p => rw [hd] at h; exact h
  | replaceParent => exact hne hd

example : plainVal C16_a = true ∧ Val.WF (intersect C16_a C16_b) ∧
    Sub (intersect C16_a C16_b) C16_a := by decide

/-- the base computed by bkli from plain inputs, against each of the inputs -/
theorem C16_lossless_migrate (vs : List Val) (h : ∀ x ∈ vs, plainVal x = true) (x : Val)
    (hx : x ∈ vs) :
    match diff x (intersectAll vs) with
    | .same => x = intersectAll vs
    | .patch p => merge (intersectAll vs) p = .ok x
    | .replaceParent => False := by
  have hne : vs ≠ [] := by intro e; rw [e] at hx; cases hx
  exact C16_lossless x _ (h x hx) (C16_fold_wf vs hne h).1 (C16_fold vs h x hx)

example : (∀ x ∈ [C16_a, C16_b, C16_c], plainVal x = true) ∧ C16_b ∈ [C16_a, C16_b, C16_c] := by
  decide

/-- Whole map-rooted documents: the base is a map; for every input either bkld emits nothing
    and the input equals the base, or the emitted layer carries `$match: {}` and its body (the
    layer without `$match`, what the parser merges) turns the base back into that input. -/
theorem C16_lossless_doc (vs : List Val) (h : ∀ x ∈ vs, plainVal x = true)
    (hm : ∀ x ∈ vs, x.isMap = true) (t : Fields) (ht : Val.map t ∈ vs) :
    ∃ bm, intersectAll vs = .map bm ∧
      match diffDoc (.map t) (.map bm) with
      | none => Val.map t = Val.map bm
      | some layer => ∃ m, layer = .map m ∧ fget m "$match" = some (.map []) ∧
          merge (.map bm) (.map (fdel m "$match")) = .ok (.map t) := by
  have hne : vs ≠ [] := by intro e; rw [e] at ht; cases ht
  obtain ⟨bm, hbm⟩ := intersectAll_isMap vs hne hm
  refine ⟨bm, hbm, ?_⟩
  have hpl := h _ ht
  have hwf := (C16_fold_wf vs hne h).1
  have hsub := C16_fold vs h _ ht
  rw [hbm] at hwf hsub
  -- the base has no `$match` key: its keys are keys of the plain input
  have hnm : fget bm "$match" = none := by
    cases hg : fget bm "$match" with
    | none => rfl
    | some r =>
      obtain ⟨vm, hv, hall⟩ := Sub_map_iff.1 hsub
      cases hv
      obtain ⟨y, hy, _⟩ := hall _ (fget_mem hg)
      have hy' : fget t "$match" = some y := hy
      rw [plainVal_fget_dollar hpl (show dollarFree "$match" = false by decide)] at hy'
      cases hy'
  exact C15_roundtrip_wf_base t bm hpl hwf hnm

example : (∀ x ∈ [C16_a, C16_b, C16_c], plainVal x = true) ∧
    (∀ x ∈ [C16_a, C16_b, C16_c], x.isMap = true) ∧
    (∃ t, Val.map t ∈ [C16_a, C16_b, C16_c]) :=
  ⟨by decide, by decide, _, List.mem_cons_self⟩

/-! ## 6. the tool main: cmd/bkli/main.go (`Bkl.bkliRun`, Bkl/ToolsCli.lean)

  Helper lemmas are in BklProofs/Lemmas/ToolsCliProofs.lean (prefix `tc_`); the sample file
  system `tc_toolFS` is described in BklProofs/C15.lean. -/

/-- bkli succeeds exactly when it has at least two inputs, every input yields exactly one
    merged document (`getOnlyDocument`: FileMatch, a fresh parser, MergeFileLayers — the documents
    are NOT evaluated), and the chosen format is supported.  The emitted document is
    `intersectAll` of the merged documents in argument order, `none` if that is `null`; the
    format is `toolFormat` (`-f`, else `-o`'s extension) with the first input's format as
    fallback. -/
theorem C16_bkli_result_iff (fs : FS) (cwd : Comps) (opts : ToolOpts) (r : ToolResult) :
    bkliRun fs cwd opts = .ok r ↔
      ∃ first second rest d0 f0 ds,
        opts.inputs = first :: second :: rest ∧
        List.Forall₂ (fun p (d : Val × String) => getOnlyDocument fs cwd p = .ok d)
          (first :: second :: rest) ((d0, f0) :: ds) ∧
        toolFormat opts f0 ∈ supportedExts ∧
        r = { format := toolFormat opts f0,
              doc := if (intersectAll (d0 :: ds.map (·.1))).isNull then none
                     else some (intersectAll (d0 :: ds.map (·.1))) } :=
  tc_bkliRun_ok_iff fs cwd opts r

/-- the forward direction, field by field -/
theorem C16_bkli_result (fs : FS) (cwd : Comps) (opts : ToolOpts) (r : ToolResult)
    (h : bkliRun fs cwd opts = .ok r) :
    2 ≤ opts.inputs.length ∧
    ∃ docs : List (Val × String),
      List.Forall₂ (fun p (d : Val × String) => getOnlyDocument fs cwd p = .ok d)
        opts.inputs docs ∧
      docs.length = opts.inputs.length ∧
      r.doc = (if (intersectAll (docs.map (·.1))).isNull then none
               else some (intersectAll (docs.map (·.1)))) ∧
      (r.doc = none ↔ intersectAll (docs.map (·.1)) = .null) ∧
      (∀ v, r.doc = some v → v = intersectAll (docs.map (·.1))) ∧
      (∃ d0 f0 ds, docs = (d0, f0) :: ds ∧ r.format = toolFormat opts f0) ∧
      r.format ∈ supportedExts := by
  obtain ⟨first, second, rest, d0, f0, ds, hi, hf, hmem, rfl⟩ :=
    (C16_bkli_result_iff fs cwd opts r).1 h
  refine ⟨by rw [hi]; simp, (d0, f0) :: ds, by rw [hi]; exact hf,
    by rw [hi]; exact (tc_forall2_length hf).symm, rfl, ?_, ?_, ⟨d0, f0, ds, rfl, rfl⟩, hmem⟩
  · simp only [List.map_cons]
    split
    · rename_i hn; simpa using (tc_isNull_iff _).1 hn
    · rename_i hn
      simp only [reduceCtorEq, false_iff]
      exact fun e => hn ((tc_isNull_iff _).2 e)
  · intro v hv
    simp only [List.map_cons] at hv ⊢
    split at hv
    · cases hv
    · cases hv; rfl

/-- `bkli a.yaml c.json` on the sample file system: format from the first input -/
theorem C16_bkli_sample :
    bkliRun tc_toolFS ["w"] { inputs := ["a.yaml", "c.json"] } =
      .ok { format := "yaml", doc := some (.map [("a", .int 1), ("b", .str "$required")]) } := by
  rw [C16_bkli_result_iff]
  refine ⟨"a.yaml", "c.json", [], tc_base, "yaml", [(tc_third, "json")], rfl,
    .cons tc_toolFS_get_a (.cons tc_toolFS_get_c .nil), by decide, ?_⟩
  rw [show toolFormat { inputs := ["a.yaml", "c.json"] } "yaml" = "yaml" from rfl]
  rw [show intersectAll (tc_base :: [(tc_third, "json")].map (·.1)) =
    .map [("a", .int 1), ("b", .str "$required")] by decide]
  rfl

/-- `bkli -o out.toml a.yaml c.json t.yaml`: three inputs in argument order, format from `-o` -/
theorem C16_bkli_sample3 :
    bkliRun tc_toolFS ["w"] { outPath := some "out.toml", inputs := ["a.yaml", "c.json", "t.yaml"] } =
      .ok { format := "toml", doc := some (.map [("a", .str "$required")]) } := by
  rw [C16_bkli_result_iff]
  refine ⟨"a.yaml", "c.json", ["t.yaml"], tc_base, "yaml", [(tc_third, "json"), (tc_target, "yaml")],
    rfl, .cons tc_toolFS_get_a (.cons tc_toolFS_get_c (.cons tc_toolFS_get_t .nil)), ?_, ?_⟩
  · rw [tc_toolFormat_o _ _ "out.toml" (.inl rfl) rfl (by rw [tc_ext_out_toml]; decide),
      tc_ext_out_toml]
    decide
  · rw [tc_toolFormat_o _ _ "out.toml" (.inl rfl) rfl (by rw [tc_ext_out_toml]; decide),
      tc_ext_out_toml]
    rw [show intersectAll (tc_base :: [(tc_third, "json"), (tc_target, "yaml")].map (·.1)) =
      .map [("a", .str "$required")] by decide]
    rfl

example : ∃ r, bkliRun tc_toolFS ["w"] { inputs := ["a.yaml", "c.json"] } = .ok r :=
  ⟨_, C16_bkli_sample⟩

/-- fewer than two inputs: bkli fails (go-flags: at least 2 positional arguments) -/
theorem C16_bkli_needs_two (fs : FS) (cwd : Comps) (opts : ToolOpts)
    (h : opts.inputs.length < 2) : bkliRun fs cwd opts = .error .other := by
  rcases hi : opts.inputs with _ | ⟨p, _ | ⟨q, rest⟩⟩
  · exact tc_bkliRun_nil fs cwd opts hi
  · exact tc_bkliRun_one fs cwd opts p hi
  · rw [hi] at h; simp only [List.length_cons] at h; omega

example : ({ inputs := ["a.yaml"] } : ToolOpts).inputs.length < 2 := by decide

/-- The CLI result is common to all inputs (`C16_fold`, `C16_fold_wf`) and the migrate workflow
    through the CLI is lossless (`C16_lossless_migrate`): if bkli succeeds and the merged
    document of every input is plain, then a document `base` is emitted, it is the fold of the
    merged documents, well-formed and null-free, a sub-document of the merged document of every
    input, and bkld's `diff` of each input's merged document against it is `same` or a patch
    that `merge` accepts over `base` and that reproduces the input. -/
theorem C16_bkli_cli_common (fs : FS) (cwd : Comps) (opts : ToolOpts) (r : ToolResult)
    (docs : List (Val × String)) (h : bkliRun fs cwd opts = .ok r)
    (hf : List.Forall₂ (fun p (d : Val × String) => getOnlyDocument fs cwd p = .ok d)
      opts.inputs docs)
    (hpl : ∀ d ∈ docs, plainVal d.1 = true) :
    ∃ base, r.doc = some base ∧ base = intersectAll (docs.map (·.1)) ∧
      Val.WF base ∧ base.nullFree = true ∧
      (∀ p ∈ opts.inputs, ∀ d f, getOnlyDocument fs cwd p = .ok (d, f) → Sub base d) ∧
      (∀ p ∈ opts.inputs, ∀ d f, getOnlyDocument fs cwd p = .ok (d, f) →
        match diff d base with
        | .same => d = base
        | .patch q => merge base q = .ok d
        | .replaceParent => False) := by
  obtain ⟨h2, docs', hf', hlen, hdoc, _, _, _, _⟩ := C16_bkli_result fs cwd opts r h
  obtain rfl := tc_forall2_getOnly_unique hf hf'
  have hpl' : ∀ x ∈ docs.map (·.1), plainVal x = true := by
    intro x hx
    obtain ⟨d, hd, rfl⟩ := List.mem_map.1 hx
    exact hpl d hd
  have hne : docs.map (·.1) ≠ [] := by
    intro e
    have : docs.length = 0 := by simpa using congrArg List.length e
    omega
  have hwf := C16_fold_wf _ hne hpl'
  have hnn : (intersectAll (docs.map (·.1))).isNull = false := by
    cases hn : (intersectAll (docs.map (·.1))).isNull
    · rfl
    · exact absurd ((tc_isNull_iff _).1 hn) (nullFree_ne_null hwf.2)
  have hmemdoc : ∀ p ∈ opts.inputs, ∀ d f, getOnlyDocument fs cwd p = .ok (d, f) →
      d ∈ docs.map (·.1) := by
    intro p hp d f hg
    obtain ⟨b, hb, hgb⟩ := tc_forall2_mem_left hf p hp
    rw [hg] at hgb
    cases hgb
    exact List.mem_map.2 ⟨(d, f), hb, rfl⟩
  refine ⟨intersectAll (docs.map (·.1)), ?_, rfl, hwf.1, hwf.2, ?_, ?_⟩
  · rw [hdoc, hnn]; rfl
  · intro p hp d f hg
    exact C16_fold _ hpl' d (hmemdoc p hp d f hg)
  · intro p hp d f hg
    exact C16_lossless_migrate _ hpl' d (hmemdoc p hp d f hg)

example : (∃ r, bkliRun tc_toolFS ["w"] { inputs := ["a.yaml", "c.json"] } = .ok r) ∧
    List.Forall₂ (fun p (d : Val × String) => getOnlyDocument tc_toolFS ["w"] p = .ok d)
      ({ inputs := ["a.yaml", "c.json"] } : ToolOpts).inputs
      [(tc_base, "yaml"), (tc_third, "json")] ∧
    (∀ d ∈ [(tc_base, "yaml"), (tc_third, "json")], plainVal d.1 = true) :=
  ⟨⟨_, C16_bkli_sample⟩, .cons tc_toolFS_get_a (.cons tc_toolFS_get_c .nil), by decide⟩

/-- Two inputs (`C16_common` / `C16_fold_partial`): no `$`-freeness is needed.  If the merged
    documents are null-free and the second one is well-formed, bkli emits `intersect second first`
    and it is a sub-document of both. -/
theorem C16_bkli_cli_common_two (fs : FS) (cwd : Comps) (opts : ToolOpts) (r : ToolResult)
    (p q : String) (a b : Val) (fa fb : String)
    (h : bkliRun fs cwd opts = .ok r) (hi : opts.inputs = [p, q])
    (hp : getOnlyDocument fs cwd p = .ok (b, fb)) (hq : getOnlyDocument fs cwd q = .ok (a, fa))
    (ha : Val.WF a) (han : a.nullFree = true) (hbn : b.nullFree = true) :
    r.doc = some (intersect a b) ∧ r.format = toolFormat opts fb ∧
      Sub (intersect a b) a ∧ Sub (intersect a b) b := by
  obtain ⟨_, docs, hf, _, hdoc, _, _, ⟨d0, f0, ds, hd, hfmt⟩, _⟩ := C16_bkli_result fs cwd opts r h
  have hf2 : List.Forall₂ (fun p (d : Val × String) => getOnlyDocument fs cwd p = .ok d)
      opts.inputs [(b, fb), (a, fa)] := by
    rw [hi]; exact .cons hp (.cons hq .nil)
  obtain rfl := tc_forall2_getOnly_unique hf hf2
  cases hd
  have hc := C16_common a b ha han hbn
  refine ⟨?_, hfmt, hc.1, hc.2⟩
  rw [hdoc]
  have : intersectAll ([(b, fb), (a, fa)].map (·.1)) = intersect a b := rfl
  rw [this, intersect_isNull (nullFree_ne_null han) (nullFree_ne_null hbn)]
  rfl

example : (∃ r, bkliRun tc_toolFS ["w"] { inputs := ["a.yaml", "c.json"] } = .ok r) ∧
    getOnlyDocument tc_toolFS ["w"] "a.yaml" = .ok (tc_base, "yaml") ∧
    getOnlyDocument tc_toolFS ["w"] "c.json" = .ok (tc_third, "json") ∧
    Val.WF tc_third ∧ tc_third.nullFree = true ∧ tc_base.nullFree = true :=
  ⟨⟨_, C16_bkli_sample⟩, tc_toolFS_get_a, tc_toolFS_get_c, by decide, by decide, by decide⟩

end Bkl
