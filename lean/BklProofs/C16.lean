/-
  C16 — "bkli yields the maximal common base, and the migrate workflow is lossless".

  `intersect a b` / `intersectAll` (Bkl/Tools.lean, mirror cmd/bkli/intersect.go) compute the
  common base of several documents; conflicting values become the marker string `"$required"`
  (lists with nothing in common become `["$required"]`).

  `Sub r v` (BklProofs/Lemmas/ToolsIntersect.lean, decidable): `r` is a marker-tolerant
  sub-document of `v` — `r = "$required"`, or both are maps and every key of `r` is in `v` with
  `Sub` of the values, or both are lists and (`r = ["$required"]` or every entry of `r` occurs
  in `v`), or `r = v`.

  Input domains: `Val.WF`, `Val.nullFree` (no `.null` anywhere), `plainVal` (WF, null-free and
  `$`-free), all in BklProofs/Lemmas/Tools.lean.

  Property theorems only; helpers are in BklProofs/Lemmas/{Tools,ToolsDiff,ToolsIntersect}.lean.
-/
import BklProofs.Lemmas.ToolsIntersect
import BklProofs.C15
namespace Bkl

/-! ### the shared witnesses `C16_a`, `C16_b`, `C16_c` are in Lemmas/ToolsIntersect.lean -/

/-- what bkli computes for two and for three of the witnesses -/
example : intersect C16_a C16_b =
    .map [("img", .str "nginx"), ("name", .str "$required"), ("ports", .list [.int 80]),
          ("res", .map [("cpu", .int 1), ("mem", .str "$required")]),
          ("tags", .list [.str "$required"])] := by decide

example : intersectAll [C16_a, C16_b, C16_c] =
    .map [("img", .str "nginx"), ("name", .str "$required"), ("ports", .list [.int 80]),
          ("res", .str "$required"), ("tags", .list [.str "$required"])] := by decide

/-! ## 1. the result is a common sub-document -/

/-- For null-free inputs (`a` well-formed) the intersection is a sub-document of both. -/
theorem C16_common (a b : Val) (ha : Val.WF a) (han : a.nullFree = true)
    (hbn : b.nullFree = true) :
    Sub (intersect a b) a ∧ Sub (intersect a b) b :=
  ⟨Sub_intersect_left a b ha han hbn, Sub_intersect_right a b han hbn⟩

example : Val.WF C16_a ∧ C16_a.nullFree = true ∧ C16_b.nullFree = true := by decide

/-- null-freeness cannot be dropped: a `null` on one side makes the result `null` -/
example : ¬ Sub (intersect (.int 1) .null) (.int 1) := by decide

/-! ## 2. a field present in both inputs is never dropped -/

/-- a key carrying non-null values in both inputs is kept; its value is the intersection of the
    two values (no sortedness needed) -/
theorem C16_required_on_conflict (am bm : Fields) (k : String) (x y : Val)
    (hx : fget am k = some x) (hy : fget bm k = some y) (hxn : x ≠ .null) (hyn : y ≠ .null) :
    fget (intersectFields am bm) k = some (intersect x y) ∧
    fget (intersectFields am bm) k ≠ none := by
  have h := fget_intersectFields hx hy (intersect_isNull hxn hyn)
  exact ⟨h, by rw [h]; simp⟩

example : fget [("name", Val.str "a")] "name" = some (.str "a") ∧
    fget [("name", Val.str "b")] "name" = some (.str "b") ∧
    Val.str "a" ≠ .null ∧ Val.str "b" ≠ .null := by decide

/-- … and two different scalars become the marker `"$required"` -/
theorem C16_required_on_conflict_scalar (am bm : Fields) (k : String) (x y : Val)
    (hx : fget am k = some x) (hy : fget bm k = some y) (hxs : x.isScalar = true)
    (hyn : y ≠ .null) (hne : x ≠ y) :
    fget (intersectFields am bm) k = some (.str "$required") := by
  have hxn : x ≠ .null := by intro e; subst e; cases hxs
  rw [(C16_required_on_conflict am bm k x y hx hy hxn hyn).1, intersect_scalar x y hxs hyn]
  have : (x == y) = false := beq_eq_false_iff_ne.2 hne
  rw [this]; rfl

example : fget [("name", Val.str "a")] "name" = some (.str "a") ∧
    fget [("name", Val.str "b")] "name" = some (.str "b") ∧
    (Val.str "a").isScalar = true ∧ Val.str "b" ≠ .null ∧ Val.str "a" ≠ .str "b" := by decide

/-! ## 3. idempotence and maximality -/

theorem C16_idempotent (v : Val) (hv : Val.WF v) (hn : v.nullFree = true) :
    intersect v v = v :=
  intersect_self v hv hn

example : Val.WF C16_a ∧ C16_a.nullFree = true := by decide

/-- an empty list is the one place where well-formed, null-free data could have been lost
    (`len(a)+len(b) > 0` in the Go code guards it) -/
example : intersect (.list []) (.list []) = .list [] := by decide

/-- a key with the same (well-formed, null-free) value in both inputs is kept unchanged -/
theorem C16_keeps_shared (am bm : Fields) (k : String) (x : Val)
    (hx : fget am k = some x) (hy : fget bm k = some x) (hw : Val.WF x)
    (hn : x.nullFree = true) :
    fget (intersectFields am bm) k = some x := by
  have hxn := nullFree_ne_null hn
  have h := (C16_required_on_conflict am bm k x x hx hy hxn hxn).1
  rwa [intersect_self x hw hn] at h

example : fget [("res", Val.map [("cpu", .int 1)])] "res" = some (.map [("cpu", .int 1)]) ∧
    Val.WF (.map [("cpu", .int 1)]) ∧ (Val.map [("cpu", .int 1)]).nullFree = true := by decide

/-! ## 4. the bkli main loop -/

theorem C16_fold_same (v : Val) (hv : Val.WF v) (hn : v.nullFree = true) :
    intersectAll [v, v, v] = v := by
  simp only [intersectAll, List.foldl_cons, List.foldl_nil]
  rw [intersect_self v hv hn, intersect_self v hv hn]

example : Val.WF C16_a ∧ C16_a.nullFree = true := by decide

/-- for plain inputs the result of the whole fold is a sub-document of every input -/
theorem C16_fold (vs : List Val) (h : ∀ x ∈ vs, plainVal x = true) :
    ∀ x ∈ vs, Sub (intersectAll vs) x :=
  (intersectAll_sub vs h).2

example : ∀ x ∈ [C16_a, C16_b, C16_c], plainVal x = true := by decide

/-- … and stays in the domain (well-formed, null-free) -/
theorem C16_fold_wf (vs : List Val) (hne : vs ≠ []) (h : ∀ x ∈ vs, plainVal x = true) :
    Val.WF (intersectAll vs) ∧ (intersectAll vs).nullFree = true :=
  (intersectAll_sub vs h).1 hne

example : [C16_a, C16_b, C16_c] ≠ [] ∧ ∀ x ∈ [C16_a, C16_b, C16_c], plainVal x = true := by decide

/-- `C16_fold` is FALSE for inputs that are merely well-formed and null-free: an input list
    that itself carries the marker string twice survives as `["$required", "$required"]`, which
    is neither `["$required"]` nor a sub-list of the first input. -/
theorem C16_fold_needs_plain :
    let vs := [Val.list [.str "x"], .list [.str "y"], .list [.str "$required", .str "$required"]]
    (∀ x ∈ vs, Val.WF x ∧ x.nullFree = true) ∧
    intersectAll vs = .list [.str "$required", .str "$required"] ∧
    ¬ Sub (intersectAll vs) (.list [.str "x"]) := by decide

/-- two inputs: no `$`-freeness needed -/
theorem C16_fold_partial (a b : Val) (ha : Val.WF a) (han : a.nullFree = true)
    (hbn : b.nullFree = true) :
    Sub (intersectAll [b, a]) a ∧ Sub (intersectAll [b, a]) b :=
  C16_common a b ha han hbn

example : Val.WF C16_a ∧ C16_a.nullFree = true ∧ C16_b.nullFree = true := by decide

/-! ## 5. the migrate workflow is lossless -/

/-- For a plain document `x` and any well-formed base `b` that is a sub-document of `x`
    (markers `"$required"` and `["$required"]` allowed anywhere): bkld either finds them equal
    or emits a patch that bkl accepts over `b` and that reproduces `x`. -/
theorem C16_lossless (x b : Val) (hx : plainVal x = true) (hb : Val.WF b) (hsub : Sub b x) :
    match diff x b with
    | .same => x = b
    | .patch p => merge b p = .ok x
    | .replaceParent => False := by
  have h := diff_spec x b hx hb
  have hne := diff_ne_replaceParent_of_Sub hsub
  cases hd : diff x b with
  | same => rw [hd] at h; exact h
  | patch p => rw [hd] at h; exact h
  | replaceParent => exact hne hd

example : plainVal C16_a = true ∧ Val.WF (intersect C16_a C16_b) ∧
    Sub (intersect C16_a C16_b) C16_a := by decide

/-- the base computed by bkli from plain inputs, against each of the inputs -/
theorem C16_lossless_migrate (vs : List Val) (h : ∀ x ∈ vs, plainVal x = true) (x : Val)
    (hx : x ∈ vs) :
    match diff x (intersectAll vs) with
    | .same => x = intersectAll vs
    | .patch p => merge (intersectAll vs) p = .ok x
    | .replaceParent => False := by
  have hne : vs ≠ [] := by intro e; rw [e] at hx; cases hx
  exact C16_lossless x _ (h x hx) (C16_fold_wf vs hne h).1 (C16_fold vs h x hx)

example : (∀ x ∈ [C16_a, C16_b, C16_c], plainVal x = true) ∧ C16_b ∈ [C16_a, C16_b, C16_c] := by
  decide

/-- Whole map-rooted documents: the base is a map; for every input either bkld emits nothing
    and the input equals the base, or the emitted layer carries `$match: {}` and its body (the
    layer without `$match`, what the parser merges) turns the base back into that input. -/
theorem C16_lossless_doc (vs : List Val) (h : ∀ x ∈ vs, plainVal x = true)
    (hm : ∀ x ∈ vs, x.isMap = true) (t : Fields) (ht : Val.map t ∈ vs) :
    ∃ bm, intersectAll vs = .map bm ∧
      match diffDoc (.map t) (.map bm) with
      | none => Val.map t = Val.map bm
      | some layer => ∃ m, layer = .map m ∧ fget m "$match" = some (.map []) ∧
          merge (.map bm) (.map (fdel m "$match")) = .ok (.map t) := by
  have hne : vs ≠ [] := by intro e; rw [e] at ht; cases ht
  obtain ⟨bm, hbm⟩ := intersectAll_isMap vs hne hm
  refine ⟨bm, hbm, ?_⟩
  have hpl := h _ ht
  have hwf := (C16_fold_wf vs hne h).1
  have hsub := C16_fold vs h _ ht
  rw [hbm] at hwf hsub
  -- the base has no `$match` key: its keys are keys of the plain input
  have hnm : fget bm "$match" = none := by
    cases hg : fget bm "$match" with
    | none => rfl
    | some r =>
      obtain ⟨vm, hv, hall⟩ := Sub_map_iff.1 hsub
      cases hv
      obtain ⟨y, hy, _⟩ := hall _ (fget_mem hg)
      have hy' : fget t "$match" = some y := hy
      rw [plainVal_fget_dollar hpl (show dollarFree "$match" = false by decide)] at hy'
      cases hy'
  exact C15_roundtrip_wf_base t bm hpl hwf hnm

example : (∀ x ∈ [C16_a, C16_b, C16_c], plainVal x = true) ∧
    (∀ x ∈ [C16_a, C16_b, C16_c], x.isMap = true) ∧
    (∃ t, Val.map t ∈ [C16_a, C16_b, C16_c]) :=
  ⟨by decide, by decide, _, List.mem_cons_self⟩

end Bkl
