/-
  C18 — "With a root directory set, nothing outside it is ever read".

  The property is about file *contents*: every `open` goes through the `os.Root` walk
  (`FS.rootWalk` / `FS.rootOpen`).  The existence probes `findFile` / `globFiles` /
  `evalSymlinks` deliberately see the whole file system, exactly like the Go code's
  os.Stat / filepath.Glob / filepath.EvalSymlinks; nothing below claims they are confined.
-/
import BklProofs.Lemmas.Files
namespace Bkl

/-- The `os.Root` walk never leaves the root. -/
theorem C18_walk_stays_inside (fs : FS) (root : Comps) (fuel : Nat) (cur : Comps)
    (todo : List String) (real : Comps)
    (h : fs.rootWalk root fuel cur todo = .ok real) (hp : root <+: cur) : root <+: real :=
  rootWalk_inside fs root fuel cur todo real h hp

/-- non-vacuity: a walk through a relative link inside /w/r -/
example : exFS.rootWalk ["w", "r"] 10 ["w", "r"] ["sub", "..", "l.yaml"] = .ok ["w", "r", "a.yaml"] ∧
    ["w", "r"] <+: ["w", "r"] := by
  refine ⟨?_, List.prefix_refl _⟩
  rw [rootWalk_step_plain (n := .dir) (by decide) (by decide) rfl,
    rootWalk_step_dotdot (by decide),
    rootWalk_step_link (t := "a.yaml") (ts := ["a.yaml"]) (by decide) (by decide)
      (by simp [isAbsPath]) (splitPath_lit _ _ (by decide))]
  decide

/-- Every content read is of a path inside the root. -/
theorem C18_reads_inside (fs : FS) (root : Comps) (rel : List String) (docs : List Val)
    (h : fs.rootOpen root rel = .ok docs) :
    ∃ real, root <+: real ∧ fs.lstat real = some (.file (.ok docs)) := by
  rw [rootOpen_eq] at h
  cases hw : fs.rootWalk root linkFuel root rel with
  | error e => rw [hw] at h; cases h
  | ok real =>
    rw [hw] at h
    dsimp only at h
    refine ⟨real, rootWalk_inside fs root _ _ _ _ hw (List.prefix_refl _), ?_⟩
    cases hl : fs.lstat real with
    | none => rw [hl] at h; cases h
    | some n =>
      rw [hl] at h
      cases n with
      | file d => simp only at h; rw [h]
      | link t => cases h
      | dir => cases h

/-- The same for whatever `rootOpen` returns (a decoding error is also the content of a file
    inside the root); the only other outcome is the walk's own refusal. -/
theorem C18_reads_inside_any (fs : FS) (root : Comps) (rel : List String) (r : R (List Val))
    (h : fs.rootOpen root rel = r) :
    r = .error .other ∨ ∃ real, root <+: real ∧ fs.lstat real = some (.file r) := by
  rw [rootOpen_eq] at h
  cases hw : fs.rootWalk root linkFuel root rel with
  | error e =>
    rw [hw] at h
    -- the walk only ever fails with `other`
    have : ∀ (fuel : Nat) (cur : Comps) (todo : List String) (e : Err),
        fs.rootWalk root fuel cur todo = .error e → e = .other := by
      intro fuel
      induction fuel with
      | zero => intro cur todo e h; rw [rootWalk_zero] at h; cases h; rfl
      | succ n ih =>
        intro cur todo e h
        cases todo with
        | nil => rw [rootWalk_nil] at h; cases h
        | cons c rest =>
          rw [rootWalk_cons] at h
          split at h
          · exact ih _ _ _ h
          · split at h
            · split at h
              · cases h; rfl
              · exact ih _ _ _ h
            · split at h
              · cases h; rfl
              · split at h
                · cases h; rfl
                · exact ih _ _ _ h
              · exact ih _ _ _ h
    have he := this _ _ _ _ hw
    subst he
    exact .inl h.symm
  | ok real =>
    rw [hw] at h
    dsimp only at h
    have hin := rootWalk_inside fs root _ _ _ _ hw (List.prefix_refl _)
    cases hl : fs.lstat real with
    | none => rw [hl] at h; exact .inl h.symm
    | some n =>
      rw [hl] at h
      cases n with
      | file d => exact .inr ⟨real, hin, by rw [hl, ← h]⟩
      | link t => exact .inl h.symm
      | dir => exact .inl h.symm

example : exFS.rootOpen ["w", "r"] ["l.yaml"] = .ok [.map [("x", .int 1)]] := by
  rw [rootOpen_eq, show linkFuel = 4094 + 1 + 1 from rfl,
    rootWalk_step_link (t := "a.yaml") (ts := ["a.yaml"]) (by decide) (by decide)
      (by simp [isAbsPath]) (splitPath_lit _ _ (by decide))]
  show (match exFS.rootWalk ["w", "r"] (4094 + 1) ["w", "r"] ("a.yaml" :: []) with
    | Except.error e => Except.error e | .ok real => _) = _
  rw [rootWalk_step_plain (n := .file (.ok [.map [("x", .int 1)]])) (by decide) (by decide) rfl,
    rootWalk_nil]

/-- `..` at the root is refused … -/
theorem C18_dotdot_escape_refused (fs : FS) (root : Comps) (fuel : Nat) (rest : List String) :
    fs.rootWalk root (fuel + 1) root (".." :: rest) = .error .other :=
  rootWalk_dotdot_at_root fs root fuel rest

/-- … also when it comes from a relative link that climbs out of the root -/
example : exFS.rootOpen ["w", "r"] ["up.yaml"] = .error .other := by
  rw [rootOpen_eq, show linkFuel = 4094 + 1 + 1 from rfl,
    rootWalk_step_link (t := "../secret.yaml") (ts := ["..", "secret.yaml"]) (by decide)
      (by decide) (by simp [isAbsPath]) (splitPath_lit _ _ (by decide))]
  simp only [List.cons_append, List.nil_append]
  rw [rootWalk_dotdot_at_root]

/-- Stepping onto a symlink with an absolute target is an error. -/
theorem C18_absolute_link_refused (fs : FS) (root cur : Comps) (fuel : Nat) (c t : String)
    (rest : List String) (hc : plainComp c = true)
    (hl : fs.lstat (cur ++ [c]) = some (.link t)) (ha : isAbsPath t = true) :
    fs.rootWalk root (fuel + 1) cur (c :: rest) = .error .other := by
  have hc' := (plainComp_iff c).1 hc
  rw [rootWalk_cons, hl]
  simp [hc'.1, hc'.2.1, hc'.2.2, ha]

example : plainComp "abs.yaml" = true ∧
    exFS.lstat (["w", "r"] ++ ["abs.yaml"]) = some (.link "/w/secret.yaml") ∧
    isAbsPath "/w/secret.yaml" = true := by
  refine ⟨by decide, by decide, by simp [isAbsPath]⟩

/-- File contents obtained with a root set are independent of everything outside the root:
    the walk, … -/
theorem C18_independent_walk (root : Comps) (fs₁ fs₂ : FS) (h : agreeInside root fs₁ fs₂)
    (fuel : Nat) (cur : Comps) (todo : List String) (hp : root <+: cur) :
    fs₁.rootWalk root fuel cur todo = fs₂.rootWalk root fuel cur todo :=
  rootWalk_congr fs₁ fs₂ root h fuel cur todo hp

/-- … the open, … -/
theorem C18_independent_open (root : Comps) (fs₁ fs₂ : FS) (h : agreeInside root fs₁ fs₂)
    (rel : List String) : fs₁.rootOpen root rel = fs₂.rootOpen root rel := by
  rw [rootOpen_eq, rootOpen_eq,
    rootWalk_congr fs₁ fs₂ root h linkFuel root rel (List.prefix_refl _)]
  cases hw : fs₂.rootWalk root linkFuel root rel with
  | error e => rfl
  | ok real =>
    have hw1 : fs₁.rootWalk root linkFuel root rel = .ok real := by
      rw [rootWalk_congr fs₁ fs₂ root h linkFuel root rel (List.prefix_refl _)]; exact hw
    have hin := rootWalk_inside fs₁ root _ _ _ _ hw1 (List.prefix_refl _)
    simp only [h real hin]

/-- … and the loaded documents of a file. -/
theorem C18_independent (fs₁ fs₂ : FS) (cfg : RootCfg) (h : agreeInside cfg.root fs₁ fs₂)
    (p : Comps) (id : String) : loadFile fs₁ cfg p id = loadFile fs₂ cfg p id := by
  rw [loadFile_eq, loadFile_eq, C18_independent_open cfg.root fs₁ fs₂ h]

/-- non-vacuity: the two sample file systems agree inside /w/r and differ outside -/
example : agreeInside ["w", "r"] exFS exFS' ∧ exFS.lstat ["w", "secret.yaml"] ≠ exFS'.lstat ["w", "secret.yaml"] := by
  refine ⟨?_, by decide⟩
  intro p hp
  obtain ⟨t, rfl⟩ := hp
  have hne : (["w", "r"] ++ t).isEmpty = false := rfl
  simp only [FS.lstat, hne, exFS, exFS', Bool.false_eq_true, if_false]
  simp [List.find?_cons]

/-- `filepath.Rel` of a path outside the root starts with `..` … -/
theorem C18_relTo_outside (root p : Comps) (h : ¬ root <+: p) (hr : root ≠ []) :
    (relTo root p).head? = some ".." :=
  relTo_strip_outside root p h hr

example : ¬ (["w", "r"] <+: ["w", "secret.yaml"]) ∧ (["w", "r"] : Comps) ≠ [] := by decide

/-- … so a path outside a (non-trivial) root is never opened, whatever the file system holds. -/
theorem C18_outside_never_read (fs : FS) (cfg : RootCfg) (p : Comps) (id : String)
    (h : ¬ cfg.root <+: p) (hr : cfg.root ≠ []) :
    loadFile fs cfg p id = .error .other ∨ loadFile fs cfg p id = .error .unknownFormat := by
  rw [loadFile_eq]
  split
  · left
    have hh := relTo_strip_outside cfg.root p h hr
    have : ∃ rest, relTo cfg.root p = ".." :: rest := by
      change (relTo cfg.root p).head? = some ".." at hh
      cases hrel : relTo cfg.root p with
      | nil => rw [hrel] at hh; cases hh
      | cons a rest =>
        rw [hrel] at hh
        simp only [List.head?_cons, Option.some.injEq] at hh
        exact ⟨rest, by rw [hh]⟩
    obtain ⟨rest, hrest⟩ := this
    rw [rootOpen_eq, hrest]
    have : fs.rootWalk cfg.root linkFuel cfg.root (".." :: rest) = .error .other :=
      rootWalk_dotdot_at_root fs cfg.root 4095 rest
    rw [this]
  · right; rfl

example : loadFile exFS ⟨["w", "r"], ["w", "r"]⟩ ["w", "secret.yaml"] "x" = .error .other := by
  rcases C18_outside_never_read exFS ⟨["w", "r"], ["w", "r"]⟩ ["w", "secret.yaml"] "x"
    (by decide) (by decide) with h | h
  · exact h
  · rw [loadFile_eq] at h
    have : supportedExts.contains (extOf (baseOf ["w", "secret.yaml"])) = true := by
      simp only [extOf, baseOf, splitOn_dot]; decide
    rw [this] at h
    simp only [if_true] at h
    rw [rootOpen_eq] at h
    have h2 : relTo ["w", "r"] ["w", "secret.yaml"] = ["..", "secret.yaml"] := by decide
    have h3 : exFS.rootWalk ["w", "r"] linkFuel ["w", "r"] ["..", "secret.yaml"] = .error .other :=
      rootWalk_dotdot_at_root exFS ["w", "r"] 4095 _
    rw [h2, h3] at h
    cases h

/-- A nested SetRoot can only narrow the root. -/
theorem C18_setRoot_nested (fs : FS) (cfg cfg' : RootCfg) (path : String)
    (h : setRoot fs cfg path = .ok cfg') : cfg.root <+: cfg'.root := by
  rw [setRoot_eq] at h
  cases hd : fs.rootOpenDir cfg.root (relTo cfg.root (absPath cfg.cwd path)) with
  | error e => rw [hd] at h; cases h
  | ok real =>
    rw [hd] at h
    simp only [Except.ok.injEq] at h
    subst h
    show cfg.root <+: cleanComps (cfg.root ++ relTo cfg.root (absPath cfg.cwd path))
    by_cases hr : cfg.root = []
    · rw [hr]; exact List.nil_prefix
    · by_cases hp : cfg.root <+: absPath cfg.cwd path
      · obtain ⟨s, hs⟩ := hp
        rw [← hs, relTo_append, hs, cleanComps_of_plain _ (absPath_allPlain _ _), ← hs]
        exact List.prefix_append _ _
      · exfalso
        have hh : (relTo cfg.root (absPath cfg.cwd path)).head? = some ".." :=
          relTo_strip_outside _ _ hp hr
        rw [rootOpenDir_eq] at hd
        cases hrel : relTo cfg.root (absPath cfg.cwd path) with
        | nil => rw [hrel] at hh; cases hh
        | cons a rest =>
          rw [hrel] at hh hd
          simp only [List.head?_cons, Option.some.injEq] at hh
          subst hh
          have : fs.rootWalk cfg.root linkFuel cfg.root (".." :: rest) = .error .other :=
            rootWalk_dotdot_at_root fs cfg.root 4095 rest
          rw [this] at hd
          cases hd

example : setRoot exFS ⟨["w"], ["w"]⟩ "r/sub" = .ok ⟨["w", "r", "sub"], ["w"]⟩ := by
  rw [setRoot_eq, rootOpenDir_eq]
  have h1 : absPath ["w"] "r/sub" = ["w", "r", "sub"] := by
    have : isAbsPath "r/sub" = false := by simp [isAbsPath]
    simp only [absPath, this, splitPath_lit "r/sub" ["r", "sub"] (by decide)]; decide
  rw [h1]
  have h2 : relTo ["w"] ["w", "r", "sub"] = ["r", "sub"] := by decide
  rw [h2]
  have h3 : exFS.rootWalk ["w"] linkFuel ["w"] ["r", "sub"] = .ok ["w", "r", "sub"] := by decide
  simp only [h3]
  rfl

end Bkl
