/-
  C18 — "With a root directory set, nothing outside it is ever read".

  Every `open` goes through the `os.Root` walk (`FS.rootWalk` / `FS.rootOpen`), and so do the
  existence probes for parent layer files (`FS.rootExists` = `Parser.stat`, `FS.globFiles` =
  `Parser.globFiles`).  `filepath.EvalSymlinks` is not rooted, but it is only called on a path
  that has just been opened through the root; `FileMatch` (the command line argument itself)
  deliberately sees the whole file system.  The first part is about single opens; the second
  part (`C18_*_independent`, from `C18_sameInside_agree` on) shows that the WHOLE evaluation —
  parents, layering, the command line loop — depends on the inside of the root only.
-/
import BklProofs.Lemmas.Files
import BklProofs.Lemmas.C18Eval
namespace Bkl

/-- The `os.Root` walk never leaves the root. -/
theorem C18_walk_stays_inside (fs : FS) (root : Comps) (fuel links : Nat) (cur : Comps)
    (todo : List String) (real : Comps)
    (h : fs.rootWalk root fuel links cur todo = .ok real) (hp : root <+: cur) : root <+: real :=
  rootWalk_inside fs root fuel cur todo real h hp

/-- non-vacuity: a walk through a relative link inside /w/r -/
example : exFS.rootWalk ["w", "r"] 10 0 ["w", "r"] ["sub", "..", "l.yaml"] = .ok ["w", "r", "a.yaml"] ∧
    ["w", "r"] <+: ["w", "r"] := by
  refine ⟨?_, List.prefix_refl _⟩
  rw [rootWalk_step_plain (n := .dir) (by decide) (by decide) rfl,
    rootWalk_step_dotdot (by decide),
    rootWalk_step_link (t := "a.yaml") (ts := ["a.yaml"]) (by decide) (by decide)
      (by simp [isAbsPath]) (splitPath_lit _ _ (by decide))]
  decide

/-- Every content read is of a path inside the root. -/
theorem C18_reads_inside (fs : FS) (root : Comps) (rel : List String) (docs : List Val)
    (h : fs.rootOpen root rel = .ok docs) :
    ∃ real, root <+: real ∧ fs.lstat real = some (.file (.ok docs)) := by
  rw [rootOpen_eq] at h
  cases hw : fs.rootWalk root linkFuel 0 root rel with
  | error e => rw [hw] at h; cases h
  | ok real =>
    rw [hw] at h
    dsimp only at h
    refine ⟨real, rootWalk_inside fs root _ _ _ _ hw (List.prefix_refl _), ?_⟩
    cases hl : fs.lstat real with
    | none => rw [hl] at h; cases h
    | some n =>
      rw [hl] at h
      cases n with
      | file d => simp only at h; rw [h]
      | link t => cases h
      | dir => cases h

/-- The same for whatever `rootOpen` returns (a decoding error is also the content of a file
    inside the root); the only other outcome is the walk's own refusal. -/
theorem C18_reads_inside_any (fs : FS) (root : Comps) (rel : List String) (r : R (List Val))
    (h : fs.rootOpen root rel = r) :
    r = .error .other ∨ ∃ real, root <+: real ∧ fs.lstat real = some (.file r) := by
  rw [rootOpen_eq] at h
  cases hw : fs.rootWalk root linkFuel 0 root rel with
  | error e =>
    rw [hw] at h
    -- the walk only ever fails with `other`
    have : ∀ (fuel links : Nat) (cur : Comps) (todo : List String) (e : Err),
        fs.rootWalk root fuel links cur todo = .error e → e = .other := by
      intro fuel
      induction fuel with
      | zero => intro links cur todo e h; rw [rootWalk_zero] at h; cases h; rfl
      | succ n ih =>
        intro links cur todo e h
        cases todo with
        | nil => rw [rootWalk_nil] at h; cases h
        | cons c rest =>
          rw [rootWalk_cons] at h
          split at h
          · exact ih _ _ _ _ h
          · split at h
            · split at h
              · cases h; rfl
              · exact ih _ _ _ _ h
            · split at h
              · cases h; rfl
              · split at h
                · cases h; rfl
                · split at h
                  · cases h; rfl
                  · exact ih _ _ _ _ h
              · exact ih _ _ _ _ h
    have he := this _ _ _ _ _ hw
    subst he
    exact .inl h.symm
  | ok real =>
    rw [hw] at h
    dsimp only at h
    have hin := rootWalk_inside fs root _ _ _ _ hw (List.prefix_refl _)
    cases hl : fs.lstat real with
    | none => rw [hl] at h; exact .inl h.symm
    | some n =>
      rw [hl] at h
      cases n with
      | file d => exact .inr ⟨real, hin, by rw [hl, ← h]⟩
      | link t => exact .inl h.symm
      | dir => exact .inl h.symm

example : exFS.rootOpen ["w", "r"] ["l.yaml"] = .ok [.map [("x", .int 1)]] := by
  rw [rootOpen_eq, show linkFuel = 4094 + 1 + 1 from rfl,
    rootWalk_step_link (t := "a.yaml") (ts := ["a.yaml"]) (by decide) (by decide)
      (by simp [isAbsPath]) (splitPath_lit _ _ (by decide))]
  show (match exFS.rootWalk ["w", "r"] (4094 + 1) (0 + 1) ["w", "r"] ("a.yaml" :: []) with
    | Except.error e => Except.error e | .ok real => _) = _
  rw [rootWalk_step_plain (n := .file (.ok [.map [("x", .int 1)]])) (by decide) (by decide) rfl,
    rootWalk_nil]

/-- `..` at the root is refused … -/
theorem C18_dotdot_escape_refused (fs : FS) (root : Comps) (fuel links : Nat)
    (rest : List String) :
    fs.rootWalk root (fuel + 1) links root (".." :: rest) = .error .other :=
  rootWalk_dotdot_at_root fs root fuel rest

/-- … also when it comes from a relative link that climbs out of the root -/
example : exFS.rootOpen ["w", "r"] ["up.yaml"] = .error .other := by
  rw [rootOpen_eq, show linkFuel = 4094 + 1 + 1 from rfl,
    rootWalk_step_link (t := "../secret.yaml") (ts := ["..", "secret.yaml"]) (by decide)
      (by decide) (by simp [isAbsPath]) (splitPath_lit _ _ (by decide))]
  simp only [List.cons_append, List.nil_append]
  rw [rootWalk_dotdot_at_root]

/-- Stepping onto a symlink with an absolute target is an error. -/
theorem C18_absolute_link_refused (fs : FS) (root cur : Comps) (fuel links : Nat) (c t : String)
    (rest : List String) (hc : plainComp c = true)
    (hl : fs.lstat (cur ++ [c]) = some (.link t)) (ha : isAbsPath t = true) :
    fs.rootWalk root (fuel + 1) links cur (c :: rest) = .error .other := by
  have hc' := (plainComp_iff c).1 hc
  rw [rootWalk_cons, hl]
  simp [hc'.1, hc'.2.1, hc'.2.2, ha]

example : plainComp "abs.yaml" = true ∧
    exFS.lstat (["w", "r"] ++ ["abs.yaml"]) = some (.link "/w/secret.yaml") ∧
    isAbsPath "/w/secret.yaml" = true := by
  refine ⟨by decide, by decide, by simp [isAbsPath]⟩

/-- File contents obtained with a root set are independent of everything outside the root:
    the walk, … -/
theorem C18_independent_walk (root : Comps) (fs₁ fs₂ : FS) (h : agreeInside root fs₁ fs₂)
    (fuel links : Nat) (cur : Comps) (todo : List String) (hp : root <+: cur) :
    fs₁.rootWalk root fuel links cur todo = fs₂.rootWalk root fuel links cur todo :=
  rootWalk_congr fs₁ fs₂ root h fuel cur todo hp

/-- … the open, … -/
theorem C18_independent_open (root : Comps) (fs₁ fs₂ : FS) (h : agreeInside root fs₁ fs₂)
    (rel : List String) : fs₁.rootOpen root rel = fs₂.rootOpen root rel := by
  rw [rootOpen_eq, rootOpen_eq,
    rootWalk_congr fs₁ fs₂ root h linkFuel root rel (List.prefix_refl _)]
  cases hw : fs₂.rootWalk root linkFuel 0 root rel with
  | error e => rfl
  | ok real =>
    have hw1 : fs₁.rootWalk root linkFuel 0 root rel = .ok real := by
      rw [rootWalk_congr fs₁ fs₂ root h linkFuel root rel (List.prefix_refl _)]; exact hw
    have hin := rootWalk_inside fs₁ root _ _ _ _ hw1 (List.prefix_refl _)
    simp only [h real hin]

/-- … and the loaded documents of a file. -/
theorem C18_independent (fs₁ fs₂ : FS) (cfg : RootCfg) (h : agreeInside cfg.root fs₁ fs₂)
    (p : Comps) (id : String) : loadFile fs₁ cfg p id = loadFile fs₂ cfg p id := by
  rw [loadFile_eq, loadFile_eq, C18_independent_open cfg.root fs₁ fs₂ h]

/-- non-vacuity: the two sample file systems agree inside /w/r and differ outside -/
example : agreeInside ["w", "r"] exFS exFS' ∧ exFS.lstat ["w", "secret.yaml"] ≠ exFS'.lstat ["w", "secret.yaml"] := by
  refine ⟨?_, by decide⟩
  intro p hp
  obtain ⟨t, rfl⟩ := hp
  have hne : (["w", "r"] ++ t).isEmpty = false := rfl
  simp only [FS.lstat, hne, exFS, exFS', Bool.false_eq_true, if_false]
  simp [List.find?_cons]

/-- `filepath.Rel` of a path outside the root starts with `..` … -/
theorem C18_relTo_outside (root p : Comps) (h : ¬ root <+: p) (hr : root ≠ []) :
    (relTo root p).head? = some ".." :=
  relTo_strip_outside root p h hr

example : ¬ (["w", "r"] <+: ["w", "secret.yaml"]) ∧ (["w", "r"] : Comps) ≠ [] := by decide

/-- … so a path outside a (non-trivial) root is never opened, whatever the file system holds. -/
theorem C18_outside_never_read (fs : FS) (cfg : RootCfg) (p : Comps) (id : String)
    (h : ¬ cfg.root <+: p) (hr : cfg.root ≠ []) :
    loadFile fs cfg p id = .error .other ∨ loadFile fs cfg p id = .error .unknownFormat := by
  rw [loadFile_eq]
  split
  · left
    have hh := relTo_strip_outside cfg.root p h hr
    have : ∃ rest, relTo cfg.root p = ".." :: rest := by
      change (relTo cfg.root p).head? = some ".." at hh
      cases hrel : relTo cfg.root p with
      | nil => rw [hrel] at hh; cases hh
      | cons a rest =>
        rw [hrel] at hh
        simp only [List.head?_cons, Option.some.injEq] at hh
        exact ⟨rest, by rw [hh]⟩
    obtain ⟨rest, hrest⟩ := this
    rw [rootOpen_eq, hrest]
    have : fs.rootWalk cfg.root linkFuel 0 cfg.root (".." :: rest) = .error .other :=
      rootWalk_dotdot_at_root fs cfg.root 4095 rest
    rw [this]
  · right; rfl

example : loadFile exFS ⟨["w", "r"], ["w", "r"]⟩ ["w", "secret.yaml"] "x" = .error .other := by
  rcases C18_outside_never_read exFS ⟨["w", "r"], ["w", "r"]⟩ ["w", "secret.yaml"] "x"
    (by decide) (by decide) with h | h
  · exact h
  · rw [loadFile_eq] at h
    have : supportedExts.contains (extOf (baseOf ["w", "secret.yaml"])) = true := by
      simp only [extOf, baseOf, splitOn_dot]; decide
    rw [this] at h
    simp only [if_true] at h
    rw [rootOpen_eq] at h
    have h2 : relTo ["w", "r"] ["w", "secret.yaml"] = ["..", "secret.yaml"] := by decide
    have h3 : exFS.rootWalk ["w", "r"] linkFuel 0 ["w", "r"] ["..", "secret.yaml"] = .error .other :=
      rootWalk_dotdot_at_root exFS ["w", "r"] 4095 _
    rw [h2, h3] at h
    cases h

/-- A nested SetRoot can only narrow the root. -/
theorem C18_setRoot_nested (fs : FS) (cfg cfg' : RootCfg) (path : String)
    (h : setRoot fs cfg path = .ok cfg') : cfg.root <+: cfg'.root := by
  rw [setRoot_eq] at h
  cases hd : fs.rootOpenDir cfg.root (relTo cfg.root (absPath cfg.cwd path)) with
  | error e => rw [hd] at h; cases h
  | ok real =>
    rw [hd] at h
    simp only [Except.ok.injEq] at h
    subst h
    show cfg.root <+: cleanComps (cfg.root ++ relTo cfg.root (absPath cfg.cwd path))
    by_cases hr : cfg.root = []
    · rw [hr]; exact List.nil_prefix
    · by_cases hp : cfg.root <+: absPath cfg.cwd path
      · obtain ⟨s, hs⟩ := hp
        rw [← hs, relTo_append, hs, cleanComps_of_plain _ (absPath_allPlain _ _), ← hs]
        exact List.prefix_append _ _
      · exfalso
        have hh : (relTo cfg.root (absPath cfg.cwd path)).head? = some ".." :=
          relTo_strip_outside _ _ hp hr
        rw [rootOpenDir_eq] at hd
        cases hrel : relTo cfg.root (absPath cfg.cwd path) with
        | nil => rw [hrel] at hh; cases hh
        | cons a rest =>
          rw [hrel] at hh hd
          simp only [List.head?_cons, Option.some.injEq] at hh
          subst hh
          have : fs.rootWalk cfg.root linkFuel 0 cfg.root (".." :: rest) = .error .other :=
            rootWalk_dotdot_at_root fs cfg.root 4095 rest
          rw [this] at hd
          cases hd

example : setRoot exFS ⟨["w"], ["w"]⟩ "r/sub" = .ok ⟨["w", "r", "sub"], ["w"]⟩ := by
  rw [setRoot_eq, rootOpenDir_eq]
  have h1 : absPath ["w"] "r/sub" = ["w", "r", "sub"] := by
    have : isAbsPath "r/sub" = false := by simp [isAbsPath]
    simp only [absPath, this, splitPath_lit "r/sub" ["r", "sub"] (by decide)]; decide
  rw [h1]
  have h2 : relTo ["w"] ["w", "r", "sub"] = ["r", "sub"] := by decide
  rw [h2]
  have h3 : exFS.rootWalk ["w"] linkFuel 0 ["w"] ["r", "sub"] = .ok ["w", "r", "sub"] := by decide
  simp only [h3]
  rfl

/-! ## the whole evaluation is independent of everything outside the root

  `fs.inside root` is the list of entries at and below `root`; `sameInside root fs₁ fs₂` says the
  two file systems have exactly the same entries there (anything may differ — contents, kinds,
  existence — outside).  `RootPlain fs root`: the root is a clean path and the root and its
  ancestors are plain directories (no symlink on the way to the root); this is what makes the
  unrooted `filepath.EvalSymlinks` of a path inside the root stay inside. -/

/-- The same entries inside the root give the same `lstat` inside the root, so all the
    single-open theorems above (`C18_independent_walk`, `C18_independent_open`,
    `C18_independent`) apply. -/
theorem C18_sameInside_agree (root : Comps) (fs₁ fs₂ : FS) (h : sameInside root fs₁ fs₂) :
    agreeInside root fs₁ fs₂ :=
  c18e_agreeInside_of_sameInside h

/-- non-vacuity: the two sample file systems have the same entries inside /w/r, differ outside
    (a different secret, an extra /etc), and /w, /w/r are plain directories in both -/
example : sameInside ["w", "r"] exFS exFS' ∧ exFS.entries ≠ exFS'.entries ∧
    RootPlain exFS ["w", "r"] ∧ RootPlain exFS' ["w", "r"] :=
  ⟨by decide, by decide, c18e_rootPlain_of_B (by decide), c18e_rootPlain_of_B (by decide)⟩

/-- The rooted probes — `Parser.stat` (`rootExists`, hence the rooted `findFile`), the directory
    listing and `Parser.globFiles` — depend on the inside of the root only. -/
theorem C18_probes_independent (root : Comps) (fs₁ fs₂ : FS) (h : sameInside root fs₁ fs₂) :
    (∀ fuel links cur todo, root <+: cur →
      fs₁.rootProbe root fuel links cur todo = fs₂.rootProbe root fuel links cur todo) ∧
    (∀ rel, fs₁.rootExists root rel = fs₂.rootExists root rel) ∧
    (∀ dir layer, fs₁.findRooted root dir layer = fs₂.findRooted root dir layer) ∧
    (∀ rel, fs₁.rootReadDir root rel = fs₂.rootReadDir root rel) ∧
    (∀ patRev, fs₁.globRev root patRev = fs₂.globRev root patRev) ∧
    (∀ target, fs₁.globFiles root target = fs₂.globFiles root target) :=
  ⟨fun fuel _ cur todo hp => c18e_rootProbe_congr h fuel cur todo hp, c18e_rootExists_congr h,
    c18e_findRooted_congr h, c18e_rootReadDir_congr h, c18e_globRev_congr h,
    c18e_globFiles_congr h⟩

/-- A successful rooted walk from the root is, given `RootPlain` and enough fuel, a successful
    unrooted resolution (`EvalSymlinks`) of the absolute path with the same answer: the two
    recursions differ only in the refusals. -/
theorem C18_walk_simulates_evalSymlinks (fs : FS) (root : Comps) (hp : RootPlain fs root)
    (fuel links : Nat) (rel : List String) (real : Comps)
    (hw : fs.rootWalk root fuel links root rel = .ok real) (fuel' : Nat)
    (hf : fuel + root.length ≤ fuel') :
    fs.resolve fuel' [] (root ++ rel) = some real :=
  c18e_resolve_of_rootWalk_abs hp fuel rel real hw fuel' hf

example : RootPlain exFS ["w", "r"] ∧
    exFS.rootWalk ["w", "r"] 10 0 ["w", "r"] ["sub", "..", "a.yaml"] = .ok ["w", "r", "a.yaml"] ∧
    10 + (["w", "r"] : Comps).length ≤ 12 :=
  ⟨c18e_rootPlain_of_B (by decide), by decide, by decide⟩

/-- `filepath.EvalSymlinks` of a file that `loadFile` has just opened through the root gives the
    same answer in both file systems (whatever its fuel: no budget alignment is needed, both
    resolutions take the same steps because they never leave the root). -/
theorem C18_evalSymlinks_independent (fs₁ fs₂ : FS) (cfg : RootCfg)
    (h : sameInside cfg.root fs₁ fs₂) (hp₁ : RootPlain fs₁ cfg.root) (hp₂ : RootPlain fs₂ cfg.root)
    (path : Comps) (id : String) (raw : List Val) (hl : loadFile fs₁ cfg path id = .ok raw) :
    fs₁.evalSymlinks path = fs₂.evalSymlinks path :=
  c18e_evalSymlinks_loaded h hp₁ hp₂ hl

/-- The parents of a file whose `loadFile` succeeded — by directive (rooted glob), by symlink
    (`EvalSymlinks`) or by file name (rooted stat) — are the same in both file systems, for any
    documents. -/
theorem C18_fileParents_independent (fs₁ fs₂ : FS) (cfg : RootCfg)
    (h : sameInside cfg.root fs₁ fs₂) (hp₁ : RootPlain fs₁ cfg.root) (hp₂ : RootPlain fs₂ cfg.root)
    (path : Comps) (id : String) (raw : List Val) (hl : loadFile fs₁ cfg path id = .ok raw)
    (docs : List Val) :
    fileParents fs₁ cfg path docs = fileParents fs₂ cfg path docs :=
  c18e_fileParents_congr h hp₁ hp₂ hl docs

/-- non-vacuity: /w/r/a.yaml loads beneath the root /w/r -/
example : loadFile exFS ⟨["w", "r"], ["w", "r"]⟩ ["w", "r", "a.yaml"] "x" =
    .ok [.map [("x", .int 1)]] := c18e_exFS_load_a "x"

/-- Loading a file and all its parents (any fuel, any position in a load). -/
theorem C18_load_independent (fs₁ fs₂ : FS) (cfg : RootCfg)
    (h : sameInside cfg.root fs₁ fs₂) (hp₁ : RootPlain fs₁ cfg.root) (hp₂ : RootPlain fs₂ cfg.root)
    (fuel : Nat) (path : Comps) (childId : Option String) (childDocIds : List String)
    (chain : List Comps) :
    loadFileAndParents fs₁ cfg fuel path childId childDocIds chain =
      loadFileAndParents fs₂ cfg fuel path childId childDocIds chain :=
  c18e_load_congr h hp₁ hp₂ fuel path childId childDocIds chain

/-- Evaluating a file with its layers (`MergeFileLayers`) or alone (`MergeFile`, `bkl -P`): the
    resulting parser state and the success status are the same. -/
theorem C18_eval_independent (fs₁ fs₂ : FS) (cfg : RootCfg)
    (h : sameInside cfg.root fs₁ fs₂) (hp₁ : RootPlain fs₁ cfg.root) (hp₂ : RootPlain fs₂ cfg.root)
    (st : PState) (path : Comps) :
    mergeFileLayers fs₁ cfg st path = mergeFileLayers fs₂ cfg st path ∧
    mergeFileAlone fs₁ cfg st path = mergeFileAlone fs₂ cfg st path :=
  ⟨c18e_mergeFileLayers_congr h hp₁ hp₂ st path, c18e_mergeFileAlone_congr h st path⟩

/-- non-vacuity, and the two sample file systems evaluated: same result although the world
    outside /w/r differs -/
example : mergeFileLayers exFS ⟨["w", "r"], ["w", "r"]⟩ PState.empty ["w", "r", "a.yaml"] =
    mergeFileLayers exFS' ⟨["w", "r"], ["w", "r"]⟩ PState.empty ["w", "r", "a.yaml"] :=
  (C18_eval_independent exFS exFS' ⟨["w", "r"], ["w", "r"]⟩ (by decide)
    (c18e_rootPlain_of_B (by decide)) (c18e_rootPlain_of_B (by decide)) _ _).1

/-- `-r` names a clean path whose components and ancestors are plain directories: `SetRoot`
    succeeds with exactly that root (so the hypothesis of `C18_cli_independent` can be met). -/
theorem C18_setRoot_plain (fs : FS) (cwd root : Comps) (r : String) (hp : RootPlain fs root)
    (hlen : root.length + 2 ≤ linkFuel) (habs : absPath cwd r = root) :
    setRoot fs { root := [], cwd := cwd } r = .ok { root := root, cwd := cwd } := by
  have hd : PlainDir fs root := ⟨c18e_noLinksAlong_root hp, hlen⟩
  have hdir : fs.lstat root = some .dir := by
    by_cases hr : root = []
    · subst hr; rfl
    · exact hp.2 root hr (List.prefix_refl _)
  rw [setRoot_eq, rootOpenDir_eq]
  simp only [habs, relTo_nil, rootWalk_plainDir hd, hdir, List.nil_append,
    cleanComps_of_plain root hp.1]

/-- The command line: with the root (if any) set alike in both file systems, the arguments
    resolving alike (`FileMatch` is deliberately unrooted), and the two file systems agreeing
    inside that root, `bkl` produces the same result — same output documents, same format,
    same success or error. -/
theorem C18_cli_independent (fs₁ fs₂ : FS) (cwd : Comps) (env : Vars) (opts : CliOpts)
    (cfg : RootCfg)
    (hcfg : match opts.rootPath with
      | some r => setRoot fs₁ { root := [], cwd := cwd } r = .ok cfg ∧
          setRoot fs₂ { root := [], cwd := cwd } r = .ok cfg
      | none => cfg = { root := [], cwd := cwd })
    (h : sameInside cfg.root fs₁ fs₂) (hp₁ : RootPlain fs₁ cfg.root) (hp₂ : RootPlain fs₂ cfg.root)
    (hm : ∀ inp ∈ opts.inputs, fileMatch fs₁ cwd inp = fileMatch fs₂ cwd inp) :
    cliRun fs₁ cwd env opts = cliRun fs₂ cwd env opts := by
  have hc : cliCfg fs₁ cwd opts = .ok cfg ∧ cliCfg fs₂ cwd opts = .ok cfg := by
    unfold cliCfg
    cases hr : opts.rootPath with
    | none => rw [hr] at hcfg; simp only [] at hcfg ⊢; rw [hcfg]; exact ⟨rfl, rfl⟩
    | some r => rw [hr] at hcfg; exact hcfg
  rw [cliRun_eq, cliRun_eq, hc.1, hc.2]
  simp only []
  rw [c18e_cliMerge_congr cwd opts.skipParent h hp₁ hp₂ opts.inputs _ hm]

/-- non-vacuity: `bkl -r /w/r a.yaml` run in /w/r on the two sample file systems -/
example :
    setRoot exFS { root := [], cwd := ["w", "r"] } "/w/r" = .ok ⟨["w", "r"], ["w", "r"]⟩ ∧
    setRoot exFS' { root := [], cwd := ["w", "r"] } "/w/r" = .ok ⟨["w", "r"], ["w", "r"]⟩ ∧
    (∀ inp ∈ ["a.yaml"], fileMatch exFS ["w", "r"] inp = fileMatch exFS' ["w", "r"] inp) := by
  have habs : absPath ["w", "r"] "/w/r" = ["w", "r"] := by
    have : isAbsPath "/w/r" = true := by simp [isAbsPath]
    simp only [absPath, this, splitPath_lit "/w/r" ["w", "r"] (by decide)]; decide
  have hp : RootPlain exFS ["w", "r"] := c18e_rootPlain_of_B (by decide)
  have hp' : RootPlain exFS' ["w", "r"] := c18e_rootPlain_of_B (by decide)
  refine ⟨C18_setRoot_plain _ _ _ _ hp (by decide) habs, C18_setRoot_plain _ _ _ _ hp' (by decide) habs,
    ?_⟩
  intro inp hi
  have : inp = "a.yaml" := by simpa using hi
  subst this
  have hd : PlainDir exFS ["w", "r"] := ⟨c18e_noLinksAlong_root hp, by decide⟩
  have hd' : PlainDir exFS' ["w", "r"] := ⟨c18e_noLinksAlong_root hp', by decide⟩
  have hl : LayerFile exFS ["w", "r"] "a" "yaml" (.ok [.map [("x", .int 1)]]) :=
    layerFile_of_decide (by decide) (by decide) (fun _ => by decide) (fun _ => by decide)
      (fun _ => by decide) (fun _ => by decide) (fun h => absurd rfl h) (fun _ => by decide)
  have hl' : LayerFile exFS' ["w", "r"] "a" "yaml" (.ok [.map [("x", .int 1)]]) :=
    layerFile_of_decide (by decide) (by decide) (fun _ => by decide) (fun _ => by decide)
      (fun _ => by decide) (fun _ => by decide) (fun h => absurd rfl h) (fun _ => by decide)
  have ha : absPath ["w", "r"] "a.yaml" = ["w", "r"] ++ ["a" ++ "." ++ "yaml"] := by
    rw [absPath_rel (by simp [isAbsPath]) (splitPath_lit "a.yaml" ["a.yaml"] (by decide))]; decide
  rw [fileMatch_layer (e := "yaml") ha (by decide) stem_a hd (by decide) hl,
    fileMatch_layer (e := "yaml") ha (by decide) stem_a hd' (by decide) hl']

/-- In plain words: entries whose paths are not inside the root may be added to the file system
    — appended, or (when none of them is an ancestor of the root or the root itself, which
    could turn an ancestor into a symlink) prepended so that they even shadow existing outside
    entries — without changing the evaluation of any file. -/
theorem C18_outside_existence_irrelevant (fs : FS) (cfg : RootCfg) (extra : List (Comps × FNode))
    (hp : RootPlain fs cfg.root) (hout : ∀ e ∈ extra, ¬ cfg.root <+: e.1)
    (st : PState) (path : Comps) :
    mergeFileLayers { entries := fs.entries ++ extra } cfg st path = mergeFileLayers fs cfg st path ∧
    ((∀ e ∈ extra, ¬ e.1 <+: cfg.root) →
      mergeFileLayers { entries := extra ++ fs.entries } cfg st path =
        mergeFileLayers fs cfg st path) := by
  refine ⟨?_, ?_⟩
  · exact (c18e_mergeFileLayers_congr (c18e_sameInside_append fs cfg.root extra hout) hp
      (c18e_rootPlain_append hp extra) st path).symm
  · intro hanc
    exact (c18e_mergeFileLayers_congr (c18e_sameInside_prepend fs cfg.root extra hout) hp
      (c18e_rootPlain_prepend hp extra hanc) st path).symm

/-- non-vacuity: a new /etc/passwd and a replaced /w/secret.yaml are outside /w/r and are not
    ancestors of it -/
example : RootPlain exFS ["w", "r"] ∧
    (∀ e ∈ [((["etc", "passwd"] : Comps), FNode.file (.ok [])),
            (["w", "secret.yaml"], FNode.link "/etc/passwd")],
      ¬ (["w", "r"] : Comps) <+: e.1 ∧ ¬ e.1 <+: (["w", "r"] : Comps)) := by
  refine ⟨c18e_rootPlain_of_B (by decide), ?_⟩
  intro e he
  simp only [List.mem_cons, List.not_mem_nil, or_false] at he
  rcases he with rfl | rfl <;> decide

end Bkl
