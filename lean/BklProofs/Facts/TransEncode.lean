/-
  Translation equivalence, the `$encode` helpers of process2.go and util.go: the Lean definitions that
  harness/cmd/gotrans writes from /repo's CURRENT source (Generated/Trans/Encode.lean, regenerated on every run)
  compute the model's `toListValue`, `toListMap`, `toListList`, `toStringListPermissive` (Bkl/Encode.lean) and, for
  process2ValuesMap, the values of the map in key order (`kvs.map (·.2)`, the "values" case of `encodeString`).
  None of the functions is recursive (no fuel) and none rebuilds a map, so the theorems hold for EVERY input, with
  no well-formedness hypothesis.
  A change of the Go source that changes its meaning makes these theorems fail to check.
-/
import Generated.Trans.Encode
import BklProofs.Lemmas.GoLibUtil
import BklProofs.Lemmas.Encode
namespace Bkl.Gen.Lib
open Bkl Go

/-- the Go result pair `(list, err)` of a model result: the list and no error, or nil and the error class -/
def resPair {α : Type} : R (List α) → List α × Option Err
  | .ok l => (l, none)
  | .error e => ([], some e)

@[simp] theorem resPair_ok {α : Type} (l : List α) : resPair (.ok l : R (List α)) = (l, none) := rfl
@[simp] theorem resPair_error {α : Type} (e : Err) : resPair (.error e : R (List α)) = ([], some e) := rfl

/-! ## process2ToListValue -/

/-- process2.go:process2ToListValue returns the string that the model's `toListValue` wraps in `Val.str` -/
theorem T_process2ToListValue_eq (k delim : String) (v : Val) :
    process2ToListValue' k delim v = .ok (match toListValue k delim v with | .str s => s | _ => "") := by
  unfold process2ToListValue' toListValue
  by_cases h : (v == Val.str "") = true <;> simp [h]

/-- the model's `toListValue` is always a string -/
theorem toListValue_isStr (k delim : String) (v : Val) :
    Val.str (match toListValue k delim v with | .str s => s | _ => "") = toListValue k delim v := by
  unfold toListValue
  by_cases h : (v == Val.str "") = true <;> simp [h]

/-- the direct form: the translated function, wrapped in `Val.str`, IS the model function -/
theorem T_process2ToListValue_eq_str (k delim : String) (v : Val) :
    (process2ToListValue' k delim v).map Val.str = .ok (toListValue k delim v) := by
  rw [T_process2ToListValue_eq, ← toListValue_isStr k delim v]
  rfl

/-- … in the form used below -/
theorem process2ToListValue_ok (k delim : String) (v : Val) :
    ∃ s, process2ToListValue' k delim v = .ok s ∧ Val.str s = toListValue k delim v :=
  ⟨_, T_process2ToListValue_eq k delim v, toListValue_isStr k delim v⟩

/-! ## process2ToListMap -/

/-- what one map entry contributes to the result of `toListMap` -/
def toListEntry (delim : String) (p : String × Val) : List Val :=
  match p.2 with
  | .list items => items.map (toListValue p.1 delim)
  | v => [toListValue p.1 delim v]

theorem toListMap_map (kvs : Fields) (delim : String) :
    toListMap (.map kvs) delim = .ok (kvs.flatMap (toListEntry delim)) := by
  unfold toListMap
  simp only [pure, Except.pure]
  congr 2
  funext p
  obtain ⟨k, v⟩ := p
  cases v <;> rfl

theorem toListMap_other (obj : Val) (delim : String) (h : (asMap obj).2 = false) :
    toListMap obj delim = .error Err.invalidType := by
  cases obj <;> first | rfl | simp [asMap] at h

theorem foldl_append_map {α β : Type} (f : α → β) (xs : List α) (acc : List β) :
    xs.foldl (fun acc x => acc ++ [f x]) acc = acc ++ xs.map f := by
  induction xs generalizing acc with
  | nil => simp
  | cons x rest ih => rw [List.foldl_cons, ih]; simp

theorem foldl_append_flatMap {α β : Type} (f : α → List β) (xs : List α) (acc : List β) :
    xs.foldl (fun acc x => acc ++ f x) acc = acc ++ xs.flatMap f := by
  induction xs generalizing acc with
  | nil => simp
  | cons x rest ih => rw [List.foldl_cons, ih]; simp

/-- the inner loop of process2ToListMap (over the items of a list value), over an abstract body -/
theorem toListMap_inner_loop (k delim : String) (items : List Val) (acc : List Val)
    (body : Val → List Val → G (Loop (List Val) (List Val × Option Err)))
    (hbody : ∀ x acc, body x acc = .ok (.next (acc ++ [toListValue k delim x]))) :
    forRange items acc body = .ok (.inl (acc ++ items.map (toListValue k delim))) := by
  rw [forRange_fold (fun acc x => acc ++ [toListValue k delim x]) items acc body (fun x _ s => hbody x s),
    foldl_append_map]

/-- the outer loop of process2ToListMap (over the entries of the map), over an abstract body -/
theorem toListMap_outer_loop (delim : String) (kvs : Fields) (acc : List Val)
    (body : String × Val → List Val → G (Loop (List Val) (List Val × Option Err)))
    (hbody : ∀ p acc, body p acc = .ok (.next (acc ++ toListEntry delim p))) :
    forRange kvs acc body = .ok (.inl (acc ++ kvs.flatMap (toListEntry delim))) := by
  rw [forRange_fold (fun acc p => acc ++ toListEntry delim p) kvs acc body (fun p _ s => hbody p s),
    foldl_append_flatMap]

/-- process2.go:process2ToListMap is the model's `toListMap`: the same list, or (nil, the same error class) -/
theorem T_process2ToListMap_eq (obj : Val) (delim : String) :
    process2ToListMap' obj delim = .ok (resPair (toListMap obj delim)) := by
  unfold process2ToListMap'
  by_cases hm : (asMap obj).2 = false
  · simp [hm, toListMap_other obj delim hm]
  · obtain ⟨kvs, rfl⟩ : ∃ kvs, obj = .map kvs := by cases obj <;> simp_all [asMap]
    simp only [asMap, Bool.not_true, Bool.false_eq_true, if_false]
    rw [toListMap_outer_loop delim kvs []]
    · simp [toListMap_map]
    · intro p acc
      obtain ⟨k, v⟩ := p
      have hval : ∀ x, process2ToListValue' k delim x
          = .ok (match toListValue k delim x with | .str s => s | _ => "") := T_process2ToListValue_eq k delim
      cases v with
      | list items =>
        simp only []
        rw [toListMap_inner_loop k delim items acc]
        · rfl
        · intro x acc'
          simp only [hval, toListValue_isStr]
      | _ => simp only [hval, toListValue_isStr, toListEntry]

/-! ## process2ToListList -/

theorem toListList_nil (delim : String) : toListList [] delim = .ok [] := rfl

theorem toListList_cons (x : Val) (xs : List Val) (delim : String) :
    toListList (x :: xs) delim = (match toListMap x delim with
      | .error e => .error e
      | .ok l => match toListList xs delim with
        | .error e => .error e
        | .ok ls => .ok (l ++ ls)) := by
  simp only [toListList, List.mapM_cons, pure, Except.pure, bind, Except.bind]
  cases toListMap x delim with
  | error e => rfl
  | ok l =>
    simp only []
    cases List.mapM (fun x => toListMap x delim) xs <;> simp

/-- the loop of process2ToListList, from any accumulator, over an abstract body -/
theorem toListList_loop (delim : String) (xs : List Val) (acc : List Val)
    (body : Val → List Val → G (Loop (List Val) (List Val × Option Err)))
    (hok : ∀ x l acc, toListMap x delim = .ok l → body x acc = .ok (.next (acc ++ l)))
    (herr : ∀ x e acc, toListMap x delim = .error e → body x acc = .ok (.ret ([], some e))) :
    forRange xs acc body = .ok (match toListList xs delim with
      | .ok ls => .inl (acc ++ ls)
      | .error e => .inr ([], some e)) := by
  induction xs generalizing acc with
  | nil => simp [toListList_nil]
  | cons x rest ih =>
    rw [toListList_cons]
    cases hx : toListMap x delim with
    | error e => rw [forRange_cons_ret (herr x e acc hx)]
    | ok l =>
      rw [forRange_cons_next (hok x l acc hx), ih]
      cases toListList rest delim <;> simp

/-- process2.go:process2ToListList is the model's `toListList`: the same list, or (nil, the same error class) -/
theorem T_process2ToListList_eq (obj : List Val) (delim : String) :
    process2ToListList' obj delim = .ok (resPair (toListList obj delim)) := by
  unfold process2ToListList'
  simp only []
  rw [toListList_loop delim obj []]
  · cases toListList obj delim <;> simp
  · intro x l acc hx
    simp [T_process2ToListMap_eq, hx]
  · intro x e acc hx
    simp [T_process2ToListMap_eq, hx]

/-! ## process2ValuesMap -/

/-- process2.go:process2ValuesMap: the values of the map in key order and no error — the list that the model's
    `encodeString` returns for "values" -/
theorem T_process2ValuesMap_eq (obj : Fields) :
    process2ValuesMap' obj = .ok (obj.map (·.2), none) := by
  unfold process2ValuesMap'
  simp only []
  rw [forRange_fold (fun acc (p : String × Val) => acc ++ [p.2]) obj []]
  · rw [foldl_append_map]; simp
  · intro p _ s; rfl

/-- … tied to the model: "values" applied to a map -/
theorem process2ValuesMap_encodeString (kvs : Fields) :
    encodeString (.map kvs) "values" = .ok (.list (kvs.map (·.2))) ∧
    process2ValuesMap' kvs = .ok (kvs.map (·.2), none) :=
  ⟨by unfold encodeString; rw [parts_values]; simp, T_process2ValuesMap_eq kvs⟩

/-! ## toStringListPermissive -/

/-- util.go:toStringListPermissive is the model's `toStringListPermissive` -/
theorem T_toStringListPermissive_eq (v : Val) :
    toStringListPermissive' v = .ok (resPair (toStringListPermissive v)) := by
  unfold toStringListPermissive'
  cases v with
  | list xs =>
    simp only [asList, Bool.not_true, Bool.false_eq_true, if_false]
    rw [forRange_fold (fun acc (x : Val) => acc ++ [fmtV x]) xs []]
    · rw [foldl_append_map]; simp [toStringListPermissive, pure, Except.pure]
    · intro x _ s; rfl
  | _ => simp [asList, toStringListPermissive, throw, throwThe, MonadExceptOf.throw]

/-! ## concrete instances -/

example : process2ToListMap' (.map [("a", .list [.int 1, .str ""]), ("b", .str "x")]) "="
    = .ok ([.str "a=1", .str "a", .str "b=x"], none) := by
  rw [T_process2ToListMap_eq]; rfl

example : process2ToListList' [.map [("a", .int 1)], .str "no"] "=" = .ok ([], some Err.invalidType) := by
  rw [T_process2ToListList_eq]; rfl

end Bkl.Gen.Lib
