/-
  Translation equivalence, get.go (and match.go:matchDoc): the Lean definitions that harness/cmd/gotrans writes from
  /repo's CURRENT get.go (Generated/Trans/Get.lean, regenerated on every run) compute the model's reference resolution
  (Bkl/Get.lean: `getPath`, `getCrossDoc`, `getPathFromList`, `getPathFromString`, `get`; Bkl/Process2.lean: `getWithVar`).

  * `*Document` is `Go.Doc`; the model's `docs : List Val` are `docs.map (·.data)`, `root = doc.data`; every document of
    the stream is non-nil (`hnil`; needed: `getCrossDoc_nil_doc`).
  * `yaml.Unmarshal` of a reference string is the parameter `yamlUnmarshal`; it is tied to the model's reader `parseRef`
    on the modelled sub-language by `ParseOK`; outside it the model answers `Err.unmodelled`, and the theorems assume
    that the model does not (`parseRef s ≠ none` / `get … ≠ .error Err.unmodelled`; sufficient: `RefsModelled m`,
    `get_ne_unmodelled`; needed: `get_unmodelled_string`).
  * `getRef'` IS the model's `get` (which has getCross inlined and does not clone); Go's `get` deep-clones the result:
    `T_get_eq_norm` for arbitrary documents (`Val.norm`), `T_get_eq` for well-formed ones (needed: `get_unsorted_ne`).
    getWithVar does NOT clone the variable of its fallback.
  * Every error class agrees with the model's (refNotFound, invalidType, missingMatch, multiMatch, noMatchFound,
    variableNotFound); the value beside an error is always `nil` (`valRes`).
  * fuel: `matchDoc'` 3·depth pat + 2, `getCrossDoc'` 3·depth pat + 3, `getPath'` parts.length + 1 (sharp),
    `getPathFromList'` `pathFuel path`, `getPathFromString'` `strFuel s`, `getRef'` `refFuel m`, `getCross'`
    `refFuelFields conf + 1`, `get'` additionally the depth of the documents + 2 (deepClone), `getWithVar'` one more.
-/
import Bkl.Get
import Generated.Trans.Get
import BklProofs.Facts.TransUtil
import BklProofs.Facts.TransMatch
import BklProofs.Lemmas.Interp
namespace Bkl.Gen.Lib
open Bkl Go

/-- the Go result pair of a model result: `(v, nil)` or `(nil, error class)` -/
def valRes : R Val → Val × Option Err
  | .ok v => (v, none)
  | .error e => (.null, some e)

@[simp] theorem valRes_ok (v : Val) : valRes (.ok v) = (v, none) := rfl
@[simp] theorem valRes_error (e : Err) : valRes (.error e) = (.null, some e) := rfl

/-- match.go:matchDoc is the model's `matchV` on the document's data -/
theorem T_matchDoc_eq (doc : Go.Doc) (pat : Val) (fuel : Nat) (h : 3 * Go.depth pat + 2 ≤ fuel) :
    matchDoc' fuel doc pat = .ok (matchV doc.data pat) := by
  obtain ⟨f, rfl⟩ : ∃ f, fuel = f + 1 := ⟨fuel - 1, by omega⟩
  simp [matchDoc', T_match_eq doc.data pat f (by omega)]

/-- the specification of the translated getCrossDoc on documents: the one matching document, or the error class -/
def crossDoc (docs : List Go.Doc) (pat : Val) : Go.Doc × Option Err :=
  match docs.filter (fun d => matchV d.data pat) with
  | [] => (Go.Doc.nil, some Err.noMatchFound)
  | [d] => (d, none)
  | _ => (Go.Doc.nil, some Err.multiMatch)

/-- the loop of getCrossDoc once a document has been found: a second match is ErrMultiMatch -/
theorem getCrossDoc_loop_found (pat : Val) (body : Go.Doc → Go.Doc → G (Loop Go.Doc (Go.Doc × Option Err)))
    (hbody : ∀ d ret, body d ret = .ok (if matchV d.data pat then
        (if !ret.isNil then .ret (Go.Doc.nil, some Err.multiMatch) else .next d) else .next ret))
    (docs : List Go.Doc) (ret : Go.Doc) (hret : ret.isNil = false) :
    forRange docs ret body = .ok (if docs.any (fun d => matchV d.data pat) then .inr (Go.Doc.nil, some Err.multiMatch) else .inl ret) := by
  induction docs with
  | nil => simp
  | cons d ds ih =>
    cases hm : matchV d.data pat with
    | true =>
      rw [forRange_cons_ret (r := (Go.Doc.nil, some Err.multiMatch))]
      · simp [hm]
      · simp [hbody, hm, hret]
    | false =>
      rw [forRange_cons_next (s' := ret)]
      · simp [hm, ih]
      · simp [hbody, hm]

/-- the loop of getCrossDoc from `ret == nil` -/
theorem getCrossDoc_loop (pat : Val) (body : Go.Doc → Go.Doc → G (Loop Go.Doc (Go.Doc × Option Err)))
    (hbody : ∀ d ret, body d ret = .ok (if matchV d.data pat then
        (if !ret.isNil then .ret (Go.Doc.nil, some Err.multiMatch) else .next d) else .next ret))
    (docs : List Go.Doc) (hnil : ∀ d ∈ docs, d.isNil = false) (ret : Go.Doc) (hret : ret.isNil = true) :
    forRange docs ret body = .ok (match docs.filter (fun d => matchV d.data pat) with
      | [] => .inl ret
      | [d] => .inl d
      | _ => .inr (Go.Doc.nil, some Err.multiMatch)) := by
  induction docs with
  | nil => simp
  | cons d ds ih =>
    have ih' := ih (fun x hx => hnil x (List.mem_cons_of_mem _ hx))
    cases hm : matchV d.data pat with
    | true =>
      rw [forRange_cons_next (s' := d)]
      · rw [getCrossDoc_loop_found pat body hbody ds d (hnil d List.mem_cons_self)]
        simp only [List.filter_cons, hm, if_true]
        cases hf : ds.filter (fun d => matchV d.data pat) with
        | nil =>
          have : ds.any (fun d => matchV d.data pat) = false := by
            rw [List.any_eq_false]; intro x hx hp
            have : x ∈ ds.filter (fun d => matchV d.data pat) := List.mem_filter.2 ⟨hx, hp⟩
            rw [hf] at this; cases this
          simp [this]
        | cons y ys =>
          have : ds.any (fun d => matchV d.data pat) = true := by
            have hy : y ∈ ds.filter (fun d => matchV d.data pat) := by rw [hf]; exact List.mem_cons_self
            rw [List.any_eq_true]; exact ⟨y, (List.mem_filter.1 hy).1, (List.mem_filter.1 hy).2⟩
          simp [this]
      · simp [hbody, hm, hret]
    | false =>
      rw [forRange_cons_next (s' := ret)]
      · simp [hm, ih']
      · simp [hbody, hm]

/-- get.go:getCrossDoc returns `crossDoc docs pat`; `crossDoc_cases` relates it to the model's `getCrossDoc` -/
theorem T_getCrossDoc_eq (docs : List Go.Doc) (pat : Val) (hnil : ∀ d ∈ docs, d.isNil = false)
    (fuel : Nat) (h : 3 * Go.depth pat + 3 ≤ fuel) :
    getCrossDoc' fuel docs pat = .ok (crossDoc docs pat) := by
  obtain ⟨f, rfl⟩ : ∃ f, fuel = f + 1 := ⟨fuel - 1, by omega⟩
  unfold getCrossDoc'
  simp only []
  rw [getCrossDoc_loop pat _ _ docs hnil Go.Doc.nil rfl]
  · unfold crossDoc
    have hall : ∀ d ∈ docs.filter (fun d => matchV d.data pat), d.isNil = false :=
      fun d hd => hnil d (List.mem_filter.1 hd).1
    cases hf : docs.filter (fun d => matchV d.data pat) with
    | nil => simp [Go.Doc.nil]
    | cons y ys =>
      rw [hf] at hall
      cases ys <;> simp [hall y List.mem_cons_self]
  · intro d ret
    rw [T_matchDoc_eq d pat f (by omega)]
    cases matchV d.data pat <;> simp
    cases ret.isNil <;> simp


/-- the translated selector against the model's: the same error class, or the document whose data the model returns -/
theorem crossDoc_cases (docs : List Go.Doc) (pat : Val) :
    (∃ d, d ∈ docs ∧ crossDoc docs pat = (d, none) ∧ getCrossDoc (docs.map (·.data)) pat = .ok d.data) ∨
    (∃ e, crossDoc docs pat = (Go.Doc.nil, some e) ∧ getCrossDoc (docs.map (·.data)) pat = .error e) := by
  unfold crossDoc getCrossDoc
  rw [List.filter_map]
  have hcomp : ((fun d => matchV d pat) ∘ fun (x : Go.Doc) => x.data) = fun d => matchV d.data pat := rfl
  rw [hcomp]
  have hall : ∀ d ∈ docs.filter (fun d => matchV d.data pat), d ∈ docs := fun d hd => (List.mem_filter.1 hd).1
  cases hf : docs.filter (fun d => matchV d.data pat) with
  | nil => right; exact ⟨_, rfl, rfl⟩
  | cons y ys =>
    rw [hf] at hall
    cases ys with
    | nil => left; exact ⟨y, hall y List.mem_cons_self, rfl, rfl⟩
    | cons z zs => right; exact ⟨_, rfl, rfl⟩

/-- get.go:getPath is the model's `getPath` (Go recurses on `parts[1:]`: fuel `parts.length + 1`) -/
theorem T_getPath_eq (parts : List String) : ∀ (obj : Val) (fuel : Nat), parts.length + 1 ≤ fuel →
    getPath' fuel obj parts = .ok (valRes (getPath obj parts)) := by
  induction parts with
  | nil =>
    intro obj fuel h
    obtain ⟨f, rfl⟩ : ∃ f, fuel = f + 1 := ⟨fuel - 1, by omega⟩
    simp [getPath', getPath, pure, Except.pure]
  | cons p ps ih =>
    intro obj fuel h
    obtain ⟨f, rfl⟩ : ∃ f, fuel = f + 1 := ⟨fuel - 1, by omega⟩
    simp only [List.length_cons] at h
    have hne : ¬ ((ps.length : Int) + 1 = 0) := by omega
    unfold getPath'
    cases obj with
    | map kvs =>
      cases hg : fget kvs p with
      | none => simp [Go.mapIndex2, Go.strAt, hg, hne, getPath, throw, throwThe, MonadExceptOf.throw]
      | some v =>
        simp [Go.mapIndex2, Go.strAt, hg, hne, getPath, ih v f (by omega)]
    | _ => simp [hne, getPath, throw, throwThe, MonadExceptOf.throw]

theorem toStringList_length {l : List Val} {ss : List String} (h : toStringList l = .ok ss) : ss.length = l.length := by
  induction l generalizing ss with
  | nil => simp [toStringList_nil] at h; simp [← h]
  | cons x xs ih =>
    by_cases hx : ∃ s, x = .str s
    · obtain ⟨s, rfl⟩ := hx
      rw [toStringList_cons_str] at h
      cases hr : toStringList xs with
      | error e => simp [hr] at h
      | ok ts => simp [hr] at h; simp [← h, ih hr]
    · rw [toStringList_cons_other x xs (fun s e => hx ⟨s, e⟩)] at h; cases h



/-- fuel of getPathFromList: the selector pattern at the head (getCrossDoc) and the path (getPath) -/
def pathFuel (path : List Val) : Nat := max (3 * Go.depth (path.headD .null) + 3) (path.length + 1) + 1

/-- the common tail of getPathFromList: `toStringList`, then `getPath` -/
theorem strPath_eq (o : Val) (p : List Val) (f : Nat) (hf : p.length + 1 ≤ f) :
    (match listErr (toStringList p) with
     | (r5, r6) => if (r6 != none) = true then (.ok (Val.null, r6) : G (Val × Option Err)) else
        match getPath' f o r5 with
        | .error e => .error e
        | .ok (a, b) => .ok (a, b)) = .ok (valRes (toStringList p >>= getPath o)) := by
  cases hts : toStringList p with
  | error e => simp [listErr, bind, Except.bind]
  | ok ss =>
    have := toStringList_length hts
    simp [listErr, bind, Except.bind, T_getPath_eq ss o f (by omega)]

/-- get.go:getPathFromList is the model's `getPathFromList` -/
theorem T_getPathFromList_eq (obj : Val) (docs : List Go.Doc) (path : List Val)
    (hnil : ∀ d ∈ docs, d.isNil = false) (fuel : Nat) (h : pathFuel path ≤ fuel) :
    getPathFromList' fuel obj docs path = .ok (valRes (getPathFromList obj (docs.map (·.data)) path)) := by
  obtain ⟨f, rfl⟩ : ∃ f, fuel = f + 1 := ⟨fuel - 1, by unfold pathFuel at h; omega⟩
  unfold pathFuel at h
  unfold getPathFromList'
  simp only [T_toStringList_eq]
  cases path with
  | nil =>
    have := strPath_eq obj [] f (by simp; omega)
    simp [getPathFromList] at this ⊢
    exact this
  | cons x rest =>
    simp only [List.length_cons, List.headD_cons] at h
    have hpos : ((rest.length : Int) + 1 > 0) := by omega
    have hx : (∃ p, x = .map p) ∨ (∃ l, x = .list l) ∨ ((Go.asMap x).2 = false ∧ (Go.asList x).2 = false ∧
        getPathFromList obj (docs.map (·.data)) (x :: rest) = (toStringList (x :: rest) >>= getPath obj)) := by
      cases x <;> simp [Go.asMap, Go.asList, getPathFromList, bind, Except.bind]
    rcases hx with ⟨p, rfl⟩ | ⟨l, rfl⟩ | ⟨h1, h2, h3⟩
    · have hc := T_getCrossDoc_eq docs (.map p) hnil f (by omega)
      rcases crossDoc_cases docs (.map p) with ⟨d, hd, hcd, hm⟩ | ⟨e, hcd, hm⟩
      · have := strPath_eq d.data rest f (by omega)
        simp [Go.asMap, Go.listAt, hc, hcd, getPathFromList, hm, bind, Except.bind] at this ⊢
        exact this
      · simp [Go.asMap, Go.listAt, hc, hcd, getPathFromList, hm, bind, Except.bind]
    · have hc := T_getCrossDoc_eq docs (.list l) hnil f (by omega)
      rcases crossDoc_cases docs (.list l) with ⟨d, hd, hcd, hm⟩ | ⟨e, hcd, hm⟩
      · have := strPath_eq d.data rest f (by omega)
        simp [Go.asMap, Go.asList, Go.listAt, hc, hcd, getPathFromList, hm, bind, Except.bind] at this ⊢
        exact this
      · simp [Go.asMap, Go.asList, Go.listAt, hc, hcd, getPathFromList, hm, bind, Except.bind]
    · have := strPath_eq obj (x :: rest) f (by simp; omega)
      simp [Go.listAt, h1, h2, h3] at this ⊢
      exact this


/-! ## the reference reader -/

def ParseOK (yamlUnmarshal : String → Val × Option Err) : Prop :=
  ∀ s r, parseRef s = some r → yamlUnmarshal s = (r, none)

theorem parseRef_shape {s : String} {r : Val} (h : parseRef s = some r) :
    r = .str s ∨ ∃ items : List String, r = .list (items.map .str) := by
  unfold parseRef at h
  split at h
  · left; simpa using h.symm
  · split at h
    · right; exact ⟨_, by simpa using h.symm⟩
    · cases h

/-- fuel of getPathFromString -/
def strFuel (s : String) : Nat :=
  (match parseRef s with
   | some (.list l) => pathFuel l
   | _ => (s.splitOn ".").length + 1) + 1

/-- get.go:getPathFromString is the model's `getPathFromString` on the strings the model reads -/
theorem T_getPathFromString_eq (yamlUnmarshal : String → Val × Option Err) (hyu : ParseOK yamlUnmarshal)
    (obj : Val) (docs : List Go.Doc) (s : String) (hnil : ∀ d ∈ docs, d.isNil = false)
    (hs : parseRef s ≠ none) (fuel : Nat) (h : strFuel s ≤ fuel) :
    getPathFromString' yamlUnmarshal fuel obj docs s =
      .ok (valRes (getPathFromString obj (docs.map (·.data)) s)) := by
  obtain ⟨f, rfl⟩ : ∃ f, fuel = f + 1 := ⟨fuel - 1, by unfold strFuel at h; omega⟩
  unfold strFuel at h
  cases hp : parseRef s with
  | none => exact absurd hp hs
  | some r =>
    rw [hp] at h
    unfold getPathFromString' getPathFromString
    rcases parseRef_shape hp with rfl | ⟨items, rfl⟩
    · simp only [] at h
      simp [hyu s _ hp, hp, T_getPath_eq (s.splitOn ".") obj f (by omega)]
    · simp only [] at h
      simp [hyu s _ hp, hp, T_getPathFromList_eq obj docs (items.map .str) hnil f (by omega)]


/-! ## getRef / getCross -/

mutual
/-- fuel that `getRef'` needs on the reference `m` -/
def refFuel : Val → Nat
  | .str s => strFuel s + 1
  | .list l => pathFuel l + 1
  | .map kvs => refFuelFields kvs + 2
  | _ => 1
/-- fuel that `getCross'` needs below its own level: the `$match` pattern and the `$path` reference -/
def refFuelFields : Fields → Nat
  | [] => 0
  | (k, v) :: rest =>
    max (if k = "$path" then refFuel v else if k = "$match" then 3 * Go.depth v + 3 else 0) (refFuelFields rest)
end

theorem refFuelFields_path {conf : Fields} {p : Val} (h : fget conf "$path" = some p) :
    refFuel p ≤ refFuelFields conf := by
  induction conf with
  | nil => simp [fget] at h
  | cons kv rest ih =>
    obtain ⟨k, v⟩ := kv
    simp only [refFuelFields]
    by_cases hk : k = "$path"
    · subst hk; simp [fget] at h; subst h; simp; omega
    · have : fget rest "$path" = some p := by simpa [fget, hk] using h
      have := ih this; omega

theorem refFuelFields_match {conf : Fields} {p : Val} (h : fget conf "$match" = some p) :
    3 * Go.depth p + 3 ≤ refFuelFields conf := by
  induction conf with
  | nil => simp [fget] at h
  | cons kv rest ih =>
    obtain ⟨k, v⟩ := kv
    simp only [refFuelFields]
    by_cases hk : k = "$match"
    · subst hk; simp [fget] at h; subst h; simp; omega
    · have : fget rest "$match" = some p := by simpa [fget, hk] using h
      have := ih this; omega

/-- the model's `get` on a map, without the monad -/
theorem get_map_eq (root : Val) (docs : List Val) (conf : Fields) :
    get root docs (.map conf) =
      (match fget conf "$match" with
       | none => .error Err.missingMatch
       | some pat =>
         match getCrossDoc docs pat with
         | .error e => .error e
         | .ok d =>
           match fget conf "$path" with
           | some path => get d docs path
           | none => .ok d) := by
  rw [get.eq_3]
  cases fget conf "$match" with
  | none => rfl
  | some pat =>
    simp only [bind, Except.bind]
    cases getCrossDoc docs pat with
    | error e => rfl
    | ok d =>
      simp only []
      split <;> simp_all [pure, Except.pure]


theorem getRef_nonmap (yamlUnmarshal : String → Val × Option Err) (hyu : ParseOK yamlUnmarshal)
    (docs : List Go.Doc) (hnil : ∀ d ∈ docs, d.isNil = false) (m : Val) (hm : ∀ conf, m ≠ .map conf)
    (doc : Go.Doc) (fuel : Nat) (hf : refFuel m ≤ fuel)
    (hmod : get doc.data (docs.map (·.data)) m ≠ .error Err.unmodelled) :
    getRef' yamlUnmarshal fuel doc docs m = .ok (valRes (get doc.data (docs.map (·.data)) m)) := by
  obtain ⟨f, rfl⟩ : ∃ f, fuel = f + 1 := ⟨fuel - 1, by cases m <;> simp [refFuel] at hf <;> omega⟩
  cases m with
  | map kvs => exact absurd rfl (hm kvs)
  | list l =>
    simp only [refFuel] at hf
    simp [getRef', get, T_getPathFromList_eq doc.data docs l hnil f (by omega)]
  | str s =>
    simp only [refFuel] at hf
    have hs : parseRef s ≠ none := by
      intro hp; apply hmod; simp [get, getPathFromString, hp, throw, throwThe, MonadExceptOf.throw]
    simp [getRef', get, T_getPathFromString_eq yamlUnmarshal hyu doc.data docs s hnil hs f (by omega)]
  | null => simp [getRef', get, throw, throwThe, MonadExceptOf.throw]
  | bool b => simp [getRef', get, throw, throwThe, MonadExceptOf.throw]
  | int i => simp [getRef', get, throw, throwThe, MonadExceptOf.throw]
  | flt r => simp [getRef', get, throw, throwThe, MonadExceptOf.throw]

/-- one level of the mutual recursion getRef → getCross → getRef -/
theorem getCross_step (yamlUnmarshal : String → Val × Option Err)
    (docs : List Go.Doc) (hnil : ∀ d ∈ docs, d.isNil = false) (conf : Fields) (root : Val) (f : Nat)
    (hf : refFuelFields conf ≤ f)
    (hrec : ∀ (d : Go.Doc) (path : Val), fget conf "$path" = some path →
      get d.data (docs.map (·.data)) path ≠ .error Err.unmodelled →
      getRef' yamlUnmarshal f d docs path = .ok (valRes (get d.data (docs.map (·.data)) path)))
    (hmod : get root (docs.map (·.data)) (.map conf) ≠ .error Err.unmodelled) :
    getCross' yamlUnmarshal (f + 1) docs conf = .ok (valRes (get root (docs.map (·.data)) (.map conf))) := by
  unfold getCross'
  rw [get_map_eq] at hmod ⊢
  simp only [popMapValue_eq_match]
  cases hmatch : fget conf "$match" with
  | none => simp
  | some pat =>
    have hc := T_getCrossDoc_eq docs pat hnil f (by have := refFuelFields_match hmatch; omega)
    simp only [hmatch] at hmod
    rcases crossDoc_cases docs pat with ⟨d, hd, hcd, hm⟩ | ⟨e, hcd, hm⟩
    · simp only [hm] at hmod
      cases hpath : fget conf "$path" with
      | none => simp [hc, hcd, hm]
      | some path =>
        simp only [hpath] at hmod
        simp [hc, hcd, hm, hrec d path hpath hmod]
    · simp [hc, hcd, hm]

theorem getRef_eq_aux (yamlUnmarshal : String → Val × Option Err) (hyu : ParseOK yamlUnmarshal)
    (docs : List Go.Doc) (hnil : ∀ d ∈ docs, d.isNil = false) :
    ∀ (n : Nat) (m : Val), Go.depth m ≤ n → ∀ (doc : Go.Doc) (fuel : Nat), refFuel m ≤ fuel →
      get doc.data (docs.map (·.data)) m ≠ .error Err.unmodelled →
      getRef' yamlUnmarshal fuel doc docs m = .ok (valRes (get doc.data (docs.map (·.data)) m)) := by
  intro n
  induction n with
  | zero =>
    intro m hd doc fuel hf hmod
    refine getRef_nonmap yamlUnmarshal hyu docs hnil m ?_ doc fuel hf hmod
    intro conf hc; subst hc; simp [Go.depth] at hd
  | succ k ih =>
    intro m hd doc fuel hf hmod
    by_cases hm : ∃ conf, m = .map conf
    · obtain ⟨conf, rfl⟩ := hm
      simp only [refFuel] at hf
      obtain ⟨f, rfl⟩ : ∃ f, fuel = f + 2 := ⟨fuel - 2, by omega⟩
      have hstep := getCross_step yamlUnmarshal docs hnil conf doc.data f (by omega)
        (fun d path hpath hmod' => ih path (by
            have := Go.depth_le_of_mem_fields (fget_mem hpath); simp only [Go.depth] at hd; omega) d f
          (by have := refFuelFields_path hpath; omega) hmod') hmod
      unfold getRef'
      simp [hstep]
    · exact getRef_nonmap yamlUnmarshal hyu docs hnil m (fun conf hc => hm ⟨conf, hc⟩) doc fuel hf hmod

/-- get.go:getRef is the model's `get` (no clone), whenever the model does not answer `unmodelled` -/
theorem T_getRef_eq (yamlUnmarshal : String → Val × Option Err) (hyu : ParseOK yamlUnmarshal)
    (doc : Go.Doc) (docs : List Go.Doc) (m : Val) (hnil : ∀ d ∈ docs, d.isNil = false)
    (hmod : get doc.data (docs.map (·.data)) m ≠ .error Err.unmodelled)
    (fuel : Nat) (h : refFuel m ≤ fuel) :
    getRef' yamlUnmarshal fuel doc docs m = .ok (valRes (get doc.data (docs.map (·.data)) m)) :=
  getRef_eq_aux yamlUnmarshal hyu docs hnil (Go.depth m) m (Nat.le_refl _) doc fuel h hmod

/-- get.go:getCross is the model's `get` on a map reference (the model inlines it; `root` is not used) -/
theorem T_getCross_eq (yamlUnmarshal : String → Val × Option Err) (hyu : ParseOK yamlUnmarshal)
    (root : Val) (docs : List Go.Doc) (conf : Fields) (hnil : ∀ d ∈ docs, d.isNil = false)
    (hmod : get root (docs.map (·.data)) (.map conf) ≠ .error Err.unmodelled)
    (fuel : Nat) (h : refFuelFields conf + 1 ≤ fuel) :
    getCross' yamlUnmarshal fuel docs conf = .ok (valRes (get root (docs.map (·.data)) (.map conf))) := by
  obtain ⟨f, rfl⟩ : ∃ f, fuel = f + 1 := ⟨fuel - 1, by omega⟩
  exact getCross_step yamlUnmarshal docs hnil conf root f (by omega)
    (fun d path hpath hmod' => T_getRef_eq yamlUnmarshal hyu d docs path hnil hmod' f
      (by have := refFuelFields_path hpath; omega)) hmod


/-! ## what `get` returns is a part of the referencing document or of a document of the stream -/

theorem getPath_closed (P : Val → Prop) (hP : ∀ kvs k v, P (.map kvs) → fget kvs k = some v → P v) :
    ∀ (parts : List String) (obj v : Val), P obj → getPath obj parts = .ok v → P v := by
  intro parts
  induction parts with
  | nil => intro obj v ho h; simp [getPath, pure, Except.pure] at h; exact h ▸ ho
  | cons p ps ih =>
    intro obj v ho h
    cases obj with
    | map kvs =>
      cases hg : fget kvs p with
      | none => simp [getPath, hg, throw, throwThe, MonadExceptOf.throw] at h
      | some w =>
        simp only [getPath, hg] at h
        exact ih w v (hP kvs p w ho hg) h
    | _ => simp [getPath, throw, throwThe, MonadExceptOf.throw] at h

theorem getCrossDoc_mem {docs : List Val} {pat d : Val} (h : getCrossDoc docs pat = .ok d) : d ∈ docs := by
  unfold getCrossDoc at h
  split at h
  · cases h
  · rename_i d' hf
    simp only [pure, Except.pure, Except.ok.injEq] at h
    subst h
    have : d' ∈ docs.filter (fun d => matchV d pat) := by rw [hf]; exact List.mem_cons_self
    exact (List.mem_filter.1 this).1
  · cases h

theorem strPath_closed (P : Val → Prop) (hP : ∀ kvs k v, P (.map kvs) → fget kvs k = some v → P v)
    (obj : Val) (path : List Val) (v : Val) (ho : P obj) (h : (toStringList path >>= getPath obj) = .ok v) : P v := by
  cases hts : toStringList path with
  | error e => simp [hts, bind, Except.bind] at h
  | ok ss =>
    simp only [hts, bind, Except.bind] at h
    exact getPath_closed P hP ss obj v ho h

theorem cross_strPath_closed (P : Val → Prop) (hP : ∀ kvs k v, P (.map kvs) → fget kvs k = some v → P v)
    (docs : List Val) (hd : ∀ d ∈ docs, P d) (pat : Val) (path : List Val) (v : Val)
    (h : (getCrossDoc docs pat >>= fun d => toStringList path >>= getPath d) = .ok v) : P v := by
  cases hc : getCrossDoc docs pat with
  | error e => simp [hc, bind, Except.bind] at h
  | ok d =>
    simp only [hc, bind, Except.bind] at h
    exact strPath_closed P hP d path v (hd d (getCrossDoc_mem hc)) h

theorem getPathFromList_closed (P : Val → Prop) (hP : ∀ kvs k v, P (.map kvs) → fget kvs k = some v → P v)
    (obj : Val) (docs : List Val) (path : List Val) (v : Val) (ho : P obj) (hd : ∀ d ∈ docs, P d)
    (h : getPathFromList obj docs path = .ok v) : P v := by
  unfold getPathFromList at h
  split at h
  · exact cross_strPath_closed P hP docs hd _ _ v h
  · exact cross_strPath_closed P hP docs hd _ _ v h
  · exact strPath_closed P hP obj path v ho h

theorem getPathFromString_closed (P : Val → Prop) (hP : ∀ kvs k v, P (.map kvs) → fget kvs k = some v → P v)
    (obj : Val) (docs : List Val) (s : String) (v : Val) (ho : P obj) (hd : ∀ d ∈ docs, P d)
    (h : getPathFromString obj docs s = .ok v) : P v := by
  unfold getPathFromString at h
  split at h
  · exact getPath_closed P hP _ obj v ho h
  · exact getPathFromList_closed P hP obj docs _ v ho hd h
  · cases h

theorem get_closed (P : Val → Prop) (hP : ∀ kvs k v, P (.map kvs) → fget kvs k = some v → P v)
    (docs : List Val) (hd : ∀ d ∈ docs, P d) (root m : Val) :
    ∀ v, P root → get root docs m = .ok v → P v := by
  induction root, m using get.induct with
  | case1 root s => intro v ho h; rw [get] at h; exact getPathFromString_closed P hP root docs s v ho hd h
  | case2 root l => intro v ho h; rw [get] at h; exact getPathFromList_closed P hP root docs l v ho hd h
  | case3 root conf hm => intro v ho h; rw [get_map_eq, hm] at h; cases h
  | case4 root conf pat hm ih =>
    intro v ho h
    rw [get_map_eq] at h
    simp only [hm] at h
    cases hc : getCrossDoc docs pat with
    | error e => simp [hc] at h
    | ok d =>
      simp only [hc] at h
      have hdP := hd d (getCrossDoc_mem hc)
      cases hp : fget conf "$path" with
      | none => simp [hp] at h; exact h ▸ hdP
      | some path => simp only [hp] at h; exact ih d path hp v hdP h
  | case5 root m h1 h2 h3 =>
    intro v ho h
    cases m with
    | str s => exact absurd rfl (h1 s)
    | list l => exact absurd rfl (h2 l)
    | map c => exact absurd rfl (h3 c)
    | _ => simp [get, throw, throwThe, MonadExceptOf.throw] at h


/-! ## get, getWithVar -/

theorem get_wf (root : Val) (docs : List Val) (m v : Val) (hroot : Val.WF root) (hdocs : ∀ d ∈ docs, Val.WF d)
    (h : get root docs m = .ok v) : Val.WF v :=
  get_closed Val.WF (fun _ _ _ hm hg => wf_of_fget hm hg) docs hdocs root m v hroot h

theorem get_depth (root : Val) (docs : List Val) (m v : Val) (h : get root docs m = .ok v) :
    Go.depth v ≤ Go.depthList (root :: docs) := by
  refine get_closed (fun v => Go.depth v ≤ Go.depthList (root :: docs)) ?_ docs ?_ root m v ?_ h
  · intro kvs k v hm hg
    have := Go.depth_le_of_mem_fields (fget_mem hg)
    simp only [Go.depth] at hm; omega
  · intro d hd; exact Go.depth_le_of_mem_list (List.mem_cons_of_mem _ hd)
  · exact Go.depth_le_of_mem_list List.mem_cons_self

/-- the Go result of `get`: the model's value rebuilt by `deepClone` (`Val.norm`), or the model's error class -/
def normRes : R Val → Val × Option Err
  | .ok v => (Val.norm v, none)
  | .error e => (.null, some e)

/-- get.go:get for arbitrary documents: the model's result rebuilt by deepClone (`Val.norm`) -/
theorem T_get_eq_norm (yamlUnmarshal : String → Val × Option Err) (hyu : ParseOK yamlUnmarshal)
    (doc : Go.Doc) (docs : List Go.Doc) (m : Val) (hnil : ∀ d ∈ docs, d.isNil = false)
    (hmod : get doc.data (docs.map (·.data)) m ≠ .error Err.unmodelled)
    (fuel : Nat) (h : refFuel m + 1 ≤ fuel) (hdepth : Go.depthList (doc.data :: docs.map (·.data)) + 2 ≤ fuel) :
    get' yamlUnmarshal fuel doc docs m = .ok (normRes (get doc.data (docs.map (·.data)) m)) := by
  obtain ⟨f, rfl⟩ : ∃ f, fuel = f + 1 := ⟨fuel - 1, by omega⟩
  unfold get'
  simp only []
  rw [T_getRef_eq yamlUnmarshal hyu doc docs m hnil hmod f (by omega)]
  cases hg : get doc.data (docs.map (·.data)) m with
  | error e => simp [normRes]
  | ok v =>
    have := get_depth _ _ _ _ hg
    simp [normRes, T_deepClone_eq_norm v f (by omega)]

/-- get.go:get is the model's `get` on well-formed documents -/
theorem T_get_eq (yamlUnmarshal : String → Val × Option Err) (hyu : ParseOK yamlUnmarshal)
    (doc : Go.Doc) (docs : List Go.Doc) (m : Val) (hnil : ∀ d ∈ docs, d.isNil = false)
    (hwf : Val.WF doc.data) (hwfs : ∀ d ∈ docs, Val.WF d.data)
    (hmod : get doc.data (docs.map (·.data)) m ≠ .error Err.unmodelled)
    (fuel : Nat) (h : refFuel m + 1 ≤ fuel) (hdepth : Go.depthList (doc.data :: docs.map (·.data)) + 2 ≤ fuel) :
    get' yamlUnmarshal fuel doc docs m = .ok (valRes (get doc.data (docs.map (·.data)) m)) := by
  rw [T_get_eq_norm yamlUnmarshal hyu doc docs m hnil hmod fuel h hdepth]
  cases hg : get doc.data (docs.map (·.data)) m with
  | error e => rfl
  | ok v =>
    have : Val.WF v := get_wf _ _ _ _ hwf (by
      intro d hd; obtain ⟨d', hd', rfl⟩ := List.mem_map.1 hd; exact hwfs d' hd') hg
    simp [normRes, gu_norm_of_wf v this]

/-- evalcontext.go:EvalContext.GetVar is the model's `getVar` -/
theorem EvalContext_GetVar_eq (ec : Go.Ctx) (name : String) :
    EvalContext_GetVar' ec name = .ok (valRes (getVar ec.vars name)) := by
  unfold EvalContext_GetVar' getVar Go.mapIndex2
  cases fget ec.vars name <;> rfl


/-! ## the model answers `unmodelled` only for a reference string outside the modelled sub-language -/

theorem getPath_ne_unmodelled : ∀ (parts : List String) (obj : Val), getPath obj parts ≠ .error Err.unmodelled := by
  intro parts
  induction parts with
  | nil => intro obj h; simp [getPath, pure, Except.pure] at h
  | cons p ps ih =>
    intro obj h
    cases obj with
    | map kvs =>
      cases hg : fget kvs p with
      | none => simp [getPath, hg, throw, throwThe, MonadExceptOf.throw] at h
      | some w => simp only [getPath, hg] at h; exact ih w h
    | _ => simp [getPath, throw, throwThe, MonadExceptOf.throw] at h

theorem toStringList_ne_unmodelled (l : List Val) : toStringList l ≠ .error Err.unmodelled := by
  induction l with
  | nil => simp [toStringList_nil]
  | cons x xs ih =>
    by_cases hx : ∃ s, x = .str s
    · obtain ⟨s, rfl⟩ := hx
      rw [toStringList_cons_str]
      cases hr : toStringList xs with
      | error e => intro h; simp at h; exact ih (by rw [hr, h])
      | ok ts => simp
    · rw [toStringList_cons_other x xs (fun s e => hx ⟨s, e⟩)]; simp

theorem getCrossDoc_ne_unmodelled (docs : List Val) (pat : Val) : getCrossDoc docs pat ≠ .error Err.unmodelled := by
  unfold getCrossDoc
  split <;> simp [throw, throwThe, MonadExceptOf.throw, pure, Except.pure]

theorem strPath_ne_unmodelled (obj : Val) (path : List Val) :
    (toStringList path >>= getPath obj) ≠ .error Err.unmodelled := by
  cases hts : toStringList path with
  | error e => intro h; simp [bind, Except.bind] at h; exact toStringList_ne_unmodelled path (by rw [hts, h])
  | ok ss => simp only [bind, Except.bind]; exact getPath_ne_unmodelled ss obj

theorem cross_strPath_ne_unmodelled (docs : List Val) (pat : Val) (path : List Val) :
    (getCrossDoc docs pat >>= fun d => toStringList path >>= getPath d) ≠ .error Err.unmodelled := by
  cases hc : getCrossDoc docs pat with
  | error e => intro h; simp [bind, Except.bind] at h; exact getCrossDoc_ne_unmodelled docs pat (by rw [hc, h])
  | ok d => simp only [bind, Except.bind]; exact strPath_ne_unmodelled d path

theorem getPathFromList_ne_unmodelled (obj : Val) (docs : List Val) (path : List Val) :
    getPathFromList obj docs path ≠ .error Err.unmodelled := by
  unfold getPathFromList
  split
  · exact cross_strPath_ne_unmodelled docs _ _
  · exact cross_strPath_ne_unmodelled docs _ _
  · exact strPath_ne_unmodelled obj path

theorem getPathFromString_unmodelled_iff (obj : Val) (docs : List Val) (s : String) :
    getPathFromString obj docs s = .error Err.unmodelled ↔ parseRef s = none := by
  constructor
  · intro h
    cases hp : parseRef s with
    | none => rfl
    | some r =>
      exfalso
      unfold getPathFromString at h
      rcases parseRef_shape hp with rfl | ⟨items, rfl⟩
      · simp only [hp] at h; exact getPath_ne_unmodelled _ _ h
      · simp only [hp] at h; exact getPathFromList_ne_unmodelled _ _ _ h
  · intro hp; simp [getPathFromString, hp, throw, throwThe, MonadExceptOf.throw]

mutual
/-- every reference string that `get` can reach in `m` (the string itself, or down the `$path` chain of a
    cross-document reference) is in the sub-language the model reads -/
def refsModelledB : Val → Bool
  | .str s => (parseRef s).isSome
  | .map kvs => refsModelledFieldsB kvs
  | _ => true
def refsModelledFieldsB : Fields → Bool
  | [] => true
  | (k, v) :: rest => (k != "$path" || refsModelledB v) && refsModelledFieldsB rest
end

def RefsModelled (m : Val) : Prop := refsModelledB m = true

theorem refsModelledFields_path {conf : Fields} {p : Val} (hc : refsModelledFieldsB conf = true)
    (h : fget conf "$path" = some p) : refsModelledB p = true := by
  induction conf with
  | nil => simp [fget] at h
  | cons kv rest ih =>
    obtain ⟨k, v⟩ := kv
    simp only [refsModelledFieldsB, Bool.and_eq_true, Bool.or_eq_true] at hc
    by_cases hk : k = "$path"
    · subst hk; simp [fget] at h; subst h; simpa using hc.1
    · exact ih hc.2 (by simpa [fget, hk] using h)

theorem get_ne_unmodelled (docs : List Val) (root m : Val) :
    RefsModelled m → get root docs m ≠ .error Err.unmodelled := by
  unfold RefsModelled
  induction root, m using get.induct with
  | case1 root s =>
    intro hm h; rw [get, getPathFromString_unmodelled_iff] at h
    simp [refsModelledB, h] at hm
  | case2 root l => intro _ h; rw [get] at h; exact getPathFromList_ne_unmodelled _ _ _ h
  | case3 root conf hm => intro _ h; rw [get_map_eq, hm] at h; cases h
  | case4 root conf pat hm ih =>
    intro hmod h
    rw [get_map_eq] at h
    simp only [hm] at h
    cases hc : getCrossDoc docs pat with
    | error e => simp only [hc] at h; exact getCrossDoc_ne_unmodelled docs pat (by rw [hc, h])
    | ok d =>
      simp only [hc] at h
      cases hp : fget conf "$path" with
      | none => simp [hp] at h
      | some path =>
        simp only [hp] at h
        exact ih d path hp (refsModelledFields_path (by simpa [refsModelledB] using hmod) hp) h
  | case5 root m h1 h2 h3 =>
    intro _ h
    cases m with
    | str s => exact absurd rfl (h1 s)
    | list l => exact absurd rfl (h2 l)
    | map c => exact absurd rfl (h3 c)
    | _ => simp [get, throw, throwThe, MonadExceptOf.throw] at h


/-! ## getWithVar -/

/-- the error branch of getWithVar: a string reference falls back to the variable, anything else keeps the error -/
def varFallback (ec : Go.Ctx) (m : Val) (e : Option Err) : Val × Option Err :=
  match m with
  | .str s => valRes (getVar ec.vars s)
  | _ => (.null, e)

/-- getWithVar in terms of the result of `get'` -/
theorem getWithVar_of_get (yamlUnmarshal : String → Val × Option Err) (doc : Go.Doc) (docs : List Go.Doc)
    (ec : Go.Ctx) (m : Val) (f : Nat) (r : Val × Option Err) (h : get' yamlUnmarshal f doc docs m = .ok r) :
    getWithVar' yamlUnmarshal (f + 1) doc docs ec m =
      .ok (if r.2 = none then (r.1, none) else varFallback ec m r.2) := by
  unfold getWithVar'
  simp only [h]
  obtain ⟨v, e⟩ := r
  cases e with
  | none => simp
  | some e => cases m <;> simp [EvalContext_GetVar_eq, varFallback]

/-- get.go:getWithVar on a string reference, for arbitrary documents: the found value is rebuilt by `deepClone`
    (`Val.norm`); the variable of the fallback is returned as it is -/
theorem T_getWithVar_eq_norm (yamlUnmarshal : String → Val × Option Err) (hyu : ParseOK yamlUnmarshal)
    (doc : Go.Doc) (docs : List Go.Doc) (ec : Go.Ctx) (s : String) (hnil : ∀ d ∈ docs, d.isNil = false)
    (hs : parseRef s ≠ none)
    (fuel : Nat) (h : refFuel (.str s) + 2 ≤ fuel) (hdepth : Go.depthList (doc.data :: docs.map (·.data)) + 3 ≤ fuel) :
    getWithVar' yamlUnmarshal fuel doc docs ec (.str s) =
      .ok (match get doc.data (docs.map (·.data)) (.str s) with
           | .ok v => (Val.norm v, none)
           | .error _ => valRes (getVar ec.vars s)) := by
  obtain ⟨f, rfl⟩ : ∃ f, fuel = f + 1 := ⟨fuel - 1, by omega⟩
  have hmod : get doc.data (docs.map (·.data)) (.str s) ≠ .error Err.unmodelled :=
    get_ne_unmodelled _ _ _ (by simpa [RefsModelled, refsModelledB, Option.isSome_iff_ne_none] using hs)
  rw [getWithVar_of_get _ _ _ _ _ _ _ (T_get_eq_norm yamlUnmarshal hyu doc docs (.str s) hnil hmod f (by omega) (by omega))]
  cases hg : get doc.data (docs.map (·.data)) (.str s) with
  | ok v => simp [normRes]
  | error e => simp [normRes, varFallback]

/-- get.go:getWithVar on a string reference is the model's `getWithVar` (documents well-formed) -/
theorem T_getWithVar_eq (yamlUnmarshal : String → Val × Option Err) (hyu : ParseOK yamlUnmarshal)
    (doc : Go.Doc) (docs : List Go.Doc) (ec : Go.Ctx) (s : String) (hnil : ∀ d ∈ docs, d.isNil = false)
    (hwf : Val.WF doc.data) (hwfs : ∀ d ∈ docs, Val.WF d.data)
    (hs : parseRef s ≠ none)
    (fuel : Nat) (h : refFuel (.str s) + 2 ≤ fuel) (hdepth : Go.depthList (doc.data :: docs.map (·.data)) + 3 ≤ fuel) :
    getWithVar' yamlUnmarshal fuel doc docs ec (.str s) =
      .ok (valRes (getWithVar doc.data (docs.map (·.data)) ec.vars s)) := by
  rw [T_getWithVar_eq_norm yamlUnmarshal hyu doc docs ec s hnil hs fuel h hdepth]
  have hmod : get doc.data (docs.map (·.data)) (.str s) ≠ .error Err.unmodelled :=
    get_ne_unmodelled _ _ _ (by simpa [RefsModelled, refsModelledB, Option.isSome_iff_ne_none] using hs)
  unfold getWithVar
  cases hg : get doc.data (docs.map (·.data)) (.str s) with
  | ok v =>
    have : Val.WF v := get_wf _ _ _ _ hwf (by
      intro d hd; obtain ⟨d', hd', rfl⟩ := List.mem_map.1 hd; exact hwfs d' hd') hg
    simp [gu_norm_of_wf v this, pure, Except.pure]
  | error e =>
    cases e <;> first | exact absurd hg hmod | rfl

/-- get.go:getWithVar on a reference that is not a string: no fallback, the result of `get` -/
theorem T_getWithVar_nonstr_eq (yamlUnmarshal : String → Val × Option Err) (hyu : ParseOK yamlUnmarshal)
    (doc : Go.Doc) (docs : List Go.Doc) (ec : Go.Ctx) (m : Val) (hm : ∀ s, m ≠ .str s)
    (hnil : ∀ d ∈ docs, d.isNil = false)
    (hmod : get doc.data (docs.map (·.data)) m ≠ .error Err.unmodelled)
    (fuel : Nat) (h : refFuel m + 2 ≤ fuel) (hdepth : Go.depthList (doc.data :: docs.map (·.data)) + 3 ≤ fuel) :
    getWithVar' yamlUnmarshal fuel doc docs ec m = .ok (normRes (get doc.data (docs.map (·.data)) m)) := by
  obtain ⟨f, rfl⟩ : ∃ f, fuel = f + 1 := ⟨fuel - 1, by omega⟩
  rw [getWithVar_of_get _ _ _ _ _ _ _ (T_get_eq_norm yamlUnmarshal hyu doc docs m hnil hmod f (by omega) (by omega))]
  cases hg : get doc.data (docs.map (·.data)) m with
  | ok v => simp [normRes]
  | error e => cases m <;> first | exact absurd rfl (hm _) | simp [normRes, varFallback]


/-! ## instances: the hypotheses are met by real inputs, and each of them is needed -/

/-- a reader of reference strings that satisfies `ParseOK`: the model's reader, and YAML's `null` (no error) elsewhere -/
def yamlModel (s : String) : Val × Option Err :=
  match parseRef s with
  | some r => (r, none)
  | none => (.null, none)

theorem yamlModel_ok : ParseOK yamlModel := by
  intro s r h; simp [yamlModel, h]

def exDocA : Go.Doc := { id := "a", parents := "", data := .map [("name", .str "a"), ("v", .int 1)] }
def exDocB : Go.Doc := { id := "b", parents := "", data := .map [("name", .str "b"), ("v", .map [("w", .int 2)])] }
/-- `{$match: {name: b}, $path: [v, w]}` -/
def exRef : Val := .map [("$match", .map [("name", .str "b")]), ("$path", .list [.str "v", .str "w"])]

theorem exRef_cross : getCrossDoc [exDocA.data, exDocB.data] (.map [("name", .str "b")]) = .ok exDocB.data := by
  have h1 : matchV exDocA.data (.map [("name", .str "b")]) = false := by decide
  have h2 : matchV exDocB.data (.map [("name", .str "b")]) = true := by decide
  simp [getCrossDoc, List.filter, h1, h2, pure, Except.pure]

theorem exRef_model : get exDocA.data ([exDocA, exDocB].map (·.data)) exRef = .ok (.int 2) := by
  show get exDocA.data [exDocA.data, exDocB.data] exRef = _
  rw [exRef, get_map_eq]
  simp [fget, exRef_cross]
  simp [exDocB, get, getPathFromList, toStringList, getPath, fget, pure, Except.pure, bind, Except.bind]


/-- non-vacuity of `T_get_eq`: a cross-document reference, all hypotheses met, fuel 12 -/
example : get' yamlModel 12 exDocA [exDocA, exDocB] exRef = .ok (.int 2, none) := by
  rw [T_get_eq yamlModel yamlModel_ok exDocA [exDocA, exDocB] exRef (by simp [exDocA, exDocB]) (by decide)
    (by simp [exDocA, exDocB]; decide) (by rw [exRef_model]; simp)
    12 (by decide) (by decide), exRef_model]
  rfl

/-- the bound of `T_getPath_eq` is sharp -/
example : getPath' 1 (.map [("a", .null)]) ["a"] = .error GErr.fuel := rfl
example : getPath' 2 (.map [("a", .null)]) ["a"] = .ok (.null, none) := by
  rw [T_getPath_eq _ _ _ (by decide)]; rfl

/-- `hnil` is needed in `T_getCrossDoc_eq`: a nil `*Document` in the stream (Go would panic on `doc.Data`) is not
    counted by the translated loop, the model counts its data -/
theorem getCrossDoc_nil_doc :
    getCrossDoc' 3 [Go.Doc.nil] .null = .ok (Go.Doc.nil, some Err.noMatchFound) ∧
    getCrossDoc ([Go.Doc.nil].map (·.data)) .null = .ok .null := by
  constructor
  · rfl
  · have h : matchV Val.null Val.null = true := by decide
    simp [getCrossDoc, Go.Doc.nil, List.filter, h, pure, Except.pure]

/-- `Val.WF` of the documents is needed in `T_get_eq`: `deepClone` returns an unsorted map sorted -/
def exUnsortedDoc : Go.Doc := { id := "", parents := "", data := .map [("x", .map [("b", .null), ("a", .null)])] }

theorem get_unsorted_model :
    get exUnsortedDoc.data (([] : List Go.Doc).map (·.data)) (.list [.str "x"]) = .ok (.map [("b", .null), ("a", .null)]) := by
  simp [exUnsortedDoc, get, getPathFromList, toStringList, getPath, fget, pure, Except.pure, bind, Except.bind]

theorem get_unsorted :
    get' yamlModel 6 exUnsortedDoc [] (.list [.str "x"]) = .ok (.map [("a", .null), ("b", .null)], none) := by
  rw [T_get_eq_norm yamlModel yamlModel_ok exUnsortedDoc [] (.list [.str "x"]) (by simp)
    (get_ne_unmodelled _ _ _ rfl) 6 (by decide) (by decide), get_unsorted_model]
  rfl

theorem get_unsorted_ne :
    get' yamlModel 6 exUnsortedDoc [] (.list [.str "x"]) ≠
      .ok (valRes (get exUnsortedDoc.data (([] : List Go.Doc).map (·.data)) (.list [.str "x"]))) := by
  rw [get_unsorted, get_unsorted_model]; simp

/-- the hypothesis "the model can read the reference string" is needed: on the empty string the model answers
    `unmodelled`; a reader that satisfies `ParseOK` is free there (yaml.v3 reads `null`: Go answers ErrInvalidType) -/
theorem parseRef_empty : parseRef "" = none := by
  simp [parseRef, isPlainRef, flowItems]

theorem get_unmodelled_string :
    get' yamlModel 4 exDocA [] (.str "") = .ok (.null, some Err.invalidType) ∧
    get exDocA.data (([] : List Go.Doc).map (·.data)) (.str "") = .error Err.unmodelled := by
  constructor
  · simp [get', getRef', getPathFromString', yamlModel, parseRef_empty]
  · simp [get, getPathFromString, parseRef_empty, throw, throwThe, MonadExceptOf.throw]


/-- the same theorems under the syntactic condition `RefsModelled m` -/
theorem T_get_eq_modelled (yamlUnmarshal : String → Val × Option Err) (hyu : ParseOK yamlUnmarshal)
    (doc : Go.Doc) (docs : List Go.Doc) (m : Val) (hnil : ∀ d ∈ docs, d.isNil = false)
    (hwf : Val.WF doc.data) (hwfs : ∀ d ∈ docs, Val.WF d.data) (hm : RefsModelled m)
    (fuel : Nat) (h : refFuel m + 1 ≤ fuel) (hdepth : Go.depthList (doc.data :: docs.map (·.data)) + 2 ≤ fuel) :
    get' yamlUnmarshal fuel doc docs m = .ok (valRes (get doc.data (docs.map (·.data)) m)) :=
  T_get_eq yamlUnmarshal hyu doc docs m hnil hwf hwfs (get_ne_unmodelled _ _ _ hm) fuel h hdepth

def exDocC : Go.Doc := { id := "c", parents := "", data := .map [("a", .int 1)] }

theorem exFuel_a : refFuel (.str "a") = 4 := by
  simp [refFuel, strFuel, parseRef, isPlainRef_a, splitOn_dot_none "a" (by decide)]

/-- non-vacuity of `T_getWithVar_eq`: the reference `a` is found in the document … -/
example : getWithVar' yamlModel 6 exDocC [] ⟨[("a", .int 5), ("b", .int 7)]⟩ (.str "a") = .ok (.int 1, none) := by
  rw [T_getWithVar_eq yamlModel yamlModel_ok exDocC [] _ "a" (by simp) (by decide) (by simp)
    (by simp [parseRef, isPlainRef_a]) 6 (by rw [exFuel_a]; decide) (by decide)]
  have := getWithVar_simple_key [("a", .int 1)] [] [("a", .int 5), ("b", .int 7)] "a" (.int 1) isPlainRef_a (by decide)
    (by simp [fget])
  simp [exDocC, this]


/-- … and where the document has no `a`, the variable `a` is the answer -/
example : getWithVar' yamlModel 6 exDocA [] ⟨[("a", .int 5), ("b", .int 7)]⟩ (.str "a") = .ok (.int 5, none) := by
  rw [T_getWithVar_eq yamlModel yamlModel_ok exDocA [] _ "a" (by simp) (by decide) (by simp)
    (by simp [parseRef, isPlainRef_a]) 6 (by rw [exFuel_a]; decide) (by decide)]
  simp [exDocA, getWithVar, get_simple_key _ _ _ isPlainRef_a (by decide), getPath, fget, getVar,
    throw, throwThe, MonadExceptOf.throw, pure, Except.pure]

end Bkl.Gen.Lib
