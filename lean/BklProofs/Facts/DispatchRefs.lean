/-
  Fact obligation F10, slice "refs": the directive literals, in source order, of every function of
  get.go, process1.go are the ones the model mirrors (table and explanation: BklProofs/Facts/Dispatch.lean).
-/
import BklProofs.Facts.Dispatch
namespace Bkl

theorem F10_dispatch_order_refs :
    seqOfFiles ["get.go", "process1.go"] Facts.directiveSeq = seqOfFiles ["get.go", "process1.go"] (expectedDirectiveSeq.map (·.1)) := by decide

end Bkl
