/- Fact obligations F12 / F13, slice StateParser (table and explanation: BklProofs/Facts/State.lean). -/
import BklProofs.Facts.State
namespace Bkl

/-- F12, parser side: the parser, its documents, the evaluation context and the format table hold nothing beyond
    what the model carries (C09, C18, C19) -/
theorem F12_no_hidden_state_parser :
    fieldsOfTypes ["Document", "EvalContext", "Format", "Parser"] Facts.structFields =
      fieldsOfTypes ["Document", "EvalContext", "Format", "Parser"] (expectedStructFields.map (·.1)) := by decide

end Bkl
