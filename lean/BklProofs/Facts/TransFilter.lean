/-
  Translation equivalence, util.go (second part): the higher-order helpers `filterList`, `filterMap` and their users
  `popListMapBoolValue`, `popListMapStringValue`, as harness/cmd/gotrans writes them from /repo's CURRENT util.go
  (Generated/Trans/Filter.lean, regenerated on every run).

  * `T_filterList_rec` / `T_filterMap_rec`: for an ARBITRARY function value `filter` (also one that runs out of fuel)
    the translated functions are the plain recursions `filterListRec` / `filterMapRec` below (no hypothesis);
  * `T_filterList_spec`, `T_filterList_spec_err`, `T_filterList_spec_gerr`, `T_filterList_flatMapR`, and the same for
    `filterMap`: the results from the per-element behaviour of `filter`;
  * `T_popListMapBoolValue_eq`: the model's `popListMapBool` (Bkl/Fields.lean);
  * `T_popListMapStringValue_eq`: the model has NO counterpart of `popListMapStringValue` (no other Go function of
    /repo calls it), so it is stated against the explicit specification `popListMapStr` of this file.
  No hypothesis (well-formedness, fuel) is needed anywhere in this unit.
-/
import Generated.Trans.Filter
import BklProofs.Facts.TransUtil
namespace Bkl.Gen.Lib
open Bkl Go

/-! ## filterList -/

/-- `filterList` as a plain recursion (`acc` = the Go variable `ret`): the per-element results are appended; the first
    element whose `filter` returns a Go error stops with `(nil, err)`; a failure of `filter` itself (fuel) propagates -/
def filterListRec (filter : Val → G (List Val × Option Err)) : List Val → List Val → G (List Val × Option Err)
  | [], acc => .ok (acc, none)
  | x :: xs, acc =>
    match filter x with
    | .error ge => .error ge
    | .ok (l2, none) => filterListRec filter xs (acc ++ l2)
    | .ok (_, some e) => .ok ([], some e)

/-- the loop of filterList, from any accumulator -/
theorem filterList_loop (filter : Val → G (List Val × Option Err)) (l acc : List Val)
    (body : Val → List Val → G (Loop (List Val) (List Val × Option Err)))
    (hbody : ∀ x acc, body x acc = (match filter x with
      | .error ge => .error ge
      | .ok (l2, none) => .ok (.next (acc ++ l2))
      | .ok (_, some e) => .ok (.ret ([], some e)))) :
    forRange l acc body = (match filterListRec filter l acc with
      | .error ge => .error ge
      | .ok (r, none) => .ok (.inl r)
      | .ok (r, some e) => .ok (.inr (r, some e))) := by
  induction l generalizing acc with
  | nil => rfl
  | cons x xs ih =>
    cases h : filter x with
    | error ge =>
      rw [forRange_cons_error (e := ge) (by rw [hbody, h])]
      simp only [filterListRec, h]
    | ok p =>
      obtain ⟨l2, o⟩ := p
      cases o with
      | none =>
        rw [forRange_cons_next (s' := acc ++ l2) (by rw [hbody, h]), ih]
        simp only [filterListRec, h]
      | some e =>
        rw [forRange_cons_ret (r := ([], some e)) (by rw [hbody, h])]
        simp only [filterListRec, h]

/-- util.go:filterList, for every `filter`: the plain recursion `filterListRec` from the empty list -/
theorem T_filterList_rec (l : List Val) (filter : Val → G (List Val × Option Err)) :
    filterList' l filter = filterListRec filter l [] := by
  unfold filterList'
  simp only []
  rw [filterList_loop filter l []]
  · cases filterListRec filter l [] with
    | error ge => rfl
    | ok p => obtain ⟨r, o⟩ := p; cases o <;> rfl
  · intro x acc
    cases filter x with
    | error ge => rfl
    | ok p => obtain ⟨l2, o⟩ := p; cases o <;> simp

theorem filterListRec_ok (filter : Val → G (List Val × Option Err)) (f : Val → List Val) (l acc : List Val)
    (h : ∀ x ∈ l, filter x = .ok (f x, none)) :
    filterListRec filter l acc = .ok (acc ++ l.flatMap f, none) := by
  induction l generalizing acc with
  | nil => simp [filterListRec]
  | cons x xs ih =>
    simp only [filterListRec, h x List.mem_cons_self]
    rw [ih _ (fun y hy => h y (List.mem_cons_of_mem _ hy))]
    simp

theorem filterListRec_append (filter : Val → G (List Val × Option Err)) (f : Val → List Val) (pre post acc : List Val)
    (h : ∀ x ∈ pre, filter x = .ok (f x, none)) :
    filterListRec filter (pre ++ post) acc = filterListRec filter post (acc ++ pre.flatMap f) := by
  induction pre generalizing acc with
  | nil => simp
  | cons x xs ih =>
    simp only [List.cons_append, filterListRec, h x List.mem_cons_self]
    rw [ih _ (fun y hy => h y (List.mem_cons_of_mem _ hy))]
    simp

/-- util.go:filterList when `filter` succeeds on every element: the concatenation of the per-element results -/
theorem T_filterList_spec (l : List Val) (filter : Val → G (List Val × Option Err)) (f : Val → List Val)
    (h : ∀ x ∈ l, filter x = .ok (f x, none)) :
    filterList' l filter = .ok (l.flatMap f, none) := by
  rw [T_filterList_rec, filterListRec_ok filter f l [] h]
  simp

/-- util.go:filterList when `filter` returns a Go error: the FIRST such element stops the loop with `(nil, err)`,
    whatever list `filter` returned beside the error and whatever `filter` does on the later elements -/
theorem T_filterList_spec_err (pre post : List Val) (x : Val) (filter : Val → G (List Val × Option Err))
    (f : Val → List Val) (j : List Val) (e : Err)
    (h : ∀ y ∈ pre, filter y = .ok (f y, none)) (hx : filter x = .ok (j, some e)) :
    filterList' (pre ++ x :: post) filter = .ok ([], some e) := by
  rw [T_filterList_rec, filterListRec_append filter f pre _ _ h]
  simp only [filterListRec, hx]

/-- util.go:filterList when `filter` itself fails (it ran out of fuel): the failure propagates -/
theorem T_filterList_spec_gerr (pre post : List Val) (x : Val) (filter : Val → G (List Val × Option Err))
    (f : Val → List Val) (ge : GErr)
    (h : ∀ y ∈ pre, filter y = .ok (f y, none)) (hx : filter x = .error ge) :
    filterList' (pre ++ x :: post) filter = .error ge := by
  rw [T_filterList_rec, filterListRec_append filter f pre _ _ h]
  simp only [filterListRec, hx]

/-- non-vacuity of the three specifications: a filter that drops `null`, keeps strings, rejects booleans and
    fails on integers -/
def exampleFilter : Val → G (List Val × Option Err)
  | .null => .ok ([], none)
  | .bool _ => .ok ([.null], some Err.invalidType)
  | .int _ => .error GErr.fuel
  | x => .ok ([x, x], none)

example : filterList' [.str "a", .null, .str "b"] exampleFilter = .ok ([.str "a", .str "a", .str "b", .str "b"], none) :=
  T_filterList_spec _ _ (fun x => match x with | .null => [] | x => [x, x]) (by simp [exampleFilter])
example : filterList' ([.str "a", .null] ++ .bool true :: [.int 1]) exampleFilter = .ok ([], some Err.invalidType) :=
  T_filterList_spec_err _ _ _ _ (fun x => match x with | .null => [] | x => [x, x]) [.null] _ (by simp [exampleFilter]) rfl
example : filterList' ([.str "a", .null] ++ .int 1 :: [.bool true]) exampleFilter = .error GErr.fuel :=
  T_filterList_spec_gerr _ _ _ _ (fun x => match x with | .null => [] | x => [x, x]) _ (by simp [exampleFilter]) rfl

/-! ### filters given by a model function with errors -/

/-- `flatMap` for a function that may fail: the first failure (in list order) is the result -/
def flatMapR {α β : Type} (g : α → R (List β)) : List α → R (List β)
  | [] => .ok []
  | x :: xs =>
    match g x with
    | .error e => .error e
    | .ok a =>
      match flatMapR g xs with
      | .error e => .error e
      | .ok r => .ok (a ++ r)

/-- the same as a left fold with an accumulator (the shape of the model's `popListMapBool`) -/
theorem foldlM_eq_flatMapR {α β : Type} (g : α → R (List β)) (l : List α) (acc : List β) :
    l.foldlM (fun acc x => (g x).map (acc ++ ·)) acc = (flatMapR g l).map (acc ++ ·) := by
  induction l generalizing acc with
  | nil => simp [flatMapR, Except.map, pure, Except.pure]
  | cons x xs ih =>
    rw [List.foldlM_cons]
    cases hg : g x with
    | error e => simp [flatMapR, hg, Except.map, bind, Except.bind]
    | ok a =>
      show List.foldlM _ (acc ++ a) xs = _
      rw [ih, flatMapR, hg]
      cases flatMapR g xs <;> simp [Except.map]

theorem flatMapR_of_ok {α β : Type} (g : α → R (List β)) (f : α → List β) (l : List α)
    (h : ∀ x ∈ l, g x = .ok (f x)) : flatMapR g l = .ok (l.flatMap f) := by
  induction l with
  | nil => rfl
  | cons x xs ih =>
    simp [flatMapR, h x List.mem_cons_self, ih (fun y hy => h y (List.mem_cons_of_mem _ hy))]

theorem filterListRec_flatMapR (filter : Val → G (List Val × Option Err)) (g : Val → R (List Val)) (l acc : List Val)
    (hok : ∀ x ∈ l, ∀ r, g x = .ok r → filter x = .ok (r, none))
    (herr : ∀ x ∈ l, ∀ e, g x = .error e → ∃ j, filter x = .ok (j, some e)) :
    filterListRec filter l acc = .ok (match flatMapR g l with
      | .ok r => (acc ++ r, none)
      | .error e => ([], some e)) := by
  induction l generalizing acc with
  | nil => simp [filterListRec, flatMapR]
  | cons x xs ih =>
    cases hg : g x with
    | error e =>
      obtain ⟨j, hj⟩ := herr x List.mem_cons_self e hg
      simp only [filterListRec, flatMapR, hj, hg]
    | ok a =>
      simp only [filterListRec, flatMapR, hok x List.mem_cons_self a hg, hg]
      rw [ih _ (fun y hy => hok y (List.mem_cons_of_mem _ hy)) (fun y hy => herr y (List.mem_cons_of_mem _ hy))]
      cases flatMapR g xs <;> simp

/-- util.go:filterList for a `filter` that implements a model function `g : Val → R (List Val)` (Go `(l, nil)` for
    `.ok l`, Go `(anything, err)` for `.error err`): the Go pair of `flatMapR g l` -/
theorem T_filterList_flatMapR (l : List Val) (filter : Val → G (List Val × Option Err)) (g : Val → R (List Val))
    (hok : ∀ x ∈ l, ∀ r, g x = .ok r → filter x = .ok (r, none))
    (herr : ∀ x ∈ l, ∀ e, g x = .error e → ∃ j, filter x = .ok (j, some e)) :
    filterList' l filter = .ok (match flatMapR g l with
      | .ok r => (r, none)
      | .error e => ([], some e)) := by
  rw [T_filterList_rec, filterListRec_flatMapR filter g l [] hok herr]
  simp

/-! ## filterMap -/

/-- `filterMap` as a plain recursion (`acc` = the Go variable `ret`): the entries are visited in order, each result map
    is written into `ret` entry by entry (`ret[k2] = v2`, i.e. `fsetAll`); the first entry whose `filter` returns a Go
    error stops with `(nil, err)`; a failure of `filter` itself (fuel) propagates -/
def filterMapRec (filter : String → Val → G (Fields × Option Err)) : Fields → Fields → G (Fields × Option Err)
  | [], acc => .ok (acc, none)
  | (k, v) :: rest, acc =>
    match filter k v with
    | .error ge => .error ge
    | .ok (m2, none) => filterMapRec filter rest (fsetAll acc m2)
    | .ok (_, some e) => .ok ([], some e)

/-- the inner loop of filterMap: `for k2, v2 := range m2 { ret[k2] = v2 }` -/
theorem filterMap_inner (m2 acc : Fields) (body : String × Val → Fields → G (Loop Fields (Fields × Option Err)))
    (hbody : ∀ p acc, body p acc = .ok (.next (fset acc p.1 p.2))) :
    forRange m2 acc body = .ok (.inl (fsetAll acc m2)) := by
  rw [forRange_fold (fun acc (p : String × Val) => fset acc p.1 p.2) m2 acc body (fun p _ s => hbody p s)]
  rfl

/-- the outer loop of filterMap, from any accumulator -/
theorem filterMap_loop (filter : String → Val → G (Fields × Option Err)) (m acc : Fields)
    (body : String × Val → Fields → G (Loop Fields (Fields × Option Err)))
    (hbody : ∀ k v acc, body (k, v) acc = (match filter k v with
      | .error ge => .error ge
      | .ok (m2, none) => .ok (.next (fsetAll acc m2))
      | .ok (_, some e) => .ok (.ret ([], some e)))) :
    forRange m acc body = (match filterMapRec filter m acc with
      | .error ge => .error ge
      | .ok (r, none) => .ok (.inl r)
      | .ok (r, some e) => .ok (.inr (r, some e))) := by
  induction m generalizing acc with
  | nil => rfl
  | cons p rest ih =>
    obtain ⟨k, v⟩ := p
    cases h : filter k v with
    | error ge =>
      rw [forRange_cons_error (e := ge) (by rw [hbody, h])]
      simp only [filterMapRec, h]
    | ok q =>
      obtain ⟨m2, o⟩ := q
      cases o with
      | none =>
        rw [forRange_cons_next (s' := fsetAll acc m2) (by rw [hbody, h]), ih]
        simp only [filterMapRec, h]
      | some e =>
        rw [forRange_cons_ret (r := ([], some e)) (by rw [hbody, h])]
        simp only [filterMapRec, h]

/-- util.go:filterMap, for every `filter`: the plain recursion `filterMapRec` from the empty map -/
theorem T_filterMap_rec (m : Fields) (filter : String → Val → G (Fields × Option Err)) :
    filterMap' m filter = filterMapRec filter m [] := by
  unfold filterMap'
  simp only []
  rw [filterMap_loop filter m []]
  · cases filterMapRec filter m [] with
    | error ge => rfl
    | ok p => obtain ⟨r, o⟩ := p; cases o <;> rfl
  · intro k v acc
    cases filter k v with
    | error ge => rfl
    | ok p =>
      obtain ⟨m2, o⟩ := p
      cases o with
      | some e => simp
      | none =>
        simp only []
        rw [filterMap_inner m2 acc _ (fun p acc => rfl)]
        simp

theorem filterMapRec_ok (filter : String → Val → G (Fields × Option Err)) (f : String → Val → Fields) (m acc : Fields)
    (h : ∀ p ∈ m, filter p.1 p.2 = .ok (f p.1 p.2, none)) :
    filterMapRec filter m acc = .ok (m.foldl (fun acc p => fsetAll acc (f p.1 p.2)) acc, none) := by
  induction m generalizing acc with
  | nil => simp [filterMapRec]
  | cons p rest ih =>
    obtain ⟨k, v⟩ := p
    simp only [filterMapRec, h (k, v) List.mem_cons_self]
    rw [ih _ (fun q hq => h q (List.mem_cons_of_mem _ hq))]
    simp

theorem filterMapRec_append (filter : String → Val → G (Fields × Option Err)) (f : String → Val → Fields)
    (pre post acc : Fields) (h : ∀ p ∈ pre, filter p.1 p.2 = .ok (f p.1 p.2, none)) :
    filterMapRec filter (pre ++ post) acc =
      filterMapRec filter post (pre.foldl (fun acc p => fsetAll acc (f p.1 p.2)) acc) := by
  induction pre generalizing acc with
  | nil => simp
  | cons p rest ih =>
    obtain ⟨k, v⟩ := p
    simp only [List.cons_append, filterMapRec, h (k, v) List.mem_cons_self]
    rw [ih _ (fun q hq => h q (List.mem_cons_of_mem _ hq))]
    simp

theorem fsetAll_append (acc a b : Fields) : fsetAll acc (a ++ b) = fsetAll (fsetAll acc a) b := by
  simp [fsetAll]

theorem foldl_fsetAll_eq_flatMap (f : String → Val → Fields) (m acc : Fields) :
    m.foldl (fun acc p => fsetAll acc (f p.1 p.2)) acc = fsetAll acc (m.flatMap (fun p => f p.1 p.2)) := by
  induction m generalizing acc with
  | nil => simp [fsetAll]
  | cons p rest ih => rw [List.foldl_cons, ih, List.flatMap_cons, fsetAll_append]

/-- util.go:filterMap when `filter` succeeds on every entry: the entries are visited in order and every result map is
    merged into the accumulator with `fsetAll` (`ret[k2] = v2` for each of its entries, later writes win) -/
theorem T_filterMap_spec (m : Fields) (filter : String → Val → G (Fields × Option Err)) (f : String → Val → Fields)
    (h : ∀ p ∈ m, filter p.1 p.2 = .ok (f p.1 p.2, none)) :
    filterMap' m filter = .ok (m.foldl (fun acc p => fsetAll acc (f p.1 p.2)) [], none) := by
  rw [T_filterMap_rec, filterMapRec_ok filter f m [] h]

/-- … i.e. the map built (`fofList`) from the concatenation of the per-entry results -/
theorem T_filterMap_spec_flatMap (m : Fields) (filter : String → Val → G (Fields × Option Err))
    (f : String → Val → Fields) (h : ∀ p ∈ m, filter p.1 p.2 = .ok (f p.1 p.2, none)) :
    filterMap' m filter = .ok (fofList (m.flatMap (fun p => f p.1 p.2)), none) := by
  rw [T_filterMap_spec m filter f h, foldl_fsetAll_eq_flatMap, fofList]

/-- util.go:filterMap when `filter` returns a Go error: the FIRST such entry stops the loop with `(nil, err)` -/
theorem T_filterMap_spec_err (pre post : Fields) (k : String) (v : Val) (filter : String → Val → G (Fields × Option Err))
    (f : String → Val → Fields) (j : Fields) (e : Err)
    (h : ∀ p ∈ pre, filter p.1 p.2 = .ok (f p.1 p.2, none)) (hx : filter k v = .ok (j, some e)) :
    filterMap' (pre ++ (k, v) :: post) filter = .ok ([], some e) := by
  rw [T_filterMap_rec, filterMapRec_append filter f pre _ _ h]
  simp only [filterMapRec, hx]

/-- util.go:filterMap when `filter` itself fails (it ran out of fuel): the failure propagates -/
theorem T_filterMap_spec_gerr (pre post : Fields) (k : String) (v : Val) (filter : String → Val → G (Fields × Option Err))
    (f : String → Val → Fields) (ge : GErr)
    (h : ∀ p ∈ pre, filter p.1 p.2 = .ok (f p.1 p.2, none)) (hx : filter k v = .error ge) :
    filterMap' (pre ++ (k, v) :: post) filter = .error ge := by
  rw [T_filterMap_rec, filterMapRec_append filter f pre _ _ h]
  simp only [filterMapRec, hx]

/-- non-vacuity: a filter that renames every key to "x" (later entries win), drops `null`, rejects booleans and
    fails on integers -/
def exampleFilterMap : String → Val → G (Fields × Option Err)
  | _, .null => .ok ([], none)
  | _, .bool _ => .ok ([("junk", .null)], some Err.invalidType)
  | _, .int _ => .error GErr.fuel
  | k, x => .ok ([("x", x), (k, x)], none)

example : filterMap' [("b", .str "1"), ("a", .null), ("c", .str "2")] exampleFilterMap
    = .ok ([("b", .str "1"), ("c", .str "2"), ("x", .str "2")], none) :=
  T_filterMap_spec _ _ (fun k x => match x with | .null => [] | x => [("x", x), (k, x)]) (by simp [exampleFilterMap])
example : filterMap' ([("b", .str "1"), ("a", .null)] ++ ("c", .bool true) :: [("d", .int 1)]) exampleFilterMap
    = .ok ([], some Err.invalidType) :=
  T_filterMap_spec_err _ _ _ _ _ (fun k x => match x with | .null => [] | x => [("x", x), (k, x)]) _ _
    (by simp [exampleFilterMap]) rfl
example : filterMap' ([("b", .str "1"), ("a", .null)] ++ ("c", .int 1) :: [("d", .bool true)]) exampleFilterMap
    = .error GErr.fuel :=
  T_filterMap_spec_gerr _ _ _ _ _ (fun k x => match x with | .null => [] | x => [("x", x), (k, x)]) _
    (by simp [exampleFilterMap]) rfl

/-! ## popListMapBoolValue -/

/-- what one list entry contributes to the result of `popListMapBoolValue`: a marker entry `{k: b}` nothing, a marker
    entry with other keys an error, every other entry itself -/
def popBoolEntry (k : String) (b : Bool) : Val → R (List Val)
  | .map m => if fhasBool m k b then (if (fdel m k).length > 0 then .error Err.extraKeys else .ok []) else .ok [.map m]
  | x => .ok [x]

/-- a left fold whose step appends `g x` to the accumulator, followed by a pure function -/
theorem foldlM_step_eq_flatMapR {α β γ : Type} (g : α → R (List β)) (l : List α) (F : List β → α → R (List β))
    (c : List β → γ) (hF : ∀ acc x, F acc x = (g x).map (acc ++ ·)) :
    (l.foldlM F [] >>= fun rest => pure (c rest)) = (flatMapR g l).map c := by
  rw [show F = fun acc x => (g x).map (acc ++ ·) from funext fun acc => funext fun x => hF acc x,
    foldlM_eq_flatMapR]
  cases flatMapR g l <;> simp [Except.map, bind, Except.bind, pure, Except.pure]

/-- the model's `popListMapBool` in terms of `flatMapR` -/
theorem popListMapBool_eq_flatMapR (l : List Val) (k : String) (b : Bool) :
    popListMapBool l k b = (if hasListMapBool l k b then (flatMapR (popBoolEntry k b) l).map (fun r => (true, r))
      else .ok (false, l)) := by
  unfold popListMapBool
  cases hasListMapBool l k b with
  | false => rfl
  | true =>
    simp only [Bool.not_true, Bool.false_eq_true, if_false, if_true]
    refine foldlM_step_eq_flatMapR (popBoolEntry k b) l _ (fun r => (true, r)) (fun acc x => ?_)
    cases x with
    | map m =>
      simp only [popBoolEntry]
      by_cases h1 : fhasBool m k b = true
      · by_cases h2 : (fdel m k).length > 0 <;>
          simp [h1, h2, Except.map, throw, throwThe, MonadExceptOf.throw, pure, Except.pure]
      · simp [h1, Except.map, pure, Except.pure]
    | _ => simp [popBoolEntry, Except.map, pure, Except.pure]

/-- util.go:popListMapBoolValue is the model's `popListMapBool`: `(found, rest, nil)`, or `(false, nil, err)` -/
theorem T_popListMapBoolValue_eq (l : List Val) (k : String) (v : Bool) :
    popListMapBoolValue' l k v = .ok (match popListMapBool l k v with
      | .ok (found, rest) => (found, rest, none)
      | .error e => (false, [], some e)) := by
  unfold popListMapBoolValue'
  rw [T_hasListMapBoolValue_eq, popListMapBool_eq_flatMapR]
  cases hasListMapBool l k v with
  | false => simp
  | true =>
    simp only [Bool.not_true, Bool.false_eq_true, if_false, if_true]
    rw [T_filterList_flatMapR l _ (popBoolEntry k v)]
    · cases flatMapR (popBoolEntry k v) l <;> simp [Except.map]
    · intro x _ r hr
      cases x with
      | map m =>
        simp only [popBoolEntry] at hr
        simp only [asMap, T_popMapBoolValue_eq]
        cases hm : fhasBool m k v <;> simp_all
        split at hr <;> simp_all
      | _ => simp_all [popBoolEntry, asMap]
    · intro x _ e he
      cases x with
      | map m =>
        simp only [popBoolEntry] at he
        simp only [asMap, T_popMapBoolValue_eq]
        cases hm : fhasBool m k v <;> simp_all
        split at he <;> simp_all
      | _ => simp_all [popBoolEntry]

/-! ## popListMapStringValue -/

/-- what one list entry contributes to the result of `popListMapStringValue`: a map with a non-empty string under `k`
    nothing — an error if it has other keys —, every other entry itself -/
def popStrEntry (k : String) : Val → R (List Val)
  | .map m => if fgetStr m k != "" then (if (fdel m k).length > 0 then .error Err.extraKeys else .ok []) else .ok [.map m]
  | x => .ok [x]

/-- SPECIFICATION of util.go:popListMapStringValue (the model Bkl/Fields.lean has no such function): the first
    non-empty string stored under `k` in a map entry of `l` (`getListMapStr`); when there is none `("", l)`; otherwise
    every map entry that has a non-empty string under `k` is dropped — an error if such an entry has other keys -/
def popListMapStr (l : List Val) (k : String) : R (String × List Val) :=
  if getListMapStr l k == "" then .ok ("", l)
  else
    match flatMapR (popStrEntry k) l with
    | .error e => .error e
    | .ok rest => .ok (getListMapStr l k, rest)

/-- util.go:popListMapStringValue is the specification `popListMapStr`: `(value, rest, nil)`, or `("", nil, err)` -/
theorem T_popListMapStringValue_eq (l : List Val) (k : String) :
    popListMapStringValue' l k = .ok (match popListMapStr l k with
      | .ok (s, rest) => (s, rest, none)
      | .error e => ("", [], some e)) := by
  unfold popListMapStringValue' popListMapStr
  rw [T_getListMapStringValue_eq]
  by_cases hs : getListMapStr l k = ""
  · simp [hs]
  · simp only [beq_iff_eq, hs, if_false]
    rw [T_filterList_flatMapR l _ (popStrEntry k)]
    · cases flatMapR (popStrEntry k) l <;> simp
    · intro x _ r hr
      cases x with
      | map m =>
        simp only [popStrEntry] at hr
        simp only [asMap, T_popMapStringValue_eq]
        by_cases hm : fgetStr m k = "" <;> simp_all
        split at hr <;> simp_all
      | _ => simp_all [popStrEntry, asMap]
    · intro x _ e he
      cases x with
      | map m =>
        simp only [popStrEntry] at he
        simp only [asMap, T_popMapStringValue_eq]
        by_cases hm : fgetStr m k = "" <;> simp_all
        split at he <;> simp_all
      | _ => simp_all [popStrEntry]

/-! ### what the specification says, without errors -/

/-- the marker entries of `popListMapStringValue` -/
def isStrMarker (k : String) : Val → Bool
  | .map m => fgetStr m k != ""
  | _ => false

theorem getListMapStr_ne_of_mem (l : List Val) (k : String) (m : Fields)
    (hm : Val.map m ∈ l) (hk : fgetStr m k ≠ "") : getListMapStr l k ≠ "" := by
  induction l with
  | nil => cases hm
  | cons x xs ih =>
    by_cases hx : (asMap x).2 = false
    · rw [getListMapStr_cons_other x xs k hx]
      rcases List.mem_cons.1 hm with rfl | hm'
      · simp [asMap] at hx
      · exact ih hm'
    · obtain ⟨m', rfl⟩ : ∃ m', x = .map m' := by cases x <;> simp_all [asMap]
      rw [getListMapStr_cons_map]
      by_cases h' : fgetStr m' k = ""
      · rcases List.mem_cons.1 hm with heq | hm'
        · cases heq; exact absurd h' hk
        · simpa [h'] using ih hm'
      · simp [h']

theorem flatMapR_popStrEntry_ok (l : List Val) (k : String)
    (h : ∀ m, Val.map m ∈ l → fgetStr m k ≠ "" → (fdel m k).length = 0) :
    flatMapR (popStrEntry k) l = .ok (l.filter (fun x => !isStrMarker k x)) := by
  induction l with
  | nil => rfl
  | cons x xs ih =>
    have ih' := ih (fun m hm => h m (List.mem_cons_of_mem _ hm))
    cases x with
    | map m =>
      by_cases hm : fgetStr m k = ""
      · simp [flatMapR, popStrEntry, isStrMarker, hm, ih']
      · simp [flatMapR, popStrEntry, isStrMarker, hm, ih', h m List.mem_cons_self hm]
    | _ => simp [flatMapR, popStrEntry, isStrMarker, ih']

theorem flatMapR_popStrEntry_err (l : List Val) (k : String) (m : Fields)
    (hm : Val.map m ∈ l) (hk : fgetStr m k ≠ "") (hx : (fdel m k).length > 0) :
    flatMapR (popStrEntry k) l = .error Err.extraKeys := by
  induction l with
  | nil => cases hm
  | cons x xs ih =>
    have hx' : (∃ a, popStrEntry k x = .ok a) ∨ popStrEntry k x = .error Err.extraKeys := by
      cases x with
      | map m' =>
        simp only [popStrEntry]
        by_cases h1 : fgetStr m' k = ""
        · simp [h1]
        · by_cases h2 : (fdel m' k).length > 0 <;> simp [h1, h2]
      | _ => simp [popStrEntry]
    rcases hx' with ⟨a, ha⟩ | ha
    · rcases List.mem_cons.1 hm with rfl | hm'
      · simp [popStrEntry, hk, hx] at ha
      · simp [flatMapR, ha, ih hm']
    · simp [flatMapR, ha]

/-- when no marker entry has other keys, the rest is the list without its marker entries … -/
theorem popListMapStr_ok (l : List Val) (k : String)
    (h : ∀ m, Val.map m ∈ l → fgetStr m k ≠ "" → (fdel m k).length = 0) :
    popListMapStr l k = .ok (getListMapStr l k, l.filter (fun x => !isStrMarker k x)) := by
  unfold popListMapStr
  rw [flatMapR_popStrEntry_ok l k h]
  by_cases hs : getListMapStr l k = ""
  · have hfil : l.filter (fun x => !isStrMarker k x) = l := by
      rw [List.filter_eq_self]
      intro x hx
      cases x with
      | map m =>
        by_cases hm : fgetStr m k = ""
        · simp [isStrMarker, hm]
        · exact absurd hs (getListMapStr_ne_of_mem l k m hx hm)
      | _ => simp [isStrMarker]
    simp [hs, hfil]
  · simp [hs]

/-- … and a marker entry with other keys is an error -/
theorem popListMapStr_err (l : List Val) (k : String) (m : Fields)
    (hm : Val.map m ∈ l) (hk : fgetStr m k ≠ "") (hx : (fdel m k).length > 0) :
    popListMapStr l k = .error Err.extraKeys := by
  unfold popListMapStr
  rw [flatMapR_popStrEntry_err l k m hm hk hx]
  simp [getListMapStr_ne_of_mem l k m hm hk]

/-- examples of the specification and of the translated functions -/
example : popListMapStr [.str "a", .map [("$k", .str "v")], .map [("x", .null)]] "$k"
    = .ok ("v", [.str "a", .map [("x", .null)]]) := by rfl
example : popListMapStr [.str "a", .map [("$k", .str "v"), ("x", .null)]] "$k" = .error Err.extraKeys := by rfl
example : popListMapStr [.str "a", .map [("$k", .str "")]] "$k" = .ok ("", [.str "a", .map [("$k", .str "")]]) := by rfl
example : popListMapStringValue' [.str "a", .map [("$k", .str "v"), ("x", .null)]] "$k"
    = .ok ("", [], some Err.extraKeys) := by
  rw [T_popListMapStringValue_eq]; rfl
example : popListMapStringValue' [.str "a", .map [("$k", .str "v")], .map [("$k", .str "w")], .null] "$k"
    = .ok ("v", [.str "a", .null], none) := by
  rw [T_popListMapStringValue_eq]; rfl
example : popListMapBoolValue' [.str "a", .map [("$k", .bool true), ("x", .null)]] "$k" true
    = .ok (false, [], some Err.extraKeys) := by
  rw [T_popListMapBoolValue_eq]; rfl
example : popListMapBoolValue' [.str "a", .map [("$k", .bool true)], .map [("$k", .bool false)]] "$k" true
    = .ok (true, [.str "a", .map [("$k", .bool false)]], none) := by
  rw [T_popListMapBoolValue_eq]; rfl
/-- … and the translated functions evaluated directly -/
example : popListMapStringValue' [.str "a", .map [("$k", .str "v")], .map [("$k", .str "w")], .null] "$k"
    = .ok ("v", [.str "a", .null], none) := by rfl
example : popListMapBoolValue' [.str "a", .map [("$k", .bool true), ("x", .null)]] "$k" true
    = .ok (false, [], some Err.extraKeys) := by rfl

end Bkl.Gen.Lib
