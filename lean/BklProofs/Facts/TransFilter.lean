/-
  Translation equivalence, util.go (second part): the higher-order helpers `filterList`, `filterMap` and their users
  `popListString`, `popListMapValue`, `popListMapBoolValue`, `popListMapStringValue`, as harness/cmd/gotrans writes them
  from /repo's CURRENT util.go (Generated/Trans/Filter.lean, regenerated on every run).

  Function literals are translated in STATE-PASSING style: `filter` takes the current values of the variables of the
  enclosing function it assigns (the state `σ`; `Unit` when it assigns nothing) and returns its results together with
  the new state; `filterList'`/`filterMap'` thread the state through the loop and return it with their results.

  * `T_filterList_rec` / `T_filterMap_rec`: for an ARBITRARY function value `filter` over an arbitrary state type (also
    one that runs out of fuel) the translated functions are the plain recursions `filterListRecS` / `filterMapRecS`
    below (no hypothesis);
  * `T_filterList_spec` (+ `_err`, `_gerr`), `T_filterList_flatMapR`: filters that do not touch the state;
    `T_filterList_fold` (+ `_err`, `_gerr`), `T_filterList_foldlM`: stateful filters; and the same for `filterMap`;
  * `T_popListString_eq`: the model's `popListString`; `T_popListMapValue_eq`: the model's `popListMapValue`;
    `T_popListMapBoolValue_eq`: the model's `popListMapBool` (all Bkl/Fields.lean);
  * `T_popListMapStringValue_eq`: the model has NO counterpart of `popListMapStringValue` (no other Go function of
    /repo calls it), so it is stated against the explicit specification `popListMapStr` of this file.
  No hypothesis (well-formedness, fuel) is needed anywhere in this unit.
-/
import Generated.Trans.Filter
import BklProofs.Facts.TransUtil
namespace Bkl.Gen.Lib
open Bkl Go

/-! ## filterList -/

/-- `filterList` as a plain recursion (`acc` = the Go variable `ret`, `s` = the variables the function literal
    assigns): the per-element results are appended and the state is threaded; the first element whose `filter` returns
    a Go error stops with `(nil, err)` and the state as `filter` left it; a failure of `filter` itself (fuel)
    propagates -/
def filterListRecS {σ : Type} (filter : Val → σ → G ((List Val × Option Err) × σ)) :
    List Val → List Val → σ → G ((List Val × Option Err) × σ)
  | [], acc, s => .ok ((acc, none), s)
  | x :: xs, acc, s =>
    match filter x s with
    | .error ge => .error ge
    | .ok ((l2, none), s') => filterListRecS filter xs (acc ++ l2) s'
    | .ok ((_, some e), s') => .ok (([], some e), s')

/-- the loop of filterList, from any accumulator and state -/
theorem filterList_loop {σ : Type} (filter : Val → σ → G ((List Val × Option Err) × σ)) (l acc : List Val) (s : σ)
    (body : Val → List Val × σ → G (Loop (List Val × σ) ((List Val × Option Err) × σ)))
    (hbody : ∀ x acc s, body x (acc, s) = (match filter x s with
      | .error ge => .error ge
      | .ok ((l2, none), s') => .ok (.next (acc ++ l2, s'))
      | .ok ((_, some e), s') => .ok (.ret (([], some e), s')))) :
    forRange l (acc, s) body = (match filterListRecS filter l acc s with
      | .error ge => .error ge
      | .ok ((r, none), s') => .ok (.inl (r, s'))
      | .ok ((r, some e), s') => .ok (.inr ((r, some e), s'))) := by
  induction l generalizing acc s with
  | nil => rfl
  | cons x xs ih =>
    cases h : filter x s with
    | error ge =>
      rw [forRange_cons_error (e := ge) (by rw [hbody, h])]
      simp only [filterListRecS, h]
    | ok p =>
      obtain ⟨⟨l2, o⟩, s'⟩ := p
      cases o with
      | none =>
        rw [forRange_cons_next (s' := (acc ++ l2, s')) (by rw [hbody, h]), ih]
        simp only [filterListRecS, h]
      | some e =>
        rw [forRange_cons_ret (r := (([], some e), s')) (by rw [hbody, h])]
        simp only [filterListRecS, h]

/-- util.go:filterList, for every `filter` and every initial state: the plain recursion `filterListRecS` from the
    empty list -/
theorem T_filterList_rec {σ : Type} (l : List Val) (filter : Val → σ → G ((List Val × Option Err) × σ)) (st : σ) :
    filterList' l filter st = filterListRecS filter l [] st := by
  unfold filterList'
  simp only []
  rw [filterList_loop filter l [] st]
  · cases filterListRecS filter l [] st with
    | error ge => rfl
    | ok p => obtain ⟨⟨r, o⟩, s'⟩ := p; cases o <;> rfl
  · intro x acc s
    cases filter x s with
    | error ge => rfl
    | ok p => obtain ⟨⟨l2, o⟩, s'⟩ := p; cases o <;> simp

/-! ### stateful filters that return no Go error: a left fold -/

/-- one step of `filterList` for a filter that returns the list `f x s` and the new state `g x s` -/
def filterListStep {σ : Type} (f : Val → σ → List Val) (g : Val → σ → σ) (p : List Val × σ) (x : Val) : List Val × σ :=
  (p.1 ++ f x p.2, g x p.2)

theorem filterListRecS_append {σ : Type} (filter : Val → σ → G ((List Val × Option Err) × σ))
    (f : Val → σ → List Val) (g : Val → σ → σ) (pre post acc : List Val) (s : σ)
    (h : ∀ x ∈ pre, ∀ s, filter x s = .ok ((f x s, none), g x s)) :
    filterListRecS filter (pre ++ post) acc s =
      filterListRecS filter post (pre.foldl (filterListStep f g) (acc, s)).1
        (pre.foldl (filterListStep f g) (acc, s)).2 := by
  induction pre generalizing acc s with
  | nil => rfl
  | cons x xs ih =>
    simp only [List.cons_append, filterListRecS, h x List.mem_cons_self]
    rw [ih _ _ (fun y hy => h y (List.mem_cons_of_mem _ hy))]
    rfl

theorem filterListRecS_fold {σ : Type} (filter : Val → σ → G ((List Val × Option Err) × σ))
    (f : Val → σ → List Val) (g : Val → σ → σ) (l acc : List Val) (s : σ)
    (h : ∀ x ∈ l, ∀ s, filter x s = .ok ((f x s, none), g x s)) :
    filterListRecS filter l acc s =
      .ok (((l.foldl (filterListStep f g) (acc, s)).1, none), (l.foldl (filterListStep f g) (acc, s)).2) := by
  have := filterListRecS_append filter f g l [] acc s h
  rw [List.append_nil] at this
  rw [this, filterListRecS]

/-- util.go:filterList for a stateful `filter` that returns no Go error (`filter x s` = the list `f x s`, new state
    `g x s`): the left fold of `filterListStep f g` over the list, from `(nil, st)` -/
theorem T_filterList_fold {σ : Type} (l : List Val) (filter : Val → σ → G ((List Val × Option Err) × σ))
    (f : Val → σ → List Val) (g : Val → σ → σ) (st : σ)
    (h : ∀ x ∈ l, ∀ s, filter x s = .ok ((f x s, none), g x s)) :
    filterList' l filter st =
      .ok (((l.foldl (filterListStep f g) ([], st)).1, none), (l.foldl (filterListStep f g) ([], st)).2) := by
  rw [T_filterList_rec, filterListRecS_fold filter f g l [] st h]

/-- … when the FIRST element on which `filter` returns a Go error comes after `pre`: `(nil, err)` and the state as
    that call of `filter` left it, whatever list it returned beside the error and whatever happens later -/
theorem T_filterList_fold_err {σ : Type} (pre post : List Val) (x : Val)
    (filter : Val → σ → G ((List Val × Option Err) × σ)) (f : Val → σ → List Val) (g : Val → σ → σ) (st s' : σ)
    (j : List Val) (e : Err)
    (h : ∀ y ∈ pre, ∀ s, filter y s = .ok ((f y s, none), g y s))
    (hx : filter x (pre.foldl (filterListStep f g) ([], st)).2 = .ok ((j, some e), s')) :
    filterList' (pre ++ x :: post) filter st = .ok (([], some e), s') := by
  rw [T_filterList_rec, filterListRecS_append filter f g pre _ _ _ h]
  simp only [filterListRecS, hx]

/-- … when `filter` itself fails (it ran out of fuel): the failure propagates -/
theorem T_filterList_fold_gerr {σ : Type} (pre post : List Val) (x : Val)
    (filter : Val → σ → G ((List Val × Option Err) × σ)) (f : Val → σ → List Val) (g : Val → σ → σ) (st : σ)
    (ge : GErr)
    (h : ∀ y ∈ pre, ∀ s, filter y s = .ok ((f y s, none), g y s))
    (hx : filter x (pre.foldl (filterListStep f g) ([], st)).2 = .error ge) :
    filterList' (pre ++ x :: post) filter st = .error ge := by
  rw [T_filterList_rec, filterListRecS_append filter f g pre _ _ _ h]
  simp only [filterListRecS, hx]

/-! ### filters that do not touch the state -/

theorem foldl_filterListStep_const {σ : Type} (f : Val → List Val) (l acc : List Val) (s : σ) :
    l.foldl (filterListStep (fun x _ => f x) (fun _ s => s)) (acc, s) = (acc ++ l.flatMap f, s) := by
  induction l generalizing acc with
  | nil => simp
  | cons x xs ih => rw [List.foldl_cons, filterListStep, ih]; simp

/-- util.go:filterList when `filter` succeeds on every element and leaves the state alone: the concatenation of the
    per-element results, and the initial state -/
theorem T_filterList_spec {σ : Type} (l : List Val) (filter : Val → σ → G ((List Val × Option Err) × σ))
    (f : Val → List Val) (st : σ) (h : ∀ x ∈ l, ∀ s, filter x s = .ok ((f x, none), s)) :
    filterList' l filter st = .ok ((l.flatMap f, none), st) := by
  rw [T_filterList_fold l filter (fun x _ => f x) (fun _ s => s) st h, foldl_filterListStep_const]
  simp

/-- util.go:filterList when `filter` returns a Go error: the FIRST such element stops the loop with `(nil, err)`,
    whatever list `filter` returned beside the error and whatever `filter` does on the later elements -/
theorem T_filterList_spec_err {σ : Type} (pre post : List Val) (x : Val)
    (filter : Val → σ → G ((List Val × Option Err) × σ)) (f : Val → List Val) (st s' : σ) (j : List Val) (e : Err)
    (h : ∀ y ∈ pre, ∀ s, filter y s = .ok ((f y, none), s)) (hx : filter x st = .ok ((j, some e), s')) :
    filterList' (pre ++ x :: post) filter st = .ok (([], some e), s') :=
  T_filterList_fold_err pre post x filter (fun x _ => f x) (fun _ s => s) st s' j e h
    (by rw [foldl_filterListStep_const]; exact hx)

/-- util.go:filterList when `filter` itself fails (it ran out of fuel): the failure propagates -/
theorem T_filterList_spec_gerr {σ : Type} (pre post : List Val) (x : Val)
    (filter : Val → σ → G ((List Val × Option Err) × σ)) (f : Val → List Val) (st : σ) (ge : GErr)
    (h : ∀ y ∈ pre, ∀ s, filter y s = .ok ((f y, none), s)) (hx : filter x st = .error ge) :
    filterList' (pre ++ x :: post) filter st = .error ge :=
  T_filterList_fold_gerr pre post x filter (fun x _ => f x) (fun _ s => s) st ge h
    (by rw [foldl_filterListStep_const]; exact hx)

/-- non-vacuity of the specifications: a filter that drops `null`, keeps strings twice, rejects booleans and fails on
    integers; its state counts the calls -/
def exampleFilter : Val → Nat → G ((List Val × Option Err) × Nat)
  | .null, n => .ok (([], none), n + 1)
  | .bool _, n => .ok (([.null], some Err.invalidType), n + 1)
  | .int _, _ => .error GErr.fuel
  | x, n => .ok (([x, x], none), n + 1)

/-- … and the same filter without a state -/
def exampleFilterU (x : Val) (_ : Unit) : G ((List Val × Option Err) × Unit) :=
  match exampleFilter x 0 with
  | .error ge => .error ge
  | .ok (r, _) => .ok (r, ())

example : filterList' [.str "a", .null, .str "b"] exampleFilter 5
    = .ok (([.str "a", .str "a", .str "b", .str "b"], none), 8) :=
  T_filterList_fold _ _ (fun x _ => match x with | .null => [] | x => [x, x]) (fun _ n => n + 1) 5
    (by simp [exampleFilter])
example : filterList' ([.str "a", .null] ++ .bool true :: [.int 1]) exampleFilter 5
    = .ok (([], some Err.invalidType), 8) :=
  T_filterList_fold_err _ _ _ _ (fun x _ => match x with | .null => [] | x => [x, x]) (fun _ n => n + 1) 5 8 [.null] _
    (by simp [exampleFilter]) rfl
example : filterList' ([.str "a", .null] ++ .int 1 :: [.bool true]) exampleFilter 5 = .error GErr.fuel :=
  T_filterList_fold_gerr _ _ _ _ (fun x _ => match x with | .null => [] | x => [x, x]) (fun _ n => n + 1) 5 _
    (by simp [exampleFilter]) rfl
example : filterList' [.str "a", .null, .str "b"] exampleFilterU ()
    = .ok (([.str "a", .str "a", .str "b", .str "b"], none), ()) :=
  T_filterList_spec _ _ (fun x => match x with | .null => [] | x => [x, x]) () (by simp [exampleFilterU, exampleFilter])
example : filterList' ([.str "a", .null] ++ .bool true :: [.int 1]) exampleFilterU ()
    = .ok (([], some Err.invalidType), ()) :=
  T_filterList_spec_err _ _ _ _ (fun x => match x with | .null => [] | x => [x, x]) () () [.null] _
    (by simp [exampleFilterU, exampleFilter]) rfl
example : filterList' ([.str "a", .null] ++ .int 1 :: [.bool true]) exampleFilterU () = .error GErr.fuel :=
  T_filterList_spec_gerr _ _ _ _ (fun x => match x with | .null => [] | x => [x, x]) () _
    (by simp [exampleFilterU, exampleFilter]) rfl

/-! ### filters given by a model function with errors -/

/-- `flatMap` for a function that may fail: the first failure (in list order) is the result -/
def flatMapR {α β : Type} (g : α → R (List β)) : List α → R (List β)
  | [] => .ok []
  | x :: xs =>
    match g x with
    | .error e => .error e
    | .ok a =>
      match flatMapR g xs with
      | .error e => .error e
      | .ok r => .ok (a ++ r)

/-- the same as a left fold with an accumulator (the shape of the model's `popListMapBool`) -/
theorem foldlM_eq_flatMapR {α β : Type} (g : α → R (List β)) (l : List α) (acc : List β) :
    l.foldlM (fun acc x => (g x).map (acc ++ ·)) acc = (flatMapR g l).map (acc ++ ·) := by
  induction l generalizing acc with
  | nil => simp [flatMapR, Except.map, pure, Except.pure]
  | cons x xs ih =>
    rw [List.foldlM_cons]
    cases hg : g x with
    | error e => simp [flatMapR, hg, Except.map, bind, Except.bind]
    | ok a =>
      show List.foldlM _ (acc ++ a) xs = _
      rw [ih, flatMapR, hg]
      cases flatMapR g xs <;> simp [Except.map]

theorem flatMapR_of_ok {α β : Type} (g : α → R (List β)) (f : α → List β) (l : List α)
    (h : ∀ x ∈ l, g x = .ok (f x)) : flatMapR g l = .ok (l.flatMap f) := by
  induction l with
  | nil => rfl
  | cons x xs ih =>
    simp [flatMapR, h x List.mem_cons_self, ih (fun y hy => h y (List.mem_cons_of_mem _ hy))]

theorem filterListRecS_flatMapR {σ : Type} (filter : Val → σ → G ((List Val × Option Err) × σ))
    (g : Val → R (List Val)) (l acc : List Val) (s : σ)
    (hok : ∀ x ∈ l, ∀ r, g x = .ok r → ∀ s, filter x s = .ok ((r, none), s))
    (herr : ∀ x ∈ l, ∀ e, g x = .error e → ∀ s, ∃ j, filter x s = .ok ((j, some e), s)) :
    filterListRecS filter l acc s = .ok (match flatMapR g l with
      | .ok r => ((acc ++ r, none), s)
      | .error e => (([], some e), s)) := by
  induction l generalizing acc with
  | nil => simp [filterListRecS, flatMapR]
  | cons x xs ih =>
    cases hg : g x with
    | error e =>
      obtain ⟨j, hj⟩ := herr x List.mem_cons_self e hg s
      simp only [filterListRecS, flatMapR, hj, hg]
    | ok a =>
      simp only [filterListRecS, flatMapR, hok x List.mem_cons_self a hg, hg]
      rw [ih _ (fun y hy => hok y (List.mem_cons_of_mem _ hy)) (fun y hy => herr y (List.mem_cons_of_mem _ hy))]
      cases flatMapR g xs <;> simp

/-- util.go:filterList for a `filter` that leaves the state alone and implements a model function
    `g : Val → R (List Val)` (Go `(l, nil)` for `.ok l`, Go `(anything, err)` for `.error err`): the Go pair of
    `flatMapR g l`, and the initial state -/
theorem T_filterList_flatMapR {σ : Type} (l : List Val) (filter : Val → σ → G ((List Val × Option Err) × σ))
    (g : Val → R (List Val)) (st : σ)
    (hok : ∀ x ∈ l, ∀ r, g x = .ok r → ∀ s, filter x s = .ok ((r, none), s))
    (herr : ∀ x ∈ l, ∀ e, g x = .error e → ∀ s, ∃ j, filter x s = .ok ((j, some e), s)) :
    filterList' l filter st = .ok (match flatMapR g l with
      | .ok r => ((r, none), st)
      | .error e => (([], some e), st)) := by
  rw [T_filterList_rec, filterListRecS_flatMapR filter g l [] st hok herr]
  simp

/-! ### stateful filters given by a model step with errors -/

/-- the step of a model fold over `(state, accumulator)` (the shape of the model's `popListMapValue`) from a per-element
    function that returns the entries to append and the new state -/
def foldStepR {σ : Type} (step : Val → σ → R (List Val × σ)) (p : σ × List Val) (x : Val) : R (σ × List Val) :=
  match step x p.1 with
  | .error e => .error e
  | .ok (r, s') => .ok (s', p.2 ++ r)

theorem filterListRecS_foldlM {σ : Type} (filter : Val → σ → G ((List Val × Option Err) × σ))
    (step : Val → σ → R (List Val × σ)) (l acc : List Val) (s : σ)
    (hok : ∀ x ∈ l, ∀ s r s', step x s = .ok (r, s') → filter x s = .ok ((r, none), s'))
    (herr : ∀ x ∈ l, ∀ s e, step x s = .error e → ∃ j s', filter x s = .ok ((j, some e), s')) :
    ∃ se, filterListRecS filter l acc s = .ok (match l.foldlM (foldStepR step) (s, acc) with
      | .ok (s1, r) => ((r, none), s1)
      | .error e => (([], some e), se)) := by
  induction l generalizing acc s with
  | nil => exact ⟨s, rfl⟩
  | cons x xs ih =>
    rw [List.foldlM_cons]
    cases hg : step x s with
    | error e =>
      obtain ⟨j, s', hj⟩ := herr x List.mem_cons_self s e hg
      exact ⟨s', by simp only [filterListRecS, hj, foldStepR, hg, bind, Except.bind]⟩
    | ok p =>
      obtain ⟨r, s1⟩ := p
      obtain ⟨se, hse⟩ := ih (acc ++ r) s1 (fun y hy => hok y (List.mem_cons_of_mem _ hy))
        (fun y hy => herr y (List.mem_cons_of_mem _ hy))
      exact ⟨se, by simp only [filterListRecS, hok x List.mem_cons_self s r s1 hg, hse, foldStepR, hg, bind, Except.bind]⟩

/-- util.go:filterList for a stateful `filter` that implements a model step `step : Val → σ → R (List Val × σ)` (Go
    `(l, nil)` and the new state for `.ok (l, s')`, Go `(anything, err)` and any state for `.error err`): the Go pair
    and the state of the model's left fold with errors; after a Go error the state is whatever `filter` left -/
theorem T_filterList_foldlM {σ : Type} (l : List Val) (filter : Val → σ → G ((List Val × Option Err) × σ))
    (step : Val → σ → R (List Val × σ)) (st : σ)
    (hok : ∀ x ∈ l, ∀ s r s', step x s = .ok (r, s') → filter x s = .ok ((r, none), s'))
    (herr : ∀ x ∈ l, ∀ s e, step x s = .error e → ∃ j s', filter x s = .ok ((j, some e), s')) :
    ∃ se, filterList' l filter st = .ok (match l.foldlM (foldStepR step) (st, []) with
      | .ok (s1, r) => ((r, none), s1)
      | .error e => (([], some e), se)) := by
  rw [T_filterList_rec]
  exact filterListRecS_foldlM filter step l [] st hok herr

/-- … when the model fold succeeds -/
theorem T_filterList_foldlM_ok {σ : Type} (l : List Val) (filter : Val → σ → G ((List Val × Option Err) × σ))
    (step : Val → σ → R (List Val × σ)) (st s1 : σ) (r : List Val)
    (hok : ∀ x ∈ l, ∀ s r s', step x s = .ok (r, s') → filter x s = .ok ((r, none), s'))
    (herr : ∀ x ∈ l, ∀ s e, step x s = .error e → ∃ j s', filter x s = .ok ((j, some e), s'))
    (h : l.foldlM (foldStepR step) (st, []) = .ok (s1, r)) :
    filterList' l filter st = .ok ((r, none), s1) := by
  obtain ⟨se, hse⟩ := T_filterList_foldlM l filter step st hok herr
  rw [hse, h]

/-- … when the model fold fails -/
theorem T_filterList_foldlM_err {σ : Type} (l : List Val) (filter : Val → σ → G ((List Val × Option Err) × σ))
    (step : Val → σ → R (List Val × σ)) (st : σ) (e : Err)
    (hok : ∀ x ∈ l, ∀ s r s', step x s = .ok (r, s') → filter x s = .ok ((r, none), s'))
    (herr : ∀ x ∈ l, ∀ s e, step x s = .error e → ∃ j s', filter x s = .ok ((j, some e), s'))
    (h : l.foldlM (foldStepR step) (st, []) = .error e) :
    ∃ se, filterList' l filter st = .ok (([], some e), se) := by
  obtain ⟨se, hse⟩ := T_filterList_foldlM l filter step st hok herr
  exact ⟨se, by rw [hse, h]⟩

/-- the same, for use on a hypothesis `filterList' l filter st = res` (the filter need not be written out) -/
theorem filterList_foldlM_of_eq {σ : Type} {l : List Val} {filter : Val → σ → G ((List Val × Option Err) × σ)} {st : σ}
    {res : G ((List Val × Option Err) × σ)} (hR : filterList' l filter st = res) (step : Val → σ → R (List Val × σ))
    (hok : ∀ x ∈ l, ∀ s r s', step x s = .ok (r, s') → filter x s = .ok ((r, none), s'))
    (herr : ∀ x ∈ l, ∀ s e, step x s = .error e → ∃ j s', filter x s = .ok ((j, some e), s')) :
    ∃ se, res = .ok (match l.foldlM (foldStepR step) (st, []) with
      | .ok (s1, r) => ((r, none), s1)
      | .error e => (([], some e), se)) := by
  subst hR
  exact T_filterList_foldlM l filter step st hok herr

/-! ## filterMap -/

/-- `filterMap` as a plain recursion (`acc` = the Go variable `ret`, `s` = the variables the function literal assigns):
    the entries are visited in order, each result map is written into `ret` entry by entry (`ret[k2] = v2`, i.e.
    `fsetAll`) and the state is threaded; the first entry whose `filter` returns a Go error stops with `(nil, err)` and
    the state as `filter` left it; a failure of `filter` itself (fuel) propagates -/
def filterMapRecS {σ : Type} (filter : String → Val → σ → G ((Fields × Option Err) × σ)) :
    Fields → Fields → σ → G ((Fields × Option Err) × σ)
  | [], acc, s => .ok ((acc, none), s)
  | (k, v) :: rest, acc, s =>
    match filter k v s with
    | .error ge => .error ge
    | .ok ((m2, none), s') => filterMapRecS filter rest (fsetAll acc m2) s'
    | .ok ((_, some e), s') => .ok (([], some e), s')

/-- the inner loop of filterMap: `for k2, v2 := range m2 { ret[k2] = v2 }` -/
theorem filterMap_inner {ρ : Type} (m2 acc : Fields) (body : String × Val → Fields → G (Loop Fields ρ))
    (hbody : ∀ p acc, body p acc = .ok (.next (fset acc p.1 p.2))) :
    forRange m2 acc body = .ok (.inl (fsetAll acc m2)) := by
  rw [forRange_fold (fun acc (p : String × Val) => fset acc p.1 p.2) m2 acc body (fun p _ s => hbody p s)]
  rfl

/-- the outer loop of filterMap, from any accumulator and state -/
theorem filterMap_loop {σ : Type} (filter : String → Val → σ → G ((Fields × Option Err) × σ)) (m acc : Fields) (s : σ)
    (body : String × Val → Fields × σ → G (Loop (Fields × σ) ((Fields × Option Err) × σ)))
    (hbody : ∀ k v acc s, body (k, v) (acc, s) = (match filter k v s with
      | .error ge => .error ge
      | .ok ((m2, none), s') => .ok (.next (fsetAll acc m2, s'))
      | .ok ((_, some e), s') => .ok (.ret (([], some e), s')))) :
    forRange m (acc, s) body = (match filterMapRecS filter m acc s with
      | .error ge => .error ge
      | .ok ((r, none), s') => .ok (.inl (r, s'))
      | .ok ((r, some e), s') => .ok (.inr ((r, some e), s'))) := by
  induction m generalizing acc s with
  | nil => rfl
  | cons p rest ih =>
    obtain ⟨k, v⟩ := p
    cases h : filter k v s with
    | error ge =>
      rw [forRange_cons_error (e := ge) (by rw [hbody, h])]
      simp only [filterMapRecS, h]
    | ok q =>
      obtain ⟨⟨m2, o⟩, s'⟩ := q
      cases o with
      | none =>
        rw [forRange_cons_next (s' := (fsetAll acc m2, s')) (by rw [hbody, h]), ih]
        simp only [filterMapRecS, h]
      | some e =>
        rw [forRange_cons_ret (r := (([], some e), s')) (by rw [hbody, h])]
        simp only [filterMapRecS, h]

/-- util.go:filterMap, for every `filter` and every initial state: the plain recursion `filterMapRecS` from the empty
    map -/
theorem T_filterMap_rec {σ : Type} (m : Fields) (filter : String → Val → σ → G ((Fields × Option Err) × σ)) (st : σ) :
    filterMap' m filter st = filterMapRecS filter m [] st := by
  unfold filterMap'
  simp only []
  rw [filterMap_loop filter m [] st]
  · cases filterMapRecS filter m [] st with
    | error ge => rfl
    | ok p => obtain ⟨⟨r, o⟩, s'⟩ := p; cases o <;> rfl
  · intro k v acc s
    cases filter k v s with
    | error ge => rfl
    | ok p =>
      obtain ⟨⟨m2, o⟩, s'⟩ := p
      cases o with
      | some e => simp
      | none =>
        simp only []
        rw [filterMap_inner m2 acc _ (fun p acc => rfl)]
        simp

/-! ### stateful filters that return no Go error: a left fold -/

/-- one step of `filterMap` for a filter that returns the map `f k v s` and the new state `g k v s` -/
def filterMapStep {σ : Type} (f : String → Val → σ → Fields) (g : String → Val → σ → σ) (p : Fields × σ)
    (q : String × Val) : Fields × σ :=
  (fsetAll p.1 (f q.1 q.2 p.2), g q.1 q.2 p.2)

theorem filterMapRecS_append {σ : Type} (filter : String → Val → σ → G ((Fields × Option Err) × σ))
    (f : String → Val → σ → Fields) (g : String → Val → σ → σ) (pre post acc : Fields) (s : σ)
    (h : ∀ p ∈ pre, ∀ s, filter p.1 p.2 s = .ok ((f p.1 p.2 s, none), g p.1 p.2 s)) :
    filterMapRecS filter (pre ++ post) acc s =
      filterMapRecS filter post (pre.foldl (filterMapStep f g) (acc, s)).1
        (pre.foldl (filterMapStep f g) (acc, s)).2 := by
  induction pre generalizing acc s with
  | nil => rfl
  | cons p rest ih =>
    obtain ⟨k, v⟩ := p
    simp only [List.cons_append, filterMapRecS, h (k, v) List.mem_cons_self]
    rw [ih _ _ (fun q hq => h q (List.mem_cons_of_mem _ hq))]
    rfl

theorem filterMapRecS_fold {σ : Type} (filter : String → Val → σ → G ((Fields × Option Err) × σ))
    (f : String → Val → σ → Fields) (g : String → Val → σ → σ) (m acc : Fields) (s : σ)
    (h : ∀ p ∈ m, ∀ s, filter p.1 p.2 s = .ok ((f p.1 p.2 s, none), g p.1 p.2 s)) :
    filterMapRecS filter m acc s =
      .ok (((m.foldl (filterMapStep f g) (acc, s)).1, none), (m.foldl (filterMapStep f g) (acc, s)).2) := by
  have := filterMapRecS_append filter f g m [] acc s h
  rw [List.append_nil] at this
  rw [this, filterMapRecS]

/-- util.go:filterMap for a stateful `filter` that returns no Go error (`filter k v s` = the map `f k v s`, new state
    `g k v s`): the left fold of `filterMapStep f g` over the entries in order, from `({}, st)` — every result map is
    merged into the accumulator with `fsetAll` (`ret[k2] = v2` for each of its entries, later writes win) -/
theorem T_filterMap_fold {σ : Type} (m : Fields) (filter : String → Val → σ → G ((Fields × Option Err) × σ))
    (f : String → Val → σ → Fields) (g : String → Val → σ → σ) (st : σ)
    (h : ∀ p ∈ m, ∀ s, filter p.1 p.2 s = .ok ((f p.1 p.2 s, none), g p.1 p.2 s)) :
    filterMap' m filter st =
      .ok (((m.foldl (filterMapStep f g) ([], st)).1, none), (m.foldl (filterMapStep f g) ([], st)).2) := by
  rw [T_filterMap_rec, filterMapRecS_fold filter f g m [] st h]

/-- … when the FIRST entry on which `filter` returns a Go error comes after `pre`: `(nil, err)` and the state as that
    call of `filter` left it -/
theorem T_filterMap_fold_err {σ : Type} (pre post : Fields) (k : String) (v : Val)
    (filter : String → Val → σ → G ((Fields × Option Err) × σ)) (f : String → Val → σ → Fields)
    (g : String → Val → σ → σ) (st s' : σ) (j : Fields) (e : Err)
    (h : ∀ p ∈ pre, ∀ s, filter p.1 p.2 s = .ok ((f p.1 p.2 s, none), g p.1 p.2 s))
    (hx : filter k v (pre.foldl (filterMapStep f g) ([], st)).2 = .ok ((j, some e), s')) :
    filterMap' (pre ++ (k, v) :: post) filter st = .ok (([], some e), s') := by
  rw [T_filterMap_rec, filterMapRecS_append filter f g pre _ _ _ h]
  simp only [filterMapRecS, hx]

/-- … when `filter` itself fails (it ran out of fuel): the failure propagates -/
theorem T_filterMap_fold_gerr {σ : Type} (pre post : Fields) (k : String) (v : Val)
    (filter : String → Val → σ → G ((Fields × Option Err) × σ)) (f : String → Val → σ → Fields)
    (g : String → Val → σ → σ) (st : σ) (ge : GErr)
    (h : ∀ p ∈ pre, ∀ s, filter p.1 p.2 s = .ok ((f p.1 p.2 s, none), g p.1 p.2 s))
    (hx : filter k v (pre.foldl (filterMapStep f g) ([], st)).2 = .error ge) :
    filterMap' (pre ++ (k, v) :: post) filter st = .error ge := by
  rw [T_filterMap_rec, filterMapRecS_append filter f g pre _ _ _ h]
  simp only [filterMapRecS, hx]

/-! ### filters that do not touch the state -/

theorem foldl_filterMapStep_const {σ : Type} (f : String → Val → Fields) (m acc : Fields) (s : σ) :
    m.foldl (filterMapStep (fun k v _ => f k v) (fun _ _ s => s)) (acc, s)
      = (m.foldl (fun acc p => fsetAll acc (f p.1 p.2)) acc, s) := by
  induction m generalizing acc with
  | nil => rfl
  | cons p rest ih => rw [List.foldl_cons, filterMapStep, ih]; rfl

theorem fsetAll_append (acc a b : Fields) : fsetAll acc (a ++ b) = fsetAll (fsetAll acc a) b := by
  simp [fsetAll]

theorem foldl_fsetAll_eq_flatMap (f : String → Val → Fields) (m acc : Fields) :
    m.foldl (fun acc p => fsetAll acc (f p.1 p.2)) acc = fsetAll acc (m.flatMap (fun p => f p.1 p.2)) := by
  induction m generalizing acc with
  | nil => simp [fsetAll]
  | cons p rest ih => rw [List.foldl_cons, ih, List.flatMap_cons, fsetAll_append]

/-- util.go:filterMap when `filter` succeeds on every entry and leaves the state alone: the entries are visited in
    order and every result map is merged into the accumulator with `fsetAll` (`ret[k2] = v2` for each of its entries,
    later writes win); the state is the initial one -/
theorem T_filterMap_spec {σ : Type} (m : Fields) (filter : String → Val → σ → G ((Fields × Option Err) × σ))
    (f : String → Val → Fields) (st : σ) (h : ∀ p ∈ m, ∀ s, filter p.1 p.2 s = .ok ((f p.1 p.2, none), s)) :
    filterMap' m filter st = .ok ((m.foldl (fun acc p => fsetAll acc (f p.1 p.2)) [], none), st) := by
  rw [T_filterMap_fold m filter (fun k v _ => f k v) (fun _ _ s => s) st h, foldl_filterMapStep_const]

/-- … i.e. the map built (`fofList`) from the concatenation of the per-entry results -/
theorem T_filterMap_spec_flatMap {σ : Type} (m : Fields) (filter : String → Val → σ → G ((Fields × Option Err) × σ))
    (f : String → Val → Fields) (st : σ) (h : ∀ p ∈ m, ∀ s, filter p.1 p.2 s = .ok ((f p.1 p.2, none), s)) :
    filterMap' m filter st = .ok ((fofList (m.flatMap (fun p => f p.1 p.2)), none), st) := by
  rw [T_filterMap_spec m filter f st h, foldl_fsetAll_eq_flatMap, fofList]

/-- util.go:filterMap when `filter` returns a Go error: the FIRST such entry stops the loop with `(nil, err)` -/
theorem T_filterMap_spec_err {σ : Type} (pre post : Fields) (k : String) (v : Val)
    (filter : String → Val → σ → G ((Fields × Option Err) × σ)) (f : String → Val → Fields) (st s' : σ) (j : Fields)
    (e : Err) (h : ∀ p ∈ pre, ∀ s, filter p.1 p.2 s = .ok ((f p.1 p.2, none), s))
    (hx : filter k v st = .ok ((j, some e), s')) :
    filterMap' (pre ++ (k, v) :: post) filter st = .ok (([], some e), s') :=
  T_filterMap_fold_err pre post k v filter (fun k v _ => f k v) (fun _ _ s => s) st s' j e h
    (by rw [foldl_filterMapStep_const]; exact hx)

/-- util.go:filterMap when `filter` itself fails (it ran out of fuel): the failure propagates -/
theorem T_filterMap_spec_gerr {σ : Type} (pre post : Fields) (k : String) (v : Val)
    (filter : String → Val → σ → G ((Fields × Option Err) × σ)) (f : String → Val → Fields) (st : σ) (ge : GErr)
    (h : ∀ p ∈ pre, ∀ s, filter p.1 p.2 s = .ok ((f p.1 p.2, none), s)) (hx : filter k v st = .error ge) :
    filterMap' (pre ++ (k, v) :: post) filter st = .error ge :=
  T_filterMap_fold_gerr pre post k v filter (fun k v _ => f k v) (fun _ _ s => s) st ge h
    (by rw [foldl_filterMapStep_const]; exact hx)

/-- non-vacuity: a filter that renames every key to "x" (later entries win), drops `null`, rejects booleans and
    fails on integers; its state collects the keys it has seen -/
def exampleFilterMap : String → Val → List String → G ((Fields × Option Err) × List String)
  | k, .null, ks => .ok (([], none), k :: ks)
  | k, .bool _, ks => .ok (([("junk", .null)], some Err.invalidType), k :: ks)
  | _, .int _, _ => .error GErr.fuel
  | k, x, ks => .ok (([("x", x), (k, x)], none), k :: ks)

/-- … and the same filter without a state -/
def exampleFilterMapU (k : String) (x : Val) (_ : Unit) : G ((Fields × Option Err) × Unit) :=
  match exampleFilterMap k x [] with
  | .error ge => .error ge
  | .ok (r, _) => .ok (r, ())

example : filterMap' [("b", .str "1"), ("a", .null), ("c", .str "2")] exampleFilterMap []
    = .ok (([("b", .str "1"), ("c", .str "2"), ("x", .str "2")], none), ["c", "a", "b"]) :=
  T_filterMap_fold _ _ (fun k x _ => match x with | .null => [] | x => [("x", x), (k, x)]) (fun k _ ks => k :: ks) []
    (by simp [exampleFilterMap])
example : filterMap' ([("b", .str "1"), ("a", .null)] ++ ("c", .bool true) :: [("d", .int 1)]) exampleFilterMap []
    = .ok (([], some Err.invalidType), ["c", "a", "b"]) :=
  T_filterMap_fold_err _ _ _ _ _ (fun k x _ => match x with | .null => [] | x => [("x", x), (k, x)])
    (fun k _ ks => k :: ks) [] _ _ _ (by simp [exampleFilterMap]) rfl
example : filterMap' ([("b", .str "1"), ("a", .null)] ++ ("c", .int 1) :: [("d", .bool true)]) exampleFilterMap []
    = .error GErr.fuel :=
  T_filterMap_fold_gerr _ _ _ _ _ (fun k x _ => match x with | .null => [] | x => [("x", x), (k, x)])
    (fun k _ ks => k :: ks) [] _ (by simp [exampleFilterMap]) rfl
example : filterMap' [("b", .str "1"), ("a", .null), ("c", .str "2")] exampleFilterMapU ()
    = .ok (([("b", .str "1"), ("c", .str "2"), ("x", .str "2")], none), ()) :=
  T_filterMap_spec _ _ (fun k x => match x with | .null => [] | x => [("x", x), (k, x)]) ()
    (by simp [exampleFilterMapU, exampleFilterMap])
example : filterMap' ([("b", .str "1"), ("a", .null)] ++ ("c", .bool true) :: [("d", .int 1)]) exampleFilterMapU ()
    = .ok (([], some Err.invalidType), ()) :=
  T_filterMap_spec_err _ _ _ _ _ (fun k x => match x with | .null => [] | x => [("x", x), (k, x)]) () () _ _
    (by simp [exampleFilterMapU, exampleFilterMap]) rfl
example : filterMap' ([("b", .str "1"), ("a", .null)] ++ ("c", .int 1) :: [("d", .bool true)]) exampleFilterMapU ()
    = .error GErr.fuel :=
  T_filterMap_spec_gerr _ _ _ _ _ (fun k x => match x with | .null => [] | x => [("x", x), (k, x)]) () _
    (by simp [exampleFilterMapU, exampleFilterMap]) rfl

/-! ## popListString -/

theorem foldl_popListString (v : String) (l acc : List Val) (b : Bool) :
    l.foldl (filterListStep (fun x _ => if x == Val.str v then [] else [x])
        (fun x (found : Bool) => if x == Val.str v then true else found)) (acc, b)
      = (acc ++ l.filter (fun x => !(x == Val.str v)), b || l.any (fun x => x == Val.str v)) := by
  induction l generalizing acc b with
  | nil => simp
  | cons x xs ih =>
    rw [List.foldl_cons, filterListStep, ih]
    by_cases hx : x = Val.str v
    · simp [hx]
    · have hb : (x == Val.str v) = false := by simpa using hx
      simp [hb]

/-- util.go:popListString is the model's `popListString`: whether the string `v` is an entry of the list, and the list
    without these entries -/
theorem T_popListString_eq (l : List Val) (v : String) : popListString' l v = .ok (popListString l v) := by
  unfold popListString'
  simp only []
  rw [T_filterList_fold l _ (fun x _ => if x == Val.str v then [] else [x])
    (fun x (found : Bool) => if x == Val.str v then true else found) false, foldl_popListString]
  · simp [popListString]
  · intro x _ s
    cases x with
    | str s' => by_cases h : s' = v <;> simp [asStr, h]
    | _ => simp [asStr]

example : popListString' [.str "a", .null, .str "b", .str "a", .map [("a", .str "a")]] "a"
    = .ok (true, [.null, .str "b", .map [("a", .str "a")]]) := by rw [T_popListString_eq]; rfl
example : popListString' [.null, .str "b"] "a" = .ok (false, [.null, .str "b"]) := by rfl

/-! ## popListMapValue -/

/-- what one list entry does in `popListMapValue` when the value found so far is `ret`: a single-key map `{k: val}` is
    dropped and `val` becomes the value — an error if a non-null value was found before —, every other entry is kept -/
def popValueEntry (k : String) : Val → Val → R (List Val × Val)
  | .map m, ret =>
    if m.length != 1 then .ok ([.map m], ret)
    else match fget m k with
      | some val => if !ret.isNull then .error Err.extraKeys else .ok ([], val)
      | none => .ok ([.map m], ret)
  | x, ret => .ok ([x], ret)

/-- the model's `popListMapValue` is the fold of `popValueEntry` -/
theorem popListMapValue_eq_foldStepR (l : List Val) (k : String) :
    popListMapValue l k = l.foldlM (foldStepR (popValueEntry k)) (Val.null, []) := by
  unfold popListMapValue
  congr 1
  funext p x
  obtain ⟨ret, acc⟩ := p
  cases x with
  | map m =>
    simp only [foldStepR, popValueEntry]
    by_cases h1 : m.length = 1
    · cases h2 : fget m k with
      | none => simp [h1, pure, Except.pure]
      | some val => cases ret <;> simp [h1, Val.isNull, pure, Except.pure, throw, throwThe, MonadExceptOf.throw]
    · simp [h1, pure, Except.pure]
  | _ => simp [foldStepR, popValueEntry, pure, Except.pure]

theorem int_ofNat_bne_one (n : Nat) : ((Int.ofNat n) != (1 : Int)) = (n != 1) := by
  by_cases hn : n = 1
  · subst hn; rfl
  · have h' : ¬ Int.ofNat n = 1 := by simp only [Int.ofNat_eq_natCast]; omega
    rw [(bne_iff_ne).2 h', (bne_iff_ne).2 hn]

theorem ne_null_eq_not_isNull (v : Val) : (v != Val.null) = !v.isNull := by
  cases v <;> simp [Val.isNull]

theorem int_ofNat_beq_one (n : Nat) : ((Int.ofNat n) == (1 : Int)) = (n == 1) := by
  have h := int_ofNat_bne_one n
  simp only [bne] at h
  cases h1 : (Int.ofNat n == (1 : Int)) <;> cases h2 : (n == 1) <;> simp_all

theorem beq_null_eq_isNull (v : Val) : (v == Val.null) = v.isNull := by
  cases v <;> simp [Val.isNull]

/-- util.go:popListMapValue is the model's `popListMapValue`: `(value, rest, nil)`, or `(nil, nil, err)` -/
theorem T_popListMapValue_eq (l : List Val) (k : String) :
    popListMapValue' l k = .ok (match popListMapValue l k with
      | .ok (v, rest) => (v, rest, none)
      | .error e => (.null, [], some e)) := by
  unfold popListMapValue'
  simp only []
  generalize hR : filterList' l _ Val.null = res
  refine Exists.elim (filterList_foldlM_of_eq hR (popValueEntry k) ?_ ?_) ?_
  · clear hR
    intro x _ s r s' hr
    cases x with
    | map m =>
      simp only [popValueEntry] at hr
      simp only [asMap, T_popMapValue_eq, beq_null_eq_isNull, int_ofNat_beq_one]
      by_cases h1 : m.length = 1
      · cases h2 : fget m k with
        | none => simp_all [fdel_of_not_mem h2]
        | some val => cases hs : s.isNull <;> simp_all
      · simp_all
    | _ => simp_all [popValueEntry, asMap]
  · clear hR
    intro x _ s e he
    cases x with
    | map m =>
      simp only [popValueEntry] at he
      simp only [asMap, T_popMapValue_eq, beq_null_eq_isNull, int_ofNat_beq_one]
      by_cases h1 : m.length = 1
      · cases h2 : fget m k with
        | none => simp_all
        | some val => cases hs : s.isNull <;> simp_all
      · simp_all
    | _ => simp_all [popValueEntry]
  · rintro se rfl
    rw [popListMapValue_eq_foldStepR]
    cases List.foldlM (foldStepR (popValueEntry k)) (Val.null, []) l with
    | error e => simp
    | ok p => obtain ⟨s1, r⟩ := p; simp

example : popListMapValue' [.str "a", .map [("$k", .str "v")], .map [("x", .null)]] "$k"
    = .ok (.str "v", [.str "a", .map [("x", .null)]], none) := by rw [T_popListMapValue_eq]; rfl
example : popListMapValue' [.map [("$k", .str "v")], .map [("$k", .str "w")]] "$k"
    = .ok (.null, [], some Err.extraKeys) := by rw [T_popListMapValue_eq]; rfl
/-- Go uses `ret != nil` as "already found": after a first value `null` a second marker entry is accepted -/
example : popListMapValue' [.map [("$k", .null)], .map [("$k", .str "w")]] "$k"
    = .ok (.str "w", [], none) := by rw [T_popListMapValue_eq]; rfl
/-- a marker entry with other keys is not a marker entry -/
example : popListMapValue' [.map [("$k", .str "v"), ("x", .null)]] "$k"
    = .ok (.null, [.map [("$k", .str "v"), ("x", .null)]], none) := by rfl

/-! ## popListMapBoolValue -/

/-- what one list entry contributes to the result of `popListMapBoolValue`: a marker entry `{k: b}` nothing, a marker
    entry with other keys an error, every other entry itself -/
def popBoolEntry (k : String) (b : Bool) : Val → R (List Val)
  | .map m => if fhasBool m k b then (if (fdel m k).length > 0 then .error Err.extraKeys else .ok []) else .ok [.map m]
  | x => .ok [x]

/-- a left fold whose step appends `g x` to the accumulator, followed by a pure function -/
theorem foldlM_step_eq_flatMapR {α β γ : Type} (g : α → R (List β)) (l : List α) (F : List β → α → R (List β))
    (c : List β → γ) (hF : ∀ acc x, F acc x = (g x).map (acc ++ ·)) :
    (l.foldlM F [] >>= fun rest => pure (c rest)) = (flatMapR g l).map c := by
  rw [show F = fun acc x => (g x).map (acc ++ ·) from funext fun acc => funext fun x => hF acc x,
    foldlM_eq_flatMapR]
  cases flatMapR g l <;> simp [Except.map, bind, Except.bind, pure, Except.pure]

/-- the model's `popListMapBool` in terms of `flatMapR` -/
theorem popListMapBool_eq_flatMapR (l : List Val) (k : String) (b : Bool) :
    popListMapBool l k b = (if hasListMapBool l k b then (flatMapR (popBoolEntry k b) l).map (fun r => (true, r))
      else .ok (false, l)) := by
  unfold popListMapBool
  cases hasListMapBool l k b with
  | false => rfl
  | true =>
    simp only [Bool.not_true, Bool.false_eq_true, if_false, if_true]
    refine foldlM_step_eq_flatMapR (popBoolEntry k b) l _ (fun r => (true, r)) (fun acc x => ?_)
    cases x with
    | map m =>
      simp only [popBoolEntry]
      by_cases h1 : fhasBool m k b = true
      · by_cases h2 : (fdel m k).length > 0 <;>
          simp [h1, h2, Except.map, throw, throwThe, MonadExceptOf.throw, pure, Except.pure]
      · simp [h1, Except.map, pure, Except.pure]
    | _ => simp [popBoolEntry, Except.map, pure, Except.pure]

/-- util.go:popListMapBoolValue is the model's `popListMapBool`: `(found, rest, nil)`, or `(false, nil, err)` -/
theorem T_popListMapBoolValue_eq (l : List Val) (k : String) (v : Bool) :
    popListMapBoolValue' l k v = .ok (match popListMapBool l k v with
      | .ok (found, rest) => (found, rest, none)
      | .error e => (false, [], some e)) := by
  unfold popListMapBoolValue'
  rw [T_hasListMapBoolValue_eq, popListMapBool_eq_flatMapR]
  cases hasListMapBool l k v with
  | false => simp
  | true =>
    simp only [Bool.not_true, Bool.false_eq_true, if_false, if_true]
    rw [T_filterList_flatMapR l _ (popBoolEntry k v) ()]
    · cases flatMapR (popBoolEntry k v) l <;> simp [Except.map]
    · intro x _ r hr s
      cases x with
      | map m =>
        simp only [popBoolEntry] at hr
        simp only [asMap, T_popMapBoolValue_eq]
        cases hm : fhasBool m k v <;> simp_all
        split at hr <;> simp_all
      | _ => simp_all [popBoolEntry, asMap]
    · intro x _ e he s
      cases x with
      | map m =>
        simp only [popBoolEntry] at he
        simp only [asMap, T_popMapBoolValue_eq]
        cases hm : fhasBool m k v <;> simp_all
        split at he <;> simp_all [List.length_pos_iff]
      | _ => simp_all [popBoolEntry]

/-! ## popListMapStringValue -/

/-- what one list entry contributes to the result of `popListMapStringValue`: a map with a non-empty string under `k`
    nothing — an error if it has other keys —, every other entry itself -/
def popStrEntry (k : String) : Val → R (List Val)
  | .map m => if fgetStr m k != "" then (if (fdel m k).length > 0 then .error Err.extraKeys else .ok []) else .ok [.map m]
  | x => .ok [x]

/-- SPECIFICATION of util.go:popListMapStringValue (the model Bkl/Fields.lean has no such function): the first
    non-empty string stored under `k` in a map entry of `l` (`getListMapStr`); when there is none `("", l)`; otherwise
    every map entry that has a non-empty string under `k` is dropped — an error if such an entry has other keys -/
def popListMapStr (l : List Val) (k : String) : R (String × List Val) :=
  if getListMapStr l k == "" then .ok ("", l)
  else
    match flatMapR (popStrEntry k) l with
    | .error e => .error e
    | .ok rest => .ok (getListMapStr l k, rest)

/-- util.go:popListMapStringValue is the specification `popListMapStr`: `(value, rest, nil)`, or `("", nil, err)` -/
theorem T_popListMapStringValue_eq (l : List Val) (k : String) :
    popListMapStringValue' l k = .ok (match popListMapStr l k with
      | .ok (s, rest) => (s, rest, none)
      | .error e => ("", [], some e)) := by
  unfold popListMapStringValue' popListMapStr
  rw [T_getListMapStringValue_eq]
  by_cases hs : getListMapStr l k = ""
  · simp [hs]
  · simp only [beq_iff_eq, hs, if_false]
    rw [T_filterList_flatMapR l _ (popStrEntry k) ()]
    · cases flatMapR (popStrEntry k) l <;> simp
    · intro x _ r hr s
      cases x with
      | map m =>
        simp only [popStrEntry] at hr
        simp only [asMap, T_popMapStringValue_eq]
        by_cases hm : fgetStr m k = "" <;> simp_all
        split at hr <;> simp_all
      | _ => simp_all [popStrEntry, asMap]
    · intro x _ e he s
      cases x with
      | map m =>
        simp only [popStrEntry] at he
        simp only [asMap, T_popMapStringValue_eq]
        by_cases hm : fgetStr m k = "" <;> simp_all
        split at he <;> simp_all [List.length_pos_iff]
      | _ => simp_all [popStrEntry]

/-! ### what the specification says, without errors -/

/-- the marker entries of `popListMapStringValue` -/
def isStrMarker (k : String) : Val → Bool
  | .map m => fgetStr m k != ""
  | _ => false

theorem getListMapStr_ne_of_mem (l : List Val) (k : String) (m : Fields)
    (hm : Val.map m ∈ l) (hk : fgetStr m k ≠ "") : getListMapStr l k ≠ "" := by
  induction l with
  | nil => cases hm
  | cons x xs ih =>
    by_cases hx : (asMap x).2 = false
    · rw [getListMapStr_cons_other x xs k hx]
      rcases List.mem_cons.1 hm with rfl | hm'
      · simp [asMap] at hx
      · exact ih hm'
    · obtain ⟨m', rfl⟩ : ∃ m', x = .map m' := by cases x <;> simp_all [asMap]
      rw [getListMapStr_cons_map]
      by_cases h' : fgetStr m' k = ""
      · rcases List.mem_cons.1 hm with heq | hm'
        · cases heq; exact absurd h' hk
        · simpa [h'] using ih hm'
      · simp [h']

theorem flatMapR_popStrEntry_ok (l : List Val) (k : String)
    (h : ∀ m, Val.map m ∈ l → fgetStr m k ≠ "" → (fdel m k).length = 0) :
    flatMapR (popStrEntry k) l = .ok (l.filter (fun x => !isStrMarker k x)) := by
  induction l with
  | nil => rfl
  | cons x xs ih =>
    have ih' := ih (fun m hm => h m (List.mem_cons_of_mem _ hm))
    cases x with
    | map m =>
      by_cases hm : fgetStr m k = ""
      · simp [flatMapR, popStrEntry, isStrMarker, hm, ih']
      · simp [flatMapR, popStrEntry, isStrMarker, hm, ih', h m List.mem_cons_self hm]
    | _ => simp [flatMapR, popStrEntry, isStrMarker, ih']

theorem flatMapR_popStrEntry_err (l : List Val) (k : String) (m : Fields)
    (hm : Val.map m ∈ l) (hk : fgetStr m k ≠ "") (hx : (fdel m k).length > 0) :
    flatMapR (popStrEntry k) l = .error Err.extraKeys := by
  induction l with
  | nil => cases hm
  | cons x xs ih =>
    have hx' : (∃ a, popStrEntry k x = .ok a) ∨ popStrEntry k x = .error Err.extraKeys := by
      cases x with
      | map m' =>
        simp only [popStrEntry]
        by_cases h1 : fgetStr m' k = ""
        · simp [h1]
        · by_cases h2 : (fdel m' k).length > 0 <;> simp [h1, h2]
      | _ => simp [popStrEntry]
    rcases hx' with ⟨a, ha⟩ | ha
    · rcases List.mem_cons.1 hm with rfl | hm'
      · simp [popStrEntry, hk, hx] at ha
      · simp [flatMapR, ha, ih hm']
    · simp [flatMapR, ha]

/-- when no marker entry has other keys, the rest is the list without its marker entries … -/
theorem popListMapStr_ok (l : List Val) (k : String)
    (h : ∀ m, Val.map m ∈ l → fgetStr m k ≠ "" → (fdel m k).length = 0) :
    popListMapStr l k = .ok (getListMapStr l k, l.filter (fun x => !isStrMarker k x)) := by
  unfold popListMapStr
  rw [flatMapR_popStrEntry_ok l k h]
  by_cases hs : getListMapStr l k = ""
  · have hfil : l.filter (fun x => !isStrMarker k x) = l := by
      rw [List.filter_eq_self]
      intro x hx
      cases x with
      | map m =>
        by_cases hm : fgetStr m k = ""
        · simp [isStrMarker, hm]
        · exact absurd hs (getListMapStr_ne_of_mem l k m hx hm)
      | _ => simp [isStrMarker]
    simp [hs, hfil]
  · simp [hs]

/-- … and a marker entry with other keys is an error -/
theorem popListMapStr_err (l : List Val) (k : String) (m : Fields)
    (hm : Val.map m ∈ l) (hk : fgetStr m k ≠ "") (hx : (fdel m k).length > 0) :
    popListMapStr l k = .error Err.extraKeys := by
  unfold popListMapStr
  rw [flatMapR_popStrEntry_err l k m hm hk hx]
  simp [getListMapStr_ne_of_mem l k m hm hk]

/-- examples of the specification and of the translated functions -/
example : popListMapStr [.str "a", .map [("$k", .str "v")], .map [("x", .null)]] "$k"
    = .ok ("v", [.str "a", .map [("x", .null)]]) := by rfl
example : popListMapStr [.str "a", .map [("$k", .str "v"), ("x", .null)]] "$k" = .error Err.extraKeys := by rfl
example : popListMapStr [.str "a", .map [("$k", .str "")]] "$k" = .ok ("", [.str "a", .map [("$k", .str "")]]) := by rfl
example : popListMapStringValue' [.str "a", .map [("$k", .str "v"), ("x", .null)]] "$k"
    = .ok ("", [], some Err.extraKeys) := by
  rw [T_popListMapStringValue_eq]; rfl
example : popListMapStringValue' [.str "a", .map [("$k", .str "v")], .map [("$k", .str "w")], .null] "$k"
    = .ok ("v", [.str "a", .null], none) := by
  rw [T_popListMapStringValue_eq]; rfl
example : popListMapBoolValue' [.str "a", .map [("$k", .bool true), ("x", .null)]] "$k" true
    = .ok (false, [], some Err.extraKeys) := by
  rw [T_popListMapBoolValue_eq]; rfl
example : popListMapBoolValue' [.str "a", .map [("$k", .bool true)], .map [("$k", .bool false)]] "$k" true
    = .ok (true, [.str "a", .map [("$k", .bool false)]], none) := by
  rw [T_popListMapBoolValue_eq]; rfl
/-- … and the translated functions evaluated directly -/
example : popListMapStringValue' [.str "a", .map [("$k", .str "v")], .map [("$k", .str "w")], .null] "$k"
    = .ok ("v", [.str "a", .null], none) := by rfl
example : popListMapBoolValue' [.str "a", .map [("$k", .bool true), ("x", .null)]] "$k" true
    = .ok (false, [], some Err.extraKeys) := by rfl

end Bkl.Gen.Lib
