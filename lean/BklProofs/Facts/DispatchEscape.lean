/-
  Fact obligation F10, slice "escape": the directive literals, in source order, of every function of
  finalize.go, validate.go are the ones the model mirrors (table and explanation: BklProofs/Facts/Dispatch.lean).
-/
import BklProofs.Facts.Dispatch
namespace Bkl

theorem F10_dispatch_order_escape :
    seqOfFiles ["finalize.go", "validate.go"] Facts.directiveSeq = seqOfFiles ["finalize.go", "validate.go"] (expectedDirectiveSeq.map (·.1)) := by decide

end Bkl
